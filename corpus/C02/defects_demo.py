"""C02 defects, reproduced on the real code without the framework.
Run:  VERIF_REPO=<montepy tree> /venv/bin/python corpus/C02/defects_demo.py
On the unrepaired tree (57bfa4d .. 76a7c29) the lines marked BAD are printed; on branch fix-C02 none is."""
import os, sys, warnings
sys.path.insert(0, os.environ.get("VERIF_REPO", "/repo"))
warnings.filterwarnings("ignore")
import montepy
from montepy.input_parser.mcnp_input import Input
from montepy.input_parser.block_type import BlockType

def problem(cell_texts):
    prob = montepy.MCNP_Problem("demo")
    for n in range(1, 10):
        prob.surfaces.append(montepy.surfaces.surface_builder.surface_builder(Input([f"{n} PZ {n}.5"], BlockType.SURFACE)))
    for t in list(cell_texts) + ["91 0 -1"]:
        prob.cells.append(montepy.Cell(Input(t.split("\n"), BlockType.CELL)))
    for c in prob.cells:
        c.link_to_problem(prob)
        c.update_pointers(prob.cells, prob.materials, prob.surfaces)
    return prob

def out(c):
    return "\n".join(c.format_for_mcnp_input((6, 2, 0)))

def show(label, got, good):
    got = got.replace(" IMP:n=0.0", "")
    print(("ok  " if got.rstrip() == good else "BAD ") + label + ": " + repr(got) + ("" if got.rstrip() == good else "   expected " + repr(good)))

p = problem(["1 0 (1 : 2) 3", "2 0 (1:2)(3:4)", "3 0 #(1)", "4 0 -1 $ c\n     2", "5 0 1 2", "6 0 -1 : 2", "7 0 1 : 2 $ c", "8 0 (1:2) imp:n=1"])
S, C = p.surfaces, p.cells
show("#1 unedited (1 : 2) 3", out(C[1]), "1 0 (1 : 2) 3")
show("#1 unedited (1:2)(3:4)", out(C[2]), "2 0 (1:2)(3:4)")
show("#1 unedited #(1) (a surface, not cell 1)", out(C[3]), "3 0 #(1)")
show("#3 comment in an intersection", out(C[4]), "4 0 -1 $ c\n     2")
c = montepy.Cell(); c.number = 10; c.geometry = (-S[1] | -S[2]) & +S[3]
show("#2 from scratch (-1 | -2) & +3", out(c).replace(" IMP:n=0.0", ""), "10 0 (-1 : -2) 3")
C[5].geometry |= +S[3]
print(("ok  " if str(C[5].geometry) == "((+1*+2):+3)" else "BAD ") + "(1 2) |= 3 is " + str(C[5].geometry))
C[6].geometry &= +S[3]
print(("ok  " if str(C[6].geometry) == "((-1:+2)*+3)" else "BAD ") + "(-1 : 2) &= 3 is " + str(C[6].geometry))
C[7].geometry = C[7].geometry & +S[3]
show("operand ending in a $ comment", out(C[7]), "7 0 (1 : 2 $ c\n     ) 3")
show("tree keeps the ')' before padding", C[8]._tree["geometry"].format(), "(1:2)")
