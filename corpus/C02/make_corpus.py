"""Regenerates corpus/C02/fixed_defects.json: minimised cases of the defects repaired by the fix: commits of
branch fix-C02 (see known_findings.json "fixed"). Run: /venv/bin/python corpus/C02/make_corpus.py"""
import json, os, sys
here = os.path.dirname(os.path.abspath(__file__))
sys.path.insert(0, os.path.join(here, "..", "..", "tools"))
from vlib import geom

def s(n, sign=""): return {"e": "s", "n": n, "sign": sign}
def c(n): return {"e": "c", "n": n}
def AND(a, b): return {"e": "and", "a": a, "b": b}
def OR(a, b): return {"e": "or", "a": a, "b": b}
def NOT(a): return {"e": "not", "a": a}
def PAR(a): return {"e": "par", "a": a}
W = {"k": "write"}
def op(k, x): return {"k": k, "x": x}

def parsed(text, init, ops):
    case = geom.make_case("scratch", init, ops)
    case["origin"] = "parsed"
    case["text"] = text
    return case

cases = [
    # #1 parentheses dropped on an unedited read -> write
    parsed("(1 : 2) 3", AND(PAR(OR(s(1), s(2))), s(3)), [W]),
    parsed("(1:2)(3:4)", AND(PAR(OR(s(1), s(2))), PAR(OR(s(3), s(4)))), [W]),
    parsed("#(1)", NOT(s(1)), [W]),
    parsed("#(#(1))", NOT(NOT(s(1))), [W]),
    parsed("-1:(2 3)", OR(s(1, "-"), PAR(AND(s(2), s(3)))), [W, W]),
    # ")" of a parenthesis node overwritten by the padding behind it (cell_parser.geometry_term)
    parsed("(1:2) ", PAR(OR(s(1), s(2))), [op("and", s(3)), W]),
    parsed("(1 2) : 3", OR(PAR(AND(s(1), s(2))), s(3)), [NOT_ := {"k": "not"}, W]),
    # #2 from scratch: no parentheses from precedence
    geom.make_case("scratch", AND(OR(s(1, "-"), s(2, "-")), s(3, "+")), [W]),
    geom.make_case("scratch", NOT(s(1)), [W]),
    geom.make_case("scratch", AND(s(5), NOT(s(1, "-"))), [W]),
    geom.make_case("scratch", NOT(NOT(c(91))), [W]),
    parsed("1 2", AND(s(1), s(2)), [op("ior", s(3)), W]),
    parsed("5", s(5), [op("ior", s(4)), op("rand", c(92)), op("and", s(9, "-")), W]),
    # &= / |= changed the region (HalfSpace.__iand__/__ior__)
    geom.make_case("scratch", OR(s(5, "-"), s(8)), [op("iand", s(6)), W]),
    geom.make_case("scratch", AND(s(6), NOT(s(9, "-"))), [op("ior", OR(s(8), NOT(s(4, "-")))), W]),
    parsed("-1 : 2", OR(s(1, "-"), s(2)), [op("iand", s(3)), W]),
    # a comment at the end of an operand swallowed what was written behind it
    parsed("1 : 2 $ c", OR(s(1), s(2)), [op("iand", s(3)), W]),
    parsed("1 : 2 $ c", OR(s(1), s(2)), [op("ior", s(3)), W]),
    parsed("1 2\nc end", AND(s(1), s(2)), [op("or", s(3)), W, {"k": "not"}, W]),
    # #3 comments in the padding of an intersection deleted by __switch_operator
    parsed("-1 $ c\n     2", AND(s(1, "-"), s(2)), [W]),
    parsed("1\nc hi\n     2", AND(s(1), s(2)), [W, W]),
    parsed("1 &\n     2", AND(s(1), s(2)), [W]),
    # parentheses around the whole geometry / a single leaf and their comments dropped (Cell._update_values)
    parsed("(\nC fuel region\n        9)", PAR(s(9)), [W]),
    parsed("( $ x = (y)\n        4    :8: 2      :-4 )", PAR(OR(OR(OR(s(4), s(8)), s(2)), s(4, "-"))), [W, W]),
    parsed("(-5)", PAR(s(5, "-")), [W, op("and", s(1)), W]),
    # operands that are the geometry of another cell that was read, ending in a comment
    parsed("1 2 ", AND(s(1), s(2)), [dict(op("iand", AND(s(3), s(4))), xt="3 4 $ c"), op("ior", s(5)), W]),
    parsed("1 (2 3)", AND(s(1), PAR(AND(s(2), s(3)))), [dict(op("iand", AND(s(4), s(5))), xt="4 5 $ c"), W]),
    parsed("(1 2)", PAR(AND(s(1), s(2))), [dict(op("iand", AND(s(4), s(5))), xt="4 5 $ c"), W, W]),
    # the operator setter: __switch_operator with a new symbol
    parsed("1 2", AND(s(1), s(2)), [{"k": "setop", "o": "union"}, W, {"k": "setop", "o": "inter"}, W]),
    parsed("1 : 2", OR(s(1), s(2)), [{"k": "setop", "o": "inter"}, W, W]),
    parsed("-1 $ c\n     2", AND(s(1, "-"), s(2)), [{"k": "setop", "o": "union"}, W]),
    parsed("(1:2)(3:4)", AND(PAR(OR(s(1), s(2))), PAR(OR(s(3), s(4)))), [{"k": "setop", "o": "union"}, W]),
    parsed("1 2 3", AND(AND(s(1), s(2)), s(3)), [W, {"k": "setop", "o": "union"}, op("and", s(4)), W]),
    # histories that need a write before an edit of an INNER HalfSpace (seeded change C02c: _ensure_has_nodes skipped
    # _link_child when node/operator/children's nodes were those of the last write; the child's operator is not in the key)
    parsed("1 -2 3", AND(AND(s(1), s(2, "-")), s(3)), [W, {"k": "setop", "o": "union", "sel": 1}, W]),
    parsed("1 2 3 4", AND(AND(AND(s(1), s(2)), s(3)), s(4)), [W, {"k": "setop", "o": "union", "sel": 2}, W, {"k": "setop", "o": "union", "sel": 1}, W]),
    geom.make_case("scratch", AND(AND(s(1), s(2)), s(3)), [W, {"k": "setop", "o": "union", "sel": 1}, W]),
    parsed("1 (2 3)", AND(s(1), PAR(AND(s(2), s(3)))), [W, dict(op("ior", s(4)), sel=3), W, dict(op("replace", OR(s(5), s(6))), sel=1), W]),
]
json.dump({"what": "minimised cases of the C02 defects repaired on branch fix-C02", "cases": cases},
          open(os.path.join(here, "fixed_defects.json"), "w"), indent=1, sort_keys=True)
print(len(cases), "cases")
