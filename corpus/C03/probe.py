"""Probe of candidate C03 defects on the real code: each edit is applied to a tiny problem and the written
file is printed.  Run: VERIF_REPO=<repo> /venv/bin/python corpus/C03/probe.py"""
import os, sys, tempfile, shutil, warnings, traceback
sys.path.insert(0, os.environ.get("VERIF_REPO", "/repo"))
warnings.filterwarnings("ignore")
import montepy
from montepy.particle import Particle

BASE = """probe
1 1 0.5 -1 imp:n,p=1
2 0 1 -2 imp:n,p=1 vol=3
3 2 -1.5 2 imp:n=1 imp:p=0 u=1
4 0 -3 fill=1 imp:n,p=1

1 pz 1
*2 cz 2
3 1 px 3
4 -5 py 1
5 -4 py 5
6 c/z 1 2 3

m1 1001.80c 0.5 8016.80c 0.5
mt1 lwtr.23t
m2 92235.80c -1.0
tr1 0 0 1
tr2 0 0 1 1 0 0 0 1 0 0 0 1
mode n p
"""
DATA = """probe data
1 1 0.5 -1
2 0 1 -2
3 0 2

1 pz 1
2 cz 2

m1 1001.80c 1.0
mode n p
imp:n,p 1 1 0
vol 1 2 3
u 0 1 1
"""

def run(name, text, edit):
    d = tempfile.mkdtemp()
    try:
        f = os.path.join(d, "i")
        with open(f, "w") as fh:
            fh.write(text)
        p = montepy.read_input(f)
        try:
            edit(p)
        except Exception as e:
            print(f"--- {name}: EDIT RAISED {type(e).__name__}: {e}")
            return
        o = os.path.join(d, "o")
        try:
            p.write_to_file(o, overwrite=True)
        except Exception as e:
            print(f"--- {name}: WRITE RAISED {type(e).__name__}: {e}")
            return
        with open(o) as fh:
            out = fh.read().split("\n")
        src = [l.strip().lower() for l in text.split("\n")]
        diff = [l for l in out if l.strip().lower() not in src]
        print(f"--- {name}: changed lines: {diff}")
    finally:
        shutil.rmtree(d)

C = lambda p, i: p.cells.objects[i]
S = lambda p, i: p.surfaces.objects[i]
def e(f): return f

if __name__ == "__main__":
    run("imp shared n=2", BASE, lambda p: setattr(C(p,0).importance, "neutron", 2.0))
    run("lattice on cell w/o LAT", BASE, lambda p: setattr(C(p,3), "lattice", 2))
    run("is_reflecting False", BASE, lambda p: setattr(S(p,1), "is_reflecting", False))
    run("is_white True on reflecting", BASE, lambda p: (setattr(S(p,1), "is_reflecting", False), setattr(S(p,1), "is_white_boundary", True)))
    run("del surface.transform", BASE, lambda p: delattr(S(p,2), "transform"))
    run("del periodic", BASE, lambda p: (delattr(S(p,3), "periodic_surface"), delattr(S(p,4), "periodic_surface")))
    run("set transform on plain", BASE, lambda p: setattr(S(p,0), "transform", p.transforms.objects[0]))
    run("transform -> periodic", BASE, lambda p: (delattr(S(p,2), "transform"), setattr(S(p,2), "periodic_surface", S(p,2))))
    run("material None w/ density", BASE, lambda p: setattr(C(p,0), "material", None))
    def m_none(p):
        C(p,0).material = None
        del C(p,0).atom_density
    run("material None + del density", BASE, m_none)
    def void_to_mat(p):
        C(p,1).material = p.materials.objects[0]
        C(p,1).atom_density = 2.5
    run("void -> material", BASE, void_to_mat)
    def void_to_mat_mass(p):
        C(p,1).material = p.materials.objects[0]
        C(p,1).mass_density = 2.5
    run("void -> material mass", BASE, void_to_mat_mass)
    run("mass_density on atom cell", BASE, lambda p: setattr(C(p,0), "mass_density", 0.5))
    run("mass_density on atom cell new", BASE, lambda p: setattr(C(p,0), "mass_density", 2.0))
    run("atom_density on mass cell", BASE, lambda p: setattr(C(p,2), "atom_density", 1.5))
    run("volume set", BASE, lambda p: setattr(C(p,0), "volume", 5.0))
    run("volume del", BASE, lambda p: delattr(C(p,1), "volume"))
    def vol_del_set(p):
        del C(p,1).volume
        C(p,1).volume = 4.0
    run("volume del then set", BASE, vol_del_set)
    def vol_set_del(p):
        C(p,0).volume = 4.0
        del C(p,0).volume
    run("volume set then del", BASE, vol_set_del)
    run("volume None", BASE, lambda p: setattr(C(p,1), "volume", None))
    run("universe set on u0 cell", BASE, lambda p: setattr(C(p,0), "universe", p.universes[1]))
    def nt(p):
        C(p,2).not_truncated = True
    run("not_truncated", BASE, nt)
    run("fill.universe None", BASE, lambda p: setattr(C(p,3).fill, "universe", None))
    run("fill.universe set on unfilled", BASE, lambda p: setattr(C(p,0).fill, "universe", p.universes[1]))
    run("fill.transform set", BASE, lambda p: setattr(C(p,3).fill, "transform", p.transforms.objects[0]))
    def lat(p):
        C(p,3).lattice = 1
    run("lattice=1 on filled", BASE, lat)
    run("thermal laws set", BASE, lambda p: setattr(p.materials.objects[0].thermal_scattering, "thermal_scattering_laws", ["grph.20t"]))
    run("thermal add", BASE, lambda p: p.materials.objects[1].add_thermal_scattering("grph.20t"))
    run("fraction atom", BASE, lambda p: setattr(list(p.materials.objects[0].material_components.values())[0], "fraction", 0.25))
    run("fraction mass", BASE, lambda p: setattr(list(p.materials.objects[1].material_components.values())[0], "fraction", 0.25))
    import numpy as np
    run("displacement", BASE, lambda p: setattr(p.transforms.objects[0], "displacement_vector", np.array([1.0, 2.0, 3.0])))
    run("rotation on 3-entry", BASE, lambda p: setattr(p.transforms.objects[0], "rotation_matrix", np.array([0.0, 1.0, 0.0, 1.0, 0.0, 0.0, 0.0, 0.0, 1.0])))
    run("rotation edit", BASE, lambda p: setattr(p.transforms.objects[1], "rotation_matrix", np.array([0.0, 1.0, 0.0, 1.0, 0.0, 0.0, 0.0, 0.0, 1.0])))
    run("in_degrees", BASE, lambda p: setattr(p.transforms.objects[0], "is_in_degrees", True))
    run("main_to_aux False 3-entry", BASE, lambda p: setattr(p.transforms.objects[0], "is_main_to_aux", False))
    run("main_to_aux False 12-entry", BASE, lambda p: setattr(p.transforms.objects[1], "is_main_to_aux", False))
    run("mode add e", BASE, lambda p: p.mode.add("e"))
    run("mode remove p", BASE, lambda p: p.mode.remove("p"))
    run("mode set n", BASE, lambda p: p.mode.set("n"))
    run("title", BASE, lambda p: setattr(p, "title", "new title"))
    run("location", BASE, lambda p: setattr(S(p,0), "location", 2.5))
    run("radius", BASE, lambda p: setattr(S(p,1), "radius", 2.5))
    run("coordinates", BASE, lambda p: setattr(S(p,5), "coordinates", (4.0, 5.0)))
    run("importance.all", BASE, lambda p: setattr(C(p,2).importance, "all", 3.0))
    run("set_equal_importance", BASE, lambda p: p.cells.set_equal_importance(2.0, [C(p,3)]))
    # data block
    run("D imp n cell0=2", DATA, lambda p: setattr(C(p,0).importance, "neutron", 2.0))
    run("D imp n cell2=2", DATA, lambda p: setattr(C(p,2).importance, "neutron", 2.0))
    run("D vol cell1", DATA, lambda p: setattr(C(p,1), "volume", 7.0))
    run("D vol del cell1", DATA, lambda p: delattr(C(p,1), "volume"))
    run("D universe cell0 -> 1", DATA, lambda p: setattr(C(p,0), "universe", p.universes[1]))
    run("D universe cell1 -> 0", DATA, lambda p: setattr(C(p,1), "universe", p.universes[0]))
    run("D lattice cell1", DATA, lambda p: setattr(C(p,1), "lattice", 1))
    run("D mode remove p", DATA, lambda p: p.mode.remove("p"))
    run("D mode add e", DATA, lambda p: p.mode.add("e"))
