"""Reproduction of the MontePy defect found while building the C04 check (run with VERIF_REPO or /repo on sys.path).

D1 (fixed by 'fix: every data input gets its pointers updated after reading'):
    MCNP_Problem.__update_internal_pointers iterated over self._data_inputs while Material.update_pointers removed
    the MT inputs it attaches from that very list, so the input after such a material was skipped.  With MT cards
    placed before their materials (legal MCNP: MTn belongs to Mn wherever it stands) a material never got its
    MT card and the MT card never got its parent: write_to_file raised MalformedInputError
    ('MT2 input is detached from a parent material') on the unedited problem and after any renumbering.
    Before the fix this script prints the error, after it the written data block with m301/mt301 ... .
"""
import os
import shutil
import sys
import tempfile
import warnings

sys.path.insert(0, os.environ.get("VERIF_REPO", "/repo"))
warnings.filterwarnings("ignore")
import montepy  # noqa: E402

TEXT = """mt cards before their materials
1 1 -1.0 -1 imp:n=1
2 2 -1.0 1 -2 imp:n=1
3 3 -1.0 2 imp:n=0

1 so 1
2 so 2

mt1 lwtr.23t
m1 1001.80c 1.0
m2 8016.80c 1.0
mt3 poly.10t
m3 6000.80c 1.0
mt2 grph.20t
mode n
nps 100
"""

d = tempfile.mkdtemp()
try:
    with open(os.path.join(d, "in.imcnp"), "w") as fh:
        fh.write(TEXT)
    problem = montepy.read_input(os.path.join(d, "in.imcnp"))
    for m in list(problem.materials):
        m.number += 300
    try:
        with warnings.catch_warnings():
            warnings.simplefilter("ignore")
            problem.write_to_file(os.path.join(d, "out.imcnp"))
        with open(os.path.join(d, "out.imcnp")) as fh:
            print(fh.read())
    except Exception as e:  # noqa: BLE001
        print("DEFECT:", type(e).__name__, str(e).strip().splitlines()[-3:])
finally:
    shutil.rmtree(d)
