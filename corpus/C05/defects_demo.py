"""C05 — reproduction of the defects of ValueNode.format on the real code (run with /venv/bin/python).

    VERIF_REPO=/path/to/montepy /venv/bin/python corpus/C05/defects_demo.py

For every (token, new value) the text written for the node is re-read as a Fortran number and compared
with the value that was set (math.isclose, rel_tol=1e-9).  On the tree before the fix: commits every
line prints LOST / RAISED; on the repaired tree every line prints ok.
"""
import math
import os
import sys
import warnings

sys.path.insert(0, os.environ.get("VERIF_REPO", "/repo"))
import montepy  # noqa: E402
from montepy.input_parser.syntax_node import ValueNode  # noqa: E402
from montepy.input_parser.mcnp_input import Input  # noqa: E402
from montepy.input_parser.block_type import BlockType  # noqa: E402

warnings.simplefilter("ignore")


def read_fortran(word):
    w = word.strip().lower()
    for i in range(1, len(w)):
        if w[i] in "+-" and w[i - 1] not in "e":
            w = w[:i] + "e" + w[i:]
            break
    return float(w)


def show(what, text, x):
    try:
        y = read_fortran(text.split()[0])
        ok = math.isclose(y, x, rel_tol=1e-9)
    except Exception as e:  # noqa: BLE001
        y, ok = repr(e), False
    print(f"{'ok  ' if ok else 'LOST'} {what}: wrote {text!r} for {x!r}")
    return ok


CASES = [
    # defect 1 (DESIGN 7.3 #4): the old token's precision is reused
    ("1.5", 2.75), ("1.0", 1e-7), ("1.", 3.25), ("1e3", 1234.5678), (None, 1 / 3), ("1", 1234.5678), (".5", 0.25),
    # defect 2: a float within rel_tol of an integer is truncated, not rounded
    ("1", 2.9999999999), ("1", -2.9999999999),
    # defect 3: a negative token in scientific notation set to a positive value cannot be written at all
    ("-1.5e3", 2500.0), ("-1.5-3", 2.5),
]
bad = 0
for tok, x in CASES:
    node = ValueNode(tok, float)
    node.value = x
    try:
        text = node.format()
    except Exception as e:  # noqa: BLE001
        print(f"RAISED ValueNode({tok!r}, float).value = {x!r}: {e!r}")
        bad += 1
        continue
    bad += not show(f"ValueNode({tok!r}, float)", text, x)

# the same through the API of real objects
surf = montepy.surfaces.surface_builder.surface_builder(Input(["1 PZ 1.5"], BlockType.SURFACE))
surf.location = 2.75
bad += not show("surface '1 PZ 1.5'.location", surf.format_for_mcnp_input((6, 2, 0))[0].split()[2], 2.75)
surf = montepy.surfaces.surface_builder.surface_builder(Input(["1 PZ -1.5e3"], BlockType.SURFACE))
surf.location = 2500.0
try:
    bad += not show("surface '1 PZ -1.5e3'.location", surf.format_for_mcnp_input((6, 2, 0))[0].split()[2], 2500.0)
except Exception as e:  # noqa: BLE001
    print(f"RAISED surface '1 PZ -1.5e3'.location = 2500.0: {e!r}")
    bad += 1
cell = montepy.Cell(Input(["1 1 0.5 -1"], BlockType.CELL))
cell.material = montepy.data_inputs.data_parser.parse_data(Input(["m1 1001.80c 1.0"], BlockType.DATA))
cell.atom_density = 0.0123456
bad += not show("cell '1 1 0.5 -1'.atom_density", cell.format_for_mcnp_input((6, 2, 0))[0].split()[2], 0.0123456)

# fixed eb991ca: a displacement entry that an earlier write left off (jumps at the end of an input are dropped)
import numpy as np  # noqa: E402

tr = montepy.data_inputs.data_parser.parse_data(Input(["tr1 0 2j"], BlockType.DATA))
tr.displacement_vector = np.array([0.0, 1.0, 0.0])
first = tr.format_for_mcnp_input((6, 2, 0))  # 'tr1 0 1 '
tr.displacement_vector = np.array([0.0, 1.0, 5.0])
words = " ".join(tr.format_for_mcnp_input((6, 2, 0))).split()
if len(words) < 4:
    print(f"LOST transform 'tr1 0 2j' written {first!r}, then displacement (0, 1, 5): wrote {' '.join(words)!r}")
    bad += 1
else:
    bad += not show("transform 'tr1 0 2j' written once, then displacement[2]", words[3], 5.0)
tr = montepy.data_inputs.data_parser.parse_data(Input(["tr1 0 2j"], BlockType.DATA))
tr.displacement_vector = np.array([0.0, 1.0, 0.0])
tr.format_for_mcnp_input((6, 2, 0))
tr.rotation_matrix = np.array([0.0, 1.0, 0.0, -1.0, 0.0, 0.0, 0.0, 0.0, 1.0])
words = " ".join(tr.format_for_mcnp_input((6, 2, 0))).split()
bad += not show("transform 'tr1 0 2j' written once, then a rotation matrix: rotation[1]", words[5] if len(words) > 5 else "?", 1.0)
print("defects reproduced:", bad)
sys.exit(1 if bad else 0)
