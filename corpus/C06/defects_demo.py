"""Demonstrations of the C06 defects found on the pinned tree (each prints BAD when the defect is present).
Run: /venv/bin/python corpus/C06/defects_demo.py   (VERIF_REPO selects the tree)"""
import os, sys, signal
sys.path.insert(0, os.environ.get("VERIF_REPO", "/repo"))
import montepy
from montepy.input_parser.mcnp_input import Input
from montepy.input_parser.block_type import BlockType

def cell(n):
    c = montepy.Cell(); c.number = n; return c
def surf(n, x):
    return montepy.surfaces.surface_builder.surface_builder(Input([f"{n} PZ {x}"], BlockType.SURFACE))
def tr(n):
    return montepy.data_inputs.transform.Transform(Input([f"tr{n} 0 0 {n}.0"], BlockType.DATA))

def report(name, bad):
    print(("BAD  " if bad else "ok   ") + name)

# (a) extend with two equal numbers in the added list
p = montepy.MCNP_Problem("x"); a, b = cell(1), cell(1)
try:
    p.cells.extend([a, b]); report("extend([a,b]) with a.number == b.number", list(p.cells.keys()) == [1, 1])
except montepy.errors.NumberConflictError:
    report("extend([a,b]) with a.number == b.number", False)
# (a') += failing half way leaves a ghost that get() returns
p = montepy.MCNP_Problem("x"); p.cells.append(cell(2)); g = cell(5)
try:
    p.cells += [g, cell(2)]
except montepy.errors.NumberConflictError:
    pass
report("failed += leaves a ghost: get(5) returns a non-member", p.cells.get(5) is g)
# (b) stale cache entry survives removal and comes back to life
p = montepy.MCNP_Problem("x"); c1, c5 = cell(1), cell(5); p.cells.append(c1); p.cells.append(c5)
p.cells[5]; c5.number = 7; p.cells.remove(c5); c5.number = 5
report("removed object renumbered to a cached number is found by get()", p.cells.get(5) is c5)
# (c) surface / transform number setters skip the collision check
p = montepy.MCNP_Problem("x"); s1, s2 = surf(1, 1.0), surf(2, 2.0); p.surfaces.append(s1); p.surfaces.append(s2)
try:
    s2.number = 1; report("surface.number = <taken> accepted", list(p.surfaces.keys()) == [1, 1])
except montepy.errors.NumberConflictError:
    report("surface.number = <taken> accepted", False)
p = montepy.MCNP_Problem("x"); t1, t2 = tr(1), tr(2); p.transforms.append(t1); p.transforms.append(t2)
try:
    t2.number = 1; report("transform.number = <taken> accepted", list(p.transforms.keys()) == [1, 1])
except montepy.errors.NumberConflictError:
    report("transform.number = <taken> accepted", False)
# (d) request_number(step=0) on a taken number never returns; next_number() on an empty collection leaks max()'s ValueError
p = montepy.MCNP_Problem("x"); p.cells.append(cell(1))
def alarm(*a): raise TimeoutError
signal.signal(signal.SIGALRM, alarm); signal.alarm(2)
try:
    p.cells.request_number(1, 0); report("request_number(1, 0) hangs", False)
except TimeoutError:
    report("request_number(1, 0) hangs", True)
except ValueError:
    report("request_number(1, 0) hangs", False)
signal.alarm(0)
try:
    n = montepy.MCNP_Problem("x").cells.next_number(); report("next_number() on an empty collection raises", False)
except ValueError as e:
    report("next_number() on an empty collection raises", "max()" in str(e) or "empty" in str(e))
# (e) append_renumber of a member inserts it a second time
p = montepy.MCNP_Problem("x"); c = cell(3); p.cells.append(c); p.cells.append_renumber(c)
report("append_renumber(member) makes it a member twice", len(p.cells) == 2)
