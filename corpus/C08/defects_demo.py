"""C08: the defects of re-compression, each on the real code (run with VERIF_REPO pointing at a MontePy tree).
Before the fix: commits of branch fix-C08 every line printed a text that does not read back as the values."""
import os, sys, warnings
sys.path.insert(0, os.path.join(os.path.dirname(os.path.abspath(__file__)), "..", "..", "tools"))
warnings.filterwarnings("ignore")
from props import c08
from vlib import shortcut_ref as ref

for case in c08.CORPUS + [
    {"unit": "listnode", "text": "1.5 10R", "rounds": [[["del", 1]] * 7]},
    {"unit": "listnode", "text": "2 3I -4 R R", "rounds": [[]]},
    {"unit": "listnode", "text": "1.5 3I 0", "rounds": [[]]},
    {"unit": "listnode", "text": "8 1e1m", "rounds": [[]]},
]:
    r = c08.run_impl(case)
    if "parse_err" in r:
        print(f"{case['text']!r:24} parse: {r['parse_err']}")
        continue
    for ob in r["rounds"]:
        vals = [None if v is None else v[0] / v[1] for v in ob["values"]]
        verdict = ob.get("err") or (ref.compare(ob["text"], c08._floats(ob["values"])) or "ok")
        print(f"{case['text']!r:24} values {vals} -> {ob.get('text')!r}: {verdict}")
