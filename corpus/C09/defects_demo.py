"""Reproduces the MontePy defects found by C09 on the real code (no model involved).

    VERIF_REPO=<montepy tree> /venv/bin/python corpus/C09/defects_demo.py

Runs every minimised history of fixed_defects.json on the tree named by VERIF_REPO and prints, per case, what the
property's oracle (Spec reader on the written file vs the API's values) says.  On a tree without the `fix:` commits
listed under "fixed: property=C09" in known_findings.json every case fails; on the repaired tree every case holds.
"""
import json
import os
import sys

HERE = os.path.dirname(os.path.abspath(__file__))
sys.path.insert(0, os.path.join(HERE, "..", "..", "tools"))
from props import c09  # noqa: E402

with open(os.path.join(HERE, "fixed_defects.json")) as fh:
    cases = json.load(fh)["cases"]
bad = 0
for c in cases:
    case = {k: c[k] for k in ("text", "limit", "ops")}
    ri, dens = c09.run_one(case)
    v = c09.judge_case(case, ri, dens)
    outs = [s["out"] for s in ri.get("steps", [])]
    print(("FAILS  " if v else "holds  ") + c["what"])
    if v:
        bad += 1
        print("        -> " + v[2][:160], "| steps:", outs)
print(f"{bad} of {len(cases)} cases fail on {os.environ.get('VERIF_REPO', '/repo')}")
