"""C10 defects reproduced on the real code (run: VERIF_REPO=<repo> /venv/bin/python corpus/C10/defects_demo.py).

Each block prints the lines MontePy writes for the 80-column regime (mcnp_version (6,1,0)).
On the unrepaired tree (57bfa4d..76a7c29) every block shows the defect named in its title; on the
repaired tree (fix: commits of branch fix-C10) the output is well formed.
"""
import os
import sys
import warnings

sys.path.insert(0, os.environ.get("VERIF_REPO", "/repo"))
warnings.filterwarnings("ignore")
import montepy
from montepy.input_parser.mcnp_input import Input
from montepy.input_parser.block_type import BlockType

V = (6, 1, 0)


def show(title, lines):
    print("==", title)
    for l in lines:
        print(f"{len(l):4d}|{l}")


def cell(text):
    return montepy.Cell(Input(text.split("\n"), BlockType.CELL))


def data(text):
    return montepy.data_inputs.data_parser.parse_data(Input(text.split("\n"), BlockType.DATA))


# 1. "$" comment that does not fit is wrapped onto a "     text" line, which MCNP reads as data
c = cell("1 0 -1 -2 -3 -4 -5 -6 -7 -8 -9 -10 -11 -12 -13 -14 -15 -16 imp:n=1 $ this dollar comment is too long for 80 columns")
show("dollar comment spills onto a data line", c.format_for_mcnp_input(V))

# 2. a long "C comment" line inside an input likewise
c = cell("1 0 -1\nc this is a very long comment line that is longer than eighty columns but shorter than 128 columns\n     imp:n=1")
show("C comment spills onto a data line", c.format_for_mcnp_input(V))

# 3. cleanup_last_line only knows "c " comments: parameters are appended behind a "$" comment
c = cell("1 0 -1 imp:n=1 $ geometry comment")
c.volume = 5.0
show("parameter appended behind a $ comment", c.format_for_mcnp_input(V))
c = cell("1 0 -1 vol=1 $ geometry comment\n     imp:n=1")
show("importance joined behind the $ comment of the previous parameter", c.format_for_mcnp_input(V))

# 4. textwrap's break_on_hyphens splits a thermal law after its hyphen at the limit
m = data("mt1 " + " ".join(["lwtr.20t"] * 8) + " be-met.40t")
m._parent_material = data("m1 1001.80c 1.0")
show("thermal law split after the hyphen", m.format_for_mcnp_input(V))

# 5. trailing blanks beyond the limit become a blank line (ends the block)
print("==", "raw wrap: trailing blanks")
for l in montepy.mcnp_object.MCNP_Object.wrap_string_for_mcnp("1 0 -1" + " " * 100, V, True):
    print(f"{len(l):4d}|{l}|")
