"""Tiny reproductions of the MontePy defects met while building C12 (run: VERIF_REPO=<tree> /venv/bin/python defects_demo.py).

Each line prints  <id> <input> -> <what the tree under VERIF_REPO does>.  On the snapshot tree the 'fixed' ones fail;
on the repaired tree they read (and write) correctly.  The recorded findings (known_findings.json) still fail.
"""
import os
import sys
import warnings

sys.path.insert(0, os.environ.get("VERIF_REPO", "/repo"))
warnings.filterwarnings("ignore")
import montepy  # noqa: E402
from montepy.input_parser.mcnp_input import Input  # noqa: E402
from montepy.input_parser.block_type import BlockType  # noqa: E402
from montepy.surfaces.surface_builder import surface_builder  # noqa: E402
from montepy.data_inputs.data_parser import parse_data  # noqa: E402


def cell(t):
    return montepy.Cell(Input(t.split("\n"), BlockType.CELL))


def data(t):
    return parse_data(Input(t.split("\n"), BlockType.DATA))


def surf(t):
    return surface_builder(Input(t.split("\n"), BlockType.SURFACE))


def show(tag, fn, text, then=lambda o: ""):
    try:
        o = fn(text)
        print(f"{tag:10s} {text!r} -> accepted {then(o)}")
    except Exception as e:  # noqa: BLE001
        print(f"{tag:10s} {text!r} -> {type(e).__name__}")


# fixed: cell parameters whose keyword merely CONTAINS the letter u were routed to UniverseInput
show("fix-nonu", cell, "1 0 -1 nonu=1")
show("fix-unc", cell, "1 0 -1 unc:n=1")
# fixed: DataParser.text_phrase had no return: the library value was None and the material could not be written
show("fix-nlib", data, "m1 1001.80c 1.0 nlib=80c", lambda m: repr(m.format_for_mcnp_input((6, 2, 0))))
# fixed: a Fortran number whose significand ends in "." followed by a letterless exponent was rejected
show("fix-dotexp", surf, "1 so 837.+1", lambda s: repr(s.surface_constants))
# fixed on main by other engineers' commits (were findings C12-F6 / C12-F7)
show("main-F6", data, "e4 5 3i 0", lambda d: repr([n.value for n in d._tree["data"]]))
show("main-F7", data, "tr1 0 2r", lambda d: repr(list(d.displacement_vector)))
show("main-F7", data, "tr5 1 2 3 1 j j j 1 j j j 1 1", lambda d: repr(list(d.rotation_matrix)))
# round 3: the nine remaining findings, repaired (one fix: commit each)
show("fix-F1", cell, "1 0 -1 imp:u=1")
show("fix-F1", data, "mode n u", lambda m: repr(sorted(p.value for p in m.particles)))
show("fix-F2", data, "mode v c", lambda m: repr(sorted(p.value for p in m.particles)))
show("fix-F2", cell, "1 0 -1 ext:c 1")
show("fix-F3", cell, "1 0 -1 tmp1=1 tmp2=2", lambda c: repr(list(c.parameters.nodes)[:2]))
show("fix-F4", surf, "1 ky 2 0.5m 1", lambda s: repr(s.surface_constants))
show("fix-F5", data, "vol 2 2m", lambda d: repr([n.value for n in d._tree["data"]]))
show("fix-F8", data, "m1 1001.80c 1 elib=03e", lambda m: repr(m.format_for_mcnp_input((6, 2, 0))))
show("fix-F9", data, "m1 6012.70c 1 8017 1", lambda m: repr(m.format_for_mcnp_input((6, 2, 0))))
show("fix-F10", data, "sdef")
show("fix-F11", data, "f4:n ( 2 3)")
show("fix-paren", cell, "1 0 -1 fill=1 ( 2 )", lambda c: repr(c.fill.old_transform_number))
show("fix-paren", cell, "1 0 -1 trcl=( 1 2 3)")
show("fix-compl", cell, "1 0 (1:2)#3", lambda c: str(c.geometry))
