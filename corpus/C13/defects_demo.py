"""Reproduces every C13 defect on the real code (fixed ones pass on the repaired tree, fail on the snapshot).

    VERIF_REPO=/path/to/MontePy /venv/bin/python corpus/C13/defects_demo.py

For each stored input: what montepy.read_input does and what parse_input(check_input=True) does, and C13's verdict.
"""
import glob
import json
import os
import sys

HERE = os.path.dirname(os.path.abspath(__file__))
sys.path.insert(0, os.path.join(HERE, "..", "..", "tools"))
from vlib import c13lib as L  # noqa: E402
from props import c13 as C  # noqa: E402

for path in sorted(glob.glob(os.path.join(HERE, "*.json"))):
    with open(path) as fh:
        data = json.load(fh)
    for case in data if isinstance(data, list) else [data]:
        obs = L.run_bundle(case["bundle"])
        verdicts = L.judge(case["bundle"], obs, case.get("kind", "corpus"))
        if not verdicts:
            verdicts = C.misread_verdicts(case.get("kind", "corpus"), C.misread_of([(case["bundle"], obs)])[0], case["bundle"]["main"])
        n, c = obs["normal"], obs["check"]
        print(os.path.basename(path), "|", case.get("what", "")[:90])
        print("   normal:", n["out"], n.get("exc", {}).get("cls", ""), "| check:", c["out"], c.get("exc", {}).get("cls", ""), c["warnings"])
        print("   C13:", "holds" if not verdicts else [s["class"] + ":" + str(s.get("exception")) for s, _ in verdicts])
