"""Demonstrations of the C14 defects found on the pinned tree (each prints BAD when the defect is present).
Run: VERIF_REPO=<tree> /venv/bin/python corpus/C14/defects_demo.py
On the pinned tree before the fix: commits of branch fix-C14 (e.g. `git archive 76a7c29 | tar -x -C $D`) every line
says BAD; on fix-C14 only the recorded finding C14-F1 (append_renumber) does."""
import os, sys, warnings
REPO = os.environ.get("VERIF_REPO", "/repo")
sys.path.insert(0, REPO)
warnings.filterwarnings("ignore")
import montepy
from montepy.cells import Cells
from montepy.particle import Particle

TEST = os.path.join(REPO, "tests", "inputs", "test.imcnp")


def report(name, bad):
    print(("BAD  " if bad else "ok   ") + name)


def raises(f):
    try:
        f()
    except Exception as e:  # noqa: BLE001
        return type(e).__name__
    return None


# 1. Mode.set("n zz"): the mode is emptied / half-built before the bad particle is noticed (DESIGN 7.3 #18)
p = montepy.read_input(TEST)
before = p.mode.particles
exc = raises(lambda: p.mode.set("p zz"))
report(f"mode.set('p zz') raises {exc} and leaves the mode as it was", p.mode.particles != before)

# 2. Cell.mass_density = 10**400: the unit flag is switched, then float() overflows
p = montepy.read_input(TEST)
c = p.cells[1]
before = c.is_atom_dens
exc = raises(lambda: setattr(c, "mass_density", 10**400))
report(f"cell.mass_density = 10**400 raises {exc} and leaves is_atom_dens as it was", c.is_atom_dens != before)

# 3. Importance.all / set_equal_importance with a mode particle the cells have no importance for yet:
#    KeyError after the other particles (and, for set_equal_importance, nothing else) were set
p = montepy.read_input(TEST)
p.mode.add("e")
before = [c.importance.neutron for c in p.cells]
exc = raises(lambda: p.cells.set_equal_importance(7.0))
after = [c.importance.neutron for c in p.cells]
report(f"set_equal_importance(7.0) after mode.add('e'): {exc or 'accepted'}; a raising call changed nothing", exc is not None and after != before)

# 4. problem.cells = <Cells with a number used twice>: the problem's cells are cleared, then NumberConflictError
p = montepy.read_input(TEST)
a, b = montepy.Cell(), montepy.Cell()
a.number, b.number = 50, 51
cs = Cells([a, b])
b.number = 50
n = len(p.cells)
exc = raises(lambda: setattr(p, "cells", cs))
report(f"problem.cells = Cells with a duplicate number raises {exc} and keeps the {n} cells", len(p.cells) != n)

# 5. types=() latches the class of the first caller into the closure, also when that call is rejected
#    (run in a fresh interpreter: the latch is process-wide)
from montepy.input_parser.mcnp_input import Input
from montepy.input_parser.block_type import BlockType
from montepy.surfaces.surface_builder import surface_builder

cz = surface_builder(Input(["1 CZ 1.0"], BlockType.SURFACE))
pz1 = surface_builder(Input(["2 PZ 1.0"], BlockType.SURFACE))
pz2 = surface_builder(Input(["3 PZ 2.0"], BlockType.SURFACE))
raises(lambda: setattr(cz, "periodic_surface", 5))  # rejected (TypeError)
exc = raises(lambda: setattr(pz1, "periodic_surface", pz2))  # valid: a plane periodic with a plane
report(f"after a rejected cz.periodic_surface = 5, the valid pz1.periodic_surface = pz2 is accepted ({exc})", exc is not None)

# 6. (recorded, C14-F1) append_renumber links the object to the problem before it can fail
p = montepy.read_input(TEST)
new = montepy.Cell()
new.number = 1  # taken
exc = raises(lambda: p.cells.append_renumber(new, 0))
report(f"cells.append_renumber(cell, step=0) raises {exc} and leaves the cell unlinked", new._problem is not None)

# 7. a rejected geometry edit that brings a new complement AND a divider of the wrong kind: the complement is
#    added to cell.complements, then the second phase raises TypeError (fixed: kinds are checked in the first phase)
from montepy.surfaces.half_space import UnitHalfSpace

p = montepy.read_input(TEST)
owner, a, b = p.cells[3], p.cells[1], p.cells[2]
before = [c.number for c in owner.complements]
exc = raises(lambda: setattr(owner, "geometry", ~a & UnitHalfSpace(b, True, False)))
report(f"cell.geometry = ~a & <cell b as a surface divider> raises {exc} and leaves cell.complements as it was", [c.number for c in owner.complements] != before)

# 8. (seeded change C14c, not in the tree) one extend() per container in HalfSpace._add_new_children_to_cell:
#    a new complement plus a copy of a member surface that was never renumbered
p = montepy.read_input(TEST)
owner, a = p.cells[3], p.cells[1]
clash = surface_builder(Input([f"{list(owner.surfaces)[0].number} PZ 77.25"], BlockType.SURFACE))
before = [c.number for c in owner.complements]
exc = raises(lambda: setattr(owner, "geometry", ~a & +clash))
report(f"cell.geometry = ~a & +<copy of a member surface> raises {exc} and leaves cell.complements as it was", [c.number for c in owner.complements] != before)
