"""Reproduces, on the real MontePy code, the defects of write_to_file that C15 is about.

Usage:  VERIF_REPO=<montepy tree> /venv/bin/python corpus/C15/defects_demo.py
Prints one line per defect: 'DEFECT ...' when it reproduces, 'ok ...' when the tree is repaired.
(Before the fix: commits of known_findings.json every line says DEFECT.)
"""
import builtins
import os
import shutil
import sys
import tempfile
import warnings

REPO = os.environ.get("VERIF_REPO", "/repo")
sys.path.insert(0, REPO)
warnings.filterwarnings("ignore")
import montepy  # noqa: E402

SRC = os.path.join(REPO, "tests", "inputs", "test.imcnp")


def slurp(path):
    with open(path, "rb") as fh:
        return fh.read()


def blank_structure(path):
    """indices of blank lines and total number of lines of the written file"""
    with open(path) as fh:
        lines = fh.read().split("\n")
    if lines and lines[-1] == "":
        lines.pop()
    return [i for i, l in enumerate(lines) if l.strip() == ""], len(lines), lines


def report(name, bad, detail):
    print(("DEFECT " if bad else "ok     ") + name + ": " + detail)
    return bad


def main():
    d = tempfile.mkdtemp()
    nbad = 0
    try:
        # 1. invalid new cell: IllegalState while the destination is already truncated (DESIGN 7.3 #8)
        dest = os.path.join(d, "a.imcnp")
        shutil.copy(SRC, dest)
        before = slurp(dest)
        p = montepy.read_input(SRC)
        p.cells.append(montepy.Cell())  # no geometry -> validate() raises IllegalState
        try:
            p.write_to_file(dest, overwrite=True)
            err = None
        except Exception as e:  # noqa: BLE001
            err = type(e).__name__
        after = slurp(dest)
        nbad += report("format-fault", after != before, f"{err}; destination {len(before)} -> {len(after)} bytes")

        # 2. FILL with a transform forced into the data block: ValueError in the modifier cards
        dest = os.path.join(d, "b.imcnp")
        src2 = os.path.join(REPO, "tests", "inputs", "test_universe.imcnp")
        shutil.copy(src2, dest)
        before = slurp(dest)
        p = montepy.read_input(src2)
        p.print_in_data_block["fill"] = True
        try:
            p.write_to_file(dest, overwrite=True)
            err = None
        except Exception as e:  # noqa: BLE001
            err = type(e).__name__
        after = slurp(dest)
        nbad += report("modifier-fault", after != before and err is not None, f"{err}; destination {len(before)} -> {len(after)} bytes")

        # 3. OSError on the 10th write (full disk): partial file where the original was
        dest = os.path.join(d, "c.imcnp")
        shutil.copy(SRC, dest)
        before = slurp(dest)
        p = montepy.read_input(SRC)
        import montepy.input_parser.input_file as input_file

        real_open = builtins.open

        class Failing:
            def __init__(self, fh):
                self._fh, self._n = fh, 0

            def write(self, s):
                self._n += 1
                if self._n == 10:
                    raise OSError(28, "No space left on device")
                return self._fh.write(s)

            def __enter__(self):
                self._fh.__enter__()
                return self

            def __exit__(self, *a):
                return self._fh.__exit__(*a)

            def __getattr__(self, k):
                return getattr(self._fh, k)

        def fake_open(path, mode="r", *a, **k):
            fh = real_open(path, mode, *a, **k)
            return Failing(fh) if "w" in mode else fh

        input_file.open = fake_open
        try:
            p.write_to_file(dest, overwrite=True)
            err = None
        except Exception as e:  # noqa: BLE001
            err = type(e).__name__
        finally:
            del input_file.open
        after = slurp(dest)
        stray = sorted(set(os.listdir(d)) - {"a.imcnp", "b.imcnp", "c.imcnp"})
        nbad += report("write-fault", after != before or bool(stray), f"{err}; destination {len(before)} -> {len(after)} bytes; stray files {stray}")

        # 4. modifier cards written after the blank line that ends the data block (DESIGN 7.3 #7)
        dest = os.path.join(d, "d.imcnp")
        p = montepy.read_input(SRC)
        p.print_in_data_block["imp"] = True
        p.write_to_file(dest)
        blanks, n, lines = blank_structure(dest)
        if lines[0].upper().startswith("MESSAGE:"):
            blanks = blanks[1:]  # the first blank line ends the message block
        third = blanks[2] if len(blanks) > 2 else None
        tail = [l for l in lines[third + 1 :] if l.strip()] if third is not None else []
        nbad += report("card-after-terminator", bool(tail), f"blank lines at {blanks} of {n} lines; non-blank lines after the data terminator: {tail[:3]}")

        # 5. a LineExpansionWarning raised by a modifier card of the data block crashed _handle_warnings
        dest = os.path.join(d, "e.imcnp")
        p = montepy.read_input(SRC)
        p.print_in_data_block["imp"] = True
        p.cells[1].importance.neutron = 0.123456789
        try:
            with warnings.catch_warnings(record=True):
                warnings.simplefilter("always")
                p.write_to_file(dest)
            err = None
        except Exception as e:  # noqa: BLE001
            err = type(e).__name__
        nbad += report("modifier-warning", err is not None, f"{err}; destination written: {os.path.exists(dest)} (complete in either case: not a C15 violation)")
    finally:
        shutil.rmtree(d, ignore_errors=True)
    return 1 if nbad else 0


if __name__ == "__main__":
    sys.exit(main())
