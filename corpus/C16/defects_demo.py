"""Demonstrations of the C16 defects found on the pinned tree (each prints BAD when the defect is present).
Run: VERIF_REPO=<tree> /venv/bin/python corpus/C16/defects_demo.py"""
import copy, os, sys, tempfile, warnings
sys.path.insert(0, os.environ.get("VERIF_REPO", "/repo"))
warnings.filterwarnings("ignore")
import montepy
from montepy.input_parser.mcnp_input import Input
from montepy.input_parser.block_type import BlockType

TEXT = """title
1 1 -1.0 -1 2 imp:n=1
2 0 (1:-2) #1 imp:n=1 u=2
3 1 -1.0 -3 imp:n=1 fill=2

1 so 1
2 pz 0
3 so 5
4 pz 7

m1 1001.80c 1.0
m2 8016.80c 1.0
"""

def read():
    d = tempfile.mkdtemp()
    try:
        path = os.path.join(d, "in.imcnp")
        with open(path, "w") as fh:
            fh.write(TEXT)
        return montepy.read_input(path)
    finally:
        import shutil; shutil.rmtree(d)

def surf(n, x):
    return montepy.surfaces.surface_builder.surface_builder(Input([f"{n} PZ {x}"], BlockType.SURFACE))
def mat(n):
    return montepy.data_inputs.material.Material(Input([f"m{n} 6012.80c 1.0"], BlockType.DATA))
def has(coll, o):
    return any(x is o for x in coll)
def report(name, bad):
    print(("BAD  " if bad else "ok   ") + name)

# (1) add_cell_children_to_problem rebuilds the collections without problem=
p = read(); s9 = surf(9, 9.0); c = p.cells[1]; c.geometry = c.geometry & +s9; m9 = mat(9); c.material = m9
p.add_cell_children_to_problem()
report("add_cell_children_to_problem: problem.surfaces no longer linked to the problem", p.surfaces._problem is not p)
report("add_cell_children_to_problem: new member surface has no _problem", has(p.surfaces, s9) and s9._problem is not p)
report("add_cell_children_to_problem: new member material has no _problem; material.cells is empty", has(p.materials, m9) and (m9._problem is not p or [x.number for x in m9.cells] != [1]))
s10 = surf(10, 10.0); p.surfaces.append(s10)
report("surface appended after add_cell_children_to_problem is not linked", s10._problem is not p)
# (2) materials setter
p = read(); p.materials = list(p.materials); m8 = mat(8); p.materials.append(m8)
report("materials setter: collection not linked, appended material not linked", p.materials._problem is not p or m8._problem is not p)
# (3) only the root of an assigned geometry gets _cell
p = read(); c = p.cells[1]; s1, s2, s4 = p.surfaces[1], p.surfaces[2], p.surfaces[4]
c.geometry = -s1 & +s2
c.geometry.left.divider = s4
report("leaf.divider = s on an assigned tree: s missing from cell.surfaces", not has(c.surfaces, s4))
report("    ... and surface.cells misses the cell", [x.number for x in s4.cells] != [1])
# (4) in-place &= / |= on an alias of the geometry whose right side is a leaf
p = read(); c = p.cells[1]; s4 = p.surfaces[4]; g = c.geometry; g &= +s4
report("g = cell.geometry; g &= +s: s missing from cell.surfaces", g is c.geometry and not has(c.surfaces, s4))
p = read(); c = p.cells[1]; s4 = p.surfaces[4]; g = c.geometry; g |= +s4
report("g = cell.geometry; g |= +s: s missing from cell.surfaces", g is c.geometry and not has(c.surfaces, s4))
# (5) left / right setters
p = read(); c = p.cells[1]; s4 = p.surfaces[4]; c.geometry.left = +s4
report("cell.geometry.left = +s: s missing from cell.surfaces", not has(c.surfaces, s4))
# (6) update_pointers run a second time (remove_duplicate_surfaces) empties cell.surfaces
p = read(); p.remove_duplicate_surfaces(1e-9)
report("remove_duplicate_surfaces: cell.surfaces emptied", [len(x.surfaces) for x in p.cells] != [2, 2, 1])
report("    ... and cell.complements emptied", len(p.cells[2].complements) != 1)
# (7) equal-but-distinct surfaces
p = read(); c = p.cells[1]; s1 = p.surfaces[1]; s1b = copy.deepcopy(s1)
try:
    c.geometry = -s1b & +p.surfaces[2]
    used = True
except montepy.errors.NumberConflictError:
    used = False  # repaired: the copy is refused (the cell holds another surface with its number)
report("geometry uses a distinct-but-equal copy: copy is not in cell.surfaces by identity", used and not has(c.surfaces, s1b))
# (8) universe not registered / not linked
p = read(); u5 = montepy.Universe(5); p.cells[1].universe = u5
report("cell.universe = Universe(5): universe.cells misses the cell", [x.number for x in u5.cells] != [1])
report("    ... and the universe is not in problem.universes", not has(p.universes, u5))
# (9) new cell without a universe
p = read(); c9 = montepy.Cell(); c9.number = 9; p.cells.append(c9)
report("Cell() appended to problem.cells has no universe", c9.universe is None)
# (10) material not in problem.materials
p = read(); m9 = mat(9); p.cells[2].material = m9
report("cell.material = m (m not in problem): material.cells misses the cell", [x.number for x in m9.cells] != [2])
# (11) removed cell still found?
p = read(); c1 = p.cells[1]; p.cells.remove(c1)
report("removed cell still in surface.cells", has(p.surfaces[1].cells, c1))
report("removed cell still complemented: cell 2 .complements holds a non-member", has(p.cells[2].complements, c1))
# (12) deepcopy
p = read(); q = copy.deepcopy(p)
report("deepcopy: members of the copy linked to the original", any(x._problem is not q for x in list(q.cells) + list(q.surfaces) + list(q.materials) + list(q.universes)))
report("deepcopy: surface.cells of the copy yields cells of the original", any(not has(q.cells, x) for s in q.surfaces for x in s.cells))
# (13) divider setter replaces the divider before the cell accepts it
p = read(); c = p.cells[1]; s1x = surf(1, 42.0)  # number 1 like p.surfaces[1], different plane
try:
    c.geometry.left.divider = s1x
except montepy.errors.NumberConflictError:
    pass
report("leaf.divider = s refused by cell.surfaces (number conflict) but the geometry uses s", c.geometry.left.divider is s1x and not has(c.surfaces, s1x))
# (14) after reading, cell.surfaces is not linked to the problem (it is for a Cell() appended to a problem)
p = read(); c = p.cells[1]; s9 = surf(9, 9.0); c.geometry = c.geometry & +s9
report("new surface put into the geometry of a cell that was read: surface.cells is empty", [x.number for x in s9.cells] != [1])
# (15) a failing second update_pointers (material renumbered) leaves the cell without its dividers
p = read(); p.materials[1].number = 7
try:
    p.remove_duplicate_surfaces(1e-9)
except montepy.errors.BrokenObjectLinkError:
    pass
report("remove_duplicate_surfaces failing on a renumbered material empties cell.surfaces", len(p.cells[1].surfaces) != 2)
# (16) a refused geometry (number conflict) leaves some of its dividers registered and points at the cell
p = read(); c = p.cells[3]; s1x = surf(3, 42.0); s9 = surf(9, 9.0); g = (+s9 & ~p.cells[1]) & -s1x  # cell 3 holds surface 3
try:
    c.geometry = g
except montepy.errors.NumberConflictError:
    pass
report("refused cell.geometry = g: dividers of g stay in cell.surfaces/complements, g points at the cell",
       has(c.surfaces, s9) or has(c.complements, p.cells[1]) or g._cell is c)
# (17) a material / universe that is linked to ANOTHER problem (a deepcopy drags a hidden copy of the problem along)
#      is assigned to a cell of this problem: it stays linked to the other problem, .cells walks the wrong cells
p = read(); m2 = copy.deepcopy(p.materials[1]); m2._number.value = 7; p.cells[2].material = m2
report("cell.material = deepcopy(member): material.cells does not yield the cell (walks the hidden copy)",
       [id(x) for x in m2.cells] != [id(p.cells[2])])
q = montepy.MCNP_Problem("other"); u9 = montepy.Universe(9); q.universes.append(u9); p.cells[1].universe = u9
report("cell.universe = universe of another problem: universe.cells does not yield the cell", [id(x) for x in u9.cells] != [id(p.cells[1])])
