"""C17 defects reproduced on the real code (run: VERIF_REPO=<tree> /venv/bin/python corpus/C17/defects_demo.py).

D1 (DESIGN 7.3 #16) setter latch: make_prop_pointer(..., types=()) stored type(self) of the FIRST caller in the
   closure (`nonlocal types`).  The same call is accepted in a fresh interpreter and rejected after an unrelated
   call on another class.  Each scenario below runs `call` alone in a fresh interpreter and after `prefix`.
Exit code 1 when any outcome differs (defect present), 0 otherwise.
"""
import json
import os
import subprocess
import sys

REPO = os.environ.get("VERIF_REPO", "/repo")

PRELUDE = r"""
import sys, warnings
sys.path.insert(0, %r)
warnings.filterwarnings("ignore")
import montepy
from montepy.input_parser.mcnp_input import Input
from montepy.input_parser.block_type import BlockType
from montepy.surfaces.surface_builder import surface_builder
from montepy.surfaces.half_space import HalfSpace, UnitHalfSpace
from montepy.geometry_operators import Operator
def surf(t): return surface_builder(Input([t], BlockType.SURFACE))
def attempt(f):
    try:
        f(); return "accepted"
    except Exception as e:
        return type(e).__name__
"""

SCENARIOS = {
    "periodic_surface: CylinderOnAxis first, then AxisPlane": (
        "a = surf('1 CZ 1'); b = surf('2 CZ 2'); attempt(lambda: setattr(a, 'periodic_surface', b))",
        "p = surf('3 PZ 0'); q = surf('4 PZ 5'); print(attempt(lambda: setattr(p, 'periodic_surface', q)))",
    ),
    "HalfSpace.left: UnitHalfSpace first, then HalfSpace": (
        "s = surf('1 PZ 0'); u = UnitHalfSpace(s, True, False); attempt(lambda: setattr(u, 'left', UnitHalfSpace(s, False, False)))",
        "s = surf('1 PZ 0'); h = HalfSpace(+s, Operator.UNION, -s); print(attempt(lambda: setattr(h, 'left', +s & -s)))",
    ),
}


def run(code):
    r = subprocess.run([sys.executable, "-c", PRELUDE % REPO + code], capture_output=True, text=True)
    if r.returncode != 0:
        return "crash: " + r.stderr[-300:]
    return r.stdout.strip()


def main():
    bad = 0
    for name, (prefix, call) in SCENARIOS.items():
        fresh = run(call)
        after = run(prefix + "\n" + call)
        print(json.dumps({"scenario": name, "fresh": fresh, "after_prefix": after, "differs": fresh != after}))
        bad += fresh != after
    return 1 if bad else 0


if __name__ == "__main__":
    sys.exit(main())
