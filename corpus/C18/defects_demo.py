"""Reproduces, on the real MontePy code, the defects of remove_duplicate_surfaces behind property C18.

    VERIF_REPO=/path/to/montepy /venv/bin/python corpus/C18/defects_demo.py

Each probe prints the surviving surface numbers, the cells' geometry and the surface cards written back.
On the repaired tree (fix: commits listed in known_findings.json) every probe prints the correct result.
"""
import os
import shutil
import sys
import tempfile
import warnings

sys.path.insert(0, os.environ.get("VERIF_REPO", "/repo"))
warnings.filterwarnings("ignore")
import montepy  # noqa: E402


def probe(name, cells, surfaces, data, tol, expect):
    text = "C18 probe\n" + "\n".join(cells) + "\n\n" + "\n".join(surfaces) + "\n\n" + "\n".join(data) + "\n"
    d = tempfile.mkdtemp()
    try:
        path = os.path.join(d, "in.imcnp")
        with open(path, "w") as fh:
            fh.write(text)
        p = montepy.read_input(path)
        try:
            p.remove_duplicate_surfaces(tol)
            out = os.path.join(d, "out.imcnp")
            p.write_to_file(out)
            with open(out) as fh:
                written = fh.read().split("\n\n")
            res = {
                "survivors": list(p.surfaces.numbers),
                "cells": [str(c.geometry) for c in p.cells],
                "cell.surfaces": [sorted(c.surfaces.numbers) for c in p.cells],
                "written cells": written[0].splitlines()[1:],
                "written surfaces": written[1].splitlines(),
            }
        except Exception as e:  # noqa: BLE001
            res = {"raised": f"{type(e).__name__}: {e}"}
    finally:
        shutil.rmtree(d)
    print(f"--- {name} (tolerance {tol})\n    expected: {expect}")
    for k, v in res.items():
        print(f"    {k}: {v}")


probe("reflecting ignored", ["1 0 -1 2"], ["*1 PZ 0", "2 PZ 0"], ["TR1 0 0 1"], 1e-4,
      "1 and 2 both survive (different boundary condition)")
probe("white ignored", ["1 0 -1 2"], ["1 PZ 0", "+2 PZ 0"], [], 1e-4, "1 and 2 both survive")
probe("periodic partner merged (axis plane)", ["1 0 7 -8"], ["7 -8 PZ 0", "8 -7 PZ 0.00001"], [], 1e-4,
      "7 and 8 both survive (periodic surfaces are never merged)")
probe("periodic second only (axis plane)", ["1 0 7 -8"], ["7 PZ 0", "8 -7 PZ 0.00001"], [], 1e-4,
      "7 and 8 both survive")
probe("periodic second only (c/z)", ["1 0 7 -8"], ["7 C/Z 0 0 1", "8 -7 C/Z 0 0 1"], [], 1e-4,
      "7 and 8 both survive")
probe("periodic second only (cz)", ["1 0 7 -8 9"], ["7 CZ 1", "8 -9 CZ 1", "9 PZ 0"], [], 1e-4,
      "7 and 8 both survive")
probe("transform asymmetry", ["1 0 -1 2 3"], ["1 1 PZ 0", "2 2 PZ 0", "3 PZ 5"],
      ["TR1 0 0 1", "TR2 0 0 1 1 0 0 0 1 0 0 0 1"], 1e-4, "symmetric decision whichever comes first")
probe("transform asymmetry reversed", ["1 0 -1 2 3"], ["1 2 PZ 0", "2 1 PZ 0", "3 PZ 5"],
      ["TR1 0 0 1", "TR2 0 0 1 1 0 0 0 1 0 0 0 1"], 1e-4, "symmetric decision whichever comes first")
probe("rotation different length", ["1 0 -1 2 3"], ["1 2 PZ 0", "2 1 PZ 0", "3 PZ 5"],
      ["TR1 0 0 1 1 0 0 0 1", "TR2 0 0 1 1 0 0 0 1 0 0 0 1"], 1e-4, "no exception")
probe("periodic pointer to a removed surface", ["1 0 1 -2 3"], ["1 PZ 0", "2 PZ 0", "3 -2 PZ 5"], [], 1e-4,
      "no written card refers to a removed surface")
probe("chain", ["1 0 1 -2 3"], ["1 PZ 0", "2 PZ 0.6", "3 PZ 1.2"], [], 1.0,
      "every removed surface maps to a survivor within tolerance")


def probe_deleted_link():
    """a periodic link deleted through the API must not be written (else it dangles once the partner is merged)"""
    d = tempfile.mkdtemp()
    try:
        path = os.path.join(d, "in.imcnp")
        with open(path, "w") as fh:
            fh.write("C18 probe\n20 0 28\n\n28 -9 CZ 1\n9 CZ 1\n\n")
        p = montepy.read_input(path)
        del p.surfaces[28].periodic_surface
        p.remove_duplicate_surfaces(1e-5)
        out = os.path.join(d, "out.imcnp")
        p.write_to_file(out)
        with open(out) as fh:
            print("--- deleted periodic link, then dedupe\n    expected: '28 CZ 1' only\n    written surfaces:", fh.read().split("\n\n")[1].splitlines())
    finally:
        shutil.rmtree(d)


probe_deleted_link()
