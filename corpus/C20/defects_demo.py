"""Demonstrations of the reader / read-card defects found on the pinned tree for C20 and C11
(each prints BAD when the defect is present, ok when it is repaired).
Run: /venv/bin/python corpus/C20/defects_demo.py   (VERIF_REPO selects the tree)"""
import os, shutil, signal, sys, tempfile, warnings

sys.path.insert(0, os.environ.get("VERIF_REPO", "/repo"))
warnings.filterwarnings("ignore")
import montepy
from montepy.input_parser import input_syntax_reader as isr
from montepy.input_parser.input_file import MCNP_InputFile
from montepy.utilities import is_comment


class Hang(Exception):
    pass


def _alarm(*a):
    raise Hang()


signal.signal(signal.SIGALRM, _alarm)


def items(files, top="main.i"):
    """(block, lines) of every Input the syntax reader yields, or the exception class name."""
    d = tempfile.mkdtemp()
    out = []
    try:
        for n, t in files.items():
            with open(os.path.join(d, n), "wb") as fh:
                fh.write(t.encode("latin-1"))
        signal.alarm(3)
        try:
            for it in isr.read_input_syntax(MCNP_InputFile(os.path.join(d, top))):
                if hasattr(it, "block_type"):
                    out.append((it.block_type.name, it.input_lines))
        except Hang:
            out.append("HANG")
        except Exception as e:  # noqa: BLE001
            out.append(type(e).__name__)
        finally:
            signal.alarm(0)
    finally:
        shutil.rmtree(d)
    return out


def report(name, bad):
    print(("BAD  " if bad else "ok   ") + name)


# (1) C11: "&" followed by trailing blanks is not taken as a continuation
r = items({"main.i": "t\n1 0 -1 &  \nimp:n=1\n\n"})
report("'&' followed by trailing blanks is not a continuation", r != [("CELL", ["1 0 -1 &", "imp:n=1"])])
# (2) C11: "&" at the end of a "$" comment is taken as a continuation
r = items({"main.i": "t\n1 0 -1 $ a &\n2 0 1\n\n"})
report("'&' at the end of a $ comment glues the next input", r != [("CELL", ["1 0 -1 $ a &"]), ("CELL", ["2 0 1"])])
# (3) C11: is_comment takes "c " beyond column 5 as a comment line (MCNP: C must be in columns 1-5)
report("is_comment('        c 5') beyond column 5", is_comment("        c 5\n"))
report("is_comment('     c') in column 6", is_comment("     c\n"))
report("is_comment('  c') without newline (indented bare c after rstrip)", not is_comment("  c"))
# (4) C20: inside a sub-file a blank line counts blocks from zero
r = items({"main.i": "t\n1 0 -1\n\n1 so 5\n\nread file=d.i\n", "d.i": "ctme 5\n\nprint\n"})
report("blank line in a data sub-file switches to the SURFACE block", ("SURFACE", ["print"]) in r)
# (5) C20: a file that reads itself is queued for ever
r = items({"main.i": "t\n1 0 -1\n\n1 so 5\n\nread file=d.i\n", "d.i": "ctme 5\nread file=d.i\n"})
report("a sub-file that reads itself never terminates", r[-1] == "HANG")
# (6) C11 (recorded, not repaired): content after the blank line that ends the data block is read as data
r = items({"main.i": "t\n1 0 -1\n\n1 so 5\n\nmode n\n\nnps 10\n"})
report("content after the data block's terminator is read as data [known finding C11-F1]", ("DATA", ["nps 10"]) in r)
# (7) C11: C comment lines take part in the '&' bookkeeping (MCNP ignores comment lines altogether)
r = items({"main.i": "t\n1 0 -1\nc see a &\n2 0 1\n\n"})
report("a C comment line ending in ' &' glues the next input", ("CELL", ["2 0 1"]) not in r)
r = items({"main.i": "t\n1 0 -1 &\nc note\nimp:n=1\n\n"})
report("a C comment line after an '&' line cancels the continuation", ("CELL", ["imp:n=1"]) in r)
