import Lean.Data.Json
import MontePyVerif.Model.FileWrite
/-! Driver for the writer-order model (unit U-write-order).
    Request: {"limit":128,"message":[lines],"title":"..","cells":[[lines of object]..],"surfaces":[..],"data":[..]}
    Reply: the model's written lines, the assembled cards' well-formedness, and what the Spec reads
    in the model's lines (number of cards per block, first words). -/
open Lean MontePyVerif.Spec.File MontePyVerif.FileWrite

def strs (j : Json) : Except String (List Str) := do
  let a ← j.getArr?
  a.toList.mapM (fun x => do let s ← x.getStr?; pure s.toList)

def objsOf (j : Json) : Except String (List (List Str)) := do
  let a ← j.getArr?
  a.toList.mapM strs

def sj (x : Str) : Json := Json.str (String.ofList x)

def handle (j : Json) : Except String Json := do
  let limit ← (← j.getObjVal? "limit").getNat?
  let message ← strs (← j.getObjVal? "message")
  let title ← (← j.getObjVal? "title").getStr?
  let cells ← objsOf (← j.getObjVal? "cells")
  let surfaces ← objsOf (← j.getObjVal? "surfaces")
  let data ← objsOf (← j.getObjVal? "data")
  let (ch, cc) := assemble (cells.filter (!·.isEmpty))
  let (sh, sc) := assemble (surfaces.filter (!·.isEmpty))
  let (dh, dc) := assemble (data.filter (!·.isEmpty))
  let p : WProblem := (⟨message, title.toList, ch, cc, sh, sc, dh, dc⟩ : WProblem).strip
  let (cc, sc, dc) := (p.cells, p.surfaces, p.data)
  let (ch, sh, dh) := (p.cellsHead, p.surfHead, p.dataHead)
  let lines := writeLines p
  let physOk := lines.all (fun l => physical limit l == l)
  let bad (cs : List WCard) : List Json := (cs.filter (fun c => !cardOKb c)).map (fun c => sj c.first)
  let b := blocks limit lines
  return Json.mkObj [
    ("lines", Json.arr (lines.map sj).toArray),
    ("phys_ok", toJson physOk),
    ("heads_ok", toJson (headOKb ch && headOKb sh && headOKb dh)),
    ("bad_cards", Json.arr (bad cc ++ bad sc ++ bad dc).toArray),
    ("not_phys", Json.arr ((lines.filter (fun l => !(physical limit l == l))).map sj).toArray),
    ("ncards", Json.arr #[toJson cc.length, toJson sc.length, toJson dc.length]),
    ("spec_ncards", Json.arr #[toJson b.cells.length, toJson b.surfaces.length, toJson b.data.length])]

partial def loop (h : IO.FS.Stream) : IO Unit := do
  let line ← h.getLine
  if line.isEmpty then return ()
  let out := match Json.parse line with
    | .error e => Json.mkObj [("error", s!"json: {e}")]
    | .ok j => match handle j with
      | .ok r => r
      | .error e => Json.mkObj [("error", e)]
  IO.println out.compress
  loop h

def main : IO Unit := do loop (← IO.getStdin)
