import Lean.Data.Json
import MontePyVerif.Spec.Geometry
import MontePyVerif.Model.Geometry
import MontePyVerif.Lemmas.GeometryReady
/-! Line-protocol driver for the geometry model and the geometry Spec (unit U-geometry).
    One JSON case per input line, one JSON answer per output line.
    Text is exchanged over the alphabet `0-9 + - # ( ) : space newline & $` (`$` = start of a comment). -/
open Lean MontePyVerif.Geometry
open MontePyVerif.Spec.Geometry (GCh Tok E lex parse varsOf table)

def chOf (c : Char) : Except String GCh :=
  if c.isDigit then pure (.digit (c.toNat - '0'.toNat))
  else match c with
    | '+' => pure .plus | '-' => pure .minus | '#' => pure .hash | '(' => pure .lp | ')' => pure .rp
    | ':' => pure .colon | ' ' => pure .sp | '\n' => pure .nl | '&' => pure .amp | '$' => pure .cmt
    | c => throw s!"character {c.toNat} outside the geometry alphabet"

def chTo : GCh → Char
  | .digit d => Char.ofNat ('0'.toNat + d) | .plus => '+' | .minus => '-' | .hash => '#' | .lp => '(' | .rp => ')'
  | .colon => ':' | .sp => ' ' | .nl => '\n' | .amp => '&' | .cmt => '$'

def textOf (s : String) : Except String (List GCh) := s.toList.mapM chOf
def textTo (cs : List GCh) : String := String.ofList (cs.map chTo)

def tokStr : Tok → String
  | .num n neg => (if neg then "-" else "") ++ toString n
  | .cell n => "#" ++ toString n
  | .lp => "(" | .clp => "#(" | .rp => ")" | .colon => ":"

def getNat (j : Json) (k : String) : Except String Nat := do
  let n ← (← j.getObjVal? k).getInt?
  if n < 0 then throw s!"negative {k}" else pure n.toNat

def parsePad (j : Json) : Except String Pad := do
  let a ← j.getArr?
  a.toList.mapM fun it =>
    match it with
    | .str s => do pure (.str (← textOf s))
    | it => do pure (.cmt (← getNat it "c"))

def parseOptPad (j : Json) (k : String) : Except String (Option Pad) :=
  match j.getObjVal? k with
  | .ok .null => pure none
  | .ok p => do pure (some (← parsePad p))
  | .error _ => pure none

def parseVN (j : Json) : Except String VN := do
  pure ⟨← getNat j "id", ← textOf (← (← j.getObjVal? "tok").getStr?), ← parseOptPad j "pad", ← getNat j "value",
        ← (← j.getObjVal? "neg").getBool?⟩

def parseKey (j : Json) : Except String Key := do
  match ← j.getStr? with
  | "left" => pure .left | "operator" => pure .operator | "right" => pure .right | "end_pad" => pure .endPad
  | k => throw s!"unexpected key {k} in an operator node"

def parseBOp (j : Json) : Except String BOp := do
  match ← j.getStr? with
  | "inter" => pure .inter | "union" => pure .union
  | k => throw s!"operator {k}"

partial def parseGT (j : Json) : Except String GT := do
  match ← (← j.getObjVal? "t").getStr? with
  | "val" => pure (.val (← parseVN j))
  | "shift" =>
      pure (.shift ⟨← getNat j "id", ← parseOptPad j "sp", ← parseOptPad j "ep"⟩ (← parseGT (← j.getObjVal? "left")))
  | "compl" =>
      let order ← (← (← j.getObjVal? "order").getArr?).toList.mapM parseKey
      pure (.compl (← getNat j "id") order (← parsePad (← j.getObjVal? "opr")) (← parseOptPad j "ep")
        (← parseGT (← j.getObjVal? "left")))
  | "bin" =>
      let order ← (← (← j.getObjVal? "order").getArr?).toList.mapM parseKey
      pure (.bin (← getNat j "id") (← parseBOp (← j.getObjVal? "o")) order (← parsePad (← j.getObjVal? "opr"))
        (← parseOptPad j "ep") (← parseGT (← j.getObjVal? "left")) (← parseGT (← j.getObjVal? "right")))
  | t => throw s!"node type {t}"

/-- operand built from scratch with the Python operators -/
partial def parseExpr (j : Json) : Except String HS := do
  match ← (← j.getObjVal? "e").getStr? with
  | "s" => pure (surfaceSide (← getNat j "n") (← (← j.getObjVal? "pos").getBool?))
  | "c" => pure (cellInvert (← getNat j "n"))
  | "and" => pure ((← parseExpr (← j.getObjVal? "a")).and (← parseExpr (← j.getObjVal? "b")))
  | "or" => pure ((← parseExpr (← j.getObjVal? "a")).or (← parseExpr (← j.getObjVal? "b")))
  | "not" => pure (← parseExpr (← j.getObjVal? "a")).invert
  | e => throw s!"expr {e}"

def toksJson (cs : List GCh) : Json :=
  match lex cs with
  | some ts => toJson (ts.map tokStr)
  | none => Json.null

def runModel (j : Json) : Except String Json := do
  let init ← j.getObjVal? "init"
  let (cg0, parsed) ← match init.getObjVal? "parsed" with
    | .ok g => do let g ← parseGT g; pure (parseCell g, some g)
    | .error _ => do pure ((⟨[], 0, ← parseExpr (← init.getObjVal? "scratch")⟩ : CG), none)
  let h0 := cg0.hs
  let ctr ← getNat j "ctr"
  let ops ← (← j.getObjVal? "ops").getArr?
  let mut h := h0
  let mut cg := cg0
  let mut c := ctr
  let mut steps : Array Json := #[]
  let mut wfAll := MontePyVerif.C02.wf cg0.hs && MontePyVerif.C02.chainPads cg0.chain
  for op in ops do
    let k ← (← op.getObjVal? "k").getStr?
    if k == "write" then
      let (txt, cg', c') := writeGeometry c (cg.set h)
      cg := cg'
      h := cg'.hs
      c := c'
      -- the hypothesis of theorem C02_cell_write_meaning, evaluated on the model's state
      let rdy := MontePyVerif.C02.ready cg.hs && MontePyVerif.C02.chainOK cg.chain cg.hs.fmt
      steps := steps.push (Json.mkObj [("str", h.str), ("text", textTo txt), ("toks", toksJson txt), ("ready", rdy)])
    else
      -- the address of the edited HalfSpace: attribute path from the root ("" = the root)
      let path : Path ← match op.getObjVal? "path" with
        | .ok (.str ps) => ps.toList.mapM fun ch =>
            if ch == 'l' then pure Dir.l else if ch == 'r' then pure Dir.r else throw s!"path character {ch}"
        | _ => pure []
      if k == "noop" then pure ()
      else if k == "not" then h := h.editAt HS.invert path
      else if k == "setop" then
        let o ← parseBOp (← op.getObjVal? "o")
        h := h.editAt (HS.setOperator o) path
      else
        let x ← match op.getObjVal? "xp" with
          | .ok g => do pure (parseInputNode (← parseGT g))
          | .error _ => parseExpr (← op.getObjVal? "x")
        -- hypothesis `Edit.ok` of C02_history_edits: the operand is well-formed
        if !(MontePyVerif.C02.wf x) then wfAll := false
        let f : HS → HS ← match k with
          | "and" => pure (fun s => s.and x) | "rand" => pure (fun s => x.and s)
          | "or" => pure (fun s => s.or x) | "ror" => pure (fun s => x.or s)
          | "iand" => pure (fun s => s.iand x) | "ior" => pure (fun s => s.ior x)
          | "replace" => pure (fun _ => x)
          | k => throw s!"op {k}"
        h := h.editAt f path
      steps := steps.push (Json.mkObj [("str", h.str)])
  let ptext := match parsed with
    | some g => Json.str (textTo g.format)
    | none => Json.null
  -- the hypotheses of theorem C02_read_meaning, evaluated on the tree that was read
  let initReady := match parsed with
    | some _ => Json.bool (MontePyVerif.C02.ready cg0.hs && MontePyVerif.C02.chainOK cg0.chain cg0.hs.fmt)
    | none => Json.null
  return Json.mkObj [("init", h0.str), ("parse_text", ptext), ("init_ready", initReady), ("wf", wfAll), ("steps", Json.arr steps)]

def runDenote (j : Json) : Except String Json := do
  let cs ← textOf (← (← j.getObjVal? "text").getStr?)
  match lex cs with
  | none => return Json.mkObj [("ok", false), ("why", "lex")]
  | some ts =>
    match parse ts with
    | none => return Json.mkObj [("ok", false), ("why", "parse"), ("toks", toJson (ts.map tokStr))]
    | some e =>
      let vars ← match j.getObjVal? "vars" with
        | .ok v => do
            let a ← v.getArr?
            a.toList.mapM fun p => do
              let q ← p.getArr?
              let c ← (q[0]?.getD Json.null).getBool?
              let n ← (q[1]?.getD Json.null).getInt?
              pure (c, n.toNat)
        | .error _ => pure (varsOf ts)
      let tb := String.ofList ((table e vars).map fun b => if b then '1' else '0')
      return Json.mkObj [("ok", true), ("toks", toJson (ts.map tokStr)), ("table", tb),
        ("vars", Json.arr (vars.map fun (c, n) => Json.arr #[toJson c, toJson n]).toArray)]

def padJson (p : Pad) : Json :=
  Json.arr (p.map fun
    | .str cs => Json.str (textTo cs)
    | .cmt n => Json.mkObj [("c", toJson n)]).toArray

def parensWrap : List Wrap := [⟨0, some [.str [.lp]], some [.str [.rp]]⟩]

/-- `_update_node` on one node with a given operator padding -/
def runSwitch (j : Json) : Except String Json := do
  let pad ← parsePad (← j.getObjVal? "pad")
  let lp ← (← j.getObjVal? "lparens").getBool?
  let rp ← (← j.getObjVal? "rparens").getBool?
  let g : GN := ⟨1, [.left, .operator, .right], pad, none, if lp then parensWrap else [], 0, if rp then parensWrap else [], 0⟩
  let g' ← match ← (← j.getObjVal? "hsop").getStr? with
    | "inter" => pure (updateNodeBin .inter g)
    | "union" => pure (updateNodeBin .union g)
    | "compl" => pure (updateNodeCompl g)
    | k => throw s!"hsop {k}"
  return Json.mkObj [("pad", padJson g'.opr), ("text", textTo g'.opr.format)]

def runCase (j : Json) : Except String Json := do
  match ← (← j.getObjVal? "op").getStr? with
  | "model" => runModel j
  | "denote" => runDenote j
  | "switch" => runSwitch j
  | o => throw s!"unknown op {o}"

partial def loop (h : IO.FS.Stream) : IO Unit := do
  let line ← h.getLine
  if line.isEmpty then return ()
  let out := match Json.parse line with
    | .error e => Json.mkObj [("error", s!"json: {e}")]
    | .ok j => match runCase j with
      | .ok r => r
      | .error e => Json.mkObj [("error", e)]
  IO.println out.compress
  loop h

def main : IO Unit := do loop (← IO.getStdin)
