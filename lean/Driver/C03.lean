import Lean.Data.Json
import MontePyVerif.Model.Edits
/-! Line-protocol driver for the edit model (units U-setter / U-write of C03).
    One JSON case per input line: the heap and the slot/field maps serialised from the live MontePy objects,
    an edit script, and the quantities to observe.  One JSON line out: `Inv` of the initial state, outcome and
    abstraction after every edit, and the written table at the end. -/
open Lean MontePyVerif.Edits

def arrAt (j : Json) (i : Nat) : Except String Json := do
  let a ← j.getArr?
  match a[i]? with
  | some x => pure x
  | none => throw s!"missing element {i}"

def natAt (j : Json) (i : Nat) : Except String Nat := do
  let n ← (← arrAt j i).getInt?
  if n < 0 then throw "negative index" else pure n.toNat

def strAt (j : Json) (i : Nat) : Except String String := do (← arrAt j i).getStr?

def ratOf (j : Json) : Except String Rat := do
  let n ← (← arrAt j 0).getInt?
  let d ← (← arrAt j 1).getInt?
  pure (mkRat n d.toNat)

def valOf (j : Json) : Except String (Option Val) :=
  match j with
  | .null => pure none
  | _ => match j.getObjVal? "n" with
    | .ok r => do pure (some (.num (← ratOf r)))
    | .error _ => do pure (some (.str (← (← j.getObjVal? "s").getStr?)))

def pyOf (j : Json) : Except String PyVal :=
  match j with
  | .null => pure .none
  | .bool b => pure (.bool b)
  | _ => match j.getObjVal? "i" with
    | .ok n => do pure (.int (← n.getInt?))
    | .error _ => match j.getObjVal? "f" with
      | .ok r => do pure (.float (← ratOf r))
      | .error _ => match j.getObjVal? "s" with
        | .ok s => do pure (.str (← s.getStr?))
        | .error _ => pure .other

def optNatOf (j : Json) : Except String (Option Nat) :=
  match j with
  | .null => pure none
  | _ => do
    let n ← j.getInt?
    pure (some n.toNat)

def slotOf (j : Json) : Except String Slot := do
  let k ← strAt j 0
  match k with
  | "cellNumber" => return .cellNumber (← natAt j 1)
  | "cellDensity" => return .cellDensity (← natAt j 1)
  | "cellImp" => return .cellImp (← natAt j 1) (← strAt j 2)
  | "cellVol" => return .cellVol (← natAt j 1)
  | "cellLat" => return .cellLat (← natAt j 1)
  | "surfNumber" => return .surfNumber (← natAt j 1)
  | "surfConst" => return .surfConst (← natAt j 1) (← natAt j 2)
  | "matNumber" => return .matNumber (← natAt j 1)
  | "matFrac" => return .matFrac (← natAt j 1) (← natAt j 2)
  | "trNumber" => return .trNumber (← natAt j 1)
  | _ => throw s!"unknown slot {k}"

def fieldOf (j : Json) : Except String Field := do
  let k ← strAt j 0
  match k with
  | "cellMat" => return .cellMat (← natAt j 1)
  | "cellAtomDens" => return .cellAtomDens (← natAt j 1)
  | "cellUni" => return .cellUni (← natAt j 1)
  | "cellNotTrunc" => return .cellNotTrunc (← natAt j 1)
  | "cellFillUni" => return .cellFillUni (← natAt j 1)
  | "cellFillTr" => return .cellFillTr (← natAt j 1)
  | "surfReflect" => return .surfReflect (← natAt j 1)
  | "surfWhite" => return .surfWhite (← natAt j 1)
  | "surfTr" => return .surfTr (← natAt j 1)
  | "surfPer" => return .surfPer (← natAt j 1)
  | "uniNumber" => return .uniNumber (← natAt j 1)
  | "trDisp" => return .trDisp (← natAt j 1)
  | "trRot" => return .trRot (← natAt j 1)
  | "trDeg" => return .trDeg (← natAt j 1)
  | "trM2A" => return .trM2A (← natAt j 1)
  | "matLaws" => return .matLaws (← natAt j 1)
  | "mode" => return .mode
  | "title" => return .title
  | _ => throw s!"unknown field {k}"

def quantityOf (j : Json) : Except String Quantity :=
  match slotOf j with
  | .ok s => pure (.node s)
  | .error _ => do pure (.field (← fieldOf j))

def wkeyOf (j : Json) : Except String WKey := do
  let k ← strAt j 0
  match k with
  | "w.cellMaterial" => return .cellMaterial (← natAt j 1)
  | "w.cellDensitySign" => return .cellDensitySign (← natAt j 1)
  | "w.cellU" => return .cellU (← natAt j 1)
  | "w.cellFill" => return .cellFill (← natAt j 1)
  | "w.cellFillTr" => return .cellFillTr (← natAt j 1)
  | "w.surfModifier" => return .surfModifier (← natAt j 1)
  | "w.surfPointer" => return .surfPointer (← natAt j 1)
  | _ => match slotOf j with
    | .ok s => return .node s
    | .error _ => return .field (← fieldOf j)

def ratsOf (j : Json) : Except String (List Rat) := do
  let a ← j.getArr?
  a.toList.mapM ratOf

def strsOf (j : Json) : Except String (List String) := do
  let a ← j.getArr?
  a.toList.mapM (·.getStr?)

def obsOf (j : Json) : Except String Obs :=
  match j with
  | .str "absent" => pure .absent
  | _ =>
    match j.getObjVal? "ptr" with
    | .ok x => do pure (.ptr (← optNatOf x))
    | .error _ => match j.getObjVal? "flag" with
      | .ok x => do pure (.flag (← x.getBool?))
      | .error _ => match j.getObjVal? "int" with
        | .ok x => do pure (.int (← x.getInt?))
        | .error _ => match j.getObjVal? "vec" with
          | .ok x => do pure (.vec (← ratsOf x))
          | .error _ => match j.getObjVal? "strs" with
            | .ok .null => pure (.strs none)
            | .ok x => do pure (.strs (some (← strsOf x)))
            | .error _ => match j.getObjVal? "text" with
              | .ok x => do pure (.text (← x.getStr?))
              | .error _ => do pure (.val (← valOf (← j.getObjVal? "val")))

def ratJson (q : Rat) : Json := Json.arr #[toJson q.num, toJson q.den]

def valJson : Option Val → Json
  | none => Json.null
  | some (.num q) => Json.mkObj [("n", ratJson q)]
  | some (.str s) => Json.mkObj [("s", s)]

def obsJson : Obs → Json
  | .absent => "absent"
  | .val v => Json.mkObj [("val", valJson v)]
  | .ptr none => Json.mkObj [("ptr", Json.null)]
  | .ptr (some k) => Json.mkObj [("ptr", toJson k)]
  | .flag b => Json.mkObj [("flag", b)]
  | .int n => Json.mkObj [("int", toJson n)]
  | .vec xs => Json.mkObj [("vec", Json.arr (xs.map ratJson).toArray)]
  | .strs none => Json.mkObj [("strs", Json.null)]
  | .strs (some xs) => Json.mkObj [("strs", toJson xs)]
  | .text s => Json.mkObj [("text", s)]

def errName : ErrKind → String
  | .typeError => "TypeError" | .valueError => "ValueError" | .numberConflict => "NumberConflictError"
  | .particleNotInProblem => "ParticleTypeNotInProblem" | .keyError => "KeyError" | .indexError => "IndexError"
  | .notApplicable => "NotApplicable"

def pysOf (j : Json) : Except String (List PyVal) := do
  let a ← j.getArr?
  a.toList.mapM pyOf

def editOf (j : Json) : Except String Edit := do
  let k ← strAt j 0
  match k with
  | "cellNumber" => return .cellNumber (← natAt j 1) (← pyOf (← arrAt j 2))
  | "surfNumber" => return .surfNumber (← natAt j 1) (← pyOf (← arrAt j 2))
  | "matNumber" => return .matNumber (← natAt j 1) (← pyOf (← arrAt j 2))
  | "trNumber" => return .trNumber (← natAt j 1) (← pyOf (← arrAt j 2))
  | "uniNumber" => return .uniNumber (← natAt j 1) (← pyOf (← arrAt j 2))
  | "material" => return .material (← natAt j 1) (← optNatOf (← arrAt j 2))
  | "atomDensity" => return .atomDensity (← natAt j 1) (← pyOf (← arrAt j 2))
  | "massDensity" => return .massDensity (← natAt j 1) (← pyOf (← arrAt j 2))
  | "delDensity" => return .delDensity (← natAt j 1)
  | "importance" => return .importance (← natAt j 1) (← strAt j 2) (← pyOf (← arrAt j 3))
  | "importanceAll" => return .importanceAll (← natAt j 1) (← pyOf (← arrAt j 2))
  | "volume" => return .volume (← natAt j 1) (← pyOf (← arrAt j 2))
  | "delVolume" => return .delVolume (← natAt j 1)
  | "lattice" => return .lattice (← natAt j 1) (← pyOf (← arrAt j 2))
  | "delLattice" => return .delLattice (← natAt j 1)
  | "universe" => return .universe (← natAt j 1) (← natAt j 2)
  | "claim" => return .claim (← natAt j 1) (← (← (← arrAt j 2).getArr?).toList.mapM (fun x => do
      let n ← x.getInt?
      if n < 0 then throw "negative index" else pure n.toNat))
  | "notTruncated" => return .notTruncated (← natAt j 1) (← pyOf (← arrAt j 2))
  | "fillUniverse" => return .fillUniverse (← natAt j 1) (← optNatOf (← arrAt j 2))
  | "fillTransform" => return .fillTransform (← natAt j 1) (← optNatOf (← arrAt j 2))
  | "surfConstants" => return .surfConstants (← natAt j 1) (← pysOf (← arrAt j 2))
  | "location" => return .location (← natAt j 1) (← pyOf (← arrAt j 2))
  | "radius" => return .radius (← natAt j 1) (← pyOf (← arrAt j 2))
  | "coordinates" => return .coordinates (← natAt j 1) (← pyOf (← arrAt j 2)) (← pyOf (← arrAt j 3))
  | "reflecting" => return .reflecting (← natAt j 1) (← pyOf (← arrAt j 2))
  | "white" => return .white (← natAt j 1) (← pyOf (← arrAt j 2))
  | "surfTransform" => return .surfTransform (← natAt j 1) (← optNatOf (← arrAt j 2))
  | "periodic" => return .periodic (← natAt j 1) (← optNatOf (← arrAt j 2))
  | "fraction" => return .fraction (← natAt j 1) (← natAt j 2) (← pyOf (← arrAt j 3))
  | "laws" => return .laws (← natAt j 1) (← strsOf (← arrAt j 2))
  | "displacement" => return .displacement (← natAt j 1) (← ratsOf (← arrAt j 2))
  | "rotation" => return .rotation (← natAt j 1) (← ratsOf (← arrAt j 2))
  | "inDegrees" => return .inDegrees (← natAt j 1) (← pyOf (← arrAt j 2))
  | "mainToAux" => return .mainToAux (← natAt j 1) (← pyOf (← arrAt j 2))
  | "modeAdd" => return .modeAdd (← strAt j 1)
  | "modeRemove" => return .modeRemove (← strAt j 1)
  | "modeSet" => return .modeSet (← strsOf (← arrAt j 1))
  | "title" => return .title (← strAt j 1)
  | _ => throw s!"unknown edit {k}"

def kindOf : String → SurfKind
  | "axisPlane" => .axisPlane | "cylOnAxis" => .cylOnAxis | "cylParAxis" => .cylParAxis | _ => .generic

def loadProblem (j : Json) : Except String (Problem × List Slot) := do
  let nodes ← (← j.getObjVal? "nodes").getArr?
  let nodes ← nodes.toList.mapM (fun x => do
    let v ← valOf (← arrAt x 0)
    let ng ← (← arrAt x 1).getBool?
    let isn ← match (← arrAt x 2) with
      | .null => pure none
      | b => do pure (some (← b.getBool?))
    pure ({ value := v, negatable := ng, isNeg := isn } : VNode))
  let slots ← (← j.getObjVal? "slots").getArr?
  let slots ← slots.toList.mapM (fun x => do
    let s ← slotOf (← arrAt x 0)
    let id ← natAt x 1
    let t ← optNatOf (← arrAt x 2)
    pure (s, id, t))
  let fields ← (← j.getObjVal? "fields").getArr?
  let fields ← fields.toList.mapM (fun x => do
    let f ← fieldOf (← arrAt x 0)
    let o ← obsOf (← arrAt x 1)
    pure (f, o))
  let impKeys ← (← j.getObjVal? "impKeys").getArr?
  let impKeys ← impKeys.toList.mapM strsOf
  let counts ← (← j.getObjVal? "counts").getArr?
  let counts ← counts.toList.mapM (fun x => do let n ← x.getInt?; pure n.toNat)
  let kinds ← strsOf (← j.getObjVal? "surfKind")
  let nconst ← (← j.getObjVal? "nconst").getArr?
  let nconst ← nconst.toList.mapM (fun x => do let n ← x.getInt?; pure n.toNat)
  let dflt : VNode := { value := none, negatable := false, isNeg := none }
  let p : Problem := {
    heap := fun i => nodes.getD i dflt
    next := nodes.length
    slot := fun s => (slots.find? (fun x => x.1 == s)).map (fun x => x.2.1)
    tree := fun s => (slots.find? (fun x => x.1 == s)).bind (fun x => x.2.2)
    field := fun f => ((fields.find? (fun x => x.1 == f)).map (fun x => x.2)).getD .absent
    impKeys := fun i => impKeys.getD i []
    ncells := counts.getD 0 0, nsurfs := counts.getD 1 0, nmats := counts.getD 2 0
    ntrs := counts.getD 3 0, nunis := counts.getD 4 0
    surfKind := fun i => kindOf (kinds.getD i "generic")
    nconst := fun i => nconst.getD i 0 }
  pure (p, slots.map (·.1))

def runCase (j : Json) : Except String Json := do
  let (p0, slots) ← loadProblem j
  let edits ← (← j.getObjVal? "edits").getArr?
  let edits ← edits.toList.mapM editOf
  let probes ← (← j.getObjVal? "probes").getArr?
  let probes ← probes.toList.mapM quantityOf
  let wprobes ← (← j.getObjVal? "wprobes").getArr?
  let wprobes ← wprobes.toList.mapM wkeyOf
  let obs (p : Problem) : Json := Json.arr (probes.map (fun q => obsJson (α p q))).toArray
  let (pEnd, steps) := edits.foldl (fun (acc : Problem × List Json) e =>
      match applyEdit acc.1 e with
      | .ok p' => (p', Json.mkObj [("out", "ok"), ("alpha", obs p')] :: acc.2)
      | .error k => (acc.1, Json.mkObj [("out", errName k), ("alpha", obs acc.1)] :: acc.2)) (p0, [])
  return Json.mkObj [
    ("inv", invCheck p0 slots),
    ("alpha0", obs p0),
    ("steps", Json.arr steps.reverse.toArray),
    ("written", Json.arr (wprobes.map (fun k => obsJson (written pEnd k))).toArray),
    ("rendered", Json.arr (wprobes.map (fun k => obsJson (render (α pEnd) k))).toArray)]

partial def loop (h : IO.FS.Stream) : IO Unit := do
  let line ← h.getLine
  if line.isEmpty then return ()
  let out := match Json.parse line with
    | .error e => Json.mkObj [("error", s!"json: {e}")]
    | .ok j => match runCase j with
      | .ok r => r
      | .error e => Json.mkObj [("error", e)]
  IO.println out.compress
  loop h

def main : IO Unit := do loop (← IO.getStdin)
