import Lean.Data.Json
import MontePyVerif.Model.Renumber
/-! Line-protocol driver for the link model (unit U-links).
    Request: `{"file": <numbers of the original file>, "ops": [[kind, object, n], ...]}` where `object` is the
    card index of the object in its block (cells, surfaces, materials, transforms) or, for universes, the
    number the universe has in the original file.
    Answer: link status, outcome of every assignment, final numbers per object, numbers written at every site. -/
open Lean MontePyVerif.Collection MontePyVerif.Renumber
open MontePyVerif.Spec.Refs (WCell WSurf WMat WFile)

def oI : Option Int → Json | none => Json.null | some n => toJson n

def getOptInt (j : Json) (k : String) : Except String (Option Int) :=
  match j.getObjVal? k with
  | .ok Json.null => pure none
  | .ok v => do pure (some (← v.getInt?))
  | .error _ => pure none

def getInts (j : Json) : Except String (List Int) := do
  let a ← j.getArr?
  a.toList.mapM (·.getInt?)

def parseCell (j : Json) : Except String WCell := do
  let number ← (← j.getObjVal? "number").getInt?
  let mat ← (← j.getObjVal? "mat").getInt?
  let g ← (← j.getObjVal? "geom").getArr?
  let geom ← g.toList.mapM (fun x => do
    let a ← x.getArr?
    match a.toList with
    | [b, n] => do pure ((← b.getBool?), (← n.getInt?))
    | _ => throw "leaf")
  let u ← getOptInt j "u"
  let fill ← getInts (← j.getObjVal? "fill")
  let fillTr ← getOptInt j "fillTr"
  pure { number, mat, geom, u, fill, fillTr }

def parseFile (j : Json) : Except String WFile := do
  let cells ← (← (← j.getObjVal? "cells").getArr?).toList.mapM parseCell
  let surfs ← (← (← j.getObjVal? "surfs").getArr?).toList.mapM (fun x => do
    pure ({ number := (← (← x.getObjVal? "number").getInt?), tr := (← getOptInt x "tr"), per := (← getOptInt x "per") } : WSurf))
  let mats ← (← (← j.getObjVal? "mats").getArr?).toList.mapM (fun x => do
    pure ({ number := (← (← x.getObjVal? "number").getInt?), mt := (← getOptInt x "mt") } : WMat))
  let trs ← getInts (← j.getObjVal? "trs")
  let uCard ← match j.getObjVal? "uCard" with
    | .ok Json.null => pure none
    | .ok v => do pure (some (← getInts v))
    | .error _ => pure none
  let fillCard ← match j.getObjVal? "fillCard" with
    | .ok Json.null => pure none
    | .ok v => do
      let a ← v.getArr?
      let l ← a.toList.mapM (fun x => match x with
        | Json.null => pure none
        | y => do pure (some (← y.getInt?)))
      pure (some l)
    | .error _ => pure none
  pure { cells, surfs, mats, trs, uCard, fillCard }

def cellJ (c : WCell) : Json := Json.mkObj [
  ("number", toJson c.number), ("mat", toJson c.mat),
  ("geom", Json.arr (c.geom.map (fun l => Json.arr #[toJson l.1, toJson l.2])).toArray),
  ("u", oI c.u), ("fill", toJson c.fill), ("fillTr", oI c.fillTr)]

def fileJ (w : WFile) : Json := Json.mkObj [
  ("cells", Json.arr (w.cells.map cellJ).toArray),
  ("surfs", Json.arr (w.surfs.map (fun s => Json.mkObj [("number", toJson s.number), ("tr", oI s.tr), ("per", oI s.per)])).toArray),
  ("mats", Json.arr (w.mats.map (fun m => Json.mkObj [("number", toJson m.number), ("mt", oI m.mt)])).toArray),
  ("trs", toJson w.trs),
  ("uCard", match w.uCard with | none => Json.null | some l => toJson l),
  ("fillCard", match w.fillCard with | none => Json.null | some l => Json.arr (l.map oI).toArray)]

def kindOf : String → Except String Kind
  | "cell" => pure .cell | "surf" => pure .surf | "mat" => pure .mat | "tr" => pure .tr | "univ" => pure .univ
  | k => throw s!"unknown kind {k}"

def outName : Out → String
  | .ok => "ok"
  | .err .valueError => "ValueError"
  | .err .numberConflict => "NumberConflictError"
  | .err .typeError => "TypeError"
  | .err .keyError => "KeyError"
  | .err .indexError => "IndexError"
  | _ => "other"

def runCase (j : Json) : Except String Json := do
  let wf ← parseFile (← j.getObjVal? "file")
  let opsJ ← (← j.getObjVal? "ops").getArr?
  match link wf with
  | none => return Json.mkObj [("link", "error"), ("wellFormed", toJson wf.wellFormedB)]
  | some p0 =>
    let ops ← opsJ.toList.mapM (fun x => do
      let a ← x.getArr?
      match a.toList with
      | [k, o, n] => do
        let ks ← k.getStr?
        let oi ← o.getInt?
        let n ← n.getInt?
        -- operations that are not number assignments (tools/vlib/c04lib.py: NEUTRAL)
        -- "write": write_to_file in the middle of the history (an observation: the file of that moment is reported)
        if ks = "write" then pure none
        else if ks = "relink" then pure (some (Sum.inl Edit.relink))
        else if ks = "geom+" ∨ ks = "geom-" then pure (some (Sum.inl (Edit.addLeaf oi.toNat { isCell := false, target := n.toNat })))
        else if ks = "geom#" then pure (some (Sum.inl (Edit.addLeaf oi.toNat { isCell := true, target := n.toNat })))
        else if ks = "reappend:cell" then pure (some (Sum.inr Kind.cell))
        else if ks = "reappend:surf" then pure (some (Sum.inr Kind.surf))
        else if ks = "reappend:tr" then pure (some (Sum.inr Kind.tr))
        else
        let kind ← kindOf ks
        -- universes are addressed by the number they have in the original file
        let obj ← if kind = .univ then
            (match lookup p0.univs oi with | some u => pure u | none => throw s!"no universe {oi}")
          else pure oi.toNat
        pure (some (Sum.inl (Edit.num ({ kind, obj, n } : MontePyVerif.Renumber.Op))))
      | _ => throw "op")
    -- the model's history with writes (Model/Renumber.lean: stepW / runW): state and files written so far
    let (pw, outs) := ops.foldl (fun (acc : (Prob × List WFile) × List String) op =>
      match op with
      | none => (stepW acc.1 none, "ok" :: acc.2)
      | some (Sum.inl e) => (stepW acc.1 (some e), outName (stepE acc.1.1 e).2 :: acc.2)
      | some (Sum.inr k) =>
        let r := reappendLast acc.1.1 k
        ((r.1, acc.1.2), outName r.2 :: acc.2)) ((p0, []), [])
    let p := pw.1
    let mids := pw.2.map fileJ
    -- per object in the order of the original cards (add_cell_children_to_problem may have sorted the collections)
    let nums (k : Kind) : Json := toJson ((p0.coll k).objs.map (p.coll k).num)
    return Json.mkObj [
      ("link", "ok"), ("wellFormed", toJson wf.wellFormedB), ("outs", toJson outs.reverse),
      ("numbers", Json.mkObj [("cell", nums .cell), ("surf", nums .surf), ("mat", nums .mat), ("tr", nums .tr),
        ("univ", Json.arr (p0.univs.objs.map (fun u => Json.arr #[toJson (p0.univs.num u), toJson (p.univs.num u)])).toArray)]),
      ("mids", Json.arr mids.toArray),
      ("file", fileJ (write p))]

partial def loop (h : IO.FS.Stream) : IO Unit := do
  let line ← h.getLine
  if line.isEmpty then return ()
  let out := match Json.parse line with
    | .error e => Json.mkObj [("error", s!"json: {e}")]
    | .ok j => match runCase j with
      | .ok r => r
      | .error e => Json.mkObj [("error", e)]
  IO.println out.compress
  loop h

def main : IO Unit := do loop (← IO.getStdin)
