import Lean.Data.Json
import MontePyVerif.Model.ValueFormat
import MontePyVerif.Spec.Number
import MontePyVerif.Model.TransformWrite
import MontePyVerif.Spec.Transform
/-! Line-protocol driver for the `ValueNode` model (units U-valueformat, U-pyformat, U-fortranfloat)
    and the Spec number reader.  One JSON case per input line, one JSON observation per output line.
    Integers travel as decimal strings (they have up to 1100 digits). -/
open Lean MontePyVerif MontePyVerif.ValueFormat

def txt (t : Text) : Json := Json.str (String.ofList t)

def ratJson (q : Rat) : Json := Json.arr #[Json.str (toString q.num), Json.str (toString q.den)]

def optRat : Option Rat → Json
  | none => Json.null
  | some q => ratJson q

def getStrInt (j : Json) : Except String Int := do
  let s ← j.getStr?
  match s.toInt? with
  | some k => pure k
  | none => throw s!"not an integer: {s}"

/-- `[neg, num, den, isInt]` with `num ≥ 0`, `den > 0` as decimal strings -/
def getNum (j : Json) : Except String Num := do
  let a ← j.getArr?
  if a.size ≠ 4 then throw "num: 4 fields expected"
  let neg ← a[0]!.getBool?
  let n ← getStrInt a[1]!
  let d ← getStrInt a[2]!
  let isInt ← a[3]!.getBool?
  if d ≤ 0 ∨ n < 0 then throw "num: bad sign"
  pure { neg, mag := mkRat n d.toNat, isInt }

def getOptNum (j : Json) : Except String (Option Num) :=
  if j.isNull then pure none else (getNum j).map some

def getPad (j : Json) : Except String (Option (List PadItem)) := do
  if j.isNull then return none
  let a ← j.getArr?
  let items ← a.toList.mapM fun it => do
    let f ← it.getArr?
    let k ← (f[0]?.elim (throw "pad item") pure) >>= (·.getStr?)
    match k with
    | "s" => do let n ← (f[1]?.elim (throw "pad s") pure) >>= (·.getNat?); pure (PadItem.spaces n)
    | "n" => pure PadItem.newline
    | "c" => do let s ← (f[1]?.elim (throw "pad c") pure) >>= (·.getStr?); pure (PadItem.comment s.toList)
    | _ => throw s!"pad kind {k}"
  return some items

def getTok (j : Json) : Except String Tok := do
  if j.isNull then return .none
  match j.getStr? with
  | .ok s => return .str s.toList
  | .error _ =>
    let _ ← j.getObjVal? "jump"
    return .jump

def styleName : FStyle → String
  | .g => "g" | .e => "e" | .f => "f"

/-- which branch of `ValueNode.format` the model takes (for the input distribution) and the `Dec` it lays out -/
def branchTag (n : Node) : String × Option Dec :=
  if !valueChanged n then ("unchanged", none) else
  match n.value with
  | none => ("none", none)
  | some _ =>
    let n := reverseEngineerFormatting n
    match printValue n with
    | none => ("none", none)
    | some x =>
      if n.ty = .int then ("int", some ⟨decide (x.trunc < 0), x.trunc.natAbs, 0, none⟩)
      else if canFloatToIntHappen n then ("float-as-int", some ⟨decide (x.round < 0), x.round.natAbs, 0, none⟩)
      else
        let cands := floatStyles n
        let decOf (sp : FStyle × Nat) : Dec := match sp.1 with | .e => decE x sp.2 | .g => decG x sp.2 | .f => decF x sp.2
        let rec go : List (FStyle × Nat) → Nat → String × Option Dec
          | [], _ => ("float:none", none)
          | [sp], k => (s!"float:{styleName sp.1}:{sp.2}:+{k}", some (decOf sp))
          | sp :: r, k => if readsBack (formatFloatAs n.fmt x sp) x then (s!"float:{styleName sp.1}:{sp.2}:+{k}", some (decOf sp)) else go r (k + 1)
        go cands 0

/-- run-time validation of what is not proved for floats: the written word is read back, by the Spec reader and by
    the model's `fortran_float`, as exactly the value of the `Dec` that was laid out -/
def renderOk (d : Option Dec) (w : Text) : Json :=
  match d with
  | none => Json.null
  | some d => Json.bool (Spec.parseChars w == some d.value && fortranFloat w == some d.value)

def runNode (j : Json) : Except String Json := do
  let tok ← getTok (← j.getObjVal? "token")
  let ty ← (← j.getObjVal? "ty").getStr?
  let ty ← match ty with | "float" => pure Ty.float | "int" => pure Ty.int | _ => throw "ty"
  let pad ← getPad (← j.getObjVal? "pad")
  let neverPad ← (← j.getObjVal? "never_pad").getBool?
  let negatable ← (← j.getObjVal? "negatable").getStr?
  let ops ← (← j.getObjVal? "ops").getArr?
  let some n0 := mkNode tok ty pad neverPad | return Json.mkObj [("init", "ValueError")]
  let n0 ← match negatable with
    | "no" => pure (some n0)
    | "float" => pure (some (setNegatableFloat n0))
    | "id" => pure (setNegatableId n0)
    | _ => throw "negatable"
  let some n0 := n0 | return Json.mkObj [("init", "ValueError")]
  -- the double the implementation holds for the token (the model's own reading is the exact decimal; they differ
  -- by at most half an ulp, DESIGN 1.3); magnitude and sign conventions are those of the node built above
  let n0 ← match j.getObjVal? "og_double" with
    | .ok v => do
      if v.isNull then pure n0 else
      let x ← getNum v
      let setMag (o : Option Num) : Option Num := o.map fun y => { y with mag := x.mag }
      pure { n0 with value := setMag n0.value, ogValue := setMag n0.ogValue }
    | .error _ => pure n0
  let mut n := n0
  let mut outs : Array Json := #[]
  for op in ops do
    let a ← op.getArr?
    let name ← (a[0]?.elim (throw "op") pure) >>= (·.getStr?)
    match name with
    | "value" => n := setValue n (← getOptNum (a[1]?.getD Json.null))
    | "neg" =>
      let b := a[1]?.getD Json.null
      let nb ← if b.isNull then pure none else (b.getBool?).map some
      n := setIsNegative n nb
    | "format" =>
      let (tag, dec) := branchTag n
      let pv := printValue n
      let (n', t) := format n
      n := n'
      let w := Spec.firstWord t
      let y := Spec.parseChars w
      let close := match y, pv with
        | some y, some x => Json.bool (decide (Spec.isClose y x.toRat))
        | _, _ => Json.null
      outs := outs.push (Json.mkObj [("text", txt t), ("branch", tag), ("word", txt w), ("spec", optRat y), ("close", close),
                                     ("render_ok", renderOk dec w)])
    | _ => throw s!"op {name}"
  return Json.mkObj [("init", "ok"), ("outs", Json.arr outs)]

/-- a live `ValueNode` serialised after the API call that set it (`_is_reversed` is still `False`) -/
def runState (j : Json) : Except String Json := do
  let tok ← getTok (← j.getObjVal? "token")
  let ty ← (← j.getObjVal? "ty").getStr?
  let ty ← match ty with | "float" => pure Ty.float | "int" => pure Ty.int | _ => throw "ty"
  let pad ← getPad (← j.getObjVal? "pad")
  let neverPad ← (← j.getObjVal? "never_pad").getBool?
  let value ← getOptNum (← j.getObjVal? "value")
  let og ← getOptNum (← j.getObjVal? "og")
  let isNegId ← (← j.getObjVal? "is_neg_id").getBool?
  let isNegVal ← (← j.getObjVal? "is_neg_val").getBool?
  let b ← j.getObjVal? "is_neg"
  let isNeg ← if b.isNull then pure none else (b.getBool?).map some
  let n : Node := { token := tok, ty, padding := pad, neverPad, value, ogValue := og, isNegId, isNegVal, isNeg,
                    fmt := (match ty with | .float => floatDefaults | .int => intDefaults), isReversed := false }
  let (tag, dec) := branchTag n
  let (_, t) := format n
  let w := Spec.firstWord t
  return Json.mkObj [("text", txt t), ("branch", tag), ("word", txt w), ("spec", optRat (Spec.parseChars w)), ("render_ok", renderOk dec w)]

def runPyFormat (j : Json) : Except String Json := do
  let style ← (← j.getObjVal? "style").getStr?
  let p ← (← j.getObjVal? "p").getNat?
  let sign ← (← j.getObjVal? "sign").getStr?
  let sign := sign.toList.headD '-'
  let width ← (← j.getObjVal? "width").getNat?
  let x ← getNum (← j.getObjVal? "x")
  let dec : Option Dec := match style with
    | "f" => some (decF x p)
    | "g" => some (decG x p)
    | "e" => some (decE x p)
    | "d" => some ⟨decide (x.trunc < 0), x.trunc.natAbs, 0, none⟩
    | _ => none
  let t ← match style, dec with
    | "round", _ => pure (toString x.round).toList
    | _, some d => pure (renderPy sign width d)
    | _, none => throw "style"
  let w := Spec.firstWord t
  return Json.mkObj [("text", txt t), ("spec", optRat (Spec.parseChars w)), ("render_ok", renderOk dec w)]

/-- unit U-transform: the live `Transform` just before it is written (`Model/TransformWrite.lean`): which of the 12
    numbers are written as a jump, and what the Spec reads for the written entries in the unit that is written -/
def runTransform (j : Json) : Except String Json := do
  let deg ← (← j.getObjVal? "deg").getBool?
  let m2a ← (← j.getObjVal? "m2a").getBool?
  let nodes ← (← (← j.getObjVal? "nodes").getArr?).toList.mapM fun v => do
    let n ← getOptNum v
    pure (n.map (·.toRat))
  let rats (k : String) : Except String (List Rat) := do
    (← (← j.getObjVal? k).getArr?).toList.mapM fun v => do pure (← getNum v).toRat
  let s : TransformWrite.State := { inDegrees := deg, mainToAux := m2a, nodes, disp := ← rats "disp", rot := ← rats "rot" }
  let entries := TransformWrite.writtenEntries s
  return Json.mkObj [("entries", Json.arr (entries.map optRat).toArray),
                     ("held", Json.arr ((TransformWrite.heldNumbers s).map ratJson).toArray),
                     ("read", Json.arr ((Spec.trRead deg (TransformWrite.heldNumbers s).length entries).map ratJson).toArray)]

/-- unit U-transform-history: the transform as it was read, then the whole history (setters, assignments in the arrays
    the getters hand out, writes with the nodes each write left): what the model holds and writes at every write -/
def runTransformHistory (j : Json) : Except String Json := do
  let ratsOf (v : Json) : Except String (List Rat) := do
    (← v.getArr?).toList.mapM fun x => do pure (← getNum x).toRat
  let nodesOf (v : Json) : Except String (List (Option Rat)) := do
    (← v.getArr?).toList.mapM fun x => do pure ((← getOptNum x).map (·.toRat))
  let s : TransformWrite.State := {
    inDegrees := ← (← j.getObjVal? "deg").getBool?, mainToAux := ← (← j.getObjVal? "m2a").getBool?,
    nodes := ← nodesOf (← j.getObjVal? "nodes"), disp := ← ratsOf (← j.getObjVal? "disp"), rot := ← ratsOf (← j.getObjVal? "rot") }
  let es ← (← (← j.getObjVal? "ops").getArr?).toList.mapM fun o => do
    let a ← o.getArr?
    match a[0]? with
    | some (Json.str "deg") => pure (TransformWrite.Edit.setDegrees (← a[1]!.getBool?))
    | some (Json.str "rot") => pure (TransformWrite.Edit.setRotation (← ratsOf a[1]!))
    | some (Json.str "disp") => pure (TransformWrite.Edit.setDisplacement (← ratsOf a[1]!))
    | some (Json.str "rot_at") => pure (TransformWrite.Edit.rotationAt (← a[1]!.getNat?) (← getNum a[2]!).toRat)
    | some (Json.str "disp_at") => pure (TransformWrite.Edit.displacementAt (← a[1]!.getNat?) (← getNum a[2]!).toRat)
    | some (Json.str "write") => pure (TransformWrite.Edit.write (← nodesOf a[1]!))
    | _ => throw "transform-history: unknown step"
  let writes := (TransformWrite.writesOf s es).map fun (w : TransformWrite.State × List (Option Rat)) =>
    Json.mkObj [("deg", Json.bool w.1.inDegrees), ("disp", Json.arr (w.1.disp.map ratJson).toArray),
                ("rot", Json.arr (w.1.rot.map ratJson).toArray), ("entries", Json.arr (w.2.map optRat).toArray),
                ("held", Json.arr ((TransformWrite.heldNumbers w.1).map ratJson).toArray),
                ("read", Json.arr ((Spec.trRead w.1.inDegrees (TransformWrite.heldNumbers w.1).length w.2).map ratJson).toArray)]
  return Json.mkObj [("writes", Json.arr writes.toArray)]

def runCase (j : Json) : Except String Json := do
  match j.getObjVal? "unit" with
  | .ok (Json.str "transform") => runTransform j
  | .ok (Json.str "transform-history") => runTransformHistory j
  | .ok (Json.str "pyformat") => runPyFormat j
  | .ok (Json.str "state") => runState j
  | .ok (Json.str "read") =>
    let w ← (← j.getObjVal? "word").getStr?
    return Json.mkObj [("spec", optRat (Spec.parseNumber w)), ("fortran_float", optRat (fortranFloat w.toList)),
                       ("int", match pyInt w.toList with | some k => Json.str (toString k) | none => Json.null)]
  | .ok (Json.str "isclose") =>
    let a ← getNum (← j.getObjVal? "a")
    let b ← getNum (← j.getObjVal? "b")
    return Json.mkObj [("model", Json.bool (isClose a.toRat b.toRat)), ("spec", Json.bool (decide (Spec.isClose a.toRat b.toRat)))]
  | _ => runNode j

partial def loop (h : IO.FS.Stream) : IO Unit := do
  let line ← h.getLine
  if line.isEmpty then return ()
  let out := match Json.parse line with
    | .error e => Json.mkObj [("error", s!"json: {e}")]
    | .ok j => match runCase j with
      | .ok r => r
      | .error e => Json.mkObj [("error", e)]
  IO.println out.compress
  loop h

def main : IO Unit := do loop (← IO.getStdin)
