import Lean.Data.Json
import MontePyVerif.Model.Collection
/-! Line-protocol driver for the collection model (unit U-collection).
    One JSON case per input line, one JSON observation list per output line. -/
open Lean MontePyVerif.Collection

def errName : Err → String
  | .typeError => "TypeError" | .valueError => "ValueError" | .numberConflict => "NumberConflictError"
  | .keyError => "KeyError" | .indexError => "IndexError"

def optObj : Option ObjId → Json
  | none => Json.null
  | some o => toJson o

def outJson : Out → Json
  | .ok => Json.mkObj [("t", "ok")]
  | .int n => Json.mkObj [("t", "int"), ("v", toJson n)]
  | .obj o => Json.mkObj [("t", "obj"), ("v", optObj o)]
  | .ints ns => Json.mkObj [("t", "ints"), ("v", toJson ns)]
  | .objsOut os => Json.mkObj [("t", "objs"), ("v", toJson os)]
  | .bool b => Json.mkObj [("t", "bool"), ("v", toJson b)]
  | .err e => Json.mkObj [("t", "err"), ("v", errName e)]
  | .hang => Json.mkObj [("t", "hang")]

def getI (j : Json) (i : Nat) : Except String Int := do
  let a ← j.getArr?
  match a[i]? with
  | some x => x.getInt?
  | none => throw "missing arg"

def getN (j : Json) (i : Nat) : Except String Nat := do
  let n ← getI j i
  if n < 0 then throw "negative id" else pure n.toNat

def getNs (j : Json) (i : Nat) : Except String (List Nat) := do
  let a ← j.getArr?
  match a[i]? with
  | some x => do
    let xs ← x.getArr?
    xs.toList.mapM (fun y => do let n ← y.getInt?; pure n.toNat)
  | none => throw "missing arg"

def parseOp (j : Json) : Except String Op := do
  let a ← j.getArr?
  let name ← (← (a[0]?.elim (throw "empty op") pure)).getStr?
  match name with
  | "append" => return .append (← getN j 1)
  | "setitem" => return .setitem (← getN j 1)
  | "append_renumber" => return .appendRenumber (← getN j 1) (← getI j 2)
  | "extend" => return .extend (← getNs j 1)
  | "iadd" => return .iadd (← getNs j 1)
  | "remove" => return .remove (← getN j 1)
  | "pop" => return .pop (← getI j 1)
  | "delitem" => return .delitem (← getI j 1)
  | "clear" => return .clear
  | "setnum" => return .setNumber (← getN j 1) (← getI j 2)
  | "get" => return .get (← getI j 1)
  | "getitem" => return .getitem (← getI j 1)
  | "contains" => return .contains (← getN j 1)
  | "numbers" => return .numbers
  | "keys" => return .keys
  | "items" => return .items
  | "len" => return .len
  | "check_number" => return .checkNumber (← getI j 1)
  | "request_number" => return .requestNumber (← getI j 1) (← getI j 2)
  | "next_number" => return .nextNumber (← getI j 1)
  | "slice" => return .slice (← getI j 1) (← getI j 2)
  | _ => throw s!"unknown op {name}"

/-- after every operation: `keys()` (no cache effect), then `get(n)` for every probe (these are
    look-ups of the history and do touch the cache, in the model exactly as in the code). -/
def observe (s : St) (probes : List Int) : St × Json :=
  let keys := s.objs.map s.num
  let (s', gets) := probes.foldl (fun (acc : St × List Json) n =>
      let r := get acc.1 n
      (r.1, optObj r.2 :: acc.2)) (s, [])
  (s', Json.mkObj [("keys", toJson keys), ("members", toJson s.objs), ("gets", Json.arr gets.reverse.toArray)])

def runCase (j : Json) : Except String Json := do
  let owned ← (← j.getObjVal? "owned").getBool?
  let pool ← (← j.getObjVal? "pool").getArr?
  let poolNums ← pool.toList.mapM (·.getInt?)
  let initIds ← (← j.getObjVal? "init").getArr?
  let initIds ← initIds.toList.mapM (fun y => do let n ← y.getInt?; pure n.toNat)
  let probes ← (← j.getObjVal? "probes").getArr?
  let probes ← probes.toList.mapM (·.getInt?)
  let ops ← (← j.getObjVal? "ops").getArr?
  let ops ← ops.toList.mapM parseOp
  let num : ObjId → Int := fun o => poolNums.getD o 0
  -- value class for Python `==` (Surface / Material compare by value): absent = one class per object
  let contentL : List Nat := match j.getObjVal? "content" with
    | .ok (Json.arr a) => a.toList.map (fun x => match x.getNat? with | .ok n => n | .error _ => 0)
    | _ => []
  let content : ObjId → Nat := fun o => if contentL.isEmpty then o else contentL.getD o o
  match init owned num initIds content with
  | none => return Json.mkObj [("init", "NumberConflictError")]
  | some s0 =>
    let (s0, ob0) := observe s0 probes
    let (_, steps) := ops.foldl (fun (acc : St × List Json) op =>
        let (s1, out) := step acc.1 op
        let (s2, ob) := observe s1 probes
        (s2, Json.mkObj [("out", outJson out), ("obs", ob)] :: acc.2)) (s0, [])
    return Json.mkObj [("init", ob0), ("steps", Json.arr steps.reverse.toArray)]

partial def loop (h : IO.FS.Stream) : IO Unit := do
  let line ← h.getLine
  if line.isEmpty then return ()
  let out := match Json.parse line with
    | .error e => Json.mkObj [("error", s!"json: {e}")]
    | .ok j => match runCase j with
      | .ok r => r
      | .error e => Json.mkObj [("error", e)]
  IO.println out.compress
  loop h

def main : IO Unit := do loop (← IO.getStdin)
