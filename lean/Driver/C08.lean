import Lean.Data.Json
import MontePyVerif.Model.ListNode
import MontePyVerif.Model.ShortcutParse
import MontePyVerif.Spec.Shortcut
/-! Line-protocol driver for C08 (units U-listnode and the Spec reader).
    `{"op":"update", "shortcuts":[..], "vals":[..]}` → node list, text and words of the model, plus the Spec's verdict
       on the model's own text;
    `{"op":"spec", "text": "...", "vals":[[n,d]|null ..]}` → what MCNP reads in `text`, and whether it is `vals`. -/
open Lean MontePyVerif.Model.Shortcut MontePyVerif.Model.ListNode
namespace Drv


def getRat (j : Json) : Except String Rat := do
  let a ← j.getArr?
  match a[0]?, a[1]? with
  | some n, some d => return mkRat (← n.getInt?) (← d.getNat?)
  | _, _ => throw "rat"

def getOptRat (j : Json) : Except String (Option Rat) :=
  if j.isNull then pure none else (getRat j).map some

def fld (j : Json) (k : String) : Except String Json := j.getObjVal? k

def getRatD (j : Json) (k : String) (d : Rat) : Except String Rat :=
  match j.getObjVal? k with
  | .ok v => if v.isNull then pure d else getRat v
  | .error _ => pure d

def getLeaf (j : Json) : Except String Leaf := do
  return { id := ← (← fld j "id").getNat?, val := ← getOptRat (← fld j "val"), ty := ← (← fld j "ty").getNat?,
           txt := ← (← fld j "txt").getStr?, txtPad := ← (← fld j "txtPad").getStr?,
           padNone := ← (← fld j "padNone").getBool?, neverPad := ← (← fld j "neverPad").getBool?,
           fresh := (match j.getObjVal? "fresh" with | .ok (.bool b) => b | _ => true) }

def stub (id : Nat) : Leaf := { id := id, val := none, ty := 0, txt := "", txtPad := "", padNone := false, neverPad := false }

def getBoolD (j : Json) (k : String) : Bool := match j.getObjVal? k with | .ok (.bool b) => b | _ => false

def getKind (s : String) : Except String Kind :=
  match s with
  | "rep" => pure .rep | "jmp" => pure .jmp | "mul" => pure .mul | "lin" => pure .lin | "log" => pure .log
  | _ => throw s!"kind {s}"

def kindName : Kind → String
  | .rep => "rep" | .jmp => "jmp" | .mul => "mul" | .lin => "lin" | .log => "log"

def getSc (j : Json) : Except String (Int × Sc) := do
  let ids ← (← fld j "nodes").getArr?
  let ids ← ids.toList.mapM (·.getNat?)
  let numTok := match j.getObjVal? "numTok" with | .ok (.str s) => some s | _ => none
  let numOg := match j.getObjVal? "numOg" with | .ok v => (v.getInt?).toOption | _ => none
  let mulW ← match j.getObjVal? "mulWritten" with | .ok v => getOptRat v | _ => pure none
  return (← (← fld j "sid").getInt?,
    { kind := ← getKind (← (← fld j "kind").getStr?), nodes := ids.map stub, full := ← (← fld j "full").getBool?,
      sBegin := ← getRatD j "sBegin" 0, sEnd := ← getRatD j "sEnd" 0, sSpacing := ← getRatD j "sSpacing" 0,
      lBegin := ← getRatD j "lBegin" 1, lEnd := ← getRatD j "lEnd" 1, lN := ← (← fld j "lN").getNat?,
      origLen := ← (← fld j "origLen").getNat?, letter := ← (← fld j "letter").getStr?,
      omit1 := ← (← fld j "omit1").getBool?, numTok := numTok, numOg := numOg,
      midPad := ← (← fld j "midPad").getStr?, endPad := ← (← fld j "endPad").getStr?,
      mulTxt := ← (← fld j "mulTxt").getStr?, mulWritten := mulW,
      mulOg := ← (match j.getObjVal? "mulOg" with | .ok v => getOptRat v | _ => pure none),
      ownStart := getBoolD j "ownStart" })

def ratJson (r : Rat) : Json := Json.arr #[toJson r.num, toJson r.den]

def valJson : MontePyVerif.Spec.Shortcut.Val → Json
  | .num x => ratJson x
  | .jump => Json.str "J"
  | .logv a b n k => Json.mkObj [("log", Json.arr #[ratJson a, ratJson b, toJson n, toJson k])]
  | .linv a b n k => Json.mkObj [("lin", Json.arr #[ratJson a, ratJson b, toJson n, toJson k])]

def wordJson : Word → Json
  | .num l => Json.mkObj [("num", toJson l.id)]
  | .rep n s => Json.mkObj [("rep", toJson n), ("shown", toJson s)]
  | .mul x => Json.mkObj [("mul", ratJson x)]
  | .jmp n s => Json.mkObj [("jmp", toJson n), ("shown", toJson s)]
  | .lin n s => Json.mkObj [("lin", toJson n), ("shown", toJson s)]
  | .log n s => Json.mkObj [("log", toJson n), ("shown", toJson s)]

def itemJson : Item → Json
  | .leaf l => Json.mkObj [("leaf", toJson l.id)]
  | .sc sid s => Json.mkObj [("sc", toJson sid), ("kind", kindName s.kind), ("nodes", toJson (s.nodes.map (·.id)))]

def specJson (text : String) (vals : List (Option Rat)) : Json :=
  match MontePyVerif.Spec.Shortcut.readText text with
  | none => Json.mkObj [("read", Json.null), ("ok", false)]
  | some vs => Json.mkObj [("read", Json.arr (vs.map valJson).toArray), ("ok", MontePyVerif.Spec.Shortcut.matchesAll vs vals),
      ("n", toJson vs.length)]

open MontePyVerif.Model.ShortcutParse in
def getTok (j : Json) : Except String PTok := do
  let a ← j.getArr?
  let name ← (← (a[0]?.elim (throw "tok") pure)).getStr?
  let arg := a[1]?.getD Json.null
  let cnt : Except String (Option Nat) := if arg.isNull then pure none else (arg.getNat?).map some
  match name with
  | "num" => return PTok.num (← getRat arg)
  | "mul" => return PTok.mul (← getRat arg)
  | "rep" => return PTok.rep (← cnt)
  | "jmp" => return PTok.jmp (← cnt)
  | "lin" => return PTok.lin (← cnt)
  | "log" => return PTok.log (← cnt)
  | _ => throw s!"tok {name}"

open MontePyVerif.Model.ShortcutParse in
def pvalJson : PVal → Json
  | .num x => ratJson x
  | .jump => Json.str "J"
  | .logv a b n k => Json.mkObj [("log", Json.arr #[ratJson a, ratJson b, toJson n, toJson k])]

open MontePyVerif.Model.ShortcutParse in
def pitemJson : PItem → Json
  | .value x => Json.mkObj [("v", ratJson x)]
  | .sc k ns =>
    let kn := match k with | .rep => "rep" | .jmp => "jmp" | .mul => "mul" | .lin => "lin" | .log => "log"
    Json.mkObj [("sc", kn), ("vals", Json.arr (ns.map pvalJson).toArray)]

def runCase (j : Json) : Except String Json := do
  let op ← (← fld j "op").getStr?
  match op with
  | "update" =>
    let scs ← (← fld j "shortcuts").getArr?
    let scs ← scs.toList.mapM getSc
    let vals ← (← fld j "vals").getArr?
    let vals ← vals.toList.mapM getLeaf
    let own ← match j.getObjVal? "own" with
      | .ok o => do let a ← o.getArr?; a.toList.mapM getLeaf
      | .error _ => pure []
    let items := updateWithNewValuesFull scs own vals
    let f := format items
    return Json.mkObj [("items", Json.arr (items.map itemJson).toArray), ("text", f.text),
      ("words", Json.arr (f.words.map wordJson).toArray),
      ("flat", toJson ((flatten items).map (·.id))),
      ("spec", specJson f.text ((flatten items).map (·.val)))]
  | "parse" =>
    let toks ← (← fld j "toks").getArr?
    let toks ← toks.toList.mapM getTok
    match MontePyVerif.Model.ShortcutParse.parseList toks with
    | none => return Json.mkObj [("items", Json.null)]
    | some items => return Json.mkObj [("items", Json.arr (items.map pitemJson).toArray)]
  | "spec" =>
    let text ← (← fld j "text").getStr?
    let vals ← (← fld j "vals").getArr?
    let vals ← vals.toList.mapM getOptRat
    return specJson text vals
  | _ => throw s!"unknown op {op}"
end Drv

partial def loop (h : IO.FS.Stream) : IO Unit := do
  let line ← h.getLine
  if line.isEmpty then return ()
  let out := match Json.parse line with
    | .error e => Json.mkObj [("error", s!"json: {e}")]
    | .ok j => match Drv.runCase j with
      | .ok r => r
      | .error e => Json.mkObj [("error", e)]
  IO.println out.compress
  loop h

def main : IO Unit := do loop (← IO.getStdin)
