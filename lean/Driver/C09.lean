import Lean.Data.Json
import MontePyVerif.Gen.Constants
import MontePyVerif.Model.CellData
/-! Line-protocol driver for the per-cell data model (unit U-celldata).
    One JSON case `{"state": …, "ops": [...]}` per input line; per operation the model's state (or the written
    cards for a `write`) on one output line. Particles are small natural numbers (the harness maps n,p,e,…). -/
open Lean MontePyVerif.CellData

def relTol : Rat := mkRat MontePyVerif.Gen.relTolNum MontePyVerif.Gen.relTolDen
def absTol : Rat := mkRat MontePyVerif.Gen.absTolNum MontePyVerif.Gen.absTolDen
def close : Rat → Rat → Bool := isclose relTol absTol

def qJ (q : Rat) : Json := Json.arr #[toJson q.num, toJson q.den]
def oqJ : Option Rat → Json | none => Json.null | some q => qJ q
def onJ : Option Nat → Json | none => Json.null | some n => toJson n

def getQ (j : Json) : Except String Rat := do
  let a ← j.getArr?
  match a[0]?, a[1]? with
  | some n, some d => return mkRat (← n.getInt?) (← d.getNat?)
  | _, _ => throw "bad rational"

def getOQ (j : Json) : Except String (Option Rat) :=
  if j.isNull then pure none else do return some (← getQ j)

def getON (j : Json) : Except String (Option Nat) :=
  if j.isNull then pure none else do return some (← j.getNat?)

def getNats (j : Json) : Except String (List Nat) := do
  let a ← j.getArr?
  a.toList.mapM (·.getNat?)

def kOf (s : String) : Except String K :=
  match s with
  | "imp" => pure .imp | "vol" => pure .vol | "u" => pure .u | "lat" => pure .lat | "fill" => pure .fill
  | _ => throw s!"unknown class {s}"

def parseFlags (j : Json) : Except String Flags := do
  let a ← j.getArr?
  match a.toList with
  | [a, b, c, d, e] => return ⟨← a.getBool?, ← b.getBool?, ← c.getBool?, ← d.getBool?, ← e.getBool?⟩
  | _ => throw "flags: five booleans"

def parseImpE (j : Json) : Except String ImpE := do
  return ⟨← (← j.getObjVal? "p").getNat?, ← getQ (← j.getObjVal? "v"), ← getNats (← j.getObjVal? "cl")⟩

def parseCell (j : Json) : Except String Cell := do
  let imp ← (← j.getObjVal? "imp").getArr?
  return {
    number := ← (← j.getObjVal? "number").getNat?
    imp := ← imp.toList.mapM parseImpE
    vol := ← getOQ (← j.getObjVal? "vol")
    uni := ← getON (← j.getObjVal? "u")
    ntr := ← (← j.getObjVal? "ntr").getBool?
    lat := ← getON (← j.getObjVal? "lat")
    fill := ← getON (← j.getObjVal? "fill")
    fillComplex := ← (← j.getObjVal? "fill_complex").getBool?
    fillMulti := ← (← j.getObjVal? "fill_multi").getBool?
    setIn := ← parseFlags (← j.getObjVal? "set_in") }

def parseDI (j : Json) : Except String (Option K) :=
  if j.isNull then pure none else do return some (← kOf (← j.getStr?))

def parseState (j : Json) : Except String St := do
  let cells ← (← j.getObjVal? "cells").getArr?
  let di ← (← j.getObjVal? "data_inputs").getArr?
  let rtj ← (← j.getObjVal? "real_tree").getArr?
  let rt ← rtj.toList.mapM (fun x => do
    let a ← getNats x
    match a with
    | [p, t] => pure (p, t)
    | _ => throw "real_tree: [particle, tree id]")
  return {
    cells := ← cells.toList.mapM parseCell
    mode := ← getNats (← j.getObjVal? "mode")
    flags := ← parseFlags (← j.getObjVal? "flags")
    volCalc := ← (← j.getObjVal? "vol_calc").getBool?
    dataInputs := ← di.toList.mapM parseDI
    realTree := rt
    nextId := (rt.foldl (fun m x => max m (x.2 + 1)) 0) }

def arg (j : Json) (i : Nat) : Except String Json := do
  let a ← j.getArr?
  match a[i]? with
  | some x => pure x
  | none => throw "missing argument"

/-- `none` = the observation `write`; `flags` expands to five `setFlag`s -/
def parseOp (j : Json) : Except String (Option (List Op)) := do
  let name ← (← arg j 0).getStr?
  match name with
  | "write" => return none
  | "flags" =>
    let a ← (← arg j 1).getArr?
    let mut ops : List Op := []
    for (k, b) in K.all.zip a.toList do
      if !b.isNull then ops := ops ++ [Op.setFlag k (← b.getBool?)]
    return some ops
  | "append" => return some [.append (← parseCell (← arg j 1))]
  | "remove" => return some [.remove (← (← arg j 1).getNat?)]
  | "move_end" => return some [.moveEnd (← (← arg j 1).getNat?)]
  | "reorder" => return some [.reorder (← getNats (← arg j 1))]
  | "imp" => return some [.setImp (← (← arg j 1).getNat?) (← getNats (← arg j 2)) (← getQ (← arg j 3))]
  | "imp_all" => return some [.setImpAll (← (← arg j 1).getNat?) (← getQ (← arg j 2))]
  | "vol" => return some [.setVol (← (← arg j 1).getNat?) (← getOQ (← arg j 2))]
  | "u" => return some [.setUni (← (← arg j 1).getNat?) (← (← arg j 2).getNat?)]
  | "not_truncated" => return some [.setNtr (← (← arg j 1).getNat?) (← (← arg j 2).getBool?)]
  | "lat" => return some [.setLat (← (← arg j 1).getNat?) (← getON (← arg j 2))]
  | "fill" => return some [.setFill (← (← arg j 1).getNat?) (← getON (← arg j 2))]
  | "vol_calc" => return some [.setVolCalc (← (← arg j 1).getBool?)]
  | "observe" => return some []
  | _ => throw s!"unknown op {name}"

def kJ (k : K) : Json := Json.str k.pfx

def cellJ (c : Cell) : Json := Json.mkObj [
  ("number", toJson c.number),
  ("imp", Json.arr (c.imp.map (fun e => Json.mkObj [("p", toJson e.p), ("v", qJ e.v), ("cl", toJson e.cl)])).toArray),
  ("vol", oqJ c.vol), ("u", onJ c.uni), ("ntr", toJson c.ntr), ("lat", onJ c.lat), ("fill", onJ c.fill),
  ("fill_complex", toJson c.fillComplex), ("fill_multi", toJson c.fillMulti)]

def stateJ (s : St) : Json := Json.mkObj [
  ("cells", Json.arr (s.cells.map cellJ).toArray), ("mode", toJson s.mode),
  ("flags", toJson [s.flags.imp, s.flags.vol, s.flags.u, s.flags.lat, s.flags.fill]),
  ("vol_calc", toJson s.volCalc),
  ("real_tree", Json.arr (s.realTree.map (fun x => Json.arr #[toJson x.1, toJson x.2])).toArray)]

def errJ : Err → String
  | .valueError => "ValueError" | .particleTypeNotInCell => "ParticleTypeNotInCell"
  | .malformedInput => "MalformedInputError" | .numberConflict => "NumberConflictError" | .indexError => "IndexError"

/-- the written cards: per cell the parameters, the per-cell data cards before and after the blank line that
    ends the data block -/
def writeJ (items : List MItem) : Json :=
  let cells := items.filterMap (fun | .cell n ps => some (n, ps) | _ => none)
  -- position of the third blank line
  let rec cut (xs : List MItem) (blanks : Nat) (inb : List MCard) (after : List MCard) : List MCard × List MCard :=
    match xs with
    | [] => (inb, after)
    | .blank :: t => cut t (blanks + 1) inb after
    | .data c :: t => if blanks == 2 then cut t blanks (inb ++ [c]) after else cut t blanks inb (after ++ [c])
    | _ :: t => cut t blanks inb after
  let (inb, after) := cut items 0 [] []
  let pJ (p : MParam) : Json := Json.mkObj [("k", kJ p.k), ("ps", toJson p.ps), ("v", qJ p.v)]
  let cJ (c : MCard) : Json := Json.mkObj [("k", kJ c.k), ("ps", toJson c.ps), ("vec", Json.arr (c.vec.map oqJ).toArray), ("no", toJson c.no)]
  Json.mkObj [
    ("cells", Json.arr (cells.map (fun c => Json.mkObj [("number", toJson c.1), ("params", Json.arr (c.2.map pJ).toArray)])).toArray),
    ("data", Json.arr (inb.map cJ).toArray), ("outside", Json.arr (after.map cJ).toArray)]

/-- `"params"`: per cell of the input the parsed parameters `[[key, prefix], …]` (and one more, empty, list: a cell
    made by `Cell()`); answer: per list the class prefixes with a node in the parameters tree after
    `_parse_keyword_modifiers`, and whether every key that contains `imp` is an IMP parameter -/
def slotsJ (j : Json) : Except String Json := do
  let cells ← j.getArr?
  let out ← cells.toList.mapM (fun cj => do
    let ps ← (← cj.getArr?).toList.mapM (fun pj => do
      return (⟨(← (← arg pj 0).getStr?).toList, (← (← arg pj 1).getStr?).toList⟩ : Param))
    return Json.mkObj [("slots", Json.arr ((slots ps).map kJ).toArray), ("imp_keys_are_imp", toJson (impKeysAreImp ps))])
  return Json.arr out.toArray

def runCase (j : Json) : Except String Json := do
  let st ← parseState (← j.getObjVal? "state")
  let slotsOut ← match j.getObjVal? "params" with
    | .ok pj => slotsJ pj
    | .error _ => pure Json.null
  let ops ← (← j.getObjVal? "ops").getArr?
  let mut s := st
  let mut out : Array Json := #[]
  for oj in ops.toList do
    match ← parseOp oj with
    | none =>
      match writeToFile close s with
      | .ok items =>
        s := afterWrite close s
        out := out.push (Json.mkObj [("write", writeJ items), ("state", stateJ s)])
      | .error e => out := out.push (Json.mkObj [("error", errJ e)])
    | some os =>
      let mut err : Option Err := none
      for o in os do
        let r := step close s o
        s := r.1
        if r.2.isSome then err := r.2
      out := out.push (Json.mkObj [("state", stateJ s), ("err", match err with | none => Json.null | some e => errJ e)])
  return Json.mkObj [("steps", Json.arr out), ("slots", slotsOut)]

partial def loop (h : IO.FS.Stream) : IO Unit := do
  let line ← h.getLine
  if line.isEmpty then return ()
  let out := match Json.parse line with
    | .error e => Json.mkObj [("error", s!"json: {e}")]
    | .ok j => match runCase j with
      | .ok r => r
      | .error e => Json.mkObj [("error", e)]
  IO.println out.compress
  loop h

def main : IO Unit := do loop (← IO.getStdin)
