import Lean.Data.Json
import MontePyVerif.Model.Wrap
import MontePyVerif.Spec.Text
/-! Line-protocol driver for unit U-wrap (Model/Wrap.lean) and for the reference reader Spec/Text.lean.
    One JSON case per input line, one JSON observation per output line. -/
open Lean MontePyVerif MontePyVerif.Wrap

def str (j : Json) (k : String) : Except String (List Char) := do
  return (← (← j.getObjVal? k).getStr?).toList

def strs (j : Json) : Except String (List (List Char)) := do
  (← j.getArr?).toList.mapM (fun x => do return (← x.getStr?).toList)

def nat (j : Json) (k : String) : Except String Nat := do
  let n ← (← j.getObjVal? k).getInt?
  if n < 0 then throw s!"negative {k}" else pure n.toNat

def version (j : Json) : Except String Version := do
  let a ← (← j.getObjVal? "version").getArr?
  match a.toList with
  | [x, y, z] => do
    let x ← x.getInt?; let y ← y.getInt?; let z ← z.getInt?
    return (x.toNat, y.toNat, z.toNat)
  | _ => throw "version must have three components"

def jstr (s : List Char) : Json := Json.str (String.ofList s)
def jstrs (l : List (List Char)) : Json := Json.arr (l.map jstr).toArray

def errName : Err → String
  | .unsupportedFeature => "UnsupportedFeature"
  | .valueError => "ValueError"

def wrapped : Except Err (List Str × Nat) → Json
  | .ok r => Json.mkObj [("lines", jstrs r.1), ("warnings", toJson r.2)]
  | .error e => Json.mkObj [("error", errName e)]

def plain : Except Err (List Str) → Json
  | .ok r => Json.mkObj [("lines", jstrs r)]
  | .error e => Json.mkObj [("error", errName e)]

def parsePiece (j : Json) : Except String Piece := do
  let a ← j.getArr?
  let kind ← (← (a[0]?.elim (throw "empty piece") pure)).getStr?
  let arg ← a[1]?.elim (throw "piece without argument") pure
  match kind with
  | "node" => return .node (← arg.getStr?).toList
  | "param" => return .param (← arg.getStr?).toList
  | "modifier" => return .modifier (← strs arg)
  | _ => throw s!"unknown piece {kind}"

def runCase (j : Json) : Except String Json := do
  let op ← (← j.getObjVal? "op").getStr?
  match op with
  | "wrap_line" =>
    let r := wrapLine (← str j "line") (← nat j "W") (← str j "init") (← str j "subs")
    return Json.mkObj [("lines", jstrs r)]
  | "wrap_string" =>
    let first ← (← j.getObjVal? "first").getBool?
    return wrapped (wrapStringForMcnp (← str j "s") (← version j) first)
  | "cell" =>
    let ps ← (← (← j.getObjVal? "pieces").getArr?).toList.mapM parsePiece
    match wrapped (cellFormat ps (← version j)) with
    | Json.obj kv => return Json.obj (kv.insert "assembled" (jstr (cellAssemble ps)))
    | x => return x
  | "cleanup" =>
    return Json.mkObj [("ret", jstr (cleanupLastLine (← str j "ret")))]
  | "drop_mark" =>
    return Json.mkObj [("text", jstr (dropFinalContinuationMark (← str j "text")))]
  | "imp_data" =>
    -- Importance._format_tree (data block) from the cards' texts, then CellModifierInput.format_for_mcnp_input
    let text := importanceDataText (← strs (← j.getObjVal? "cards"))
    match wrapped (modifierDataFormat text (← version j)) with
    | Json.obj kv => return Json.obj (kv.insert "text" (jstr text))
    | x => return x
  | "message" => return plain (messageFormat (← strs (← j.getObjVal? "lines")) (← version j))
  | "title" => return plain (titleFormat (← str j "title") (← version j))
  | "max_line_length" =>
    match getMaxLineLength (← version j) with
    | .ok n => return Json.mkObj [("n", toJson n)]
    | .error e => return Json.mkObj [("error", errName e)]
  | "logical" =>
    let ins := Spec.Text.logicalInputs (← nat j "limit") (← strs (← j.getObjVal? "lines"))
    return Json.arr (ins.map (fun i => Json.mkObj [("words", jstrs i.words), ("comment", jstr i.comment)])).toArray
  | "classify" =>
    let ls ← strs (← j.getObjVal? "lines")
    let lim ← nat j "limit"
    return Json.arr (ls.map (fun l => match Spec.Text.classify lim l with
      | .blank => Json.mkObj [("k", "blank")]
      | .comment t => Json.mkObj [("k", "comment"), ("text", jstr t)]
      | .data c w t => Json.mkObj [("k", "data"), ("cont", toJson c), ("words", jstrs w), ("comment", jstr t)])).toArray
  | _ => throw s!"unknown op {op}"

def hex4 (n : Nat) : String :=
  let d := fun (k : Nat) => (Nat.toDigits 16 ((n / 16 ^ k) % 16)).headD '0'
  String.ofList [d 3, d 2, d 1, d 0]

/-- the harness splits the output with Python's `splitlines`, which also cuts at U+0085, U+2028 …: write every
    non-ASCII character (they only occur inside JSON strings) as a `\uXXXX` escape (surrogate pair above the BMP). -/
def asciiOnly (s : String) : String :=
  String.join (s.toList.map (fun c =>
    let n := c.toNat
    if n < 127 then String.singleton c
    else if n < 0x10000 then "\\u" ++ hex4 n
    else
      let m := n - 0x10000
      "\\u" ++ hex4 (0xD800 + m / 0x400) ++ "\\u" ++ hex4 (0xDC00 + m % 0x400)))

partial def loop (h : IO.FS.Stream) : IO Unit := do
  let line ← h.getLine
  if line.isEmpty then return ()
  let out := match Json.parse line with
    | .error e => Json.mkObj [("driver_error", s!"json: {e}")]
    | .ok j => match runCase j with
      | .ok r => r
      | .error e => Json.mkObj [("driver_error", e)]
  IO.println (asciiOnly out.compress)
  loop h

def main : IO Unit := do loop (← IO.getStdin)
