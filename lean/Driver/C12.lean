import Lean.Data.Json
import MontePyVerif.Spec.Card
import MontePyVerif.Model.Dispatch
import MontePyVerif.Model.LexNum
/-! Line-protocol driver for C12: one JSON request per input line, one JSON answer per output line.

  {"op":"tables"}                                   → the pinned terminal sets of Spec.Card (the generator draws from THESE)
  {"op":"cell"|"surface"|"data"|"geom","ast":…}      → Spec: {"wf","nz","words","classes"} of a G sentence
  {"op":"dispatch_cell","params":[[prefix,particles],…]} → Model: Cell._parse_keyword_modifiers
  {"op":"dispatch_data","prefix":…,"number":n|null,"particles":bool} → Model: parse_data / parser / __enforce_name
  {"op":"surface_class","mnemonic":…,"n":k}          → Model: surface_builder
  {"op":"lex","lexer":"particle"|"surface","word":…} → Model: *.TEXT re-classification
-/
open Lean MontePyVerif.Spec.Card MontePyVerif.Dispatch

abbrev R := Except String

def arrAt (j : Json) (i : Nat) : R Json := do
  let a ← j.getArr?
  match a[i]? with
  | some x => pure x
  | none => throw s!"missing element {i}"

def strAt (j : Json) (i : Nat) : R String := do (← arrAt j i).getStr?
def boolAt (j : Json) (i : Nat) : R Bool := do (← arrAt j i).getBool?

def decGap (j : Json) : R Gap := do
  let a ← j.getArr?
  a.toList.mapM (fun x => do
    match (← x.getStr?) with
    | "s" => pure PadTok.space | "d" => pure PadTok.dollar | "c" => pure PadTok.comment | "a" => pure PadTok.amp
    | o => throw s!"bad pad {o}")

def gapAt (j : Json) (i : Nat) : R Gap := do decGap (← arrAt j i)

def decNum (j : Json) : R Num := do pure ⟨← strAt j 0, ← boolAt j 1⟩
def numAt (j : Json) (i : Nat) : R Num := do decNum (← arrAt j i)

/-- fuel = nesting depth bound of the request (decoding only) -/
def decGeom : Nat → Json → R Geom
  | 0, _ => throw "geometry too deep"
  | fuel + 1, j => do
    match (← strAt j 0) with
    | "surf" => pure (.surf (← strAt j 1))
    | "paren" => pure (.paren (← gapAt j 1) (← decGeom fuel (← arrAt j 2)) (← gapAt j 3))
    | "compl" => pure (.compl (← decGeom fuel (← arrAt j 1)))
    | "inter" => pure (.inter (← decGeom fuel (← arrAt j 1)) (← gapAt j 2) (← decGeom fuel (← arrAt j 3)))
    | "union" => pure (.union (← decGeom fuel (← arrAt j 1)) (← gapAt j 2) (← gapAt j 3) (← decGeom fuel (← arrAt j 4)))
    | o => throw s!"bad geom {o}"

def decEntry (j : Json) : R Entry := do
  match (← strAt j 0) with
  | "real" => pure (.real (← numAt j 1))
  | "jump" => pure (.jump (← strAt j 1) (← boolAt j 2))
  | "rep" => pure (.rep (← numAt j 1) (← gapAt j 2) (← strAt j 3) (← boolAt j 4))
  | "mul" => pure (.mul (← numAt j 1) (← gapAt j 2) (← strAt j 3))
  | "interp" => pure (.interp (← numAt j 1) (← gapAt j 2) (← strAt j 3) (← boolAt j 4) (← boolAt j 5) (← gapAt j 6) (← numAt j 7))
  | o => throw s!"bad entry {o}"

def decEntries (j : Json) : R Entries := do
  let a ← j.getArr?
  a.toList.mapM (fun x => do pure (← decEntry (← arrAt x 0), ← gapAt x 1))

def entriesAt (j : Json) (i : Nat) : R Entries := do decEntries (← arrAt j i)

def decClassifier (j : Json) : R Classifier := do
  let num ← j.getObjVal? "number"
  let numv ← if num.isNull then pure none else do pure (some (← num.getStr?))
  let ps ← (← j.getObjVal? "particles").getArr?
  let sc := match j.getObjVal? "starCls" with | .ok v => v.getStr?.toOption.getD "*" | .error _ => "*"
  pure { star := ← (← j.getObjVal? "star").getBool?, starCls := sc, name := ← (← j.getObjVal? "name").getStr?,
         nameCls := ← (← j.getObjVal? "cls").getStr?,
         number := numv,
         particles := ← ps.toList.mapM (·.getStr?) }

def decSep (j : Json) : R Sep := do pure ⟨← gapAt j 0, ← boolAt j 1, ← gapAt j 2⟩

def decPVal (j : Json) : R PVal := do
  match (← strAt j 0) with
  | "nums" => pure (.nums (← entriesAt j 1))
  | "numsParen" => pure (.numsParen (← entriesAt j 1) (← gapAt j 2) (← entriesAt j 3) (← gapAt j 4))
  | "paren" => pure (.paren (← gapAt j 1) (← entriesAt j 2) (← gapAt j 3))
  | "lattice" => pure (.lattice (← numAt j 1) (← numAt j 2) (← gapAt j 3) (← numAt j 4) (← numAt j 5) (← gapAt j 6)
      (← numAt j 7) (← numAt j 8) (← gapAt j 9) (← entriesAt j 10))
  | o => throw s!"bad pval {o}"

def decCellParam (j : Json) : R CellParam := do
  pure ⟨← decClassifier (← arrAt j 0), ← decSep (← arrAt j 1), ← decPVal (← arrAt j 2)⟩

def fGap (j : Json) (k : String) : R Gap := do decGap (← j.getObjVal? k)
def fStr (j : Json) (k : String) : R String := do (← j.getObjVal? k).getStr?

def decCell (j : Json) : R CellCard := do
  let m ← j.getObjVal? "material"
  let mat ← if m.isNull then pure none else do pure (some (← strAt m 0, ← gapAt m 1, ← strAt m 2))
  let ps ← (← j.getObjVal? "params").getArr?
  pure { lead := ← fGap j "lead", number := ← fStr j "number", g0 := ← fGap j "g0", material := mat,
         matZero := ← fStr j "matZero", g1 := ← fGap j "g1",
         geometry := ← decGeom 4096 (← j.getObjVal? "geometry"), g2 := ← fGap j "g2",
         params := ← ps.toList.mapM decCellParam }

def decSurface (j : Json) : R SurfaceCard := do
  let p ← j.getObjVal? "pointer"
  let ptr ← if p.isNull then pure none else do pure (some (← strAt p 0, ← gapAt p 1))
  pure { lead := ← fGap j "lead", star := ← (← j.getObjVal? "star").getBool?, number := ← fStr j "number",
         g0 := ← fGap j "g0", pointer := ptr, mnemonic := ← fStr j "mnemonic", g1 := ← fGap j "g1",
         constants := ← decEntries (← j.getObjVal? "constants") }

def decMatParam (j : Json) : R MatParam := do
  let v ← arrAt j 2
  let val ← match (← strAt v 0) with
    | "lib" => pure (MatParamVal.lib (← strAt v 1) (← gapAt v 2))
    | "nums" => pure (MatParamVal.nums (← entriesAt v 1))
    | o => throw s!"bad matparam {o}"
  pure ⟨← decClassifier (← arrAt j 0), ← decSep (← arrAt j 1), val⟩

def decData (j : Json) : R DataCard := do
  let b ← j.getObjVal? "body"
  let body ← match (← strAt b 0) with
    | "numbers" => do
      let k ← arrAt b 1
      let kw ← if k.isNull then pure none else do pure (some (← strAt k 0, ← gapAt k 1))
      pure (DataBody.numbers kw (← entriesAt b 2))
    | "material" => do
      let fr ← (← arrAt b 1).getArr?
      let ps ← (← arrAt b 2).getArr?
      pure (DataBody.material
        (← fr.toList.mapM (fun f => do pure (← strAt f 0, ← gapAt f 1, ← numAt f 2, ← gapAt f 3)))
        (← ps.toList.mapM decMatParam))
    | "thermal" => do
      let ls ← (← arrAt b 1).getArr?
      pure (DataBody.thermal (← ls.toList.mapM (fun l => do pure (← strAt l 0, ← gapAt l 1))))
    | "mode" => do
      let ls ← (← arrAt b 1).getArr?
      pure (DataBody.mode (← ls.toList.mapM (fun l => do pure (← strAt l 0, ← gapAt l 1))))
    | o => throw s!"bad body {o}"
  pure { lead := ← fGap j "lead", classifier := ← decClassifier (← j.getObjVal? "classifier"), g0 := ← fGap j "g0",
         body := body }

def decTotal (j : Json) : R (Option (String × Gap)) := do
  if j.isNull then pure none else pure (some (← strAt j 0, ← gapAt j 1))

def decTallyItem (j : Json) : R TallyItem := do
  match (← strAt j 0) with
  | "bins" => pure (.bins (← entriesAt j 1))
  | "group" => pure (.group (← gapAt j 1) (← entriesAt j 2) (← gapAt j 3))
  | o => throw s!"bad tally item {o}"

def decSdefParam (j : Json) : R SdefParam := do
  let v ← arrAt j 2
  let val ← match (← strAt v 0) with
    | "nums" => pure (SdefVal.nums (← entriesAt v 1))
    | "dist" => pure (SdefVal.dist (← strAt v 1) (← strAt v 2) (← gapAt v 3))
    | "particle" => pure (SdefVal.particle (← strAt v 1) (← gapAt v 2))
    | o => throw s!"bad sdef value {o}"
  pure ⟨← strAt j 0, ← decSep (← arrAt j 1), val⟩

def decXCard (j : Json) : R XCard := do
  let b ← j.getObjVal? "body"
  let body ← match (← strAt b 0) with
    | "tally" => do
      let its ← (← arrAt b 1).getArr?
      pure (XBody.tally (← its.toList.mapM decTallyItem) (← decTotal (← arrAt b 2)))
    | "segments" => pure (XBody.segments (← entriesAt b 1) (← decTotal (← arrAt b 2)))
    | "sdef" => do
      let ps ← (← arrAt b 1).getArr?
      pure (XBody.sdef (← ps.toList.mapM decSdefParam))
    | "lettered" => pure (XBody.lettered (← strAt b 1) (← gapAt b 2) (← entriesAt b 3))
    | o => throw s!"bad xbody {o}"
  pure { lead := ← fGap j "lead", classifier := ← decClassifier (← j.getObjVal? "classifier"), g0 := ← fGap j "g0",
         body := body }

def specAnswer (wf nz : Bool) (words classes : List String) : Json :=
  Json.mkObj [("wf", toJson wf), ("nz", toJson nz), ("words", toJson words), ("classes", toJson classes)]

def pairs (l : List (String × List Nat)) : Json := Json.arr (l.map (fun p => Json.arr #[toJson p.1, toJson p.2])).toArray

def nameErr : NameErr → String
  | .wrongPrefix => "wrongPrefix" | .noValidNumber => "noValidNumber" | .cannotHaveNumber => "cannotHaveNumber"
  | .needsParticles => "needsParticles" | .cannotHaveParticles => "cannotHaveParticles"

def runCase (j : Json) : R Json := do
  match (← fStr j "op") with
  | "tables" =>
    pure (Json.mkObj [("keywords", toJson pinnedKeywords), ("particles", toJson pinnedParticles),
      ("surfaceArities", pairs pinnedSurfaceArities), ("cellKeywords", toJson pinnedCellKeywords),
      ("dataNames", toJson pinnedDataNames), ("libKeys", toJson pinnedLibKeys), ("numKeys", toJson pinnedNumKeys),
      ("sdefKeys", toJson pinnedSdefKeys)])
  | "geom" =>
    let e ← decGeom 4096 (← j.getObjVal? "ast")
    pure (specAnswer e.WF true e.render e.classes)
  | "cell" =>
    let c ← decCell (← j.getObjVal? "ast")
    pure (specAnswer c.WF c.interpEndNonzero c.render c.classes)
  | "surface" =>
    let s ← decSurface (← j.getObjVal? "ast")
    pure (specAnswer s.WF s.constants.interpEndNonzero s.render s.classes)
  | "data" =>
    let d ← decData (← j.getObjVal? "ast")
    pure (specAnswer d.WF d.interpEndNonzero d.render d.classes)
  | "xcard" =>
    let d ← decXCard (← j.getObjVal? "ast")
    pure (specAnswer d.WF true d.render d.classes)
  | "dispatch_cell" =>
    let ps ← (← j.getObjVal? "params").getArr?
    let ps ← ps.toList.mapM (fun p => do pure (Param.mk (← strAt p 0) (← strAt p 1) (← strAt p 2)))
    match parseKeywordModifiers ps with
    | none => pure (Json.mkObj [("err", "RedundantParameterSpecification")])
    | some s => pure (Json.mkObj [("set", toJson s.set), ("merged", toJson s.merged), ("dropped", toJson s.dropped),
        ("keys", toJson s.keys)])
  | "dispatch_data" =>
    let p ← fStr j "prefix"
    let n ← j.getObjVal? "number"
    let num ← if n.isNull then pure none else do pure (some (← n.getInt?))
    let hasP ← (← j.getObjVal? "particles").getBool?
    let cls := parseData (lower p)
    let err := enforceName cls (lower p) num hasP
    pure (Json.mkObj [("class", toJson cls), ("parser", toJson (dataParserOf (lower p))),
      ("name_err", match err with | some e => toJson (nameErr e) | none => Json.null)])
  | "surface_class" =>
    let m ← fStr j "mnemonic"
    let n ← (← j.getObjVal? "n").getNat?
    match surfaceBuilder m n with
    | .ok c => pure (Json.mkObj [("ok", toJson c)])
    | .error .malformedInput => pure (Json.mkObj [("err", "MalformedInputError")])
    | .error .valueError => pure (Json.mkObj [("err", "ValueError")])
  | "lexnum" =>
    let w ← fStr j "word"
    let nuc ← (← j.getObjVal? "nuclides").getBool?
    match MontePyVerif.LexNum.classifyString nuc w with
    | some (t, n) => pure (Json.arr #[toJson t, toJson n])
    | none => pure Json.null
  | "lex" =>
    let w ← fStr j "word"
    match (← fStr j "lexer") with
    | "particle" =>
      let ctx := match j.getObjVal? "ctx" with | .ok v => v.getStr?.toOption.getD "plain" | .error _ => "plain"
      let ex := match ctx with
        | "colon" => expectsParticle (some ':') (some "imp") "imp:"
        | "comma" => expectsParticle (some ',') (some "imp:n") "imp:n,"
        | "mode" => expectsParticle (some ' ') (some "mode") "mode"
        | "par" => expectsParticle (some '=') (some "sdef") "sdef par"
        | "spar" => expectsParticle (some '=') (some "sdef") "sdef spar"
        | _ => expectsParticle (some ' ') (some "nps") "nps 1"
      pure (toJson (particleLexerText ex w))
    | "surface" => pure (toJson (surfaceLexerText w))
    | o => throw s!"bad lexer {o}"
  | o => throw s!"unknown op {o}"

partial def loop (h : IO.FS.Stream) : IO Unit := do
  let line ← h.getLine
  if line.isEmpty then return ()
  let out := match Json.parse line with
    | .error e => Json.mkObj [("error", s!"json: {e}")]
    | .ok j => match runCase j with
      | .ok r => r
      | .error e => Json.mkObj [("error", e)]
  IO.println out.compress
  loop h

def main : IO Unit := do loop (← IO.getStdin)
