import Lean.Data.Json
import MontePyVerif.Model.Errors
/-! Line-protocol driver for the error-policy model (unit U-errors).
    input : {"items":[...]}  (an abstract file)      output: {"normal":{...},"check":{...}}
    input : {"table":true}                            output: the decision table outcome(region, class, mode) -/
open Lean MontePyVerif.Errors MontePyVerif.Gen.Errors

def clsOfName (n : String) : Except String Cls :=
  match Cls.all.find? (fun c => c.name == n) with
  | some c => pure c
  | none => throw s!"unknown class {n}"

def getNat (j : Json) (k : String) : Except String Nat := do
  let v ← j.getObjVal? k
  let n ← v.getInt?
  pure n.toNat

def getNats (j : Json) (k : String) : Except String (List Nat) := do
  let v ← j.getObjVal? k
  let a ← v.getArr?
  a.toList.mapM (fun y => do let n ← y.getInt?; pure n.toNat)

def getOptNat (j : Json) (k : String) : Except String (Option Nat) :=
  match j.getObjVal? k with
  | .ok Json.null => pure none
  | .ok v => do let n ← v.getInt?; pure (some n.toNat)
  | .error _ => pure none

def parseCard (j : Json) : Except String Card := do
  let t ← (← j.getObjVal? "t").getStr?
  match t with
  | "cell" => return .cell (← getNat j "num") (← getNat j "mat") (← getNats j "surfs") (← getNats j "comps") (← getNats j "mods")
  | "surface" => return .surface (← getNat j "num") (← getOptNat j "tr") (← getOptNat j "per")
  | "material" => return .material (← getNat j "num")
  | "transform" => return .transform (← getNat j "num")
  | "thermal" => return .thermal (← getNat j "num")
  | "mode" => return .mode
  | "cellmod" => return .cellMod (← getNat j "kind") (← (← j.getObjVal? "cant").getBool?) (← getNat j "n")
  | "other" => return .other
  | _ => throw s!"unknown card {t}"

def parseItem (j : Json) : Except String Item := do
  let t ← (← j.getObjVal? "t").getStr?
  if t == "reader" then
    return .readerRaise (← clsOfName (← (← j.getObjVal? "cls").getStr?))
  let card ← parseCard j
  match j.getObjVal? "fault" with
  | .ok Json.null => return .input card none
  | .error _ => return .input card none
  | .ok f => do
    let site ← (← f.getObjVal? "site").getStr?
    let cls ← clsOfName (← (← f.getObjVal? "cls").getStr?)
    let w ← match site with
      | "parser" => pure Where.parser
      | "treeNone" => pure Where.treeNone
      | "ctor" => pure Where.ctor
      | _ => throw s!"unknown site {site}"
    return .input card (some ⟨w, cls⟩)

def resJson (r : Result) : Json :=
  let fin := match r.final with
    | .returned => Json.mkObj [("out", "returns")]
    | .raised c by_ => Json.mkObj [("out", "raises"), ("cls", c.name),
        ("by", match by_ with | some rg => Json.str (reprStr rg) | none => Json.null)]
  Json.mkObj [("final", fin), ("warnings", toJson (r.st.warnings.map Cls.name)),
    ("cells", toJson r.st.cells.length), ("surfaces", toJson r.st.surfaces.length), ("data", toJson r.st.data.length)]

def outcomeStr : Outcome → String
  | .warnAndContinue => "warn" | .raise c => "raise:" ++ c.name | .leak c => "leak:" ++ c.name

def tableJson : Json :=
  Json.arr (Region.all.flatMap (fun r => Cls.all.map (fun c =>
    Json.mkObj [("region", reprStr r), ("cls", c.name), ("handled", toJson (handled r c)),
      ("normal", outcomeStr (outcome r c .normal)), ("check", outcomeStr (outcome r c .check)),
      ("objectInitMap", (objectInitMap c).name), ("constructMap", (constructMap c).name)]))).toArray

def pairJson (n : Nat) : Json :=
  match pairUp (List.range n) with
  | .ok ps => Json.mkObj [("out", "ok"), ("pairs", toJson ps.length)]
  | .error _ => Json.mkObj [("out", "error"), ("cls", (pairErrClass .leftover).name)]

def runCase (j : Json) : Except String Json := do
  match j.getObjVal? "pair" with
  | .ok n => return pairJson (← n.getNat?)
  | .error _ =>
  match j.getObjVal? "table" with
  | .ok _ => return tableJson
  | .error _ =>
    let items ← (← j.getObjVal? "items").getArr?
    let items ← items.toList.mapM parseItem
    return Json.mkObj [("normal", resJson (readInput .normal items)), ("check", resJson (readInput .check items))]

partial def loop (h : IO.FS.Stream) : IO Unit := do
  let line ← h.getLine
  if line.isEmpty then return ()
  let out := match Json.parse line with
    | .error e => Json.mkObj [("error", s!"json: {e}")]
    | .ok j => match runCase j with
      | .ok r => r
      | .error e => Json.mkObj [("error", e)]
  IO.println out.compress
  loop h

def main : IO Unit := do loop (← IO.getStdin)
