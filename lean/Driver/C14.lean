import Lean.Data.Json
import MontePyVerif.Model.Setter
/-! Line-protocol driver for the setter model (units U-setter-gen, U-setter-hand).
    One JSON case per input line, one JSON result per output line.  The (de)serialisers are the
    derived ones; the harness (tools/props/c14.py) writes exactly this encoding. -/
open Lean MontePyVerif.Setter MontePyVerif.Gen

instance : ToJson Rat where
  toJson q := Json.arr #[toJson q.num, toJson q.den]

instance : FromJson Rat where
  fromJson? j := do
    let a ← j.getArr?
    match a[0]?, a[1]? with
    | some n, some d => do
      let n ← n.getInt?
      let d ← d.getNat?
      if d = 0 then throw "zero denominator" else pure (mkRat n d)
    | _, _ => throw "rational: [num, den] expected"

deriving instance FromJson, ToJson for Atom
deriving instance FromJson, ToJson for DivKind
deriving instance FromJson, ToJson for Leaf
deriving instance FromJson, ToJson for Val
deriving instance FromJson, ToJson for CellSt
deriving instance FromJson, ToJson for SurfSt
deriving instance FromJson, ToJson for TrSt
deriving instance FromJson, ToJson for World
deriving instance FromJson, ToJson for Op
deriving instance FromJson, ToJson for GObj

def errName : Err → String
  | .typeError => "TypeError" | .valueError => "ValueError" | .numberConflict => "NumberConflictError"
  | .keyError => "KeyError" | .particleNotInProblem => "ParticleTypeNotInProblem"
  | .overflowError => "OverflowError" | .other => "other"

def resJson {σ : Type} [ToJson σ] : Res σ → Json
  | .ok s => Json.mkObj [("out", "ok"), ("post", toJson s)]
  | .err e s => Json.mkObj [("out", errName e), ("post", toJson s)]

def findDecl (cls prop : String) : Option SetterDecl :=
  setterDecls.find? (fun d => d.cls == cls && d.prop == prop)

def runCase (j : Json) : Except String Json := do
  let unit ← (← j.getObjVal? "unit").getStr?
  match unit with
  | "hand" =>
    let w : World ← fromJson? (← j.getObjVal? "world")
    let op : Op ← fromJson? (← j.getObjVal? "op")
    return resJson (step w op)
  | "gen" =>
    let cls ← (← j.getObjVal? "cls").getStr?
    let prop ← (← j.getObjVal? "prop").getStr?
    let s : GObj ← fromJson? (← j.getObjVal? "self")
    let a : Atom ← fromJson? (← j.getObjVal? "arg")
    match findDecl cls prop with
    | none => return Json.mkObj [("out", "no-such-declaration")]
    | some d =>
      if d.types == .absent then return Json.mkObj [("out", "no-setter")]
      else return resJson (genSetter d s a)
  | "echo" =>
    -- self-test of the encoding
    let w : World ← fromJson? (← j.getObjVal? "world")
    return toJson w
  | "sample" =>
    let ops : List Op := [.modeSet (.words [some 1, none]), .impSet 0 (.atom (.particle 2)) (.atom (.float (mkRat 1 2))),
      .claim 0 (.list [.obj "Cell" 3 true, .none, .bool true, .hugeInt, .nan, .str none]),
      .problemCells (.coll "Cells" [] true), .fillUniverses 0 (.ndarray []), .mcnpVersion (.tuple [.int 6]), .modeSet .dict]
    return toJson ops
  | _ => throw s!"unknown unit {unit}"

partial def loop (h : IO.FS.Stream) : IO Unit := do
  let line ← h.getLine
  if line.isEmpty then return ()
  let out := match Json.parse line with
    | .error e => Json.mkObj [("error", s!"json: {e}")]
    | .ok j => match runCase j with
      | .ok r => r
      | .error e => Json.mkObj [("error", e)]
  IO.println out.compress
  loop h

def main : IO Unit := do loop (← IO.getStdin)
