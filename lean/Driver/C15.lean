import Lean.Data.Json
import MontePyVerif.Model.Write
import MontePyVerif.Spec.Blocks
/-! Line-protocol driver for unit U-write (model of write_to_file) and for the block Spec.
    One JSON case per input line, one JSON answer per output line.

    {"op":"write","problem":{…},"scenarios":[{"dest":…,"overwrite":b,"fault":…},…]}  →  {"render":…,"nformat":n,"results":[…]}
    {"op":"spec","lines":[…]}                                                      →  block structure as MCNP reads it -/
open Lean MontePyVerif.Write

def errName : Err → String
  | .fileExists => "FileExistsError" | .isADirectory => "IsADirectoryError" | .illegalState => "IllegalState"
  | .valueError => "ValueError" | .osError => "OSError" | .other s => s

def errOf (s : String) : Err :=
  match s with
  | "FileExistsError" => .fileExists | "IsADirectoryError" => .isADirectory | "IllegalState" => .illegalState
  | "ValueError" => .valueError | "OSError" => .osError | s => .other s

def strList (j : Json) : Except String (List String) := do
  let a ← j.getArr?
  a.toList.mapM (·.getStr?)

def parseFmt (j : Json) : Except String Fmt :=
  match j.getObjVal? "raises" with
  | .ok e => do return .raises (errOf (← e.getStr?))
  | .error _ => do return .lines (← strList (← j.getObjVal? "lines"))

def parseFmts (j : Json) (k : String) : Except String (List Fmt) := do
  let a ← (← j.getObjVal? k).getArr?
  a.toList.mapM parseFmt

def parseProblem (j : Json) : Except String Problem := do
  let msg ← match j.getObjVal? "message" with
    | .ok Json.null => pure none
    | .ok m => do pure (some (← parseFmt m))
    | .error _ => pure none
  return { message := msg, title := ← parseFmt (← j.getObjVal? "title"), cells := ← parseFmts j "cells",
           surfaces := ← parseFmts j "surfaces", dataInputs := ← parseFmts j "data", modifiers := ← parseFmts j "modifiers" }

def parseDest (j : Json) : Except String Dest := do
  match ← (← j.getObjVal? "k").getStr? with
  | "absent" => return .absent
  | "dir" => return .dir
  | "file" => return .file (← strList (← j.getObjVal? "lines"))
  | s => throw s!"unknown dest {s}"

def natOf (j : Json) (k : String) : Except String Nat := do
  let n ← (← j.getObjVal? k).getInt?
  if n < 0 then throw "negative" else pure n.toNat

def parseFault (j : Json) : Except String Fault := do
  match ← (← j.getObjVal? "k").getStr? with
  | "none" => return .none
  | "open" => return .openTmp
  | "format" => return .format (← natOf j "i") (errOf (← (← j.getObjVal? "e").getStr?))
  | "write" => return .write (← natOf j "i") (← natOf j "sent")
  | "close" =>
    let n := match natOf j "lines" with | .ok n => n | .error _ => 0
    let c := match natOf j "chars" with | .ok n => n | .error _ => 0
    return .close n c
  | "replace" => return .replace
  | "warn" => return .warn (errOf (← (← j.getObjVal? "e").getStr?))
  | s => throw s!"unknown fault {s}"

def destJson : Dest → Json
  | .absent => Json.mkObj [("k", "absent")]
  | .dir => Json.mkObj [("k", "dir")]
  | .file c => Json.mkObj [("k", "file"), ("lines", toJson c)]

def runScenario (p : Problem) (j : Json) : Except String Json := do
  let dest ← parseDest (← j.getObjVal? "dest")
  let ow ← (← j.getObjVal? "overwrite").getBool?
  let plan ← parseFault (← j.getObjVal? "fault")
  let (r, fs) := writeToFileNow p ⟨dest, none⟩ ow plan
  return Json.mkObj [("result", match r with | none => Json.null | some e => errName e),
                     ("dest", destJson fs.dest), ("tmp", fs.tmp.isSome)]

def runWrite (j : Json) : Except String Json := do
  let p ← parseProblem (← j.getObjVal? "problem")
  let scs ← (← j.getObjVal? "scenarios").getArr?
  let rs ← scs.toList.mapM (runScenario p)
  return Json.mkObj [("render", match renderNow p with | none => Json.null | some ls => toJson ls),
                     ("nformat", toJson (countFormats p MontePyVerif.Gen.WriteOrder.sequence)),
                     ("results", Json.arr rs.toArray)]

def runSpec (j : Json) : Except String Json := do
  let ls ← strList (← j.getObjVal? "lines")
  let b := MontePyVerif.Spec.Blocks.readBlocks ls
  return Json.mkObj [("message", toJson b.message.length), ("title", match b.title with | none => Json.null | some t => toJson t),
                     ("cells", toJson b.cells), ("surfaces", toJson b.surfaces), ("data", toJson b.data),
                     ("delimiters", toJson b.delimiters), ("lost", toJson (MontePyVerif.Spec.Blocks.lostLines b))]

def runCase (j : Json) : Except String Json := do
  match ← (← j.getObjVal? "op").getStr? with
  | "write" => runWrite j
  | "spec" => runSpec j
  | s => throw s!"unknown op {s}"

partial def loop (h : IO.FS.Stream) : IO Unit := do
  let line ← h.getLine
  if line.isEmpty then return ()
  let out := match Json.parse line with
    | .error e => Json.mkObj [("error", s!"json: {e}")]
    | .ok j => match runCase j with
      | .ok r => r
      | .error e => Json.mkObj [("error", e)]
  IO.println out.compress
  loop h

def main : IO Unit := do loop (← IO.getStdin)
