import Lean.Data.Json
import MontePyVerif.Model.Links
/-! Line-protocol driver for the link model (unit U-links).
    One JSON case per input line, one JSON object (load observation + one observation per step) per output line. -/
open Lean MontePyVerif.Links

def errName : Err → String
  | .typeError => "TypeError" | .valueError => "ValueError" | .numberConflict => "NumberConflictError"
  | .brokenLink => "BrokenObjectLinkError" | .keyError => "KeyError" | .attributeError => "AttributeError"

def optNat : Option Nat → Json
  | none => Json.null
  | some o => toJson o

def arrAt (j : Json) (i : Nat) : Except String Json := do
  let a ← j.getArr?
  match a[i]? with
  | some x => pure x
  | none => throw s!"missing element {i}"

def natOf (j : Json) : Except String Nat := do
  let n ← j.getInt?
  if n < 0 then throw "negative id" else pure n.toNat

def optNatOf (j : Json) : Except String (Option Nat) :=
  if j.isNull then pure none else do pure (some (← natOf j))

def optIntOf (j : Json) : Except String (Option Int) :=
  if j.isNull then pure none else do pure (some (← j.getInt?))

def natsOf (j : Json) : Except String (List Nat) := do
  let a ← j.getArr?
  a.toList.mapM natOf

def boolsOf (j : Json) : Except String (List Bool) := do
  let a ← j.getArr?
  a.toList.mapM (·.getBool?)

/-- geometry over pool objects: ["s", id, side] | ["c", id] (complement of a cell) | ["#", g] | ["&", l, r] | ["|", l, r] -/
partial def hsOf (j : Json) : Except String HS := do
  let tag ← (← arrAt j 0).getStr?
  match tag with
  | "s" => return .leaf false (← natOf (← arrAt j 1)) (← (← arrAt j 2).getBool?) none
  | "c" => return .compl (.leaf true (← natOf (← arrAt j 1)) true none) none
  | "#" => return .compl (← hsOf (← arrAt j 1)) none
  | "&" => return .bin false (← hsOf (← arrAt j 1)) (← hsOf (← arrAt j 2)) none
  | "|" => return .bin true (← hsOf (← arrAt j 1)) (← hsOf (← arrAt j 2)) none
  | _ => throw s!"bad geometry tag {tag}"

/-- geometry as written in the file: the same shapes with *numbers* at the leaves -/
partial def phsOf (j : Json) : Except String PHS := do
  let tag ← (← arrAt j 0).getStr?
  match tag with
  | "s" => return .leaf false (← (← arrAt j 1).getInt?) (← (← arrAt j 2).getBool?)
  | "c" => return .compl (.leaf true (← (← arrAt j 1).getInt?) true)
  | "#" => return .compl (← phsOf (← arrAt j 1))
  | "&" => return .bin false (← phsOf (← arrAt j 1)) (← phsOf (← arrAt j 2))
  | "|" => return .bin true (← phsOf (← arrAt j 1)) (← phsOf (← arrAt j 2))
  | _ => throw s!"bad geometry tag {tag}"

def kindOf (s : String) : Except String Kind :=
  match s with
  | "cell" => pure .cell | "surface" => pure .surface | "material" => pure .material
  | "universe" => pure .universe | "transform" => pure .transform
  | _ => throw s!"bad kind {s}"

def parseOp (j : Json) : Except String Op := do
  let name ← (← arrAt j 0).getStr?
  match name with
  | "set_geom" => return .setGeometry (← natOf (← arrAt j 1)) (← hsOf (← arrAt j 2))
  | "iand" => return .iopCell false (← natOf (← arrAt j 1)) (← hsOf (← arrAt j 2))
  | "ior" => return .iopCell true (← natOf (← arrAt j 1)) (← hsOf (← arrAt j 2))
  | "iand_alias" => return .iopAlias false (← natOf (← arrAt j 1)) (← hsOf (← arrAt j 2))
  | "ior_alias" => return .iopAlias true (← natOf (← arrAt j 1)) (← hsOf (← arrAt j 2))
  | "set_div" => return .setDivider (← natOf (← arrAt j 1)) (← boolsOf (← arrAt j 2)) (← (← arrAt j 3).getBool?) (← natOf (← arrAt j 4))
  | "set_left" => return .setChild (← natOf (← arrAt j 1)) (← boolsOf (← arrAt j 2)) false (← hsOf (← arrAt j 3))
  | "set_right" => return .setChild (← natOf (← arrAt j 1)) (← boolsOf (← arrAt j 2)) true (← hsOf (← arrAt j 3))
  | "set_mat" => return .setMaterial (← natOf (← arrAt j 1)) (← optNatOf (← arrAt j 2))
  | "set_univ" => return .setUniverse (← natOf (← arrAt j 1)) (← natOf (← arrAt j 2))
  | "claim" => return .claim (← natOf (← arrAt j 1)) (← natsOf (← arrAt j 2))
  | "set_fill" => return .setFill (← natOf (← arrAt j 1)) (← optNatOf (← arrAt j 2))
  | "set_num" => return .setNumber (← kindOf (← (← arrAt j 1).getStr?)) (← natOf (← arrAt j 2)) (← (← arrAt j 3).getInt?)
  | "append" => return .append (← kindOf (← (← arrAt j 1).getStr?)) (← natOf (← arrAt j 2))
  | "remove" => return .remove (← kindOf (← (← arrAt j 1).getStr?)) (← natOf (← arrAt j 2))
  | "extend" => return .extend (← kindOf (← (← arrAt j 1).getStr?)) (← natsOf (← arrAt j 2))
  | "iadd" => return .extend (← kindOf (← (← arrAt j 1).getStr?)) (← natsOf (← arrAt j 2))
  | "append_renumber" => return .appendRenumber (← kindOf (← (← arrAt j 1).getStr?)) (← natOf (← arrAt j 2))
  | "set_materials" => return .setMaterials (← natsOf (← arrAt j 1))
  | "set_cells" => return .setCells (← natsOf (← arrAt j 1))
  | "children" => return .addCellChildren
  | "reupdate" => return .reupdate
  | _ => throw s!"unknown op {name}"

def sorted (l : List Nat) : Json := toJson (l.toArray.qsort (· < ·)).toList

structure Sizes where
  nc : Nat
  ns : Nat
  nm : Nat
  nu : Nat
  nt : Nat

def linkJ : Option PId → Json
  | none => Json.null
  | some .here => Json.str "here"
  | some .elsewhere => Json.str "other"

def observe (st : St) (z : Sizes) : Json :=
  let cellJ (c : Nat) : Json :=
    let cs := st.cellOf c
    Json.mkObj [
      ("num", toJson (st.cnum c)), ("link", linkJ (st.linkOf .cell c)),
      ("leaves_s", toJson (match cs.geom with | some g => g.surfs | none => [])),
      ("leaves_c", toJson (match cs.geom with | some g => g.comps | none => [])),
      ("has_geom", toJson cs.geom.isSome),
      ("surfs", sorted cs.surfs), ("comps", sorted cs.comps),
      ("mat", optNat cs.mat), ("univ", optNat cs.univ), ("fill", optNat cs.fill),
      ("compl_by", if st.linkOf .cell c == some .elsewhere then Json.str "other" else toJson (cellsComplementing st c))]
  let objJ (num : Nat → Int) (k : Kind) (cells : Option (Nat → List Nat)) (o : Nat) : Json :=
    Json.mkObj ([("num", toJson (num o)), ("link", linkJ (st.linkOf k o))] ++
      (match cells with
        | some f => [("cells", if st.linkOf k o == some .elsewhere then Json.str "other" else toJson (f o))]
        | none => []))
  Json.mkObj [
    ("cells", Json.arr ((List.range z.nc).map cellJ).toArray),
    ("surfaces", Json.arr ((List.range z.ns).map (objJ st.snum .surface (some (surfaceCells st)))).toArray),
    ("materials", Json.arr ((List.range z.nm).map (objJ st.mnum .material (some (materialCells st)))).toArray),
    ("universes", Json.arr ((List.range z.nu).map (objJ st.unum .universe (some (universeCells st)))).toArray),
    ("transforms", Json.arr ((List.range z.nt).map (objJ st.tnum .transform none)).toArray),
    ("members", Json.mkObj [("cell", toJson st.cells), ("surface", toJson st.surfaces), ("material", toJson st.materials),
                            ("universe", toJson st.universes), ("transform", toJson st.transforms)]),
    ("owned", Json.mkObj [("cell", true), ("surface", true), ("material", true), ("universe", true), ("transform", true)]),
    ("data", Json.mkObj [("m", sorted st.dataM), ("t", sorted st.dataT)])]

def getD {α : Type} (l : List α) (i : Nat) (d : α) : α := l.getD i d

def runCase (j : Json) : Except String Json := do
  -- pool surfaces: [num, shape, transform id | null] (the shape only matters for the text of the file); the first `file_surfaces` are in the file
  let surfs ← (← j.getObjVal? "surfaces").getArr?
  let snums ← surfs.toList.mapM (fun s => do (← arrAt s 0).getInt?)
  let strans ← surfs.toList.mapM (fun s => do optNatOf (← arrAt s 2))
  let mats ← (← j.getObjVal? "materials").getArr?
  let mnums ← mats.toList.mapM (fun s => do (← arrAt s 0).getInt?)
  let tnums ← (← (← j.getObjVal? "transforms").getArr?).toList.mapM (·.getInt?)
  let freshU ← (← (← j.getObjVal? "universes").getArr?).toList.mapM (·.getInt?)
  let freshC ← (← (← j.getObjVal? "fresh_cells").getArr?).toList.mapM (·.getInt?)
  let nSurfFile ← natOf (← j.getObjVal? "file_surfaces")
  let nMatFile ← natOf (← j.getObjVal? "file_materials")
  let nTransFile ← natOf (← j.getObjVal? "file_transforms")
  let cellsJ ← (← j.getObjVal? "cells").getArr?
  let pcs ← cellsJ.toList.mapM (fun c => do
    pure ({ num := ← (← c.getObjVal? "num").getInt?, mat := ← (← c.getObjVal? "mat").getInt?,
            geom := ← phsOf (← c.getObjVal? "geom"), univ := ← optIntOf (← c.getObjVal? "u"),
            fill := ← optIntOf (← c.getObjVal? "fill") } : PCell))
  -- origins of the pool objects that are not in the file, per kind: "scratch" | "deepcopy" | "qmember" | "qremoved"
  -- (linked to another problem) | "shallow" (copy.copy of a member: linked to this problem, not a member)
  let originsOf (k : String) : Except String (List String) :=
    match j.getObjVal? "origins" with
    | .ok oj => match oj.getObjVal? k with
      | .ok a => do (← a.getArr?).toList.mapM (·.getStr?)
      | .error _ => pure []
    | .error _ => pure []
  let oC ← originsOf "cell"
  let oS ← originsOf "surface"
  let oM ← originsOf "material"
  let oU ← originsOf "universe"
  let oT ← originsOf "transform"
  let ops ← (← (← j.getObjVal? "ops").getArr?).toList.mapM parseOp
  let cnums := pcs.map (·.num) ++ freshC
  let st0 := St.blank (fun o => getD cnums o 0) (fun o => getD snums o 0) (fun o => getD mnums o 0) (fun _ => 0)
    (fun o => getD tnums o 0) (fun o => getD strans o none)
    (fun k o =>
      let isOther (l : List String) (first : Nat) : Bool :=
        o ≥ first && (let x := getD l (o - first) "scratch"; x == "deepcopy" || x == "qmember" || x == "qremoved")
      match k with
      | .cell => isOther oC pcs.length
      | .surface => isOther oS nSurfFile
      | .material => isOther oM nMatFile
      | .transform => isOther oT nTransFile
      | .universe => false)
  let ((st1, e), nu) := load st0 pcs nSurfFile nMatFile nTransFile 0
  match e with
  | some err => return Json.mkObj [("load", errName err)]
  | none =>
    -- the fresh universes of the pool take the ids after the loaded ones
    let isShallow (l : List String) (first o : Nat) : Bool := o ≥ first && getD l (o - first) "scratch" == "shallow"
    let st2 := { st1 with
      unum := fun o => if o < nu then st1.unum o else getD freshU (o - nu) 0,
      slink := fun o => st1.slink o || isShallow oS nSurfFile o,
      mlink := fun o => st1.mlink o || isShallow oM nMatFile o,
      tlink := fun o => st1.tlink o || isShallow oT nTransFile o,
      other := fun k o => match k with
        | .universe => o ≥ nu && (let x := getD oU (o - nu) "scratch"; x == "deepcopy" || x == "qmember" || x == "qremoved")
        | _ => st1.other k o }
    let z : Sizes := { nc := cnums.length, ns := snums.length, nm := mnums.length, nu := nu + freshU.length, nt := tnums.length }
    let (_, steps) := ops.foldl (fun (acc : St × List Json) op =>
        let (s1, out) := step acc.1 op
        let o := match out with | none => Json.str "ok" | some err => Json.str (errName err)
        (s1, Json.mkObj [("out", o), ("obs", observe s1 z)] :: acc.2)) (st2, [])
    return Json.mkObj [("load", observe st2 z), ("steps", Json.arr steps.reverse.toArray)]

partial def loop (h : IO.FS.Stream) : IO Unit := do
  let line ← h.getLine
  if line.isEmpty then return ()
  let out := match Json.parse line with
    | .error e => Json.mkObj [("error", s!"json: {e}")]
    | .ok j => match runCase j with
      | .ok r => r
      | .error e => Json.mkObj [("error", e)]
  IO.println out.compress
  loop h

def main : IO Unit := do loop (← IO.getStdin)
