import Lean.Data.Json
import MontePyVerif.Model.World
import MontePyVerif.Gen.Setters
/-! Line-protocol driver for the world model (units U-world-reader, U-world-log, U-setter of C17).
    One JSON case per input line: `{"fuel": n, "ops": [...]}`; one JSON line back with, per operation, the
    result and the process-wide state afterwards (queue, log non-empty, recursion limit, closure cell of the declaration used).
    The shape of the code (`Cfg`) is the one the translator read off the source (Gen/Setters.lean). -/
open Lean MontePyVerif.World

def codeCfg : Cfg :=
  { writesClosure := MontePyVerif.Gen.Setters.templatesWriteClosure
    readerResetsQueue := MontePyVerif.Gen.Setters.readerResetsQueue
    queuePerPath := MontePyVerif.Gen.Setters.queuePerPath
    restartClearsLog := MontePyVerif.Gen.Setters.restartClearsLog
    slyParseRestarts := MontePyVerif.Gen.Setters.slyParseRestarts
    objectInitRestarts := MontePyVerif.Gen.Setters.objectInitRestarts
    readInputRestarts := MontePyVerif.Gen.Setters.readInputRestarts
    setsRecursionLimit := MontePyVerif.Gen.Setters.setsRecursionLimit }

def errName : Err → String
  | .parsing => "ParsingError" | .malformed => "MalformedInputError" | .fileNotFound => "FileNotFoundError"
  | .numberConflict => "NumberConflictError" | .brokenLink => "BrokenObjectLinkError"
  | .noProblem => "NoProblem" | .indexError => "IndexError" | .hang => "hang" | .recursion => "RecursionError"

def gateName : Gate → String
  | .noSetter => "AttributeError" | .typeError => "TypeError" | .passed => "passed"

def resJson : Res → Json
  | .ok => Json.mkObj [("t", "ok")]
  | .err e => Json.mkObj [("t", "err"), ("v", errName e)]
  | .written cs => Json.mkObj [("t", "written"),
      ("v", Json.arr (cs.map fun (n, i, v) => Json.arr #[toJson n, toJson i, toJson v]).toArray)]
  | .gate g => Json.mkObj [("t", "gate"), ("v", gateName g)]

def arrAt (j : Json) (i : Nat) : Except String Json := do
  let a ← j.getArr?
  match a[i]? with
  | some x => pure x
  | none => throw s!"missing argument {i}"

def natAt (j : Json) (i : Nat) : Except String Nat := do
  let n ← (← arrAt j i).getInt?
  if n < 0 then throw "negative" else pure n.toNat

/-- an optional trailing argument -/
def optNatAt (j : Json) (i : Nat) : Except String (Option Nat) := do
  let a ← j.getArr?
  match a[i]? with
  | some x => do
    let n ← x.getInt?
    pure (some n.toNat)
  | none => pure none

def intAt (j : Json) (i : Nat) : Except String Int := do (← arrAt j i).getInt?

def natList (j : Json) : Except String (List Nat) := do
  let a ← j.getArr?
  a.toList.mapM fun y => do
    let n ← y.getInt?
    pure n.toNat

def parseBeh (j : Json) : Except String ParseBeh := do
  match (← j.getStr?) with
  | "ok" => pure .ok
  | "syntax" => pure .syntax
  | "logThenRaise" => pure .logThenRaise
  | "raiseOnly" => pure .raiseOnly
  | s => throw s!"unknown parse behaviour {s}"

def parseItem (j : Json) : Except String Item := do
  match (← (← arrAt j 0).getStr?) with
  | "card" => pure (.card { num := ← intAt j 1, imp := ← intAt j 2, vol := ← intAt j 3,
                            dangling := ← (← arrAt j 4).getBool?,
                            depth := (← optNatAt j 5).getD 0 })
  | "read" => pure (.read (← natAt j 1) (← parseBeh (← arrAt j 2)))
  | "bad" => pure (.bad (← parseBeh (← arrAt j 1)))
  | "other" => pure .other
  | s => throw s!"unknown item {s}"

def parseFiles (j : Json) : Except String FileSys := do
  let a ← j.getArr?
  a.toList.mapM fun e => do
    let items ← (← arrAt e 1).getArr?
    pure (← natAt e 0, ← items.toList.mapM parseItem)

def parseTypes (j : Json) : Except String Types :=
  match j with
  | Json.null => pure .notSettable
  | Json.str "self" => pure .selfType
  | _ => do pure (.classes (← natList j))

def parseOp (j : Json) : Except String Op := do
  match (← (← arrAt j 0).getStr?) with
  | "read" => pure (.read (← natAt j 1) (← natAt j 4) (← parseFiles (← arrAt j 2)) (← natAt j 3) ((← optNatAt j 5).getD 0))
  | "setImp" => pure (.setImp (← natAt j 1) (← natAt j 2) (← intAt j 3))
  | "setVol" => pure (.setVol (← natAt j 1) (← natAt j 2) (← intAt j 3))
  | "setNum" => pure (.setNum (← natAt j 1) (← natAt j 2) (← intAt j 3))
  | "remove" => pure (.removeCard (← natAt j 1) (← natAt j 2))
  | "deepcopy" => pure (.deepcopy (← natAt j 1) (← natAt j 2))
  | "write" => pure (.write (← natAt j 1))
  | "set" => pure (.setter { id := ← natAt j 1, types := ← parseTypes (← arrAt j 2) } (← natAt j 3)
                    { cls := ← natAt j 4, mro := ← natList (← arrAt j 5) })
  | "construct" => pure (.construct (← natAt j 1))
  | s => throw s!"unknown op {s}"

def optNat : Option Nat → Json
  | none => Json.null
  | some n => toJson n

def runCase (j : Json) : Except String Json := do
  let fuel ← (← j.getObjVal? "fuel").getNat?
  let ops ← (← j.getObjVal? "ops").getArr?
  let ops ← ops.toList.mapM parseOp
  -- the keys under which a queue can exist: 0 (one queue for the process) and every path of the case
  let keys : List Nat := (0 :: ops.filterMap (fun op => match op with | .read _ path _ _ _ => some path | _ => none)).eraseDups
  let keys := keys.toArray.qsort (· < ·) |>.toList
  let (_, out) := ops.foldl (fun (acc : World × List Json) op =>
      let (w1, r) := step codeCfg fuel acc.1 op
      let cell := match op with
        | .setter d _ _ => optNat (w1.latch d.id)
        | _ => Json.null
      (w1, Json.mkObj [("res", resJson r), ("queue", Json.arr ((keys.filter (fun k => !(w1.queue k).isEmpty)).map
                          (fun k => Json.arr #[toJson k, toJson (w1.queue k)])).toArray), ("log", toJson (decide (w1.log > 0))),
                       ("limit", toJson w1.interp.recLimit), ("cell", cell)] :: acc.2)) (World.fresh, [])
  return Json.arr out.reverse.toArray

partial def loop (h : IO.FS.Stream) : IO Unit := do
  let line ← h.getLine
  if line.isEmpty then return ()
  let out := match Json.parse line with
    | .error e => Json.mkObj [("error", s!"json: {e}")]
    | .ok j => match runCase j with
      | .ok r => r
      | .error e => Json.mkObj [("error", e)]
  IO.println out.compress
  loop h

def main : IO Unit := do loop (← IO.getStdin)
