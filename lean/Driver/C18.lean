import Lean.Data.Json
import MontePyVerif.Model.Dedupe
import MontePyVerif.Spec.Dedupe
/-! Line-protocol driver for the duplicate-surface model (unit U-dedupe) and the Spec relation `dup`.
    One JSON case per input line:
      {"surfaces":[{"n":1,"t":"PZ","c":["0/1"],"tr":null|{"n":1,"deg":false,"m2a":true,"d":["0/1","0/1","1/1"],"r":[]},
                    "per":null|7,"refl":false,"white":false}],
       "cells":[{"n":1,"g":[["L",1,true],["C",2],["#"],["*"]],"s":[1]}],   -- geometry in postfix order
       "tols":["1/10000", ...]}            -- remove_duplicate_surfaces is called once per tolerance, in order
    One JSON observation per output line: {"calls":[{"survivors","deleted","map","cells","periodic","dup"}]}. -/
open Lean MontePyVerif.Dedupe

def parseRat (j : Json) : Except String Rat := do
  let s ← j.getStr?
  match s.splitOn "/" with
  | [a, b] =>
    match a.toInt?, b.toNat? with
    | some n, some d => if d == 0 then throw "zero denominator" else pure (mkRat n d)
    | _, _ => throw s!"bad rational {s}"
  | _ => throw s!"bad rational {s}"

def getNat (j : Json) : Except String Nat := do
  let n ← j.getInt?
  if n < 0 then throw "negative" else pure n.toNat

def optNat (j : Json) : Except String (Option Nat) :=
  if j.isNull then pure none else do pure (some (← getNat j))

def parseTransform (j : Json) : Except String (Option Transform) :=
  if j.isNull then pure none else do
    let d ← (← j.getObjVal? "d").getArr?
    let d ← d.toList.mapM parseRat
    let r ← (← j.getObjVal? "r").getArr?
    let r ← r.toList.mapM parseRat
    match d with
    | [x, y, z] =>
      pure (some { number := ← getNat (← j.getObjVal? "n"), inDegrees := ← (← j.getObjVal? "deg").getBool?,
                   mainToAux := ← (← j.getObjVal? "m2a").getBool?, disp := (x, y, z), rot := r })
    | _ => throw "displacement must have 3 entries"

def parseSurface (j : Json) : Except String Surface := do
  let c ← (← j.getObjVal? "c").getArr?
  pure { number := ← getNat (← j.getObjVal? "n"), stype := ← (← j.getObjVal? "t").getStr?,
         consts := ← c.toList.mapM parseRat, transform := ← parseTransform (← j.getObjVal? "tr"),
         periodic := ← optNat (← j.getObjVal? "per"), reflecting := ← (← j.getObjVal? "refl").getBool?,
         white := ← (← j.getObjVal? "white").getBool? }

/-- geometry arrives in postfix order: [["L",1,true],["C",2],["#"],["*"]] is `1 #2` -/
def pushNode (stack : List HS) (j : Json) : Except String (List HS) := do
  let a ← j.getArr?
  let tag ← (← (a[0]?.elim (throw "empty node") pure)).getStr?
  let arg (i : Nat) : Except String Json := a[i]?.elim (throw "missing argument") pure
  match tag, stack with
  | "L", st => pure (.leaf (← getNat (← arg 1)) (← (← arg 2).getBool?) :: st)
  | "C", st => pure (.cellLeaf (← getNat (← arg 1)) :: st)
  | "#", l :: st => pure (.compl l :: st)
  | "*", r :: l :: st => pure (.inter l r :: st)
  | ":", r :: l :: st => pure (.union l r :: st)
  | _, _ => throw s!"bad postfix node {tag}"

def parseHS (j : Json) : Except String HS := do
  let a ← j.getArr?
  match ← a.toList.foldlM pushNode [] with
  | [h] => pure h
  | _ => throw "postfix geometry does not reduce to one tree"

def hsJson : HS → Json
  | .leaf n s => Json.arr #["L", toJson n, toJson s]
  | .cellLeaf c => Json.arr #["C", toJson c]
  | .compl l => Json.arr #["#", hsJson l]
  | .inter l r => Json.arr #["*", hsJson l, hsJson r]
  | .union l r => Json.arr #[":", hsJson l, hsJson r]

def parseCell (j : Json) : Except String Cell := do
  let s ← (← j.getObjVal? "s").getArr?
  pure { number := ← getNat (← j.getObjVal? "n"), geometry := ← parseHS (← j.getObjVal? "g"),
         surfaces := ← s.toList.mapM getNat }

def insertSorted (x : Nat) : List Nat → List Nat
  | [] => [x]
  | y :: ys => if x ≤ y then x :: y :: ys else y :: insertSorted x ys

def sortNats (xs : List Nat) : List Nat := xs.foldr insertSorted []

def optNatJson : Option Nat → Json
  | none => Json.null
  | some n => toJson n

/-- observation after one call; `dup` is Spec's verdict on every (survivor, removed) pair of the map -/
def observe (before : Problem) (tol : Rat) (after : Problem) (st : LoopState) : Json :=
  let find (n : Nat) : Option Surface := before.surfaces.find? (·.number == n)
  let deleted := sortNats st.toDelete
  let mp := deleted.filterMap fun d => (st.map.lookup d).map fun t => (d, t)
  let dups := mp.map fun (d, t) =>
    match find d, find t with
    | some sd, some st' => Json.arr #[toJson d, toJson t, toJson (MontePyVerif.Spec.Dedupe.dup tol st' sd)]
    | _, _ => Json.arr #[toJson d, toJson t, Json.null]
  Json.mkObj [
    ("survivors", toJson (after.surfaces.map (·.number))),
    ("deleted", toJson deleted),
    ("map", Json.arr (mp.map fun (d, t) => Json.arr #[toJson d, toJson t]).toArray),
    ("cells", Json.arr (after.cells.map fun c =>
        Json.mkObj [("n", toJson c.number), ("g", hsJson c.geometry), ("s", toJson c.surfaces)]).toArray),
    ("periodic", Json.arr (after.surfaces.map fun s => Json.arr #[toJson s.number, optNatJson s.periodic]).toArray),
    ("dup", Json.arr dups.toArray)]

def runCase (j : Json) : Except String Json := do
  let ss ← (← j.getObjVal? "surfaces").getArr?
  let ss ← ss.toList.mapM parseSurface
  let cs ← (← j.getObjVal? "cells").getArr?
  let cs ← cs.toList.mapM parseCell
  let tols ← (← j.getObjVal? "tols").getArr?
  let tols ← tols.toList.mapM parseRat
  let (_, outs) := tols.foldl (fun (acc : Problem × List Json) tol =>
      let (p', st) := acc.1.removeDuplicateSurfaces tol
      (p', observe acc.1 tol p' st :: acc.2)) (({ surfaces := ss, cells := cs } : Problem), [])
  return Json.mkObj [("calls", Json.arr outs.reverse.toArray)]

partial def loop (h : IO.FS.Stream) : IO Unit := do
  let line ← h.getLine
  if line.isEmpty then return ()
  let out := match Json.parse line with
    | .error e => Json.mkObj [("error", s!"json: {e}")]
    | .ok j => match runCase j with
      | .ok r => r
      | .error e => Json.mkObj [("error", e)]
  IO.println out.compress
  loop h

def main : IO Unit := do loop (← IO.getStdin)
