import Lean.Data.Json
import MontePyVerif.Model.Reader
import MontePyVerif.Spec.TextLayout
/-! Line-protocol driver for the reader / read-card model and the Spec reader (units U-reader, U-readcards;
    used by the checks C20 and C11).  One JSON case per input line, one JSON observation per output line.
    File contents travel as strings whose code points 0-255 stand for the bytes of the file. -/
open Lean MontePyVerif

def str (s : List Char) : Json := Json.str (String.ofList s)
def strs (l : List (List Char)) : Json := Json.arr (l.map str).toArray

def errName : Reader.Err → String
  | .parsing => "ParsingError" | .malformed => "MalformedInputError" | .unsupported => "UnsupportedFeature"
  | .fileNotFound => "FileNotFoundError" | .outOfFuel => "OUT-OF-FUEL"

/-- the observable part of an event list: yielded items, files opened, warnings, the exception -/
def observe (evs : List Reader.Event) : Json :=
  let items := evs.filterMap fun
    | .message raw lines => some (Json.mkObj [("k", "message"), ("raw", strs raw), ("lines", strs lines)])
    | .title l => some (Json.mkObj [("k", "title"), ("line", str l)])
    | .input bt lines => some (Json.mkObj [("k", "input"), ("bt", toJson bt.value), ("lines", strs lines)])
    | .none => some (Json.mkObj [("k", "none")])
    | _ => none
  let opened := evs.filterMap fun | .openFile p => some (str p) | _ => none
  let warnings := (evs.filter fun | .warn => true | _ => false).length
  let err := match evs.filterMap (fun | .raise e => some e | _ => none) with
    | e :: _ => Json.str (errName e)
    | [] => Json.null
  Json.mkObj [("items", Json.arr items.toArray), ("opened", Json.arr opened.toArray),
              ("warnings", toJson warnings), ("err", err)]

def bytesOf (s : String) : List Nat := s.toList.map Char.toNat

def getFiles (j : Json) : Except String (List (List Char × String)) := do
  let o ← (← j.getObjVal? "files").getObj?
  o.toList.mapM fun (k, v) => do pure (k.toList, ← v.getStr?)

def lookup (files : List (List Char × String)) (p : List Char) : Option String :=
  (files.find? (·.1 = p)).map (·.2)

def inpJson (i : Spec.Inp) : Json := Json.mkObj [("block", toJson i.block), ("words", strs i.words)]

def blocksJson (b : Spec.Blocks) : Json :=
  Json.mkObj [("message", match b.message with | some m => strs m | none => Json.null),
              ("title", match b.title with | some t => str t | none => Json.null),
              ("inputs", Json.arr (b.inputs.map inpJson).toArray)]

/-- the Spec's view of a file: LF-separated records, a CR before the LF belongs to the line end,
    a last record without LF counts -/
def specLines (s : String) : List Spec.Line :=
  let ls := (s.splitOn "\n").map fun l =>
    let cs := l.toList
    (if cs.getLast? = some '\r' then cs.dropLast else cs).map fun c => if c.toNat < 127 then c else ' '
  match ls.reverse with
  | [] :: r => r.reverse
  | _ => ls

def getNat (j : Json) (k : String) (d : Nat) : Nat :=
  match j.getObjVal? k with
  | .ok v => (v.getNat?).toOption.getD d
  | .error _ => d

def parseGap (j : Json) : Except String Spec.Gap := do
  let k ← (← j.getObjVal? "k").getStr?
  match k with
  | "blanks" => pure (.blanks (getNat j "n" 0))
  | "newline" => pure (.newline (getNat j "n" 0))
  | "amp" =>
    let cs ← match j.getObjVal? "cs" with
      | .ok (Json.arr a) => a.toList.mapM fun c => do
          pure (getNat c "ind" 0, (← (← c.getObjVal? "text").getStr?).toList)
      | _ => pure []
    pure (.amp (getNat j "pre" 0) (getNat j "t" 0) cs (getNat j "n" 0))
  | "dollar" => pure (.dollar (getNat j "pre" 0) (← (← j.getObjVal? "text").getStr?).toList (getNat j "n" 0))
  | "comments" =>
    let cs ← (← j.getObjVal? "cs").getArr?
    let cs ← cs.toList.mapM fun c => do
      pure (getNat c "ind" 0, (← (← c.getObjVal? "text").getStr?).toList)
    pure (.comments cs (getNat j "n" 0))
  | _ => throw s!"unknown gap {k}"

def parseLayoutInput (j : Json) : Except String (Spec.InputLayout × List Spec.Word) := do
  let ws ← (← j.getObjVal? "words").getArr?
  let ws ← ws.toList.mapM fun w => do pure (← w.getStr?).toList
  let gaps ← (← j.getObjVal? "gaps").getArr?
  let gaps ← gaps.toList.mapM parseGap
  let pre ← (← j.getObjVal? "pre").getArr?
  let pre ← pre.toList.mapM fun c => do
    pure (getNat c "ind" 0, (← (← c.getObjVal? "text").getStr?).toList)
  let td := match j.getObjVal? "trailDollar" with
    | .ok (Json.str s) => some s.toList
    | _ => none
  pure (⟨pre, getNat j "lead" 0, gaps, getNat j "trail" 0, td⟩, ws)

def runCase (j : Json) : Except String Json := do
  let op ← (← j.getObjVal? "op").getStr?
  let limit := getNat j "limit" 128
  match op with
  | "read_all" =>
    let files ← getFiles j
    let main ← (← j.getObjVal? "main").getStr?
    let fs : Reader.FS := fun p => (lookup files p).map bytesOf
    return observe (Reader.readAll limit (getNat j "fuel" 10000) fs main.toList)
  | "spec" =>
    let text ← (← j.getObjVal? "text").getStr?
    return blocksJson (Spec.logicalInputs limit (specLines text))
  | "spec_flatten" =>
    let files ← getFiles j
    let main ← (← j.getObjVal? "main").getStr?
    let sf : Spec.Files := fun p => (lookup files p).map specLines
    let f := Spec.flatten limit sf (Spec.resolveAgainst main.toList) (getNat j "depth" 64) main.toList
    let err := match Spec.errorOf f.outs with
      | some .badRead => Json.str "badRead" | some .cycle => Json.str "cycle" | some .missing => Json.str "missing"
      | none => Json.null
    return Json.mkObj [("message", match f.message with | some m => strs m | none => Json.null),
              ("title", match f.title with | some t => str t | none => Json.null),
              ("inputs", Json.arr ((Spec.inputsOf f.outs).map inpJson).toArray), ("err", err)]
  | "render" =>
    let inputs ← (← j.getObjVal? "inputs").getArr?
    let inputs ← inputs.toList.mapM parseLayoutInput
    return strs (Spec.renderInputs inputs)
  | "is_comment" =>
    let text ← (← j.getObjVal? "text").getStr?
    return toJson (Reader.isComment text.toList)
  | "spec_is_comment" =>
    let text ← (← j.getObjVal? "text").getStr?
    return toJson (Spec.isCommentLine text.toList)
  | "paths" =>
    let a ← (← j.getObjVal? "a").getStr?
    let b ← (← j.getObjVal? "b").getStr?
    return Json.mkObj [("dirname", str (Reader.dirname a.toList)), ("join", str (Reader.joinPath a.toList b.toList))]
  | _ => throw s!"unknown op {op}"

partial def loop (h : IO.FS.Stream) : IO Unit := do
  let line ← h.getLine
  if line.isEmpty then return ()
  let out := match Json.parse line with
    | .error e => Json.mkObj [("error", s!"json: {e}")]
    | .ok j => match runCase j with
      | .ok r => r
      | .error e => Json.mkObj [("error", e)]
  IO.println out.compress
  loop h

def main : IO Unit := do loop (← IO.getStdin)
