import Lean.Data.Json
import Std.Data.HashSet
import MontePyVerif.Model.LR
import MontePyVerif.Model.LRTables
/-! Line-protocol driver for the LR unit of C12 (`tools/vlib/lrlib.py`).

  {"op":"parse","p":"CellParser","toks":["NUMBER","SPACE",…]}
      → {"r":"accept","reds":[…]} | {"r":"reject","reds":[…],"remaining":k} | {"r":"crash","reds":[…]} | {"r":"fuel"}
        (`LR.parse` over the tables of `Gen/LrTables.lean`; a token name the grammar does not know gets an id
         without a column in any row, as in `actions[state].get(ltype)`)
  {"op":"coverage"} → per parser class: action cells consulted so far by this process, productions reduced
  {"op":"classes"}  → the dumped classes and their sizes
-/
open Lean MontePyVerif.LR MontePyVerif.Gen.LrTables

structure Cls where
  dump : LrDump
  tables : Tables
  ids : Std.HashMap String Nat

def mkCls (d : LrDump) : Cls :=
  { dump := d, tables := ofDump d,
    ids := (d.symbols.zipIdx.foldl (fun m (s, i) => if m.contains s then m else m.insert s i) {}) }

def classesArr : Array Cls := (all.map mkCls).toArray

structure Cov where
  cells : Std.HashSet (Nat × Nat × Nat) := {}
  prods : Std.HashSet (Nat × Nat) := {}

/-- the (state, column) cells `actionOf` reads along a run: the lookahead's column, or the only cell of a defaulted row -/
def visited (t : Tables) : Nat → Config → List (Nat × Nat) → List (Nat × Nat)
  | 0, _, acc => acc
  | fuel + 1, c, acc =>
    match c.stack with
    | [] => acc
    | s :: _ =>
      let col := match defaulted t s, row t s with
        | some _, (k, _) :: _ => k
        | _, _ => lookahead c.input
      let acc := (s, col) :: acc
      match step t c with
      | .shift c' => visited t fuel c' acc
      | .reduce _ c' => visited t fuel c' acc
      | _ => acc

def fuelFor (n : Nat) : Nat := 200000 + 1000 * n

def runCase (cov : IO.Ref Cov) (j : Json) : IO Json := do
  let op := (j.getObjValAs? String "op").toOption.getD ""
  match op with
  | "parse" =>
    let .ok p := j.getObjValAs? String "p" | return Json.mkObj [("error", "no p")]
    let .ok toks := j.getObjValAs? (Array String) "toks" | return Json.mkObj [("error", "no toks")]
    let some ci := classesArr.findIdx? (·.dump.name == p) | return Json.mkObj [("error", s!"unknown class {p}")]
    let some cls := classesArr[ci]? | return Json.mkObj [("error", s!"unknown class {p}")]
    let ids := toks.toList.map fun s => if s == "$end" then 100000 else (cls.ids.get? s).getD 100000
    let fuel := fuelFor ids.length
    let r := parse cls.tables fuel ids
    let vis := visited cls.tables fuel (init ids) []
    let reds := match r with | .accept l => l | .reject l _ => l | .crash l => l | .outOfFuel => []
    cov.modify fun c => { cells := vis.foldl (fun s (a, b) => s.insert (ci, a, b)) c.cells,
                          prods := reds.foldl (fun s q => s.insert (ci, q)) c.prods }
    pure <| match r with
      | .accept l => Json.mkObj [("r", "accept"), ("reds", toJson l)]
      | .reject l k => Json.mkObj [("r", "reject"), ("reds", toJson l), ("remaining", toJson k)]
      | .crash l => Json.mkObj [("r", "crash"), ("reds", toJson l)]
      | .outOfFuel => Json.mkObj [("r", "fuel")]
  | "coverage" =>
    let c ← cov.get
    let rows := classesArr.toList.zipIdx.map fun (cls, ci) =>
      let total := (cls.dump.action.map (·.length)).sum
      let hit := c.cells.fold (fun n (k, s, col) =>
        if k == ci && (assoc col (row cls.tables s)).isSome then n + 1 else n) 0
      let consulted := c.cells.fold (fun n (k, _, _) => if k == ci then n + 1 else n) 0
      let pr := c.prods.fold (fun n (k, _) => if k == ci then n + 1 else n) 0
      let inTable := ((cls.tables.action.toList.flatMap fun r => r.filterMap fun (_, a) =>
        if a < 0 then some (-a).toNat else none).eraseDups).length
      (cls.dump.name, Json.mkObj [("action_cells", toJson total), ("cells_hit", toJson hit),
        ("lookups", toJson consulted), ("productions", toJson (cls.dump.prods.length - 1)), ("productions_in_table", toJson inTable),
        ("productions_reduced", toJson pr)])
    pure (Json.mkObj rows)
  | "classes" =>
    pure (Json.mkObj (all.map fun d => (d.name, Json.mkObj [("states", toJson d.action.length),
      ("symbols", toJson d.symbols), ("nTerm", toJson d.nTerm), ("sr", toJson d.srConflicts), ("rr", toJson d.rrConflicts),
      ("defaulted", toJson (d.defaulted.map (·.1)))])))
  | o => pure (Json.mkObj [("error", s!"unknown op {o}")])

partial def loop (cov : IO.Ref Cov) (h : IO.FS.Stream) : IO Unit := do
  let line ← h.getLine
  if line.isEmpty then return ()
  let out ← match Json.parse line with
    | .error e => pure (Json.mkObj [("error", s!"json: {e}")])
    | .ok j => runCase cov j
  IO.println out.compress
  loop cov h

def main : IO Unit := do
  let cov ← IO.mkRef ({} : Cov)
  loop cov (← IO.getStdin)
