import Lean.Data.Json
import MontePyVerif.Model.Lexer
/-! Line-protocol driver for the lexer model (unit U-lexer of C12): one JSON request per line, one answer per line.

  {"op":"lex","cls":C,"text":s}        → Model.Lexer.lex (sly Lexer.tokenize): {"toks":[[type,value,index],…],"out":o}
  {"op":"tokenize","cls":C,"lines":[…]} → Model.Lexer.inputTokenize (Input.tokenize): {"toks":[[type,value],…],"out":o}
  {"op":"match","cls":C,"rule":i,"text":s} → [length matched by rule i of C at the front of s | null  (CPS matcher),
                                               the same from the head of `ends`  (specification)]
  {"op":"expr","i":i,"text":s}          → does shortcut expression i match (bool); i = -1: _NUCLIDE_INPUTS
  C ∈ mcnp | particle | cell | data | surface.  A text with a character ≥ 128 → {"out":"nonascii"}.
-/
open Lean MontePyVerif.Lexer MontePyVerif.Regex

abbrev R := Except String

def fStr (j : Json) (k : String) : R String := do (← j.getObjVal? k).getStr?

def specOf : String → R LexerSpec
  | "mcnp" => pure mcnpLexer
  | "particle" => pure particleLexer
  | "cell" => pure cellLexer
  | "data" => pure dataLexer
  | "surface" => pure surfaceLexer
  | o => throw s!"bad lexer class {o}"

def outName (inputLevel : Bool) : Outcome → String
  | .ok => "ok"
  | .lexError => if inputLevel then "ParsingError" else "LexError"
  | .valueError => "ValueError"
  | .stuck => "stuck"
  | .unmodelled => "unmodelled"
  | .fuel => "fuel"

def ascii (s : String) : Bool := s.toList.all (fun c => c.toNat < 128)

def runCase (j : Json) : R Json := do
  match (← fStr j "op") with
  | "lex" =>
    let spec ← specOf (← fStr j "cls")
    let text ← fStr j "text"
    if !ascii text then return Json.mkObj [("out", "nonascii")]
    let (ts, o) := lex spec text.toList
    pure (Json.mkObj [("toks", Json.arr (ts.map (fun t => Json.arr #[toJson t.type, toJson (String.ofList t.value), toJson t.index])).toArray),
                      ("out", outName false o)])
  | "tokenize" =>
    let spec ← specOf (← fStr j "cls")
    let lines ← (← (← j.getObjVal? "lines").getArr?).toList.mapM (fun x => x.getStr?)
    if !lines.all ascii then return Json.mkObj [("out", "nonascii")]
    let (ts, o) := inputTokenize spec (lines.map String.toList)
    pure (Json.mkObj [("toks", Json.arr (ts.map (fun t => Json.arr #[toJson t.type, toJson (String.ofList t.value)])).toArray),
                      ("out", outName true o)])
  | "match" =>
    let spec ← specOf (← fStr j "cls")
    let i ← (← j.getObjVal? "rule").getNat?
    let text ← fStr j "text"
    if !ascii text then return Json.mkObj [("out", "nonascii")]
    match spec.rules[i]? with
    | none => throw "no such rule"
    | some (_, r) =>
      let s := text.toList
      let f : Option (List Char) → Json := fun x => match x with
        | some rest => toJson (s.length - rest.length)
        | none => Json.null
      pure (Json.arr #[f (matchFront spec.ic r s), f (matchSpec spec.ic r s)])
  | "expr" =>
    let i ← (← j.getObjVal? "i").getInt?
    let text ← fStr j "text"
    if !ascii text then return Json.mkObj [("out", "nonascii")]
    if i < 0 then pure (toJson (isMatch MontePyVerif.Gen.LexRules.nuclideInputsIc MontePyVerif.Gen.LexRules.nuclideInputs text.toList))
    else match MontePyVerif.Gen.LexRules.shortcutExpressions[i.toNat]? with
      | some (_, ic, r) => pure (toJson (isMatch ic r text.toList))
      | none => throw "no such expression"
  | o => throw s!"unknown op {o}"

partial def loop (h : IO.FS.Stream) : IO Unit := do
  let line ← h.getLine
  if line.isEmpty then return ()
  let out := match Json.parse line with
    | .error e => Json.mkObj [("error", s!"json: {e}")]
    | .ok j => match runCase j with
      | .ok r => r
      | .error e => Json.mkObj [("error", e)]
  IO.println out.compress
  loop h

def main : IO Unit := do loop (← IO.getStdin)
