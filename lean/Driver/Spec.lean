import Lean.Data.Json
import MontePyVerif.Spec.File
import MontePyVerif.Spec.GeomEval
/-! Driver for the independent MCNP-rules reader: one JSON request per line
    `{"limit":128,"lines":["..."]}` ↦ the denotation of the file as JSON. -/
open Lean MontePyVerif.Spec.File

def s (x : Str) : Json := Json.str (String.ofList x)
def ss (xs : List Str) : Json := Json.arr (xs.map s).toArray
def qJ (q : Q) : Json := Json.arr #[toJson q.num, toJson q.den]
def oI : Option Int → Json | none => Json.null | some n => toJson n

def valJ : Val → Json
  | .num q => Json.mkObj [("n", qJ q)]
  | .jump => Json.str "J"
  | .logI a b k n => Json.mkObj [("log", Json.arr #[qJ a, qJ b, toJson k, toJson n])]
  | .word w => Json.mkObj [("w", s w)]
  | .bad why => Json.mkObj [("bad", Json.str why)]

def valsJ (vs : List Val) : Json := Json.arr (vs.map valJ).toArray

def cellJ (c : CellD) : Json := Json.mkObj [
  ("number", oI c.number), ("material", oI c.material),
  ("density", match c.density with | none => Json.null | some q => qJ q), ("like", toJson c.like),
  ("geometry", ss c.geometry),
  ("params", Json.arr (c.params.map (fun kv => Json.arr #[s kv.1, valsJ kv.2])).toArray),
  ("dollar", ss c.dollar), ("ccomments", ss c.ccomments)]

def surfJ (c : SurfD) : Json := Json.mkObj [
  ("number", oI c.number), ("modifier", s c.modifier), ("pointer", oI c.pointer), ("mnemonic", s c.mnemonic),
  ("constants", valsJ c.constants), ("dollar", ss c.dollar), ("ccomments", ss c.ccomments)]

def dataJ (c : DataD) : Json := Json.mkObj [
  ("name", s c.name), ("entries", valsJ c.entries), ("dollar", ss c.dollar), ("ccomments", ss c.ccomments)]

def probJ (p : Problem) : Json := Json.mkObj [
  ("message", ss p.message), ("title", s p.title), ("head", ss p.head), ("surf_head", ss p.surfHead),
  ("data_head", ss p.dataHead),
  ("cells", Json.arr (p.cells.map cellJ).toArray), ("surfaces", Json.arr (p.surfaces.map surfJ).toArray),
  ("data", Json.arr (p.data.map dataJ).toArray)]

def handle (j : Json) : Except String Json := do
  let limit ← (← j.getObjVal? "limit").getNat?
  let lines ← (← j.getObjVal? "lines").getArr?
  let lines ← lines.toList.mapM (·.getStr?)
  match j.getObjVal? "op" with
  | .ok (Json.str "words") =>
    return Json.arr ((lines.map (fun l => ss (words l.toList))).toArray)
  | .ok (Json.str "expand") =>
    return valsJ (expand (lines.map (·.toList)))
  | .ok (Json.str "cards") =>
    let b := blocks limit (lines.map (·.toList))
    let cj (c : Card) : Json := Json.mkObj [("words", ss (words c.text)), ("dollar", ss c.dollar), ("ccomments", ss c.ccomments)]
    -- cell cards: `( ) : #` are words by themselves (geometry punctuation)
    let cg (c : Card) : Json := Json.mkObj [("words", ss (wordsAux true c.text [] [])), ("dollar", ss c.dollar), ("ccomments", ss c.ccomments)]
    return Json.mkObj [("message", ss b.message), ("title", s b.title),
      ("head", ss b.head), ("surf_head", ss b.surfHead), ("data_head", ss b.dataHead),
      ("cells", Json.arr (b.cells.map cg).toArray), ("surfaces", Json.arr (b.surfaces.map cj).toArray),
      ("data", Json.arr (b.data.map cj).toArray)]
  | .ok (Json.str "geomeq") =>
    -- lines[0] and lines[1]: two geometries as blank-separated words
    match lines with
    | [a, b] =>
      (match MontePyVerif.Spec.GeomEval.sameRegion (wordsAux true a.toList [] []) (wordsAux true b.toList [] []) with
       | some r => return toJson r
       | none => return Json.null)
    | _ => throw "geomeq needs two lines"
  | .ok (Json.str "number") =>
    return Json.arr ((lines.map (fun l => match parseNumber l.toList with | some q => qJ q | none => Json.null)).toArray)
  | _ => return probJ (denote limit (lines.map (·.toList)))

partial def loop (h : IO.FS.Stream) : IO Unit := do
  let line ← h.getLine
  if line.isEmpty then return ()
  let out := match Json.parse line with
    | .error e => Json.mkObj [("error", s!"json: {e}")]
    | .ok j => match handle j with
      | .ok r => r
      | .error e => Json.mkObj [("error", e)]
  IO.println out.compress
  loop h

def main : IO Unit := do loop (← IO.getStdin)
