import MontePyVerif.Spec.Card
/-! # Lemmas.Cfg — context-free derivability, for ANY production list that contains the required productions

`Der P A w`: the symbol `A` derives the sentential form `w` using productions of `P` (a symbol of a right-hand
side may also stand for itself, which is how terminals enter).  Everything below is proved for an arbitrary
production list `P` under an inclusion hypothesis `req… ⊆ P`; `Props/C12.lean` instantiates `P` with the
productions the translator extracted from the SLY parser classes, the inclusion being decided by the kernel.

The proofs are inductions over G's derivations (`Spec.Card.Geom`, `Entries`, lists of parameters …), with the
trailing padding carried as a parameter of the induction statement, because MontePy's grammar attaches padding to
the phrase on its LEFT while G puts gaps BETWEEN words.
-/
namespace MontePyVerif.Cfg
open MontePyVerif.Spec.Card

abbrev Prods := List (String × List String)

mutual
/-- `A ⇒* w` -/
inductive Der (P : Prods) : String → List String → Prop
  | rule {lhs : String} {rhs w : List String} : (lhs, rhs) ∈ P → DerL P rhs w → Der P lhs w
/-- a right-hand side derives the concatenation of what its symbols derive -/
inductive DerL (P : Prods) : List String → List String → Prop
  | nil : DerL P [] []
  | tok {s : String} {ss ws : List String} : DerL P ss ws → DerL P (s :: ss) (s :: ws)
  | nt {s : String} {ss w ws : List String} : Der P s w → DerL P ss ws → DerL P (s :: ss) (w ++ ws)
end

variable {P : Prods}

theorem Der.cast {A : String} {w w' : List String} (h : Der P A w) (e : w = w') : Der P A w' := e ▸ h

/-! ## padding -/

def reqPadding : Prods :=
  [("padding", ["SPACE"]), ("padding", ["DOLLAR_COMMENT"]), ("padding", ["COMMENT"]),
   ("padding", ["padding", "SPACE"]), ("padding", ["padding", "DOLLAR_COMMENT"]),
   ("padding", ["padding", "COMMENT"]), ("padding", ["padding", "&"])]

theorem pad_snoc (hP : reqPadding ⊆ P) : ∀ (rest : Gap) (w : List String),
    Der P "padding" w → Der P "padding" (w ++ Gap.cls rest) := by
  intro rest
  induction rest with
  | nil => intro w h; simpa [Gap.cls] using h
  | cons x xs ih =>
    intro w h
    have step : Der P "padding" (w ++ [x.cls]) := by
      cases x
      · exact (Der.rule (hP (by decide : ("padding", ["padding", "SPACE"]) ∈ reqPadding)) (.nt h (.tok .nil)))
      · exact (Der.rule (hP (by decide : ("padding", ["padding", "DOLLAR_COMMENT"]) ∈ reqPadding)) (.nt h (.tok .nil)))
      · exact (Der.rule (hP (by decide : ("padding", ["padding", "COMMENT"]) ∈ reqPadding)) (.nt h (.tok .nil)))
      · exact (Der.rule (hP (by decide : ("padding", ["padding", "&"]) ∈ reqPadding)) (.nt h (.tok .nil)))
    have := ih (w ++ [x.cls]) step
    simpa [Gap.cls, List.append_assoc] using this

/-- a non-empty legal gap is a `padding` -/
theorem pad_der (hP : reqPadding ⊆ P) (g : Gap) (hok : g.ok = true) (hne : g ≠ []) :
    Der P "padding" g.cls := by
  cases g with
  | nil => exact absurd rfl hne
  | cons x xs =>
    have base : Der P "padding" [x.cls] := by
      cases x
      · exact Der.rule (hP (by decide : ("padding", ["SPACE"]) ∈ reqPadding)) (.tok .nil)
      · exact Der.rule (hP (by decide : ("padding", ["DOLLAR_COMMENT"]) ∈ reqPadding)) (.tok .nil)
      · exact Der.rule (hP (by decide : ("padding", ["COMMENT"]) ∈ reqPadding)) (.tok .nil)
      · simp [Gap.ok] at hok
    have := pad_snoc hP xs [x.cls] base
    simpa [Gap.cls] using this

theorem req_split {g : Gap} (h : g.req = true) : g.ok = true ∧ g ≠ [] := by
  unfold Gap.req at h
  cases g with
  | nil => simp at h
  | cons x xs => simp at h; exact ⟨h, by simp⟩

/-- `X → t | t padding`: a token with an optional trailing gap -/
theorem phrase_der (hP : reqPadding ⊆ P) {X t : String} (h1 : (X, [t]) ∈ P) (h2 : (X, [t, "padding"]) ∈ P)
    (g : Gap) (hok : g.ok = true) : Der P X (t :: g.cls) := by
  by_cases hg : g = []
  · subst hg; exact Der.rule h1 (.tok .nil)
  · have hp := pad_der hP g hok hg
    exact (Der.rule h2 (.tok (.nt hp .nil))).cast (by simp)

/-- `X → Y | Y padding`: a phrase with an optional trailing gap -/
theorem wrap_der (hP : reqPadding ⊆ P) {X Y : String} (h1 : (X, [Y]) ∈ P) (h2 : (X, [Y, "padding"]) ∈ P)
    {w : List String} (hy : Der P Y w) (g : Gap) (hok : g.ok = true) : Der P X (w ++ g.cls) := by
  by_cases hg : g = []
  · subst hg; exact (Der.rule h1 (.nt hy .nil)).cast (by simp [Gap.cls])
  · have hp := pad_der hP g hok hg
    exact (Der.rule h2 (.nt hy (.nt hp .nil))).cast (by simp)

/-! ## cell geometry -/

def reqGeometry : Prods :=
  reqPadding ++
  [("union", [":"]), ("union", ["union", "padding"]),
   ("geometry_expr", ["geometry_term"]), ("geometry_expr", ["geometry_expr", "union", "geometry_term"]),
   ("geometry_term", ["geometry_factor"]), ("geometry_term", ["geometry_term", "padding"]),
   ("geometry_term", ["geometry_term", "geometry_factory"]),
   ("geometry_term", ["geometry_term", "padding", "geometry_factor"]),
   ("geometry_factor", ["COMPLEMENT", "geometry_factory"]), ("geometry_factor", ["geometry_factory"]),
   ("geometry_factory", ["(", "padding", "geometry_expr", ")"]), ("geometry_factory", ["(", "geometry_expr", ")"]),
   ("geometry_factory", ["NUMBER"])]

theorem reqPadding_sub_geometry : reqPadding ⊆ reqGeometry := by decide

section geometry
variable (hP : reqGeometry ⊆ P)
include hP

theorem union_der (g : Gap) (hok : g.ok = true) : Der P "union" (":" :: g.cls) := by
  have hpad : reqPadding ⊆ P := fun _ h => hP (reqPadding_sub_geometry h)
  have base : Der P "union" [":"] := Der.rule (hP (by decide : ("union", [":"]) ∈ reqGeometry)) (.tok .nil)
  by_cases hg : g = []
  · subst hg; exact base
  · have hp := pad_der hpad g hok hg
    exact (Der.rule (hP (by decide : ("union", ["union", "padding"]) ∈ reqGeometry)) (.nt base (.nt hp .nil))).cast
      (by simp)

theorem term_pad {w : List String} (h : Der P "geometry_term" w) (g : Gap) (hok : g.ok = true) :
    Der P "geometry_term" (w ++ g.cls) := by
  have hpad : reqPadding ⊆ P := fun _ h => hP (reqPadding_sub_geometry h)
  by_cases hg : g = []
  · subst hg; simpa [Gap.cls] using h
  · have hp := pad_der hpad g hok hg
    exact (Der.rule (hP (by decide : ("geometry_term", ["geometry_term", "padding"]) ∈ reqGeometry))
      (.nt h (.nt hp .nil))).cast (by simp)

theorem factor_of_factory {w : List String} (h : Der P "geometry_factory" w) : Der P "geometry_factor" w :=
  (Der.rule (hP (by decide : ("geometry_factor", ["geometry_factory"]) ∈ reqGeometry)) (.nt h .nil)).cast (by simp)

theorem term_of_factor {w : List String} (h : Der P "geometry_factor" w) : Der P "geometry_term" w :=
  (Der.rule (hP (by decide : ("geometry_term", ["geometry_factor"]) ∈ reqGeometry)) (.nt h .nil)).cast (by simp)

theorem expr_of_term {w : List String} (ht : Der P "geometry_term" w) : Der P "geometry_expr" w :=
  (Der.rule (hP (by decide : ("geometry_expr", ["geometry_term"]) ∈ reqGeometry)) (.nt ht .nil)).cast (by simp)

/-- the four-level induction over G's geometry: every well-formed `Geom` derives from the nonterminal of its
    level, with any trailing gap -/
theorem geom_der : ∀ e : Geom, e.WF = true →
    (e.isAtom = true → Der P "geometry_factory" e.classes) ∧
    (e.level = 0 → Der P "geometry_factor" e.classes) ∧
    (e.level ≤ 1 → ∀ pad : Gap, pad.ok = true → Der P "geometry_term" (e.classes ++ pad.cls)) ∧
    (∀ pad : Gap, pad.ok = true → Der P "geometry_expr" (e.classes ++ pad.cls)) := by
  have hpad : reqPadding ⊆ P := fun _ h => hP (reqPadding_sub_geometry h)
  intro e
  induction e with
  | surf t =>
    intro _
    have hf : Der P "geometry_factory" ["NUMBER"] :=
      Der.rule (hP (by decide : ("geometry_factory", ["NUMBER"]) ∈ reqGeometry)) (.tok .nil)
    have ht : ∀ pad : Gap, pad.ok = true → Der P "geometry_term" (["NUMBER"] ++ pad.cls) :=
      fun pad hp => term_pad hP (term_of_factor hP (factor_of_factory hP hf)) pad hp
    refine ⟨fun _ => hf, fun _ => factor_of_factory hP hf, fun _ => ht, fun pad hp => ?_⟩
    exact expr_of_term hP (ht pad hp)
  | paren g1 e g2 ih =>
    intro hwf
    simp [Geom.WF] at hwf
    obtain ⟨⟨h1, h2⟩, he⟩ := hwf
    have hexpr := (ih he).2.2.2 g2 h2
    have hf : Der P "geometry_factory" (Geom.paren g1 e g2).classes := by
      by_cases hg : g1 = []
      · subst hg
        exact (Der.rule (hP (by decide : ("geometry_factory", ["(", "geometry_expr", ")"]) ∈ reqGeometry))
          (.tok (.nt hexpr (.tok .nil)))).cast (by simp [Geom.classes, Gap.cls])
      · have hp := pad_der hpad g1 h1 hg
        exact (Der.rule (hP (by decide : ("geometry_factory", ["(", "padding", "geometry_expr", ")"]) ∈ reqGeometry))
          (.tok (.nt hp (.nt hexpr (.tok .nil))))).cast (by simp [Geom.classes])
    have ht : ∀ pad : Gap, pad.ok = true → Der P "geometry_term" ((Geom.paren g1 e g2).classes ++ pad.cls) :=
      fun pad hp => term_pad hP (term_of_factor hP (factor_of_factory hP hf)) pad hp
    exact ⟨fun _ => hf, fun _ => factor_of_factory hP hf, fun _ => ht,
      fun pad hp => expr_of_term hP (ht pad hp)⟩
  | compl e ih =>
    intro hwf
    simp [Geom.WF] at hwf
    obtain ⟨ha, he⟩ := hwf
    have hfy := (ih he).1 ha
    have hf : Der P "geometry_factor" (Geom.compl e).classes :=
      (Der.rule (hP (by decide : ("geometry_factor", ["COMPLEMENT", "geometry_factory"]) ∈ reqGeometry))
        (.tok (.nt hfy .nil))).cast (by simp [Geom.classes])
    have ht : ∀ pad : Gap, pad.ok = true → Der P "geometry_term" ((Geom.compl e).classes ++ pad.cls) :=
      fun pad hp => term_pad hP (term_of_factor hP hf) pad hp
    exact ⟨fun h => by simp [Geom.isAtom] at h, fun _ => hf, fun _ => ht,
      fun pad hp => expr_of_term hP (ht pad hp)⟩
  | inter l gap r ihl ihr =>
    intro hwf
    simp [Geom.WF] at hwf
    obtain ⟨⟨⟨⟨⟨hl, hr⟩, hll⟩, hrl⟩, hgok⟩, hsep⟩ := hwf
    have hterm : Der P "geometry_term" (Geom.inter l gap r).classes := by
      by_cases hg : gap = []
      · subst hg
        have hra : r.isAtom = true := by
          rcases hsep with h | h
          · simp at h
          · exact h.1
        have h1 := (ihl hl).2.2.1 hll [] (by decide)
        have h2 := (ihr hr).1 hra
        exact (Der.rule (hP (by decide : ("geometry_term", ["geometry_term", "geometry_factory"]) ∈ reqGeometry))
          (.nt h1 (.nt h2 .nil))).cast (by simp [Geom.classes, Gap.cls])
      · have h1 := (ihl hl).2.2.1 hll [] (by decide)
        have hp := pad_der hpad gap hgok hg
        have h2 := (ihr hr).2.1 hrl
        exact (Der.rule (hP (by decide : ("geometry_term", ["geometry_term", "padding", "geometry_factor"]) ∈ reqGeometry))
          (.nt h1 (.nt hp (.nt h2 .nil)))).cast (by simp [Geom.classes, Gap.cls])
    have ht : ∀ pad : Gap, pad.ok = true → Der P "geometry_term" ((Geom.inter l gap r).classes ++ pad.cls) :=
      fun pad hp => term_pad hP hterm pad hp
    exact ⟨fun h => by simp [Geom.isAtom] at h, fun h => by simp [Geom.level] at h, fun _ => ht,
      fun pad hp => expr_of_term hP (ht pad hp)⟩
  | union l g1 g2 r ihl ihr =>
    intro hwf
    simp [Geom.WF] at hwf
    obtain ⟨⟨⟨⟨hl, hr⟩, hrl⟩, h1⟩, h2⟩ := hwf
    refine ⟨fun h => by simp [Geom.isAtom] at h, fun h => by simp [Geom.level] at h,
      fun h => by simp [Geom.level] at h, fun pad hp => ?_⟩
    have hle := (ihl hl).2.2.2 g1 h1
    have hu := union_der hP g2 h2
    have hri := (ihr hr).2.2.1 hrl pad hp
    exact (Der.rule (hP (by decide : ("geometry_expr", ["geometry_expr", "union", "geometry_term"]) ∈ reqGeometry))
      (.nt hle (.nt hu (.nt hri .nil)))).cast (by simp [Geom.classes, List.append_assoc])

end geometry

/-! ## left-recursive lists:  X → Y | X Y  (Y may differ from element to element) -/

theorem leftrec_snoc {X : String} {α : Type} (cls : α → List String) :
    ∀ (l : List α) (w : List String), Der P X w →
      (∀ a ∈ l, ∃ Y, (X, [X, Y]) ∈ P ∧ Der P Y (cls a)) → Der P X (w ++ l.flatMap cls) := by
  intro l
  induction l with
  | nil => intro w h _; simpa using h
  | cons a as ih =>
    intro w h hall
    obtain ⟨Y, hr, hy⟩ := hall a (by simp)
    have step : Der P X (w ++ cls a) := (Der.rule hr (.nt h (.nt hy .nil))).cast (by simp)
    have := ih (w ++ cls a) step (fun b hb => hall b (by simp [hb]))
    simpa [List.append_assoc] using this

theorem leftrec {X : String} {α : Type} (cls : α → List String) (l : List α) (hne : l ≠ [])
    (hall : ∀ a ∈ l, ∃ Y, (X, [Y]) ∈ P ∧ (X, [X, Y]) ∈ P ∧ Der P Y (cls a)) : Der P X (l.flatMap cls) := by
  cases l with
  | nil => exact absurd rfl hne
  | cons a as =>
    obtain ⟨Y, h1, _, hy⟩ := hall a (by simp)
    have base : Der P X (cls a) := (Der.rule h1 (.nt hy .nil)).cast (by simp)
    have := leftrec_snoc cls as (cls a) base (fun b hb => by
      obtain ⟨Y, _, h2, hy⟩ := hall b (by simp [hb]); exact ⟨Y, h2, hy⟩)
    simpa using this

/-! ## numbers, jumps and shortcuts -/

def reqNumbers : Prods :=
  reqPadding ++
  [("number_phrase", ["NUMBER"]), ("number_phrase", ["NUMBER", "padding"]),
   ("null_phrase", ["NULL"]), ("null_phrase", ["NULL", "padding"]),
   ("numerical_phrase", ["number_phrase"]), ("numerical_phrase", ["null_phrase"]),
   ("shortcut_start", ["numerical_phrase"]),
   ("shortcut_sequence", ["shortcut_start", "NUM_REPEAT"]), ("shortcut_sequence", ["shortcut_start", "REPEAT"]),
   ("shortcut_sequence", ["shortcut_start", "NUM_MULTIPLY"]),
   ("shortcut_sequence", ["shortcut_start", "NUM_INTERPOLATE", "padding", "number_phrase"]),
   ("shortcut_sequence", ["shortcut_start", "INTERPOLATE", "padding", "number_phrase"]),
   ("shortcut_sequence", ["shortcut_start", "NUM_LOG_INTERPOLATE", "padding", "number_phrase"]),
   ("shortcut_sequence", ["shortcut_start", "LOG_INTERPOLATE", "padding", "number_phrase"]),
   ("shortcut_sequence", ["NUM_JUMP"]), ("shortcut_sequence", ["JUMP"]),
   ("shortcut_phrase", ["shortcut_sequence"]), ("shortcut_phrase", ["shortcut_sequence", "padding"]),
   ("number_sequence", ["numerical_phrase"]), ("number_sequence", ["shortcut_phrase"]),
   ("number_sequence", ["number_sequence", "numerical_phrase"]),
   ("number_sequence", ["number_sequence", "shortcut_phrase"])]

theorem reqPadding_sub_numbers : reqPadding ⊆ reqNumbers := by decide

section numbers
variable (hP : reqNumbers ⊆ P)
include hP

theorem number_phrase_der (g : Gap) (hok : g.ok = true) : Der P "number_phrase" ("NUMBER" :: g.cls) :=
  phrase_der (fun _ h => hP (reqPadding_sub_numbers h)) (hP (by decide)) (hP (by decide)) g hok

theorem numerical_phrase_der (n : Num) (g : Gap) (hok : g.ok = true) :
    Der P "numerical_phrase" (n.cls :: g.cls) := by
  have hpad : reqPadding ⊆ P := fun _ h => hP (reqPadding_sub_numbers h)
  by_cases hz : n.zero = true
  · have h : Der P "null_phrase" ("NULL" :: g.cls) := phrase_der hpad (hP (by decide)) (hP (by decide)) g hok
    exact (Der.rule (hP (by decide : ("numerical_phrase", ["null_phrase"]) ∈ reqNumbers)) (.nt h .nil)).cast
      (by simp [Num.cls, hz])
  · have h := number_phrase_der hP g hok
    exact (Der.rule (hP (by decide : ("numerical_phrase", ["number_phrase"]) ∈ reqNumbers)) (.nt h .nil)).cast
      (by simp [Num.cls, hz])

theorem shortcut_start_der (n : Num) (g : Gap) (hok : g.ok = true) : Der P "shortcut_start" (n.cls :: g.cls) :=
  (Der.rule (hP (by decide : ("shortcut_start", ["numerical_phrase"]) ∈ reqNumbers))
    (.nt (numerical_phrase_der hP n g hok) .nil)).cast (by simp)

theorem shortcut_phrase_of_seq {w : List String} (h : Der P "shortcut_sequence" w) (g : Gap) (hok : g.ok = true) :
    Der P "shortcut_phrase" (w ++ g.cls) :=
  wrap_der (fun _ h => hP (reqPadding_sub_numbers h)) (hP (by decide)) (hP (by decide)) h g hok

/-- one entry with its trailing gap is a `numerical_phrase` or a `shortcut_phrase` -/
theorem entry_der (e : Entry) (g : Gap) (hwf : e.WF = true) (hnz : e.interpEndNonzero = true) (hok : g.ok = true) :
    Der P "numerical_phrase" (e.classes ++ g.cls) ∨ Der P "shortcut_phrase" (e.classes ++ g.cls) := by
  have hpad : reqPadding ⊆ P := fun _ h => hP (reqPadding_sub_numbers h)
  cases e with
  | real n => exact .inl ((numerical_phrase_der hP n g hok).cast (by simp [Entry.classes]))
  | jump t c =>
    refine .inr ?_
    cases c
    · exact (shortcut_phrase_of_seq hP (Der.rule (hP (by decide : ("shortcut_sequence", ["JUMP"]) ∈ reqNumbers))
        (.tok .nil)) g hok).cast (by simp [Entry.classes])
    · exact (shortcut_phrase_of_seq hP (Der.rule (hP (by decide : ("shortcut_sequence", ["NUM_JUMP"]) ∈ reqNumbers))
        (.tok .nil)) g hok).cast (by simp [Entry.classes])
  | rep n gap t c =>
    refine .inr ?_
    have hg := (req_split (by simpa [Entry.WF] using hwf : gap.req = true)).1
    have hs := shortcut_start_der hP n gap hg
    cases c
    · exact (shortcut_phrase_of_seq hP (Der.rule (hP (by decide : ("shortcut_sequence", ["shortcut_start", "REPEAT"]) ∈ reqNumbers))
        (.nt hs (.tok .nil))) g hok).cast (by simp [Entry.classes])
    · exact (shortcut_phrase_of_seq hP (Der.rule (hP (by decide : ("shortcut_sequence", ["shortcut_start", "NUM_REPEAT"]) ∈ reqNumbers))
        (.nt hs (.tok .nil))) g hok).cast (by simp [Entry.classes])
  | mul n gap t =>
    refine .inr ?_
    have hg := (req_split (by simpa [Entry.WF] using hwf : gap.req = true)).1
    have hs := shortcut_start_der hP n gap hg
    exact (shortcut_phrase_of_seq hP (Der.rule (hP (by decide : ("shortcut_sequence", ["shortcut_start", "NUM_MULTIPLY"]) ∈ reqNumbers))
      (.nt hs (.tok .nil))) g hok).cast (by simp [Entry.classes])
  | interp a g1 t c lg g2 b =>
    refine .inr ?_
    simp [Entry.WF] at hwf
    have hg1 := (req_split hwf.1).1
    obtain ⟨hg2, hg2ne⟩ := req_split hwf.2
    have hbz : b.zero = false := by simpa [Entry.interpEndNonzero] using hnz
    have hs := shortcut_start_der hP a g1 hg1
    have hp := pad_der hpad g2 hg2 hg2ne
    have hb : Der P "number_phrase" ["NUMBER"] := number_phrase_der hP [] (by decide)
    cases c <;> cases lg
    · exact (shortcut_phrase_of_seq hP (Der.rule (hP (by decide :
        ("shortcut_sequence", ["shortcut_start", "INTERPOLATE", "padding", "number_phrase"]) ∈ reqNumbers))
        (.nt hs (.tok (.nt hp (.nt hb .nil))))) g hok).cast (by simp [Entry.classes, Num.cls, hbz])
    · exact (shortcut_phrase_of_seq hP (Der.rule (hP (by decide :
        ("shortcut_sequence", ["shortcut_start", "LOG_INTERPOLATE", "padding", "number_phrase"]) ∈ reqNumbers))
        (.nt hs (.tok (.nt hp (.nt hb .nil))))) g hok).cast (by simp [Entry.classes, Num.cls, hbz])
    · exact (shortcut_phrase_of_seq hP (Der.rule (hP (by decide :
        ("shortcut_sequence", ["shortcut_start", "NUM_INTERPOLATE", "padding", "number_phrase"]) ∈ reqNumbers))
        (.nt hs (.tok (.nt hp (.nt hb .nil))))) g hok).cast (by simp [Entry.classes, Num.cls, hbz])
    · exact (shortcut_phrase_of_seq hP (Der.rule (hP (by decide :
        ("shortcut_sequence", ["shortcut_start", "NUM_LOG_INTERPOLATE", "padding", "number_phrase"]) ∈ reqNumbers))
        (.nt hs (.tok (.nt hp (.nt hb .nil))))) g hok).cast (by simp [Entry.classes, Num.cls, hbz])

theorem entries_elem (es : Entries) (hwf : es.WF = true) (hnz : es.interpEndNonzero = true) :
    ∀ eg ∈ es, ∃ Y, ("number_sequence", [Y]) ∈ P ∧ ("number_sequence", ["number_sequence", Y]) ∈ P ∧
      Der P Y (eg.1.classes ++ eg.2.cls) := by
  intro eg hmem
  have h1 : eg.1.WF = true ∧ eg.2.ok = true := by
    have := (List.all_eq_true.mp hwf) eg hmem
    simpa using this
  have h2 : eg.1.interpEndNonzero = true := (List.all_eq_true.mp hnz) eg hmem
  rcases entry_der hP eg.1 eg.2 h1.1 h2 h1.2 with h | h
  · exact ⟨"numerical_phrase", hP (by decide), hP (by decide), h⟩
  · exact ⟨"shortcut_phrase", hP (by decide), hP (by decide), h⟩

/-- a non-empty sequence of entries is a `number_sequence` -/
theorem entries_der (es : Entries) (hne : es ≠ []) (hwf : es.WF = true) (hnz : es.interpEndNonzero = true) :
    Der P "number_sequence" es.classes :=
  leftrec (fun eg : Entry × Gap => eg.1.classes ++ eg.2.cls) es hne (entries_elem hP es hwf hnz)

/-- … and extends any `number_sequence` on its left -/
theorem entries_snoc (es : Entries) (hwf : es.WF = true) (hnz : es.interpEndNonzero = true) {w : List String}
    (h : Der P "number_sequence" w) : Der P "number_sequence" (w ++ es.classes) :=
  leftrec_snoc (fun eg : Entry × Gap => eg.1.classes ++ eg.2.cls) es w h (fun eg hm => by
    obtain ⟨Y, _, h2, hy⟩ := entries_elem hP es hwf hnz eg hm; exact ⟨Y, h2, hy⟩)

end numbers

end MontePyVerif.Cfg
