import MontePyVerif.Spec.Card
/-! # Lemmas.Cfg — context-free derivability, for ANY production list that contains the required productions

`Der P A w`: the symbol `A` derives the sentential form `w` using productions of `P` (a symbol of a right-hand
side may also stand for itself, which is how terminals enter).  Everything below is proved for an arbitrary
production list `P` under an inclusion hypothesis `req… ⊆ P`; `Props/C12.lean` instantiates `P` with the
productions the translator extracted from the SLY parser classes, the inclusion being decided by the kernel.

The proofs are inductions over G's derivations (`Spec.Card.Geom`, `Entries`, lists of parameters …), with the
trailing padding carried as a parameter of the induction statement, because MontePy's grammar attaches padding to
the phrase on its LEFT while G puts gaps BETWEEN words.
-/
namespace MontePyVerif.Cfg
open MontePyVerif.Spec.Card

abbrev Prods := List (String × List String)

mutual
/-- `A ⇒* w` -/
inductive Der (P : Prods) : String → List String → Prop
  | rule {lhs : String} {rhs w : List String} : (lhs, rhs) ∈ P → DerL P rhs w → Der P lhs w
/-- a right-hand side derives the concatenation of what its symbols derive -/
inductive DerL (P : Prods) : List String → List String → Prop
  | nil : DerL P [] []
  | tok {s : String} {ss ws : List String} : DerL P ss ws → DerL P (s :: ss) (s :: ws)
  | nt {s : String} {ss w ws : List String} : Der P s w → DerL P ss ws → DerL P (s :: ss) (w ++ ws)
end

variable {P : Prods}

theorem Der.cast {A : String} {w w' : List String} (h : Der P A w) (e : w = w') : Der P A w' := e ▸ h

/-! ## padding -/

def reqPadding : Prods :=
  [("padding", ["SPACE"]), ("padding", ["DOLLAR_COMMENT"]), ("padding", ["COMMENT"]),
   ("padding", ["padding", "SPACE"]), ("padding", ["padding", "DOLLAR_COMMENT"]),
   ("padding", ["padding", "COMMENT"]), ("padding", ["padding", "&"])]

theorem pad_snoc (hP : reqPadding ⊆ P) : ∀ (rest : Gap) (w : List String),
    Der P "padding" w → Der P "padding" (w ++ Gap.cls rest) := by
  intro rest
  induction rest with
  | nil => intro w h; simpa [Gap.cls] using h
  | cons x xs ih =>
    intro w h
    have step : Der P "padding" (w ++ [x.cls]) := by
      cases x
      · exact (Der.rule (hP (by decide : ("padding", ["padding", "SPACE"]) ∈ reqPadding)) (.nt h (.tok .nil)))
      · exact (Der.rule (hP (by decide : ("padding", ["padding", "DOLLAR_COMMENT"]) ∈ reqPadding)) (.nt h (.tok .nil)))
      · exact (Der.rule (hP (by decide : ("padding", ["padding", "COMMENT"]) ∈ reqPadding)) (.nt h (.tok .nil)))
      · exact (Der.rule (hP (by decide : ("padding", ["padding", "&"]) ∈ reqPadding)) (.nt h (.tok .nil)))
    have := ih (w ++ [x.cls]) step
    simpa [Gap.cls, List.append_assoc] using this

/-- a non-empty legal gap is a `padding` -/
theorem pad_der (hP : reqPadding ⊆ P) (g : Gap) (hok : g.ok = true) (hne : g ≠ []) :
    Der P "padding" g.cls := by
  cases g with
  | nil => exact absurd rfl hne
  | cons x xs =>
    have base : Der P "padding" [x.cls] := by
      cases x
      · exact Der.rule (hP (by decide : ("padding", ["SPACE"]) ∈ reqPadding)) (.tok .nil)
      · exact Der.rule (hP (by decide : ("padding", ["DOLLAR_COMMENT"]) ∈ reqPadding)) (.tok .nil)
      · exact Der.rule (hP (by decide : ("padding", ["COMMENT"]) ∈ reqPadding)) (.tok .nil)
      · simp [Gap.ok] at hok
    have := pad_snoc hP xs [x.cls] base
    simpa [Gap.cls] using this

theorem req_split {g : Gap} (h : g.req = true) : g.ok = true ∧ g ≠ [] := by
  unfold Gap.req at h
  cases g with
  | nil => simp at h
  | cons x xs => simp at h; exact ⟨h, by simp⟩

/-- `X → t | t padding`: a token with an optional trailing gap -/
theorem phrase_der (hP : reqPadding ⊆ P) {X t : String} (h1 : (X, [t]) ∈ P) (h2 : (X, [t, "padding"]) ∈ P)
    (g : Gap) (hok : g.ok = true) : Der P X (t :: g.cls) := by
  by_cases hg : g = []
  · subst hg; exact Der.rule h1 (.tok .nil)
  · have hp := pad_der hP g hok hg
    exact (Der.rule h2 (.tok (.nt hp .nil))).cast (by simp)

/-- `X → Y | Y padding`: a phrase with an optional trailing gap -/
theorem wrap_der (hP : reqPadding ⊆ P) {X Y : String} (h1 : (X, [Y]) ∈ P) (h2 : (X, [Y, "padding"]) ∈ P)
    {w : List String} (hy : Der P Y w) (g : Gap) (hok : g.ok = true) : Der P X (w ++ g.cls) := by
  by_cases hg : g = []
  · subst hg; exact (Der.rule h1 (.nt hy .nil)).cast (by simp [Gap.cls])
  · have hp := pad_der hP g hok hg
    exact (Der.rule h2 (.nt hy (.nt hp .nil))).cast (by simp)

/-! ## cell geometry -/

def reqGeometry : Prods :=
  reqPadding ++
  [("union", [":"]), ("union", ["union", "padding"]),
   ("geometry_expr", ["geometry_term"]), ("geometry_expr", ["geometry_expr", "union", "geometry_term"]),
   ("geometry_term", ["geometry_factor"]), ("geometry_term", ["geometry_term", "padding"]),
   ("geometry_term", ["geometry_term", "geometry_factory"]),
   ("geometry_term", ["geometry_term", "COMPLEMENT", "geometry_factory"]),
   ("geometry_term", ["geometry_term", "padding", "geometry_factor"]),
   ("geometry_factor", ["COMPLEMENT", "geometry_factory"]), ("geometry_factor", ["geometry_factory"]),
   ("geometry_factory", ["(", "padding", "geometry_expr", ")"]), ("geometry_factory", ["(", "geometry_expr", ")"]),
   ("geometry_factory", ["NUMBER"])]

theorem reqPadding_sub_geometry : reqPadding ⊆ reqGeometry := by decide

section geometry
variable (hP : reqGeometry ⊆ P)
include hP

theorem union_der (g : Gap) (hok : g.ok = true) : Der P "union" (":" :: g.cls) := by
  have hpad : reqPadding ⊆ P := fun _ h => hP (reqPadding_sub_geometry h)
  have base : Der P "union" [":"] := Der.rule (hP (by decide : ("union", [":"]) ∈ reqGeometry)) (.tok .nil)
  by_cases hg : g = []
  · subst hg; exact base
  · have hp := pad_der hpad g hok hg
    exact (Der.rule (hP (by decide : ("union", ["union", "padding"]) ∈ reqGeometry)) (.nt base (.nt hp .nil))).cast
      (by simp)

theorem term_pad {w : List String} (h : Der P "geometry_term" w) (g : Gap) (hok : g.ok = true) :
    Der P "geometry_term" (w ++ g.cls) := by
  have hpad : reqPadding ⊆ P := fun _ h => hP (reqPadding_sub_geometry h)
  by_cases hg : g = []
  · subst hg; simpa [Gap.cls] using h
  · have hp := pad_der hpad g hok hg
    exact (Der.rule (hP (by decide : ("geometry_term", ["geometry_term", "padding"]) ∈ reqGeometry))
      (.nt h (.nt hp .nil))).cast (by simp)

theorem factor_of_factory {w : List String} (h : Der P "geometry_factory" w) : Der P "geometry_factor" w :=
  (Der.rule (hP (by decide : ("geometry_factor", ["geometry_factory"]) ∈ reqGeometry)) (.nt h .nil)).cast (by simp)

theorem term_of_factor {w : List String} (h : Der P "geometry_factor" w) : Der P "geometry_term" w :=
  (Der.rule (hP (by decide : ("geometry_term", ["geometry_factor"]) ∈ reqGeometry)) (.nt h .nil)).cast (by simp)

theorem expr_of_term {w : List String} (ht : Der P "geometry_term" w) : Der P "geometry_expr" w :=
  (Der.rule (hP (by decide : ("geometry_expr", ["geometry_term"]) ∈ reqGeometry)) (.nt ht .nil)).cast (by simp)

/-- the four-level induction over G's geometry: every well-formed `Geom` derives from the nonterminal of its
    level, with any trailing gap -/
theorem geom_der : ∀ e : Geom, e.WF = true →
    (e.isAtom = true → Der P "geometry_factory" e.classes) ∧
    (∀ e' : Geom, e = Geom.compl e' → Der P "geometry_factory" e'.classes) ∧
    (e.level = 0 → Der P "geometry_factor" e.classes) ∧
    (e.level ≤ 1 → ∀ pad : Gap, pad.ok = true → Der P "geometry_term" (e.classes ++ pad.cls)) ∧
    (∀ pad : Gap, pad.ok = true → Der P "geometry_expr" (e.classes ++ pad.cls)) := by
  have hpad : reqPadding ⊆ P := fun _ h => hP (reqPadding_sub_geometry h)
  intro e
  induction e with
  | surf t =>
    intro _
    have hf : Der P "geometry_factory" ["NUMBER"] :=
      Der.rule (hP (by decide : ("geometry_factory", ["NUMBER"]) ∈ reqGeometry)) (.tok .nil)
    have ht : ∀ pad : Gap, pad.ok = true → Der P "geometry_term" (["NUMBER"] ++ pad.cls) :=
      fun pad hp => term_pad hP (term_of_factor hP (factor_of_factory hP hf)) pad hp
    refine ⟨fun _ => hf, (fun e' h => by cases h), fun _ => factor_of_factory hP hf, fun _ => ht, fun pad hp => ?_⟩
    exact expr_of_term hP (ht pad hp)
  | paren g1 e g2 ih =>
    intro hwf
    simp [Geom.WF] at hwf
    obtain ⟨⟨h1, h2⟩, he⟩ := hwf
    have hexpr := (ih he).2.2.2.2 g2 h2
    have hf : Der P "geometry_factory" (Geom.paren g1 e g2).classes := by
      by_cases hg : g1 = []
      · subst hg
        exact (Der.rule (hP (by decide : ("geometry_factory", ["(", "geometry_expr", ")"]) ∈ reqGeometry))
          (.tok (.nt hexpr (.tok .nil)))).cast (by simp [Geom.classes, Gap.cls])
      · have hp := pad_der hpad g1 h1 hg
        exact (Der.rule (hP (by decide : ("geometry_factory", ["(", "padding", "geometry_expr", ")"]) ∈ reqGeometry))
          (.tok (.nt hp (.nt hexpr (.tok .nil))))).cast (by simp [Geom.classes])
    have ht : ∀ pad : Gap, pad.ok = true → Der P "geometry_term" ((Geom.paren g1 e g2).classes ++ pad.cls) :=
      fun pad hp => term_pad hP (term_of_factor hP (factor_of_factory hP hf)) pad hp
    exact ⟨fun _ => hf, (fun e' h => by cases h), fun _ => factor_of_factory hP hf, fun _ => ht,
      fun pad hp => expr_of_term hP (ht pad hp)⟩
  | compl e ih =>
    intro hwf
    simp [Geom.WF] at hwf
    obtain ⟨ha, he⟩ := hwf
    have hfy := (ih he).1 ha
    have hf : Der P "geometry_factor" (Geom.compl e).classes :=
      (Der.rule (hP (by decide : ("geometry_factor", ["COMPLEMENT", "geometry_factory"]) ∈ reqGeometry))
        (.tok (.nt hfy .nil))).cast (by simp [Geom.classes])
    have ht : ∀ pad : Gap, pad.ok = true → Der P "geometry_term" ((Geom.compl e).classes ++ pad.cls) :=
      fun pad hp => term_pad hP (term_of_factor hP hf) pad hp
    exact ⟨(fun h => by simp [Geom.isAtom] at h), (fun e' h => by cases h; exact hfy), fun _ => hf, fun _ => ht,
      fun pad hp => expr_of_term hP (ht pad hp)⟩
  | inter l gap r ihl ihr =>
    intro hwf
    simp [Geom.WF] at hwf
    obtain ⟨⟨⟨⟨⟨hl, hr⟩, hll⟩, hrl⟩, hgok⟩, hsep⟩ := hwf
    have hterm : Der P "geometry_term" (Geom.inter l gap r).classes := by
      have h1 := (ihl hl).2.2.2.1 hll [] (by decide)
      by_cases hg : gap = []
      · subst hg
        have hcases : r.isAtom = true ∨ r.isCompl = true := by
          rcases hsep with (h | h) | h
          · simp at h
          · exact .inl h.1
          · exact .inr h.1
        rcases hcases with hra | hrc
        · have h2 := (ihr hr).1 hra
          exact (Der.rule (hP (by decide : ("geometry_term", ["geometry_term", "geometry_factory"]) ∈ reqGeometry))
            (.nt h1 (.nt h2 .nil))).cast (by simp [Geom.classes, Gap.cls])
        · cases r with
          | compl e' =>
            have h2 := (ihr hr).2.1 e' rfl
            exact (Der.rule (hP (by decide :
              ("geometry_term", ["geometry_term", "COMPLEMENT", "geometry_factory"]) ∈ reqGeometry))
              (.nt h1 (.tok (.nt h2 .nil)))).cast (by simp [Geom.classes, Gap.cls])
          | surf _ => simp [Geom.isCompl] at hrc
          | paren _ _ _ => simp [Geom.isCompl] at hrc
          | inter _ _ _ => simp [Geom.isCompl] at hrc
          | union _ _ _ _ => simp [Geom.isCompl] at hrc
      · have hp := pad_der hpad gap hgok hg
        have h2 := (ihr hr).2.2.1 hrl
        exact (Der.rule (hP (by decide : ("geometry_term", ["geometry_term", "padding", "geometry_factor"]) ∈ reqGeometry))
          (.nt h1 (.nt hp (.nt h2 .nil)))).cast (by simp [Geom.classes, Gap.cls])
    have ht : ∀ pad : Gap, pad.ok = true → Der P "geometry_term" ((Geom.inter l gap r).classes ++ pad.cls) :=
      fun pad hp => term_pad hP hterm pad hp
    exact ⟨(fun h => by simp [Geom.isAtom] at h), (fun e' h => by cases h), (fun h => by simp [Geom.level] at h),
      fun _ => ht, fun pad hp => expr_of_term hP (ht pad hp)⟩
  | union l g1 g2 r ihl ihr =>
    intro hwf
    simp [Geom.WF] at hwf
    obtain ⟨⟨⟨⟨hl, hr⟩, hrl⟩, h1⟩, h2⟩ := hwf
    refine ⟨(fun h => by simp [Geom.isAtom] at h), (fun e' h => by cases h), (fun h => by simp [Geom.level] at h),
      (fun h => by simp [Geom.level] at h), fun pad hp => ?_⟩
    have hle := (ihl hl).2.2.2.2 g1 h1
    have hu := union_der hP g2 h2
    have hri := (ihr hr).2.2.2.1 hrl pad hp
    exact (Der.rule (hP (by decide : ("geometry_expr", ["geometry_expr", "union", "geometry_term"]) ∈ reqGeometry))
      (.nt hle (.nt hu (.nt hri .nil)))).cast (by simp [Geom.classes, List.append_assoc])

end geometry

/-! ## left-recursive lists:  X → Y | X Y  (Y may differ from element to element) -/

theorem leftrec_snoc {X : String} {α : Type} (cls : α → List String) :
    ∀ (l : List α) (w : List String), Der P X w →
      (∀ a ∈ l, ∃ Y, (X, [X, Y]) ∈ P ∧ Der P Y (cls a)) → Der P X (w ++ l.flatMap cls) := by
  intro l
  induction l with
  | nil => intro w h _; simpa using h
  | cons a as ih =>
    intro w h hall
    obtain ⟨Y, hr, hy⟩ := hall a (by simp)
    have step : Der P X (w ++ cls a) := (Der.rule hr (.nt h (.nt hy .nil))).cast (by simp)
    have := ih (w ++ cls a) step (fun b hb => hall b (by simp [hb]))
    simpa [List.append_assoc] using this

theorem leftrec {X : String} {α : Type} (cls : α → List String) (l : List α) (hne : l ≠ [])
    (hall : ∀ a ∈ l, ∃ Y, (X, [Y]) ∈ P ∧ (X, [X, Y]) ∈ P ∧ Der P Y (cls a)) : Der P X (l.flatMap cls) := by
  cases l with
  | nil => exact absurd rfl hne
  | cons a as =>
    obtain ⟨Y, h1, _, hy⟩ := hall a (by simp)
    have base : Der P X (cls a) := (Der.rule h1 (.nt hy .nil)).cast (by simp)
    have := leftrec_snoc cls as (cls a) base (fun b hb => by
      obtain ⟨Y, _, h2, hy⟩ := hall b (by simp [hb]); exact ⟨Y, h2, hy⟩)
    simpa using this

/-! ## numbers, jumps and shortcuts -/

def reqNumbers : Prods :=
  reqPadding ++
  [("number_phrase", ["NUMBER"]), ("number_phrase", ["NUMBER", "padding"]),
   ("null_phrase", ["NULL"]), ("null_phrase", ["NULL", "padding"]),
   ("numerical_phrase", ["number_phrase"]), ("numerical_phrase", ["null_phrase"]),
   ("shortcut_start", ["numerical_phrase"]),
   ("shortcut_sequence", ["shortcut_start", "NUM_REPEAT"]), ("shortcut_sequence", ["shortcut_start", "REPEAT"]),
   ("shortcut_sequence", ["shortcut_start", "NUM_MULTIPLY"]),
   ("shortcut_sequence", ["shortcut_start", "NUM_INTERPOLATE", "padding", "numerical_phrase"]),
   ("shortcut_sequence", ["shortcut_start", "INTERPOLATE", "padding", "numerical_phrase"]),
   ("shortcut_sequence", ["shortcut_start", "NUM_LOG_INTERPOLATE", "padding", "numerical_phrase"]),
   ("shortcut_sequence", ["shortcut_start", "LOG_INTERPOLATE", "padding", "numerical_phrase"]),
   ("shortcut_sequence", ["NUM_JUMP"]), ("shortcut_sequence", ["JUMP"]),
   ("shortcut_phrase", ["shortcut_sequence"]), ("shortcut_phrase", ["shortcut_sequence", "padding"]),
   ("number_sequence", ["numerical_phrase"]), ("number_sequence", ["shortcut_phrase"]),
   ("number_sequence", ["number_sequence", "numerical_phrase"]),
   ("number_sequence", ["number_sequence", "shortcut_phrase"])]

theorem reqPadding_sub_numbers : reqPadding ⊆ reqNumbers := by decide

section numbers
variable (hP : reqNumbers ⊆ P)
include hP

theorem number_phrase_der (g : Gap) (hok : g.ok = true) : Der P "number_phrase" ("NUMBER" :: g.cls) :=
  phrase_der (fun _ h => hP (reqPadding_sub_numbers h)) (hP (by decide)) (hP (by decide)) g hok

theorem numerical_phrase_der (n : Num) (g : Gap) (hok : g.ok = true) :
    Der P "numerical_phrase" (n.cls :: g.cls) := by
  have hpad : reqPadding ⊆ P := fun _ h => hP (reqPadding_sub_numbers h)
  by_cases hz : n.zero = true
  · have h : Der P "null_phrase" ("NULL" :: g.cls) := phrase_der hpad (hP (by decide)) (hP (by decide)) g hok
    exact (Der.rule (hP (by decide : ("numerical_phrase", ["null_phrase"]) ∈ reqNumbers)) (.nt h .nil)).cast
      (by simp [Num.cls, hz])
  · have h := number_phrase_der hP g hok
    exact (Der.rule (hP (by decide : ("numerical_phrase", ["number_phrase"]) ∈ reqNumbers)) (.nt h .nil)).cast
      (by simp [Num.cls, hz])

theorem shortcut_start_der (n : Num) (g : Gap) (hok : g.ok = true) : Der P "shortcut_start" (n.cls :: g.cls) :=
  (Der.rule (hP (by decide : ("shortcut_start", ["numerical_phrase"]) ∈ reqNumbers))
    (.nt (numerical_phrase_der hP n g hok) .nil)).cast (by simp)

theorem shortcut_phrase_of_seq {w : List String} (h : Der P "shortcut_sequence" w) (g : Gap) (hok : g.ok = true) :
    Der P "shortcut_phrase" (w ++ g.cls) :=
  wrap_der (fun _ h => hP (reqPadding_sub_numbers h)) (hP (by decide)) (hP (by decide)) h g hok

/-- one entry with its trailing gap is a `numerical_phrase` or a `shortcut_phrase` -/
theorem entry_der (e : Entry) (g : Gap) (hwf : e.WF = true) (hok : g.ok = true) :
    Der P "numerical_phrase" (e.classes ++ g.cls) ∨ Der P "shortcut_phrase" (e.classes ++ g.cls) := by
  have hpad : reqPadding ⊆ P := fun _ h => hP (reqPadding_sub_numbers h)
  cases e with
  | real n => exact .inl ((numerical_phrase_der hP n g hok).cast (by simp [Entry.classes]))
  | jump t c =>
    refine .inr ?_
    cases c
    · exact (shortcut_phrase_of_seq hP (Der.rule (hP (by decide : ("shortcut_sequence", ["JUMP"]) ∈ reqNumbers))
        (.tok .nil)) g hok).cast (by simp [Entry.classes])
    · exact (shortcut_phrase_of_seq hP (Der.rule (hP (by decide : ("shortcut_sequence", ["NUM_JUMP"]) ∈ reqNumbers))
        (.tok .nil)) g hok).cast (by simp [Entry.classes])
  | rep n gap t c =>
    refine .inr ?_
    have hg := (req_split (by simpa [Entry.WF] using hwf : gap.req = true)).1
    have hs := shortcut_start_der hP n gap hg
    cases c
    · exact (shortcut_phrase_of_seq hP (Der.rule (hP (by decide : ("shortcut_sequence", ["shortcut_start", "REPEAT"]) ∈ reqNumbers))
        (.nt hs (.tok .nil))) g hok).cast (by simp [Entry.classes])
    · exact (shortcut_phrase_of_seq hP (Der.rule (hP (by decide : ("shortcut_sequence", ["shortcut_start", "NUM_REPEAT"]) ∈ reqNumbers))
        (.nt hs (.tok .nil))) g hok).cast (by simp [Entry.classes])
  | mul n gap t =>
    refine .inr ?_
    have hg := (req_split (by simpa [Entry.WF] using hwf : gap.req = true)).1
    have hs := shortcut_start_der hP n gap hg
    exact (shortcut_phrase_of_seq hP (Der.rule (hP (by decide : ("shortcut_sequence", ["shortcut_start", "NUM_MULTIPLY"]) ∈ reqNumbers))
      (.nt hs (.tok .nil))) g hok).cast (by simp [Entry.classes])
  | interp a g1 t c lg g2 b =>
    refine .inr ?_
    simp [Entry.WF] at hwf
    have hg1 := (req_split hwf.1).1
    obtain ⟨hg2, hg2ne⟩ := req_split hwf.2
    have hs := shortcut_start_der hP a g1 hg1
    have hp := pad_der hpad g2 hg2 hg2ne
    have hb : Der P "numerical_phrase" [b.cls] := numerical_phrase_der hP b [] (by decide)
    cases c <;> cases lg
    · exact (shortcut_phrase_of_seq hP (Der.rule (hP (by decide :
        ("shortcut_sequence", ["shortcut_start", "INTERPOLATE", "padding", "numerical_phrase"]) ∈ reqNumbers))
        (.nt hs (.tok (.nt hp (.nt hb .nil))))) g hok).cast (by simp [Entry.classes, Gap.cls])
    · exact (shortcut_phrase_of_seq hP (Der.rule (hP (by decide :
        ("shortcut_sequence", ["shortcut_start", "LOG_INTERPOLATE", "padding", "numerical_phrase"]) ∈ reqNumbers))
        (.nt hs (.tok (.nt hp (.nt hb .nil))))) g hok).cast (by simp [Entry.classes, Gap.cls])
    · exact (shortcut_phrase_of_seq hP (Der.rule (hP (by decide :
        ("shortcut_sequence", ["shortcut_start", "NUM_INTERPOLATE", "padding", "numerical_phrase"]) ∈ reqNumbers))
        (.nt hs (.tok (.nt hp (.nt hb .nil))))) g hok).cast (by simp [Entry.classes, Gap.cls])
    · exact (shortcut_phrase_of_seq hP (Der.rule (hP (by decide :
        ("shortcut_sequence", ["shortcut_start", "NUM_LOG_INTERPOLATE", "padding", "numerical_phrase"]) ∈ reqNumbers))
        (.nt hs (.tok (.nt hp (.nt hb .nil))))) g hok).cast (by simp [Entry.classes, Gap.cls])

theorem entries_elem (es : Entries) (hwf : es.WF = true) :
    ∀ eg ∈ es, ∃ Y, ("number_sequence", [Y]) ∈ P ∧ ("number_sequence", ["number_sequence", Y]) ∈ P ∧
      Der P Y (eg.1.classes ++ eg.2.cls) := by
  intro eg hmem
  have h1 : eg.1.WF = true ∧ eg.2.ok = true := by
    have := (List.all_eq_true.mp hwf) eg hmem
    simpa using this
  rcases entry_der hP eg.1 eg.2 h1.1 h1.2 with h | h
  · exact ⟨"numerical_phrase", hP (by decide), hP (by decide), h⟩
  · exact ⟨"shortcut_phrase", hP (by decide), hP (by decide), h⟩

/-- a non-empty sequence of entries is a `number_sequence` -/
theorem entries_der (es : Entries) (hne : es ≠ []) (hwf : es.WF = true) :
    Der P "number_sequence" es.classes :=
  leftrec (fun eg : Entry × Gap => eg.1.classes ++ eg.2.cls) es hne (entries_elem hP es hwf)

/-- … and extends any `number_sequence` on its left -/
theorem entries_snoc (es : Entries) (hwf : es.WF = true) {w : List String}
    (h : Der P "number_sequence" w) : Der P "number_sequence" (w ++ es.classes) :=
  leftrec_snoc (fun eg : Entry × Gap => eg.1.classes ++ eg.2.cls) es w h (fun eg hm => by
    obtain ⟨Y, _, h2, hy⟩ := entries_elem hP es hwf eg hm; exact ⟨Y, h2, hy⟩)

end numbers

/-! ## classifiers, separators -/

def reqClassifier : Prods :=
  reqPadding ++
  [("classifier", ["data_prefix"]), ("classifier", ["modifier", "data_prefix"]),
   ("classifier", ["classifier", "NUMBER"]), ("classifier", ["classifier", "particle_type"]),
   ("data_prefix", ["TEXT"]), ("data_prefix", ["KEYWORD"]), ("data_prefix", ["PARTICLE"]), ("modifier", ["*"]), ("modifier", ["PARTICLE_SPECIAL"]),
   ("particle_type", [":", "part"]), ("particle_type", ["particle_type", ",", "part"]), ("part", ["PARTICLE"]),
   ("param_seperator", ["padding"]), ("param_seperator", ["equals_sign"]),
   ("param_seperator", ["padding", "equals_sign"]), ("equals_sign", ["="]), ("equals_sign", ["=", "padding"])]

theorem reqPadding_sub_classifier : reqPadding ⊆ reqClassifier := by decide

section classifier
variable (hP : reqClassifier ⊆ P)
include hP

theorem particles_snoc : ∀ (rest : List String) (w : List String), Der P "particle_type" w →
    Der P "particle_type" (w ++ rest.flatMap (fun _ => [",", "PARTICLE"])) := by
  intro rest
  induction rest with
  | nil => intro w h; simpa using h
  | cons x xs ih =>
    intro w h
    have hpart : Der P "part" ["PARTICLE"] := Der.rule (hP (by decide : ("part", ["PARTICLE"]) ∈ reqClassifier)) (.tok .nil)
    have step : Der P "particle_type" (w ++ [",", "PARTICLE"]) :=
      (Der.rule (hP (by decide : ("particle_type", ["particle_type", ",", "part"]) ∈ reqClassifier))
        (.nt h (.tok (.nt hpart .nil)))).cast (by simp)
    have := ih _ step
    simpa [List.append_assoc] using this

theorem classifier_der (c : Classifier) (hwf : c.WF = true) : Der P "classifier" c.classes := by
  have hw : (c.nameCls = "TEXT" ∨ c.nameCls = "KEYWORD" ∨ c.nameCls = "PARTICLE") ∧
      (c.starCls = "*" ∨ c.starCls = "PARTICLE_SPECIAL") := by
    simpa [Classifier.WF] using hwf
  have hprefix : Der P "data_prefix" [c.nameCls] := by
    rcases hw.1 with h | h | h <;> rw [h]
    · exact Der.rule (hP (by decide : ("data_prefix", ["TEXT"]) ∈ reqClassifier)) (.tok .nil)
    · exact Der.rule (hP (by decide : ("data_prefix", ["KEYWORD"]) ∈ reqClassifier)) (.tok .nil)
    · exact Der.rule (hP (by decide : ("data_prefix", ["PARTICLE"]) ∈ reqClassifier)) (.tok .nil)
  have h0 : Der P "classifier" ((if c.star then [c.starCls] else []) ++ [c.nameCls]) := by
    cases c.star
    · exact (Der.rule (hP (by decide : ("classifier", ["data_prefix"]) ∈ reqClassifier)) (.nt hprefix .nil)).cast (by simp)
    · have hm : Der P "modifier" [c.starCls] := by
        rcases hw.2 with h | h <;> rw [h]
        · exact Der.rule (hP (by decide : ("modifier", ["*"]) ∈ reqClassifier)) (.tok .nil)
        · exact Der.rule (hP (by decide : ("modifier", ["PARTICLE_SPECIAL"]) ∈ reqClassifier)) (.tok .nil)
      exact (Der.rule (hP (by decide : ("classifier", ["modifier", "data_prefix"]) ∈ reqClassifier))
        (.nt hm (.nt hprefix .nil))).cast (by simp)
  have h1 : Der P "classifier" ((if c.star then [c.starCls] else []) ++ [c.nameCls] ++
      Classifier.numberClasses c.number) := by
    cases c.number with
    | none => simpa [Classifier.numberClasses] using h0
    | some _ =>
      exact (Der.rule (hP (by decide : ("classifier", ["classifier", "NUMBER"]) ∈ reqClassifier)) (.nt h0 (.tok .nil))).cast
        (by simp [Classifier.numberClasses])
  unfold Classifier.classes
  cases hp : c.particles with
  | nil => simpa [Classifier.particleClasses] using h1
  | cons p ps =>
    have hpart : Der P "part" ["PARTICLE"] := Der.rule (hP (by decide : ("part", ["PARTICLE"]) ∈ reqClassifier)) (.tok .nil)
    have hpt0 : Der P "particle_type" [":", "PARTICLE"] :=
      (Der.rule (hP (by decide : ("particle_type", [":", "part"]) ∈ reqClassifier)) (.tok (.nt hpart .nil))).cast (by simp)
    have hpt := particles_snoc hP ps _ hpt0
    exact (Der.rule (hP (by decide : ("classifier", ["classifier", "particle_type"]) ∈ reqClassifier))
      (.nt h1 (.nt hpt .nil))).cast (by simp [Classifier.particleClasses])

theorem sep_der (s : Sep) (hwf : s.WF = true) : Der P "param_seperator" s.classes := by
  have hpad : reqPadding ⊆ P := fun _ h => hP (reqPadding_sub_classifier h)
  simp [Sep.WF] at hwf
  obtain ⟨⟨⟨hb, ha⟩, h1⟩, h2⟩ := hwf
  unfold Sep.classes
  cases heq : s.eq with
  | false =>
    have hbne : s.before ≠ [] := by
      rcases h1 with h | h
      · simp [heq] at h
      · exact h
    have hae : s.after = [] := by
      rcases h2 with h | h
      · simp [heq] at h
      · exact h
    have hp := pad_der hpad s.before hb hbne
    exact (Der.rule (hP (by decide : ("param_seperator", ["padding"]) ∈ reqClassifier)) (.nt hp .nil)).cast
      (by simp [hae, Gap.cls])
  | true =>
    have heqs : Der P "equals_sign" ("=" :: s.after.cls) :=
      phrase_der hpad (hP (by decide)) (hP (by decide)) s.after ha
    by_cases hbe : s.before = []
    · exact (Der.rule (hP (by decide : ("param_seperator", ["equals_sign"]) ∈ reqClassifier)) (.nt heqs .nil)).cast
        (by simp [hbe, Gap.cls])
    · have hp := pad_der hpad s.before hb hbe
      exact (Der.rule (hP (by decide : ("param_seperator", ["padding", "equals_sign"]) ∈ reqClassifier))
        (.nt hp (.nt heqs .nil))).cast (by simp)

end classifier

/-! ## cell cards -/

def reqCell : Prods :=
  reqGeometry ++ reqNumbers ++ reqClassifier ++
  [("parameter", ["classifier", "param_seperator", "number_sequence"]),
   ("parameters", ["parameter"]), ("parameters", ["parameters", "parameter"]),
   ("number_sequence", ["number_sequence", "(", "number_sequence", ")"]),
   ("number_sequence", ["number_sequence", "(", "number_sequence", ")", "padding"]),
   ("number_sequence", ["number_sequence", ":", "numerical_phrase"]),
   ("number_sequence", ["(", "number_sequence", ")"]), ("number_sequence", ["(", "number_sequence", ")", "padding"]),
   ("number_sequence", ["number_sequence", "(", "padding", "number_sequence", ")"]),
   ("number_sequence", ["number_sequence", "(", "padding", "number_sequence", ")", "padding"]),
   ("number_sequence", ["(", "padding", "number_sequence", ")"]),
   ("number_sequence", ["(", "padding", "number_sequence", ")", "padding"]),
   ("identifier_phrase", ["NUMBER"]), ("identifier_phrase", ["NUMBER", "padding"]),
   ("null_ident_phrase", ["NULL"]), ("null_ident_phrase", ["NULL", "padding"]),
   ("material", ["null_ident_phrase"]), ("material", ["identifier_phrase", "number_phrase"]),
   ("cell", ["identifier_phrase", "material", "geometry_expr"]),
   ("cell", ["identifier_phrase", "material", "geometry_expr", "parameters"]),
   ("cell", ["padding", "identifier_phrase", "material", "geometry_expr"]),
   ("cell", ["padding", "identifier_phrase", "material", "geometry_expr", "parameters"])]

theorem reqGeometry_sub_cell : reqGeometry ⊆ reqCell := by decide
theorem reqNumbers_sub_cell : reqNumbers ⊆ reqCell := by decide
theorem reqClassifier_sub_cell : reqClassifier ⊆ reqCell := by decide
theorem reqPadding_sub_cell : reqPadding ⊆ reqCell := by decide

section cell
variable (hP : reqCell ⊆ P)
include hP

theorem pval_der (v : PVal) (hwf : v.WF = true) :
    Der P "number_sequence" v.classes := by
  have hnum : reqNumbers ⊆ P := fun _ h => hP (reqNumbers_sub_cell h)
  have hpad : reqPadding ⊆ P := fun _ h => hP (reqPadding_sub_cell h)
  cases v with
  | nums es =>
    simp [PVal.WF] at hwf
    exact entries_der hnum es hwf.2 hwf.1
  | numsParen es opened inner after =>
    simp [PVal.WF] at hwf
    obtain ⟨⟨⟨⟨⟨h1, h2⟩, hop⟩, h3⟩, h4⟩, h5⟩ := hwf
    have he := entries_der hnum es h2 h1
    have hi := entries_der hnum inner h4 h3
    by_cases ho : opened = []
    · subst ho
      by_cases hg : after = []
      · subst hg
        exact (Der.rule (hP (by decide : ("number_sequence", ["number_sequence", "(", "number_sequence", ")"]) ∈ reqCell))
          (.nt he (.tok (.nt hi (.tok .nil))))).cast (by simp [PVal.classes, Gap.cls])
      · have hp := pad_der hpad after h5 hg
        exact (Der.rule (hP (by decide : ("number_sequence", ["number_sequence", "(", "number_sequence", ")", "padding"]) ∈ reqCell))
          (.nt he (.tok (.nt hi (.tok (.nt hp .nil)))))).cast (by simp [PVal.classes, Gap.cls])
    · have hpo := pad_der hpad opened hop ho
      by_cases hg : after = []
      · subst hg
        exact (Der.rule (hP (by decide : ("number_sequence", ["number_sequence", "(", "padding", "number_sequence", ")"]) ∈ reqCell))
          (.nt he (.tok (.nt hpo (.nt hi (.tok .nil)))))).cast (by simp [PVal.classes, Gap.cls])
      · have hp := pad_der hpad after h5 hg
        exact (Der.rule (hP (by decide : ("number_sequence", ["number_sequence", "(", "padding", "number_sequence", ")", "padding"]) ∈ reqCell))
          (.nt he (.tok (.nt hpo (.nt hi (.tok (.nt hp .nil))))))).cast (by simp [PVal.classes])
  | paren opened inner after =>
    simp [PVal.WF] at hwf
    obtain ⟨⟨⟨hop, h3⟩, h4⟩, h5⟩ := hwf
    have hi := entries_der hnum inner h4 h3
    by_cases ho : opened = []
    · subst ho
      by_cases hg : after = []
      · subst hg
        exact (Der.rule (hP (by decide : ("number_sequence", ["(", "number_sequence", ")"]) ∈ reqCell))
          (.tok (.nt hi (.tok .nil)))).cast (by simp [PVal.classes, Gap.cls])
      · have hp := pad_der hpad after h5 hg
        exact (Der.rule (hP (by decide : ("number_sequence", ["(", "number_sequence", ")", "padding"]) ∈ reqCell))
          (.tok (.nt hi (.tok (.nt hp .nil))))).cast (by simp [PVal.classes, Gap.cls])
    · have hpo := pad_der hpad opened hop ho
      by_cases hg : after = []
      · subst hg
        exact (Der.rule (hP (by decide : ("number_sequence", ["(", "padding", "number_sequence", ")"]) ∈ reqCell))
          (.tok (.nt hpo (.nt hi (.tok .nil))))).cast (by simp [PVal.classes, Gap.cls])
      · have hp := pad_der hpad after h5 hg
        exact (Der.rule (hP (by decide : ("number_sequence", ["(", "padding", "number_sequence", ")", "padding"]) ∈ reqCell))
          (.tok (.nt hpo (.nt hi (.tok (.nt hp .nil)))))).cast (by simp [PVal.classes])
  | lattice a b g1 c d g2 e f g3 us =>
    simp [PVal.WF] at hwf
    obtain ⟨⟨⟨⟨h1, h2⟩, h3⟩, h4⟩, _⟩ := hwf
    have k1 := (req_split h1).1
    have k2 := (req_split h2).1
    have k3 := (req_split h3).1
    have rcolon := hP (by decide : ("number_sequence", ["number_sequence", ":", "numerical_phrase"]) ∈ reqCell)
    have rnext := hP (by decide : ("number_sequence", ["number_sequence", "numerical_phrase"]) ∈ reqCell)
    have s0 : Der P "number_sequence" [a.cls] :=
      (Der.rule (hP (by decide : ("number_sequence", ["numerical_phrase"]) ∈ reqCell))
        (.nt (numerical_phrase_der hnum a [] (by decide)) .nil)).cast (by simp [Gap.cls])
    have s1 : Der P "number_sequence" ([a.cls, ":", b.cls] ++ g1.cls) :=
      (Der.rule rcolon (.nt s0 (.tok (.nt (numerical_phrase_der hnum b g1 k1) .nil)))).cast (by simp)
    have s2 : Der P "number_sequence" ([a.cls, ":", b.cls] ++ g1.cls ++ [c.cls]) :=
      (Der.rule rnext (.nt s1 (.nt (numerical_phrase_der hnum c [] (by decide)) .nil))).cast (by simp [Gap.cls])
    have s3 : Der P "number_sequence" ([a.cls, ":", b.cls] ++ g1.cls ++ [c.cls, ":", d.cls] ++ g2.cls) :=
      (Der.rule rcolon (.nt s2 (.tok (.nt (numerical_phrase_der hnum d g2 k2) .nil)))).cast (by simp)
    have s4 : Der P "number_sequence" ([a.cls, ":", b.cls] ++ g1.cls ++ [c.cls, ":", d.cls] ++ g2.cls ++ [e.cls]) :=
      (Der.rule rnext (.nt s3 (.nt (numerical_phrase_der hnum e [] (by decide)) .nil))).cast (by simp [Gap.cls])
    have s5 : Der P "number_sequence"
        ([a.cls, ":", b.cls] ++ g1.cls ++ [c.cls, ":", d.cls] ++ g2.cls ++ [e.cls, ":", f.cls] ++ g3.cls) :=
      (Der.rule rcolon (.nt s4 (.tok (.nt (numerical_phrase_der hnum f g3 k3) .nil)))).cast (by simp)
    exact (entries_snoc hnum us h4 s5).cast (by simp [PVal.classes])

theorem cellparam_der (p : CellParam) (hwf : p.WF = true) :
    Der P "parameter" p.classes := by
  have hcl : reqClassifier ⊆ P := fun _ h => hP (reqClassifier_sub_cell h)
  simp [CellParam.WF] at hwf
  obtain ⟨⟨h1, h2⟩, h3⟩ := hwf
  exact (Der.rule (hP (by decide : ("parameter", ["classifier", "param_seperator", "number_sequence"]) ∈ reqCell))
    (.nt (classifier_der hcl p.key h1) (.nt (sep_der hcl p.sep h2) (.nt (pval_der hP p.val h3) .nil)))).cast
    (by simp [CellParam.classes])

theorem cellparams_der (ps : List CellParam) (hne : ps ≠ []) (hwf : ps.all CellParam.WF = true) : Der P "parameters" (ps.flatMap CellParam.classes) :=
  leftrec CellParam.classes ps hne (fun p hm =>
    ⟨"parameter", hP (by decide), hP (by decide),
      cellparam_der hP p ((List.all_eq_true.mp hwf) p hm)⟩)

/-- every well-formed cell card of G derives from `cell` -/
theorem cell_der (c : CellCard) (hwf : c.WF = true) : Der P "cell" c.classes := by
  have hgeo : reqGeometry ⊆ P := fun _ h => hP (reqGeometry_sub_cell h)
  have hnum : reqNumbers ⊆ P := fun _ h => hP (reqNumbers_sub_cell h)
  have hpad : reqPadding ⊆ P := fun _ h => hP (reqPadding_sub_cell h)
  simp [CellCard.WF] at hwf
  obtain ⟨⟨⟨⟨⟨⟨⟨hlead, hg0⟩, hg1⟩, hg2⟩, hgeom⟩, hmat⟩, hps⟩, hsep⟩ := hwf
  have hid : Der P "identifier_phrase" ("NUMBER" :: c.g0.cls) :=
    phrase_der hpad (hP (by decide)) (hP (by decide)) c.g0 (req_split hg0).1
  have hgeo' := (geom_der hgeo c.geometry hgeom).2.2.2.2 c.g2 hg2
  -- the material, with the gap g1 that follows it
  have hmatd : ∃ wm, Der P "material" wm ∧
      c.classes = c.lead.cls ++ ("NUMBER" :: c.g0.cls) ++ wm ++ (c.geometry.classes ++ c.g2.cls) ++
        c.params.flatMap CellParam.classes := by
    cases hm : c.material with
    | none =>
      refine ⟨"NULL" :: c.g1.cls, ?_, by simp [CellCard.classes, hm]⟩
      have : Der P "null_ident_phrase" ("NULL" :: c.g1.cls) :=
        phrase_der hpad (hP (by decide)) (hP (by decide)) c.g1 (req_split hg1).1
      exact (Der.rule (hP (by decide : ("material", ["null_ident_phrase"]) ∈ reqCell)) (.nt this .nil)).cast (by simp)
    | some m =>
      obtain ⟨mn, g, d⟩ := m
      refine ⟨("NUMBER" :: g.cls) ++ ("NUMBER" :: c.g1.cls), ?_, by simp [CellCard.classes, hm]⟩
      have hg : g.req = true := by simpa [hm] using hmat
      have h1 : Der P "identifier_phrase" ("NUMBER" :: g.cls) :=
        phrase_der hpad (hP (by decide)) (hP (by decide)) g (req_split hg).1
      have h2 := number_phrase_der hnum c.g1 (req_split hg1).1
      exact (Der.rule (hP (by decide : ("material", ["identifier_phrase", "number_phrase"]) ∈ reqCell))
        (.nt h1 (.nt h2 .nil))).cast (by simp)
  obtain ⟨wm, hm, hcls⟩ := hmatd
  rw [hcls]
  by_cases hpe : c.params = []
  · by_cases hle : c.lead = []
    · exact (Der.rule (hP (by decide : ("cell", ["identifier_phrase", "material", "geometry_expr"]) ∈ reqCell))
        (.nt hid (.nt hm (.nt hgeo' .nil)))).cast (by simp [hpe, hle, Gap.cls])
    · have hl := pad_der hpad c.lead hlead hle
      exact (Der.rule (hP (by decide : ("cell", ["padding", "identifier_phrase", "material", "geometry_expr"]) ∈ reqCell))
        (.nt hl (.nt hid (.nt hm (.nt hgeo' .nil))))).cast (by simp [hpe])
  · have hpar := cellparams_der hP c.params hpe (by simpa using hps)
    by_cases hle : c.lead = []
    · exact (Der.rule (hP (by decide : ("cell", ["identifier_phrase", "material", "geometry_expr", "parameters"]) ∈ reqCell))
        (.nt hid (.nt hm (.nt hgeo' (.nt hpar .nil))))).cast (by simp [hle, Gap.cls])
    · have hl := pad_der hpad c.lead hlead hle
      exact (Der.rule (hP (by decide : ("cell", ["padding", "identifier_phrase", "material", "geometry_expr", "parameters"]) ∈ reqCell))
        (.nt hl (.nt hid (.nt hm (.nt hgeo' (.nt hpar .nil)))))).cast (by simp)

end cell

/-! ## surface cards -/

def reqSurface : Prods :=
  reqNumbers ++
  [("surface_id", ["number_phrase"]), ("surface_id", ["*", "number_phrase"]),
   ("surface", ["surface_id", "SURFACE_TYPE", "padding", "number_sequence"]),
   ("surface", ["padding", "surface_id", "SURFACE_TYPE", "padding", "number_sequence"]),
   ("surface", ["surface_id", "number_phrase", "SURFACE_TYPE", "padding", "number_sequence"]),
   ("surface", ["padding", "surface_id", "number_phrase", "SURFACE_TYPE", "padding", "number_sequence"])]

theorem reqNumbers_sub_surface : reqNumbers ⊆ reqSurface := by decide
theorem reqPadding_sub_surface : reqPadding ⊆ reqSurface := by decide

section surface
variable (hP : reqSurface ⊆ P)
include hP

/-- every well-formed surface card of G derives from `surface` -/
theorem surface_der (s : SurfaceCard) (hwf : s.WF = true) :
    Der P "surface" s.classes := by
  have hnum : reqNumbers ⊆ P := fun _ h => hP (reqNumbers_sub_surface h)
  have hpad : reqPadding ⊆ P := fun _ h => hP (reqPadding_sub_surface h)
  simp [SurfaceCard.WF] at hwf
  obtain ⟨⟨⟨⟨⟨⟨hlead, hg0⟩, hg1⟩, hptr⟩, hcs⟩, hcne⟩, _⟩ := hwf
  have hnp := number_phrase_der hnum s.g0 (req_split hg0).1
  have hid : Der P "surface_id" ((if s.star then ["*"] else []) ++ ("NUMBER" :: s.g0.cls)) := by
    cases s.star
    · exact (Der.rule (hP (by decide : ("surface_id", ["number_phrase"]) ∈ reqSurface)) (.nt hnp .nil)).cast (by simp)
    · exact (Der.rule (hP (by decide : ("surface_id", ["*", "number_phrase"]) ∈ reqSurface)) (.tok (.nt hnp .nil))).cast
        (by simp)
  obtain ⟨hg1ok, hg1ne⟩ := req_split hg1
  have hp1 := pad_der hpad s.g1 hg1ok hg1ne
  have hseq := entries_der hnum s.constants hcne hcs
  cases hpt : s.pointer with
  | none =>
    by_cases hle : s.lead = []
    · exact (Der.rule (hP (by decide : ("surface", ["surface_id", "SURFACE_TYPE", "padding", "number_sequence"]) ∈ reqSurface))
        (.nt hid (.tok (.nt hp1 (.nt hseq .nil))))).cast (by simp [SurfaceCard.classes, hpt, hle, Gap.cls])
    · have hl := pad_der hpad s.lead hlead hle
      exact (Der.rule (hP (by decide : ("surface", ["padding", "surface_id", "SURFACE_TYPE", "padding", "number_sequence"]) ∈ reqSurface))
        (.nt hl (.nt hid (.tok (.nt hp1 (.nt hseq .nil)))))).cast (by simp [SurfaceCard.classes, hpt])
  | some pg =>
    obtain ⟨pt, g⟩ := pg
    have hg : g.req = true := by simpa [hpt] using hptr
    have hpp := number_phrase_der hnum g (req_split hg).1
    by_cases hle : s.lead = []
    · exact (Der.rule (hP (by decide : ("surface", ["surface_id", "number_phrase", "SURFACE_TYPE", "padding", "number_sequence"]) ∈ reqSurface))
        (.nt hid (.nt hpp (.tok (.nt hp1 (.nt hseq .nil)))))).cast (by simp [SurfaceCard.classes, hpt, hle, Gap.cls])
    · have hl := pad_der hpad s.lead hlead hle
      exact (Der.rule (hP (by decide : ("surface", ["padding", "surface_id", "number_phrase", "SURFACE_TYPE", "padding", "number_sequence"]) ∈ reqSurface))
        (.nt hl (.nt hid (.nt hpp (.tok (.nt hp1 (.nt hseq .nil))))))).cast (by simp [SurfaceCard.classes, hpt])

end surface

/-! ## data cards: the introduction shared by every data parser -/

def reqIntro : Prods :=
  reqClassifier ++
  [("classifier_phrase", ["classifier"]), ("classifier_phrase", ["classifier", "padding"]),
   ("introduction", ["classifier_phrase"]), ("introduction", ["padding", "classifier_phrase"]),
   ("introduction", ["classifier_phrase", "KEYWORD", "padding"]),
   ("introduction", ["padding", "classifier_phrase", "KEYWORD", "padding"])]

theorem reqClassifier_sub_intro : reqClassifier ⊆ reqIntro := by decide
theorem reqPadding_sub_intro : reqPadding ⊆ reqIntro := by decide

section intro
variable (hP : reqIntro ⊆ P)
include hP

/-- `lead classifier g0` is an `introduction` -/
theorem intro_der (lead : Gap) (c : Classifier) (g0 : Gap) (hl : lead.ok = true) (hc : c.WF = true)
    (hg : g0.ok = true) : Der P "introduction" (lead.cls ++ c.classes ++ g0.cls) := by
  have hcl : reqClassifier ⊆ P := fun _ h => hP (reqClassifier_sub_intro h)
  have hpad : reqPadding ⊆ P := fun _ h => hP (reqPadding_sub_intro h)
  have hcp : Der P "classifier_phrase" (c.classes ++ g0.cls) :=
    wrap_der hpad (hP (by decide)) (hP (by decide)) (classifier_der hcl c hc) g0 hg
  by_cases hle : lead = []
  · exact (Der.rule (hP (by decide : ("introduction", ["classifier_phrase"]) ∈ reqIntro)) (.nt hcp .nil)).cast
      (by simp [hle, Gap.cls])
  · have hp := pad_der hpad lead hl hle
    exact (Der.rule (hP (by decide : ("introduction", ["padding", "classifier_phrase"]) ∈ reqIntro))
      (.nt hp (.nt hcp .nil))).cast (by simp)

/-- `lead classifier g0 KEYWORD gk` is an `introduction` (`VOL NO …`) -/
theorem intro_kw_der (lead : Gap) (c : Classifier) (g0 gk : Gap) (hl : lead.ok = true) (hc : c.WF = true)
    (hg : g0.ok = true) (hk : gk.req = true) :
    Der P "introduction" (lead.cls ++ c.classes ++ g0.cls ++ ("KEYWORD" :: gk.cls)) := by
  have hcl : reqClassifier ⊆ P := fun _ h => hP (reqClassifier_sub_intro h)
  have hpad : reqPadding ⊆ P := fun _ h => hP (reqPadding_sub_intro h)
  have hcp : Der P "classifier_phrase" (c.classes ++ g0.cls) :=
    wrap_der hpad (hP (by decide)) (hP (by decide)) (classifier_der hcl c hc) g0 hg
  obtain ⟨hk1, hk2⟩ := req_split hk
  have hpk := pad_der hpad gk hk1 hk2
  by_cases hle : lead = []
  · exact (Der.rule (hP (by decide : ("introduction", ["classifier_phrase", "KEYWORD", "padding"]) ∈ reqIntro))
      (.nt hcp (.tok (.nt hpk .nil)))).cast (by simp [hle, Gap.cls])
  · have hp := pad_der hpad lead hl hle
    exact (Der.rule (hP (by decide : ("introduction", ["padding", "classifier_phrase", "KEYWORD", "padding"]) ∈ reqIntro))
      (.nt hp (.nt hcp (.tok (.nt hpk .nil))))).cast (by simp)

end intro

/-! ## data cards parsed by `DataParser`: number lists (with an optional keyword) and MODE -/

def reqData : Prods :=
  reqIntro ++ reqNumbers ++
  [("data_input", ["introduction"]), ("data_input", ["introduction", "data"]),
   ("data", ["number_sequence"]), ("data", ["particle_sequence"]),
   ("particle_sequence", ["particle_phrase"]), ("particle_sequence", ["particle_sequence", "particle_phrase"]),
   ("particle_phrase", ["particle_text"]), ("particle_phrase", ["particle_text", "padding"]),
   ("particle_text", ["PARTICLE"])]

theorem reqIntro_sub_data : reqIntro ⊆ reqData := by decide
theorem reqNumbers_sub_data : reqNumbers ⊆ reqData := by decide
theorem reqPadding_sub_data : reqPadding ⊆ reqData := by decide

/-- the bodies `DataParser` itself parses -/
def DataCard.isPlain (d : DataCard) : Bool :=
  match d.body with
  | .numbers .. => true
  | .mode _ => true
  | _ => false

section data
variable (hP : reqData ⊆ P)
include hP

theorem data_der (d : DataCard) (hwf : d.WF = true)
    (hplain : DataCard.isPlain d = true) : Der P "data_input" d.classes := by
  have hin : reqIntro ⊆ P := fun _ h => hP (reqIntro_sub_data h)
  have hnum : reqNumbers ⊆ P := fun _ h => hP (reqNumbers_sub_data h)
  have hpad : reqPadding ⊆ P := fun _ h => hP (reqPadding_sub_data h)
  obtain ⟨lead, c, g0, body⟩ := d
  cases body with
  | numbers kw es =>
    simp [DataCard.WF] at hwf
    obtain ⟨⟨⟨hl, hg⟩, hc⟩, ⟨hes, hkw⟩, _⟩ := hwf
    have hintro : ∃ wi, Der P "introduction" wi ∧
        (DataCard.mk lead c g0 (.numbers kw es)).classes = wi ++ es.classes := by
      cases kw with
      | none => exact ⟨_, intro_der hin lead c g0 hl hc hg, by simp [DataCard.classes]⟩
      | some kg =>
        obtain ⟨k, gk⟩ := kg
        simp at hkw
        exact ⟨_, intro_kw_der hin lead c g0 gk hl hc hg hkw.1, by simp [DataCard.classes]⟩
    obtain ⟨wi, hi, hcls⟩ := hintro
    rw [hcls]
    by_cases hee : es = []
    · subst hee
      exact (Der.rule (hP (by decide : ("data_input", ["introduction"]) ∈ reqData)) (.nt hi .nil)).cast
        (by simp [Entries.classes])
    · have hseq := entries_der hnum es hee hes
      have hd : Der P "data" es.classes :=
        (Der.rule (hP (by decide : ("data", ["number_sequence"]) ∈ reqData)) (.nt hseq .nil)).cast (by simp)
      exact (Der.rule (hP (by decide : ("data_input", ["introduction", "data"]) ∈ reqData)) (.nt hi (.nt hd .nil))).cast
        (by simp)
  | mode ps =>
    simp [DataCard.WF] at hwf
    obtain ⟨⟨⟨hl, hg⟩, hc⟩, ⟨hne, _⟩, hps⟩ := hwf
    have hi := intro_der hin lead c g0 hl hc hg
    have hseq : Der P "particle_sequence" (ps.flatMap (fun p : String × Gap => ["PARTICLE"] ++ p.2.cls)) :=
      leftrec (fun p : String × Gap => ["PARTICLE"] ++ p.2.cls) ps hne (fun p hm => by
        refine ⟨"particle_phrase", hP (by decide), hP (by decide), ?_⟩
        have ht : Der P "particle_text" ["PARTICLE"] :=
          Der.rule (hP (by decide : ("particle_text", ["PARTICLE"]) ∈ reqData)) (.tok .nil)
        exact wrap_der hpad (hP (by decide)) (hP (by decide)) ht p.2 (hps p.1 p.2 hm))
    have hd : Der P "data" (ps.flatMap (fun p : String × Gap => ["PARTICLE"] ++ p.2.cls)) :=
      (Der.rule (hP (by decide : ("data", ["particle_sequence"]) ∈ reqData)) (.nt hseq .nil)).cast (by simp)
    exact (Der.rule (hP (by decide : ("data_input", ["introduction", "data"]) ∈ reqData)) (.nt hi (.nt hd .nil))).cast
      (by simp [DataCard.classes])
  | material _ _ => simp [DataCard.isPlain] at hplain
  | thermal _ => simp [DataCard.isPlain] at hplain

end data

/-! ## material cards (`MaterialParser`) -/

def reqMaterial : Prods :=
  reqIntro ++ reqNumbers ++
  [("material", ["introduction", "isotopes"]), ("material", ["introduction", "isotopes", "parameters"]),
   ("isotopes", ["isotope_fractions"]),
   ("isotope_fractions", ["isotope_fraction"]), ("isotope_fractions", ["isotope_fractions", "isotope_fraction"]),
   ("isotope_fraction", ["zaid_phrase", "number_phrase"]),
   ("zaid_phrase", ["ZAID"]), ("zaid_phrase", ["ZAID", "padding"]),
   ("parameters", ["parameter"]), ("parameters", ["parameters", "parameter"]),
   ("parameter", ["classifier", "param_seperator", "number_sequence"]),
   ("parameter", ["classifier", "param_seperator", "text_phrase"]),
   ("text_phrase", ["NUMBER_WORD"]), ("text_phrase", ["NUMBER_WORD", "padding"])]

theorem reqIntro_sub_material : reqIntro ⊆ reqMaterial := by decide
theorem reqNumbers_sub_material : reqNumbers ⊆ reqMaterial := by decide
theorem reqPadding_sub_material : reqPadding ⊆ reqMaterial := by decide
theorem reqClassifier_sub_material : reqClassifier ⊆ reqMaterial := by decide

section material
variable (hP : reqMaterial ⊆ P)
include hP

theorem matparam_der (p : MatParam) (hwf : p.WF = true) :
    Der P "parameter" p.classes := by
  have hcl : reqClassifier ⊆ P := fun _ h => hP (reqClassifier_sub_material h)
  have hnum : reqNumbers ⊆ P := fun _ h => hP (reqNumbers_sub_material h)
  have hpad : reqPadding ⊆ P := fun _ h => hP (reqPadding_sub_material h)
  obtain ⟨key, sep, val⟩ := p
  simp [MatParam.WF] at hwf
  obtain ⟨⟨h1, h2⟩, h3⟩ := hwf
  cases val with
  | lib t a =>
    simp at h3
    have ht : Der P "text_phrase" ("NUMBER_WORD" :: a.cls) :=
      phrase_der hpad (hP (by decide)) (hP (by decide)) a h3
    exact (Der.rule (hP (by decide : ("parameter", ["classifier", "param_seperator", "text_phrase"]) ∈ reqMaterial))
      (.nt (classifier_der hcl key h1) (.nt (sep_der hcl sep h2) (.nt ht .nil)))).cast (by simp [MatParam.classes])
  | nums es =>
    simp at h3
    have hs := entries_der hnum es h3.2 h3.1
    exact (Der.rule (hP (by decide : ("parameter", ["classifier", "param_seperator", "number_sequence"]) ∈ reqMaterial))
      (.nt (classifier_der hcl key h1) (.nt (sep_der hcl sep h2) (.nt hs .nil)))).cast (by simp [MatParam.classes])

theorem material_der (lead : Gap) (c : Classifier) (g0 : Gap) (fr : List (String × Gap × Num × Gap))
    (ps : List MatParam) (hwf : (DataCard.mk lead c g0 (.material fr ps)).WF = true) :
    Der P "material" (DataCard.mk lead c g0 (.material fr ps)).classes := by
  have hin : reqIntro ⊆ P := fun _ h => hP (reqIntro_sub_material h)
  have hnum : reqNumbers ⊆ P := fun _ h => hP (reqNumbers_sub_material h)
  have hpad : reqPadding ⊆ P := fun _ h => hP (reqPadding_sub_material h)
  simp [DataCard.WF] at hwf
  obtain ⟨⟨⟨hl, hg⟩, hc⟩, ⟨⟨hne, _⟩, hfr⟩, hps⟩ := hwf
  have hi := intro_der hin lead c g0 hl hc hg
  have hfrs : Der P "isotope_fractions"
      (fr.flatMap (fun f : String × Gap × Num × Gap => ["ZAID"] ++ f.2.1.cls ++ ["NUMBER"] ++ f.2.2.2.cls)) :=
    leftrec (fun f : String × Gap × Num × Gap => ["ZAID"] ++ f.2.1.cls ++ ["NUMBER"] ++ f.2.2.2.cls) fr hne
      (fun f hm => by
        refine ⟨"isotope_fraction", hP (by decide), hP (by decide), ?_⟩
        obtain ⟨z, g1, n, g2⟩ := f
        have hf := hfr z g1 n g2 hm
        have hz : Der P "zaid_phrase" ("ZAID" :: g1.cls) :=
          phrase_der hpad (hP (by decide)) (hP (by decide)) g1 (req_split hf.1.1).1
        have hn := number_phrase_der hnum g2 hf.1.2
        exact (Der.rule (hP (by decide : ("isotope_fraction", ["zaid_phrase", "number_phrase"]) ∈ reqMaterial))
          (.nt hz (.nt hn .nil))).cast (by simp))
  have hiso := (Der.rule (hP (by decide : ("isotopes", ["isotope_fractions"]) ∈ reqMaterial)) (.nt hfrs .nil)).cast
    (List.append_nil _)
  by_cases hpe : ps = []
  · subst hpe
    exact (Der.rule (hP (by decide : ("material", ["introduction", "isotopes"]) ∈ reqMaterial))
      (.nt hi (.nt hiso .nil))).cast (by simp [DataCard.classes])
  · have hpar : Der P "parameters" (ps.flatMap MatParam.classes) :=
      leftrec MatParam.classes ps hpe (fun p hm =>
        ⟨"parameter", hP (by decide), hP (by decide), matparam_der hP p (hps p hm)⟩)
    exact (Der.rule (hP (by decide : ("material", ["introduction", "isotopes", "parameters"]) ∈ reqMaterial))
      (.nt hi (.nt hiso (.nt hpar .nil)))).cast (by simp [DataCard.classes])

end material

/-! ## thermal-scattering cards (`ThermalParser`) -/

def reqThermal : Prods :=
  reqIntro ++
  [("thermal_mat", ["introduction", "thermal_law_sequence"]),
   ("thermal_law_sequence", ["thermal_law"]), ("thermal_law_sequence", ["thermal_law_sequence", "thermal_law"]),
   ("thermal_law", ["THERMAL_LAW"]), ("thermal_law", ["THERMAL_LAW", "padding"])]

theorem reqIntro_sub_thermal : reqIntro ⊆ reqThermal := by decide
theorem reqPadding_sub_thermal : reqPadding ⊆ reqThermal := by decide

section thermal
variable (hP : reqThermal ⊆ P)
include hP

theorem thermal_der (lead : Gap) (c : Classifier) (g0 : Gap) (laws : List (String × Gap))
    (hwf : (DataCard.mk lead c g0 (.thermal laws)).WF = true) :
    Der P "thermal_mat" (DataCard.mk lead c g0 (.thermal laws)).classes := by
  have hin : reqIntro ⊆ P := fun _ h => hP (reqIntro_sub_thermal h)
  have hpad : reqPadding ⊆ P := fun _ h => hP (reqPadding_sub_thermal h)
  simp [DataCard.WF] at hwf
  obtain ⟨⟨⟨hl, hg⟩, hc⟩, ⟨hne, _⟩, hls⟩ := hwf
  have hi := intro_der hin lead c g0 hl hc hg
  have hseq : Der P "thermal_law_sequence" (laws.flatMap (fun l : String × Gap => ["THERMAL_LAW"] ++ l.2.cls)) :=
    leftrec (fun l : String × Gap => ["THERMAL_LAW"] ++ l.2.cls) laws hne (fun l hm => by
      refine ⟨"thermal_law", hP (by decide), hP (by decide), ?_⟩
      exact phrase_der hpad (hP (by decide)) (hP (by decide)) l.2 (hls l.1 l.2 hm))
  exact (Der.rule (hP (by decide : ("thermal_mat", ["introduction", "thermal_law_sequence"]) ∈ reqThermal))
    (.nt hi (.nt hseq .nil))).cast (by simp [DataCard.classes])

end thermal

/-! ## tally cards (`TallyParser`): bins, groups, the total `T` -/

/-- what FS needs (`TallySegmentParser` has no groups) -/
def reqTallySeg : Prods :=
  reqIntro ++ reqNumbers ++
  [("tally", ["introduction", "tally_specification"]),
   ("tally_specification", ["tally_numbers"]), ("tally_specification", ["tally_numbers", "end_phrase"]),
   ("end_phrase", ["PARTICLE"]), ("end_phrase", ["PARTICLE", "padding"]),
   ("tally_numbers", ["number_sequence"]),
   ("tally_numbers", ["tally_numbers", "padding"]), ("tally_numbers", ["tally_numbers", "tally_numbers"])]

def reqTally : Prods :=
  reqTallySeg ++
  [("tally_numbers", ["tally_group"]),
   ("tally_group", ["(", "number_sequence", ")"]), ("tally_group", ["(", "padding", "number_sequence", ")"])]

theorem reqTallySeg_sub_tally : reqTallySeg ⊆ reqTally := by decide
theorem reqIntro_sub_tally : reqIntro ⊆ reqTally := by decide
theorem reqNumbers_sub_tally : reqNumbers ⊆ reqTally := by decide
theorem reqPadding_sub_tally : reqPadding ⊆ reqTally := by decide
theorem reqIntro_sub_tallyseg : reqIntro ⊆ reqTallySeg := by decide
theorem reqNumbers_sub_tallyseg : reqNumbers ⊆ reqTallySeg := by decide
theorem reqPadding_sub_tallyseg : reqPadding ⊆ reqTallySeg := by decide

section tallyseg
variable (hP : reqTallySeg ⊆ P)
include hP

theorem total_der (total : Option (String × Gap)) (h : XCard.totalWF total = true) {w : List String}
    (hn : Der P "tally_numbers" w) : Der P "tally_specification" (w ++ XCard.totalClasses total) := by
  have hpad : reqPadding ⊆ P := fun _ h => hP (reqPadding_sub_tallyseg h)
  cases total with
  | none =>
    exact (Der.rule (hP (by decide : ("tally_specification", ["tally_numbers"]) ∈ reqTallySeg)) (.nt hn .nil)).cast
      (by simp [XCard.totalClasses])
  | some tg =>
    obtain ⟨t, g⟩ := tg
    have he : Der P "end_phrase" ("PARTICLE" :: g.cls) :=
      phrase_der hpad (hP (by decide)) (hP (by decide)) g (by simpa [XCard.totalWF] using h)
    exact (Der.rule (hP (by decide : ("tally_specification", ["tally_numbers", "end_phrase"]) ∈ reqTallySeg))
      (.nt hn (.nt he .nil))).cast (by simp [XCard.totalClasses])

/-- FS cards (`TallySegmentParser`) -/
theorem segments_der (lead : Gap) (c : Classifier) (g0 : Gap) (es : Entries) (total : Option (String × Gap))
    (hwf : (XCard.mk lead c g0 (.segments es total)).WF = true) :
    Der P "tally" (XCard.mk lead c g0 (.segments es total)).classes := by
  have hin : reqIntro ⊆ P := fun _ h => hP (reqIntro_sub_tallyseg h)
  have hnum : reqNumbers ⊆ P := fun _ h => hP (reqNumbers_sub_tallyseg h)
  simp [XCard.WF] at hwf
  obtain ⟨⟨⟨hl, hg⟩, hc⟩, ⟨⟨hes, hne⟩, _⟩, htot⟩ := hwf
  have hi := intro_der hin lead c g0 hl hc hg
  have hs := entries_der hnum es hne hes
  have hn : Der P "tally_numbers" es.classes :=
    (Der.rule (hP (by decide : ("tally_numbers", ["number_sequence"]) ∈ reqTallySeg)) (.nt hs .nil)).cast (by simp)
  have hspec := total_der hP total htot hn
  exact (Der.rule (hP (by decide : ("tally", ["introduction", "tally_specification"]) ∈ reqTallySeg))
    (.nt hi (.nt hspec .nil))).cast (by simp [XCard.classes])

end tallyseg

section tally
variable (hP : reqTally ⊆ P)
include hP

theorem tallyitem_der (it : TallyItem) (hwf : it.WF = true) : Der P "tally_numbers" it.classes := by
  have hnum : reqNumbers ⊆ P := fun _ h => hP (reqNumbers_sub_tally h)
  have hpad : reqPadding ⊆ P := fun _ h => hP (reqPadding_sub_tally h)
  cases it with
  | bins es =>
    simp [TallyItem.WF] at hwf
    have hs := entries_der hnum es hwf.2 hwf.1
    exact (Der.rule (hP (by decide : ("tally_numbers", ["number_sequence"]) ∈ reqTally)) (.nt hs .nil)).cast
      (by simp [TallyItem.classes])
  | group opened es after =>
    simp [TallyItem.WF] at hwf
    obtain ⟨⟨⟨ho, hes⟩, hne⟩, ha⟩ := hwf
    have hs := entries_der hnum es hne hes
    have hg : Der P "tally_group" (["("] ++ opened.cls ++ es.classes ++ [")"]) := by
      by_cases hop : opened = []
      · subst hop
        exact (Der.rule (hP (by decide : ("tally_group", ["(", "number_sequence", ")"]) ∈ reqTally))
          (.tok (.nt hs (.tok .nil)))).cast (by simp [Gap.cls])
      · have hp := pad_der hpad opened ho hop
        exact (Der.rule (hP (by decide : ("tally_group", ["(", "padding", "number_sequence", ")"]) ∈ reqTally))
          (.tok (.nt hp (.nt hs (.tok .nil))))).cast (by simp)
    have hn : Der P "tally_numbers" (["("] ++ opened.cls ++ es.classes ++ [")"]) :=
      (Der.rule (hP (by decide : ("tally_numbers", ["tally_group"]) ∈ reqTally)) (.nt hg .nil)).cast (by simp)
    by_cases haf : after = []
    · subst haf; simpa [TallyItem.classes, Gap.cls] using hn
    · have hp := pad_der hpad after ha haf
      exact (Der.rule (hP (by decide : ("tally_numbers", ["tally_numbers", "padding"]) ∈ reqTally))
        (.nt hn (.nt hp .nil))).cast (by simp [TallyItem.classes])

theorem tally_der (lead : Gap) (c : Classifier) (g0 : Gap) (items : List TallyItem) (total : Option (String × Gap))
    (hwf : (XCard.mk lead c g0 (.tally items total)).WF = true) :
    Der P "tally" (XCard.mk lead c g0 (.tally items total)).classes := by
  have hin : reqIntro ⊆ P := fun _ h => hP (reqIntro_sub_tally h)
  simp [XCard.WF] at hwf
  obtain ⟨⟨⟨hl, hg⟩, hc⟩, ⟨⟨hne, _⟩, hit⟩, htot⟩ := hwf
  have hi := intro_der hin lead c g0 hl hc hg
  have hnums : Der P "tally_numbers" (items.flatMap TallyItem.classes) := by
    cases items with
    | nil => exact absurd rfl hne
    | cons a rest =>
      have ha := tallyitem_der hP a (hit a (by simp))
      have := leftrec_snoc TallyItem.classes rest a.classes ha (fun b hb =>
        ⟨"tally_numbers", hP (by decide), tallyitem_der hP b (hit b (by simp [hb]))⟩)
      simpa using this
  have hspec := total_der (fun _ h => hP (reqTallySeg_sub_tally h)) total htot hnums
  exact (Der.rule (hP (by decide : ("tally", ["introduction", "tally_specification"]) ∈ reqTally))
    (.nt hi (.nt hspec .nil))).cast (by simp [XCard.classes])

end tally

/-! ## the kitchen sink of `DataParser`: a letter followed by numbers (`d1`, `SI1 H 0 1 2`) -/

def reqSink : Prods :=
  reqNumbers ++
  [("data", ["number_sequence"]), ("data", ["particle_sequence"]), ("data", ["kitchen_sink"]),
   ("kitchen_sink", ["kitchen_junk"]), ("kitchen_sink", ["kitchen_sink", "kitchen_junk"]),
   ("kitchen_junk", ["number_sequence"]), ("kitchen_junk", ["particle_sequence"]),
   ("particle_sequence", ["particle_phrase"]),
   ("particle_phrase", ["particle_text"]), ("particle_phrase", ["particle_text", "padding"]),
   ("particle_text", ["PARTICLE"])]

theorem reqNumbers_sub_sink : reqNumbers ⊆ reqSink := by decide
theorem reqPadding_sub_sink : reqPadding ⊆ reqSink := by decide

section sink
variable (hP : reqSink ⊆ P)
include hP

theorem letter_seq_der (g : Gap) (hg : g.ok = true) : Der P "particle_sequence" ("PARTICLE" :: g.cls) := by
  have hpad : reqPadding ⊆ P := fun _ h => hP (reqPadding_sub_sink h)
  have ht : Der P "particle_text" ["PARTICLE"] :=
    Der.rule (hP (by decide : ("particle_text", ["PARTICLE"]) ∈ reqSink)) (.tok .nil)
  have hp : Der P "particle_phrase" (["PARTICLE"] ++ g.cls) :=
    wrap_der hpad (hP (by decide)) (hP (by decide)) ht g hg
  exact (Der.rule (hP (by decide : ("particle_sequence", ["particle_phrase"]) ∈ reqSink)) (.nt hp .nil)).cast (by simp)

/-- a letter, a gap, then a number sequence: `data` through the kitchen sink -/
theorem letter_numbers_der (g : Gap) (hg : g.ok = true) {w : List String} (hs : Der P "number_sequence" w) :
    Der P "data" ("PARTICLE" :: g.cls ++ w) := by
  have hl := letter_seq_der hP g hg
  have j1 : Der P "kitchen_junk" ("PARTICLE" :: g.cls) :=
    (Der.rule (hP (by decide : ("kitchen_junk", ["particle_sequence"]) ∈ reqSink)) (.nt hl .nil)).cast (by simp)
  have k1 : Der P "kitchen_sink" ("PARTICLE" :: g.cls) :=
    (Der.rule (hP (by decide : ("kitchen_sink", ["kitchen_junk"]) ∈ reqSink)) (.nt j1 .nil)).cast (by simp)
  have j2 : Der P "kitchen_junk" w :=
    (Der.rule (hP (by decide : ("kitchen_junk", ["number_sequence"]) ∈ reqSink)) (.nt hs .nil)).cast (by simp)
  have k2 : Der P "kitchen_sink" ("PARTICLE" :: g.cls ++ w) :=
    (Der.rule (hP (by decide : ("kitchen_sink", ["kitchen_sink", "kitchen_junk"]) ∈ reqSink))
      (.nt k1 (.nt j2 .nil))).cast (by simp)
  exact (Der.rule (hP (by decide : ("data", ["kitchen_sink"]) ∈ reqSink)) (.nt k2 .nil)).cast (by simp)

end sink

/-! ## SI / SP / SB / DS with an option letter (`DataParser`) -/

def reqLettered : Prods := reqIntro ++ reqSink ++ [("data_input", ["introduction", "data"])]

theorem reqIntro_sub_lettered : reqIntro ⊆ reqLettered := by decide
theorem reqSink_sub_lettered : reqSink ⊆ reqLettered := by decide

theorem lettered_der (hP : reqLettered ⊆ P) (lead : Gap) (c : Classifier) (g0 : Gap) (l : String) (g : Gap)
    (es : Entries) (hwf : (XCard.mk lead c g0 (.lettered l g es)).WF = true) :
    Der P "data_input" (XCard.mk lead c g0 (.lettered l g es)).classes := by
  have hin : reqIntro ⊆ P := fun _ h => hP (reqIntro_sub_lettered h)
  have hsk : reqSink ⊆ P := fun _ h => hP (reqSink_sub_lettered h)
  have hnum : reqNumbers ⊆ P := fun _ h => hsk (reqNumbers_sub_sink h)
  simp [XCard.WF] at hwf
  obtain ⟨⟨⟨hl, hg0⟩, hc⟩, ⟨⟨hg, hes⟩, hne⟩, _⟩ := hwf
  have hi := intro_der hin lead c g0 hl hc hg0
  have hs := entries_der hnum es hne hes
  have hd := letter_numbers_der hsk g (req_split hg).1 hs
  exact (Der.rule (hP (by decide : ("data_input", ["introduction", "data"]) ∈ reqLettered))
    (.nt hi (.nt hd .nil))).cast (by simp [XCard.classes])

/-! ## SDEF (`ParamOnlyDataParser`) -/

def reqSdef : Prods :=
  reqIntro ++ reqSink ++
  [("param_data_input", ["param_introduction"]), ("param_data_input", ["param_introduction", "spec_parameters"]),
   ("param_introduction", ["classifier_phrase"]), ("param_introduction", ["padding", "classifier_phrase"]),
   ("spec_parameters", ["spec_parameter"]), ("spec_parameters", ["spec_parameters", "spec_parameter"]),
   ("spec_parameter", ["spec_classifier", "param_seperator", "data"]),
   ("spec_classifier", ["spec_data_prefix"]), ("spec_data_prefix", ["KEYWORD"])]

theorem reqIntro_sub_sdef : reqIntro ⊆ reqSdef := by decide
theorem reqSink_sub_sdef : reqSink ⊆ reqSdef := by decide
theorem reqClassifier_sub_sdef : reqClassifier ⊆ reqSdef := by decide
theorem reqPadding_sub_sdef : reqPadding ⊆ reqSdef := by decide

section sdef
variable (hP : reqSdef ⊆ P)
include hP

theorem sdefparam_der (p : SdefParam) (hwf : p.WF = true) : Der P "spec_parameter" p.classes := by
  have hsk : reqSink ⊆ P := fun _ h => hP (reqSink_sub_sdef h)
  have hcl : reqClassifier ⊆ P := fun _ h => hP (reqClassifier_sub_sdef h)
  have hnum : reqNumbers ⊆ P := fun _ h => hsk (reqNumbers_sub_sink h)
  obtain ⟨key, sep, val⟩ := p
  simp [SdefParam.WF] at hwf
  obtain ⟨hsep, hval⟩ := hwf
  have hk : Der P "spec_classifier" ["KEYWORD"] := by
    have h0 : Der P "spec_data_prefix" ["KEYWORD"] :=
      Der.rule (hP (by decide : ("spec_data_prefix", ["KEYWORD"]) ∈ reqSdef)) (.tok .nil)
    exact (Der.rule (hP (by decide : ("spec_classifier", ["spec_data_prefix"]) ∈ reqSdef)) (.nt h0 .nil)).cast (by simp)
  have hs := sep_der hcl sep hsep
  have hd : Der P "data" val.classes := by
    cases val with
    | nums es =>
      simp [SdefVal.WF] at hval
      have := entries_der hnum es hval.2 hval.1
      exact (Der.rule (hP (by decide : ("data", ["number_sequence"]) ∈ reqSdef)) (.nt this .nil)).cast
        (by simp [SdefVal.classes])
    | dist l n after =>
      simp [SdefVal.WF] at hval
      have hn : Der P "number_sequence" ("NUMBER" :: after.cls) := by
        have h1 := number_phrase_der hnum after hval
        have h2 : Der P "numerical_phrase" ("NUMBER" :: after.cls) :=
          (Der.rule (hP (by decide : ("numerical_phrase", ["number_phrase"]) ∈ reqSdef)) (.nt h1 .nil)).cast (by simp)
        exact (Der.rule (hP (by decide : ("number_sequence", ["numerical_phrase"]) ∈ reqSdef)) (.nt h2 .nil)).cast
          (by simp)
      have := letter_numbers_der hsk [] (by decide) hn
      simpa [Gap.cls, SdefVal.classes] using this
    | particle w after =>
      simp [SdefVal.WF] at hval
      have := letter_seq_der hsk after hval
      exact (Der.rule (hP (by decide : ("data", ["particle_sequence"]) ∈ reqSdef)) (.nt this .nil)).cast
        (by simp [SdefVal.classes])
  exact (Der.rule (hP (by decide : ("spec_parameter", ["spec_classifier", "param_seperator", "data"]) ∈ reqSdef))
    (.nt hk (.nt hs (.nt hd .nil)))).cast (by simp [SdefParam.classes])

theorem sdef_der (lead : Gap) (c : Classifier) (g0 : Gap) (ps : List SdefParam)
    (hwf : (XCard.mk lead c g0 (.sdef ps)).WF = true) :
    Der P "param_data_input" (XCard.mk lead c g0 (.sdef ps)).classes := by
  have hcl : reqClassifier ⊆ P := fun _ h => hP (reqClassifier_sub_sdef h)
  have hpad : reqPadding ⊆ P := fun _ h => hP (reqPadding_sub_sdef h)
  simp [XCard.WF] at hwf
  obtain ⟨⟨⟨hl, hg0⟩, hc⟩, hps, _⟩ := hwf
  have hcp : Der P "classifier_phrase" (c.classes ++ g0.cls) :=
    wrap_der hpad (hP (by decide)) (hP (by decide)) (classifier_der hcl c hc) g0 hg0
  have hi : Der P "param_introduction" (lead.cls ++ c.classes ++ g0.cls) := by
    by_cases hle : lead = []
    · exact (Der.rule (hP (by decide : ("param_introduction", ["classifier_phrase"]) ∈ reqSdef)) (.nt hcp .nil)).cast
        (by simp [hle, Gap.cls])
    · have hp := pad_der hpad lead hl hle
      exact (Der.rule (hP (by decide : ("param_introduction", ["padding", "classifier_phrase"]) ∈ reqSdef))
        (.nt hp (.nt hcp .nil))).cast (by simp)
  by_cases hpe : ps = []
  · subst hpe
    exact (Der.rule (hP (by decide : ("param_data_input", ["param_introduction"]) ∈ reqSdef)) (.nt hi .nil)).cast
      (by simp [XCard.classes])
  · have hpar : Der P "spec_parameters" (ps.flatMap SdefParam.classes) :=
      leftrec SdefParam.classes ps hpe (fun p hm =>
        ⟨"spec_parameter", hP (by decide), hP (by decide), sdefparam_der hP p (hps p hm)⟩)
    exact (Der.rule (hP (by decide : ("param_data_input", ["param_introduction", "spec_parameters"]) ∈ reqSdef))
      (.nt hi (.nt hpar .nil))).cast (by simp [XCard.classes])

end sdef

end MontePyVerif.Cfg
