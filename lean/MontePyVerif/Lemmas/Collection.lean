import MontePyVerif.Model.Collection
/-! Helper lemmas for C06 (core Lean only). -/
namespace MontePyVerif.Collection

/-- every cached object is a member -/
def CacheOK (c : Cache) (objs : List ObjId) : Prop := ∀ p ∈ c, p.2 ∈ objs

theorem mem_dset {c : Cache} {k : Int} {v : ObjId} {p : Int × ObjId} (h : p ∈ dset c k v) :
    p ∈ c ∨ p = (k, v) := by
  induction c with
  | nil => simp [dset] at h; exact Or.inr h
  | cons a t ih =>
    obtain ⟨k', v'⟩ := a
    simp only [dset] at h
    split at h
    · rcases List.mem_cons.mp h with h | h
      · exact Or.inr h
      · exact Or.inl (List.mem_cons_of_mem _ h)
    · rcases List.mem_cons.mp h with h | h
      · exact Or.inl (h ▸ List.mem_cons_self)
      · rcases ih h with h | h
        · exact Or.inl (List.mem_cons_of_mem _ h)
        · exact Or.inr h

theorem mem_dpop {c : Cache} {k : Int} {p : Int × ObjId} (h : p ∈ dpop c k) : p ∈ c :=
  (List.mem_filter.mp h).1

theorem mem_evict {c : Cache} {o : ObjId} {p : Int × ObjId} (h : p ∈ evict c o) : p ∈ c ∧ p.2 ≠ o := by
  have := List.mem_filter.mp h
  exact ⟨this.1, by simpa using this.2⟩

theorem dget_mem {c : Cache} {k : Int} {v : ObjId} (h : dget c k = some v) : (k, v) ∈ c := by
  induction c with
  | nil => simp [dget] at h
  | cons a t ih =>
    obtain ⟨k', v'⟩ := a
    simp only [dget] at h
    split at h
    · rename_i hk; cases h; subst hk; exact List.mem_cons_self
    · exact List.mem_cons_of_mem _ (ih h)

theorem CacheOK.dset {c : Cache} {objs : List ObjId} (h : CacheOK c objs) (k : Int) {v : ObjId}
    (hv : v ∈ objs) : CacheOK (dset c k v) objs := by
  intro p hp
  rcases mem_dset hp with hp | hp
  · exact h p hp
  · subst hp; exact hv

theorem CacheOK.dpop {c : Cache} {objs : List ObjId} (h : CacheOK c objs) (k : Int) :
    CacheOK (dpop c k) objs := fun p hp => h p (mem_dpop hp)

theorem CacheOK.mono {c : Cache} {objs objs' : List ObjId} (h : CacheOK c objs)
    (hs : ∀ o ∈ objs, o ∈ objs') : CacheOK c objs' := fun p hp => hs _ (h p hp)

/-! ### scan / refresh / firstWith -/

theorem scan_found (num : ObjId → Int) (l : List ObjId) (c : Cache) (n : Int) :
    (scan num l c n).2 = true ↔ n ∈ l.map num := by
  induction l generalizing c with
  | nil => simp [scan]
  | cons o t ih =>
    simp only [scan]
    split
    · rename_i h; simp [h]
    · rename_i h
      rw [ih]
      simp only [List.map_cons, List.mem_cons]
      constructor
      · exact Or.inr
      · rintro (h' | h')
        · exact absurd h'.symm h
        · exact h'

theorem scan_cacheOK (num : ObjId → Int) (l : List ObjId) (c : Cache) (n : Int) (objs : List ObjId)
    (hl : ∀ o ∈ l, o ∈ objs) (hc : CacheOK c objs) : CacheOK (scan num l c n).1 objs := by
  induction l generalizing c with
  | nil => simpa [scan] using hc
  | cons o t ih =>
    simp only [scan]
    have ho : o ∈ objs := hl o List.mem_cons_self
    split
    · exact hc.dset _ ho
    · exact ih _ (fun x hx => hl x (List.mem_cons_of_mem _ hx)) (hc.dset _ ho)

theorem refresh_cacheOK (num : ObjId → Int) (l : List ObjId) (c : Cache) (objs : List ObjId)
    (hl : ∀ o ∈ l, o ∈ objs) (hc : CacheOK c objs) : CacheOK (refresh num l c) objs := by
  induction l generalizing c with
  | nil => simpa [refresh] using hc
  | cons o t ih =>
    simp only [refresh]
    exact ih _ (fun x hx => hl x (List.mem_cons_of_mem _ hx)) (hc.dset _ (hl o List.mem_cons_self))

theorem firstWith_some {num : ObjId → Int} {l : List ObjId} {n : Int} {o : ObjId}
    (h : firstWith num l n = some o) : o ∈ l ∧ num o = n := by
  induction l with
  | nil => simp [firstWith] at h
  | cons a t ih =>
    simp only [firstWith] at h
    split at h
    · cases h; rename_i hn; exact ⟨List.mem_cons_self, hn⟩
    · exact ⟨List.mem_cons_of_mem _ (ih h).1, (ih h).2⟩

theorem firstWith_none {num : ObjId → Int} {l : List ObjId} {n : Int}
    (h : firstWith num l n = none) : n ∉ l.map num := by
  induction l with
  | nil => simp
  | cons a t ih =>
    simp only [firstWith] at h
    split at h
    · cases h
    · rename_i hn
      simp only [List.map_cons, List.mem_cons, not_or]
      exact ⟨fun e => hn e.symm, ih h⟩

theorem firstWith_of_nodup {num : ObjId → Int} {l : List ObjId} {n : Int} {o : ObjId}
    (hnd : (l.map num).Nodup) (ho : o ∈ l) (hn : num o = n) : firstWith num l n = some o := by
  induction l with
  | nil => cases ho
  | cons a t ih =>
    simp only [List.map_cons, List.nodup_cons] at hnd
    simp only [firstWith]
    rcases List.mem_cons.mp ho with rfl | ho
    · simp [hn]
    · have : num a ≠ n := by
        intro e
        exact hnd.1 (e ▸ hn ▸ List.mem_map_of_mem ho)
      simp [this, ih hnd.2 ho]

end MontePyVerif.Collection

namespace MontePyVerif.Collection

/-- `s'` differs from `s` at most in the number cache. -/
structure Core (s s' : St) : Prop where
  objs : s'.objs = s.objs
  num : s'.num = s.num
  link : s'.link = s.link
  owned : s'.owned = s.owned

theorem Core.refl (s : St) : Core s s := ⟨rfl, rfl, rfl, rfl⟩
theorem Core.trans {a b c : St} (h1 : Core a b) (h2 : Core b c) : Core a c :=
  ⟨h2.objs.trans h1.objs, h2.num.trans h1.num, h2.link.trans h1.link, h2.owned.trans h1.owned⟩

/-- The invariant of C06: no two members share a number, the cache holds members only, and every
    member of a problem-owned collection is linked to that problem. -/
structure Inv (s : St) : Prop where
  nodup : (s.objs.map s.num).Nodup
  cache : CacheOK s.cache s.objs
  linked : s.owned = true → ∀ o ∈ s.objs, s.link o = true

theorem Inv.of_core {s s' : St} (h : Inv s) (hc : Core s s') (hk : CacheOK s'.cache s'.objs) : Inv s' :=
  ⟨by rw [hc.objs, hc.num]; exact h.nodup, hk, by rw [hc.objs, hc.link, hc.owned]; exact h.linked⟩

/-! ### get / inNumbers / conflict / checkNumber -/

theorem getSlow_core (s : St) (i : Int) : Core s (getSlow s i).1 := by
  unfold getSlow
  split
  · exact ⟨rfl, rfl, rfl, rfl⟩
  · exact Core.refl s

theorem getSlow_cacheOK (s : St) (i : Int) (h : CacheOK s.cache s.objs) :
    CacheOK (getSlow s i).1.cache (getSlow s i).1.objs := by
  unfold getSlow
  split
  · rename_i o ho
    exact h.dset _ (firstWith_some ho).1
  · exact h

theorem getSlow_some {s : St} {i : Int} {o : ObjId} (h : (getSlow s i).2 = some o) :
    o ∈ s.objs ∧ s.num o = i := by
  unfold getSlow at h
  split at h
  · rename_i o' ho
    cases h
    exact firstWith_some ho
  · cases h

theorem get_core (s : St) (i : Int) : Core s (get s i).1 := by
  unfold get
  split
  · split
    · exact Core.refl s
    · exact getSlow_core s i
  · exact getSlow_core s i

theorem get_cacheOK (s : St) (i : Int) (h : CacheOK s.cache s.objs) :
    CacheOK (get s i).1.cache (get s i).1.objs := by
  unfold get
  split
  · split
    · exact h
    · exact getSlow_cacheOK s i h
  · exact getSlow_cacheOK s i h

theorem get_some {s : St} {i : Int} {o : ObjId} (hc : CacheOK s.cache s.objs)
    (h : (get s i).2 = some o) : o ∈ s.objs ∧ s.num o = i := by
  unfold get at h
  split at h
  · rename_i r hr
    split at h
    · rename_i hn
      cases h
      exact ⟨hc _ (dget_mem hr), hn⟩
    · exact getSlow_some h
  · exact getSlow_some h

theorem get_of_mem {s : St} {i : Int} {o : ObjId} (hnd : (s.objs.map s.num).Nodup)
    (hc : CacheOK s.cache s.objs) (ho : o ∈ s.objs) (hn : s.num o = i) : (get s i).2 = some o := by
  have hfw := firstWith_of_nodup hnd ho hn
  unfold get
  split
  · rename_i r hr
    split
    · rename_i hrn
      -- r is a member with the same number: by injectivity of `num` on members it is `o`
      have hr' : r ∈ s.objs := hc _ (dget_mem hr)
      have := firstWith_of_nodup hnd hr' hrn
      rw [hfw] at this
      cases this
      rfl
    · simp [getSlow, hfw]
  · simp [getSlow, hfw]

theorem inNumbers_core (s : St) (n : Int) : Core s (inNumbers s n).1 := ⟨rfl, rfl, rfl, rfl⟩

theorem inNumbers_cacheOK (s : St) (n : Int) (h : CacheOK s.cache s.objs) :
    CacheOK (inNumbers s n).1.cache (inNumbers s n).1.objs :=
  scan_cacheOK _ _ _ _ _ (fun _ h => h) h

theorem inNumbers_found (s : St) (n : Int) : (inNumbers s n).2 = true ↔ n ∈ s.objs.map s.num :=
  scan_found _ _ _ _

theorem conflict_core (s : St) (n : Int) : Core s (conflict s n).1 := get_core s n
theorem conflict_cacheOK (s : St) (n : Int) (h : CacheOK s.cache s.objs) :
    CacheOK (conflict s n).1.cache (conflict s n).1.objs := get_cacheOK s n h
theorem conflict_out (s : St) (n : Int) : (conflict s n).2 = .err .numberConflict := rfl

theorem checkNumber_core (s : St) (n : Int) : Core s (checkNumber s n).1 := by
  unfold checkNumber
  split
  rename_i s1 found heq
  have h1 : s1 = (inNumbers s n).1 := by rw [heq]
  split
  · exact (h1 ▸ inNumbers_core s n).trans (conflict_core s1 n)
  · exact h1 ▸ inNumbers_core s n

theorem checkNumber_cacheOK (s : St) (n : Int) (h : CacheOK s.cache s.objs) :
    CacheOK (checkNumber s n).1.cache (checkNumber s n).1.objs := by
  unfold checkNumber
  split
  rename_i s1 found heq
  have h1 : s1 = (inNumbers s n).1 := by rw [heq]
  have hk : CacheOK s1.cache s1.objs := h1 ▸ inNumbers_cacheOK s n h
  split
  · exact conflict_cacheOK s1 n hk
  · exact hk

theorem checkNumber_ok {s : St} {n : Int} (h : (checkNumber s n).2 = .ok) : n ∉ s.objs.map s.num := by
  unfold checkNumber at h
  split at h
  rename_i s1 found heq
  have h2 : found = (inNumbers s n).2 := by rw [heq]
  split at h
  · simp [conflict] at h
  · rename_i hf
    rw [h2] at hf
    exact fun hm => hf ((inNumbers_found s n).mpr hm)

theorem checkNumber_out (s : St) (n : Int) :
    (checkNumber s n).2 = .ok ∨ (checkNumber s n).2 = .err .numberConflict := by
  unfold checkNumber
  split
  split
  · exact Or.inr rfl
  · exact Or.inl rfl

end MontePyVerif.Collection

namespace MontePyVerif.Collection

/-! ### list facts -/

theorem map_update_of_not_mem (num : ObjId → Int) (o : ObjId) (n : Int) (l : List ObjId) (h : o ∉ l) :
    l.map (fun x => if x = o then n else num x) = l.map num := by
  apply List.map_congr_left
  intro x hx
  have : x ≠ o := fun e => h (e ▸ hx)
  simp [this]

theorem nodup_map_update (num : ObjId → Int) (o : ObjId) (n : Int) (l : List ObjId)
    (hnd : (l.map num).Nodup) (hn : n ∉ l.map num) :
    (l.map (fun x => if x = o then n else num x)).Nodup := by
  induction l with
  | nil => simp
  | cons a t ih =>
    simp only [List.map_cons, List.nodup_cons, List.mem_cons, not_or] at hnd hn ⊢
    refine ⟨?_, ih hnd.2 hn.2⟩
    intro hmem
    obtain ⟨x, hx, hxe⟩ := List.mem_map.mp hmem
    by_cases hao : a = o
    · -- head is the renumbered object: it does not occur in the tail
      have hxo : x ≠ o := by
        intro e
        exact hnd.1 (List.mem_map.mpr ⟨x, hx, by rw [e, hao]⟩)
      simp [hao, hxo] at hxe
      exact hn.2 (hxe ▸ List.mem_map_of_mem hx)
    · simp only [hao, if_false] at hxe
      by_cases hxo : x = o
      · simp [hxo] at hxe
        exact hn.1 hxe
      · simp [hxo] at hxe
        exact hnd.1 (hxe ▸ List.mem_map_of_mem hx)

theorem mem_eraseIdx_of_ne {α} {x o : α} : ∀ {l : List α} {i : Nat}, x ∈ l → l[i]? = some o → x ≠ o →
    x ∈ l.eraseIdx i
  | [], _, h, _, _ => by cases h
  | a :: t, 0, h, hi, hne => by
    simp at hi
    rcases List.mem_cons.mp h with rfl | h
    · exact absurd hi hne
    · simpa using h
  | a :: t, i + 1, h, hi, hne => by
    simp only [List.eraseIdx_cons_succ, List.mem_cons]
    rcases List.mem_cons.mp h with rfl | h
    · exact Or.inl rfl
    · exact Or.inr (mem_eraseIdx_of_ne h (by simpa using hi) hne)

theorem maxOf_ge : ∀ {l : List Int} {m : Int}, maxOf l = some m → ∀ x ∈ l, x ≤ m
  | [], _, h, _, hx => by cases hx
  | a :: t, m, h, x, hx => by
    simp only [maxOf] at h
    split at h
    · rename_i hn
      cases h
      rcases List.mem_cons.mp hx with rfl | hx
      · exact Int.le_refl _
      · cases t with
        | nil => cases hx
        | cons b u =>
          simp only [maxOf] at hn
          split at hn <;> cases hn
    · rename_i m' hm'
      cases h
      rcases List.mem_cons.mp hx with rfl | hx
      · split <;> omega
      · have := maxOf_ge hm' x hx
        split <;> omega

/-! ### append -/

theorem append_inv {s : St} (h : Inv s) (o : ObjId) : Inv (append s o).1 := by
  unfold append
  split
  rename_i s1 found heq
  have h1 : s1 = (inNumbers s (s.num o)).1 := by rw [heq]
  have h2 : found = (inNumbers s (s.num o)).2 := by rw [heq]
  have hc1 : Core s s1 := h1 ▸ inNumbers_core s _
  have hk1 : CacheOK s1.cache s1.objs := h1 ▸ inNumbers_cacheOK s _ h.cache
  have i1 : Inv s1 := h.of_core hc1 hk1
  split
  · exact i1.of_core (conflict_core s1 _) (conflict_cacheOK s1 _ hk1)
  · rename_i hf
    have hfresh : s.num o ∉ s.objs.map s.num := by
      intro hm
      exact hf (h2 ▸ (inNumbers_found s _).mpr hm)
    refine ⟨?_, ?_, ?_⟩
    · show ((s1.objs ++ [o]).map s1.num).Nodup
      rw [hc1.objs, hc1.num, List.map_append]
      refine List.nodup_append.mpr ⟨h.nodup, by simp, ?_⟩
      intro a ha b hb
      simp at hb
      subst hb
      exact fun e => hfresh (e ▸ ha)
    · show CacheOK (dset s1.cache (s.num o) o) (s1.objs ++ [o])
      exact (hk1.mono (fun x hx => List.mem_append_left _ hx)).dset _ (by simp)
    · intro how x hx
      show (if x = o ∧ s.owned = true then true else s1.link x) = true
      rcases List.mem_append.mp hx with hx | hx
      · split
        · rfl
        · rw [hc1.link]
          exact h.linked (by simpa [hc1.owned] using how) x (hc1.objs ▸ hx)
      · simp at hx
        have how' : s.owned = true := by simpa [hc1.owned] using how
        simp [hx, how']

theorem append_out (s : St) (o : ObjId) :
    (append s o).2 = .ok ∨ (append s o).2 = .err .numberConflict := by
  unfold append
  split
  split
  · exact Or.inr rfl
  · exact Or.inl rfl

theorem append_ok_objs {s : St} {o : ObjId} (h : (append s o).2 = .ok) :
    (append s o).1.objs = s.objs ++ [o] ∧ (append s o).1.num = s.num := by
  unfold append at h ⊢
  split
  rename_i s1 found heq
  have h1 : s1 = (inNumbers s (s.num o)).1 := by rw [heq]
  have hc1 : Core s s1 := h1 ▸ inNumbers_core s _
  simp only [heq] at h
  split at h
  · simp [conflict] at h
  · rename_i hf
    simp only [hf]
    exact ⟨by simp [hc1.objs], hc1.num⟩

theorem append_err_core {s : St} {o : ObjId} (h : (append s o).2 ≠ .ok) : Core s (append s o).1 := by
  unfold append at h ⊢
  split
  rename_i s1 found heq
  have h1 : s1 = (inNumbers s (s.num o)).1 := by rw [heq]
  have hc1 : Core s s1 := h1 ▸ inNumbers_core s _
  simp only [heq] at h
  split
  · exact hc1.trans (conflict_core s1 _)
  · rename_i hf
    simp [hf] at h

theorem append_ok_of_fresh {s : St} {o : ObjId} (h : s.num o ∉ s.objs.map s.num) : (append s o).2 = .ok := by
  unfold append
  split
  rename_i s1 found heq
  have h2 : found = (inNumbers s (s.num o)).2 := by rw [heq]
  have : found = false := by
    cases hf : found
    · rfl
    · exact absurd ((inNumbers_found s _).mp (h2 ▸ hf)) h
  simp [this]

/-! ### setNumber -/

theorem setNumber_inv {s : St} (h : Inv s) (o : ObjId) (n : Int)
    (hadm : o ∈ s.objs → s.link o = true) : Inv (setNumber s o n).1 := by
  unfold setNumber
  split
  · exact h
  · split
    · -- linked: checked against the collection
      have hcore := checkNumber_core s n
      have hk := checkNumber_cacheOK s n h.cache
      have i1 : Inv (checkNumber s n).1 := h.of_core hcore hk
      simp only []
      split
      · rename_i hok
        have hfresh := checkNumber_ok hok
        refine ⟨?_, hk, i1.linked⟩
        show (((checkNumber s n).1.objs).map (fun x => if x = o then n else (checkNumber s n).1.num x)).Nodup
        rw [hcore.objs, hcore.num]
        exact nodup_map_update _ _ _ _ h.nodup hfresh
      · exact i1
    · rename_i hl
      have ho : o ∉ s.objs := fun hm => hl (hadm hm)
      refine ⟨?_, h.cache, h.linked⟩
      show (s.objs.map (fun x => if x = o then n else s.num x)).Nodup
      rw [map_update_of_not_mem _ _ _ _ ho]
      exact h.nodup

/-- what `setNumber` can do to the rest of the state: the members are untouched. -/
theorem setNumber_objs (s : St) (o : ObjId) (n : Int) :
    (setNumber s o n).1.objs = s.objs ∧ (setNumber s o n).1.link = s.link ∧ (setNumber s o n).1.owned = s.owned := by
  unfold setNumber
  split
  · exact ⟨rfl, rfl, rfl⟩
  · split
    · have hcore := checkNumber_core s n
      simp only []
      split
      · exact ⟨hcore.objs, hcore.link, hcore.owned⟩
      · exact ⟨hcore.objs, hcore.link, hcore.owned⟩
    · exact ⟨rfl, rfl, rfl⟩

theorem setNumber_err_core {s : St} {o : ObjId} {n : Int} (h : (setNumber s o n).2 ≠ .ok) :
    Core s (setNumber s o n).1 := by
  unfold setNumber at h ⊢
  split
  · exact Core.refl s
  · rename_i hn
    simp only [hn, if_false] at h
    split
    · rename_i hl
      simp only [hl, if_true] at h
      have hcore := checkNumber_core s n
      simp only [] at h ⊢
      split
      · rename_i hok
        simp [hok] at h
      · exact hcore
    · rename_i hl
      simp [hl] at h

/-- after a successful `setNumber` the object carries the number and nobody else changed. -/
theorem setNumber_ok_num {s : St} {o : ObjId} {n : Int} (h : (setNumber s o n).2 = .ok) :
    (setNumber s o n).1.num = fun x => if x = o then n else s.num x := by
  unfold setNumber at h ⊢
  split
  · rename_i hn; simp [hn] at h
  · split
    · have hcore := checkNumber_core s n
      simp only []
      split
      · show (fun x => if x = o then n else (checkNumber s n).1.num x) = _
        rw [hcore.num]
      · rename_i hl hnok
        simp [*] at h
    · rfl

end MontePyVerif.Collection

namespace MontePyVerif.Collection

/-! ### request_number / next_number -/

theorem requestLoop_core (k : Int) : ∀ (fuel : Nat) (s : St) (n : Int), Core s (requestLoop k fuel s n).1
  | 0, s, _ => Core.refl s
  | fuel + 1, s, n => by
    simp only [requestLoop]
    split
    · exact (inNumbers_core s n).trans (requestLoop_core k fuel _ _)
    · exact inNumbers_core s n

theorem requestLoop_cacheOK (k : Int) : ∀ (fuel : Nat) (s : St) (n : Int), CacheOK s.cache s.objs →
    CacheOK (requestLoop k fuel s n).1.cache (requestLoop k fuel s n).1.objs
  | 0, _, _, h => h
  | fuel + 1, s, n, h => by
    simp only [requestLoop]
    split
    · exact requestLoop_cacheOK k fuel _ _ (inNumbers_cacheOK s n h)
    · exact inNumbers_cacheOK s n h

theorem requestLoop_free (k : Int) : ∀ (fuel : Nat) (s : St) (n m : Int),
    (requestLoop k fuel s n).2 = some m → m ∉ s.objs.map s.num
  | 0, _, _, _, h => by simp [requestLoop] at h
  | fuel + 1, s, n, m, h => by
    simp only [requestLoop] at h
    split at h
    · have := requestLoop_free k fuel _ _ _ h
      simpa [(inNumbers_core s n).objs, (inNumbers_core s n).num] using this
    · rename_i hf
      simp at h
      subst h
      exact fun hm => hf ((inNumbers_found s n).mpr hm)

theorem requestNumber_core (s : St) (a k : Int) : Core s (requestNumber s a k).1 := by
  unfold requestNumber
  split
  · exact Core.refl s
  · split
    · rename_i s1 n heq
      have : s1 = (requestLoop k (s.objs.length + 1) s a).1 := by rw [heq]
      exact this ▸ requestLoop_core k _ s a
    · rename_i s1 heq
      have : s1 = (requestLoop k (s.objs.length + 1) s a).1 := by rw [heq]
      exact this ▸ requestLoop_core k _ s a

theorem requestNumber_cacheOK (s : St) (a k : Int) (h : CacheOK s.cache s.objs) :
    CacheOK (requestNumber s a k).1.cache (requestNumber s a k).1.objs := by
  unfold requestNumber
  split
  · exact h
  · split
    · rename_i s1 n heq
      have : s1 = (requestLoop k (s.objs.length + 1) s a).1 := by rw [heq]
      exact this ▸ requestLoop_cacheOK k _ s a h
    · rename_i s1 heq
      have : s1 = (requestLoop k (s.objs.length + 1) s a).1 := by rw [heq]
      exact this ▸ requestLoop_cacheOK k _ s a h

theorem requestNumber_free {s : St} {a k n : Int} (h : (requestNumber s a k).2 = .int n) :
    n ∉ s.objs.map s.num := by
  unfold requestNumber at h
  split at h
  · cases h
  · split at h
    · rename_i s1 m heq
      cases h
      have : (requestLoop k (s.objs.length + 1) s a).2 = some n := by rw [heq]
      exact requestLoop_free k _ s a n this
    · cases h

theorem nextNumber_core (s : St) (k : Int) : Core s (nextNumber s k).1 := by
  unfold nextNumber
  split
  · exact Core.refl s
  · simp only []
    split <;> exact ⟨rfl, rfl, rfl, rfl⟩

theorem nextNumber_cacheOK (s : St) (k : Int) (h : CacheOK s.cache s.objs) :
    CacheOK (nextNumber s k).1.cache (nextNumber s k).1.objs := by
  unfold nextNumber
  split
  · exact h
  · simp only []
    split <;> exact refresh_cacheOK _ _ _ _ (fun _ h => h) h

theorem nextNumber_free {s : St} {k n : Int} (h : (nextNumber s k).2 = .int n) :
    n ∉ s.objs.map s.num := by
  unfold nextNumber at h
  split at h
  · cases h
  · rename_i hk
    simp only [] at h
    split at h
    · rename_i hm
      cases h
      cases hs : s.objs with
      | nil => simp
      | cons a t => simp [hs, maxOf] at hm; split at hm <;> cases hm
    · rename_i m hm
      cases h
      intro hmem
      have := maxOf_ge hm _ hmem
      omega

/-! ### append_renumber -/

theorem appendRenumber_inv {s : St} (h : Inv s) (o : ObjId) (k : Int) : Inv (appendRenumber s o k).1 := by
  unfold appendRenumber
  split
  · exact h
  · rename_i hno
    simp only []
    -- the number is looked for first: only the cache can change
    have i0 : Inv (checkNumber s (s.num o)).1 :=
      h.of_core (checkNumber_core _ _) (checkNumber_cacheOK _ _ h.cache)
    have c0 := checkNumber_core s (s.num o)
    split
    · have i1 := append_inv i0 o
      split
      · exact i1
      · exact i1
    · have i2 : Inv (requestNumber (checkNumber s (s.num o)).1 (s.num o) k).1 :=
        i0.of_core (requestNumber_core _ _ _) (requestNumber_cacheOK _ _ _ i0.cache)
      have c2 := requestNumber_core (checkNumber s (s.num o)).1 (s.num o) k
      split
      · rename_i n _
        split
        · exact i2
        · -- the object is linked, renumbered, appended
          have ho2 : o ∉ (requestNumber (checkNumber s (s.num o)).1 (s.num o) k).1.objs := by
            rw [c2.objs, c0.objs]; exact hno
          have i3 : Inv { (requestNumber (checkNumber s (s.num o)).1 (s.num o) k).1 with
              link := fun x => if x = o ∧ s.owned = true then true
                else (requestNumber (checkNumber s (s.num o)).1 (s.num o) k).1.link x } := by
            refine ⟨i2.nodup, i2.cache, ?_⟩
            intro how x hx
            show (if x = o ∧ s.owned = true then true else _) = true
            split
            · rfl
            · exact i2.linked how x hx
          have i4 := setNumber_inv i3 o n (fun hm => absurd hm ho2)
          split
          · have i5 := append_inv i4 o
            split
            · exact i5
            · exact i5
          · exact i4
      · exact i2

/-! ### extend / += -/

theorem checkAllC_spec (g : Bool) (num : ObjId → Int) (objs : List ObjId) :
    ∀ (os : List ObjId) (c : Cache) (seen : List Int), CacheOK c objs →
    CacheOK (checkAllC g num objs c os seen).1 objs ∧
    ((checkAllC g num objs c os seen).2 = none →
      (os.map num).Nodup ∧ ∀ o ∈ os, num o ∉ objs.map num ∧ num o ∉ seen)
  | [], c, seen, h => ⟨h, fun _ => ⟨by simp, by simp⟩⟩
  | o :: t, c, seen, h => by
    simp only [checkAllC]
    have hk1 : CacheOK (scan num objs c (num o)).1 objs := scan_cacheOK _ _ _ _ _ (fun _ h => h) h
    split
    · exact ⟨hk1, fun hn => by simp at hn⟩
    · rename_i hcond
      simp only [not_or] at hcond
      have hfresh : num o ∉ objs.map num := fun hm => hcond.1 ((scan_found _ _ _ _).mpr hm)
      have hk2 : CacheOK (if g = true then dpop (scan num objs c (num o)).1 (num o) else (scan num objs c (num o)).1) objs := by
        split
        · exact hk1.dpop _
        · exact hk1
      obtain ⟨r2, r3⟩ := checkAllC_spec g num objs t _ (num o :: seen) hk2
      refine ⟨r2, fun hn => ?_⟩
      obtain ⟨nd, fr⟩ := r3 hn
      refine ⟨?_, ?_⟩
      · simp only [List.map_cons, List.nodup_cons]
        refine ⟨?_, nd⟩
        intro hm
        obtain ⟨x, hx, hxe⟩ := List.mem_map.mp hm
        exact (fr x hx).2 (by simp [hxe])
      · intro x hx
        rcases List.mem_cons.mp hx with rfl | hx
        · exact ⟨hfresh, hcond.2⟩
        · exact ⟨(fr x hx).1, fun hs => (fr x hx).2 (List.mem_cons_of_mem _ hs)⟩

theorem checkAll_spec (g : Bool) (os : List ObjId) (s : St) (h : CacheOK s.cache s.objs) :
    Core s (checkAll g s os).1 ∧
    CacheOK (checkAll g s os).1.cache (checkAll g s os).1.objs ∧
    ((checkAll g s os).2 = none →
      (os.map s.num).Nodup ∧ ∀ o ∈ os, s.num o ∉ s.objs.map s.num) := by
  obtain ⟨r2, r3⟩ := checkAllC_spec g s.num s.objs os s.cache [] h
  refine ⟨⟨rfl, rfl, rfl, rfl⟩, r2, fun hn => ?_⟩
  obtain ⟨nd, fr⟩ := r3 hn
  exact ⟨nd, fun o ho => (fr o ho).1⟩

theorem setAll_cacheOK (num : ObjId → Int) (objs : List ObjId) : ∀ (os : List ObjId) (c : Cache),
    CacheOK c objs → (∀ o ∈ os, o ∈ objs) → CacheOK (setAll num c os) objs
  | [], _, h, _ => h
  | o :: t, c, h, hm => by
    simp only [setAll]
    exact setAll_cacheOK num objs t _ (h.dset _ (hm o List.mem_cons_self))
      (fun x hx => hm x (List.mem_cons_of_mem _ hx))

/-- shape shared by the success branch of `extend` and `+=`: the new members are appended. -/
theorem grow_inv {s s1 : St} (h : Inv s) (hc : Core s s1) (os : List ObjId) (c' : Cache)
    (hk : CacheOK c' (s1.objs ++ os)) (nd : (os.map s.num).Nodup)
    (fr : ∀ o ∈ os, s.num o ∉ s.objs.map s.num) :
    Inv { s1 with cache := c', objs := s1.objs ++ os,
                  link := fun x => if x ∈ os ∧ s.owned = true then true else s1.link x } := by
  refine ⟨?_, hk, ?_⟩
  · show ((s1.objs ++ os).map s1.num).Nodup
    rw [hc.objs, hc.num, List.map_append]
    refine List.nodup_append.mpr ⟨h.nodup, nd, ?_⟩
    intro a ha b hb e
    obtain ⟨x, hx, hxe⟩ := List.mem_map.mp hb
    exact fr x hx (hxe ▸ e ▸ ha)
  · intro how x hx
    show (if x ∈ os ∧ s.owned = true then true else s1.link x) = true
    have how' : s.owned = true := by simpa [hc.owned] using how
    rcases List.mem_append.mp hx with hx | hx
    · split
      · rfl
      · rw [hc.link]; exact h.linked how' x (hc.objs ▸ hx)
    · simp [hx, how']

theorem extend_inv {s : St} (h : Inv s) (os : List ObjId) : Inv (extend s os).1 := by
  unfold extend
  obtain ⟨r1, r2, r3⟩ := checkAll_spec true os s h.cache
  split
  · rename_i s1 n heq
    have e1 : s1 = (checkAll true s os).1 := by rw [heq]
    subst e1
    exact (h.of_core r1 r2).of_core (conflict_core _ _) (conflict_cacheOK _ _ r2)
  · rename_i s1 heq
    have e1 : s1 = (checkAll true s os).1 := by rw [heq]
    have e2 : (checkAll true s os).2 = none := by rw [heq]
    subst e1
    obtain ⟨nd, fr⟩ := r3 e2
    exact grow_inv h r1 os _ (r2.mono (fun x hx => List.mem_append_left _ hx)) nd fr

theorem iadd_inv {s : St} (h : Inv s) (os : List ObjId) : Inv (iadd s os).1 := by
  unfold iadd
  obtain ⟨r1, r2, r3⟩ := checkAll_spec false os s h.cache
  split
  · rename_i s1 n heq
    have e1 : s1 = (checkAll false s os).1 := by rw [heq]
    subst e1
    exact (h.of_core r1 r2).of_core (conflict_core _ _) (conflict_cacheOK _ _ r2)
  · rename_i s1 heq
    have e1 : s1 = (checkAll false s os).1 := by rw [heq]
    have e2 : (checkAll false s os).2 = none := by rw [heq]
    subst e1
    obtain ⟨nd, fr⟩ := r3 e2
    refine grow_inv h r1 os _ ?_ nd fr
    exact setAll_cacheOK _ _ _ _ (r2.mono (fun x hx => List.mem_append_left _ hx))
      (fun o ho => List.mem_append_right _ ho)

/-! ### pop / remove / del / clear / slice -/

theorem shrink_inv {s : St} (h : Inv s) (objs' : List ObjId) (c' : Cache)
    (hsub : List.Sublist objs' s.objs) (hk : CacheOK c' objs') :
    Inv { s with objs := objs', cache := c' } := by
  refine ⟨?_, hk, fun how x hx => h.linked how x (hsub.subset hx)⟩
  exact (hsub.map s.num).nodup h.nodup

theorem pop_inv {s : St} (h : Inv s) (pos : Int) : Inv (pop s pos).1 := by
  unfold pop
  split
  · exact h
  · rename_i i _
    split
    · exact h
    · rename_i o ho
      refine shrink_inv h _ _ (List.eraseIdx_sublist _ _) ?_
      intro p hp
      obtain ⟨hp1, hp2⟩ := mem_evict hp
      exact mem_eraseIdx_of_ne (h.cache p hp1) ho hp2

theorem firstEqv_mem {s : St} {o m : ObjId} : ∀ {l : List ObjId}, firstEqv s o l = some m → m ∈ l
  | [], h => by simp [firstEqv] at h
  | a :: t, h => by
    simp only [firstEqv] at h
    split at h
    · cases h; exact List.mem_cons_self
    · exact List.mem_cons_of_mem _ (firstEqv_mem h)

/-- with unique numbers the first member `==` a member is that member itself -/
theorem firstEqv_self {s : St} {o : ObjId} (hnd : (s.objs.map s.num).Nodup) (ho : o ∈ s.objs) :
    firstEqv s o s.objs = some o := by
  have key : ∀ (l : List ObjId), (l.map s.num).Nodup → o ∈ l → firstEqv s o l = some o := by
    intro l
    induction l with
    | nil => intro _ h; cases h
    | cons a t ih =>
      intro hn hm
      simp only [List.map_cons, List.nodup_cons] at hn
      simp only [firstEqv]
      rcases List.mem_cons.mp hm with rfl | hm
      · simp [eqv]
      · have hne : a ≠ o := by
          intro e; subst e
          exact hn.1 (List.mem_map_of_mem hm)
        have hnum : s.num a ≠ s.num o := by
          intro e
          exact hn.1 (e ▸ List.mem_map_of_mem hm)
        simp [eqv, hne, hnum, ih hn.2 hm]
  exact key _ hnd ho

theorem remove_inv {s : St} (h : Inv s) (o : ObjId) : Inv (remove s o).1 := by
  unfold remove
  split
  · rename_i m hm
    refine shrink_inv h _ _ List.erase_sublist ?_
    intro p hp
    obtain ⟨hp1, hp2⟩ := mem_evict hp
    exact (List.mem_erase_of_ne hp2).mpr (h.cache p hp1)
  · exact h

theorem delitem_inv {s : St} (h : Inv s) (n : Int) : Inv (delitem s n).1 := by
  unfold delitem
  have hc := get_core s n
  have hk := get_cacheOK s n h.cache
  have i1 : Inv (get s n).1 := h.of_core hc hk
  split
  · rename_i s1 heq
    have : s1 = (get s n).1 := by rw [heq]
    exact this ▸ i1
  · rename_i s1 o heq
    have e1 : s1 = (get s n).1 := by rw [heq]
    have e2 : (get s n).2 = some o := by rw [heq]
    subst e1
    have ho : o ∈ (get s n).1.objs := by rw [hc.objs]; exact (get_some h.cache e2).1
    rw [firstEqv_self i1.nodup ho]
    have := shrink_inv i1 ((get s n).1.objs.erase o) (evict (get s n).1.cache o) List.erase_sublist (by
      intro p hp
      obtain ⟨hp1, hp2⟩ := mem_evict hp
      exact (List.mem_erase_of_ne hp2).mpr (hk p hp1))
    exact this

theorem clear_inv {s : St} (h : Inv s) : Inv (clear s).1 :=
  ⟨by simp [clear], by intro p hp; simp [clear] at hp, by intro _ x hx; simp [clear] at hx⟩

theorem sliceLoop_core : ∀ (fuel : Nat) (s : St) (n : Int) (acc : List ObjId), Core s (sliceLoop fuel s n acc).1
  | 0, s, _, _ => Core.refl s
  | fuel + 1, s, n, acc => by
    simp only [sliceLoop]
    split
    · rename_i s1 o heq
      have : s1 = (get s n).1 := by rw [heq]
      exact (this ▸ get_core s n).trans (sliceLoop_core fuel s1 _ _)
    · rename_i s1 heq
      have : s1 = (get s n).1 := by rw [heq]
      exact (this ▸ get_core s n).trans (sliceLoop_core fuel s1 _ _)

theorem sliceLoop_cacheOK : ∀ (fuel : Nat) (s : St) (n : Int) (acc : List ObjId), CacheOK s.cache s.objs →
    CacheOK (sliceLoop fuel s n acc).1.cache (sliceLoop fuel s n acc).1.objs
  | 0, _, _, _, h => h
  | fuel + 1, s, n, acc, h => by
    simp only [sliceLoop]
    split
    · rename_i s1 o heq
      have : s1 = (get s n).1 := by rw [heq]
      exact sliceLoop_cacheOK fuel s1 _ _ (this ▸ get_cacheOK s n h)
    · rename_i s1 heq
      have : s1 = (get s n).1 := by rw [heq]
      exact sliceLoop_cacheOK fuel s1 _ _ (this ▸ get_cacheOK s n h)

end MontePyVerif.Collection

namespace MontePyVerif.Collection

/-! ### termination of `request_number` -/

theorem countP_lt_of_imp {α} (p q : α → Bool) : ∀ (l : List α), (∀ x, p x = true → q x = true) →
    (∃ x ∈ l, q x = true ∧ p x = false) → l.countP p < l.countP q
  | [], _, ⟨_, hx, _⟩ => by cases hx
  | a :: t, himp, ⟨x, hx, hq, hp⟩ => by
    have hle : t.countP p ≤ t.countP q := List.countP_mono_left (fun y _ => himp y)
    rcases List.mem_cons.mp hx with rfl | hx
    · rw [List.countP_cons_of_pos hq, List.countP_cons_of_neg (by simp [hp])]
      omega
    · have ih := countP_lt_of_imp p q t himp ⟨x, hx, hq, hp⟩
      by_cases hpa : p a = true
      · rw [List.countP_cons_of_pos hpa, List.countP_cons_of_pos (himp a hpa)]
        omega
      · rw [List.countP_cons_of_neg hpa]
        by_cases hqa : q a = true
        · rw [List.countP_cons_of_pos hqa]; omega
        · rw [List.countP_cons_of_neg hqa]; exact ih

/-- members whose number lies at or beyond `n` in the direction of `k` -/
def ahead (k n : Int) (x : Int) : Bool := if 0 < k then decide (n ≤ x) else decide (x ≤ n)

theorem requestLoop_some (k : Int) (hk : k ≠ 0) : ∀ (fuel : Nat) (s : St) (n : Int),
    (s.objs.map s.num).countP (ahead k n) < fuel → (requestLoop k fuel s n).2 ≠ none
  | 0, _, _, h => by omega
  | fuel + 1, s, n, h => by
    simp only [requestLoop]
    split
    · rename_i hf
      have hmem := (inNumbers_found s n).mp hf
      have hc := inNumbers_core s n
      apply requestLoop_some k hk fuel
      rw [hc.objs, hc.num]
      have : (s.objs.map s.num).countP (ahead k (n + k)) < (s.objs.map s.num).countP (ahead k n) := by
        apply countP_lt_of_imp
        · intro x hx
          by_cases hpos : 0 < k <;> simp [ahead, hpos] at hx ⊢ <;> omega
        · refine ⟨n, hmem, ?_, ?_⟩
          · by_cases hpos : 0 < k <;> simp [ahead, hpos]
          · by_cases hpos : 0 < k <;> simp [ahead, hpos] <;> omega
      omega
    · simp

theorem requestNumber_not_hang (s : St) (a k : Int) : (requestNumber s a k).2 ≠ .hang := by
  unfold requestNumber
  split
  · simp
  · rename_i hk
    split
    · simp
    · rename_i s1 heq
      have h2 : (requestLoop k (s.objs.length + 1) s a).2 = none := by rw [heq]
      have := requestLoop_some k hk (s.objs.length + 1) s a (by
        have := List.countP_le_length (p := ahead k a) (l := s.objs.map s.num)
        rw [List.length_map] at this
        omega)
      exact absurd h2 this

end MontePyVerif.Collection

namespace MontePyVerif.Collection

/-! ### what `request_number` / `next_number` / `check_number` answer is a function of the members (seeded C06e) -/

/-- the walk of `request_number` stops at the FIRST candidate `start + j*step` no member has: every candidate
    before it is the number of a member. -/
theorem requestLoop_first (k : Int) : ∀ (fuel : Nat) (s : St) (n m : Int),
    (requestLoop k fuel s n).2 = some m →
    ∃ j : Nat, m = n + j * k ∧ ∀ i : Nat, i < j → n + i * k ∈ s.objs.map s.num
  | 0, _, _, _, h => by simp [requestLoop] at h
  | fuel + 1, s, n, m, h => by
    simp only [requestLoop] at h
    split at h
    · rename_i hf
      obtain ⟨j, hj, hall⟩ := requestLoop_first k fuel _ _ _ h
      rw [(inNumbers_core s n).objs, (inNumbers_core s n).num] at hall
      refine ⟨j + 1, ?_, ?_⟩
      · rw [hj]; push_cast; rw [Int.add_mul]; omega
      · intro i hi
        cases i with
        | zero => simpa using (inNumbers_found s n).mp hf
        | succ i =>
          have := hall i (by omega)
          have e : n + ((i + 1 : Nat) : Int) * k = n + k + (i : Int) * k := by
            push_cast; rw [Int.add_mul]; omega
          rw [e]; exact this
    · simp at h
      exact ⟨0, by simp [h], by intro i hi; omega⟩

/-- the answer of the walk is a function of the members and their numbers: two states that differ at most in the
    number cache get the same answer. -/
theorem requestLoop_cache_indep (k : Int) : ∀ (fuel : Nat) (s s' : St) (n : Int), Core s s' →
    (requestLoop k fuel s' n).2 = (requestLoop k fuel s n).2
  | 0, _, _, _, _ => rfl
  | fuel + 1, s, s', n, hc => by
    have hfound : (inNumbers s' n).2 = (inNumbers s n).2 := by
      have h1 := inNumbers_found s n
      have h2 := inNumbers_found s' n
      rw [hc.objs, hc.num] at h2
      exact Bool.eq_iff_iff.mpr (h2.trans h1.symm)
    have hcore : Core (inNumbers s n).1 (inNumbers s' n).1 :=
      ⟨hc.objs, hc.num, hc.link, hc.owned⟩
    simp only [requestLoop, hfound]
    split
    · exact requestLoop_cache_indep k fuel _ _ _ hcore
    · rfl

theorem requestNumber_first {s : St} {a k n : Int} (h : (requestNumber s a k).2 = .int n) :
    ∃ j : Nat, n = a + j * k ∧ ∀ i : Nat, i < j → a + i * k ∈ s.objs.map s.num := by
  unfold requestNumber at h
  split at h
  · cases h
  · split at h
    · rename_i s1 m heq
      cases h
      have : (requestLoop k (s.objs.length + 1) s a).2 = some n := by rw [heq]
      exact requestLoop_first k _ s a n this
    · cases h

theorem requestNumber_cache_indep {s s' : St} (hc : Core s s') (a k : Int) :
    (requestNumber s' a k).2 = (requestNumber s a k).2 := by
  have h := requestLoop_cache_indep k (s.objs.length + 1) s s' a hc
  unfold requestNumber
  rw [hc.objs]
  split
  · rfl
  · rcases hp : requestLoop k (s.objs.length + 1) s a with ⟨s1, o1⟩
    rcases hp' : requestLoop k (s.objs.length + 1) s' a with ⟨s1', o1'⟩
    rw [hp, hp'] at h
    simp only at h
    subst h
    cases o1' <;> rfl

theorem nextNumber_cache_indep {s s' : St} (hc : Core s s') (k : Int) :
    (nextNumber s' k).2 = (nextNumber s k).2 := by
  unfold nextNumber
  rw [hc.objs, hc.num]
  split
  · rfl
  · simp only []
    split <;> rfl

theorem checkNumber_cache_indep {s s' : St} (hc : Core s s') (n : Int) :
    (checkNumber s' n).2 = (checkNumber s n).2 := by
  have hfound : (inNumbers s' n).2 = (inNumbers s n).2 := by
    have h1 := inNumbers_found s n
    have h2 := inNumbers_found s' n
    rw [hc.objs, hc.num] at h2
    exact Bool.eq_iff_iff.mpr (h2.trans h1.symm)
  unfold checkNumber
  simp only [hfound]
  split <;> rfl

end MontePyVerif.Collection
