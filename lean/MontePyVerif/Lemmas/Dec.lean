import MontePyVerif.Lemmas.Round
import MontePyVerif.Spec.Number

/-! # Values of formatted numbers (`Dec`) and the library tolerance (lemmas for C05)

`C05_pyformat_error_f/e/g`: the value of what `.{p}f`, `.{p}e`, `.{p}g` write differs from the exact value by at
most half a unit of the last kept digit; 17 significant digits are inside `constants.rel_tol`; CPython's `isclose`
formula implies the Spec's closeness. -/
namespace MontePyVerif.C05
open MontePyVerif.ValueFormat

/-- the sign as a factor -/
def sgn (b : Bool) : ℚ := if b then -1 else 1

theorem abs_sgn_mul (b : Bool) (q : ℚ) : |sgn b * q| = |q| := by
  unfold sgn; split <;> simp

theorem Dec.value_eq (d : Dec) :
    d.value = sgn d.neg * ((d.m : ℚ) * (10 : ℚ) ^ (d.exp.getD 0 - (d.frac : Int))) := by
  unfold Dec.value sgn
  rw [pow10Rat_eq]
  split <;> simp

theorem Num.toRat_eq (x : Num) : x.toRat = sgn x.neg * x.mag := by
  unfold Num.toRat sgn; split <;> simp

/-- the magnitude of a well-formed number as the fraction of naturals the formatter works on -/
theorem mag_eq (x : Num) (h : 0 ≤ x.mag) : ((x.mag.num.toNat : Nat) : ℚ) / ((x.mag.den : Nat) : ℚ) = x.mag := by
  have hn : 0 ≤ x.mag.num := Rat.num_nonneg.mpr h
  have : ((x.mag.num.toNat : Nat) : ℚ) = ((x.mag.num : Int) : ℚ) := by
    exact_mod_cast congrArg (fun z : Int => (z : ℚ)) (Int.toNat_of_nonneg hn)
  rw [this]; exact Rat.num_div_den x.mag

/-- **C05_pyformat_error (f)**: `.{p}f` is off by at most half a unit of the last decimal -/
theorem C05_pyformat_error_f (x : Num) (hx : 0 ≤ x.mag) (p : Nat) :
    |(decF x p).value - x.toRat| ≤ 1 / 2 * (10 : ℚ) ^ (-(p : Int)) := by
  have h10 : (0 : ℚ) < 10 := by norm_num
  rw [Dec.value_eq, Num.toRat_eq]
  simp only [decF, Option.getD_none]
  rw [← mul_sub, abs_sgn_mul]
  have herr := scaleRound_err x.mag.num.toNat x.mag.den x.mag.den_pos (p : Int)
  rw [mag_eq x hx] at herr
  set N := scaleRound x.mag.num.toNat x.mag.den (p : Int)
  have hs : (0 : ℚ) < (10 : ℚ) ^ (0 - (p : Int)) := by positivity
  have e1 : (N : ℚ) * (10 : ℚ) ^ (0 - (p : Int)) - x.mag = ((N : ℚ) - x.mag * (10 : ℚ) ^ (p : Int)) * (10 : ℚ) ^ (0 - (p : Int)) := by
    rw [sub_mul, mul_assoc, ← zpow_add₀ h10.ne']; simp
  rw [e1, abs_mul, abs_of_pos hs]
  calc |(N : ℚ) - x.mag * (10 : ℚ) ^ (p : Int)| * (10 : ℚ) ^ (0 - (p : Int))
      ≤ 1 / 2 * (10 : ℚ) ^ (0 - (p : Int)) := mul_le_mul_of_nonneg_right herr hs.le
    _ = 1 / 2 * (10 : ℚ) ^ (-(p : Int)) := by simp

/-- **C05_pyformat_error (e)**: `.{p}e` (p+1 significant digits) has relative error at most `½·10^-p` -/
theorem C05_pyformat_error_e (x : Num) (hx : 0 ≤ x.mag) (p : Nat) :
    |(decE x p).value - x.toRat| ≤ 1 / 2 * (10 : ℚ) ^ (-(p : Int)) * x.mag := by
  rw [Dec.value_eq, Num.toRat_eq]
  simp only [decE, Option.getD_some]
  rw [← mul_sub, abs_sgn_mul]
  have h := sciDigits_rel x.mag.num.toNat x.mag.den p x.mag.den_pos
  rw [mag_eq x hx] at h
  exact h

/-- **C05_pyformat_error (g)**: `.{p}g` (`P = max p 1` significant digits, either layout, zeros stripped)
    has relative error at most `½·10^-(P-1)` -/
theorem C05_pyformat_error_g (x : Num) (hx : 0 ≤ x.mag) (p : Nat) :
    |(decG x p).value - x.toRat| ≤ 1 / 2 * (10 : ℚ) ^ (-(((if p = 0 then 1 else p) - 1 : Nat) : Int)) * x.mag := by
  rw [Dec.value_eq, Num.toRat_eq]
  have h := sciDigits_rel x.mag.num.toNat x.mag.den ((if p = 0 then 1 else p) - 1) x.mag.den_pos
  rw [mag_eq x hx] at h
  unfold decG
  simp only []
  set P := (if p = 0 then 1 else p) with hP
  have hP1 : 1 ≤ P := by rw [hP]; split <;> omega
  set r := sciDigits x.mag.num.toNat x.mag.den (P - 1) with hr
  split
  · rename_i hfix
    simp only [Option.getD_none]
    rw [← mul_sub, abs_sgn_mul, stripZeros_value]
    have e : (0 : Int) - (((P : Int) - 1 - r.2).toNat : Int) = r.2 - ((P - 1 : Nat) : Int) := by
      have : 0 ≤ (P : Int) - 1 - r.2 := by omega
      rw [Int.toNat_of_nonneg this]; omega
    rw [e]; exact h
  · simp only [Option.getD_some]
    rw [← mul_sub, abs_sgn_mul, stripZeros_value]
    exact h

/-! ## the library tolerance -/

theorem absR_eq (q : ℚ) : Spec.absR q = |q| := by
  unfold Spec.absR; split
  · rw [abs_of_nonneg]; assumption
  · rw [abs_of_neg]; linarith

/-- 17 significant digits are always enough: a relative error of `½·10^-16` is inside the library's
    tolerance (consumes `Gen.relTolNum/relTolDen`: the proof is re-opened when `constants.rel_tol` changes) -/
theorem tol_17 : 1 / 2 * (10 : ℚ) ^ (-(16 : Int)) ≤ Spec.relTol := by
  unfold Spec.relTol Gen.relTolNum Gen.relTolDen
  norm_num

theorem relTol_nonneg : 0 ≤ Spec.relTol := le_trans (by positivity) tol_17

theorem isClose_of_rel (y x : ℚ) (h : |y - x| ≤ Spec.relTol * |x|) : Spec.isClose y x := by
  unfold Spec.isClose
  rw [absR_eq, absR_eq, absR_eq]
  apply le_trans h
  apply le_trans _ (le_max_left _ _)
  apply mul_le_mul_of_nonneg_left (le_max_left _ _) relTol_nonneg

/-- a number written with at least 17 significant digits (`q ≥ 16` digits after the first) is within tolerance -/
theorem isClose_of_digits (y : ℚ) (x : Num) (hx : 0 ≤ x.mag) (q : Nat) (hq : 16 ≤ q)
    (h : |y - x.toRat| ≤ 1 / 2 * (10 : ℚ) ^ (-(q : Int)) * x.mag) : Spec.isClose y x.toRat := by
  apply isClose_of_rel
  apply le_trans h
  have habs : |x.toRat| = x.mag := by rw [Num.toRat_eq, abs_sgn_mul, abs_of_nonneg hx]
  rw [habs]
  apply mul_le_mul_of_nonneg_right _ hx
  apply le_trans _ tol_17
  apply mul_le_mul_of_nonneg_left _ (by norm_num)
  apply zpow_le_zpow_right₀ (by norm_num) (by omega)

theorem ratAbs_eq (q : ℚ) : ratAbs q = |q| := by
  unfold ratAbs; split
  · rw [abs_of_neg]; assumption
  · rw [abs_of_nonneg]; linarith

theorem relTol_eq : ValueFormat.relTol = Spec.relTol := by
  unfold ValueFormat.relTol Spec.relTol; rw [Rat.mkRat_eq_div]

theorem absTol_eq : ValueFormat.absTol = Spec.absTol := by
  unfold ValueFormat.absTol Spec.absTol; rw [Rat.mkRat_eq_div]

/-- the model's `math.isclose` (CPython's formula) implies the Spec's closeness -/
theorem spec_of_model_isClose (y x : ℚ) (h : ValueFormat.isClose y x = true) : Spec.isClose y x := by
  unfold ValueFormat.isClose at h
  simp only [Bool.or_eq_true, decide_eq_true_eq, beq_iff_eq, ratAbs_eq, relTol_eq, absTol_eq] at h
  unfold Spec.isClose
  rw [absR_eq, absR_eq, absR_eq]
  have hr := relTol_nonneg
  have hsym : |y - x| = |x - y| := abs_sub_comm y x
  rcases h with h | h
  · subst h; simp
    left
    apply mul_nonneg hr; positivity
  · rcases h with (h | h) | h
    · rw [abs_mul, abs_of_nonneg hr] at h
      rw [hsym]; apply le_trans h; apply le_max_of_le_left
      exact mul_le_mul_of_nonneg_left (le_max_left _ _) hr
    · rw [abs_mul, abs_of_nonneg hr] at h
      rw [hsym]; apply le_trans h; apply le_max_of_le_left
      exact mul_le_mul_of_nonneg_left (le_max_right _ _) hr
    · rw [hsym]; exact le_max_of_le_right h

end MontePyVerif.C05
