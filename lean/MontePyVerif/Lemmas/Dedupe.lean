import MontePyVerif.Model.Dedupe
import MontePyVerif.Spec.Dedupe
/-!
# Lemmas.Dedupe — helper lemmas for property C18 (core tactics only)

A. the comparisons of the model (`abs(a-b) < tol`, `Transform.equivalent`, the three finders) against Spec's `dup`;
   symmetry of `dup`; the truth-table characterisation `mem_find_iff`.
B. dict/set algebra and the invariant of the first loop of `remove_duplicate_surfaces`.
C. geometry trees: the nested, filtered re-pointing of `HalfSpace.remove_duplicate_surfaces` is a plain substitution
   of leaves; what it appends to `cell.surfaces`.
-/
namespace MontePyVerif.Dedupe
open MontePyVerif.Spec.Dedupe

/-! ## A. comparisons and finders -/

theorem closeTo_eq_within (tol a b : Rat) : closeTo tol a b = within tol a b := by
  unfold closeTo within ratAbs dist
  congr 1
  split <;> split <;> grind

theorem dist_comm (a b : Rat) : dist a b = dist b a := by
  unfold dist
  split <;> split <;> grind

theorem within_comm (tol a b : Rat) : within tol a b = within tol b a := by
  unfold within; rw [dist_comm]

theorem allWithin_comm (tol : Rat) : ∀ xs ys, allWithin tol xs ys = allWithin tol ys xs
  | [], [] => rfl
  | [], _ :: _ => rfl
  | _ :: _, [] => rfl
  | x :: xs, y :: ys => by simp only [allWithin, within_comm tol x y, allWithin_comm tol xs ys]

/-- the model's rotation loop (after the length test) against Spec's list comparison -/
theorem allWithin_eq_rotClose (tol : Rat) : ∀ xs ys,
    allWithin tol xs ys = (xs.length == ys.length && rotClose tol xs ys)
  | [], [] => rfl
  | [], _ :: _ => rfl
  | _ :: _, [] => by simp [allWithin, rotClose]
  | x :: xs, y :: ys => by
    simp only [allWithin, rotClose, allWithin_eq_rotClose tol xs ys, closeTo_eq_within, List.length_cons]
    cases within tol x y <;> simp

theorem equivalent_eq_spec (t u : Transform) (tol : Rat) :
    t.equivalent u tol = sameTransform tol (some t) (some u) := by
  unfold Transform.equivalent sameTransform
  simp only [allWithin, closeTo_eq_within, allWithin_eq_rotClose tol t.rot u.rot, bne, ← Bool.cond_eq_ite]
  generalize (t.rot.length == u.rot.length) = A
  generalize rotClose tol t.rot u.rot = B
  generalize within tol t.disp.1 u.disp.1 = C
  generalize within tol t.disp.2.1 u.disp.2.1 = D
  generalize within tol t.disp.2.2 u.disp.2.2 = E
  generalize (t.inDegrees == u.inDegrees) = G
  generalize (t.mainToAux == u.mainToAux) = H
  cases A <;> cases B <;> cases C <;> cases D <;> cases E <;> cases G <;> cases H <;> rfl

theorem transformMatch_eq_spec (a b : Surface) (tol : Rat) :
    transformMatch a b tol = sameTransform tol a.transform b.transform := by
  unfold transformMatch
  cases ha : a.transform <;> cases hb : b.transform <;> simp [sameTransform, equivalent_eq_spec]

theorem sameTransform_comm (tol : Rat) (a b : Option Transform) :
    sameTransform tol a b = sameTransform tol b a := by
  cases a <;> cases b <;> simp only [sameTransform]
  rename_i t u
  rw [allWithin_comm tol t.rot u.rot, allWithin_comm tol [t.disp.1, t.disp.2.1, t.disp.2.2]]
  rw [Bool.beq_comm (a := t.inDegrees), Bool.beq_comm (a := t.mainToAux)]

theorem dup_comm (tol : Rat) (a b : Surface) : dup tol a b = dup tol b a := by
  unfold dup
  rw [sameTransform_comm tol a.transform, allWithin_comm tol a.consts, Bool.beq_comm (a := a.reflecting),
    Bool.beq_comm (a := a.white)]
  rw [BEq.comm (a := a.stype)]
  cases (b.stype == a.stype) <;> cases (b.reflecting == a.reflecting) <;> cases (b.white == a.white) <;>
    cases a.periodic.isNone <;> cases b.periodic.isNone <;> simp



/-- the class constructor accepted this many constants (AxisPlane: exactly 1, CylinderParAxis: exactly 3, …) -/
def WFSurface (s : Surface) : Prop := s.consts.length ∈ acceptedCounts s.stype

instance (s : Surface) : Decidable (WFSurface s) := by unfold WFSurface; infer_instance

/-- classes that override `find_duplicate_surfaces` -/
def isFinder : SClass → Bool
  | .axisPlane | .cylinderOnAxis | .cylinderParAxis => true
  | _ => false

theorem table_counts : ∀ r ∈ Gen.Dedupe.surfaceClassTable,
    (SClass.ofName r.2.1 = .axisPlane → r.2.2 = [1]) ∧ (SClass.ofName r.2.1 = .cylinderOnAxis → r.2.2 = [1])
      ∧ (SClass.ofName r.2.1 = .cylinderParAxis → r.2.2 = [3]) := by decide

theorem counts_of_class {t : String} {c : SClass} {n : Nat} (hc : classOf t = c)
    (hn : ∀ r ∈ Gen.Dedupe.surfaceClassTable, SClass.ofName r.2.1 = c → r.2.2 = [n]) (hne : c ≠ .surface) :
    acceptedCounts t = [n] := by
  unfold classOf at hc
  unfold acceptedCounts
  cases hr : tableRow t with
  | none => rw [hr] at hc; exact absurd hc.symm hne
  | some r =>
    rw [hr] at hc
    exact hn r (List.mem_of_find?_eq_some hr) hc

theorem consts_length {s : Surface} (hw : WFSurface s) :
    (classOf s.stype = .axisPlane → s.consts.length = 1) ∧ (classOf s.stype = .cylinderOnAxis → s.consts.length = 1)
      ∧ (classOf s.stype = .cylinderParAxis → s.consts.length = 3) := by
  unfold WFSurface at hw
  refine ⟨fun h => ?_, fun h => ?_, fun h => ?_⟩
  · rw [counts_of_class h (fun r hr => (table_counts r hr).1) (by decide)] at hw; simpa using hw
  · rw [counts_of_class h (fun r hr => (table_counts r hr).2.1) (by decide)] at hw; simpa using hw
  · rw [counts_of_class h (fun r hr => (table_counts r hr).2.2) (by decide)] at hw; simpa using hw

theorem len1 {xs : List Rat} (h : xs.length = 1) : ∃ x, xs = [x] := by
  match xs, h with
  | [x], _ => exact ⟨x, rfl⟩

theorem len3 {xs : List Rat} (h : xs.length = 3) : ∃ x y z, xs = [x, y, z] := by
  match xs, h with
  | [x, y, z], _ => exact ⟨x, y, z, rfl⟩

/-- the three finders' filter predicate is C18's duplicate relation (plus `surface != self`) -/
theorem pred1 (a b : Surface) (tol : Rat) (hp : a.periodic.isNone = true)
    (hl : b.stype = a.stype → (∃ x, a.consts = [x]) ∧ ∃ y, b.consts = [y]) :
    (candidate a b && closeTo tol (a.const 0) (b.const 0) && transformMatch a b tol)
      = (!(b.pyEq a) && dup tol a b) := by
  unfold candidate dup
  rw [transformMatch_eq_spec, closeTo_eq_within, hp, BEq.comm (a := a.stype), BEq.comm (a := a.reflecting),
    BEq.comm (a := a.white)]
  by_cases hst : b.stype = a.stype
  · obtain ⟨⟨x, hx⟩, ⟨y, hy⟩⟩ := hl hst
    simp only [Surface.const, hx, hy, allWithin, List.getD_cons_zero]
    generalize (b.pyEq a) = A; generalize (b.stype == a.stype) = B; generalize (b.reflecting == a.reflecting) = C
    generalize (b.white == a.white) = D; generalize b.periodic.isNone = E
    generalize sameTransform tol a.transform b.transform = G; generalize within tol x y = H
    cases A <;> cases B <;> cases C <;> cases D <;> cases E <;> cases G <;> cases H <;> rfl
  · have : (b.stype == a.stype) = false := by simpa using hst
    simp [this]

theorem pred3 (a b : Surface) (tol : Rat) (hp : a.periodic.isNone = true)
    (hl : b.stype = a.stype → (∃ x y z, a.consts = [x, y, z]) ∧ ∃ x y z, b.consts = [x, y, z]) :
    (candidate a b && (closeTo tol (a.const 2) (b.const 2) && closeTo tol (a.const 0) (b.const 0)
        && closeTo tol (a.const 1) (b.const 1)) && transformMatch a b tol)
      = (!(b.pyEq a) && dup tol a b) := by
  unfold candidate dup
  rw [transformMatch_eq_spec, closeTo_eq_within, closeTo_eq_within, closeTo_eq_within, hp, BEq.comm (a := a.stype),
    BEq.comm (a := a.reflecting), BEq.comm (a := a.white)]
  by_cases hst : b.stype = a.stype
  · obtain ⟨⟨x, y, z, hx⟩, ⟨x', y', z', hy⟩⟩ := hl hst
    simp only [Surface.const, hx, hy, allWithin, List.getD_cons_zero, List.getD_cons_succ]
    generalize (b.pyEq a) = A; generalize (b.stype == a.stype) = B; generalize (b.reflecting == a.reflecting) = C
    generalize (b.white == a.white) = D; generalize b.periodic.isNone = E
    generalize sameTransform tol a.transform b.transform = G; generalize within tol x x' = H
    generalize within tol y y' = I; generalize within tol z z' = J
    cases A <;> cases B <;> cases C <;> cases D <;> cases E <;> cases G <;> cases H <;> cases I <;> cases J <;> rfl
  · have : (b.stype == a.stype) = false := by simpa using hst
    simp [this]

theorem dup_periodic {tol : Rat} {a b : Surface} (h : dup tol a b = true) : a.periodic.isNone = true := by
  unfold dup at h
  simp only [Bool.and_eq_true] at h
  exact h.1.1.1.2

theorem dup_stype {tol : Rat} {a b : Surface} (h : dup tol a b = true) : a.stype = b.stype := by
  unfold dup at h
  simp only [Bool.and_eq_true, beq_iff_eq] at h
  exact h.1.1.1.1.1.1

/-- **Truth-table characterisation of the three finders**: `find_duplicate_surfaces` returns exactly the surfaces of
    the list that are C18-duplicates of `self` (and are not `self`), and nothing for the other classes. -/
theorem mem_find_iff (a b : Surface) (S : List Surface) (tol : Rat) (ha : WFSurface a) (hb : WFSurface b) :
    b ∈ findDuplicateSurfaces a S tol ↔
      b ∈ S ∧ b.pyEq a = false ∧ isFinder (classOf a.stype) = true ∧ dup tol a b = true := by
  have la := consts_length ha
  have lb := consts_length hb
  unfold findDuplicateSurfaces
  cases hc : classOf a.stype <;> simp only [isFinder]
  · -- AxisPlane
    unfold axisPlaneFind
    by_cases hp : a.periodic.isNone = true
    · rw [if_pos hp, List.mem_filter, pred1 a b tol hp (fun h => ⟨len1 (la.1 hc), len1 (lb.1 (h ▸ hc))⟩)]
      simp
    · rw [if_neg hp]
      constructor
      · intro h; cases h
      · intro h; exact absurd (dup_periodic h.2.2.2) hp
  · unfold cylinderOnAxisFind
    by_cases hp : a.periodic.isNone = true
    · rw [if_pos hp, List.mem_filter, pred1 a b tol hp (fun h => ⟨len1 (la.2.1 hc), len1 (lb.2.1 (h ▸ hc))⟩)]
      simp
    · rw [if_neg hp]
      constructor
      · intro h; cases h
      · intro h; exact absurd (dup_periodic h.2.2.2) hp
  · unfold cylinderParAxisFind
    by_cases hp : a.periodic.isNone = true
    · rw [if_pos hp, List.mem_filter, pred3 a b tol hp (fun h => ⟨len3 (la.2.2 hc), len3 (lb.2.2 (h ▸ hc))⟩)]
      simp
    · rw [if_neg hp]
      constructor
      · intro h; cases h
      · intro h; exact absurd (dup_periodic h.2.2.2) hp
  · simp
  · simp


theorem find_subset {a b : Surface} {S : List Surface} {tol : Rat} (h : b ∈ findDuplicateSurfaces a S tol) : b ∈ S := by
  unfold findDuplicateSurfaces at h
  split at h
  · unfold axisPlaneFind at h
    split at h
    · exact (List.mem_filter.1 h).1
    · cases h
  · unfold cylinderOnAxisFind at h
    split at h
    · exact (List.mem_filter.1 h).1
    · cases h
  · unfold cylinderParAxisFind at h
    split at h
    · exact (List.mem_filter.1 h).1
    · cases h
  · cases h
  · cases h

theorem nodup_map_inj {α : Type} (f : α → Nat) : ∀ {l : List α}, (l.map f).Nodup → ∀ {a b : α}, a ∈ l → b ∈ l →
    f a = f b → a = b
  | [], _, _, _, ha, _, _ => by cases ha
  | x :: xs, hnd, a, b, ha, hb, e => by
    rw [List.map_cons, List.nodup_cons] at hnd
    rcases List.mem_cons.1 ha with rfl | ha' <;> rcases List.mem_cons.1 hb with rfl | hb'
    · rfl
    · exact absurd (List.mem_map.2 ⟨b, hb', e.symm⟩) hnd.1
    · exact absurd (List.mem_map.2 ⟨a, ha', e⟩) hnd.1
    · exact nodup_map_inj f hnd.2 ha' hb' e

/-! ## B. the first loop -/

theorem lookup_cons_if (k' a b : Nat) (es : List (Nat × Nat)) :
    List.lookup k' ((a, b) :: es) = if k' = a then some b else List.lookup k' es := by
  simp only [List.lookup_cons]
  by_cases h : k' = a
  · simp [h]
  · have : (k' == a) = false := by simpa using h
    simp [this, h]


theorem lookup_dictSet (d : List (Nat × Nat)) (k v k' : Nat) :
    (dictSet d k v).lookup k' = if k' = k then some v else d.lookup k' := by
  induction d with
  | nil => simp only [dictSet, lookup_cons_if, List.lookup_nil]
  | cons p rest ih =>
    obtain ⟨a, b⟩ := p
    unfold dictSet
    by_cases hak : a = k
    · subst hak
      simp only [beq_self_eq_true, if_true, lookup_cons_if]
      by_cases h : k' = a <;> simp [h]
    · have : (a == k) = false := by simpa using hak
      simp only [this, Bool.false_eq_true, if_false]
      rw [lookup_cons_if, lookup_cons_if, ih]
      by_cases h : k' = k
      · subst h
        have : ¬ (k' = a) := fun h => hak h.symm
        simp [this]
      · simp [h]

theorem recordMatches_cons (st : LoopState) (self : Nat) (m : Surface) (ms : List Surface) :
    recordMatches st self (m :: ms) =
      recordMatches { toDelete := if st.toDelete.contains m.number then st.toDelete else st.toDelete ++ [m.number],
                      map := dictSet st.map m.number self } self ms := rfl

theorem recordMatches_toDelete (self : Nat) (found : List Surface) : ∀ (st : LoopState) (x : Nat),
    x ∈ (recordMatches st self found).toDelete ↔ x ∈ st.toDelete ∨ ∃ m ∈ found, m.number = x := by
  induction found with
  | nil => intro st x; simp [recordMatches]
  | cons m ms ih =>
    intro st x
    rw [recordMatches_cons, ih]
    by_cases hc : st.toDelete.contains m.number = true
    · have : m.number ∈ st.toDelete := by simpa using hc
      simp only [hc, if_true, List.mem_cons, exists_eq_or_imp]
      grind
    · rw [if_neg hc]
      simp only [List.mem_append, List.mem_cons, exists_eq_or_imp]
      grind

theorem recordMatches_lookup (self : Nat) (found : List Surface) : ∀ (st : LoopState) (x : Nat),
    (recordMatches st self found).map.lookup x =
      if (∃ m ∈ found, m.number = x) then some self else st.map.lookup x := by
  induction found with
  | nil => intro st x; simp [recordMatches]
  | cons m ms ih =>
    intro st x
    rw [recordMatches_cons, ih]
    simp only [lookup_dictSet, List.mem_cons, exists_eq_or_imp]
    by_cases h1 : ∃ m' ∈ ms, m'.number = x
    · simp [h1]
    · by_cases h2 : x = m.number
      · simp [h2]
      · have : ¬ (m.number = x) := fun h => h2 h.symm
        simp [h1, h2, this]

/-- what the three hypotheses about the finder give the loop -/
structure FinderOK (S : List Surface) (tol : Rat) : Prop where
  sym : ∀ a ∈ S, ∀ b ∈ S, b ∈ findDuplicateSurfaces a S tol → a ∈ findDuplicateSurfaces b S tol
  irr : ∀ a ∈ S, ∀ b ∈ findDuplicateSurfaces a S tol, b ∈ S ∧ b.number ≠ a.number
  inj : ∀ a ∈ S, ∀ b ∈ S, a.number = b.number → a = b

/-- invariant of the first loop of `remove_duplicate_surfaces` after the surfaces `done` have been visited -/
structure Inv (S : List Surface) (tol : Rat) (done : List Surface) (st : LoopState) : Prop where
  dom : ∀ d, d ∈ st.toDelete ↔ (st.map.lookup d).isSome = true
  rng : ∀ d t, st.map.lookup d = some t → t ∉ st.toDelete ∧ ∃ sd ∈ S, ∃ sv ∈ S,
          sd.number = d ∧ sv.number = t ∧ sv ∈ done ∧ sd ∈ findDuplicateSurfaces sv S tol
  cov : ∀ t ∈ done, t.number ∉ st.toDelete → ∀ m ∈ findDuplicateSurfaces t S tol, m.number ∈ st.toDelete

theorem inv_init (S : List Surface) (tol : Rat) : Inv S tol [] { toDelete := [], map := [] } :=
  ⟨by intro d; simp [List.lookup], by intro d t h; simp [List.lookup] at h, by intro t h; cases h⟩

theorem inv_step {S : List Surface} {tol : Rat} (F : FinderOK S tol) {done : List Surface} {st : LoopState}
    (I : Inv S tol done st) {s : Surface} (hs : s ∈ S) : Inv S tol (done ++ [s]) (loopStep S tol st s) := by
  unfold loopStep
  by_cases hd : st.toDelete.contains s.number = true
  · rw [if_pos hd]
    have hd' : s.number ∈ st.toDelete := by simpa using hd
    refine ⟨I.dom, ?_, ?_⟩
    · intro d t h
      obtain ⟨h1, sd, hsd, sv, hsv, e1, e2, h3, h4⟩ := I.rng d t h
      exact ⟨h1, sd, hsd, sv, hsv, e1, e2, List.mem_append_left _ h3, h4⟩
    · intro t ht hn
      rcases List.mem_append.1 ht with h | h
      · exact I.cov t h hn
      · rw [List.mem_singleton] at h; subst h; exact absurd hd' hn
  · rw [if_neg hd]
    have hd' : s.number ∉ st.toDelete := by simpa using hd
    have hself : ¬ ∃ m ∈ findDuplicateSurfaces s S tol, m.number = s.number :=
      fun ⟨m, hm, e⟩ => (F.irr s hs m hm).2 e
    refine ⟨?_, ?_, ?_⟩
    · intro d
      rw [recordMatches_toDelete, recordMatches_lookup]
      by_cases h : ∃ m ∈ findDuplicateSurfaces s S tol, m.number = d
      · simp [h]
      · simp [h, I.dom d]
    · intro d t h
      rw [recordMatches_lookup] at h
      rw [recordMatches_toDelete]
      by_cases hm : ∃ m ∈ findDuplicateSurfaces s S tol, m.number = d
      · rw [if_pos hm] at h
        have ht : s.number = t := by simpa using h
        subst ht
        obtain ⟨m, hmF, hmd⟩ := hm
        refine ⟨?_, m, (F.irr s hs m hmF).1, s, hs, hmd, rfl, List.mem_append_right _ (List.mem_singleton.2 rfl), hmF⟩
        rintro (h' | h')
        · exact hd' h'
        · exact hself h'
      · rw [if_neg hm] at h
        obtain ⟨h1, sd, hsd, sv, hsv, e1, e2, h3, h4⟩ := I.rng d t h
        refine ⟨?_, sd, hsd, sv, hsv, e1, e2, List.mem_append_left _ h3, h4⟩
        rintro (h' | ⟨m, hmF, hmt⟩)
        · exact h1 h'
        · -- a survivor `sv` found by `s`: by symmetry `sv` had found `s`, so `s` would be in to_delete
          have hmS := (F.irr s hs m hmF).1
          have : m = sv := F.inj m hmS sv hsv (hmt.trans e2.symm)
          subst this
          have := F.sym s hs m hmS hmF
          exact hd' (I.cov m h3 (by rw [e2]; exact h1) s this)
    · intro t ht hn m hm
      rw [recordMatches_toDelete] at hn ⊢
      rcases List.mem_append.1 ht with h | h
      · exact Or.inl (I.cov t h (fun h' => hn (Or.inl h')) m hm)
      · rw [List.mem_singleton] at h; subst h; exact Or.inr ⟨m, hm, rfl⟩

theorem inv_foldl {S : List Surface} {tol : Rat} (F : FinderOK S tol) : ∀ (rest done : List Surface) (st : LoopState),
    (∀ x ∈ rest, x ∈ S) → Inv S tol done st → Inv S tol (done ++ rest) (rest.foldl (loopStep S tol) st) := by
  intro rest
  induction rest with
  | nil => intro done st _ I; simpa using I
  | cons s rest ih =>
    intro done st hS I
    have := ih (done ++ [s]) (loopStep S tol st s) (fun x hx => hS x (List.mem_cons_of_mem _ hx))
      (inv_step F I (hS s (List.mem_cons_self ..)))
    simpa using this

theorem inv_findAll {S : List Surface} {tol : Rat} (F : FinderOK S tol) : Inv S tol S (findAll S tol) := by
  have := inv_foldl F S [] _ (fun _ h => h) (inv_init S tol)
  simpa [findAll] using this


/-! ## C. geometry trees -/

/-- re-pointing every surface leaf through `σ`, the sense (side) untouched -/
def HS.subst (σ : Nat → Nat) : HS → HS
  | .leaf n s => .leaf (σ n) s
  | .cellLeaf c => .cellLeaf c
  | .compl l => .compl (l.subst σ)
  | .inter l r => .inter (l.subst σ) (r.subst σ)
  | .union l r => .union (l.subst σ) (r.subst σ)

/-- a dict read as a function on surface numbers: the survivor of a removed surface, the number itself otherwise -/
def dictFun (d : List (Nat × Nat)) (n : Nat) : Nat := (d.lookup n).getD n

theorem subst_congr {σ τ : Nat → Nat} : ∀ (h : HS), (∀ n ∈ h.surfaceLeaves, σ n = τ n) → h.subst σ = h.subst τ
  | .leaf n s, hh => by simp [HS.subst, hh n (by simp [HS.surfaceLeaves])]
  | .cellLeaf c, _ => rfl
  | .compl l, hh => by simp [HS.subst, subst_congr l hh]
  | .inter l r, hh => by
    simp only [HS.surfaceLeaves, List.mem_append] at hh
    simp [HS.subst, subst_congr l (fun n h => hh n (Or.inl h)), subst_congr r (fun n h => hh n (Or.inr h))]
  | .union l r, hh => by
    simp only [HS.surfaceLeaves, List.mem_append] at hh
    simp [HS.subst, subst_congr l (fun n h => hh n (Or.inl h)), subst_congr r (fun n h => hh n (Or.inr h))]

theorem subst_id : ∀ (h : HS), h.subst (fun n => n) = h
  | .leaf _ _ => rfl
  | .cellLeaf _ => rfl
  | .compl l => by simp [HS.subst, subst_id l]
  | .inter l r => by simp [HS.subst, subst_id l, subst_id r]
  | .union l r => by simp [HS.subst, subst_id l, subst_id r]

theorem leaves_subst (σ : Nat → Nat) : ∀ (h : HS), (h.subst σ).surfaceLeaves = h.surfaceLeaves.map σ
  | .leaf _ _ => rfl
  | .cellLeaf _ => rfl
  | .compl l => by simp [HS.subst, HS.surfaceLeaves, leaves_subst σ l]
  | .inter l r => by simp [HS.subst, HS.surfaceLeaves, leaves_subst σ l, leaves_subst σ r]
  | .union l r => by simp [HS.subst, HS.surfaceLeaves, leaves_subst σ l, leaves_subst σ r]

theorem eval_subst (ρ κ : Nat → Bool) (σ : Nat → Nat) : ∀ (h : HS),
    eval ρ κ (h.subst σ) = eval (fun n => ρ (σ n)) κ h
  | .leaf _ _ => rfl
  | .cellLeaf _ => rfl
  | .compl l => by simp [HS.subst, eval, eval_subst ρ κ σ l]
  | .inter l r => by simp [HS.subst, eval, eval_subst ρ κ σ l, eval_subst ρ κ σ r]
  | .union l r => by simp [HS.subst, eval, eval_subst ρ κ σ l, eval_subst ρ κ σ r]

theorem lookup_restrict (container : List Nat) (n : Nat) (hn : n ∈ container) : ∀ (d : List (Nat × Nat)),
    (restrictDict d container).lookup n = d.lookup n
  | [] => rfl
  | (a, b) :: rest => by
    unfold restrictDict
    rw [List.filter_cons]
    by_cases hc : container.contains a = true
    · simp only [hc, if_true, lookup_cons_if]
      have := lookup_restrict container n hn rest
      unfold restrictDict at this
      rw [this]
    · have hna : ¬ (n = a) := by
        intro e; subst e; exact hc (by simpa using hn)
      simp only [hc, lookup_cons_if, hna, if_false]
      have := lookup_restrict container n hn rest
      unfold restrictDict at this
      exact this

theorem restrict_keys (container : List Nat) (n : Nat) (t : Nat) : ∀ (d : List (Nat × Nat)),
    (restrictDict d container).lookup n = some t → n ∈ container ∧ d.lookup n = some t := by
  intro d h
  by_cases hn : n ∈ container
  · exact ⟨hn, by rw [← lookup_restrict container n hn d]; exact h⟩
  · exfalso
    induction d with
    | nil => simp [restrictDict] at h
    | cons p rest ih =>
      obtain ⟨a, b⟩ := p
      unfold restrictDict at h ih
      rw [List.filter_cons] at h
      by_cases hc : container.contains a = true
      · simp only [hc, if_true, lookup_cons_if] at h
        by_cases hna : n = a
        · subst hna; exact hn (by simpa using hc)
        · simp only [hna, if_false] at h; exact ih h
      · simp only [hc] at h; exact ih h

theorem dictFun_restrict {container : List Nat} {n : Nat} (hn : n ∈ container) (d : List (Nat × Nat)) :
    dictFun (restrictDict d container) n = dictFun d n := by
  unfold dictFun; rw [lookup_restrict container n hn d]

/-- the geometry part: at every level the restricted dict acts on the subtree like the full dict -/
theorem removeDup_fst : ∀ (h : HS) (dict : List (Nat × Nat)) (cs : List Nat),
    (h.removeDuplicateSurfaces dict cs).1 = h.subst (dictFun dict)
  | .leaf n s, dict, cs => by
    unfold HS.removeDuplicateSurfaces HS.subst dictFun
    cases dict.lookup n <;> rfl
  | .cellLeaf c, _, _ => rfl
  | .compl l, dict, cs => by
    unfold HS.removeDuplicateSurfaces
    have key : l.subst (dictFun (restrictDict dict l.surfaceLeaves)) = l.subst (dictFun dict) :=
      subst_congr l (fun n hn => dictFun_restrict hn dict)
    by_cases he : (restrictDict dict l.surfaceLeaves).isEmpty = true
    · simp only [he, if_true, HS.subst]
      rw [← key, List.isEmpty_iff.1 he]
      have : dictFun [] = fun n => n := by funext n; rfl
      rw [this, subst_id]
    · simp only [he, HS.subst, removeDup_fst l, key]
      rfl
  | .inter l r, dict, cs => by
    unfold HS.removeDuplicateSurfaces
    have keyl : l.subst (dictFun (restrictDict dict (l.surfaceLeaves ++ r.surfaceLeaves))) = l.subst (dictFun dict) :=
      subst_congr l (fun n hn => dictFun_restrict (List.mem_append_left _ hn) dict)
    have keyr : r.subst (dictFun (restrictDict dict (l.surfaceLeaves ++ r.surfaceLeaves))) = r.subst (dictFun dict) :=
      subst_congr r (fun n hn => dictFun_restrict (List.mem_append_right _ hn) dict)
    by_cases he : (restrictDict dict (l.surfaceLeaves ++ r.surfaceLeaves)).isEmpty = true
    · simp only [he, if_true, HS.subst]
      rw [← keyl, ← keyr, List.isEmpty_iff.1 he]
      have : dictFun [] = fun n => n := by funext n; rfl
      rw [this, subst_id, subst_id]
    · simp only [he, HS.subst, removeDup_fst l, removeDup_fst r, keyl, keyr]
      rfl
  | .union l r, dict, cs => by
    unfold HS.removeDuplicateSurfaces
    have keyl : l.subst (dictFun (restrictDict dict (l.surfaceLeaves ++ r.surfaceLeaves))) = l.subst (dictFun dict) :=
      subst_congr l (fun n hn => dictFun_restrict (List.mem_append_left _ hn) dict)
    have keyr : r.subst (dictFun (restrictDict dict (l.surfaceLeaves ++ r.surfaceLeaves))) = r.subst (dictFun dict) :=
      subst_congr r (fun n hn => dictFun_restrict (List.mem_append_right _ hn) dict)
    by_cases he : (restrictDict dict (l.surfaceLeaves ++ r.surfaceLeaves)).isEmpty = true
    · simp only [he, if_true, HS.subst]
      rw [← keyl, ← keyr, List.isEmpty_iff.1 he]
      have : dictFun [] = fun n => n := by funext n; rfl
      rw [this, subst_id, subst_id]
    · simp only [he, HS.subst, removeDup_fst l, removeDup_fst r, keyl, keyr]
      rfl


theorem mem_appendIfNew (cs : List Nat) (t x : Nat) : x ∈ appendIfNew cs t ↔ x ∈ cs ∨ x = t := by
  unfold appendIfNew
  by_cases h : cs.contains t = true
  · have : t ∈ cs := by simpa using h
    simp only [h, if_true]
    constructor
    · exact Or.inl
    · rintro (h' | h')
      · exact h'
      · exact h' ▸ this
  · rw [if_neg h]; simp

theorem exists_restrict {container sub : List Nat} (hsub : ∀ n ∈ sub, n ∈ container) (d : List (Nat × Nat)) (x : Nat) :
    (∃ n ∈ sub, (restrictDict d container).lookup n = some x) ↔ ∃ n ∈ sub, d.lookup n = some x := by
  constructor
  · rintro ⟨n, hn, h⟩; exact ⟨n, hn, by rw [← lookup_restrict container n (hsub n hn) d]; exact h⟩
  · rintro ⟨n, hn, h⟩; exact ⟨n, hn, by rw [lookup_restrict container n (hsub n hn) d]; exact h⟩

/-- the `cell.surfaces` part: the survivors of the leaves that were re-pointed are appended -/
theorem removeDup_snd : ∀ (h : HS) (dict : List (Nat × Nat)) (cs : List Nat) (x : Nat),
    x ∈ (h.removeDuplicateSurfaces dict cs).2 ↔ x ∈ cs ∨ ∃ n ∈ h.surfaceLeaves, dict.lookup n = some x
  | .leaf n s, dict, cs, x => by
    unfold HS.removeDuplicateSurfaces
    simp only [HS.surfaceLeaves, List.mem_singleton, exists_eq_left]
    cases hl : dict.lookup n with
    | none => simp
    | some t => simp only [mem_appendIfNew, Option.some.injEq]; exact ⟨fun h => h.imp id Eq.symm, fun h => h.imp id Eq.symm⟩
  | .cellLeaf c, _, _, _ => by simp [HS.removeDuplicateSurfaces, HS.surfaceLeaves]
  | .compl l, dict, cs, x => by
    unfold HS.removeDuplicateSurfaces
    simp only [HS.surfaceLeaves]
    rw [← exists_restrict (container := l.surfaceLeaves) (fun n h => h) dict x]
    by_cases he : (restrictDict dict l.surfaceLeaves).isEmpty = true
    · simp only [he, if_true]
      rw [List.isEmpty_iff.1 he]; simp
    · simp only [he]
      exact removeDup_snd l _ cs x
  | .inter l r, dict, cs, x => by
    unfold HS.removeDuplicateSurfaces
    simp only [HS.surfaceLeaves]
    rw [← exists_restrict (container := l.surfaceLeaves ++ r.surfaceLeaves) (fun n h => h) dict x]
    by_cases he : (restrictDict dict (l.surfaceLeaves ++ r.surfaceLeaves)).isEmpty = true
    · simp only [he, if_true]
      rw [List.isEmpty_iff.1 he]; simp
    · simp only [he]
      show x ∈ (r.removeDuplicateSurfaces _ (l.removeDuplicateSurfaces _ cs).2).2 ↔ _
      rw [removeDup_snd r, removeDup_snd l]
      simp only [List.mem_append]
      constructor
      · rintro ((h | ⟨n, hn, h⟩) | ⟨n, hn, h⟩)
        · exact Or.inl h
        · exact Or.inr ⟨n, Or.inl hn, h⟩
        · exact Or.inr ⟨n, Or.inr hn, h⟩
      · rintro (h | ⟨n, hn | hn, h⟩)
        · exact Or.inl (Or.inl h)
        · exact Or.inl (Or.inr ⟨n, hn, h⟩)
        · exact Or.inr ⟨n, hn, h⟩
  | .union l r, dict, cs, x => by
    unfold HS.removeDuplicateSurfaces
    simp only [HS.surfaceLeaves]
    rw [← exists_restrict (container := l.surfaceLeaves ++ r.surfaceLeaves) (fun n h => h) dict x]
    by_cases he : (restrictDict dict (l.surfaceLeaves ++ r.surfaceLeaves)).isEmpty = true
    · simp only [he, if_true]
      rw [List.isEmpty_iff.1 he]; simp
    · simp only [he]
      show x ∈ (r.removeDuplicateSurfaces _ (l.removeDuplicateSurfaces _ cs).2).2 ↔ _
      rw [removeDup_snd r, removeDup_snd l]
      simp only [List.mem_append]
      constructor
      · rintro ((h | ⟨n, hn, h⟩) | ⟨n, hn, h⟩)
        · exact Or.inl h
        · exact Or.inr ⟨n, Or.inl hn, h⟩
        · exact Or.inr ⟨n, Or.inr hn, h⟩
      · rintro (h | ⟨n, hn | hn, h⟩)
        · exact Or.inl (Or.inl h)
        · exact Or.inl (Or.inr ⟨n, hn, h⟩)
        · exact Or.inr ⟨n, hn, h⟩


end MontePyVerif.Dedupe
