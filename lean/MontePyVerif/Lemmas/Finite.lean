import Mathlib.Data.List.Perm.Subperm
import MontePyVerif.Lemmas.Flatten
/-!
# With the cycle check the read-card queue always dies out on a finite file system (lemmas for C20_term_always)

Every queue entry carries the chain of files being read on the way to it; a card naming a file of its chain is
refused (`MalformedInputError`, fix 8561374), so chains are duplicate-free lists of present files, and the nesting
of read cards is bounded by the number of files.
-/
namespace MontePyVerif.Finite
open MontePyVerif MontePyVerif.Reader MontePyVerif.Flatten

/-- the target of every entry enqueued by a file was checked against the chain of that file -/
theorem chk_flushInput (cfg : Cfg) (bt : BlockType) (raw : List Str) :
    ∀ e ∈ enqueued (flushInput cfg bt raw), cfg.chain.contains (joinPath cfg.topDir e.name) = false := by
  unfold flushInput
  split
  · split
    · simp [enqueued]
    · split
      · simp [enqueued]
      · rename_i h; intro e he; simp [enqueued] at he; subst he; simpa using h
  · simp [enqueued]

theorem chk_flushBlock (cfg : Cfg) (st : LState) :
    ∀ e ∈ enqueued (flushBlock cfg st).1, cfg.chain.contains (joinPath cfg.topDir e.name) = false := by
  unfold flushBlock
  simp only
  split
  · simp [enqueued]
  · exact chk_flushInput _ _ _

theorem chk_stepData (cfg : Cfg) (st : LState) (line : Str) (c : Bool) (evs1 : List Event) (raw1 : List Str)
    (h : ∀ e ∈ enqueued evs1, cfg.chain.contains (joinPath cfg.topDir e.name) = false) :
    ∀ e ∈ enqueued (stepData cfg st line c evs1 raw1).1, cfg.chain.contains (joinPath cfg.topDir e.name) = false := by
  unfold stepData
  split
  · exact h
  · split
    · intro e he; rw [enqueued_append] at he; simp [enqueued] at he; exact h e he
    · intro e he
      rw [enqueued_append] at he
      rcases List.mem_append.mp he with h1 | h1
      · exact h e h1
      · split at h1 <;> simp [enqueued] at h1

theorem chk_stepLine (cfg : Cfg) (st : LState) (l : Str) :
    ∀ e ∈ enqueued (stepLine cfg st l).1, cfg.chain.contains (joinPath cfg.topDir e.name) = false := by
  unfold stepLine
  simp only
  split
  · exact chk_flushBlock _ _
  · split
    · exact chk_stepData _ _ _ _ _ _ (chk_flushInput _ _ _)
    · exact chk_stepData _ _ _ _ _ _ (by simp [enqueued])

theorem chk_goLines (cfg : Cfg) (st : LState) (ls : List Str) :
    ∀ e ∈ enqueued (goLines cfg st ls), cfg.chain.contains (joinPath cfg.topDir e.name) = false := by
  induction ls generalizing st with
  | nil => exact chk_flushBlock _ _
  | cons l ls ih =>
    unfold goLines
    simp only
    split
    · exact chk_stepLine _ _ _
    · intro e he
      rw [enqueued_append] at he
      rcases List.mem_append.mp he with h | h
      · exact chk_stepLine _ _ _ e h
      · exact ih _ e h

/-- what holds of every entry of the queue: its chain starts at the top-level file, has no duplicates, consists of
    files that exist, and does not contain the entry's own target -/
structure EntryInv (fs : FS) (support : List Str) (main : Str) (e : QEntry) : Prop where
  head : e.chain.head? = some main
  nodup : e.chain.Nodup
  present : ∀ p ∈ e.chain, p ∈ support
  fresh : joinPath (dirname main) e.name ∉ e.chain

theorem inv_serve (ll : Nat) (fs : FS) (support : List Str) (hsup : ∀ p, fs p ≠ none → p ∈ support) (main : Str)
    (e : QEntry) (he : EntryInv fs support main e) :
    ∀ e' ∈ enqueued (serve ll fs (dirname main) e), EntryInv fs support main e' ∧ e'.chain.length = e.chain.length + 1 := by
  intro e' he'
  have hchain := enq_serve ll fs (dirname main) e e' he'
  unfold serve at he'
  cases hfs : fs (joinPath (dirname main) e.name) with
  | none => rw [hfs] at he'; simp [enqueued] at he'
  | some bytes =>
    rw [hfs] at he'
    simp only [enqueued] at he'
    have hchk := chk_goLines _ _ _ e' he'
    have htop : (⟨ll, e.bt, joinPath (dirname main) e.name, e.chain ++ [joinPath (dirname main) e.name]⟩ : Cfg).topDir
        = dirname main := by
      unfold Cfg.topDir
      simp only
      have := he.head
      cases hc : e.chain with
      | nil => rw [hc] at this; simp at this
      | cons a t => rw [hc] at this; simp at this; subst this; rfl
    rw [htop] at hchk
    simp only at hchk
    refine ⟨⟨?_, ?_, ?_, ?_⟩, ?_⟩
    · rw [hchain]
      have := he.head
      cases hc : e.chain with
      | nil => rw [hc] at this; simp at this
      | cons a t => rw [hc] at this; simpa using this
    · rw [hchain]
      rw [List.nodup_append]
      refine ⟨he.nodup, by simp, ?_⟩
      intro a ha b hb
      simp at hb; subst hb
      intro e; subst e; exact he.fresh ha
    · rw [hchain]
      intro p hp
      rcases List.mem_append.mp hp with h | h
      · exact he.present p h
      · simp at h; subst h; exact hsup _ (by rw [hfs]; simp)
    · rw [hchain]
      intro hm
      rw [List.contains_eq_mem, decide_eq_false_iff_not] at hchk
      exact hchk hm
    · rw [hchain]; simp

theorem inv_serveAll (ll : Nat) (fs : FS) (support : List Str) (hsup : ∀ p, fs p ≠ none → p ∈ support) (main : Str)
    (q : List QEntry) (k : Nat) (hq : ∀ e ∈ q, EntryInv fs support main e ∧ e.chain.length ≥ k) :
    ∀ e' ∈ enqueued (serveAll ll fs (dirname main) q), EntryInv fs support main e' ∧ e'.chain.length ≥ k + 1 := by
  intro e' he'
  unfold serveAll at he'
  induction q with
  | nil => simp [enqueued] at he'
  | cons e q ih =>
    simp only [List.flatMap_cons, enqueued_append] at he'
    rcases List.mem_append.mp he' with h | h
    · obtain ⟨hi, hl⟩ := inv_serve ll fs support hsup main e (hq e (by simp)).1 e' h
      exact ⟨hi, by have := (hq e (by simp)).2; omega⟩
    · exact ih (fun x hx => hq x (List.mem_cons_of_mem _ hx)) h

/-- the queue dies out: nesting is bounded by the number of files -/
theorem diesOut_of_finite (ll : Nat) (fs : FS) (support : List Str) (hsup : ∀ p, fs p ≠ none → p ∈ support) (main : Str)
    (m : Nat) : ∀ (q : List QEntry) (k : Nat), support.length + 1 ≤ m + k →
      (∀ e ∈ q, EntryInv fs support main e ∧ e.chain.length ≥ k) → DiesOut ll fs (dirname main) m q := by
  induction m with
  | zero =>
    intro q k hk hq
    cases q with
    | nil => simp [DiesOut]
    | cons e q =>
      exfalso
      obtain ⟨hi, hl⟩ := hq e (by simp)
      have := (List.Nodup.subperm hi.nodup (fun p hp => hi.present p hp)).length_le
      omega
  | succ m ih =>
    intro q k hk hq
    cases q with
    | nil => simp [DiesOut]
    | cons e q =>
      simp only [DiesOut]
      exact ih _ (k + 1) (by omega) (inv_serveAll ll fs support hsup main (e :: q) k hq)

end MontePyVerif.Finite

namespace MontePyVerif.Finite
open MontePyVerif MontePyVerif.Reader MontePyVerif.Flatten

/-! ## the per-file reader and `serve` never raise for lack of fuel -/

def NoFuelRaise (evs : List Event) : Prop := Event.raise .outOfFuel ∉ evs

theorem nf_flushInput (cfg : Cfg) (bt : BlockType) (raw : List Str) : NoFuelRaise (flushInput cfg bt raw) := by
  unfold NoFuelRaise flushInput
  split
  · split
    · simp
    · split <;> simp
  · simp

theorem nf_flushBlock (cfg : Cfg) (st : LState) : NoFuelRaise (flushBlock cfg st).1 := by
  unfold flushBlock
  simp only
  split
  · simp [NoFuelRaise]
  · exact nf_flushInput _ _ _

theorem nf_stepData (cfg : Cfg) (st : LState) (line : Str) (c : Bool) (evs1 : List Event) (raw1 : List Str)
    (h : NoFuelRaise evs1) : NoFuelRaise (stepData cfg st line c evs1 raw1).1 := by
  unfold stepData
  split
  · exact h
  · split
    · unfold NoFuelRaise at *; simp [h]
    · unfold NoFuelRaise at *
      simp only [List.mem_append, not_or]
      refine ⟨h, ?_⟩
      split <;> simp

theorem nf_stepLine (cfg : Cfg) (st : LState) (l : Str) : NoFuelRaise (stepLine cfg st l).1 := by
  unfold stepLine
  simp only
  split
  · exact nf_flushBlock _ _
  · split
    · exact nf_stepData _ _ _ _ _ _ (nf_flushInput _ _ _)
    · exact nf_stepData _ _ _ _ _ _ (by simp [NoFuelRaise])

theorem nf_goLines (cfg : Cfg) (st : LState) (ls : List Str) : NoFuelRaise (goLines cfg st ls) := by
  induction ls generalizing st with
  | nil => exact nf_flushBlock _ _
  | cons l ls ih =>
    unfold goLines
    simp only
    split
    · exact nf_stepLine _ _ _
    · unfold NoFuelRaise at *
      simp only [List.mem_append, not_or]
      exact ⟨nf_stepLine _ _ _, ih _⟩

theorem nf_serve (ll : Nat) (fs : FS) (dir : Str) (e : QEntry) : NoFuelRaise (serve ll fs dir e) := by
  unfold serve NoFuelRaise
  cases fs (joinPath dir e.name) with
  | none => simp
  | some bytes =>
    simp only [List.mem_cons, not_or]
    exact ⟨by simp, nf_goLines _ _ _⟩

theorem nf_serveAll (ll : Nat) (fs : FS) (dir : Str) (q : List QEntry) : NoFuelRaise (serveAll ll fs dir q) := by
  unfold serveAll NoFuelRaise
  intro h
  obtain ⟨e, _, he⟩ := List.mem_flatMap.mp h
  exact nf_serve ll fs dir e he

theorem mem_cut (evs : List Event) : ∀ x ∈ cut evs, x ∈ evs := by
  induction evs with
  | nil => simp [cut]
  | cons e t ih =>
    intro x hx
    unfold cut at hx
    split at hx
    · simp at hx; subst hx; simp
    · rcases List.mem_cons.mp hx with rfl | h
      · simp
      · exact List.mem_cons_of_mem _ (ih x h)

end MontePyVerif.Finite
