import MontePyVerif.Lemmas.Refine
/-!
# From one file to the tree of files: generation-wise serving refines `Spec.gensS` (lemmas for C20_flatten)
-/
namespace MontePyVerif.Flatten
open MontePyVerif MontePyVerif.Reader MontePyVerif.Refine MontePyVerif.LineFacts

/-- a queue entry as the Spec's pending read card -/
def toP (e : QEntry) : Spec.Pending := ⟨e.bt.value, e.name, e.chain⟩

/-! ## `cutS` algebra -/

theorem any_isErr_cutS (a : List Spec.SOut) : (Spec.cutS a).any isErr = a.any isErr := by
  induction a with
  | nil => rfl
  | cons o t ih => rw [cutS_cons]; split <;> simp_all

theorem cutS_of_noErr (a : List Spec.SOut) (h : a.any isErr = false) : Spec.cutS a = a := by
  have := cutS_append_noErr a [] h
  simpa [Spec.cutS] using this

theorem cutS_append_err (a b : List Spec.SOut) (h : a.any isErr = true) : Spec.cutS (a ++ b) = Spec.cutS a := by
  induction a with
  | nil => simp at h
  | cons o t ih =>
    simp only [List.cons_append, cutS_cons]
    split
    · rfl
    · rename_i ho
      simp only [List.any_cons, ho, Bool.false_or] at h
      rw [ih h]

theorem cutS_idem (a : List Spec.SOut) : Spec.cutS (Spec.cutS a) = Spec.cutS a := by
  induction a with
  | nil => rfl
  | cons o t ih =>
    rw [cutS_cons]; split
    · rename_i h; rw [cutS_cons, h]; rfl
    · rename_i h; rw [cutS_cons]; simp [h, ih]

theorem cutS_cutS_append (a b : List Spec.SOut) : Spec.cutS (Spec.cutS a ++ b) = Spec.cutS (a ++ b) := by
  cases h : a.any isErr
  · rw [cutS_of_noErr a h]
  · rw [cutS_append_err _ _ (by rw [any_isErr_cutS]; exact h), cutS_idem, cutS_append_err _ _ h]

theorem cutS_append_cutS (a b : List Spec.SOut) : Spec.cutS (a ++ Spec.cutS b) = Spec.cutS (a ++ b) := by
  cases h : a.any isErr
  · rw [cutS_append_noErr _ _ h, cutS_append_noErr _ _ h, cutS_idem]
  · rw [cutS_append_err _ _ h, cutS_append_err _ _ h]

/-! ## `proj` algebra -/

theorem projEv_raise (e : Event) (h : e.isRaise = true) : ∃ x, projEv e = [.err x] := by
  cases e with
  | raise err => cases err <;> exact ⟨_, rfl⟩
  | _ => simp [Event.isRaise] at h

theorem projEv_noRaise (e : Event) (h : e.isRaise = false) : (projEv e).any isErr = false := by
  cases e with
  | raise err => simp [Event.isRaise] at h
  | input bt raw => by_cases hd : hasData raw = true <;> simp [projEv, hd, isErr]
  | _ => simp [projEv, isErr]

theorem proj_cons (e : Event) (t : List Event) : proj (e :: t) = projEv e ++ proj t := by simp [proj]

theorem proj_cut (evs : List Event) : proj (cut evs) = Spec.cutS (proj evs) := by
  induction evs with
  | nil => rfl
  | cons e t ih =>
    by_cases h : e.isRaise = true
    · obtain ⟨x, hx⟩ := projEv_raise e h
      simp only [cut, h, ↓reduceIte, proj_cons, proj_nil, List.append_nil, hx, List.cons_append, List.nil_append,
        cutS_cons, isErr]
    · have h' : e.isRaise = false := by simpa using h
      simp only [cut, h', Bool.false_eq_true, ↓reduceIte, proj_cons, ih]
      rw [cutS_append_noErr _ _ (projEv_noRaise e h')]

theorem any_isErr_proj (evs : List Event) : (proj evs).any isErr = hasRaise evs := by
  induction evs with
  | nil => rfl
  | cons e t ih =>
    rw [proj_cons, List.any_append, ih, hasRaise_cons]
    congr 1
    by_cases h : e.isRaise = true
    · obtain ⟨x, hx⟩ := projEv_raise e h
      rw [hx, h]; rfl
    · have h' : e.isRaise = false := by simpa using h
      rw [projEv_noRaise e h', h']

theorem cards_append (a b : List Spec.SOut) : Spec.cards (a ++ b) = Spec.cards a ++ Spec.cards b := by
  induction a with
  | nil => rfl
  | cons o t ih => cases o <;> simp [Spec.cards, ih]

theorem cards_proj (evs : List Event) : Spec.cards (proj evs) = (enqueued evs).map toP := by
  induction evs with
  | nil => rfl
  | cons e t ih =>
    rw [proj_cons, cards_append, ih]
    cases e with
    | enqueue q => simp [projEv, Spec.cards, enqueued, toP]
    | input bt raw => by_cases hd : hasData raw = true <;> simp [projEv, hd, Spec.cards, enqueued]
    | raise err => cases err <;> simp [projEv, Spec.cards, enqueued]
    | _ => simp [projEv, Spec.cards, enqueued]

/-! ## the chain of every entry enqueued by a file is the chain of that file -/

theorem enq_flushInput (cfg : Cfg) (bt : BlockType) (raw : List Str) :
    ∀ e ∈ enqueued (flushInput cfg bt raw), e.chain = cfg.chain := by
  unfold flushInput
  split
  · split
    · simp [enqueued]
    · split <;> simp [enqueued]
  · simp [enqueued]

theorem enq_flushBlock (cfg : Cfg) (st : LState) : ∀ e ∈ enqueued (flushBlock cfg st).1, e.chain = cfg.chain := by
  unfold flushBlock
  simp only
  split
  · simp [enqueued]
  · exact enq_flushInput _ _ _

theorem enq_stepData (cfg : Cfg) (st : LState) (line : Str) (c : Bool) (evs1 : List Event) (raw1 : List Str)
    (h : ∀ e ∈ enqueued evs1, e.chain = cfg.chain) :
    ∀ e ∈ enqueued (stepData cfg st line c evs1 raw1).1, e.chain = cfg.chain := by
  unfold stepData
  split
  · exact h
  · split
    · intro e he; rw [enqueued_append] at he; simp [enqueued] at he; exact h e he
    · intro e he
      rw [enqueued_append] at he
      rcases List.mem_append.mp he with h1 | h1
      · exact h e h1
      · split at h1 <;> simp [enqueued] at h1

theorem enq_stepLine (cfg : Cfg) (st : LState) (l : Str) : ∀ e ∈ enqueued (stepLine cfg st l).1, e.chain = cfg.chain := by
  unfold stepLine
  simp only
  split
  · exact enq_flushBlock _ _
  · split
    · exact enq_stepData _ _ _ _ _ _ (enq_flushInput _ _ _)
    · exact enq_stepData _ _ _ _ _ _ (by simp [enqueued])

theorem enq_goLines (cfg : Cfg) (st : LState) (ls : List Str) : ∀ e ∈ enqueued (goLines cfg st ls), e.chain = cfg.chain := by
  induction ls generalizing st with
  | nil => exact enq_flushBlock _ _
  | cons l ls ih =>
    unfold goLines
    simp only
    split
    · exact enq_stepLine _ _ _
    · intro e he
      rw [enqueued_append] at he
      rcases List.mem_append.mp he with h | h
      · exact enq_stepLine _ _ _ e h
      · exact ih _ e h

theorem enq_serve (ll : Nat) (fs : FS) (dir : Str) (e : QEntry) :
    ∀ e' ∈ enqueued (serve ll fs dir e), e'.chain = e.chain ++ [joinPath dir e.name] := by
  unfold serve
  cases fs (joinPath dir e.name) with
  | none => simp [enqueued]
  | some bytes =>
    intro e' he'
    simp only [enqueued] at he'
    exact enq_goLines _ _ _ e' he'

/-! ## one file -/

/-- the lines of one file as the model (`mlines`, with their terminators) and the Spec (`slines`) see them, all of
    them lines on which the code's rules and MCNP's coincide; read from block `start` the file is well terminated -/
def FileOK (limit start : Nat) (mlines : List Str) (slines : List Spec.Line) : Prop :=
  ∃ ms : List (List Char × List Char), mlines = ms.map (fun q => q.1 ++ q.2) ∧ slines = ms.map (·.1) ∧
    (∀ q ∈ ms, GoodLine limit q.1 ∧ IsTerm q.2) ∧
    wellTerminated start (ms.map (fun q => Spec.classifyPhysical q.1)) = true

theorem expandTabs_noTab (y : List Char) (h : ∀ c ∈ y, c ≠ '\t') (col : Nat) : Spec.expandTabsFrom col y = y := by
  induction y generalizing col with
  | nil => rfl
  | cons c y ih =>
    have hc : c ≠ '\t' := h c (by simp)
    simp only [Spec.expandTabsFrom, hc, ↓reduceIte]
    rw [ih (fun d hd => h d (List.mem_cons_of_mem _ hd))]

theorem classify_good {limit : Nat} {x : List Char} (g : GoodLine limit x) :
    Spec.classify limit x = Spec.classifyPhysical x := by
  unfold Spec.classify Spec.physical
  rw [expandTabs_noTab x (fun c hc e => by subst e; exact absurd (g.onlyBlanks _ hc (by decide)) (by decide))]
  rw [List.take_of_length_le (Nat.le_of_lt g.fits)]

theorem fileStream_ok {limit : Nat} (cfg : Cfg) (hl : cfg.lineLength = limit) (mlines : List Str) (slines : List Spec.Line)
    (h : FileOK limit cfg.firstBlock.value mlines slines) :
    proj (readData cfg mlines) =
      Spec.cutS (Spec.fileStream limit (joinPath cfg.topDir) cfg.chain cfg.firstBlock.value slines) := by
  obtain ⟨ms, rfl, rfl, hgood, hwt⟩ := h
  rw [readData_refines cfg hl ms hgood hwt]
  unfold Spec.fileStream Spec.inputsFrom
  have : (ms.map (·.1)).map (Spec.classify limit) = ms.map (fun q => Spec.classifyPhysical q.1) := by
    rw [List.map_map]
    apply List.map_congr_left
    intro q hq
    exact classify_good (hgood q hq).1
  rw [this]

/-- what is assumed about the file a served entry names: absent on both sides, or present on both sides and `FileOK` -/
def EntryOK (limit : Nat) (fs : FS) (files : Spec.Files) (dir : Str) (e : QEntry) : Prop :=
  match fs (joinPath dir e.name) with
  | none => files (joinPath dir e.name) = none
  | some bytes => ∃ ls, files (joinPath dir e.name) = some ls ∧ FileOK limit e.bt.value (fileLines bytes) ls

theorem serve_ok (ll : Nat) (fs : FS) (files : Spec.Files) (main : Str) (e : QEntry)
    (hchain : e.chain.head? = some main) (hok : EntryOK ll fs files (dirname main) e) :
    proj (serve ll fs (dirname main) e) = Spec.cutS (Spec.serveS ll files (joinPath (dirname main)) (toP e)) := by
  unfold serve Spec.serveS EntryOK at *
  simp only [toP]
  cases hfs : fs (joinPath (dirname main) e.name) with
  | none =>
    rw [hfs] at hok
    rw [hok]
    rfl
  | some bytes =>
    rw [hfs] at hok
    obtain ⟨ls, hfiles, hfile⟩ := hok
    rw [hfiles]
    simp only [proj_cons, projEv, List.nil_append]
    have htop : (⟨ll, e.bt, joinPath (dirname main) e.name, e.chain ++ [joinPath (dirname main) e.name]⟩ : Cfg).topDir
        = dirname main := by
      unfold Cfg.topDir
      simp only
      cases hc : e.chain with
      | nil => rw [hc] at hchain; simp at hchain
      | cons a t => rw [hc] at hchain; simp at hchain; subst hchain; rfl
    have := fileStream_ok ⟨ll, e.bt, joinPath (dirname main) e.name, e.chain ++ [joinPath (dirname main) e.name]⟩ rfl
      (fileLines bytes) ls hfile
    rw [htop] at this
    exact this

/-! ## generations -/

theorem cutS_flatMap_cutS {α} (l : List α) (f : α → List Spec.SOut) :
    Spec.cutS (l.flatMap (fun a => Spec.cutS (f a))) = Spec.cutS (l.flatMap f) := by
  induction l with
  | nil => rfl
  | cons a t ih =>
    simp only [List.flatMap_cons]
    rw [cutS_cutS_append, ← cutS_append_cutS, ih, cutS_append_cutS]

theorem flatMap_cutS_noErr {α} (l : List α) (f : α → List Spec.SOut) (h : (l.flatMap f).any isErr = false) :
    l.flatMap (fun a => Spec.cutS (f a)) = l.flatMap f := by
  induction l with
  | nil => rfl
  | cons a t ih =>
    simp only [List.flatMap_cons, List.any_append, Bool.or_eq_false_iff] at h ⊢
    rw [cutS_of_noErr _ h.1, ih h.2]

theorem served_sub (ll : Nat) (fs : FS) (dir : Str) (d : Nat) (e : QEntry) (q : List QEntry) :
    (∀ x ∈ e :: q, x ∈ served ll fs dir (d + 1) (e :: q)) ∧
    (∀ x ∈ served ll fs dir d (enqueued (serveAll ll fs dir (e :: q))), x ∈ served ll fs dir (d + 1) (e :: q)) := by
  simp only [served]
  exact ⟨fun x hx => List.mem_append.mpr (Or.inl hx), fun x hx => List.mem_append.mpr (Or.inr hx)⟩

theorem proj_serveAll (ll : Nat) (fs : FS) (files : Spec.Files) (main : Str) (q : List QEntry)
    (hchain : ∀ e ∈ q, e.chain.head? = some main) (hok : ∀ e ∈ q, EntryOK ll fs files (dirname main) e) :
    proj (serveAll ll fs (dirname main) q) =
      (q.map toP).flatMap (fun p => Spec.cutS (Spec.serveS ll files (joinPath (dirname main)) p)) := by
  induction q with
  | nil => rfl
  | cons e q ih =>
    simp only [serveAll, List.flatMap_cons, List.map_cons, proj_append] at ih ⊢
    rw [serve_ok ll fs files main e (hchain e (by simp)) (hok e (by simp)),
      ih (fun x hx => hchain x (List.mem_cons_of_mem _ hx)) (fun x hx => hok x (List.mem_cons_of_mem _ hx))]

theorem chain_enqueued (ll : Nat) (fs : FS) (dir main : Str) (q : List QEntry)
    (hchain : ∀ e ∈ q, e.chain.head? = some main) :
    ∀ e' ∈ enqueued (serveAll ll fs dir q), e'.chain.head? = some main := by
  intro e' he'
  unfold serveAll at he'
  induction q with
  | nil => simp [enqueued] at he'
  | cons e q ih =>
    simp only [List.flatMap_cons, enqueued_append] at he'
    rcases List.mem_append.mp he' with h | h
    · rw [enq_serve ll fs dir e e' h]
      have := hchain e (by simp)
      cases hc : e.chain with
      | nil => rw [hc] at this; simp at this
      | cons a t => rw [hc] at this; simpa using this
    · exact ih (fun x hx => hchain x (List.mem_cons_of_mem _ hx)) h

/-- **generation by generation** the model's serving, seen through `proj`, is the Spec's -/
theorem gens_refines (ll : Nat) (fs : FS) (files : Spec.Files) (main : Str) (d : Nat) :
    ∀ (q : List QEntry), (∀ e ∈ q, e.chain.head? = some main) →
      (∀ e ∈ served ll fs (dirname main) d q, EntryOK ll fs files (dirname main) e) →
      Spec.cutS (proj (gens ll fs (dirname main) d q)) =
        Spec.cutS (Spec.gensS ll files (joinPath (dirname main)) d (q.map toP)) := by
  induction d with
  | zero => intro q _ _; cases q <;> rfl
  | succ d ih =>
    intro q hchain hok
    cases q with
    | nil => rfl
    | cons e q =>
      obtain ⟨hsub1, hsub2⟩ := served_sub ll fs (dirname main) d e q
      have hp := proj_serveAll ll fs files main (e :: q) hchain (fun x hx => hok x (hsub1 x hx))
      simp only [gens, Spec.gensS, List.map_cons, proj_append]
      simp only [List.map_cons] at hp
      generalize hs : (toP e :: q.map toP).flatMap (Spec.serveS ll files (joinPath (dirname main))) = s at *
      cases herr : s.any isErr
      · -- nobody of this generation fails: go on with the next generation
        have hps : proj (serveAll ll fs (dirname main) (e :: q)) = s := by
          rw [hp, ← hs]; exact flatMap_cutS_noErr _ _ (by rw [hs]; exact herr)
        rw [hps, cutS_append_noErr _ _ herr, cutS_append_noErr _ _ herr]
        congr 1
        have hcards : Spec.cards s = (enqueued (serveAll ll fs (dirname main) (e :: q))).map toP := by
          rw [← hps, cards_proj]
        rw [hcards]
        exact ih _ (chain_enqueued ll fs (dirname main) main (e :: q) hchain) (fun x hx => hok x (hsub2 x hx))
      · -- somebody fails: everything stops there, on both sides
        have h1 : (proj (serveAll ll fs (dirname main) (e :: q))).any isErr = true := by
          rw [hp]
          have := congrArg (fun l => l.any isErr) (cutS_flatMap_cutS (toP e :: q.map toP) (Spec.serveS ll files (joinPath (dirname main))))
          simp only [any_isErr_cutS] at this
          rw [this, hs]; exact herr
        rw [cutS_append_err _ _ h1, cutS_append_err _ _ herr, hp, cutS_flatMap_cutS, hs]

/-! ## a sufficient, decidable criterion for `FileOK` (used by the non-vacuity examples) -/

/-- a line without `$` and `#` whose only white space is the blank is a `GoodLine` as soon as it fits and carries a word -/
theorem goodLine_plain (limit : Nat) (x : List Char)
    (h1 : ∀ c ∈ x, pyIsSpace c = true → c = ' ') (h2 : x.length < limit)
    (h3 : x.contains '#' = false) (h4 : x.contains '$' = false)
    (h5 : Spec.isBlankLine x = false → Spec.isCommentLine x = false → Spec.lineWords x ≠ []) : GoodLine limit x where
  onlyBlanks := h1
  fits := h2
  noVertical := by
    intro h
    have : x.contains '#' = true := by
      simp only [List.contains_eq_mem, decide_eq_true_eq] at h ⊢
      exact List.mem_of_mem_take h
    rw [h3] at this; exact absurd this (by decide)
  noAmpDollar := by intro _ h; rw [h4] at h; exact absurd h (by decide)
  hasWords := h5
  dollarSpaced := by
    intro _ pre post e _
    have : x.contains '$' = true := by rw [e]; simp
    rw [h4] at this; exact absurd this (by decide)

theorem wt_noBlank (start : Nat) (hs : start < 3) (ks : List Spec.Kind) (h : ∀ k ∈ ks, k ≠ .blank) :
    wellTerminated start ks = true := by
  induction ks with
  | nil => rfl
  | cons k ks ih =>
    have ih' := ih (fun k' hk' => h k' (List.mem_cons_of_mem _ hk'))
    cases k with
    | blank => exact absurd rfl (h _ (by simp))
    | comment => simpa [wellTerminated] using ih'
    | data c w a => simp [wellTerminated, hs, ih']

theorem kind_ne_blank (x : List Char) (h : Spec.isBlankLine x = false) : Spec.classifyPhysical x ≠ .blank := by
  unfold Spec.classifyPhysical
  simp only [h, Bool.false_eq_true, ↓reduceIte]
  split
  · simp
  · split <;> simp

theorem exFileOK (start : Nat) (hs : start < 3) (ls : List (List Char)) (bytes : List Nat)
    (hm : fileLines bytes = ls.map (· ++ ['\n']))
    (hg : ∀ x ∈ ls, (∀ c ∈ x, pyIsSpace c = true → c = ' ') ∧ x.length < 128 ∧ x.contains '#' = false ∧
      x.contains '$' = false ∧ Spec.isBlankLine x = false ∧ (Spec.isCommentLine x = false → Spec.lineWords x ≠ [])) :
    FileOK 128 start (fileLines bytes) ls := by
  refine ⟨ls.map (fun x => (x, ['\n'])), ?_, ?_, ?_, ?_⟩
  · rw [hm, List.map_map]; rfl
  · rw [List.map_map]
    clear hm hg
    induction ls with
    | nil => rfl
    | cons x l ih => rw [List.map_cons, ← ih]; rfl
  · intro q hq
    obtain ⟨x, hx, rfl⟩ := List.mem_map.mp hq
    obtain ⟨a, b, c, d, _, f⟩ := hg x hx
    exact ⟨goodLine_plain 128 x a b c d (fun _ => f), Or.inr rfl⟩
  · -- no blank line in the file: the block never changes
    apply wt_noBlank start hs
    intro k hk
    rw [List.map_map] at hk
    obtain ⟨x, hx, rfl⟩ := List.mem_map.mp hk
    exact kind_ne_blank x (hg x hx).2.2.2.2.1


end MontePyVerif.Flatten
