import MontePyVerif.Lemmas.GeometryPrint
/-! `_ensure_has_nodes` establishes `linked`, `_update_node` turns `linked` into `ready`.

    `Le T' T`: the text `T'` leaves a lexer's comment state at most as open as `T` does, from either state.  Every
    transformation `_end_trailing_comment` performs (appending a line end and blanks to a padding) makes texts
    smaller in this preorder, and every text condition of `gen` is downward closed in it. -/
namespace MontePyVerif.C02
open MontePyVerif.Spec.Geometry MontePyVerif.Geometry

def Le (T' T : List GCh) : Prop := ∀ c, cmtAfter c T' = true → cmtAfter c T = true

theorem cmtAfter_mono (T : List GCh) : cmtAfter false T = true → cmtAfter true T = true := by
  induction T with
  | nil => simp [cmtAfter]
  | cons x xs ih =>
    cases x <;> simp [cmtAfter] <;> first | exact ih | (intro h; exact h)

theorem cmtAfter_mono' (c c' : Bool) (T : List GCh) (hc : c = true → c' = true) :
    cmtAfter c T = true → cmtAfter c' T = true := by
  cases c <;> cases c' <;> simp_all
  exact cmtAfter_mono T

theorem Le.refl (T : List GCh) : Le T T := fun _ h => h
theorem Le.trans {A B C : List GCh} (h1 : Le A B) (h2 : Le B C) : Le A C := fun c h => h2 c (h1 c h)

theorem Le.append {A' A B' B : List GCh} (ha : Le A' A) (hb : Le B' B) : Le (A' ++ B') (A ++ B) := by
  intro c h
  rw [cmtAfter_append] at h ⊢
  exact cmtAfter_mono' _ _ B (ha c) (hb _ h)

theorem Le.closed {T' T : List GCh} (h : Le T' T) (hc : cmtAfter false T = false) : cmtAfter false T' = false := by
  cases hh : cmtAfter false T' with
  | false => rfl
  | true => rw [h false hh] at hc; cases hc

/-- the text `_end_trailing_comment` appends -/
def endTxt : List GCh := .nl :: List.replicate Gen.blankSpaceContinue .sp

theorem cmtAfter_sps (k : Nat) : cmtAfter false (List.replicate k GCh.sp) = false := by
  induction k with
  | zero => rfl
  | succ k ih => rw [List.replicate, cmtAfter_false_cons_ne (by decide)]; exact ih

theorem cmtAfter_endTxt (c : Bool) : cmtAfter c endTxt = false := by
  cases c
  · rw [endTxt, cmtAfter_false_cons_ne (by decide)]; exact cmtAfter_sps _
  · simp [endTxt, cmtAfter, cmtAfter_sps]

theorem cmtAfter_append_endTxt (c : Bool) (T : List GCh) : cmtAfter c (T ++ endTxt) = false := by
  rw [cmtAfter_append, cmtAfter_endTxt]

theorem le_append_endTxt (T : List GCh) : Le (T ++ endTxt) T := by
  intro c h; rw [cmtAfter_append_endTxt] at h; cases h

theorem isSep_sps (k : Nat) : isSep false (List.replicate k GCh.sp) = true := by
  induction k with
  | zero => rfl
  | succ k ih => simp [List.replicate, isSep, ih]

theorem isSep_endTxt (c : Bool) : isSep c endTxt = true := by
  cases c <;> simp [endTxt, isSep, isSep_sps]

theorem isSep_append_endTxt {c : Bool} {S : List GCh} (h : isSep c S = true) : isSep c (S ++ endTxt) = true := by
  rw [isSep_append, h, isSep_endTxt]; rfl

theorem format_endComment (p : Pad) : Pad.format p.endComment = p.format ++ endTxt := by
  simp [Pad.endComment, Pad.format, PItem.format, endTxt]

theorem optFmt_map_endComment (p : Option Pad) (hp : p.isSome = true) :
    optFmt (p.map Pad.endComment) = optFmt p ++ endTxt := by
  cases p with
  | none => simp at hp
  | some q => simp [optFmt, format_endComment]

/-! ## chains whose end paddings were extended -/

/-- a text that may be appended to a padding: separators from either comment state, and it never opens a comment -/
def Tail (X : List GCh) : Prop := (∀ c, isSep c X = true) ∧ ∀ T, Le (T ++ X) T

theorem Tail.nil : Tail [] := ⟨fun c => by cases c <;> rfl, fun T => by rw [List.append_nil]; exact Le.refl T⟩

theorem Tail.endTxt : Tail endTxt := ⟨isSep_endTxt, le_append_endTxt⟩

theorem Tail.append {X Y : List GCh} (hx : Tail X) (hy : Tail Y) : Tail (X ++ Y) := by
  refine ⟨fun c => by rw [isSep_append, hx.1, hy.1]; rfl, fun T => ?_⟩
  rw [← List.append_assoc]
  exact (hy.2 (T ++ X)).trans (hx.2 T)

/-- `c'` is `c` with tails appended to some end paddings -/
def ChainExt : List Wrap → List Wrap → Prop
  | [], [] => True
  | w' :: ws', w :: ws =>
      w'.sp = w.sp ∧ (∃ x : Pad, Tail x.format ∧ w'.ep = w.ep.map (· ++ x)) ∧ ChainExt ws' ws
  | _, _ => False

theorem format_append (p q : Pad) : Pad.format (p ++ q) = p.format ++ q.format := by
  simp [Pad.format]

theorem ChainExt.refl (c : List Wrap) : ChainExt c c := by
  induction c with
  | nil => trivial
  | cons w ws ih => exact ⟨rfl, ⟨[], by simpa [Pad.format] using Tail.nil, by cases w.ep <;> simp⟩, ih⟩

theorem ChainExt.trans {a b c : List Wrap} (h1 : ChainExt a b) (h2 : ChainExt b c) : ChainExt a c := by
  induction a generalizing b c with
  | nil => cases b <;> cases c <;> simp_all [ChainExt]
  | cons x xs ih =>
    cases b with
    | nil => simp [ChainExt] at h1
    | cons y ys =>
      cases c with
      | nil => simp [ChainExt] at h2
      | cons z zs =>
        obtain ⟨hs1, ⟨x1, t1, he1⟩, hr1⟩ := h1
        obtain ⟨hs2, ⟨x2, t2, he2⟩, hr2⟩ := h2
        refine ⟨hs1.trans hs2, ⟨x2 ++ x1, ?_, ?_⟩, ih hr1 hr2⟩
        · rw [format_append]; exact t2.append t1
        · rw [he1, he2]; cases z.ep <;> simp

/-! kinds of `_SHIFT` trees, characterised -/

theorem kind_bare_iff (w : Wrap) : wrapKind w = .bare ↔ w.sp = none ∧ w.ep = none := by
  unfold wrapKind
  constructor
  · intro h; split at h <;> simp_all
  · rintro ⟨h1, h2⟩; simp [h1, h2]

theorem kind_parens_iff (w : Wrap) (s e : List GCh) :
    wrapKind w = .parens s e ↔
      ∃ si ei, w.sp = some (.str [.lp] :: si) ∧ w.ep = some (.str [.rp] :: ei) ∧ s = Pad.format si ∧ e = Pad.format ei := by
  unfold wrapKind
  constructor
  · intro h
    split at h
    · cases h
    · rename_i si ei hsp hep
      simp only [WK.parens.injEq] at h
      exact ⟨si, ei, hsp, hep, h.1.symm, h.2.symm⟩
    · cases h
  · rintro ⟨si, ei, h1, h2, h3, h4⟩
    simp [h1, h2, h3, h4]

theorem kind_ext {w' w : Wrap} (hs : w'.sp = w.sp) {x : Pad} (he : w'.ep = w.ep.map (· ++ x)) :
    (wrapKind w = .bare → wrapKind w' = .bare) ∧
    (∀ s e, wrapKind w = .parens s e → wrapKind w' = .parens s (e ++ x.format)) := by
  constructor
  · intro h
    obtain ⟨h1, h2⟩ := (kind_bare_iff w).1 h
    exact (kind_bare_iff w').2 ⟨hs.trans h1, by rw [he, h2]; rfl⟩
  · intro s e h
    obtain ⟨si, ei, h1, h2, h3, h4⟩ := (kind_parens_iff w s e).1 h
    refine (kind_parens_iff w' s (e ++ x.format)).2 ⟨si, ei ++ x, hs.trans h1, by rw [he, h2]; rfl, h3, ?_⟩
    rw [h4, format_append]

theorem wrapFmt_le {c' c : List Wrap} (h : ChainExt c' c) {t' t : List GCh} (ht : Le t' t) :
    Le (wrapFmt c' t') (wrapFmt c t) := by
  induction c' generalizing c with
  | nil => cases c <;> simp_all [ChainExt, wrapFmt]
  | cons w' ws' ih =>
    cases c with
    | nil => simp [ChainExt] at h
    | cons w ws =>
      obtain ⟨hs, ⟨x, tx, he⟩, hr⟩ := h
      simp only [wrapFmt]
      refine Le.append (Le.append (by rw [hs]; exact Le.refl _) (ih hr)) ?_
      rw [he]
      cases w.ep with
      | none => exact Le.refl _
      | some p => simpa [optFmt, format_append] using tx.2 p.format

theorem chainExt_pads {c' c : List Wrap} (h : ChainExt c' c) (hp : chainPads c = true) :
    chainPads c' = true ∧ headParens c' = headParens c ∧ allBare c' = allBare c := by
  induction c' generalizing c with
  | nil => cases c <;> simp_all [ChainExt]
  | cons w' ws' ih =>
    cases c with
    | nil => simp [ChainExt] at h
    | cons w ws =>
      obtain ⟨hs, ⟨x, tx, he⟩, hr⟩ := h
      simp only [chainPads, Bool.and_eq_true] at hp
      obtain ⟨hk, hrest⟩ := hp
      obtain ⟨ih1, _, ih3⟩ := ih hr hrest
      obtain ⟨kb, kp⟩ := kind_ext hs he
      cases hkw : wrapKind w with
      | bare => simp [chainPads, headParens, allBare, kb hkw, hkw, ih1, ih3]
      | bad => simp [hkw] at hk
      | parens s e =>
        simp [hkw] at hk
        have := kp s e hkw
        have hb1 : (WK.parens s (e ++ x.format) == WK.bare) = false := by simp
        have hb2 : (WK.parens s e == WK.bare) = false := by simp
        simp [chainPads, headParens, allBare, this, hkw, ih1, hk.1.1, hk.1.2, isSep_append, hk.2, tx.1, hb1, hb2]

theorem chainOK_ext {c' c : List Wrap} (h : ChainExt c' c) {t' t : List GCh} (ht : Le t' t)
    (hc : chainOK c t = true) : chainOK c' t' = true := by
  induction c' generalizing c with
  | nil => cases c <;> simp_all [ChainExt, chainOK]
  | cons w' ws' ih =>
    cases c with
    | nil => simp [ChainExt] at h
    | cons w ws =>
      obtain ⟨hs, ⟨x, tx, he⟩, hr⟩ := h
      obtain ⟨kb, kp⟩ := kind_ext hs he
      cases hkw : wrapKind w with
      | bare =>
        simp only [chainOK, hkw] at hc
        simp only [chainOK, kb hkw]; exact ih hr hc
      | bad => simp [chainOK, hkw] at hc
      | parens s e =>
        simp only [chainOK, hkw, Bool.and_eq_true, Bool.not_eq_true'] at hc
        obtain ⟨⟨⟨⟨h1, h2⟩, h3⟩, h4⟩, h5⟩ := hc
        simp only [chainOK, kp s e hkw, Bool.and_eq_true, Bool.not_eq_true']
        exact ⟨⟨⟨⟨h1, h2⟩, (wrapFmt_le hr ht).closed h3⟩, by rw [isSep_append, h4, tx.1]; rfl⟩, ih hr h5⟩

/-- `chainOK` is `chainPads` plus closedness in front of every ")" -/
theorem chainPads_of_chainOK {c : List Wrap} {t : List GCh} (h : chainOK c t = true) : chainPads c = true := by
  induction c with
  | nil => rfl
  | cons w ws ih =>
    cases hkw : wrapKind w with
    | bare => simp only [chainOK, hkw] at h; simp [chainPads, hkw, ih h]
    | bad => simp [chainOK, hkw] at h
    | parens s e =>
      simp only [chainOK, hkw, Bool.and_eq_true, Bool.not_eq_true'] at h
      obtain ⟨⟨⟨⟨h1, h2⟩, _⟩, h4⟩, h5⟩ := h
      simp [chainPads, hkw, h1, h2, h4, ih h5]

theorem headParens_eq_hasParens (ws : List Wrap) : headParens ws = hasParens ws := by
  cases ws with
  | nil => rfl
  | cons w ws =>
    simp only [headParens, hasParens]
    cases hk : wrapKind w with
    | parens s e =>
      obtain ⟨si, ei, h1, h2, _, _⟩ := (kind_parens_iff w s e).1 hk
      simp [Wrap.isParens, h1, h2]
    | bare =>
      obtain ⟨h1, h2⟩ := (kind_bare_iff w).1 hk
      simp [Wrap.isParens, h1, h2]
    | bad =>
      simp only
      cases hp : w.isParens with
      | false => rfl
      | true =>
        exfalso
        unfold Wrap.isParens at hp
        split at hp
        · rename_i si ei h1 h2
          have := (kind_parens_iff w (Pad.format si) (Pad.format ei)).2 ⟨si, ei, h1, h2, rfl, rfl⟩
          rw [hk] at this; cases this
        · cases hp

/-! ## `_end_trailing_comment` -/

theorem endChain_some {ws c : List Wrap} (h : endChain ws = some c) :
    ChainExt c ws ∧ ∀ t, wrapFmt c t = wrapFmt ws t ++ endTxt := by
  induction ws generalizing c with
  | nil => simp [endChain] at h
  | cons w ws ih =>
    simp only [endChain] at h
    cases hep : w.ep with
    | some p =>
      simp only [hep] at h
      cases h
      refine ⟨⟨rfl, ⟨[.str [.nl], .str (List.replicate Gen.blankSpaceContinue .sp)], ?_, ?_⟩, ChainExt.refl ws⟩, fun t => ?_⟩
      · have : Pad.format [.str [.nl], .str (List.replicate Gen.blankSpaceContinue .sp)] = endTxt := by
          simp [Pad.format, PItem.format, endTxt]
        rw [this]; exact Tail.endTxt
      · simp [hep, Pad.endComment]
      · simp [wrapFmt, optFmt, hep, format_endComment]
    | none =>
      simp only [hep] at h
      cases hh : endChain ws with
      | none => simp [hh] at h
      | some c' =>
        simp only [hh, Option.map_some, Option.some.injEq] at h
        subst h
        obtain ⟨e1, e2⟩ := ih hh
        refine ⟨⟨rfl, ⟨[], by simpa [Pad.format] using Tail.nil, by simp [hep]⟩, e1⟩, fun t => ?_⟩
        simp [wrapFmt, e2, hep, optFmt]

theorem endChain_none {ws : List Wrap} (h : endChain ws = none) :
    (∀ t x, wrapFmt ws (t ++ x) = wrapFmt ws t ++ x) ∧ (chainPads ws = true → allBare ws = true) := by
  induction ws with
  | nil => exact ⟨fun _ _ => rfl, fun _ => rfl⟩
  | cons w ws ih =>
    simp only [endChain] at h
    cases hep : w.ep with
    | some p => simp [hep] at h
    | none =>
      simp only [hep] at h
      have hn : endChain ws = none := by cases hh : endChain ws <;> simp_all
      obtain ⟨i1, i2⟩ := ih hn
      refine ⟨fun t x => by simp [wrapFmt, i1, hep, optFmt], fun hp => ?_⟩
      simp only [chainPads, Bool.and_eq_true] at hp
      cases hk : wrapKind w with
      | bare => simp [allBare, hk, i2 hp.2]
      | bad => simp [hk] at hp
      | parens s e =>
        obtain ⟨si, ei, _, h2, _, _⟩ := (kind_parens_iff w s e).1 hk
        rw [hep] at h2; cases h2

theorem endChain_allBare {ws : List Wrap} (h : allBare ws = true) : endChain ws = none := by
  induction ws with
  | nil => rfl
  | cons w ws ih =>
    simp only [allBare, Bool.and_eq_true, beq_iff_eq] at h
    obtain ⟨_, h2⟩ := (kind_bare_iff w).1 h.1
    simp [endChain, h2, ih h.2]

/-- a cell leaf (it only occurs directly under a complement) -/
def isCellUnit : HS → Bool
  | .unit _ _ true _ => true
  | _ => false

theorem gen_compl_general {b : Bool} {l : HS} {g : GN} (hl : isCellUnit l = false) :
    gen b (.compl l (some g)) =
      (gen b l && orderOK g [.operator, .left] && complOpr g.opr.format && headParens g.lchain &&
        chainOK g.lchain l.fmt && isSep false (optFmt g.ep)) := by
  cases l with
  | unit d s c n => cases c <;> simp_all [isCellUnit, gen]
  | compl _ _ => simp [gen]
  | bin _ _ _ _ => simp [gen]

theorem orderOK_cases {g : GN} {base : List Key} (h : orderOK g base = true) :
    (g.order = base ∧ g.ep = none) ∨ (g.order = base ++ [.endPad] ∧ g.ep.isSome = true) := by
  simp [orderOK] at h
  rcases h with ⟨h1, h2⟩ | ⟨h1, h2⟩
  · exact Or.inl ⟨h1, h2⟩
  · exact Or.inr ⟨h1, h2⟩

theorem orderOK_setEp {g : GN} {base : List Key} {ep' : Option Pad} (h : orderOK g base = true)
    (he : ep'.isSome = g.ep.isSome) : orderOK { g with ep := ep' } base = true := by
  simp [orderOK] at h ⊢
  rcases h with ⟨h1, h2⟩ | ⟨h1, h2⟩
  · left; refine ⟨h1, ?_⟩; rw [h2] at he; cases ep' <;> simp_all
  · right; exact ⟨h1, by rw [he]; exact h2⟩

/-- what no step of `_update_values` changes -/
structure Same (h' h : HS) : Prop where
  isU : isUnion h' = isUnion h
  cellU : isCellUnit h' = isCellUnit h
  ev : ∀ ρ, h'.eval ρ = h.eval ρ

theorem Same.refl (h : HS) : Same h h := ⟨rfl, rfl, fun _ => rfl⟩
theorem Same.trans {a b c : HS} (h1 : Same a b) (h2 : Same b c) : Same a c :=
  ⟨h1.isU.trans h2.isU, h1.cellU.trans h2.cellU, fun ρ => (h1.ev ρ).trans (h2.ev ρ)⟩

theorem optFmt_getD (p : Option Pad) : Pad.format (p.getD []) = optFmt p := by
  cases p <;> simp [optFmt, Pad.format]

theorem endNode_unit (d : Nat) (s c : Bool) (v : VN) :
    (endNode (.unit d s c (some v))).fmt = (HS.unit d s c (some v)).fmt ++ endTxt := by
  simp [endNode, HS.fmt, optFmt, format_endComment, optFmt_getD]

/-- `_end_trailing_comment` on a node: the text gets `endTxt` appended, nothing else changes -/
theorem endNode_spec (b : Bool) (h : HS) (hg : gen b h = true) :
    gen b (endNode h) = true ∧ (endNode h).fmt = h.fmt ++ endTxt ∧ Same (endNode h) h := by
  induction h with
  | unit d s c n =>
    cases c <;> cases n <;> simp [gen] at hg
    rename_i v
    refine ⟨?_, endNode_unit d s false v, ⟨rfl, rfl, fun _ => rfl⟩⟩
    simp only [endNode, gen, Bool.and_eq_true, beq_iff_eq]
    refine ⟨hg.1, ?_⟩
    simp only [optFmt, format_endComment, optFmt_getD]
    exact isSep_append_endTxt hg.2
  | compl l n ih =>
    cases n with
    | none => simp [gen] at hg
    | some g =>
      by_cases hcu : isCellUnit l = true
      · -- `#n`
        cases l with
        | unit d s c vn =>
          cases c
          · simp [isCellUnit] at hcu
          · cases vn with
            | none => simp [gen] at hg
            | some v =>
              simp only [gen, Bool.and_eq_true, beq_iff_eq] at hg
              obtain ⟨⟨⟨⟨⟨ho, hopr⟩, hbare⟩, hcv⟩, hpad⟩, hep⟩ := hg
              rcases orderOK_cases ho with ⟨hord, hepn⟩ | ⟨hord, heps⟩
              · have hl : g.order.getLast? = some .left := by rw [hord]; rfl
                have hcn := endChain_allBare hbare
                simp only [endNode, hl, hcn]
                refine ⟨?_, ?_, ⟨rfl, rfl, fun _ => rfl⟩⟩
                · simp only [gen, Bool.and_eq_true, beq_iff_eq]
                  refine ⟨⟨⟨⟨⟨ho, hopr⟩, hbare⟩, hcv⟩, ?_⟩, hep⟩
                  simp only [optFmt, format_endComment, optFmt_getD]
                  exact isSep_append_endTxt hpad
                · rw [fmt_compl ho, fmt_compl ho, wrapFmt_allBare hbare, wrapFmt_allBare hbare]
                  simp [HS.fmt, optFmt, format_endComment, optFmt_getD, hepn]
              · have hl : g.order.getLast? = some .endPad := by rw [hord]; rfl
                simp only [endNode, hl]
                have ho' : orderOK { g with ep := g.ep.map Pad.endComment } [.operator, .left] = true :=
                  orderOK_setEp ho (by cases g.ep <;> simp)
                refine ⟨?_, ?_, ⟨rfl, rfl, fun _ => rfl⟩⟩
                · simp only [gen, Bool.and_eq_true, beq_iff_eq]
                  refine ⟨⟨⟨⟨⟨ho', hopr⟩, hbare⟩, hcv⟩, hpad⟩, ?_⟩
                  rw [optFmt_map_endComment _ heps]; exact isSep_append_endTxt hep
                · rw [fmt_compl ho, fmt_compl ho']
                  simp [optFmt_map_endComment _ heps]
        | compl _ _ => simp [isCellUnit] at hcu
        | bin _ _ _ _ => simp [isCellUnit] at hcu
      · -- `#( … )`
        have hcu' : isCellUnit l = false := by simpa using hcu
        rw [gen_compl_general hcu'] at hg
        simp only [Bool.and_eq_true] at hg
        obtain ⟨⟨⟨⟨⟨hl, ho⟩, hopr⟩, hhp⟩, hck⟩, hep⟩ := hg
        rcases orderOK_cases ho with ⟨hord, hepn⟩ | ⟨hord, heps⟩
        · have hlast : g.order.getLast? = some .left := by rw [hord]; rfl
          -- the link is parenthesised: its first tree has an end_pad
          cases hc : g.lchain with
          | nil => simp [hc, headParens] at hhp
          | cons w ws =>
            have hkind : ∃ s e, wrapKind w = .parens s e := by
              simp only [hc, headParens] at hhp
              cases hk' : wrapKind w <;> simp [hk'] at hhp
              exact ⟨_, _, rfl⟩
            obtain ⟨s, e, hkw⟩ := hkind
            obtain ⟨si, ei, _, hwe, _, _⟩ := (kind_parens_iff w s e).1 hkw
            have hec : endChain g.lchain = some ({ w with ep := some (Pad.endComment (.str [.rp] :: ei)) } :: ws) := by
              rw [hc]; simp [endChain, hwe]
            obtain ⟨hext, hfm⟩ := endChain_some hec
            simp only [endNode, hlast, hec]
            have hpads := chainPads_of_chainOK hck
            obtain ⟨_, hhp', _⟩ := chainExt_pads hext hpads
            refine ⟨?_, ?_, ⟨rfl, rfl, fun _ => rfl⟩⟩
            · rw [gen_compl_general hcu']
              simp only [Bool.and_eq_true]
              exact ⟨⟨⟨⟨⟨hl, ho⟩, hopr⟩, by rw [hhp']; exact hhp⟩, chainOK_ext hext (Le.refl _) hck⟩, hep⟩
            · have ho2 : orderOK { g with lchain := { w with ep := some (Pad.endComment (.str [.rp] :: ei)) } :: ws }
                  [.operator, .left] = true := ho
              rw [fmt_compl ho, fmt_compl ho2]
              simp [hfm, hepn, optFmt]
        · have hlast : g.order.getLast? = some .endPad := by rw [hord]; rfl
          simp only [endNode, hlast]
          have ho' : orderOK { g with ep := g.ep.map Pad.endComment } [.operator, .left] = true :=
            orderOK_setEp ho (by cases g.ep <;> simp)
          refine ⟨?_, ?_, ⟨rfl, rfl, fun _ => rfl⟩⟩
          · rw [gen_compl_general hcu']
            simp only [Bool.and_eq_true]
            refine ⟨⟨⟨⟨⟨hl, ho'⟩, hopr⟩, hhp⟩, hck⟩, ?_⟩
            rw [optFmt_map_endComment _ heps]; exact isSep_append_endTxt hep
          · rw [fmt_compl ho, fmt_compl ho']
            simp [optFmt_map_endComment _ heps]
  | bin o l r n ihl ihr =>
    cases n with
    | none => simp [gen] at hg
    | some g =>
      simp only [gen, Bool.and_eq_true, Bool.not_eq_true'] at hg
      obtain ⟨⟨⟨⟨⟨⟨⟨⟨hl, hr⟩, ho⟩, hckl⟩, hckr⟩, hLc⟩, hopr⟩, hop⟩, hep⟩ := hg
      rcases orderOK_cases ho with ⟨hord, hepn⟩ | ⟨hord, heps⟩
      · have hlast : g.order.getLast? = some .right := by rw [hord]; rfl
        cases hec : endChain g.rchain with
        | some c =>
          obtain ⟨hext, hfm⟩ := endChain_some hec
          obtain ⟨_, hhp', _⟩ := chainExt_pads hext (chainPads_of_chainOK hckr)
          simp only [endNode, hlast, hec]
          have ho2 : orderOK { g with rchain := c } [.left, .operator, .right] = true := ho
          refine ⟨?_, ?_, ⟨by cases o <;> rfl, rfl, fun _ => by cases o <;> rfl⟩⟩
          · simp only [gen, Bool.and_eq_true, Bool.not_eq_true']
            refine ⟨⟨⟨⟨⟨⟨⟨⟨hl, hr⟩, ho2⟩, hckl⟩, chainOK_ext hext (Le.refl _) hckr⟩, hLc⟩, hopr⟩, ?_⟩, hep⟩
            cases o <;> simp_all
          · rw [fmt_bin ho, fmt_bin ho2]
            simp [hfm, hepn, optFmt]
        | none =>
          obtain ⟨happ, _⟩ := endChain_none hec
          obtain ⟨ig, ifm, isame⟩ := ihr hr
          simp only [endNode, hlast, hec]
          refine ⟨?_, ?_, ⟨by cases o <;> rfl, rfl, fun ρ => by cases o <;> simp [HS.eval, isame.ev ρ]⟩⟩
          · simp only [gen, Bool.and_eq_true, Bool.not_eq_true']
            refine ⟨⟨⟨⟨⟨⟨⟨⟨hl, ig⟩, ho⟩, hckl⟩, ?_⟩, hLc⟩, hopr⟩, ?_⟩, hep⟩
            · exact chainOK_ext (ChainExt.refl _) (by rw [ifm]; exact le_append_endTxt _) hckr
            · cases o <;> simp_all [isame.isU]
          · rw [fmt_bin ho, fmt_bin ho, ifm, happ]
            simp [hepn, optFmt]
      · have hlast : g.order.getLast? = some .endPad := by rw [hord]; rfl
        simp only [endNode, hlast]
        have ho' : orderOK { g with ep := g.ep.map Pad.endComment } [.left, .operator, .right] = true :=
          orderOK_setEp ho (by cases g.ep <;> simp)
        refine ⟨?_, ?_, ⟨by cases o <;> rfl, rfl, fun _ => by cases o <;> rfl⟩⟩
        · simp only [gen, Bool.and_eq_true, Bool.not_eq_true']
          refine ⟨⟨⟨⟨⟨⟨⟨⟨hl, hr⟩, ho'⟩, hckl⟩, hckr⟩, hLc⟩, hopr⟩, ?_⟩, ?_⟩
          · cases o <;> simp_all
          · rw [optFmt_map_endComment _ heps]; exact isSep_append_endTxt hep
        · rw [fmt_bin ho, fmt_bin ho']
          simp [optFmt_map_endComment _ heps]

/-- what a transformation of a link (chain `c` around node `h`) guarantees -/
structure LinkOK (b : Bool) (c' : List Wrap) (h' : HS) (c : List Wrap) (h : HS) : Prop where
  ext : ChainExt c' c
  g : gen b h' = true
  le : Le h'.fmt h.fmt
  same : Same h' h

theorem LinkOK.trans {b c2 h2 c1 h1 c0 h0} (x : LinkOK b c2 h2 c1 h1) (y : LinkOK b c1 h1 c0 h0) :
    LinkOK b c2 h2 c0 h0 :=
  ⟨x.ext.trans y.ext, x.g, x.le.trans y.le, x.same.trans y.same⟩

theorem LinkOK.refl {b c h} (hg : gen b h = true) : LinkOK b c h c h :=
  ⟨ChainExt.refl c, hg, Le.refl _, Same.refl h⟩

theorem endLink_spec (b : Bool) (c : List Wrap) (h : HS) (hg : gen b h = true) :
    LinkOK b (endLink c h).1 (endLink c h).2 c h ∧
      cmtAfter false (wrapFmt (endLink c h).1 (endLink c h).2.fmt) = false := by
  unfold endLink
  by_cases he : endsInComment (wrapFmt c h.fmt) = true
  · simp only [he, if_true]
    cases hec : endChain c with
    | some c' =>
      obtain ⟨hext, hfm⟩ := endChain_some hec
      exact ⟨⟨hext, hg, Le.refl _, Same.refl h⟩, by simp only []; rw [hfm]; exact cmtAfter_append_endTxt _ _⟩
    | none =>
      obtain ⟨happ, _⟩ := endChain_none hec
      obtain ⟨ig, ifm, isame⟩ := endNode_spec b h hg
      refine ⟨⟨ChainExt.refl c, ig, by rw [ifm]; exact le_append_endTxt _, isame⟩, ?_⟩
      simp only []; rw [ifm, happ]; exact cmtAfter_append_endTxt _ _
  · have he' : endsInComment (wrapFmt c h.fmt) = false := by simpa using he
    simp only [he', Bool.false_eq_true, if_false]
    exact ⟨LinkOK.refl hg, he'⟩

theorem closeParensAux_spec (b : Bool) (n : Nat) (c : List Wrap) (h : HS) (hg : gen b h = true)
    (hp : chainPads c = true) (hn : c.length ≤ n) :
    LinkOK b (closeParensAux n c h).1 (closeParensAux n c h).2 c h ∧
      chainOK (closeParensAux n c h).1 (closeParensAux n c h).2.fmt = true := by
  induction n generalizing c h with
  | zero =>
    have : c = [] := by cases c <;> simp_all
    subst this
    exact ⟨LinkOK.refl hg, rfl⟩
  | succ n ih =>
    cases c with
    | nil => exact ⟨by simpa [closeParensAux] using LinkOK.refl hg, by simp [closeParensAux, chainOK]⟩
    | cons w ws =>
      simp only [List.length_cons] at hn
      simp only [chainPads, Bool.and_eq_true] at hp
      obtain ⟨hk, hrest⟩ := hp
      simp only [closeParensAux]
      cases hkw : wrapKind w with
      | bad => simp [hkw] at hk
      | bare =>
        obtain ⟨_, hepn⟩ := (kind_bare_iff w).1 hkw
        simp only [hepn, Option.isSome_none, Bool.false_eq_true, if_false]
        obtain ⟨i1, i2⟩ := ih ws h hg hrest (by omega)
        refine ⟨⟨⟨rfl, ⟨[], by simpa [Pad.format] using Tail.nil, by simp [hepn]⟩, i1.ext⟩, i1.g, i1.le, i1.same⟩, ?_⟩
        simp only [chainOK, hkw]; exact i2
      | parens s e =>
        obtain ⟨si, ei, _, hwe, _, _⟩ := (kind_parens_iff w s e).1 hkw
        simp only [hwe, Option.isSome_some, if_true]
        obtain ⟨e1, eclosed⟩ := endLink_spec b ws h hg
        have hp0 := (chainExt_pads e1.ext hrest).1
        have hlen : (endLink ws h).1.length ≤ n := by rw [endLink_length]; omega
        obtain ⟨i1, i2⟩ := ih (endLink ws h).1 (endLink ws h).2 e1.g hp0 hlen
        have tot := i1.trans e1
        refine ⟨⟨⟨rfl, ⟨[], by simpa [Pad.format] using Tail.nil, by simp [hwe]⟩, tot.ext⟩, tot.g, tot.le, tot.same⟩, ?_⟩
        simp only [hkw] at hk
        simp only [Bool.and_eq_true, Bool.not_eq_true'] at hk
        simp only [chainOK, hkw, Bool.and_eq_true, Bool.not_eq_true']
        exact ⟨⟨⟨⟨hk.1.1, hk.1.2⟩, (wrapFmt_le i1.ext i1.le).closed eclosed⟩, hk.2⟩, i2⟩

theorem closeParens_spec (b : Bool) (c : List Wrap) (h : HS) (hg : gen b h = true) (hp : chainPads c = true) :
    LinkOK b (closeParens c h).1 (closeParens c h).2 c h ∧
      chainOK (closeParens c h).1 (closeParens c h).2.fmt = true :=
  closeParensAux_spec b c.length c h hg hp (Nat.le_refl _)

theorem newParen_kind (ctr : Nat) :
    wrapKind ⟨ctr, some [.str (textOfCodes Gen.newParenOpenCodes)], some [.str (textOfCodes Gen.newParenCloseCodes)]⟩
      = .parens [] [] := by
  have h1 : textOfCodes Gen.newParenOpenCodes = [.lp] := by decide
  have h2 : textOfCodes Gen.newParenCloseCodes = [.rp] := by decide
  simp [wrapKind, h1, h2, Pad.format]

/-- `_link_child` -/
theorem linkChild_spec (b : Bool) (ctr : Nat) (parent : Option BOp) (follow : Bool) (chain : List Wrap)
    (target : Nat) (child : HS) (hg : gen b child = true) (hp : chainPads chain = true) :
    let r := linkChild ctr parent follow chain target child
    gen b r.2.2.1 = true ∧ Le r.2.2.1.fmt child.fmt ∧ Same r.2.2.1 child ∧
      chainOK r.1 r.2.2.1.fmt = true ∧
      (follow = true → cmtAfter false (wrapFmt r.1 r.2.2.1.fmt) = false) ∧
      (needsParens parent child = true → headParens r.1 = true) ∧
      (allBare chain = true → needsParens parent child = false → allBare r.1 = true) := by
  intro r
  -- the stages of the function
  let link0 : List Wrap := if target = child.nodeId.getD 0 then chain else []
  have hp0 : chainPads link0 = true := by simp only [link0]; split <;> simp [hp, chainPads]
  let np : Bool := needsParens parent child && !hasParens link0
  let newW : Wrap := ⟨ctr, some [.str (textOfCodes Gen.newParenOpenCodes)], some [.str (textOfCodes Gen.newParenCloseCodes)]⟩
  let link1 : List Wrap := if np then newW :: link0 else link0
  have hkn : wrapKind newW = .parens [] [] := newParen_kind ctr
  have hp1 : chainPads link1 = true := by
    simp only [link1]; split
    · simp [chainPads, hkn, hp0, isSep, cmtAfter]
    · exact hp0
  have hhead : needsParens parent child = true → headParens link1 = true := by
    intro hn
    simp only [link1]
    cases hnp : np with
    | true => simp [headParens, hkn]
    | false =>
      simp only [np, hn, Bool.true_and, Bool.not_eq_false'] at hnp
      simp only [Bool.false_eq_true, if_false]
      rw [headParens_eq_hasParens]; simpa using hnp
  have hbare : allBare chain = true → needsParens parent child = false → allBare link1 = true := by
    intro hb hn
    have : np = false := by simp [np, hn]
    simp only [link1, this, Bool.false_eq_true, if_false, link0]
    split
    · exact hb
    · rfl
  obtain ⟨c1, c2⟩ := closeParens_spec b link1 child hg hp1
  have hr : r = ((if follow then endLink (closeParens link1 child).1 (closeParens link1 child).2
      else closeParens link1 child).1, child.nodeId.getD 0,
      (if follow then endLink (closeParens link1 child).1 (closeParens link1 child).2
      else closeParens link1 child).2, if np then ctr + 1 else ctr) := rfl
  rw [hr]
  simp only []
  cases follow with
  | false =>
    simp only [Bool.false_eq_true, if_false]
    obtain ⟨_, hh, hb⟩ := chainExt_pads c1.ext hp1
    refine ⟨c1.g, c1.le, c1.same, c2, by simp, fun hn => by rw [hh]; exact hhead hn, fun hb0 hn => by rw [hb]; exact hbare hb0 hn⟩
  | true =>
    simp only [if_true]
    obtain ⟨e1, eclosed⟩ := endLink_spec b (closeParens link1 child).1 (closeParens link1 child).2 c1.g
    have tot := e1.trans c1
    obtain ⟨_, hh, hb⟩ := chainExt_pads tot.ext hp1
    refine ⟨tot.g, tot.le, tot.same, chainOK_ext e1.ext e1.le c2, fun _ => eclosed,
      fun hn => by rw [hh]; exact hhead hn, fun hb0 hn => by rw [hb]; exact hbare hb0 hn⟩

/-! ## the digits of a new leaf -/

def shiftAux : Nat → Nat → Nat → Nat
  | 0, q, _ => q
  | f + 1, q, n => if n < 10 then 10 * q + n else 10 * shiftAux f q (n / 10) + n % 10

theorem digVal_digitsAux (f q n : Nat) (acc : List GCh) :
    digVal q (digitsAux f n acc) = digVal (shiftAux f q n) acc := by
  induction f generalizing n acc with
  | zero => rfl
  | succ f ih =>
    simp only [digitsAux, shiftAux]
    split
    · simp [digVal]
    · rw [ih]; simp [digVal]

theorem shiftAux_zero (f n : Nat) (h : n < f) : shiftAux f 0 n = n := by
  induction f generalizing n with
  | zero => omega
  | succ f ih =>
    simp only [shiftAux]
    split
    · omega
    · rw [ih (n / 10) (by omega)]; omega

theorem digitsAux_head (f n : Nat) (acc : List GCh) (h : 1 ≤ f ∨ ∃ x cs, acc = .digit x :: cs) :
    ∃ x cs, digitsAux f n acc = .digit x :: cs := by
  induction f generalizing n acc with
  | zero =>
    rcases h with h | h
    · omega
    · exact h
  | succ f ih =>
    simp only [digitsAux]
    split
    · exact ⟨_, _, rfl⟩
    · exact ih _ _ (Or.inr ⟨_, _, rfl⟩)

theorem natDigits_spec (d : Nat) : ∃ x cs, natDigits d = .digit x :: cs ∧ digVal x cs = some d := by
  obtain ⟨x, cs, h⟩ := digitsAux_head (d + 1) d [] (Or.inl (by omega))
  refine ⟨x, cs, h, ?_⟩
  have h1 := digVal_digitsAux (d + 1) 0 d []
  rw [shiftAux_zero _ _ (by omega), h] at h1
  simpa [digVal] using h1

theorem new_surface_tok (d : Nat) (s : Bool) :
    tokVal ((if s || false then [] else [GCh.minus]) ++ natDigits d) = some (!s, d) := by
  obtain ⟨x, cs, h, hv⟩ := natDigits_spec d
  cases s <;> simp [h, tokVal, hv]

theorem new_cell_tok (d : Nat) (s : Bool) :
    cellVal ((if s || true then [] else [GCh.minus]) ++ natDigits d) = some d := by
  obtain ⟨x, cs, h, hv⟩ := natDigits_spec d
  simp [h, cellVal, hv]

/-! ## the operator text of new nodes (generated constants) -/

theorem new_compl_opr : complOpr (Pad.format [.str (textOfCodes Gen.newOprComplCodes)]) = true := by decide
theorem new_inter_opr : (cleanPad [.str (textOfCodes Gen.newOprInterCodes)] &&
    oprPre [.str (textOfCodes Gen.newOprInterCodes)]) = true := by decide
theorem new_union_opr : (cleanPad [.str (textOfCodes Gen.newOprUnionCodes)] &&
    oprPre [.str (textOfCodes Gen.newOprUnionCodes)]) = true := by decide

theorem needsParens_inter (h : HS) : needsParens (some .inter) h = isUnion h := by
  cases h with
  | unit _ _ _ _ => rfl
  | compl _ _ => rfl
  | bin o _ _ _ => cases o <;> rfl

theorem needsParens_compl (h : HS) : needsParens none h = !isCellUnit h := by
  cases h with
  | unit _ _ c _ => cases c <;> rfl
  | compl _ _ => rfl
  | bin _ _ _ _ => rfl

/-- one binary node: both children are linked -/
theorem bin_step (o : BOp) (L R : HS) (g0 : GN) (c1 c2 : Nat) (hL : linked L = true) (hR : linked R = true)
    (ho : orderOK g0 [.left, .operator, .right] = true) (hpl : chainPads g0.lchain = true)
    (hpr : chainPads g0.rchain = true) (hopr : (cleanPad g0.opr && oprPre g0.opr) = true) (hep : isSep false (optFmt g0.ep) = true) :
    let lk1 := linkChild c1 (some o) true g0.lchain g0.ltarget L
    let lk2 := linkChild c2 (some o) false g0.rchain g0.rtarget R
    let res := HS.bin o lk1.2.2.1 lk2.2.2.1
      (some { g0 with lchain := lk1.1, ltarget := lk1.2.1, rchain := lk2.1, rtarget := lk2.2.1 })
    linked res = true ∧ (∀ x, Same res (.bin o L R x)) := by
  intro lk1 lk2 res
  obtain ⟨a1, _, a3, a4, a5, a6, _⟩ := linkChild_spec false c1 (some o) true g0.lchain g0.ltarget L hL hpl
  obtain ⟨b1, _, b3, b4, _, b6, _⟩ := linkChild_spec false c2 (some o) false g0.rchain g0.rtarget R hR hpr
  refine ⟨?_, fun x => ⟨by cases o <;> rfl, rfl, fun ρ => by
    cases o
    · show (_ && _) = (_ && _); rw [a3.ev ρ, b3.ev ρ]
    · show (_ || _) = (_ || _); rw [a3.ev ρ, b3.ev ρ]⟩⟩
  have ho' : orderOK { g0 with lchain := lk1.1, ltarget := lk1.2.1, rchain := lk2.1, rtarget := lk2.2.1 }
      [.left, .operator, .right] = true := ho
  simp only [res, linked, gen, Bool.and_eq_true, Bool.not_eq_true', cond_false]
  refine ⟨⟨⟨⟨⟨⟨⟨⟨a1, b1⟩, ho'⟩, a4⟩, b4⟩, a5 rfl⟩, by simpa using hopr⟩, ?_⟩, hep⟩
  cases o with
  | union => rfl
  | inter =>
    simp only [Bool.and_eq_true, Bool.not_eq_true', Bool.or_eq_true, Bool.not_false, Bool.true_or, true_and]
    refine ⟨?_, ?_⟩
    · cases hu : isUnion lk1.2.2.1 with
      | false => left; rfl
      | true => right; exact a6 (by rw [needsParens_inter, ← a3.isU]; exact hu)
    · cases hu : isUnion lk2.2.2.1 with
      | false => left; rfl
      | true => right; exact b6 (by rw [needsParens_inter, ← b3.isU]; exact hu)

/-- one complement node over something that is not a cell leaf -/
theorem compl_step (L : HS) (g0 : GN) (c1 : Nat) (hL : linked L = true) (hcu : isCellUnit L = false)
    (ho : orderOK g0 [.operator, .left] = true) (hpl : chainPads g0.lchain = true)
    (hopr : complOpr g0.opr.format = true) (hep : isSep false (optFmt g0.ep) = true) :
    let lk := linkChild c1 none false g0.lchain g0.ltarget L
    let res := HS.compl lk.2.2.1 (some { g0 with lchain := lk.1, ltarget := lk.2.1 })
    linked res = true ∧ (∀ x, Same res (.compl L x)) := by
  intro lk res
  obtain ⟨a1, _, a3, a4, _, a6, _⟩ := linkChild_spec false c1 none false g0.lchain g0.ltarget L hL hpl
  refine ⟨?_, fun x => ⟨rfl, rfl, fun ρ => congrArg (!·) (a3.ev ρ)⟩⟩
  have hcu' : isCellUnit lk.2.2.1 = false := by rw [a3.cellU]; exact hcu
  have ho' : orderOK { g0 with lchain := lk.1, ltarget := lk.2.1 } [.operator, .left] = true := ho
  simp only [res, linked]
  rw [gen_compl_general hcu']
  simp only [Bool.and_eq_true]
  exact ⟨⟨⟨⟨⟨a1, ho'⟩, hopr⟩, a6 (by rw [needsParens_compl, hcu]; rfl)⟩, a4⟩, hep⟩

theorem Same.compl_congr {l' l : HS} (h : Same l' l) (x y : Option GN) : Same (.compl l' x) (.compl l y) :=
  ⟨rfl, rfl, fun ρ => congrArg (!·) (h.ev ρ)⟩

theorem Same.bin_congr {l' l r' r : HS} (o : BOp) (hl : Same l' l) (hr : Same r' r) (x y : Option GN) :
    Same (.bin o l' r' x) (.bin o l r y) :=
  ⟨by cases o <;> rfl, rfl, fun ρ => by
    cases o
    · show (_ && _) = (_ && _); rw [hl.ev ρ, hr.ev ρ]
    · show (_ || _) = (_ || _); rw [hl.ev ρ, hr.ev ρ]⟩

theorem closeParensAux_allBare (n : Nat) {ws : List Wrap} (h : HS) (hb : allBare ws = true) :
    closeParensAux n ws h = (ws, h) := by
  induction n generalizing ws with
  | zero => rfl
  | succ n ih =>
    cases ws with
    | nil => rfl
    | cons w ws =>
      simp only [allBare, Bool.and_eq_true, beq_iff_eq] at hb
      obtain ⟨_, h2⟩ := (kind_bare_iff w).1 hb.1
      simp [closeParensAux, h2, ih hb.2]

theorem hasParens_allBare {ws : List Wrap} (hb : allBare ws = true) : hasParens ws = false := by
  rw [← headParens_eq_hasParens]
  cases ws with
  | nil => rfl
  | cons w ws =>
    simp only [allBare, Bool.and_eq_true, beq_iff_eq] at hb
    simp [headParens, hb.1]

/-- `_link_child` under a complement whose operand is a cell leaf: nothing is touched -/
theorem linkChild_cell (ctr : Nat) (chain : List Wrap) (target : Nat) (d : Nat) (s : Bool) (v : VN)
    (hb : allBare chain = true) :
    ∃ link cid c', linkChild ctr none false chain target (.unit d s true (some v)) =
      (link, cid, .unit d s true (some v), c') ∧ allBare link = true := by
  have hb0 : allBare (if target = (HS.unit d s true (some v)).nodeId.getD 0 then chain else []) = true := by
    split <;> simp [hb, allBare]
  refine ⟨if target = (HS.unit d s true (some v)).nodeId.getD 0 then chain else [],
    (HS.unit d s true (some v)).nodeId.getD 0, ctr, ?_, hb0⟩
  have hn : needsParens none (.unit d s true (some v)) = false := rfl
  unfold linkChild
  simp only [hn, Bool.false_and, Bool.false_eq_true, if_false, closeParens, closeParensAux_allBare _ _ hb0]

theorem wf_compl_general {l : HS} {gn : Option GN} (hl : isCellUnit l = false) :
    wf (.compl l gn) = (wf l &&
      (match gn with
        | none => true
        | some g => orderOK g [.operator, .left] && complOpr g.opr.format && chainPads g.lchain &&
            isSep false (optFmt g.ep))) := by
  cases l with
  | unit d s c n =>
    cases c
    · rfl
    · simp [isCellUnit] at hl
  | compl _ _ => rfl
  | bin _ _ _ _ => rfl

theorem chainPads_allBare {ws : List Wrap} (hb : allBare ws = true) : chainPads ws = true := by
  induction ws with
  | nil => rfl
  | cons w ws ih =>
    simp only [allBare, Bool.and_eq_true, beq_iff_eq] at hb
    simp [chainPads, hb.1, ih hb.2]

/-- **`_ensure_has_nodes` establishes `linked`** from any well-formed tree, and changes no meaning. -/
theorem ensure_linked (c : Nat) (h : HS) (hw : wf h = true) :
    linked (ensureHasNodes c h).1 = true ∧ Same (ensureHasNodes c h).1 h := by
  induction h generalizing c with
  | unit d s ic n =>
    cases ic
    · cases n with
      | none =>
        refine ⟨?_, ⟨rfl, rfl, fun _ => rfl⟩⟩
        simp only [ensureHasNodes, linked, gen, Bool.and_eq_true, beq_iff_eq]
        exact ⟨new_surface_tok d s, rfl⟩
      | some v => exact ⟨by simpa [ensureHasNodes, linked, gen, wf] using hw, Same.refl _⟩
    · simp [wf] at hw
  | compl l n ih =>
    by_cases hcu : isCellUnit l = true
    · cases l with
      | unit d s ic vn =>
        cases ic
        · simp [isCellUnit] at hcu
        · -- `#n`: the leaf gets its node, the link stays bare
          simp only [wf, Bool.and_eq_true] at hw
          obtain ⟨hv, hgn⟩ := hw
          -- the leaf after `_ensure_has_nodes`
          have hleaf : ∃ v1 c1, ensureHasNodes c (.unit d s true vn) = (.unit d s true (some v1), c1) ∧
              cellVal v1.tok = some d ∧ isSep false (optFmt v1.pad) = true := by
            cases vn with
            | none => exact ⟨_, _, rfl, new_cell_tok d s, rfl⟩
            | some v =>
              simp only [Bool.and_eq_true, beq_iff_eq] at hv
              exact ⟨v, c, rfl, hv.1, hv.2⟩
          obtain ⟨v1, c1, he1, hcv, hpad⟩ := hleaf
          have fin : ∀ (g0 : GN) (link : List Wrap) (cid : Nat), orderOK g0 [.operator, .left] = true →
              complOpr g0.opr.format = true → allBare link = true → isSep false (optFmt g0.ep) = true →
              linked (.compl (.unit d s true (some v1)) (some { g0 with lchain := link, ltarget := cid })) = true := by
            intro g0 link cid ho hopr hlb hep
            have ho' : orderOK { g0 with lchain := link, ltarget := cid } [.operator, .left] = true := ho
            simp only [linked, gen, Bool.and_eq_true, beq_iff_eq]
            exact ⟨⟨⟨⟨⟨ho', hopr⟩, hlb⟩, hcv⟩, hpad⟩, hep⟩
          cases n with
          | none =>
            obtain ⟨link, cid, c3, hlk, hlb⟩ := linkChild_cell (c1 + 1) [] ((HS.unit d s true (some v1)).nodeId.getD 0) d s v1 rfl
            have hres : (ensureHasNodes c (.compl (.unit d s true vn) none)).1 =
                .compl (.unit d s true (some v1)) (some { (⟨c1, [.operator, .left], [.str (textOfCodes Gen.newOprComplCodes)],
                  none, [], (HS.unit d s true (some v1)).nodeId.getD 0, [], 0⟩ : GN) with lchain := link, ltarget := cid }) := by
              simp only [ensureHasNodes, he1, hlk]
            rw [hres]
            exact ⟨fin _ link cid rfl new_compl_opr hlb rfl, ⟨rfl, rfl, fun _ => rfl⟩⟩
          | some g =>
            simp only [Bool.and_eq_true] at hgn
            obtain ⟨link, cid, c3, hlk, hlb⟩ := linkChild_cell c1 g.lchain g.ltarget d s v1 hgn.1.2
            have hres : (ensureHasNodes c (.compl (.unit d s true vn) (some g))).1 =
                .compl (.unit d s true (some v1)) (some { g with lchain := link, ltarget := cid }) := by
              simp only [ensureHasNodes, he1, hlk]
            rw [hres]
            exact ⟨fin g link cid hgn.1.1.1 hgn.1.1.2 hlb hgn.2, ⟨rfl, rfl, fun _ => rfl⟩⟩
      | compl _ _ => simp [isCellUnit] at hcu
      | bin _ _ _ _ => simp [isCellUnit] at hcu
    · have hcu' : isCellUnit l = false := by simpa using hcu
      rw [wf_compl_general hcu'] at hw
      simp only [Bool.and_eq_true] at hw
      obtain ⟨hwl, hgn⟩ := hw
      obtain ⟨i1, i2⟩ := ih c hwl
      have hcu1 : isCellUnit (ensureHasNodes c l).1 = false := by rw [i2.cellU]; exact hcu'
      cases n with
      | none =>
        obtain ⟨s1, s2⟩ := compl_step (ensureHasNodes c l).1
          (⟨(ensureHasNodes c l).2, [.operator, .left], [.str (textOfCodes Gen.newOprComplCodes)], none, [],
            (ensureHasNodes c l).1.nodeId.getD 0, [], 0⟩ : GN) ((ensureHasNodes c l).2 + 1) i1 hcu1 rfl rfl
          new_compl_opr rfl
        exact ⟨s1, (s2 none).trans (i2.compl_congr none none)⟩
      | some g =>
        simp only [Bool.and_eq_true] at hgn
        obtain ⟨s1, s2⟩ := compl_step (ensureHasNodes c l).1 g (ensureHasNodes c l).2 i1 hcu1
          hgn.1.1.1 hgn.1.2 hgn.1.1.2 hgn.2
        exact ⟨s1, (s2 none).trans (i2.compl_congr none (some g))⟩
  | bin o l r n ihl ihr =>
    simp only [wf, Bool.and_eq_true] at hw
    obtain ⟨⟨hwl, hwr⟩, hgn⟩ := hw
    obtain ⟨l1, l2⟩ := ihl c hwl
    obtain ⟨r1, r2⟩ := ihr (ensureHasNodes c l).2 hwr
    cases n with
    | none =>
      cases o with
      | inter =>
        obtain ⟨s1, s2⟩ := bin_step .inter (ensureHasNodes c l).1 (ensureHasNodes (ensureHasNodes c l).2 r).1
          (⟨(ensureHasNodes (ensureHasNodes c l).2 r).2, [.left, .operator, .right],
            [.str (textOfCodes Gen.newOprInterCodes)], none, [],
            (ensureHasNodes c l).1.nodeId.getD 0, [],
            (ensureHasNodes (ensureHasNodes c l).2 r).1.nodeId.getD 0⟩ : GN)
          ((ensureHasNodes (ensureHasNodes c l).2 r).2 + 1)
          (linkChild ((ensureHasNodes (ensureHasNodes c l).2 r).2 + 1) (some .inter) true []
            ((ensureHasNodes c l).1.nodeId.getD 0) (ensureHasNodes c l).1).2.2.2
          l1 r1 rfl rfl rfl new_inter_opr rfl
        exact ⟨s1, (s2 none).trans (Same.bin_congr .inter l2 r2 none none)⟩
      | union =>
        obtain ⟨s1, s2⟩ := bin_step .union (ensureHasNodes c l).1 (ensureHasNodes (ensureHasNodes c l).2 r).1
          (⟨(ensureHasNodes (ensureHasNodes c l).2 r).2, [.left, .operator, .right],
            [.str (textOfCodes Gen.newOprUnionCodes)], none, [],
            (ensureHasNodes c l).1.nodeId.getD 0, [],
            (ensureHasNodes (ensureHasNodes c l).2 r).1.nodeId.getD 0⟩ : GN)
          ((ensureHasNodes (ensureHasNodes c l).2 r).2 + 1)
          (linkChild ((ensureHasNodes (ensureHasNodes c l).2 r).2 + 1) (some .union) true []
            ((ensureHasNodes c l).1.nodeId.getD 0) (ensureHasNodes c l).1).2.2.2
          l1 r1 rfl rfl rfl new_union_opr rfl
        exact ⟨s1, (s2 none).trans (Same.bin_congr .union l2 r2 none none)⟩
    | some g =>
      simp only [Bool.and_eq_true] at hgn
      obtain ⟨s1, s2⟩ := bin_step o (ensureHasNodes c l).1 (ensureHasNodes (ensureHasNodes c l).2 r).1 g
        (ensureHasNodes (ensureHasNodes c l).2 r).2
        (linkChild (ensureHasNodes (ensureHasNodes c l).2 r).2 (some o) true g.lchain g.ltarget
          (ensureHasNodes c l).1).2.2.2
        l1 r1 hgn.1.1.1.1 hgn.1.1.1.2 hgn.1.1.2 (by simpa using hgn.1.2) hgn.2
      exact ⟨s1, (s2 none).trans (Same.bin_congr o l2 r2 none (some g))⟩

end MontePyVerif.C02
