import MontePyVerif.Lemmas.GeometrySwitch
/-! `_update_values` level by level (`updateValues`) is `_ensure_has_nodes` once plus `_update_node` everywhere
    (`updateOnce`) on every well-formed tree: running `_ensure_has_nodes` again on a subtree that was just linked
    changes nothing (`ensure_idem`). -/
namespace MontePyVerif.C02
open MontePyVerif.Spec.Geometry MontePyVerif.Geometry

/-- every link ends in the node of the HalfSpace that is the child now (`_encloses` will say yes) -/
def fresh : HS → Bool
  | .unit .. => true
  | .compl l (some g) => fresh l && g.ltarget == l.nodeId.getD 0
  | .compl l none => fresh l
  | .bin _ l r (some g) => fresh l && fresh r && g.ltarget == l.nodeId.getD 0 && g.rtarget == r.nodeId.getD 0
  | .bin _ l r none => fresh l && fresh r

/-- what the comment-ending steps keep: the levels of the tree, the identity of its node, the freshness of its links -/
structure Keep (h' h : HS) : Prop where
  ht : h'.height = h.height
  nid : h'.nodeId = h.nodeId
  fr : fresh h = true → fresh h' = true

theorem Keep.refl (h : HS) : Keep h h := ⟨rfl, rfl, id⟩
theorem Keep.trans {a b c : HS} (x : Keep a b) (y : Keep b c) : Keep a c :=
  ⟨x.ht.trans y.ht, x.nid.trans y.nid, fun h => x.fr (y.fr h)⟩

theorem endNode_keep (h : HS) : Keep (endNode h) h := by
  induction h with
  | unit d s c n => cases n <;> exact ⟨rfl, rfl, id⟩
  | compl l n ih =>
    cases n with
    | none => exact Keep.refl _
    | some g =>
      simp only [endNode]
      split
      · exact ⟨rfl, rfl, fun h => by simpa [fresh] using h⟩
      · exact ⟨rfl, rfl, fun h => by simpa [fresh] using h⟩
      · split
        · exact ⟨rfl, rfl, fun h => by simpa [fresh] using h⟩
        · refine ⟨by simp [HS.height, ih.ht], rfl, fun h => ?_⟩
          simp only [fresh, Bool.and_eq_true] at h ⊢
          exact ⟨ih.fr h.1, by rw [ih.nid]; exact h.2⟩
      · exact Keep.refl _
  | bin o l r n ihl ihr =>
    cases n with
    | none => exact Keep.refl _
    | some g =>
      simp only [endNode]
      split
      · exact ⟨rfl, rfl, fun h => by simpa [fresh] using h⟩
      · exact ⟨rfl, rfl, fun h => by simpa [fresh] using h⟩
      · split
        · exact ⟨rfl, rfl, fun h => by simpa [fresh] using h⟩
        · refine ⟨by simp [HS.height, ihl.ht], rfl, fun h => ?_⟩
          simp only [fresh, Bool.and_eq_true] at h ⊢
          exact ⟨⟨⟨ihl.fr h.1.1.1, h.1.1.2⟩, by rw [ihl.nid]; exact h.1.2⟩, h.2⟩
      · split
        · exact ⟨rfl, rfl, fun h => by simpa [fresh] using h⟩
        · refine ⟨by simp [HS.height, ihr.ht], rfl, fun h => ?_⟩
          simp only [fresh, Bool.and_eq_true] at h ⊢
          exact ⟨⟨⟨h.1.1.1, ihr.fr h.1.1.2⟩, h.1.2⟩, by rw [ihr.nid]; exact h.2⟩
      · exact Keep.refl _

theorem endLink_keep (c : List Wrap) (h : HS) : Keep (endLink c h).2 h := by
  unfold endLink
  split
  · split
    · exact Keep.refl _
    · exact endNode_keep h
  · exact Keep.refl _

theorem closeParensAux_keep (n : Nat) (c : List Wrap) (h : HS) : Keep (closeParensAux n c h).2 h := by
  induction n generalizing c h with
  | zero => exact Keep.refl _
  | succ n ih =>
    cases c with
    | nil => exact Keep.refl _
    | cons w ws =>
      simp only [closeParensAux]
      split
      · exact (ih _ _).trans (endLink_keep ws h)
      · exact ih _ _

theorem linkChild_keep (ctr : Nat) (parent : Option BOp) (follow : Bool) (chain : List Wrap) (target : Nat)
    (child : HS) :
    Keep (linkChild ctr parent follow chain target child).2.2.1 child ∧
      (linkChild ctr parent follow chain target child).2.1 = child.nodeId.getD 0 := by
  refine ⟨?_, rfl⟩
  unfold linkChild
  simp only [closeParens]
  cases follow with
  | false => simpa using closeParensAux_keep _ _ child
  | true => simpa using (endLink_keep _ _).trans (closeParensAux_keep _ _ child)

/-- `_ensure_has_nodes` keeps the levels of the tree and leaves every link fresh -/
theorem ensure_keep (c : Nat) (h : HS) : (ensureHasNodes c h).1.height = h.height ∧ fresh (ensureHasNodes c h).1 = true := by
  induction h generalizing c with
  | unit d s ic n => cases n <;> exact ⟨rfl, rfl⟩
  | compl l n ih =>
    obtain ⟨i1, i2⟩ := ih c
    cases n with
    | none =>
      simp only [ensureHasNodes]
      obtain ⟨k, kt⟩ := linkChild_keep ((ensureHasNodes c l).2 + 1) none false [] ((ensureHasNodes c l).1.nodeId.getD 0)
        (ensureHasNodes c l).1
      refine ⟨by simp [HS.height, k.ht, i1], ?_⟩
      simp only [fresh, Bool.and_eq_true, beq_iff_eq]
      exact ⟨k.fr i2, by rw [kt, k.nid]⟩
    | some g =>
      simp only [ensureHasNodes]
      obtain ⟨k, kt⟩ := linkChild_keep (ensureHasNodes c l).2 none false g.lchain g.ltarget (ensureHasNodes c l).1
      refine ⟨by simp [HS.height, k.ht, i1], ?_⟩
      simp only [fresh, Bool.and_eq_true, beq_iff_eq]
      exact ⟨k.fr i2, by rw [kt, k.nid]⟩
  | bin o l r n ihl ihr =>
    obtain ⟨l1, l2⟩ := ihl c
    obtain ⟨r1, r2⟩ := ihr (ensureHasNodes c l).2
    cases n with
    | none =>
      simp only [ensureHasNodes]
      refine ⟨?_, ?_⟩
      · simp only [HS.height, (linkChild_keep _ _ _ _ _ _).1.ht, l1, r1]
      · simp only [fresh, Bool.and_eq_true, beq_iff_eq]
        refine ⟨⟨⟨(linkChild_keep _ _ _ _ _ _).1.fr l2, (linkChild_keep _ _ _ _ _ _).1.fr r2⟩, ?_⟩, ?_⟩
        · rw [(linkChild_keep _ _ _ _ _ _).2, (linkChild_keep _ _ _ _ _ _).1.nid]
        · rw [(linkChild_keep _ _ _ _ _ _).2, (linkChild_keep _ _ _ _ _ _).1.nid]
    | some g =>
      simp only [ensureHasNodes]
      refine ⟨?_, ?_⟩
      · simp only [HS.height, (linkChild_keep _ _ _ _ _ _).1.ht, l1, r1]
      · simp only [fresh, Bool.and_eq_true, beq_iff_eq]
        refine ⟨⟨⟨(linkChild_keep _ _ _ _ _ _).1.fr l2, (linkChild_keep _ _ _ _ _ _).1.fr r2⟩, ?_⟩, ?_⟩
        · rw [(linkChild_keep _ _ _ _ _ _).2, (linkChild_keep _ _ _ _ _ _).1.nid]
        · rw [(linkChild_keep _ _ _ _ _ _).2, (linkChild_keep _ _ _ _ _ _).1.nid]

/-! ## running `_ensure_has_nodes` again changes nothing -/

theorem endLink_idem {c : List Wrap} {h : HS} (hc : cmtAfter false (wrapFmt c h.fmt) = false) :
    endLink c h = (c, h) := by
  simp [endLink, endsInComment, hc]

theorem closeParensAux_idem (n : Nat) {c : List Wrap} {h : HS} (hc : chainOK c h.fmt = true) :
    closeParensAux n c h = (c, h) := by
  induction n generalizing c with
  | zero => rfl
  | succ n ih =>
    cases c with
    | nil => rfl
    | cons w ws =>
      cases hkw : wrapKind w with
      | bad => simp [chainOK, hkw] at hc
      | bare =>
        obtain ⟨_, hepn⟩ := (kind_bare_iff w).1 hkw
        simp only [chainOK, hkw] at hc
        simp [closeParensAux, hepn, ih hc]
      | parens s e =>
        obtain ⟨si, ei, _, hwe, _, _⟩ := (kind_parens_iff w s e).1 hkw
        simp only [chainOK, hkw, Bool.and_eq_true, Bool.not_eq_true'] at hc
        obtain ⟨⟨⟨⟨_, _⟩, h3⟩, _⟩, h5⟩ := hc
        simp [closeParensAux, hwe, endLink_idem h3, ih h5]

theorem chainOK_allBare {ws : List Wrap} (hb : allBare ws = true) (t : List GCh) : chainOK ws t = true := by
  induction ws with
  | nil => rfl
  | cons w ws ih =>
    simp only [allBare, Bool.and_eq_true, beq_iff_eq] at hb
    simp [chainOK, hb.1, ih hb.2]

/-- `_link_child` on a link that is fresh, parenthesised where needed and closed where something follows -/
theorem linkChild_idem (ctr : Nat) (parent : Option BOp) (follow : Bool) (chain : List Wrap) (target : Nat) (child : HS)
    (ht : target = child.nodeId.getD 0) (hc : chainOK chain child.fmt = true)
    (hp : needsParens parent child = true → headParens chain = true)
    (hf : follow = true → cmtAfter false (wrapFmt chain child.fmt) = false) :
    linkChild ctr parent follow chain target child = (chain, target, child, ctr) := by
  have hnp : (needsParens parent child && !hasParens chain) = false := by
    cases hn : needsParens parent child with
    | false => rfl
    | true => rw [← headParens_eq_hasParens, hp hn]; rfl
  unfold linkChild
  simp only [← ht, if_true, hnp, Bool.false_eq_true, if_false, closeParens, closeParensAux_idem _ hc]
  cases follow with
  | false => simp
  | true => simp [endLink_idem (hf rfl)]

/-- **idempotence**: on a tree that `_ensure_has_nodes` has linked (and whose links still end in the children's
    nodes) `_ensure_has_nodes` changes nothing — no new node, no new parenthesis, no padding touched -/
theorem ensure_idem (b : Bool) (c : Nat) (h : HS) (hl : gen b h = true) (hf : fresh h = true) :
    ensureHasNodes c h = (h, c) := by
  induction h generalizing c with
  | unit d s ic n =>
    cases ic <;> cases n <;> simp [gen] at hl
    rfl
  | compl l n ih =>
    cases n with
    | none => simp [gen] at hl
    | some g =>
      simp only [fresh, Bool.and_eq_true, beq_iff_eq] at hf
      by_cases hcu : isCellUnit l = true
      · cases l with
        | unit d s ic vn =>
          cases ic
          · simp [isCellUnit] at hcu
          · cases vn with
            | none => simp [gen] at hl
            | some v =>
              simp only [gen, Bool.and_eq_true] at hl
              have hbare := hl.1.1.1.2
              have := linkChild_idem c none false g.lchain g.ltarget (.unit d s true (some v)) hf.2
                (chainOK_allBare hbare _) (by simp [needsParens]) (by simp)
              simp only [ensureHasNodes, this]
        | compl _ _ => simp [isCellUnit] at hcu
        | bin _ _ _ _ => simp [isCellUnit] at hcu
      · have hcu' : isCellUnit l = false := by simpa using hcu
        rw [gen_compl_general hcu'] at hl
        simp only [Bool.and_eq_true] at hl
        obtain ⟨⟨⟨⟨⟨hll, _⟩, _⟩, hhp⟩, hck⟩, _⟩ := hl
        have hi := ih c hll hf.1
        have := linkChild_idem c none false g.lchain g.ltarget l hf.2 hck (fun _ => hhp) (by simp)
        simp only [ensureHasNodes, hi, this]
  | bin o l r n ihl ihr =>
    cases n with
    | none => simp [gen] at hl
    | some g =>
      simp only [fresh, Bool.and_eq_true, beq_iff_eq] at hf
      simp only [gen, Bool.and_eq_true, Bool.not_eq_true'] at hl
      obtain ⟨⟨⟨⟨⟨⟨⟨⟨hll, hlr⟩, _⟩, hckl⟩, hckr⟩, hLc⟩, _⟩, hop⟩, _⟩ := hl
      have hil := ihl c hll hf.1.1.1
      have hir := ihr c hlr hf.1.1.2
      have hpl : needsParens (some o) l = true → headParens g.lchain = true := by
        intro hn
        cases o with
        | union => cases l <;> simp [needsParens] at hn
        | inter =>
          rw [needsParens_inter] at hn
          simp only [Bool.and_eq_true, Bool.or_eq_true, Bool.not_eq_true'] at hop
          rcases hop.1.2 with h | h
          · rw [hn] at h; cases h
          · exact h
      have hpr : needsParens (some o) r = true → headParens g.rchain = true := by
        intro hn
        cases o with
        | union => cases r <;> simp [needsParens] at hn
        | inter =>
          rw [needsParens_inter] at hn
          simp only [Bool.and_eq_true, Bool.or_eq_true, Bool.not_eq_true'] at hop
          rcases hop.2 with h | h
          · rw [hn] at h; cases h
          · exact h
      have h1 := linkChild_idem c (some o) true g.lchain g.ltarget l hf.1.2 hckl hpl (fun _ => hLc)
      have h2 := linkChild_idem c (some o) false g.rchain g.rtarget r hf.2 hckr hpr (by simp)
      simp only [ensureHasNodes, hil, hir, h1, h2]

/-! ## level by level = once -/

/-- what `_update_values` does below the `_ensure_has_nodes` of the current level -/
def levelsBody (f : Nat) (c : Nat) (e1 : HS) : HS × Nat :=
  match updateNodeHere e1 with
  | .unit d s ic n => (.unit d s ic n, c)
  | .compl l n =>
      let a := updateLevels f c l
      (.compl a.1 n, a.2)
  | .bin o l r n =>
      let a := updateLevels f c l
      let b := updateLevels f a.2 r
      (.bin o a.1 b.1 n, b.2)

theorem updateLevels_succ (f c : Nat) (h : HS) :
    updateLevels (f + 1) c h = levelsBody f (ensureHasNodes c h).2 (ensureHasNodes c h).1 := rfl

theorem updateLevels_unit (f c : Nat) (d : Nat) (s ic : Bool) (v : VN) :
    updateLevels f c (.unit d s ic (some v)) = (.unit d s ic (some v), c) := by
  cases f <;> rfl

/-- below a level whose subtree is linked and fresh, the remaining levels only run `_update_node` -/
theorem levels_eq (f : Nat) : ∀ (c : Nat) (h : HS), linked h = true → fresh h = true → h.height < f →
    updateLevels f c h = (updateAll h, c) := by
  induction f with
  | zero => intro c h _ _ hh; omega
  | succ f ih =>
    intro c h hl hf hh
    rw [updateLevels_succ, ensure_idem false c h hl hf]
    cases h with
    | unit d s ic n => rfl
    | compl l n =>
      cases n with
      | none => simp [linked, gen] at hl
      | some g =>
        simp only [fresh, Bool.and_eq_true] at hf
        simp only [HS.height] at hh
        by_cases hcu : isCellUnit l = true
        · cases l with
          | unit d s ic vn =>
            cases vn with
            | none => cases ic <;> simp [linked, gen] at hl
            | some v => simp [levelsBody, updateNodeHere, updateLevels_unit, updateAll]
          | compl _ _ => simp [isCellUnit] at hcu
          | bin _ _ _ _ => simp [isCellUnit] at hcu
        · have hcu' : isCellUnit l = false := by simpa using hcu
          simp only [linked] at hl
          rw [gen_compl_general hcu'] at hl
          simp only [Bool.and_eq_true] at hl
          have := ih c l hl.1.1.1.1.1 hf.1 (by omega)
          simp [levelsBody, updateNodeHere, this, updateAll]
    | bin o l r n =>
      cases n with
      | none => simp [linked, gen] at hl
      | some g =>
        simp only [fresh, Bool.and_eq_true] at hf
        simp only [HS.height] at hh
        simp only [linked, gen, Bool.and_eq_true] at hl
        have h1 := ih c l hl.1.1.1.1.1.1.1.1 hf.1.1.1 (by omega)
        have h2 := ih c r hl.1.1.1.1.1.1.1.2 hf.1.1.2 (by omega)
        simp [levelsBody, updateNodeHere, h1, h2, updateAll]

/-- the same below the first level, whose `_ensure_has_nodes` does the work -/
theorem body_eq (f c : Nat) (e1 : HS) (hl : linked e1 = true) (hf : fresh e1 = true) (hh : e1.height ≤ f) :
    levelsBody f c e1 = (updateAll e1, c) := by
  have := levels_eq (f + 1) c e1 hl hf (by omega)
  rw [updateLevels_succ, ensure_idem false c e1 hl hf] at this
  exact this

/-- **`_update_values` level by level is `_ensure_has_nodes` once and `_update_node` everywhere**, on every
    well-formed tree; `_link_child` running again on every level changes nothing. -/
theorem updateValues_eq_once (c : Nat) (h : HS) (hw : wf h = true) : updateValues c h = updateOnce c h := by
  obtain ⟨hl, _⟩ := ensure_linked c h hw
  obtain ⟨hh, hf⟩ := ensure_keep c h
  show updateLevels (h.height + 1) c h = _
  rw [updateLevels_succ, body_eq _ _ _ hl hf (by omega)]
  rfl

/-- sufficiency of the fuel: any number of levels above the height of the tree gives the same result -/
theorem updateLevels_fuel (f c : Nat) (h : HS) (hw : wf h = true) (hf : h.height < f) :
    updateLevels f c h = updateValues c h := by
  obtain ⟨hl, _⟩ := ensure_linked c h hw
  obtain ⟨hh, hfr⟩ := ensure_keep c h
  cases f with
  | zero => omega
  | succ f =>
    rw [updateValues_eq_once c h hw, updateLevels_succ, body_eq _ _ _ hl hfr (by omega)]
    rfl

end MontePyVerif.C02
