import MontePyVerif.Spec.Geometry
import MontePyVerif.Model.Geometry
/-! Character-level lemmas about the Spec's lexer `lexAux`.
    `Steps p0 c0 T ts p c`: reading the text `T` from lexer state `(p0, c0)` (pending lexeme, inside comment)
    emits the tokens `ts` and leaves the lexer in state `(p, c)`, whatever follows.  The relation composes by
    transitivity, so a printer's output can be followed piece by piece. -/
namespace MontePyVerif.Spec.Geometry
open MontePyVerif.Geometry (cmtAfter)

/-- a pending lexeme that may end here -/
def Complete : Pend → Prop
  | .none => True
  | .digits _ _ => True
  | .hdigits _ => True
  | _ => False

/-- the token a complete pending lexeme stands for -/
def ftoks : Pend → List Tok
  | .digits neg v => [.num v neg]
  | .hdigits v => [.cell v]
  | _ => []

theorem flush_complete {p : Pend} (h : Complete p) : flush p = some (ftoks p) := by
  cases p <;> simp_all [Complete, flush, ftoks]

theorem emit_complete {p : Pend} (h : Complete p) (t : List Tok) (r : Option (List Tok)) :
    emit p t r = r.map (fun b => ftoks p ++ t ++ b) := by
  unfold emit; rw [flush_complete h]; cases r <;> rfl

def Steps (p0 : Pend) (c0 : Bool) (T : List GCh) (ts : List Tok) (p : Pend) (c : Bool) : Prop :=
  ∀ rest, lexAux p0 c0 (T ++ rest) = (lexAux p c rest).map (fun b => ts ++ b)

theorem Steps.nil (p : Pend) (c : Bool) : Steps p c [] [] p c := by
  intro rest; cases h : lexAux p c rest <;> simp [h]

theorem Steps.trans {p0 c0 T1 ts1 p1 c1 T2 ts2 p2 c2}
    (h1 : Steps p0 c0 T1 ts1 p1 c1) (h2 : Steps p1 c1 T2 ts2 p2 c2) :
    Steps p0 c0 (T1 ++ T2) (ts1 ++ ts2) p2 c2 := by
  intro rest
  rw [List.append_assoc, h1, h2]
  cases lexAux p2 c2 rest <;> simp [List.append_assoc]

theorem Steps.cast {p0 c0 T ts p c T' ts'} (h : Steps p0 c0 T ts p c) (hT : T = T') (hts : ts = ts') :
    Steps p0 c0 T' ts' p c := by subst hT; subst hts; exact h

/-! single characters -/

theorem step_sp {p} (h : Complete p) : Steps p false [.sp] (ftoks p) .none false := by
  intro rest; simp [lexAux, emit_complete h]
theorem step_nl {p} (h : Complete p) : Steps p false [.nl] (ftoks p) .none false := by
  intro rest; simp [lexAux, emit_complete h]
theorem step_amp {p} (h : Complete p) : Steps p false [.amp] (ftoks p) .none false := by
  intro rest; simp [lexAux, emit_complete h]
theorem step_cmt {p} (h : Complete p) : Steps p false [.cmt] (ftoks p) .none true := by
  intro rest; simp [lexAux, emit_complete h]
theorem step_rp {p} (h : Complete p) : Steps p false [.rp] (ftoks p ++ [.rp]) .none false := by
  intro rest; simp [lexAux, emit_complete h]
theorem step_colon {p} (h : Complete p) : Steps p false [.colon] (ftoks p ++ [.colon]) .none false := by
  intro rest; simp [lexAux, emit_complete h]
theorem step_lp {p} (h : Complete p) : Steps p false [.lp] (ftoks p ++ [.lp]) .none false := by
  intro rest
  have hp : p ≠ .hash := by intro e; subst e; exact h
  simp [lexAux, hp, emit_complete h]
theorem step_clp : Steps .hash false [.lp] [.clp] .none false := by
  intro rest
  have : Complete .none := trivial
  simp [lexAux, emit_complete this, ftoks]
theorem step_hash : Steps .none false [.hash] [] .hash false := by
  intro rest; cases h : lexAux .hash false rest <;> simp [lexAux, h]
theorem step_in_comment (p : Pend) (x : GCh) : Steps p true [x] [] .none (x != .nl) := by
  intro rest
  by_cases hx : x = .nl
  · subst hx; cases h : lexAux .none false rest <;> simp [lexAux, h]
  · have hb : (x != GCh.nl) = true := by simp [hx]
    rw [hb]
    cases h : lexAux .none true rest <;> simp [lexAux, hx, h]

/-! separators -/

/-- every character that is not hidden in a comment is a separator -/
def isSep : Bool → List GCh → Bool
  | _, [] => true
  | true, x :: xs => isSep (x != .nl) xs
  | false, .sp :: xs => isSep false xs
  | false, .nl :: xs => isSep false xs
  | false, .amp :: xs => isSep false xs
  | false, .cmt :: xs => isSep true xs
  | false, _ :: _ => false

theorem cmtAfter_append (c : Bool) (a b : List GCh) : cmtAfter c (a ++ b) = cmtAfter (cmtAfter c a) b := by
  induction a generalizing c with
  | nil => rfl
  | cons x xs ih => cases c <;> simp [cmtAfter, ih]

theorem isSep_append (c : Bool) (a b : List GCh) : isSep c (a ++ b) = (isSep c a && isSep (cmtAfter c a) b) := by
  induction a generalizing c with
  | nil => simp [isSep, cmtAfter]
  | cons x xs ih =>
    cases c
    · cases x <;> simp [isSep, cmtAfter, ih] <;> rfl
    · simp [isSep, cmtAfter, ih]

/-- separators stay separators when the text starts inside a comment -/
theorem isSep_true_of_false {S : List GCh} (h : isSep false S = true) : isSep true S = true := by
  induction S with
  | nil => rfl
  | cons x xs ih =>
    cases x <;> simp [isSep] at h ⊢
    · exact ih h
    · exact h
    · exact ih h
    · exact h

theorem isSep_of_false (c : Bool) {S : List GCh} (h : isSep false S = true) : isSep c S = true := by
  cases c
  · exact h
  · exact isSep_true_of_false h

/-- separators read from "no pending lexeme" -/
theorem sep_steps {c : Bool} {S : List GCh} (h : isSep c S = true) : Steps .none c S [] .none (cmtAfter c S) := by
  induction S generalizing c with
  | nil => exact Steps.nil _ _
  | cons x xs ih =>
    cases c
    · have hn : Complete .none := trivial
      cases x <;> simp [isSep] at h
      · exact (Steps.trans (step_sp hn) (ih h)).cast rfl rfl
      · exact (Steps.trans (step_nl hn) (ih h)).cast rfl rfl
      · exact (Steps.trans (step_amp hn) (ih h)).cast rfl rfl
      · exact (Steps.trans (step_cmt hn) (ih h)).cast rfl rfl
    · simp [isSep] at h
      exact (Steps.trans (step_in_comment .none x) (ih h)).cast rfl rfl

/-- non-empty separators end a complete pending lexeme -/
theorem sep_steps_pending {p : Pend} (hp : Complete p) {x : GCh} {S : List GCh} (h : isSep false (x :: S) = true) :
    Steps p false (x :: S) (ftoks p) .none (cmtAfter false (x :: S)) := by
  cases x <;> simp [isSep] at h
  · exact (Steps.trans (step_sp hp) (sep_steps h)).cast rfl (by simp)
  · exact (Steps.trans (step_nl hp) (sep_steps h)).cast rfl (by simp)
  · exact (Steps.trans (step_amp hp) (sep_steps h)).cast rfl (by simp)
  · exact (Steps.trans (step_cmt hp) (sep_steps h)).cast rfl (by simp)

/-- possibly empty separators behind a complete pending lexeme: either it stays pending or it is emitted -/
theorem sep_steps_any {p : Pend} (hp : Complete p) {S : List GCh} (h : isSep false S = true) :
    ∃ ts p', Steps p false S ts p' (cmtAfter false S) ∧ Complete p' ∧ ts ++ ftoks p' = ftoks p ∧
      (cmtAfter false S = true → p' = .none) ∧ (S ≠ [] → p' = .none) ∧ (S = [] → p' = p) := by
  cases S with
  | nil => exact ⟨[], p, Steps.nil _ _, hp, by simp, by simp [cmtAfter], by simp, fun _ => rfl⟩
  | cons x xs =>
    exact ⟨ftoks p, .none, sep_steps_pending hp h, trivial, by simp [ftoks], fun _ => rfl, fun _ => rfl, by simp⟩

/-! numerals -/

def digVal : Nat → List GCh → Option Nat
  | a, [] => some a
  | a, .digit d :: cs => digVal (10 * a + d) cs
  | _, _ :: _ => none

theorem digits_steps {neg : Bool} {a v : Nat} {ds : List GCh} (h : digVal a ds = some v) :
    Steps (.digits neg a) false ds [] (.digits neg v) false := by
  induction ds generalizing a with
  | nil => simp [digVal] at h; subst h; exact Steps.nil _ _
  | cons x xs ih =>
    cases x <;> simp [digVal] at h
    rename_i d
    have h1 : Steps (.digits neg a) false [.digit d] [] (.digits neg (10 * a + d)) false := by
      intro rest; cases hh : lexAux (.digits neg (10 * a + d)) false rest <;> simp [lexAux, hh]
    exact (Steps.trans h1 (ih h)).cast rfl rfl

theorem hdigits_steps {a v : Nat} {ds : List GCh} (h : digVal a ds = some v) :
    Steps (.hdigits a) false ds [] (.hdigits v) false := by
  induction ds generalizing a with
  | nil => simp [digVal] at h; subst h; exact Steps.nil _ _
  | cons x xs ih =>
    cases x <;> simp [digVal] at h
    rename_i d
    have h1 : Steps (.hdigits a) false [.digit d] [] (.hdigits (10 * a + d)) false := by
      intro rest; cases hh : lexAux (.hdigits (10 * a + d)) false rest <;> simp [lexAux, hh]
    exact (Steps.trans h1 (ih h)).cast rfl rfl

/-- the value of a surface token: optional sign, then digits -/
def tokVal : List GCh → Option (Bool × Nat)
  | .digit d :: cs => (digVal d cs).map fun v => (false, v)
  | .plus :: .digit d :: cs => (digVal d cs).map fun v => (false, v)
  | .minus :: .digit d :: cs => (digVal d cs).map fun v => (true, v)
  | _ => none

/-- the value of a cell token behind `#`: digits only -/
def cellVal : List GCh → Option Nat
  | .digit d :: cs => digVal d cs
  | _ => none

theorem tok_steps {tok : List GCh} {neg : Bool} {v : Nat} (h : tokVal tok = some (neg, v)) :
    Steps .none false tok [] (.digits neg v) false := by
  match tok, h with
  | .digit d :: cs, h =>
    simp [tokVal] at h
    obtain ⟨hv, hn⟩ := h; subst hn
    have h1 : Steps .none false [.digit d] [] (.digits false d) false := by
      intro rest; cases hh : lexAux (.digits false d) false rest <;> simp [lexAux, hh]
    exact (Steps.trans h1 (digits_steps hv)).cast rfl rfl
  | .plus :: .digit d :: cs, h =>
    simp [tokVal] at h
    obtain ⟨hv, hn⟩ := h; subst hn
    have h1 : Steps .none false [.plus, .digit d] [] (.digits false d) false := by
      intro rest; cases hh : lexAux (.digits false d) false rest <;> simp [lexAux, hh]
    exact (Steps.trans h1 (digits_steps hv)).cast rfl rfl
  | .minus :: .digit d :: cs, h =>
    simp [tokVal] at h
    obtain ⟨hv, hn⟩ := h; subst hn
    have h1 : Steps .none false [.minus, .digit d] [] (.digits true d) false := by
      intro rest; cases hh : lexAux (.digits true d) false rest <;> simp [lexAux, hh]
    exact (Steps.trans h1 (digits_steps hv)).cast rfl rfl

theorem celltok_steps {tok : List GCh} {v : Nat} (h : cellVal tok = some v) :
    Steps .hash false tok [] (.hdigits v) false := by
  match tok, h with
  | .digit d :: cs, h =>
    simp [cellVal] at h
    have h1 : Steps .hash false [.digit d] [] (.hdigits d) false := by
      intro rest; cases hh : lexAux (.hdigits d) false rest <;> simp [lexAux, hh]
    exact (Steps.trans h1 (hdigits_steps h)).cast rfl rfl

/-- a whole text -/
theorem lex_of_steps {T ts p c} (h : Steps .none false T ts p c) (hp : Complete p) (hc : c = true → p = .none) :
    lex T = some (ts ++ ftoks p) := by
  have := h []
  rw [List.append_nil] at this
  unfold lex; rw [this]
  cases c
  · simp [lexAux, flush_complete hp]
  · rw [hc rfl]; simp [lexAux, ftoks]

end MontePyVerif.Spec.Geometry
