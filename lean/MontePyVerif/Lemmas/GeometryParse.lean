import MontePyVerif.Spec.Geometry
/-! Token-level lemmas about the Spec's stack evaluator: how the token sequences a printer can emit
    (factor, juxtaposition, `:`, `( … )`, `#( … )`) move the evaluator's state, and what they denote.
    `sem : Env → Bool` is the Boolean function the tokens are supposed to denote. -/
namespace MontePyVerif.Spec.Geometry

theorem run_append (xs ys : List Tok) (s : Option St) : run (xs ++ ys) s = run ys (run xs s) := by
  simp [run, List.foldl_append]

def evalO (ρ : Env) (d : Bool) : Option E → Bool
  | none => d
  | some e => e.eval ρ

theorem andO_eval (ρ : Env) (i : Option E) (v : E) : (andO i v).eval ρ = (evalO ρ true i && v.eval ρ) := by
  cases i <;> simp [andO, evalO, E.eval]
theorem orO_eval (ρ : Env) (u : Option E) (v : E) : (orO u v).eval ρ = (evalO ρ false u || v.eval ρ) := by
  cases u <;> simp [orO, evalO, E.eval]

/-- `ts` adds one factor sequence with meaning `sem` to the current term (usable inside an intersection). -/
def L1 (ts : List Tok) (sem : Env → Bool) : Prop :=
  ∀ u i c rest, ∃ i', run ts (some ⟨⟨u, i, c⟩, rest⟩) = some ⟨⟨u, some i', c⟩, rest⟩ ∧
    ∀ ρ, i'.eval ρ = (evalO ρ true i && sem ρ)

/-- from the start of a term, `ts` leaves the group with value `u ∨ sem` (usable where a union may stand). -/
def L0 (ts : List Tok) (sem : Env → Bool) : Prop :=
  ∀ u c rest, ∃ u' i', run ts (some ⟨⟨u, none, c⟩, rest⟩) = some ⟨⟨u', some i', c⟩, rest⟩ ∧
    ∀ ρ, (orO u' i').eval ρ = (evalO ρ false u || sem ρ)

theorem L1.toL0 {ts sem} (h : L1 ts sem) : L0 ts sem := by
  intro u c rest
  obtain ⟨i', hr, hv⟩ := h u none c rest
  exact ⟨u, i', hr, fun ρ => by rw [orO_eval, hv ρ]; simp [evalO]⟩

theorem L1.congr {ts sem sem'} (h : L1 ts sem) (e : ∀ ρ, sem ρ = sem' ρ) : L1 ts sem' := by
  intro u i c rest
  obtain ⟨i', hr, hv⟩ := h u i c rest
  exact ⟨i', hr, fun ρ => by rw [hv ρ, e ρ]⟩

theorem L0.congr {ts sem sem'} (h : L0 ts sem) (e : ∀ ρ, sem ρ = sem' ρ) : L0 ts sem' := by
  intro u c rest
  obtain ⟨u', i', hr, hv⟩ := h u c rest
  exact ⟨u', i', hr, fun ρ => by rw [hv ρ, e ρ]⟩

theorem L1_num (n : Nat) (neg : Bool) : L1 [.num n neg] (fun ρ => ρ false n != neg) := by
  intro u i c rest
  exact ⟨andO i (.leaf n neg), by simp [run, step], fun ρ => by rw [andO_eval]; simp [E.eval]⟩

theorem L1_cell (n : Nat) : L1 [.cell n] (fun ρ => !(ρ true n)) := by
  intro u i c rest
  exact ⟨andO i (.cell n), by simp [run, step], fun ρ => by rw [andO_eval]; simp [E.eval]⟩

theorem L1_inter {a b sa sb} (ha : L1 a sa) (hb : L1 b sb) : L1 (a ++ b) (fun ρ => sa ρ && sb ρ) := by
  intro u i c rest
  obtain ⟨i1, h1, hv1⟩ := ha u i c rest
  obtain ⟨i2, h2, hv2⟩ := hb u (some i1) c rest
  refine ⟨i2, by rw [run_append, h1, h2], fun ρ => ?_⟩
  rw [hv2 ρ]; simp [evalO, hv1 ρ, Bool.and_assoc]

theorem L0_union {a b sa sb} (ha : L0 a sa) (hb : L0 b sb) : L0 (a ++ .colon :: b) (fun ρ => sa ρ || sb ρ) := by
  intro u c rest
  obtain ⟨u1, i1, h1, hv1⟩ := ha u c rest
  obtain ⟨u2, i2, h2, hv2⟩ := hb (some (orO u1 i1)) c rest
  refine ⟨u2, i2, ?_, fun ρ => ?_⟩
  · have : a ++ Tok.colon :: b = a ++ ([.colon] ++ b) := by simp
    rw [this, run_append, run_append, h1]
    have hc : run [.colon] (some ⟨⟨u1, some i1, c⟩, rest⟩) = some ⟨⟨some (orO u1 i1), none, c⟩, rest⟩ := by
      simp [run, step]
    rw [hc, h2]
  · rw [hv2 ρ]; simp [evalO, hv1 ρ, Bool.or_assoc]

theorem L1_paren {ts sem} (h : L0 ts sem) : L1 (.lp :: (ts ++ [.rp])) sem := by
  intro u i c rest
  obtain ⟨u', i', hr, hv⟩ := h none false (⟨u, i, c⟩ :: rest)
  refine ⟨andO i (orO u' i'), ?_, fun ρ => ?_⟩
  · have : Tok.lp :: (ts ++ [.rp]) = [.lp] ++ (ts ++ [.rp]) := by simp
    rw [this, run_append, run_append]
    have h0 : run [.lp] (some ⟨⟨u, i, c⟩, rest⟩) = some ⟨⟨none, none, false⟩, ⟨u, i, c⟩ :: rest⟩ := by
      simp [run, step]
    rw [h0, hr]; simp [run, step]
  · rw [andO_eval, hv ρ]; simp [evalO]

theorem L1_cparen {ts sem} (h : L0 ts sem) : L1 (.clp :: (ts ++ [.rp])) (fun ρ => !(sem ρ)) := by
  intro u i c rest
  obtain ⟨u', i', hr, hv⟩ := h none true (⟨u, i, c⟩ :: rest)
  refine ⟨andO i (.compl (orO u' i')), ?_, fun ρ => ?_⟩
  · have : Tok.clp :: (ts ++ [.rp]) = [.clp] ++ (ts ++ [.rp]) := by simp
    rw [this, run_append, run_append]
    have h0 : run [.clp] (some ⟨⟨u, i, c⟩, rest⟩) = some ⟨⟨none, none, true⟩, ⟨u, i, c⟩ :: rest⟩ := by
      simp [run, step]
    rw [h0, hr]; simp [run, step]
  · rw [andO_eval]; simp [E.eval, hv ρ, evalO]

/-- what a complete geometry that satisfies `L0` denotes -/
theorem parse_of_L0 {ts sem} (h : L0 ts sem) : ∃ e, parse ts = some e ∧ ∀ ρ, e.eval ρ = sem ρ := by
  obtain ⟨u', i', hr, hv⟩ := h none false []
  exact ⟨orO u' i', by simp [parse, hr], fun ρ => by rw [hv ρ]; simp [evalO]⟩

end MontePyVerif.Spec.Geometry
