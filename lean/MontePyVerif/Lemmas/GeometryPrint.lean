import MontePyVerif.Lemmas.GeometryReady
/-! The main induction: the text of a ready tree reads as its tokens, and the tokens denote its region. -/
namespace MontePyVerif.C02
open MontePyVerif.Spec.Geometry MontePyVerif.Geometry

/-- like `Good`, from a lexer that still holds the complete lexeme `p0` -/
def GoodFrom (p0 : Pend) (T : List GCh) (toks : List Tok) : Prop :=
  ∃ ts p, StepsC p0 false T ts p ∧ Complete p ∧ ts ++ ftoks p = toks ∧ (cmtAfter false T = true → p = .none)

theorem good_iff {T toks} : Good T toks ↔ GoodFrom .none T toks := Iff.rfl

/-- separators may follow -/
theorem GoodFrom.sep {p0 T toks E} (h : GoodFrom p0 T toks) (he : isSep (cmtAfter false T) E = true) :
    GoodFrom p0 (T ++ E) toks := by
  obtain ⟨ts, p, hs, hp, ht, hc⟩ := h
  cases hcT : cmtAfter false T with
  | true =>
    have hpn := hc hcT; subst hpn
    rw [hcT] at he
    have h2 : StepsC .none (cmtAfter false T) E [] .none := by rw [hcT]; exact sep_steps he
    exact ⟨ts ++ [], .none, StepsC.trans hs h2, trivial, by simpa using ht, fun _ => rfl⟩
  | false =>
    rw [hcT] at he
    obtain ⟨ts', p', hs', hp', ht', hc', _⟩ := sep_steps_any hp he
    have h2 : StepsC p (cmtAfter false T) E ts' p' := by rw [hcT]; exact hs'
    refine ⟨ts ++ ts', p', StepsC.trans hs h2, hp', ?_, ?_⟩
    · rw [List.append_assoc, ht', ht]
    · intro hh; rw [cmtAfter_append, hcT] at hh; exact hc' hh

theorem GoodFrom.seq1 {p0 T1 k1 T2 k2} (h1 : GoodFrom p0 T1 k1) (hc : cmtAfter false T1 = false)
    (h2 : ∀ p, Complete p → GoodFrom p T2 (ftoks p ++ k2)) : GoodFrom p0 (T1 ++ T2) (k1 ++ k2) := by
  obtain ⟨ts, p, hs, hp, ht, _⟩ := h1
  obtain ⟨ts2, p2, hs2, hp2, ht2, hc2⟩ := h2 p hp
  have hs2' : StepsC p (cmtAfter false T1) T2 ts2 p2 := by rw [hc]; exact hs2
  refine ⟨ts ++ ts2, p2, StepsC.trans hs hs2', hp2, ?_, ?_⟩
  · rw [List.append_assoc, ht2, ← List.append_assoc, ht]
  · intro hh; rw [cmtAfter_append, hc] at hh; exact hc2 hh

theorem GoodFrom.seq2 {p0 T1 k1 T2 k2} (h1 : StepsC p0 false T1 k1 .none) (hc : cmtAfter false T1 = false)
    (h2 : GoodFrom .none T2 k2) : GoodFrom p0 (T1 ++ T2) (k1 ++ k2) := by
  obtain ⟨ts2, p2, hs2, hp2, ht2, hc2⟩ := h2
  have hs2' : StepsC .none (cmtAfter false T1) T2 ts2 p2 := by rw [hc]; exact hs2
  refine ⟨k1 ++ ts2, p2, StepsC.trans h1 hs2', hp2, ?_, ?_⟩
  · rw [List.append_assoc, ht2]
  · intro hh; rw [cmtAfter_append, hc] at hh; exact hc2 hh

theorem paren_from {p R tsR} (hp : Complete p) (hR : StepsC .none false R tsR .none) :
    StepsC p false (.lp :: R) (ftoks p ++ .lp :: tsR) .none := by
  have h1 : StepsC p false [.lp] (ftoks p ++ [.lp]) .none := step_lp hp
  have hc0 : cmtAfter false [GCh.lp] = false := rfl
  exact (StepsC.trans h1 (by rw [hc0]; exact hR)).cast (by simp) (by simp)

theorem cmtAfter_lp (R : List GCh) : cmtAfter false (.lp :: R) = cmtAfter false R :=
  cmtAfter_false_cons_ne (by decide) R

/-! shapes of the operator paddings -/

theorem complOpr_shape {cs : List GCh} (h : complOpr cs = true) :
    ∃ S, cs = S ++ [.hash] ∧ isSep false S = true ∧ cmtAfter false S = false := by
  simp [complOpr] at h
  obtain ⟨⟨h1, h2⟩, h3⟩ := h
  exact ⟨cs.dropLast, (List.dropLast_append_getLast? _ (by simp [h1])).symm, h2, h3⟩

theorem unionOpr_shape {cs : List GCh} (h : unionOpr cs = true) :
    ∃ a b, cs = a ++ .colon :: b ∧ isSep false a = true ∧ cmtAfter false a = false ∧
      isSep false b = true ∧ cmtAfter false b = false := by
  unfold unionOpr at h
  simp only at h
  split at h
  · rename_i b hb
    simp at h
    refine ⟨cs.takeWhile (· != .colon), b, ?_, h.1.1.1, h.1.1.2, h.1.2, h.2⟩
    conv => lhs; rw [← List.takeWhile_append_dropWhile (p := (· != GCh.colon)) (l := cs)]
    rw [hb]
  · simp at h

theorem union_opr_steps {p : Pend} (hp : Complete p) {a b : List GCh}
    (ha : isSep false a = true) (hac : cmtAfter false a = false) (hb : isSep false b = true) :
    StepsC p false (a ++ .colon :: b) (ftoks p ++ [.colon]) .none := by
  have hcol : ∀ q, Complete q → StepsC q false [.colon] (ftoks q ++ [.colon]) .none := fun q hq => step_colon hq
  have hc0 : cmtAfter false [GCh.colon] = false := rfl
  have hbs : StepsC .none (cmtAfter false [GCh.colon]) b [] .none := by rw [hc0]; exact sep_steps hb
  cases a with
  | nil => exact (StepsC.trans (hcol p hp) hbs).cast (by simp) (by simp)
  | cons x xs =>
    have h1 : StepsC p false (x :: xs) (ftoks p) .none := sep_steps_pending hp ha
    have h2 : StepsC .none (cmtAfter false (x :: xs)) ([.colon] ++ b) ([.colon] ++ []) .none := by
      rw [hac]
      exact StepsC.trans (by simpa [ftoks] using hcol .none trivial) hbs
    exact (StepsC.trans h1 h2).cast (by simp) (by simp)

theorem cmtAfter_union_opr {a b : List GCh} (hac : cmtAfter false a = false) :
    cmtAfter false (a ++ .colon :: b) = cmtAfter false b := by
  rw [cmtAfter_append, hac]; exact cmtAfter_false_cons_ne (by decide) b

/-! text of an operator node whose keys are in the created order -/

theorem fmt_compl {l : HS} {g : GN} (ho : orderOK g [.operator, .left] = true) :
    (HS.compl l (some g)).fmt = g.opr.format ++ (wrapFmt g.lchain l.fmt ++ optFmt g.ep) := by
  simp [orderOK] at ho
  rcases ho with ⟨h1, h2⟩ | ⟨h1, h2⟩
  · simp [HS.fmt, h1, h2, optFmt]
  · simp [HS.fmt, h1]

theorem fmt_bin {o : BOp} {l r : HS} {g : GN} (ho : orderOK g [.left, .operator, .right] = true) :
    (HS.bin o l r (some g)).fmt =
      wrapFmt g.lchain l.fmt ++ (g.opr.format ++ (wrapFmt g.rchain r.fmt ++ optFmt g.ep)) := by
  simp [orderOK] at ho
  rcases ho with ⟨h1, h2⟩ | ⟨h1, h2⟩
  · simp [HS.fmt, h1, h2, optFmt]
  · simp [HS.fmt, h1]

end MontePyVerif.C02
