import MontePyVerif.Lemmas.GeometryReady
/-! The main induction: the text of a ready tree reads as its tokens, and the tokens denote its region. -/
namespace MontePyVerif.C02
open MontePyVerif.Spec.Geometry MontePyVerif.Geometry

/-- like `Good`, from a lexer that still holds the complete lexeme `p0` -/
def GoodFrom (p0 : Pend) (T : List GCh) (toks : List Tok) : Prop :=
  ∃ ts p, StepsC p0 false T ts p ∧ Complete p ∧ ts ++ ftoks p = toks ∧ (cmtAfter false T = true → p = .none) ∧
    PendOK p0 T p

theorem good_iff {T toks} : Good T toks ↔ GoodFrom .none T toks := Iff.rfl

/-- separators may follow -/
theorem GoodFrom.sep {p0 T toks E} (h : GoodFrom p0 T toks) (he : isSep (cmtAfter false T) E = true) :
    GoodFrom p0 (T ++ E) toks := by
  obtain ⟨ts, p, hs, hp, ht, hc, hpend⟩ := h
  cases hcT : cmtAfter false T with
  | true =>
    have hpn := hc hcT; subst hpn
    rw [hcT] at he
    have h2 : StepsC .none (cmtAfter false T) E [] .none := by rw [hcT]; exact sep_steps he
    exact ⟨ts ++ [], .none, StepsC.trans hs h2, trivial, by simpa using ht, fun _ => rfl, Or.inr (Or.inl rfl)⟩
  | false =>
    rw [hcT] at he
    obtain ⟨ts', p', hs', hp', ht', hc', hne, hnil⟩ := sep_steps_any hp he
    have h2 : StepsC p (cmtAfter false T) E ts' p' := by rw [hcT]; exact hs'
    refine ⟨ts ++ ts', p', StepsC.trans hs h2, hp', ?_, ?_, ?_⟩
    · rw [List.append_assoc, ht', ht]
    · intro hh; rw [cmtAfter_append, hcT] at hh; exact hc' hh
    · cases E with
      | nil => rw [hnil rfl, List.append_nil]; exact hpend
      | cons x xs => exact Or.inr (Or.inl (hne (by simp)))

theorem GoodFrom.seq1 {p0 T1 k1 T2 k2} (h1 : GoodFrom p0 T1 k1) (hc : cmtAfter false T1 = false)
    (h2 : ∀ p, Complete p → GoodFrom p T2 (ftoks p ++ k2)) : GoodFrom p0 (T1 ++ T2) (k1 ++ k2) := by
  obtain ⟨ts, p, hs, hp, ht, _, hpend⟩ := h1
  obtain ⟨ts2, p2, hs2, hp2, ht2, hc2, hpend2⟩ := h2 p hp
  have hs2' : StepsC p (cmtAfter false T1) T2 ts2 p2 := by rw [hc]; exact hs2
  refine ⟨ts ++ ts2, p2, StepsC.trans hs hs2', hp2, ?_, ?_, ?_⟩
  · rw [List.append_assoc, ht2, ← List.append_assoc, ht]
  · intro hh; rw [cmtAfter_append, hc] at hh; exact hc2 hh
  · rcases hpend2 with ⟨hT, hpp⟩ | hn | hd
    · subst hT; subst hpp; rw [List.append_nil]; exact hpend
    · exact Or.inr (Or.inl hn)
    · exact Or.inr (Or.inr (lastDigit_append hd))

theorem GoodFrom.seq2 {p0 T1 k1 T2 k2} (h1 : StepsC p0 false T1 k1 .none) (hc : cmtAfter false T1 = false)
    (h2 : GoodFrom .none T2 k2) : GoodFrom p0 (T1 ++ T2) (k1 ++ k2) := by
  obtain ⟨ts2, p2, hs2, hp2, ht2, hc2, hpend2⟩ := h2
  have hs2' : StepsC .none (cmtAfter false T1) T2 ts2 p2 := by rw [hc]; exact hs2
  refine ⟨k1 ++ ts2, p2, StepsC.trans h1 hs2', hp2, ?_, ?_, ?_⟩
  · rw [List.append_assoc, ht2]
  · intro hh; rw [cmtAfter_append, hc] at hh; exact hc2 hh
  · rcases hpend2 with ⟨_, hpp⟩ | hn | hd
    · exact Or.inr (Or.inl hpp)
    · exact Or.inr (Or.inl hn)
    · exact Or.inr (Or.inr (lastDigit_append hd))

theorem paren_from {p R tsR} (hp : Complete p) (hR : StepsC .none false R tsR .none) :
    StepsC p false (.lp :: R) (ftoks p ++ .lp :: tsR) .none := by
  have h1 : StepsC p false [.lp] (ftoks p ++ [.lp]) .none := step_lp hp
  have hc0 : cmtAfter false [GCh.lp] = false := rfl
  exact (StepsC.trans h1 (by rw [hc0]; exact hR)).cast (by simp) (by simp)

theorem cmtAfter_lp (R : List GCh) : cmtAfter false (.lp :: R) = cmtAfter false R :=
  cmtAfter_false_cons_ne (by decide) R

/-! shapes of the operator paddings -/

theorem eq_dropLast_of_getLast? {l : List GCh} {a : GCh} (h : l.getLast? = some a) : l = l.dropLast ++ [a] := by
  have hne : l ≠ [] := by intro e; subst e; simp at h
  have h2 := List.getLast?_eq_some_getLast hne
  rw [h2] at h
  have h3 := List.dropLast_concat_getLast hne
  simp at h
  rw [h] at h3
  exact h3.symm

theorem complOpr_shape {cs : List GCh} (h : complOpr cs = true) :
    ∃ S, cs = S ++ [.hash] ∧ isSep false S = true ∧ cmtAfter false S = false := by
  simp [complOpr] at h
  obtain ⟨⟨h1, h2⟩, h3⟩ := h
  exact ⟨cs.dropLast, eq_dropLast_of_getLast? h1, h2, h3⟩

theorem unionOpr_shape {cs : List GCh} (h : unionOpr cs = true) :
    ∃ a b, cs = a ++ .colon :: b ∧ isSep false a = true ∧ cmtAfter false a = false ∧
      isSep false b = true ∧ cmtAfter false b = false := by
  unfold unionOpr at h
  simp only at h
  split at h
  · rename_i b hb
    simp at h
    refine ⟨cs.takeWhile (· != .colon), b, ?_, h.1.1.1, h.1.1.2, h.1.2, h.2⟩
    conv => lhs; rw [← List.takeWhile_append_dropWhile (p := (· != GCh.colon)) (l := cs)]
    rw [hb]
  · simp at h

theorem union_opr_steps {p : Pend} (hp : Complete p) {a b : List GCh}
    (ha : isSep false a = true) (hac : cmtAfter false a = false) (hb : isSep false b = true) :
    StepsC p false (a ++ .colon :: b) (ftoks p ++ [.colon]) .none := by
  have hcol : ∀ q, Complete q → StepsC q false [.colon] (ftoks q ++ [.colon]) .none := fun q hq => step_colon hq
  have hc0 : cmtAfter false [GCh.colon] = false := rfl
  have hbs : StepsC .none (cmtAfter false [GCh.colon]) b [] .none := by rw [hc0]; exact sep_steps hb
  cases a with
  | nil => exact (StepsC.trans (hcol p hp) hbs).cast (by simp) (by simp)
  | cons x xs =>
    have h1 : StepsC p false (x :: xs) (ftoks p) .none := sep_steps_pending hp ha
    have h2 : StepsC .none (cmtAfter false (x :: xs)) ([.colon] ++ b) ([.colon] ++ []) .none := by
      rw [hac]
      exact StepsC.trans (by simpa [ftoks] using hcol .none trivial) hbs
    exact (StepsC.trans h1 h2).cast (by simp) (by simp)

theorem cmtAfter_union_opr {a b : List GCh} (hac : cmtAfter false a = false) :
    cmtAfter false (a ++ .colon :: b) = cmtAfter false b := by
  rw [cmtAfter_append, hac]; exact cmtAfter_false_cons_ne (by decide) b

/-! text of an operator node whose keys are in the created order -/

theorem fmt_compl {l : HS} {g : GN} (ho : orderOK g [.operator, .left] = true) :
    (HS.compl l (some g)).fmt = g.opr.format ++ (wrapFmt g.lchain l.fmt ++ optFmt g.ep) := by
  simp [orderOK] at ho
  rcases ho with ⟨h1, h2⟩ | ⟨h1, h2⟩
  · simp [HS.fmt, h1, h2, optFmt]
  · simp [HS.fmt, h1]

theorem fmt_bin {o : BOp} {l r : HS} {g : GN} (ho : orderOK g [.left, .operator, .right] = true) :
    (HS.bin o l r (some g)).fmt =
      wrapFmt g.lchain l.fmt ++ (g.opr.format ++ (wrapFmt g.rchain r.fmt ++ optFmt g.ep)) := by
  simp [orderOK] at ho
  rcases ho with ⟨h1, h2⟩ | ⟨h1, h2⟩
  · simp [HS.fmt, h1, h2, optFmt]
  · simp [HS.fmt, h1]

end MontePyVerif.C02

namespace MontePyVerif.C02
open MontePyVerif.Spec.Geometry MontePyVerif.Geometry

theorem cmtAfter_digVal {a v : Nat} {ds : List GCh} (h : digVal a ds = some v) : cmtAfter false ds = false := by
  induction ds generalizing a with
  | nil => rfl
  | cons x xs ih =>
    cases x <;> simp [digVal] at h
    rw [cmtAfter_false_cons_ne (by simp)]; exact ih h

theorem cmtAfter_tokVal {tok : List GCh} {r : Bool × Nat} (h : tokVal tok = some r) : cmtAfter false tok = false := by
  match tok, h with
  | .digit d :: cs, h =>
    simp [tokVal] at h; obtain ⟨v, hv, _⟩ := h
    rw [cmtAfter_false_cons_ne (by simp)]; exact cmtAfter_digVal hv
  | .plus :: .digit d :: cs, h =>
    simp [tokVal] at h; obtain ⟨v, hv, _⟩ := h
    rw [cmtAfter_false_cons_ne (by simp), cmtAfter_false_cons_ne (by simp)]; exact cmtAfter_digVal hv
  | .minus :: .digit d :: cs, h =>
    simp [tokVal] at h; obtain ⟨v, hv, _⟩ := h
    rw [cmtAfter_false_cons_ne (by simp), cmtAfter_false_cons_ne (by simp)]; exact cmtAfter_digVal hv

theorem cmtAfter_cellVal {tok : List GCh} {v : Nat} (h : cellVal tok = some v) : cmtAfter false tok = false := by
  match tok, h with
  | .digit d :: cs, h =>
    simp [cellVal] at h
    rw [cmtAfter_false_cons_ne (by simp)]; exact cmtAfter_digVal h

theorem lastDigit_digVal {a v d : Nat} {ds : List GCh} (h : digVal a ds = some v) :
    lastDigit (.digit d :: ds) = true := by
  induction ds generalizing a d with
  | nil => rfl
  | cons x xs ih =>
    cases x <;> simp [digVal] at h
    rename_i d'
    have : lastDigit (GCh.digit d :: GCh.digit d' :: xs) = lastDigit (GCh.digit d' :: xs) := by
      simp [lastDigit, List.getLast?_cons_cons]
    rw [this]; exact ih h

theorem lastDigit_tokVal {tok : List GCh} {r : Bool × Nat} (h : tokVal tok = some r) : lastDigit tok = true := by
  match tok, h with
  | .digit d :: cs, h =>
    simp [tokVal] at h; obtain ⟨v, hv, _⟩ := h; exact lastDigit_digVal hv
  | .plus :: .digit d :: cs, h =>
    simp [tokVal] at h; obtain ⟨v, hv, _⟩ := h
    exact lastDigit_append (A := [GCh.plus]) (lastDigit_digVal hv)
  | .minus :: .digit d :: cs, h =>
    simp [tokVal] at h; obtain ⟨v, hv, _⟩ := h
    exact lastDigit_append (A := [GCh.minus]) (lastDigit_digVal hv)

theorem lastDigit_cellVal {tok : List GCh} {v : Nat} (h : cellVal tok = some v) : lastDigit tok = true := by
  match tok, h with
  | .digit d :: cs, h => simp [cellVal] at h; exact lastDigit_digVal h

/-- a surface leaf -/
theorem good_leaf {tok : List GCh} {neg : Bool} {d : Nat} {pad : List GCh}
    (ht : tokVal tok = some (neg, d)) (hp : isSep false pad = true) : Good (tok ++ pad) [.num d neg] := by
  have hc := cmtAfter_tokVal ht
  have h1 : GoodFrom .none tok [.num d neg] :=
    ⟨[], .digits neg d, by unfold StepsC; rw [hc]; exact tok_steps ht, trivial, rfl, by simp [hc],
      Or.inr (Or.inr (lastDigit_tokVal ht))⟩
  exact h1.sep (by rw [hc]; exact hp)

/-- `#n`: the operator padding, the cell number, its padding, the end_pad -/
theorem good_cell {S tok pad ep : List GCh} {d : Nat}
    (hS : isSep false S = true) (hSc : cmtAfter false S = false) (ht : cellVal tok = some d)
    (hp : isSep false pad = true) (he : isSep (cmtAfter false pad) ep = true) :
    Good ((S ++ [.hash]) ++ ((tok ++ pad) ++ ep)) [.cell d] := by
  have hc := cmtAfter_cellVal ht
  have h1 : StepsC .none false S [] .none := sep_steps hS
  have h2 : StepsC .none (cmtAfter false S) [.hash] [] .hash := by rw [hSc]; exact step_hash
  have h12 := StepsC.trans h1 h2
  have hc12 : cmtAfter false (S ++ [.hash]) = false := by rw [cmtAfter_append, hSc]; rfl
  have h3 : StepsC .hash (cmtAfter false (S ++ [.hash])) tok [] (.hdigits d) := by
    rw [hc12]; unfold StepsC; rw [hc]; exact celltok_steps ht
  have h123 := StepsC.trans h12 h3
  have hc123 : cmtAfter false (S ++ [.hash] ++ tok) = false := by rw [cmtAfter_append, hc12, hc]
  have g1 : GoodFrom .none (S ++ [.hash] ++ tok) [.cell d] :=
    ⟨_, .hdigits d, h123, trivial, by simp [ftoks], (fun hh => by rw [hc123] at hh; cases hh),
      Or.inr (Or.inr (lastDigit_append (lastDigit_cellVal ht)))⟩
  have g2 := g1.sep (E := pad) (by rw [hc123]; exact hp)
  have hc4 : cmtAfter false (S ++ [.hash] ++ tok ++ pad) = cmtAfter false pad := by
    rw [cmtAfter_append, hc123]
  have g3 := g2.sep (E := ep) (by rw [hc4]; exact he)
  have e : S ++ [GCh.hash] ++ tok ++ pad ++ ep = (S ++ [.hash]) ++ ((tok ++ pad) ++ ep) := by simp
  rw [← e]; exact g3

/-- `#( … )`: the operator padding, a parenthesised link, the end_pad -/
theorem good_compl {S R ep : List GCh} {tsR : List Tok}
    (hS : isSep false S = true) (hSc : cmtAfter false S = false)
    (hR : StepsC .none false R tsR .none) (he : isSep (cmtAfter false (.lp :: R)) ep = true) :
    Good ((S ++ [.hash]) ++ ((.lp :: R) ++ ep)) (.clp :: tsR) := by
  have h1 : StepsC .none false S [] .none := sep_steps hS
  have h2 : StepsC .none (cmtAfter false S) [.hash] [] .hash := by rw [hSc]; exact step_hash
  have h12 := StepsC.trans h1 h2
  have hc12 : cmtAfter false (S ++ [.hash]) = false := by rw [cmtAfter_append, hSc]; rfl
  have h3 : StepsC .hash (cmtAfter false (S ++ [.hash])) [.lp] [.clp] .none := by rw [hc12]; exact step_clp
  have h123 := StepsC.trans h12 h3
  have hc123 : cmtAfter false (S ++ [.hash] ++ [.lp]) = false := by rw [cmtAfter_append, hc12]; rfl
  have h4 : StepsC .none (cmtAfter false (S ++ [.hash] ++ [.lp])) R tsR .none := by rw [hc123]; exact hR
  have h1234 := StepsC.trans h123 h4
  have hcw : cmtAfter false (S ++ [.hash] ++ [.lp] ++ R) = cmtAfter false (.lp :: R) := by
    rw [cmtAfter_append, hc123, cmtAfter_lp]
  have g1 : GoodFrom .none (S ++ [.hash] ++ [.lp] ++ R) (.clp :: tsR) :=
    ⟨_, .none, h1234, trivial, by simp [ftoks], fun _ => rfl, Or.inr (Or.inl rfl)⟩
  have g2 := g1.sep (E := ep) (by rw [hcw]; exact he)
  have e : S ++ [GCh.hash] ++ [.lp] ++ R ++ ep = (S ++ [.hash]) ++ ((.lp :: R) ++ ep) := by simp
  rw [← e]; exact g2

/-- two operands with the padding of an intersection between them -/
theorem good_inter {L R opr ep : List GCh} {kL kR : List Tok}
    (gL : Good L kL) (hLc : cmtAfter false L = false) (gR : Good R kR)
    (ho : isSep false opr = true) (hoc : cmtAfter false opr = false)
    (hsepar : opr ≠ [] ∨
      (∃ RL tsL, L = .lp :: RL ∧ kL = .lp :: tsL ∧ StepsC .none false RL tsL .none) ∨
      (∃ RR tsR, R = .lp :: RR ∧ kR = .lp :: tsR ∧ StepsC .none false RR tsR .none) ∨
      lastDigit L = false)
    (he : isSep (cmtAfter false R) ep = true) :
    Good (L ++ (opr ++ (R ++ ep))) (kL ++ kR) := by
  have gRE : GoodFrom .none (R ++ ep) kR := GoodFrom.sep gR he
  rcases hsepar with hne | ⟨RL, tsL, hL, hk, hs⟩ | ⟨RR, tsR, hR, hk, hs⟩ | hnd
  rotate_right
  · -- the left text does not end in a digit: the lexer holds nothing behind it
    obtain ⟨ts, p, hsL, _, htL, _, hpend⟩ := gL
    have hpn : p = .none := by
      rcases hpend with ⟨_, h⟩ | h | h
      · exact h
      · exact h
      · rw [hnd] at h; cases h
    subst hpn
    have hk : ts = kL := by simpa [ftoks] using htL
    subst hk
    have hmid : GoodFrom .none (opr ++ (R ++ ep)) kR := by
      have := GoodFrom.seq2 (sep_steps ho : StepsC .none false opr [] .none) hoc gRE
      simpa using this
    exact GoodFrom.seq2 hsL hLc hmid
  · refine GoodFrom.seq1 gL hLc (fun p hp => ?_)
    cases opr with
    | nil => exact absurd rfl hne
    | cons x xs =>
      have := GoodFrom.seq2 (sep_steps_pending hp ho) hoc gRE
      exact this
  · subst hL; subst hk
    have hL' : StepsC .none false (.lp :: RL) (.lp :: tsL) .none := by
      simpa [ftoks] using paren_from (p := .none) trivial hs
    have hmid : GoodFrom .none (opr ++ (R ++ ep)) kR := by
      have := GoodFrom.seq2 (sep_steps ho : StepsC .none false opr [] .none) hoc gRE
      simpa using this
    exact GoodFrom.seq2 hL' hLc hmid
  · subst hR; subst hk
    refine GoodFrom.seq1 gL hLc (fun p hp => ?_)
    have hfrom : StepsC p false (.lp :: RR) (ftoks p ++ .lp :: tsR) .none := paren_from hp hs
    have hRE : GoodFrom p ((.lp :: RR) ++ ep) (ftoks p ++ .lp :: tsR) :=
      GoodFrom.sep ⟨_, .none, hfrom, trivial, by simp [ftoks], fun _ => rfl, Or.inr (Or.inl rfl)⟩ he
    cases opr with
    | nil => simpa using hRE
    | cons x xs =>
      have := GoodFrom.seq2 (sep_steps_pending hp ho) hoc gRE
      exact this

/-- two operands with the padding of a union between them -/
theorem good_union {L R a b ep : List GCh} {kL kR : List Tok}
    (gL : Good L kL) (hLc : cmtAfter false L = false) (gR : Good R kR)
    (ha : isSep false a = true) (hac : cmtAfter false a = false)
    (hb : isSep false b = true) (hbc : cmtAfter false b = false)
    (he : isSep (cmtAfter false R) ep = true) :
    Good (L ++ ((a ++ .colon :: b) ++ (R ++ ep))) (kL ++ .colon :: kR) := by
  have gRE : GoodFrom .none (R ++ ep) kR := GoodFrom.sep gR he
  refine GoodFrom.seq1 gL hLc (fun p hp => ?_)
  have hoc : cmtAfter false (a ++ .colon :: b) = false := by rw [cmtAfter_union_opr hac]; exact hbc
  have := GoodFrom.seq2 (union_opr_steps hp ha hac hb) hoc gRE
  simpa using this

end MontePyVerif.C02
