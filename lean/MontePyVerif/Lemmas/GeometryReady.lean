import MontePyVerif.Lemmas.GeometryLex
import MontePyVerif.Lemmas.GeometryParse
/-! `HS.ready`: the decidable well-formedness of a HalfSpace tree *with* its syntax nodes under which its text
    reads back (what `_update_values` establishes), the token view `HS.toks`, and the lemmas about link chains. -/
namespace MontePyVerif.C02
open MontePyVerif.Spec.Geometry MontePyVerif.Geometry

/-- `Steps` with the comment state computed by `cmtAfter` -/
def StepsC (p0 : Pend) (c0 : Bool) (T : List GCh) (ts : List Tok) (p : Pend) : Prop :=
  Steps p0 c0 T ts p (cmtAfter c0 T)

theorem StepsC.trans {p0 c0 T1 ts1 p1 T2 ts2 p2}
    (h1 : StepsC p0 c0 T1 ts1 p1) (h2 : StepsC p1 (cmtAfter c0 T1) T2 ts2 p2) :
    StepsC p0 c0 (T1 ++ T2) (ts1 ++ ts2) p2 := by
  unfold StepsC at *; rw [cmtAfter_append]; exact Steps.trans h1 h2

theorem StepsC.cast {p0 c0 T ts p T' ts'} (h : StepsC p0 c0 T ts p) (hT : T = T') (hts : ts = ts') :
    StepsC p0 c0 T' ts' p := by subst hT; subst hts; exact h

/-- the text ends in a digit -/
def lastDigit (T : List GCh) : Bool :=
  match T.getLast? with
  | some (.digit _) => true
  | _ => false

/-- what the lexer may still hold behind the text `T` when it held `p0` in front of it: `p0` itself if nothing was
    read, otherwise something only if `T` ends in a digit -/
def PendOK (p0 : Pend) (T : List GCh) (p : Pend) : Prop := (T = [] ∧ p = p0) ∨ p = .none ∨ lastDigit T = true

/-- the text `T` reads, from the start of a lexeme, as the tokens `toks` (the last one possibly still pending) -/
def Good (T : List GCh) (toks : List Tok) : Prop :=
  ∃ ts p, StepsC .none false T ts p ∧ Complete p ∧ ts ++ ftoks p = toks ∧ (cmtAfter false T = true → p = .none) ∧
    PendOK .none T p

theorem lastDigit_append {A B : List GCh} (h : lastDigit B = true) : lastDigit (A ++ B) = true := by
  cases B with
  | nil => simp [lastDigit] at h
  | cons b bs =>
    have hg : (A ++ b :: bs).getLast? = (b :: bs).getLast? := by
      rw [List.getLast?_append]
      cases hh : (b :: bs).getLast? with
      | none => simp at hh
      | some x => rfl
    unfold lastDigit at h ⊢
    rw [hg]; exact h

theorem Good.lex {T toks} (h : Good T toks) : lex T = some toks := by
  obtain ⟨ts, p, hs, hp, ht, hc, _⟩ := h
  rw [← ht]; exact lex_of_steps hs hp hc

/-! ## link chains -/

inductive WK where
  | bare
  | parens (s e : List GCh)
  | bad
  deriving DecidableEq

/-- what kind of `_SHIFT` tree this is: a bare "shift" `{left}` or "geom parens" with "(" and ")" in front -/
def wrapKind (w : Wrap) : WK :=
  match w.sp, w.ep with
  | none, none => .bare
  | some (.str [.lp] :: s), some (.str [.rp] :: e) => .parens (Pad.format s) (Pad.format e)
  | _, _ => .bad

def linkToks : List Wrap → List Tok → List Tok
  | [], ts => ts
  | w :: ws, ts =>
      match wrapKind w with
      | .parens _ _ => .lp :: (linkToks ws ts ++ [.rp])
      | _ => linkToks ws ts

/-- the paddings of the chain are separators, nothing in front of a ")" is hidden in a comment -/
def chainOK : List Wrap → List GCh → Bool
  | [], _ => true
  | w :: ws, t =>
      match wrapKind w with
      | .bare => chainOK ws t
      | .parens s e =>
          isSep false s && !cmtAfter false s && !cmtAfter false (wrapFmt ws t) && isSep false e && chainOK ws t
      | .bad => false

def headParens : List Wrap → Bool
  | w :: _ => match wrapKind w with
      | .parens _ _ => true
      | _ => false
  | [] => false

def allBare : List Wrap → Bool
  | [] => true
  | w :: ws => wrapKind w == .bare && allBare ws

theorem wrapFmt_kind_bare {w : Wrap} (h : wrapKind w = .bare) (ws : List Wrap) (t : List GCh) :
    wrapFmt (w :: ws) t = wrapFmt ws t := by
  unfold wrapKind at h
  cases hs : w.sp <;> cases he : w.ep <;> simp [hs, he] at h
  · simp [wrapFmt, optFmt, hs, he]
  · split at h <;> simp_all

theorem wrapFmt_kind_parens {w : Wrap} {s e : List GCh} (h : wrapKind w = .parens s e) (ws : List Wrap) (t : List GCh) :
    wrapFmt (w :: ws) t = .lp :: (s ++ wrapFmt ws t ++ .rp :: e) := by
  unfold wrapKind at h
  cases hs : w.sp <;> cases he : w.ep <;> simp [hs, he] at h
  rename_i sp ep
  split at h <;> simp_all
  rename_i s' e' _ _
  obtain ⟨h1, h2⟩ := h
  subst h1; subst h2
  simp [wrapFmt, optFmt, hs, he, Pad.format, PItem.format]

theorem wrapFmt_allBare {ws : List Wrap} (h : allBare ws = true) (t : List GCh) : wrapFmt ws t = t := by
  induction ws with
  | nil => rfl
  | cons w ws ih =>
    simp [allBare] at h
    rw [wrapFmt_kind_bare h.1, ih h.2]

theorem linkToks_allBare {ws : List Wrap} (h : allBare ws = true) (ts : List Tok) : linkToks ws ts = ts := by
  induction ws with
  | nil => rfl
  | cons w ws ih =>
    simp [allBare] at h
    simp [linkToks, h.1, ih h.2]

theorem cmtAfter_false_cons_ne {x : GCh} (h : x ≠ .cmt) (xs : List GCh) : cmtAfter false (x :: xs) = cmtAfter false xs := by
  have : (x == GCh.cmt) = false := by simp [h]
  simp [cmtAfter, this]

/-- the text behind the "(" of a parenthesised link -/
theorem paren_rest {s t e : List GCh} {toks : List Tok} (hg : Good t toks)
    (hs : isSep false s = true) (hsc : cmtAfter false s = false) (htc : cmtAfter false t = false)
    (he : isSep false e = true) :
    StepsC .none false (s ++ t ++ .rp :: e) (toks ++ [.rp]) .none := by
  obtain ⟨ts, p, hst, hp, htk, _, _⟩ := hg
  have h1 : StepsC .none false s [] .none := sep_steps hs
  have h2 : StepsC .none (cmtAfter false s) t ts p := by rw [hsc]; exact hst
  have h12 := StepsC.trans h1 h2
  have hc12 : cmtAfter false (s ++ t) = false := by rw [cmtAfter_append, hsc, htc]
  have h3 : StepsC p (cmtAfter false (s ++ t)) [.rp] (ftoks p ++ [.rp]) .none := by
    rw [hc12]; exact step_rp hp
  have h123 := StepsC.trans h12 h3
  have hc123 : cmtAfter false (s ++ t ++ [.rp]) = false := by
    rw [cmtAfter_append, hc12]; rfl
  have h4 : StepsC .none (cmtAfter false (s ++ t ++ [.rp])) e [] .none := by
    rw [hc123]; exact sep_steps he
  have := StepsC.trans h123 h4
  refine this.cast (by simp) ?_
  rw [← htk]; simp

/-- a link (chain of shift trees around a node's text) reads as the node's tokens, parenthesised;
    a parenthesised link can also stand behind a pending numeral or behind `#`. -/
theorem link_good {ws : List Wrap} {t : List GCh} {toks : List Tok} (hg : Good t toks) (hc : chainOK ws t = true) :
    Good (wrapFmt ws t) (linkToks ws toks) ∧
    (headParens ws = true → ∃ R tsR, wrapFmt ws t = .lp :: R ∧ linkToks ws toks = .lp :: tsR ∧
        StepsC .none false R tsR .none) := by
  induction ws with
  | nil => exact ⟨hg, by simp [headParens]⟩
  | cons w ws ih =>
    cases hk : wrapKind w with
    | bare =>
      simp [chainOK, hk] at hc
      rw [wrapFmt_kind_bare hk]
      simp only [linkToks, hk]
      exact ⟨(ih hc).1, by simp [headParens, hk]⟩
    | bad => simp [chainOK, hk] at hc
    | parens s e =>
      simp [chainOK, hk] at hc
      obtain ⟨⟨⟨⟨hs, hsc⟩, htc⟩, he⟩, hrest⟩ := hc
      have hin := (ih hrest).1
      have hR := paren_rest hin hs hsc htc he
      rw [wrapFmt_kind_parens hk]
      simp only [linkToks, hk]
      have hlp : StepsC .none false [.lp] [.lp] .none := step_lp (p := .none) trivial
      have hc0 : cmtAfter false [GCh.lp] = false := rfl
      have hall := StepsC.trans hlp (by rw [hc0]; exact hR)
      refine ⟨⟨.lp :: (linkToks ws toks ++ [.rp]), .none, ?_, trivial, by simp [ftoks], fun _ => rfl, Or.inr (Or.inl rfl)⟩, ?_⟩
      · exact hall.cast (by simp) (by simp)
      · intro _
        exact ⟨_, _, rfl, rfl, hR⟩

end MontePyVerif.C02

namespace MontePyVerif.C02
open MontePyVerif.Spec.Geometry MontePyVerif.Geometry

theorem link_sem {ws : List Wrap} {toks : List Tok} {sem : Env → Bool} {b : Bool}
    (h0 : L0 toks sem) (h1 : b = true → L1 toks sem) :
    L0 (linkToks ws toks) sem ∧ ((b = true ∨ headParens ws = true) → L1 (linkToks ws toks) sem) := by
  induction ws with
  | nil => exact ⟨h0, fun h => h.elim h1 (by simp [headParens])⟩
  | cons w ws ih =>
    cases hk : wrapKind w with
    | bare =>
      simp only [linkToks, hk]
      exact ⟨ih.1, fun h => ih.2 (h.elim Or.inl (by simp [headParens, hk]))⟩
    | bad =>
      simp only [linkToks, hk]
      exact ⟨ih.1, fun h => ih.2 (h.elim Or.inl (by simp [headParens, hk]))⟩
    | parens s e =>
      simp only [linkToks, hk]
      have := L1_paren ih.1
      exact ⟨this.toL0, fun _ => this⟩

/-! ## the token view of a tree and its readiness -/

/-- the tokens the text of a ready tree consists of -/
def toks : HS → List Tok
  | .unit d s false _ => [.num d (!s)]
  | .unit d _ true _ => [.cell d]
  | .compl (.unit d _ true _) _ => [.cell d]
  | .compl l (some g) =>
      match g.lchain with
      | _ :: ws => .clp :: (linkToks ws (toks l) ++ [.rp])
      | [] => []
  | .compl _ none => []
  | .bin .inter l r (some g) => linkToks g.lchain (toks l) ++ linkToks g.rchain (toks r)
  | .bin .union l r (some g) => linkToks g.lchain (toks l) ++ .colon :: linkToks g.rchain (toks r)
  | .bin _ _ _ none => []

/-- keys in the order the code creates them, `end_pad` last when there is one -/
def orderOK (g : GN) (base : List Key) : Bool :=
  (g.order == base && g.ep.isNone) || (g.order == base ++ [.endPad] && g.ep.isSome)

/-- operator padding of a complement: separators, then "#" as the last character -/
def complOpr (cs : List GCh) : Bool :=
  cs.getLast? == some .hash && isSep false cs.dropLast && !cmtAfter false cs.dropLast

/-- operator padding of a union: separators, one ":" that is not in a comment, separators -/
def unionOpr (cs : List GCh) : Bool :=
  let a := cs.takeWhile (· != .colon)
  match cs.dropWhile (· != .colon) with
  | .colon :: b => isSep false a && !cmtAfter false a && isSep false b && !cmtAfter false b
  | _ => false

/-- the strings of a padding hold no comment start (comments are `CommentNode`s) -/
def cleanPad (p : Pad) : Bool :=
  p.all fun
    | .str cs => !cs.contains .cmt
    | .cmt _ => true

/-- what the operator padding of a node that exists must look like -/
def oprOK (o : BOp) (cs : List GCh) : Bool :=
  match o with
  | .inter => isSep false cs && !cmtAfter false cs
  | .union => unionOpr cs

/-- the operator padding of an intersection after `_update_node`: separators and comments, nothing hidden that
    `_update_node` would take for a ":" -/
def interLike (p : Pad) : Bool :=
  isSep false p.format && !cmtAfter false p.format && !(strChars p).contains .colon

/-- the operator padding after `_update_node`, by operator -/
def oprOKp (o : BOp) (p : Pad) : Bool :=
  match o with
  | .inter => interLike p
  | .union => unionOpr p.format

/-- the operator padding before `_update_node`: that of an intersection or that of a union, *whatever the node's
    operator is* (`hs.operator = …` changes the operator and leaves the text to `_update_node`) -/
def oprPre (p : Pad) : Bool := interLike p || unionOpr p.format

def isUnion : HS → Bool
  | .bin .union .. => true
  | _ => false

/-- `gen true` is the state `HalfSpace._update_values` establishes (`ready`): every HalfSpace has its node; keys
    are in the created order; leaf tokens spell the divider; paddings hold only separators and the operator's own
    symbol; links carry parentheses where MCNP's precedence needs them; a left operand does not end inside a
    comment; two numerals are never adjacent (an intersection has a non-empty padding, or a parenthesised operand, or
    its left text does not end in a digit).  `gen false` (`linked`) is the same without the last clause: the
    state after `_ensure_has_nodes`, before `_update_node` has put a blank where one is needed or rewritten the
    operator symbol after `hs.operator = …`. -/
def gen (b : Bool) : HS → Bool
  | .unit d s false (some v) => tokVal v.tok == some (!s, d) && isSep false (optFmt v.pad)
  | .unit _ _ _ _ => false
  | .compl (.unit d _ true (some v)) (some g) =>
      orderOK g [.operator, .left] && complOpr g.opr.format && allBare g.lchain &&
      cellVal v.tok == some d && isSep false (optFmt v.pad) &&
      isSep false (optFmt g.ep)
  | .compl l (some g) =>
      gen b l && orderOK g [.operator, .left] && complOpr g.opr.format && headParens g.lchain &&
      chainOK g.lchain l.fmt && isSep false (optFmt g.ep)
  | .compl _ none => false
  | .bin o l r (some g) =>
      gen b l && gen b r && orderOK g [.left, .operator, .right] &&
      chainOK g.lchain l.fmt && chainOK g.rchain r.fmt &&
      !cmtAfter false (wrapFmt g.lchain l.fmt) &&
      (cleanPad g.opr && cond b (oprOKp o g.opr) (oprPre g.opr)) &&
      (match o with
        | .inter =>
            (!b || !g.opr.format.isEmpty || headParens g.lchain || headParens g.rchain ||
              !lastDigit (wrapFmt g.lchain l.fmt)) &&
            (!isUnion l || headParens g.lchain) && (!isUnion r || headParens g.rchain)
        | .union => true) &&
      isSep false (optFmt g.ep)
  | .bin _ _ _ none => false

/-- the state `_update_values` establishes -/
def ready (h : HS) : Bool := gen true h
/-- the state `_ensure_has_nodes` establishes -/
def linked (h : HS) : Bool := gen false h

/-- the paddings of a chain, without reference to the text it encloses -/
def chainPads : List Wrap → Bool
  | [] => true
  | w :: ws =>
      (match wrapKind w with
        | .bare => true
        | .parens s e => isSep false s && !cmtAfter false s && isSep false e
        | .bad => false) && chainPads ws

/-- **HS.WF**: well-formedness of a HalfSpace tree *before* `_update_values`: a cell leaf occurs only directly
    under a complement; a HalfSpace may or may not have its syntax node yet; where a node exists (it was read, or
    made by an earlier write) its leaf token spells the divider, its keys are in the created order, its paddings hold
    separators and comments plus the operator's own symbol, and the parentheses of its links are "(" / ")" with
    separators.  Nothing is asked of the links themselves: whether they still enclose the current child, carry the
    parentheses precedence needs, or end in a comment. -/
def wf : HS → Bool
  | .unit _ _ false none => true
  | .unit d s false (some v) => tokVal v.tok == some (!s, d) && isSep false (optFmt v.pad)
  | .unit _ _ true _ => false
  | .compl (.unit d _ true vn) gn =>
      (match vn with
        | none => true
        | some v => cellVal v.tok == some d && isSep false (optFmt v.pad)) &&
      (match gn with
        | none => true
        | some g => orderOK g [.operator, .left] && complOpr g.opr.format && allBare g.lchain &&
            isSep false (optFmt g.ep))
  | .compl l gn =>
      wf l &&
      (match gn with
        | none => true
        | some g => orderOK g [.operator, .left] && complOpr g.opr.format && chainPads g.lchain &&
            isSep false (optFmt g.ep))
  | .bin o l r gn =>
      wf l && wf r &&
      (match gn with
        | none => true
        | some g => orderOK g [.left, .operator, .right] && chainPads g.lchain && chainPads g.rchain &&
            (cleanPad g.opr && oprPre g.opr) && isSep false (optFmt g.ep))

end MontePyVerif.C02
