import MontePyVerif.Lemmas.GeometryUpdate
/-! `__switch_operator` with a new symbol: where the ":" of a new union goes, and that the padding it leaves is the
    operator padding of a union. -/
namespace MontePyVerif.C02
open MontePyVerif.Spec.Geometry MontePyVerif.Geometry

theorem cmtAfter_noCmt {S : List GCh} (h : S.contains .cmt = false) : cmtAfter false S = false := by
  induction S with
  | nil => rfl
  | cons x xs ih =>
    simp only [List.contains_cons, Bool.or_eq_false_iff] at h
    rw [cmtAfter_false_cons_ne (by intro e; subst e; simp at h)]
    exact ih h.2

theorem contains_take {S : List GCh} (h : S.contains .cmt = false) (j : Nat) : (S.take j).contains .cmt = false := by
  cases hh : (S.take j).contains .cmt with
  | false => rfl
  | true =>
    have hm : GCh.cmt ∈ S.take j := by simpa using hh
    have : GCh.cmt ∈ S := List.mem_of_mem_take hm
    have : S.contains .cmt = true := by simpa using this
    rw [h] at this; cases this

/-! `setItem` -/

def setG (i : Nat) (f : List GCh → List GCh) : Nat × PItem → PItem := fun (k, it) =>
  match it with
  | .str cs => if k = i then .str (f cs) else it
  | it => it

theorem setItem_def (p : Pad) (i : Nat) (f : List GCh → List GCh) :
    setItem p i f = ((List.range' 0 p.length).zip p).map (setG i f) := by
  simp only [setItem, List.range_eq_range']
  rfl

theorem set_unchanged (i : Nat) (f : List GCh → List GCh) (post : Pad) (s : Nat) (h : i < s) :
    ((List.range' s post.length).zip post).map (setG i f) = post := by
  induction post generalizing s with
  | nil => rfl
  | cons it post ih =>
    simp only [List.length_cons, List.range'_succ, List.zip_cons_cons, List.map_cons]
    rw [ih (s + 1) (by omega)]
    cases it with
    | str cs => simp [setG]; omega
    | cmt n => rfl

theorem set_at (f : List GCh → List GCh) (pre post : Pad) (cs : List GCh) (s : Nat) :
    ((List.range' s (pre ++ .str cs :: post).length).zip (pre ++ .str cs :: post)).map (setG (s + pre.length) f)
      = pre ++ .str (f cs) :: post := by
  induction pre generalizing s with
  | nil =>
    simp only [List.nil_append, List.length_cons, List.range'_succ, List.zip_cons_cons, List.map_cons,
      List.length_nil, Nat.add_zero]
    rw [set_unchanged s f post (s + 1) (by omega)]
    simp [setG]
  | cons it pre ih =>
    simp only [List.cons_append, List.length_cons, List.range'_succ, List.zip_cons_cons, List.map_cons]
    have := ih (s + 1)
    rw [show s + 1 + pre.length = s + (pre.length + 1) by omega] at this
    rw [this]
    cases it with
    | str cs' => simp [setG]
    | cmt n => rfl

theorem setItem_eq (f : List GCh → List GCh) (pre post : Pad) (cs : List GCh) :
    setItem (pre ++ .str cs :: post) pre.length f = pre ++ .str (f cs) :: post := by
  rw [setItem_def]
  have := set_at f pre post cs 0
  simpa using this

/-! `visibleBlanks` -/

/-- a recorded blank really is a blank of a string item, and nothing in front of it on its line is a comment -/
def BlankAt (nodes : Pad) (e : Nat × Nat × Nat) : Prop :=
  ∃ pre cs post, nodes = pre ++ .str cs :: post ∧ pre.length = e.2.1 ∧ cs[e.2.2]? = some .sp ∧
    cmtAfter false (Pad.format pre ++ cs.take e.2.2) = false

theorem vb_fold (q pre0 : Pad) (st : List (Nat × Nat × Nat) × Nat × Bool × Nat)
    (hclean : cleanPad q = true) (hi : st.2.2.2 = pre0.length)
    (hinc : st.2.2.1 = false → cmtAfter false (Pad.format pre0) = false)
    (hold : ∀ e ∈ st.1, BlankAt (pre0 ++ q) e) :
    ∀ e ∈ (q.foldl vbStep st).1, BlankAt (pre0 ++ q) e := by
  induction q generalizing pre0 st with
  | nil => simpa using hold
  | cons it q ih =>
    simp only [cleanPad, List.all_cons, Bool.and_eq_true] at hclean
    have hq : cleanPad q = true := hclean.2
    rw [List.foldl_cons]
    have happ : pre0 ++ it :: q = (pre0 ++ [it]) ++ q := by simp
    rw [happ]
    have hlen : (pre0 ++ [it]).length = st.2.2.2 + 1 := by simp [hi]
    cases it with
    | cmt n =>
      refine ih (pre0 ++ [.cmt n]) (vbStep st (.cmt n)) hq (by simp [vbStep, hlen]) (by simp [vbStep]) ?_
      intro e he; rw [← happ]; exact hold e (by simpa [vbStep] using he)
    | str cs =>
      have hcs : cs.contains .cmt = false := by simpa using hclean.1
      by_cases hnl : cs = [.nl]
      · refine ih (pre0 ++ [.str cs]) (vbStep st (.str cs)) hq (by simp [vbStep, hnl, hi]) ?_ ?_
        · intro _
          rw [format_append, cmtAfter_append]
          subst hnl
          cases cmtAfter false (Pad.format pre0) <;> rfl
        · intro e he; rw [← happ]; exact hold e (by simpa [vbStep, hnl] using he)
      · by_cases hin : st.2.2.1 = true
        · refine ih (pre0 ++ [.str cs]) (vbStep st (.str cs)) hq (by simp [vbStep, hnl, hin, hlen]) (by simp [vbStep, hnl, hin]) ?_
          intro e he; rw [← happ]; exact hold e (by simpa [vbStep, hnl, hin] using he)
        · have hin' : st.2.2.1 = false := by simpa using hin
          have hpre := hinc hin'
          refine ih (pre0 ++ [.str cs]) (vbStep st (.str cs)) hq (by simp [vbStep, hnl, hin', hlen]) ?_ ?_
          · intro _
            rw [format_append, cmtAfter_append, hpre]
            simpa [Pad.format, PItem.format] using cmtAfter_noCmt hcs
          · intro e he
            rw [← happ]
            simp only [vbStep, hnl, hin', if_false, Bool.false_eq_true, List.mem_append, List.mem_filterMap,
              List.mem_range] at he
            rcases he with he | ⟨j, _, hj⟩
            · exact hold e he
            · split at hj
              · rename_i hsp
                cases hj
                refine ⟨pre0, cs, q, rfl, hi.symm, hsp, ?_⟩
                rw [cmtAfter_append, hpre]
                exact cmtAfter_noCmt (contains_take hcs j)
              · cases hj

theorem visibleBlanks_spec (nodes : Pad) (hclean : cleanPad nodes = true) :
    ∀ e ∈ (visibleBlanks nodes).1, BlankAt nodes e := by
  have := vb_fold nodes [] ([], 0, false, 0) hclean rfl (fun _ => rfl) (by simp)
  simpa [visibleBlanks] using this

theorem foldl_pick_mem {α : Type} (P : α → α → Bool) (b : α) (bs : List α) :
    bs.foldl (fun m x => if P x m then x else m) b ∈ b :: bs := by
  induction bs generalizing b with
  | nil => simp
  | cons x xs ih =>
    rw [List.foldl_cons]
    by_cases hp : P x b = true
    · rw [if_pos hp]
      have := ih x
      simp only [List.mem_cons] at this ⊢
      rcases this with h | h
      · right; left; exact h
      · right; right; exact h
    · rw [if_neg hp]
      have := ih b
      simp only [List.mem_cons] at this ⊢
      rcases this with h | h
      · left; exact h
      · right; right; exact h

theorem split_at_colon {A B : List GCh} (hA : ∀ x ∈ A, x ≠ GCh.colon) :
    (A ++ .colon :: B).takeWhile (· != .colon) = A ∧ (A ++ .colon :: B).dropWhile (· != .colon) = .colon :: B := by
  induction A with
  | nil => simp
  | cons a as ih =>
    have ha : (a != GCh.colon) = true := by simpa using hA a (by simp)
    have := ih (fun x hx => hA x (List.mem_cons_of_mem _ hx))
    simp [List.takeWhile_cons, List.dropWhile_cons, ha, this.1, this.2]

theorem unionOpr_of_split {A B : List GCh} (hA : ∀ x ∈ A, x ≠ GCh.colon)
    (h1 : isSep false A = true) (h2 : cmtAfter false A = false) (h3 : isSep false B = true)
    (h4 : cmtAfter false B = false) : unionOpr (A ++ .colon :: B) = true := by
  obtain ⟨e1, e2⟩ := split_at_colon (B := B) hA
  simp only [unionOpr, e1, e2, h1, h2, h3, h4]
  rfl

theorem cmtAfter_neutral (c : Bool) (x : GCh) (hx1 : x ≠ .cmt) (hx2 : x ≠ .nl) (X : List GCh) :
    cmtAfter c (x :: X) = cmtAfter c X := by
  have h1 : (x == GCh.cmt) = false := by simp [hx1]
  have h2 : (x != GCh.nl) = true := by simp [hx2]
  cases c <;> simp [cmtAfter, h1, h2]

/-- **`__switch_operator(":")`** on a padding that holds separators and comments (what an intersection or a
    blanked-out operator leaves): the result is the operator padding of a union — separators, one ":" that MCNP
    reads (it is put on a blank that is not behind a comment on its line, or in front when there is none),
    separators — and no comment state changes. -/
theorem switch_colon_spec (p : Pad) (hs : isSep false p.format = true) (hc : cmtAfter false p.format = false)
    (hclean : cleanPad p = true) :
    unionOpr (Pad.format (switchOperator p (some .colon))) = true ∧
      (∀ c, cmtAfter c (Pad.format (switchOperator p (some .colon))) = cmtAfter c p.format) ∧
      cleanPad (switchOperator p (some .colon)) = true := by
  have hcl := cleanPad_switch_none p hclean
  -- the padding after the old symbols were blanked out
  have hfn : Pad.format (switchOperator p none) = p.format.map blankSym := format_switch_none p
  have hsn : isSep false (Pad.format (switchOperator p none)) = true := by rw [hfn]; exact isSep_map_blank _ _ hs
  have hcn : ∀ c, cmtAfter c (Pad.format (switchOperator p none)) = cmtAfter c p.format := by
    intro c; rw [hfn, cmtAfter_map_blank]
  have hnocol : ∀ x ∈ Pad.format (switchOperator p none), x ≠ GCh.colon := by
    intro x hx; rw [hfn] at hx
    obtain ⟨y, _, hy⟩ := List.mem_map.1 hx
    rw [← hy]; exact blankSym_ne_colon y
  have hvb := visibleBlanks_spec (switchOperator p none) (cleanPad_switch_none p hclean)
  have hunf : switchOperator p (some .colon) =
      (match (visibleBlanks (switchOperator p none)).1 with
        | [] => .str [.colon] :: switchOperator p none
        | b :: bs =>
            setItem (switchOperator p none)
              (bs.foldl (fun (m : Nat × Nat × Nat) (x : Nat × Nat × Nat) =>
                if absDiff x.1 ((visibleBlanks (switchOperator p none)).2.1 / 2)
                    < absDiff m.1 ((visibleBlanks (switchOperator p none)).2.1 / 2) then x else m) b).2.1
              (fun cs => cs.take (bs.foldl (fun (m : Nat × Nat × Nat) (x : Nat × Nat × Nat) =>
                if absDiff x.1 ((visibleBlanks (switchOperator p none)).2.1 / 2)
                    < absDiff m.1 ((visibleBlanks (switchOperator p none)).2.1 / 2) then x else m) b).2.2 ++ [.colon] ++
                cs.drop ((bs.foldl (fun (m : Nat × Nat × Nat) (x : Nat × Nat × Nat) =>
                if absDiff x.1 ((visibleBlanks (switchOperator p none)).2.1 / 2)
                    < absDiff m.1 ((visibleBlanks (switchOperator p none)).2.1 / 2) then x else m) b).2.2 + 1))) := by
    simp only [switchOperator]
    rfl
  rw [hunf]
  cases hbl : (visibleBlanks (switchOperator p none)).1 with
  | nil =>
    simp only []
    have hf : Pad.format (.str [.colon] :: switchOperator p none) = [] ++ .colon :: Pad.format (switchOperator p none) := by
      simp [Pad.format, PItem.format]
    refine ⟨?_, fun c => ?_, ?_⟩
    · rw [hf]
      exact unionOpr_of_split (by simp) rfl rfl hsn (by rw [hcn]; exact hc)
    · rw [hf, List.nil_append, cmtAfter_neutral c _ (by decide) (by decide), hcn]
    · simpa [cleanPad] using hcl
  | cons b bs =>
    simp only []
    -- the chosen blank is one of the recorded ones
    have hmem := foldl_pick_mem (fun (x m : Nat × Nat × Nat) =>
      decide (absDiff x.1 ((visibleBlanks (switchOperator p none)).2.1 / 2)
        < absDiff m.1 ((visibleBlanks (switchOperator p none)).2.1 / 2))) b bs
    simp only [decide_eq_true_eq] at hmem
    generalize hbest : (bs.foldl (fun (m : Nat × Nat × Nat) (x : Nat × Nat × Nat) =>
      if absDiff x.1 ((visibleBlanks (switchOperator p none)).2.1 / 2)
        < absDiff m.1 ((visibleBlanks (switchOperator p none)).2.1 / 2) then x else m) b) = best at hmem ⊢
    obtain ⟨pre, cs, post, hnodes, hlen, hsp, hvis⟩ := hvb best (by rw [hbl]; exact hmem)
    rw [hnodes] at hcl
    rw [hnodes, ← hlen, setItem_eq]
    -- the string splits at the blank
    have hj : best.2.2 < cs.length := by
      cases hh : cs[best.2.2]? with
      | none => rw [hh] at hsp; cases hsp
      | some _ => exact (List.getElem?_eq_some_iff.1 hh).1
    have hcs : cs = cs.take best.2.2 ++ .sp :: cs.drop (best.2.2 + 1) := by
      have h1 : cs[best.2.2] = .sp := by
        have := List.getElem?_eq_some_iff.1 hsp
        exact this.2
      conv => lhs; rw [← List.take_append_drop best.2.2 cs]
      rw [List.drop_eq_getElem_cons hj, h1]
    have hfold : Pad.format (switchOperator p none) =
        (Pad.format pre ++ cs.take best.2.2) ++ .sp :: (cs.drop (best.2.2 + 1) ++ Pad.format post) := by
      rw [hnodes]
      conv => lhs; rw [format_append]
      have : Pad.format (.str cs :: post) = cs ++ Pad.format post := by simp [Pad.format, PItem.format]
      rw [this]
      conv => lhs; rw [hcs]
      simp
    have hfnew : Pad.format (pre ++ .str (cs.take best.2.2 ++ [.colon] ++ cs.drop (best.2.2 + 1)) :: post) =
        (Pad.format pre ++ cs.take best.2.2) ++ .colon :: (cs.drop (best.2.2 + 1) ++ Pad.format post) := by
      rw [format_append]
      simp [Pad.format, PItem.format]
    rw [hfnew]
    rw [hfold] at hsn hnocol hcn
    have hA : ∀ x ∈ Pad.format pre ++ cs.take best.2.2, x ≠ GCh.colon :=
      fun x hx => hnocol x (List.mem_append_left _ hx)
    have hsA : isSep false (Pad.format pre ++ cs.take best.2.2) = true ∧
        isSep false (cs.drop (best.2.2 + 1) ++ Pad.format post) = true := by
      rw [isSep_append, hvis] at hsn
      simp only [Bool.and_eq_true] at hsn
      exact ⟨hsn.1, by simpa [isSep] using hsn.2⟩
    have hcB : cmtAfter false (cs.drop (best.2.2 + 1) ++ Pad.format post) = false := by
      have := hcn false
      rw [cmtAfter_append, hvis, cmtAfter_neutral false _ (by decide) (by decide), hc] at this
      exact this
    refine ⟨unionOpr_of_split hA hsA.1 hvis hsA.2 hcB, fun c => ?_, ?_⟩
    rotate_left
    · simp only [cleanPad, List.all_append, List.all_cons, Bool.and_eq_true, Bool.not_eq_true'] at hcl ⊢
      refine ⟨hcl.1, ?_, hcl.2.2⟩
      have h0 := hcl.2.1
      cases hh : (cs.take best.2.2 ++ [GCh.colon] ++ cs.drop (best.2.2 + 1)).contains .cmt with
      | false => rfl
      | true =>
        have hm : GCh.cmt ∈ cs.take best.2.2 ++ [GCh.colon] ++ cs.drop (best.2.2 + 1) := by simpa using hh
        simp only [List.mem_append, List.mem_singleton] at hm
        have : GCh.cmt ∈ cs := by
          rcases hm with (h | h) | h
          · exact List.mem_of_mem_take h
          · cases h
          · exact List.mem_of_mem_drop h
        have : cs.contains .cmt = true := by simpa using this
        rw [h0] at this; cases this
    rw [← hcn c, cmtAfter_append c (Pad.format pre ++ cs.take best.2.2) (GCh.colon :: _),
      cmtAfter_append c (Pad.format pre ++ cs.take best.2.2) (GCh.sp :: _),
      cmtAfter_neutral _ GCh.colon (by decide) (by decide), cmtAfter_neutral _ GCh.sp (by decide) (by decide)]

/-- **`_update_node` on every node turns `linked` into `ready`**; texts only get more closed, meanings stay. -/
theorem update_ready (h : HS) (hl : linked h = true) :
    ready (updateAll h) = true ∧ Le (updateAll h).fmt h.fmt ∧ Same (updateAll h) h := by
  induction h with
  | unit d s c n =>
    refine ⟨?_, Le.refl _, Same.refl _⟩
    cases c <;> cases n <;> simp_all [linked, ready, gen, updateAll]
  | compl l n ih =>
    cases n with
    | none => simp [linked, gen] at hl
    | some g =>
      by_cases hcu : isCellUnit l = true
      · cases l with
        | unit d s c vn =>
          cases c
          · simp [isCellUnit] at hcu
          · cases vn with
            | none => simp [linked, gen] at hl
            | some v =>
              have hopr : complOpr g.opr.format = true := by
                simp only [linked, gen, Bool.and_eq_true] at hl; exact hl.1.1.1.1.2
              have hu : updateAll (.compl (.unit d s true (some v)) (some g)) =
                  .compl (.unit d s true (some v)) (some g) := by
                simp [updateAll, updateNodeCompl_id g hopr]
              rw [hu]
              exact ⟨by simpa [linked, ready, gen] using hl, Le.refl _, Same.refl _⟩
        | compl _ _ => simp [isCellUnit] at hcu
        | bin _ _ _ _ => simp [isCellUnit] at hcu
      · have hcu' : isCellUnit l = false := by simpa using hcu
        simp only [linked] at hl
        rw [gen_compl_general hcu'] at hl
        simp only [Bool.and_eq_true] at hl
        obtain ⟨⟨⟨⟨⟨hll, ho⟩, hopr⟩, hhp⟩, hck⟩, hep⟩ := hl
        obtain ⟨i1, i2, i3⟩ := ih hll
        have hu : updateAll (.compl l (some g)) = .compl (updateAll l) (some g) := by
          simp [updateAll, updateNodeCompl_id g hopr]
        rw [hu]
        have hcu1 : isCellUnit (updateAll l) = false := by rw [i3.cellU]; exact hcu'
        refine ⟨?_, ?_, i3.compl_congr _ _⟩
        · simp only [ready]
          rw [gen_compl_general hcu1]
          simp only [Bool.and_eq_true]
          exact ⟨⟨⟨⟨⟨i1, ho⟩, hopr⟩, hhp⟩, chainOK_ext (ChainExt.refl _) i2 hck⟩, hep⟩
        · rw [fmt_compl ho, fmt_compl ho]
          exact Le.append (Le.refl _) (Le.append (wrapFmt_le (ChainExt.refl _) i2) (Le.refl _))
  | bin o l r n ihl ihr =>
    cases n with
    | none => simp [linked, gen] at hl
    | some g =>
      simp only [linked, gen, Bool.and_eq_true, Bool.not_eq_true', cond_false] at hl
      obtain ⟨⟨⟨⟨⟨⟨⟨⟨hll, hlr⟩, ho⟩, hckl⟩, hckr⟩, hLc⟩, hopr⟩, hop⟩, hep⟩ := hl
      obtain ⟨l1, l2, l3⟩ := ihl hll
      obtain ⟨r1, r2, r3⟩ := ihr hlr
      have hckl' := chainOK_ext (ChainExt.refl g.lchain) l2 hckl
      have hckr' := chainOK_ext (ChainExt.refl g.rchain) r2 hckr
      have hLc' := (wrapFmt_le (ChainExt.refl g.lchain) l2).closed hLc
      cases o with
      | union =>
        -- the padding after `_update_node`: unchanged, or rewritten by `__switch_operator(":")`
        have key : ∃ opr', updateNodeBin .union g = { g with opr := opr' } ∧ unionOpr (Pad.format opr') = true ∧
            (∀ c, cmtAfter c (Pad.format opr') = cmtAfter c g.opr.format) ∧ cleanPad opr' = true := by
          simp only [oprPre, Bool.or_eq_true, Bool.and_eq_true] at hopr
          obtain ⟨h4, hopr⟩ := hopr
          rcases hopr with h | h
          rotate_left
          · exact ⟨g.opr, by rw [updateNodeBin_union g h], h, fun _ => rfl, h4⟩
          · simp only [interLike, Bool.and_eq_true, Bool.not_eq_true'] at h
            obtain ⟨⟨h1, h2⟩, h3⟩ := h
            obtain ⟨s1, s2, s3⟩ := switch_colon_spec g.opr h1 h2 h4
            have hnc : ¬ GCh.colon ∈ strChars g.opr := by
              intro hm
              have : (strChars g.opr).contains .colon = true := by simpa using hm
              rw [h3] at this; cases this
            exact ⟨switchOperator g.opr (some .colon), by simp [updateNodeBin, hnc], s1, s2, s3⟩
        obtain ⟨opr', hg', hu', heq', hcl'⟩ := key
        have hu : updateAll (.bin .union l r (some g)) =
            .bin .union (updateAll l) (updateAll r) (some { g with opr := opr' }) := by
          simp [updateAll, hg']
        rw [hu]
        have ho' : orderOK { g with opr := opr' } [.left, .operator, .right] = true := ho
        refine ⟨?_, ?_, Same.bin_congr .union l3 r3 _ _⟩
        · simp only [ready, gen, Bool.and_eq_true, Bool.not_eq_true', cond_true, oprOKp]
          exact ⟨⟨⟨⟨⟨⟨⟨⟨l1, r1⟩, ho'⟩, hckl'⟩, hckr'⟩, hLc'⟩, ⟨hcl', hu'⟩⟩, trivial⟩, hep⟩
        · rw [fmt_bin ho, fmt_bin ho']
          refine Le.append (wrapFmt_le (ChainExt.refl _) l2)
            (Le.append ?_ (Le.append (wrapFmt_le (ChainExt.refl _) r2) (Le.refl _)))
          intro c hh; rw [heq' c] at hh; exact hh
      | inter =>
        simp only [oprPre, Bool.or_eq_true, Bool.and_eq_true] at hopr
        obtain ⟨hclean, hopr⟩ := hopr
        have hpre : isSep false (g.opr.format.map blankSym) = true ∧ cmtAfter false g.opr.format = false := by
          rcases hopr with h | h
          · simp only [interLike, Bool.and_eq_true, Bool.not_eq_true'] at h
            exact ⟨isSep_map_blank _ _ h.1.1, h.1.2⟩
          · obtain ⟨a, b, hab, ha, hac, hb, hbc⟩ := unionOpr_shape h
            refine ⟨?_, by rw [hab, cmtAfter_union_opr hac]; exact hbc⟩
            rw [hab, List.map_append, List.map_cons, isSep_append, isSep_map_blank _ _ ha, cmtAfter_map_blank, hac]
            simpa [blankSym, isSep] using isSep_map_blank _ _ hb
        simp only [Bool.and_eq_true, Bool.not_eq_true', Bool.or_eq_true, Bool.not_false, Bool.true_or,
          true_and] at hop
        obtain ⟨hul, hur⟩ := hop
        obtain ⟨opr', hg', hs', hc', hne', heq', hcl', hnc'⟩ := updateNodeBin_inter g hpre.1 hpre.2 hclean
        have hu : updateAll (.bin .inter l r (some g)) =
            .bin .inter (updateAll l) (updateAll r) (some { g with opr := opr' }) := by
          simp [updateAll, hg']
        rw [hu]
        have ho' : orderOK { g with opr := opr' } [.left, .operator, .right] = true := ho
        refine ⟨?_, ?_, Same.bin_congr .inter l3 r3 _ _⟩
        · simp only [ready, gen, Bool.and_eq_true, Bool.not_eq_true', Bool.or_eq_true, Bool.not_true,
            Bool.false_or, cond_true, oprOKp, interLike]
          refine ⟨⟨⟨⟨⟨⟨⟨⟨l1, r1⟩, ho'⟩, hckl'⟩, hckr'⟩, hLc'⟩, ⟨hcl', ⟨⟨hs', hc'⟩, hnc'⟩⟩⟩, ⟨⟨?_, ?_⟩, ?_⟩⟩, hep⟩
          · rcases hne' with h | h | h
            · left; left; left; simpa using h
            · left; left; right; exact h
            · left; right; exact h
          · rw [l3.isU]; exact hul
          · rw [r3.isU]; exact hur
        · rw [fmt_bin ho, fmt_bin ho']
          refine Le.append (wrapFmt_le (ChainExt.refl _) l2)
            (Le.append ?_ (Le.append (wrapFmt_le (ChainExt.refl _) r2) (Le.refl _)))
          intro c hh; rw [heq' c] at hh; exact hh

end MontePyVerif.C02
