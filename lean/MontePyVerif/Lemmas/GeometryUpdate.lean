import MontePyVerif.Lemmas.GeometryEnsure
/-! `_update_node` on every node turns `linked` into `ready`; together with `ensure_linked`:
    `_update_values` establishes `ready` from every well-formed tree. -/
namespace MontePyVerif.C02
open MontePyVerif.Spec.Geometry MontePyVerif.Geometry

theorem mem_strChars_of_mem_format {p : Pad} {x : GCh} (h : x ∈ p.format) (hx : x ≠ .cmt) : x ∈ strChars p := by
  induction p with
  | nil => simp [Pad.format] at h
  | cons it p ih =>
    cases it with
    | str cs =>
      simp only [Pad.format, List.flatMap_cons, PItem.format, List.mem_append] at h
      simp only [strChars, List.flatMap_cons, List.mem_append]
      rcases h with h | h
      · exact Or.inl h
      · exact Or.inr (ih h)
    | cmt n =>
      simp only [Pad.format, List.flatMap_cons, PItem.format, List.mem_append, List.mem_singleton] at h
      simp only [strChars, List.flatMap_cons, List.nil_append]
      rcases h with h | h
      · exact absurd h hx
      · exact ih h

theorem mem_format_of_mem_strChars {p : Pad} {x : GCh} (h : x ∈ strChars p) : x ∈ p.format := by
  induction p with
  | nil => simp [strChars] at h
  | cons it p ih =>
    cases it with
    | str cs =>
      simp only [strChars, List.flatMap_cons, List.mem_append] at h
      simp only [Pad.format, List.flatMap_cons, PItem.format, List.mem_append]
      rcases h with h | h
      · exact Or.inl h
      · exact Or.inr (ih h)
    | cmt n =>
      simp only [strChars, List.flatMap_cons, List.nil_append] at h
      simp only [Pad.format, List.flatMap_cons, PItem.format, List.mem_append]
      exact Or.inr (ih h)

theorem format_switch_none (p : Pad) : Pad.format (switchOperator p none) = p.format.map blankSym := by
  simp only [switchOperator]
  induction p with
  | nil => rfl
  | cons it p ih =>
    cases it with
    | str cs => simp only [Pad.format, List.map_cons, List.flatMap_cons, PItem.format, List.map_append] at ih ⊢; rw [ih]
    | cmt n =>
      simp only [Pad.format, List.map_cons, List.flatMap_cons, PItem.format, List.map_append] at ih ⊢
      rw [ih]; rfl

theorem strChars_switch_none (p : Pad) : strChars (switchOperator p none) = (strChars p).map blankSym := by
  simp only [switchOperator]
  induction p with
  | nil => rfl
  | cons it p ih =>
    cases it with
    | str cs => simp only [strChars, List.map_cons, List.flatMap_cons, List.map_append] at ih ⊢; rw [ih]
    | cmt n => simp only [strChars, List.map_cons, List.flatMap_cons, List.map_append] at ih ⊢; rw [ih]; rfl

theorem blankSym_cmt (x : GCh) : (blankSym x == GCh.cmt) = (x == GCh.cmt) := by cases x <;> rfl
theorem blankSym_nl (x : GCh) : (blankSym x != GCh.nl) = (x != GCh.nl) := by cases x <;> rfl

theorem cmtAfter_map_blank (c : Bool) (S : List GCh) : cmtAfter c (S.map blankSym) = cmtAfter c S := by
  induction S generalizing c with
  | nil => rfl
  | cons x xs ih => cases c <;> simp [cmtAfter, blankSym_cmt, blankSym_nl, ih]

theorem isSep_map_blank (c : Bool) (S : List GCh) (h : isSep c S = true) : isSep c (S.map blankSym) = true := by
  induction S generalizing c with
  | nil => rfl
  | cons x xs ih =>
    cases c
    · cases x <;> simp [isSep, blankSym] at h ⊢ <;> exact ih _ h
    · simp only [isSep, List.map_cons, blankSym_nl] at h ⊢; exact ih _ h

theorem cmtAfter_sp_cons (c : Bool) (X : List GCh) : cmtAfter c (.sp :: X) = cmtAfter c X := by
  cases c <;> rfl

/-- `_update_node` of an intersection whose padding holds separators -/
theorem blankSym_ne_colon (x : GCh) : blankSym x ≠ .colon := by cases x <;> simp [blankSym]

theorem cleanPad_switch_none (p : Pad) (h : cleanPad p = true) : cleanPad (switchOperator p none) = true := by
  simp only [switchOperator]
  induction p with
  | nil => rfl
  | cons it p ih =>
    simp only [cleanPad, List.all_cons, Bool.and_eq_true, List.map_cons] at h ⊢
    refine ⟨?_, ih h.2⟩
    cases it with
    | cmt n => rfl
    | str cs =>
      have h1 : cs.contains .cmt = false := by simpa using h.1
      simp only [Bool.not_eq_true']
      cases hh : (cs.map blankSym).contains .cmt with
      | false => rfl
      | true =>
        have : GCh.cmt ∈ cs.map blankSym := by simpa using hh
        obtain ⟨x, hx, hxe⟩ := List.mem_map.1 this
        have : x = .cmt := by cases x <;> simp [blankSym] at hxe <;> rfl
        subst this
        have : cs.contains .cmt = true := by simpa using hx
        rw [h1] at this; cases this

theorem map_blank_of_no_sym (p : Pad)
    (h : ((strChars p).contains .colon || (strChars p).contains .hash) = false) : p.format.map blankSym = p.format := by
  simp only [Bool.or_eq_false_iff] at h
  have : ∀ x ∈ p.format, blankSym x = x := by
    intro x hx
    cases x <;> try rfl
    · have := mem_strChars_of_mem_format hx (by decide)
      have : (strChars p).contains .hash = true := by simpa using this
      rw [h.2] at this; cases this
    · have := mem_strChars_of_mem_format hx (by decide)
      have : (strChars p).contains .colon = true := by simpa using this
      rw [h.1] at this; cases this
  calc p.format.map blankSym = p.format.map id := List.map_congr_left this
    _ = p.format := List.map_id _

theorem updateNodeBin_inter (g : GN) (hs : isSep false (g.opr.format.map blankSym) = true)
    (hc : cmtAfter false g.opr.format = false) (hclean : cleanPad g.opr = true) :
    ∃ opr', updateNodeBin .inter g = { g with opr := opr' } ∧ isSep false (Pad.format opr') = true ∧
      cmtAfter false (Pad.format opr') = false ∧
      ((Pad.format opr').isEmpty = false ∨ headParens g.lchain = true ∨ headParens g.rchain = true) ∧
      (∀ c, cmtAfter c (Pad.format opr') = cmtAfter c g.opr.format) ∧
      cleanPad opr' = true ∧ (strChars opr').contains .colon = false := by
  -- the padding after a possible `__switch_operator(" ")`
  let sw : Bool := (strChars g.opr).contains .colon || (strChars g.opr).contains .hash
  let opr1 : Pad := if sw then switchOperator g.opr none else g.opr
  have h1s : isSep false opr1.format = true := by
    simp only [opr1]; split
    · rw [format_switch_none]; exact hs
    · rename_i hsw
      have hsw' : sw = false := by simpa using hsw
      rw [← map_blank_of_no_sym g.opr hsw']; exact hs
  have h1c : ∀ c, cmtAfter c opr1.format = cmtAfter c g.opr.format := by
    intro c; simp only [opr1]; split
    · rw [format_switch_none, cmtAfter_map_blank]
    · rfl
  have h1clean : cleanPad opr1 = true := by
    simp only [opr1]; split
    · exact cleanPad_switch_none g.opr hclean
    · exact hclean
  have h1col : (strChars opr1).contains .colon = false := by
    simp only [opr1]; split
    · rw [strChars_switch_none]
      cases hh : ((strChars g.opr).map blankSym).contains .colon with
      | false => rfl
      | true =>
        have : GCh.colon ∈ (strChars g.opr).map blankSym := by simpa using hh
        obtain ⟨y, _, hy⟩ := List.mem_map.1 this
        exact absurd hy (blankSym_ne_colon y)
    · rename_i hsw
      have hsw' : sw = false := by simpa using hsw
      simp only [sw, Bool.or_eq_false_iff] at hsw'
      exact hsw'.1
  have hout : (if sw then (strChars g.opr).map blankSym else strChars g.opr) = strChars opr1 := by
    simp only [opr1]; split
    · rw [strChars_switch_none]
    · rfl
  have hunf : updateNodeBin .inter g =
      (if (!((if sw then (strChars g.opr).map blankSym else strChars g.opr).any isSpaceCh ||
            hasParens g.lchain || hasParens g.rchain)) = true
        then { g with opr := .str [.sp] :: opr1 } else { g with opr := opr1 }) := rfl
  rw [hunf, hout]
  by_cases hcond : (!((strChars opr1).any isSpaceCh || hasParens g.lchain || hasParens g.rchain)) = true
  · refine ⟨.str [.sp] :: opr1, ?_, ?_, ?_, Or.inl ?_, fun c => ?_, ?_, ?_⟩
    · rw [if_pos hcond]
    · simpa [Pad.format, PItem.format, isSep] using h1s
    · have : Pad.format (.str [.sp] :: opr1) = .sp :: opr1.format := by simp [Pad.format, PItem.format]
      rw [this, cmtAfter_sp_cons, h1c]; exact hc
    · simp [Pad.format, PItem.format]
    · have : Pad.format (.str [.sp] :: opr1) = .sp :: opr1.format := by simp [Pad.format, PItem.format]
      rw [this, cmtAfter_sp_cons, h1c]
    · simpa [cleanPad] using h1clean
    · simpa [strChars] using h1col
  · refine ⟨opr1, ?_, h1s, by rw [h1c]; exact hc, ?_, h1c, h1clean, h1col⟩
    · rw [if_neg hcond]
    · have hcond' : ((strChars opr1).any isSpaceCh || hasParens g.lchain || hasParens g.rchain) = true := by
        cases hb : ((strChars opr1).any isSpaceCh || hasParens g.lchain || hasParens g.rchain) with
        | true => rfl
        | false => rw [hb] at hcond; exact absurd rfl hcond
      simp only [Bool.or_eq_true] at hcond'
      rcases hcond' with (h | h) | h
      · left
        obtain ⟨x, hx, _⟩ := List.any_eq_true.1 h
        have := mem_format_of_mem_strChars hx
        cases hf : opr1.format with
        | nil => rw [hf] at this; cases this
        | cons _ _ => rfl
      · right; left; rw [headParens_eq_hasParens]; exact h
      · right; right; rw [headParens_eq_hasParens]; exact h

theorem updateNodeBin_union (g : GN) (h : unionOpr g.opr.format = true) : updateNodeBin .union g = g := by
  obtain ⟨a, b, hab, _⟩ := unionOpr_shape h
  have hm : GCh.colon ∈ g.opr.format := by rw [hab]; simp
  have := mem_strChars_of_mem_format hm (by decide)
  simp [updateNodeBin, this]

theorem updateNodeCompl_id (g : GN) (h : complOpr g.opr.format = true) : updateNodeCompl g = g := by
  obtain ⟨S, hS, _⟩ := complOpr_shape h
  have hm : GCh.hash ∈ g.opr.format := by rw [hS]; simp
  have := mem_strChars_of_mem_format hm (by decide)
  simp [updateNodeCompl, this]

end MontePyVerif.C02
