import MontePyVerif.Lemmas.GeometryEnsure
/-! `_update_node` on every node turns `linked` into `ready`; together with `ensure_linked`:
    `_update_values` establishes `ready` from every well-formed tree. -/
namespace MontePyVerif.C02
open MontePyVerif.Spec.Geometry MontePyVerif.Geometry

theorem mem_strChars_of_mem_format {p : Pad} {x : GCh} (h : x ∈ p.format) (hx : x ≠ .cmt) : x ∈ strChars p := by
  induction p with
  | nil => simp [Pad.format] at h
  | cons it p ih =>
    cases it with
    | str cs =>
      simp only [Pad.format, List.flatMap_cons, PItem.format, List.mem_append] at h
      simp only [strChars, List.flatMap_cons, List.mem_append]
      rcases h with h | h
      · exact Or.inl h
      · exact Or.inr (ih h)
    | cmt n =>
      simp only [Pad.format, List.flatMap_cons, PItem.format, List.mem_append, List.mem_singleton] at h
      simp only [strChars, List.flatMap_cons, List.nil_append]
      rcases h with h | h
      · exact absurd h hx
      · exact ih h

theorem mem_format_of_mem_strChars {p : Pad} {x : GCh} (h : x ∈ strChars p) : x ∈ p.format := by
  induction p with
  | nil => simp [strChars] at h
  | cons it p ih =>
    cases it with
    | str cs =>
      simp only [strChars, List.flatMap_cons, List.mem_append] at h
      simp only [Pad.format, List.flatMap_cons, PItem.format, List.mem_append]
      rcases h with h | h
      · exact Or.inl h
      · exact Or.inr (ih h)
    | cmt n =>
      simp only [strChars, List.flatMap_cons, List.nil_append] at h
      simp only [Pad.format, List.flatMap_cons, PItem.format, List.mem_append]
      exact Or.inr (ih h)

theorem format_switch_none (p : Pad) : Pad.format (switchOperator p none) = p.format.map blankSym := by
  simp only [switchOperator]
  induction p with
  | nil => rfl
  | cons it p ih =>
    cases it with
    | str cs => simp only [Pad.format, List.map_cons, List.flatMap_cons, PItem.format, List.map_append] at ih ⊢; rw [ih]
    | cmt n =>
      simp only [Pad.format, List.map_cons, List.flatMap_cons, PItem.format, List.map_append] at ih ⊢
      rw [ih]; rfl

theorem strChars_switch_none (p : Pad) : strChars (switchOperator p none) = (strChars p).map blankSym := by
  simp only [switchOperator]
  induction p with
  | nil => rfl
  | cons it p ih =>
    cases it with
    | str cs => simp only [strChars, List.map_cons, List.flatMap_cons, List.map_append] at ih ⊢; rw [ih]
    | cmt n => simp only [strChars, List.map_cons, List.flatMap_cons, List.map_append] at ih ⊢; rw [ih]; rfl

theorem blankSym_cmt (x : GCh) : (blankSym x == GCh.cmt) = (x == GCh.cmt) := by cases x <;> rfl
theorem blankSym_nl (x : GCh) : (blankSym x != GCh.nl) = (x != GCh.nl) := by cases x <;> rfl

theorem cmtAfter_map_blank (c : Bool) (S : List GCh) : cmtAfter c (S.map blankSym) = cmtAfter c S := by
  induction S generalizing c with
  | nil => rfl
  | cons x xs ih => cases c <;> simp [cmtAfter, blankSym_cmt, blankSym_nl, ih]

theorem isSep_map_blank (c : Bool) (S : List GCh) (h : isSep c S = true) : isSep c (S.map blankSym) = true := by
  induction S generalizing c with
  | nil => rfl
  | cons x xs ih =>
    cases c
    · cases x <;> simp [isSep, blankSym] at h ⊢ <;> exact ih _ h
    · simp only [isSep, List.map_cons, blankSym_nl] at h ⊢; exact ih _ h

theorem cmtAfter_sp_cons (c : Bool) (X : List GCh) : cmtAfter c (.sp :: X) = cmtAfter c X := by
  cases c <;> rfl

/-- `_update_node` of an intersection whose padding holds separators -/
theorem updateNodeBin_inter (g : GN) (hs : isSep false g.opr.format = true) (hc : cmtAfter false g.opr.format = false) :
    ∃ opr', updateNodeBin .inter g = { g with opr := opr' } ∧ isSep false (Pad.format opr') = true ∧
      cmtAfter false (Pad.format opr') = false ∧
      ((Pad.format opr').isEmpty = false ∨ headParens g.lchain = true ∨ headParens g.rchain = true) ∧
      ∀ c, cmtAfter c (Pad.format opr') = cmtAfter c g.opr.format := by
  -- the padding after a possible `__switch_operator(" ")`
  let sw : Bool := (strChars g.opr).contains .colon || (strChars g.opr).contains .hash
  let opr1 : Pad := if sw then switchOperator g.opr none else g.opr
  have h1s : isSep false opr1.format = true := by
    simp only [opr1]; split
    · rw [format_switch_none]; exact isSep_map_blank _ _ hs
    · exact hs
  have h1c : ∀ c, cmtAfter c opr1.format = cmtAfter c g.opr.format := by
    intro c; simp only [opr1]; split
    · rw [format_switch_none, cmtAfter_map_blank]
    · rfl
  have hout : (if sw then (strChars g.opr).map blankSym else strChars g.opr) = strChars opr1 := by
    simp only [opr1]; split
    · rw [strChars_switch_none]
    · rfl
  have hunf : updateNodeBin .inter g =
      (if (!((if sw then (strChars g.opr).map blankSym else strChars g.opr).any isSpaceCh ||
            hasParens g.lchain || hasParens g.rchain)) = true
        then { g with opr := .str [.sp] :: opr1 } else { g with opr := opr1 }) := rfl
  rw [hunf, hout]
  by_cases hcond : (!((strChars opr1).any isSpaceCh || hasParens g.lchain || hasParens g.rchain)) = true
  · refine ⟨.str [.sp] :: opr1, ?_, ?_, ?_, Or.inl ?_, fun c => ?_⟩
    · rw [if_pos hcond]
    · simpa [Pad.format, PItem.format, isSep] using h1s
    · have : Pad.format (.str [.sp] :: opr1) = .sp :: opr1.format := by simp [Pad.format, PItem.format]
      rw [this, cmtAfter_sp_cons, h1c]; exact hc
    · simp [Pad.format, PItem.format]
    · have : Pad.format (.str [.sp] :: opr1) = .sp :: opr1.format := by simp [Pad.format, PItem.format]
      rw [this, cmtAfter_sp_cons, h1c]
  · refine ⟨opr1, ?_, h1s, by rw [h1c]; exact hc, ?_, h1c⟩
    · rw [if_neg hcond]
    · have hcond' : ((strChars opr1).any isSpaceCh || hasParens g.lchain || hasParens g.rchain) = true := by
        cases hb : ((strChars opr1).any isSpaceCh || hasParens g.lchain || hasParens g.rchain) with
        | true => rfl
        | false => rw [hb] at hcond; exact absurd rfl hcond
      simp only [Bool.or_eq_true] at hcond'
      rcases hcond' with (h | h) | h
      · left
        obtain ⟨x, hx, _⟩ := List.any_eq_true.1 h
        have := mem_format_of_mem_strChars hx
        cases hf : opr1.format with
        | nil => rw [hf] at this; cases this
        | cons _ _ => rfl
      · right; left; rw [headParens_eq_hasParens]; exact h
      · right; right; rw [headParens_eq_hasParens]; exact h

theorem updateNodeBin_union (g : GN) (h : unionOpr g.opr.format = true) : updateNodeBin .union g = g := by
  obtain ⟨a, b, hab, _⟩ := unionOpr_shape h
  have hm : GCh.colon ∈ g.opr.format := by rw [hab]; simp
  have := mem_strChars_of_mem_format hm (by decide)
  simp [updateNodeBin, this]

theorem updateNodeCompl_id (g : GN) (h : complOpr g.opr.format = true) : updateNodeCompl g = g := by
  obtain ⟨S, hS, _⟩ := complOpr_shape h
  have hm : GCh.hash ∈ g.opr.format := by rw [hS]; simp
  have := mem_strChars_of_mem_format hm (by decide)
  simp [updateNodeCompl, this]

/-- **`_update_node` on every node turns `linked` into `ready`**; texts only get more closed, meanings stay. -/
theorem update_ready (h : HS) (hl : linked h = true) :
    ready (updateAll h) = true ∧ Le (updateAll h).fmt h.fmt ∧ Same (updateAll h) h := by
  induction h with
  | unit d s c n =>
    refine ⟨?_, Le.refl _, Same.refl _⟩
    cases c <;> cases n <;> simp_all [linked, ready, gen, updateAll]
  | compl l n ih =>
    cases n with
    | none => simp [linked, gen] at hl
    | some g =>
      by_cases hcu : isCellUnit l = true
      · cases l with
        | unit d s c vn =>
          cases c
          · simp [isCellUnit] at hcu
          · cases vn with
            | none => simp [linked, gen] at hl
            | some v =>
              have hopr : complOpr g.opr.format = true := by
                simp only [linked, gen, Bool.and_eq_true] at hl; exact hl.1.1.1.1.2
              have hu : updateAll (.compl (.unit d s true (some v)) (some g)) =
                  .compl (.unit d s true (some v)) (some g) := by
                simp [updateAll, updateNodeCompl_id g hopr]
              rw [hu]
              exact ⟨by simpa [linked, ready, gen] using hl, Le.refl _, Same.refl _⟩
        | compl _ _ => simp [isCellUnit] at hcu
        | bin _ _ _ _ => simp [isCellUnit] at hcu
      · have hcu' : isCellUnit l = false := by simpa using hcu
        simp only [linked] at hl
        rw [gen_compl_general hcu'] at hl
        simp only [Bool.and_eq_true] at hl
        obtain ⟨⟨⟨⟨⟨hll, ho⟩, hopr⟩, hhp⟩, hck⟩, hep⟩ := hl
        obtain ⟨i1, i2, i3⟩ := ih hll
        have hu : updateAll (.compl l (some g)) = .compl (updateAll l) (some g) := by
          simp [updateAll, updateNodeCompl_id g hopr]
        rw [hu]
        have hcu1 : isCellUnit (updateAll l) = false := by rw [i3.cellU]; exact hcu'
        refine ⟨?_, ?_, i3.compl_congr _ _⟩
        · simp only [ready]
          rw [gen_compl_general hcu1]
          simp only [Bool.and_eq_true]
          exact ⟨⟨⟨⟨⟨i1, ho⟩, hopr⟩, hhp⟩, chainOK_ext (ChainExt.refl _) i2 hck⟩, hep⟩
        · rw [fmt_compl ho, fmt_compl ho]
          exact Le.append (Le.refl _) (Le.append (wrapFmt_le (ChainExt.refl _) i2) (Le.refl _))
  | bin o l r n ihl ihr =>
    cases n with
    | none => simp [linked, gen] at hl
    | some g =>
      simp only [linked, gen, Bool.and_eq_true, Bool.not_eq_true'] at hl
      obtain ⟨⟨⟨⟨⟨⟨⟨hll, hlr⟩, ho⟩, hckl⟩, hckr⟩, hLc⟩, hop⟩, hep⟩ := hl
      obtain ⟨l1, l2, l3⟩ := ihl hll
      obtain ⟨r1, r2, r3⟩ := ihr hlr
      have hckl' := chainOK_ext (ChainExt.refl g.lchain) l2 hckl
      have hckr' := chainOK_ext (ChainExt.refl g.rchain) r2 hckr
      have hLc' := (wrapFmt_le (ChainExt.refl g.lchain) l2).closed hLc
      cases o with
      | union =>
        have hu : updateAll (.bin .union l r (some g)) = .bin .union (updateAll l) (updateAll r) (some g) := by
          simp [updateAll, updateNodeBin_union g hop]
        rw [hu]
        refine ⟨?_, ?_, Same.bin_congr .union l3 r3 _ _⟩
        · simp only [ready, gen, Bool.and_eq_true, Bool.not_eq_true']
          exact ⟨⟨⟨⟨⟨⟨⟨l1, r1⟩, ho⟩, hckl'⟩, hckr'⟩, hLc'⟩, hop⟩, hep⟩
        · rw [fmt_bin ho, fmt_bin ho]
          exact Le.append (wrapFmt_le (ChainExt.refl _) l2)
            (Le.append (Le.refl _) (Le.append (wrapFmt_le (ChainExt.refl _) r2) (Le.refl _)))
      | inter =>
        simp only [Bool.and_eq_true, Bool.not_eq_true', Bool.or_eq_true, Bool.not_false, Bool.true_or,
          and_true] at hop
        obtain ⟨⟨⟨hsep, hoc⟩, hul⟩, hur⟩ := hop
        obtain ⟨opr', hg', hs', hc', hne', heq'⟩ := updateNodeBin_inter g hsep hoc
        have hu : updateAll (.bin .inter l r (some g)) =
            .bin .inter (updateAll l) (updateAll r) (some { g with opr := opr' }) := by
          simp [updateAll, hg']
        rw [hu]
        have ho' : orderOK { g with opr := opr' } [.left, .operator, .right] = true := ho
        refine ⟨?_, ?_, Same.bin_congr .inter l3 r3 _ _⟩
        · simp only [ready, gen, Bool.and_eq_true, Bool.not_eq_true', Bool.or_eq_true, Bool.not_true,
            Bool.false_or]
          refine ⟨⟨⟨⟨⟨⟨⟨l1, r1⟩, ho'⟩, hckl'⟩, hckr'⟩, hLc'⟩, ⟨⟨⟨⟨hs', hc'⟩, ?_⟩, ?_⟩, ?_⟩⟩, hep⟩
          · rcases hne' with h | h | h
            · left; left; left; simpa using h
            · left; left; right; exact h
            · left; right; exact h
          · rw [l3.isU]; exact hul
          · rw [r3.isU]; exact hur
        · rw [fmt_bin ho, fmt_bin ho']
          refine Le.append (wrapFmt_le (ChainExt.refl _) l2)
            (Le.append ?_ (Le.append (wrapFmt_le (ChainExt.refl _) r2) (Le.refl _)))
          intro c hh; rw [heq' c] at hh; exact hh

end MontePyVerif.C02
