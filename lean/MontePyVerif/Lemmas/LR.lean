import MontePyVerif.Model.LR
/-! # Lemmas.LR — accepted by the LR machine ⇒ derivable in the grammar of the tables, for ANY well-formed tables

`Yield P γ w`: the sentential form `γ` derives the word `w` with the productions `P` (a symbol may also stand for
itself, which is how terminals enter).  `checkTables t h` is a boolean well-formedness test of the tables `t`
against a *hint* `h` (for every state: its accessing symbol and the states with a transition into it); the hint is
not trusted, the test validates what the proof needs of it:

* every shift `action[s'][x] = s` and every `goto[s'][x] = s` has `s ≠ 0`, `acc s = x`, `s' ∈ pred s`; a shift is on a
  terminal other than `$end`; the start symbol is not a terminal;
* every `reduce p` in the row of a state `s`: walking back from `s` through `pred` along ALL paths, the accessing
  symbols spell the right-hand side of `p` (so the `|rhs p|` popped states carry exactly `rhs p`);
* every `accept` is on `$end`, in a state whose accessing symbol is the start symbol and whose only predecessor is state 0.

Nothing is assumed about how the tables were built (LALR, conflict resolution …).
-/
namespace MontePyVerif.LR

abbrev Prods := List (Nat × List Nat)

/-- `γ ⇒* w` -/
inductive Yield (P : Prods) : List Nat → List Nat → Prop
  | nil : Yield P [] []
  | tok {s : Nat} {ss ws : List Nat} : Yield P ss ws → Yield P (s :: ss) (s :: ws)
  | nt {s : Nat} {rhs w ss ws : List Nat} : (s, rhs) ∈ P → Yield P rhs w → Yield P ss ws → Yield P (s :: ss) (w ++ ws)

variable {P : Prods}

theorem Yield.cast {γ w w' : List Nat} (h : Yield P γ w) (e : w = w') : Yield P γ w' := e ▸ h

theorem Yield.append {a b w1 w2 : List Nat} (h1 : Yield P a w1) (h2 : Yield P b w2) : Yield P (a ++ b) (w1 ++ w2) := by
  induction h1 with
  | nil => simpa using h2
  | tok _ ih => exact Yield.tok ih
  | nt hm hr _ _ ih => exact (Yield.nt hm hr ih).cast (List.append_assoc _ _ _).symm

theorem Yield.split : ∀ (a : List Nat) {b w : List Nat}, Yield P (a ++ b) w →
    ∃ w1 w2, w = w1 ++ w2 ∧ Yield P a w1 ∧ Yield P b w2
  | [], _, w, h => ⟨[], w, rfl, .nil, h⟩
  | x :: a, b, w, h => by
    cases h with
    | tok h' =>
      obtain ⟨w1, w2, e, h1, h2⟩ := Yield.split a h'
      exact ⟨x :: w1, w2, by simp [e], .tok h1, h2⟩
    | nt hm hr h' =>
      obtain ⟨w1, w2, e, h1, h2⟩ := Yield.split a h'
      exact ⟨_ ++ w1, w2, by simp [e], .nt hm hr h1, h2⟩

/-- a word of terminals only derives itself -/
theorem Yield.refl : ∀ w : List Nat, Yield P w w
  | [] => .nil
  | _ :: w => .tok (Yield.refl w)

/-! ## the hint and the table test -/

/-- per state: accessing symbol, predecessor states -/
structure Hints where
  acc : List Nat
  pred : List (List Nat)

def Hints.accOf (h : Hints) (s : Nat) : Nat := h.acc.getD s 0
def Hints.predOf (h : Hints) (s : Nat) : List Nat := h.pred.getD s []

/-- from state `s`, every backward path through `pred` spells `xs` (top symbol first) and is long enough -/
def backOK (h : Hints) : Nat → List Nat → Bool
  | _, [] => true
  | s, x :: xs => s != 0 && h.accOf s == x && (h.predOf s).all (fun s' => backOK h s' xs)

/-- a transition `s' —x→ s` agrees with the hint -/
def edgeOK (h : Hints) (s' x s : Nat) : Bool := s != 0 && h.accOf s == x && (h.predOf s).contains s'

def reduceOK (t : Tables) (h : Hints) (s p : Nat) : Bool :=
  match t.prods[p]? with
  | none => false
  | some (_, rhs) => backOK h s rhs.reverse

def acceptOK (t : Tables) (h : Hints) (s : Nat) : Bool :=
  s != 0 && h.accOf s == t.start && (h.predOf s).all (· == 0)

def dedup : List Int → List Int
  | [] => []
  | a :: l => if a ∈ l then dedup l else a :: dedup l

theorem mem_dedup {a : Int} : ∀ {l : List Int}, a ∈ l → a ∈ dedup l
  | [], h => by simp at h
  | b :: l, h => by
    unfold dedup
    by_cases hb : b ∈ l
    · simp only [hb, if_true]
      rcases List.mem_cons.1 h with e | h'
      · exact mem_dedup (e ▸ hb)
      · exact mem_dedup h'
    · simp only [hb, if_false]
      rcases List.mem_cons.1 h with e | h'
      · exact e ▸ List.mem_cons_self
      · exact List.mem_cons_of_mem _ (mem_dedup h')

/-- the row of state `s` of the action table -/
def rowOK (t : Tables) (h : Hints) (s : Nat) (row : List (Nat × Int)) : Bool :=
  row.all (fun c => if 0 < c.2 then c.1 != 0 && decide (c.1 < t.nTerm) && edgeOK h s c.1 c.2.toNat
                    else if c.2 = 0 then c.1 == 0 && acceptOK t h s else true) &&
  (dedup (row.map (·.2))).all (fun a => if a < 0 then reduceOK t h s (-a).toNat else true)

def gotoRowOK (h : Hints) (s : Nat) (row : List (Nat × Nat)) : Bool :=
  row.all (fun c => edgeOK h s c.1 c.2)

def checkFrom {α : Type} (f : Nat → α → Bool) : Nat → List α → Bool
  | _, [] => true
  | i, r :: rs => f i r && checkFrom f (i + 1) rs

theorem checkFrom_get {α : Type} {f : Nat → α → Bool} : ∀ {l : List α} {i j : Nat} {r : α},
    checkFrom f i l = true → l[j]? = some r → f (i + j) r = true
  | [], _, _, _, _, h => by simp at h
  | x :: l, i, 0, r, hc, h => by
    simp at h; subst h
    simp [checkFrom] at hc; simpa using hc.1
  | x :: l, i, j + 1, r, hc, h => by
    simp [checkFrom] at hc
    have := checkFrom_get (i := i + 1) (j := j) hc.2 (by simpa using h)
    simpa [Nat.add_assoc, Nat.add_comm 1 j] using this

/-- the decidable well-formedness test -/
def checkTables (t : Tables) (h : Hints) : Bool :=
  decide (t.nTerm ≤ t.start) && t.prods.toList.all (fun p => decide (t.nTerm ≤ p.1)) && checkFrom (rowOK t h) 0 t.action.toList && checkFrom (gotoRowOK h) 0 t.goto.toList

/-- the grammar of the tables: `Grammar.Productions` without the augmented production 0 (`S' → start`), which no
    reduce action refers to (a reduce is `t < 0`, production `-t ≥ 1`) -/
def Tables.grammar (t : Tables) : Prods := t.prods.toList.drop 1

/-- `TablesOK t`: some hint passes the test (decidable once the hint is given: `Gen/LrTables.lean` carries one) -/
def TablesOK (t : Tables) : Prop := ∃ h : Hints, checkTables t h = true

/-! ## what the test gives for a cell the machine reads -/

theorem row_get {t : Tables} {s : Nat} {c : Nat × Int} (hc : c ∈ row t s) : t.action.toList[s]? = some (row t s) := by
  unfold row at hc ⊢
  rw [Array.getD_eq_getD_getElem?] at hc ⊢
  rw [Array.getElem?_toList]
  cases hg : t.action[s]? with
  | none => rw [hg] at hc; simp at hc
  | some r => simp

theorem goto_get {t : Tables} {s : Nat} {c : Nat × Nat} (hc : c ∈ t.goto.getD s []) :
    t.goto.toList[s]? = some (t.goto.getD s []) := by
  rw [Array.getD_eq_getD_getElem?] at hc ⊢
  rw [Array.getElem?_toList]
  cases hg : t.goto[s]? with
  | none => rw [hg] at hc; simp at hc
  | some r => simp

/-- the cell behind an action: `actionOf` answers from a cell of the row; a defaulted answer is a reduce -/
theorem actionOf_cell {t : Tables} {s la : Nat} {a : Int} (h : actionOf t s la = some a) :
    ∃ tok, (tok, a) ∈ row t s ∧ (0 ≤ a → tok = la) := by
  unfold actionOf at h
  split at h
  · next a' hd =>
    cases h
    unfold defaulted at hd
    split at hd
    · next tok a'' hr =>
      split at hd
      · next hneg => cases hd; exact ⟨tok, by rw [hr]; exact List.mem_cons_self, fun h0 => absurd h0 (by omega)⟩
      · cases hd
    · cases hd
  · exact ⟨la, assoc_mem h, fun _ => rfl⟩

section checked
variable {t : Tables} {h : Hints} (hc : checkTables t h = true)
include hc

theorem rowOK_of_mem {s : Nat} {c : Nat × Int} (hm : c ∈ row t s) : rowOK t h s (row t s) = true := by
  simp only [checkTables, Bool.and_eq_true] at hc
  simpa using checkFrom_get hc.1.2 (row_get hm)

theorem shift_cell {s tok : Nat} {a : Int} (hm : (tok, a) ∈ row t s) (ha : 0 < a) :
    (tok ≠ 0 ∧ tok < t.nTerm) ∧ edgeOK h s tok a.toNat = true := by
  have := rowOK_of_mem hc hm
  simp only [rowOK, Bool.and_eq_true, List.all_eq_true] at this
  have := this.1 _ hm
  simpa [ha] using this

theorem accept_cell {s tok : Nat} (hm : (tok, (0 : Int)) ∈ row t s) : tok = 0 ∧ acceptOK t h s = true := by
  have := rowOK_of_mem hc hm
  simp only [rowOK, Bool.and_eq_true, List.all_eq_true] at this
  have := this.1 _ hm
  simpa using this

theorem reduce_cell {s tok : Nat} {a : Int} (hm : (tok, a) ∈ row t s) (ha : a < 0) :
    reduceOK t h s (-a).toNat = true := by
  have := rowOK_of_mem hc hm
  simp only [rowOK, Bool.and_eq_true, List.all_eq_true] at this
  have hmem : a ∈ dedup ((row t s).map (·.2)) := mem_dedup (List.mem_map.2 ⟨_, hm, rfl⟩)
  have := this.2 _ hmem
  simpa [ha] using this

theorem goto_cell {s x g : Nat} (hg : assoc x (t.goto.getD s []) = some g) : edgeOK h s x g = true := by
  have hm := assoc_mem hg
  simp only [checkTables, Bool.and_eq_true] at hc
  have := checkFrom_get hc.2 (goto_get hm)
  simp only [gotoRowOK, List.all_eq_true, Nat.zero_add] at this
  exact this _ hm

end checked

/-! ## inversion of `step` -/

theorem step_shift_inv {t : Tables} {c c' : Config} (hs : step t c = .shift c') :
    ∃ s rest a, c.stack = s :: rest ∧ actionOf t s (lookahead c.input) = some a ∧ 0 < a ∧
      c' = ⟨a.toNat :: c.stack, c.input.tail⟩ := by
  unfold step at hs
  split at hs
  · cases hs
  · next s rest hst =>
    split at hs
    · cases hs
    · next a ha =>
      split at hs
      · next hpos => cases hs; exact ⟨s, rest, a, hst, ha, hpos, rfl⟩
      · split at hs
        · split at hs
          · cases hs
          · split at hs
            · cases hs
            · split at hs <;> cases hs
        · cases hs

theorem step_reduce_inv {t : Tables} {c c' : Config} {p : Nat} (hs : step t c = .reduce p c') :
    ∃ s rest a lhs rhs s' below g, c.stack = s :: rest ∧ actionOf t s (lookahead c.input) = some a ∧ a < 0 ∧
      p = (-a).toNat ∧ t.prods[p]? = some (lhs, rhs) ∧ c.stack.drop rhs.length = s' :: below ∧
      assoc lhs (t.goto.getD s' []) = some g ∧ c' = ⟨g :: s' :: below, c.input⟩ := by
  unfold step at hs
  split at hs
  · cases hs
  · next s rest hst =>
    split at hs
    · cases hs
    · next a ha =>
      split at hs
      · cases hs
      · split at hs
        · next hneg =>
          split at hs
          · cases hs
          · next lhs rhs hp =>
            split at hs
            · cases hs
            · next s' below hd =>
              split at hs
              · cases hs
              · next g hg =>
                cases hs
                exact ⟨s, rest, a, lhs, rhs, s', below, g, hst, ha, hneg, rfl, hp, hd, hg, rfl⟩
        · cases hs

theorem step_accept_inv {t : Tables} {c : Config} (hs : step t c = .accept) :
    ∃ s rest, c.stack = s :: rest ∧ actionOf t s (lookahead c.input) = some 0 := by
  unfold step at hs
  split at hs
  · cases hs
  · next s rest hst =>
    split at hs
    · cases hs
    · next a ha =>
      split at hs
      · cases hs
      · next hnp =>
        split at hs
        · split at hs
          · cases hs
          · split at hs
            · cases hs
            · split at hs <;> cases hs
        · next hnn =>
          have : a = 0 := by omega
          subst this
          exact ⟨s, rest, hst, ha⟩

/-! ## the stack invariant -/

/-- the state stack (top first) is a path of the automaton that starts in state 0 -/
def Chain (h : Hints) : List Nat → Prop
  | [] => False
  | [s] => s = 0
  | s :: s' :: r => s ≠ 0 ∧ s' ∈ h.predOf s ∧ Chain h (s' :: r)

/-- the grammar symbols the stack carries (top first): the accessing symbols of all states but the bottom one.
    This is the TYPE column of SLY's `symstack` without its `$end` sentinel. -/
def symsOf (h : Hints) : List Nat → List Nat
  | [] => []
  | [_] => []
  | s :: s' :: r => h.accOf s :: symsOf h (s' :: r)

theorem edgeOK_chain {h : Hints} {s' x s : Nat} {r : List Nat} (he : edgeOK h s' x s = true)
    (hch : Chain h (s' :: r)) : Chain h (s :: s' :: r) ∧ symsOf h (s :: s' :: r) = x :: symsOf h (s' :: r) := by
  simp only [edgeOK, Bool.and_eq_true, bne_iff_ne, ne_eq, beq_iff_eq, List.contains_iff_mem] at he
  exact ⟨⟨he.1.1, he.2, hch⟩, by simp [symsOf, he.1.2]⟩

/-- popping: if every backward path from the top state spells `xs`, the top `|xs|` symbols of the stack are `xs`
    and what is left is still a path from state 0 -/
theorem pop_ok (h : Hints) : ∀ (xs st : List Nat), Chain h st →
    (∀ s, st.head? = some s → backOK h s xs = true) →
    symsOf h st = xs ++ symsOf h (st.drop xs.length) ∧ Chain h (st.drop xs.length) := by
  intro xs
  induction xs with
  | nil => intro st hch _; simpa using hch
  | cons x xs ih =>
    intro st hch hb
    match st, hch, hb with
    | [], hch, _ => exact absurd hch (by simp [Chain])
    | [s], hch, hb =>
      have := hb s rfl
      simp only [backOK, Bool.and_eq_true, bne_iff_ne, ne_eq] at this
      exact absurd hch this.1.1
    | s :: s' :: r, hch, hb =>
      have hbs := hb s rfl
      simp only [backOK, Bool.and_eq_true, bne_iff_ne, ne_eq, beq_iff_eq, List.all_eq_true] at hbs
      obtain ⟨_, hp, hch'⟩ := hch
      have := ih (s' :: r) hch' (fun s'' e => by
        simp at e; subst e; exact hbs.2 _ hp)
      simp only [symsOf, hbs.1.2, List.length_cons, List.drop_succ_cons, List.cons_append]
      exact ⟨by rw [this.1], this.2⟩

/-! ## soundness -/

/-- The invariant, read backwards from the accepting run: if the machine accepts from a configuration whose state
    stack is a path from state 0, then for every word `w` that the stacked symbols derive, the start symbol
    derives `w` followed by the unread input. -/
theorem accepts_yield {t : Tables} {h : Hints} (hc : checkTables t h = true) {c : Config} {r : Res}
    (hr : Run t c r) : ∀ ps, r = .accept ps → Chain h c.stack → 0 ∉ c.input →
    ∀ w, Yield t.grammar (symsOf h c.stack).reverse w → Yield t.grammar [t.start] (w ++ c.input) := by
  induction hr with
  | @shift c c' r hs _ ih =>
    intro ps hps hch h0 w hw
    obtain ⟨s, rest, a, hst, ha, hpos, rfl⟩ := step_shift_inv hs
    obtain ⟨tok, hm, htok⟩ := actionOf_cell ha
    have hla := htok (by omega)
    obtain ⟨⟨hne, _⟩, he⟩ := shift_cell hc hm hpos
    -- the lookahead is a real token: the input is not exhausted
    match hin : c.input with
    | [] => simp [lookahead, hin] at hla; exact absurd hla hne
    | x :: inp =>
      simp only [lookahead, hin, List.headD_cons] at hla
      subst hla
      rw [hst] at hch
      obtain ⟨hch', hsy⟩ := edgeOK_chain he hch
      have := ih ps hps (by simpa [hst] using hch') (by intro hmem; apply h0; simp only [hin, List.tail_cons] at hmem; rw [hin]; exact List.mem_cons_of_mem _ hmem)
        (w ++ [tok]) (by
          simp only [hst, hsy, List.reverse_cons]
          exact Yield.append (by simpa [hst] using hw) (Yield.tok .nil))
      simpa [hin] using this
  | @reduce c c' p r hs _ ih =>
    intro ps hps hch h0 w hw
    obtain ⟨s, rest, a, lhs, rhs, s', below, g, hst, ha, hneg, hp, hprod, hdrop, hg, rfl⟩ := step_reduce_inv hs
    obtain ⟨tok, hm, _⟩ := actionOf_cell ha
    have hred := reduce_cell hc hm hneg
    rw [← hp] at hred
    simp only [reduceOK, hprod] at hred
    have hpop := pop_ok h rhs.reverse c.stack hch (fun s0 e => by
      rw [hst] at e; simp at e; subst e; exact hred)
    simp only [List.length_reverse, hdrop] at hpop
    obtain ⟨hsy, hch'⟩ := hpop
    obtain ⟨hch'', hsy'⟩ := edgeOK_chain (goto_cell hc hg) hch'
    -- split the derived word at the handle
    rw [hsy, List.reverse_append, List.reverse_reverse] at hw
    obtain ⟨w1, w2, rfl, h1, h2⟩ := Yield.split _ hw
    have hmem : (lhs, rhs) ∈ t.grammar := by
      obtain ⟨k, hk⟩ : ∃ k, p = 1 + k := ⟨p - 1, by omega⟩
      have h1 : t.prods.toList[1 + k]? = some (lhs, rhs) := by rw [Array.getElem?_toList, ← hk]; exact hprod
      exact List.mem_of_getElem? (l := t.prods.toList.drop 1) (i := k) (by rw [List.getElem?_drop]; exact h1)
    obtain ⟨ps', rfl⟩ : ∃ ps', r = .accept ps' := by
      cases r <;> simp [Res.cons] at hps
      exact ⟨_, rfl⟩
    have := ih _ rfl hch'' h0 (w1 ++ w2) (by
      simp only [hsy', List.reverse_cons]
      exact Yield.append h1 ((Yield.nt hmem h2 .nil).cast (by simp)))
    simpa using this
  | @accept c hs =>
    intro ps _ hch h0 w hw
    obtain ⟨s, rest, hst, ha⟩ := step_accept_inv hs
    obtain ⟨tok, hm, htok⟩ := actionOf_cell ha
    have hla := htok (by omega)
    subst hla
    obtain ⟨hz, hacc⟩ := accept_cell hc hm
    have hin : c.input = [] := by
      match hi : c.input with
      | [] => rfl
      | x :: inp =>
        simp only [lookahead, hi, List.headD_cons] at hz
        subst hz
        rw [hi] at h0
        exact absurd List.mem_cons_self h0
    simp only [acceptOK, Bool.and_eq_true, bne_iff_ne, ne_eq, beq_iff_eq, List.all_eq_true] at hacc
    rw [hst] at hch hw
    match rest, hch, hw with
    | [], hch, _ => exact absurd hch hacc.1.1
    | [s'], hch, hw =>
      simp only [symsOf, hacc.1.2, List.reverse_cons, List.reverse_nil, List.nil_append] at hw
      simpa [hin] using hw
    | s' :: s'' :: r', hch, _ =>
      obtain ⟨_, hp, hch'⟩ := hch
      have := hacc.2 _ hp
      obtain ⟨hne, _⟩ := hch'
      exact absurd this hne
  | error _ => intro ps hps; cases hps
  | crash _ => intro ps hps; cases hps

/-- **Soundness of the LR machine, for any tables that pass the test**: what `Parser.parse` accepts is a sentence
    of the grammar whose productions are the table's production list. -/
theorem accepted_derivable {t : Tables} (hok : TablesOK t) {toks ps : List Nat} (h0 : 0 ∉ toks)
    (hr : Run t (init toks) (.accept ps)) : Yield t.grammar [t.start] toks := by
  obtain ⟨h, hc⟩ := hok
  have := accepts_yield hc hr ps rfl (by simp [init, Chain]) h0 [] (by simpa [init, symsOf] using Yield.nil)
  simpa [init] using this

theorem start_nonterminal {t : Tables} {h : Hints} (hc : checkTables t h = true) : t.nTerm ≤ t.start := by
  simp only [checkTables, Bool.and_eq_true, decide_eq_true_eq] at hc
  exact hc.1.1.1

/-- every token of an accepted input is a terminal of the tables -/
theorem accepts_terminals {t : Tables} {h : Hints} (hc : checkTables t h = true) {c : Config} {r : Res}
    (hr : Run t c r) : ∀ ps, r = .accept ps → 0 ∉ c.input → ∀ x ∈ c.input, x < t.nTerm := by
  induction hr with
  | @shift c c' r hs _ ih =>
    intro ps hps h0 x hx
    obtain ⟨s, rest, a, hst, ha, hpos, rfl⟩ := step_shift_inv hs
    obtain ⟨tok, hm, htok⟩ := actionOf_cell ha
    have hla := htok (by omega)
    obtain ⟨⟨hne, hlt⟩, _⟩ := shift_cell hc hm hpos
    match hin : c.input with
    | [] => rw [hin] at hx; simp at hx
    | y :: inp =>
      simp only [lookahead, hin, List.headD_cons] at hla
      subst hla
      rw [hin] at hx h0
      rcases List.mem_cons.1 hx with e | hx'
      · exact e ▸ hlt
      · exact ih ps hps (by simpa [hin] using fun hm0 => h0 (List.mem_cons_of_mem _ hm0)) x (by simpa [hin] using hx')
  | @reduce c c' p r hs _ ih =>
    intro ps hps h0 x hx
    obtain ⟨s, rest, a, lhs, rhs, s', below, g, hst, ha, hneg, hp, hprod, hdrop, hg, rfl⟩ := step_reduce_inv hs
    obtain ⟨ps', rfl⟩ : ∃ ps', r = .accept ps' := by
      cases r <;> simp [Res.cons] at hps
      exact ⟨_, rfl⟩
    exact ih _ rfl h0 x hx
  | @accept c hs =>
    intro ps _ h0 x hx
    obtain ⟨s, rest, hst, ha⟩ := step_accept_inv hs
    obtain ⟨tok, hm, htok⟩ := actionOf_cell ha
    have hla := htok (by omega)
    subst hla
    obtain ⟨hz, _⟩ := accept_cell hc hm
    match hi : c.input with
    | [] => rw [hi] at hx; simp at hx
    | y :: inp =>
      simp only [lookahead, hi, List.headD_cons] at hz
      subst hz
      rw [hi] at h0
      exact absurd List.mem_cons_self h0
  | error _ => intro ps hps; cases hps
  | crash _ => intro ps hps; cases hps

/-- an accepted sentence is derived from the start symbol by a production (the one-symbol sentential form
    `[start]` is not a sentence: the start symbol is not a terminal) -/
theorem accepted_rule {t : Tables} (hok : TablesOK t) {toks ps : List Nat} (h0 : 0 ∉ toks)
    (hr : Run t (init toks) (.accept ps)) :
    ∃ rhs, (t.start, rhs) ∈ t.grammar ∧ Yield t.grammar rhs toks := by
  have hy := accepted_derivable hok h0 hr
  obtain ⟨h, hc⟩ := hok
  have hterm := accepts_terminals hc hr ps rfl (by simpa [init] using h0)
  have hs := start_nonterminal hc
  cases hy with
  | tok _ =>
    have := hterm t.start (by simp [init])
    omega
  | nt hm hrhs hnil =>
    cases hnil
    exact ⟨_, hm, by simpa using hrhs⟩

/-! ## the reduction sequence is a right-most derivation, in reverse -/

theorem lhs_nonterminal {t : Tables} {h : Hints} (hc : checkTables t h = true) {p lhs : Nat} {rhs : List Nat}
    (hp : t.prods[p]? = some (lhs, rhs)) : t.nTerm ≤ lhs := by
  simp only [checkTables, Bool.and_eq_true, List.all_eq_true, decide_eq_true_eq] at hc
  have hm : (lhs, rhs) ∈ t.prods.toList := List.mem_of_getElem? (Array.getElem?_toList ▸ hp : t.prods.toList[p]? = some (lhs, rhs))
  exact hc.1.1.2 _ hm

/-- one right-most derivation step with production `p`: `α A u ⇒ α rhs u` where `A → rhs` is production `p`, `A` is
    a nonterminal and `u` consists of terminals only (so `A` is the right-most nonterminal) -/
inductive RmStep (t : Tables) (p : Nat) : List Nat → List Nat → Prop
  | mk {α u : List Nat} {lhs : Nat} {rhs : List Nat} : t.prods[p]? = some (lhs, rhs) → t.nTerm ≤ lhs →
      (∀ x ∈ u, x < t.nTerm) → RmStep t p (α ++ lhs :: u) (α ++ rhs ++ u)

/-- `RmDeriv t ps β w`: `β ⇒rm* w`, the productions used being `ps` read BACKWARDS (`ps` is in reduction order:
    its head is the first reduction of the parse, i.e. the last step of the derivation) -/
inductive RmDeriv (t : Tables) : List Nat → List Nat → List Nat → Prop
  | nil {β : List Nat} : RmDeriv t [] β β
  | cons {p : Nat} {qs β β1 w : List Nat} : RmDeriv t qs β β1 → RmStep t p β1 w → RmDeriv t (p :: qs) β w

theorem accepts_rightmost {t : Tables} {h : Hints} (hc : checkTables t h = true) {c : Config} {r : Res}
    (hr : Run t c r) : ∀ ps, r = .accept ps → Chain h c.stack → 0 ∉ c.input →
    RmDeriv t ps [t.start] ((symsOf h c.stack).reverse ++ c.input) := by
  induction hr with
  | @shift c c' r hs _ ih =>
    intro ps hps hch h0
    obtain ⟨s, rest, a, hst, ha, hpos, rfl⟩ := step_shift_inv hs
    obtain ⟨tok, hm, htok⟩ := actionOf_cell ha
    have hla := htok (by omega)
    obtain ⟨⟨hne, _⟩, he⟩ := shift_cell hc hm hpos
    match hin : c.input with
    | [] => simp [lookahead, hin] at hla; exact absurd hla hne
    | x :: inp =>
      simp only [lookahead, hin, List.headD_cons] at hla
      subst hla
      rw [hst] at hch
      obtain ⟨hch', hsy⟩ := edgeOK_chain he hch
      have := ih ps hps (by simpa [hst] using hch')
        (by intro hmem; apply h0; simp only [hin, List.tail_cons] at hmem; rw [hin]; exact List.mem_cons_of_mem _ hmem)
      simpa [hst, hsy, hin] using this
  | @reduce c c' p r hs hr' ih =>
    intro ps hps hch h0
    have hrun : Run t c (r.cons p) := Run.reduce hs hr'
    obtain ⟨s, rest, a, lhs, rhs, s', below, g, hst, ha, hneg, hp, hprod, hdrop, hg, rfl⟩ := step_reduce_inv hs
    obtain ⟨tok, hm, _⟩ := actionOf_cell ha
    have hred := reduce_cell hc hm hneg
    rw [← hp] at hred
    simp only [reduceOK, hprod] at hred
    have hpop := pop_ok h rhs.reverse c.stack hch (fun s0 e => by
      rw [hst] at e; simp at e; subst e; exact hred)
    simp only [List.length_reverse, hdrop] at hpop
    obtain ⟨hsy, hch'⟩ := hpop
    obtain ⟨hch'', hsy'⟩ := edgeOK_chain (goto_cell hc hg) hch'
    obtain ⟨ps', rfl⟩ : ∃ ps', r = .accept ps' := by
      cases r <;> simp [Res.cons] at hps
      exact ⟨_, rfl⟩
    have hterm := accepts_terminals hc hrun _ rfl h0
    have hih := ih _ rfl hch'' h0
    simp only [hsy', List.reverse_cons, List.append_assoc, List.singleton_append] at hih
    have hstep := RmStep.mk (α := (symsOf h (s' :: below)).reverse) hprod (lhs_nonterminal hc hprod) hterm
    simp only [Res.cons, Res.accept.injEq] at hps
    subst hps
    refine RmDeriv.cons hih ?_
    simpa [hsy, List.reverse_append] using hstep
  | @accept c hs =>
    intro ps hps hch h0
    cases hps
    obtain ⟨s, rest, hst, ha⟩ := step_accept_inv hs
    obtain ⟨tok, hm, htok⟩ := actionOf_cell ha
    have hla := htok (by omega)
    subst hla
    obtain ⟨hz, hacc⟩ := accept_cell hc hm
    have hin : c.input = [] := by
      match hi : c.input with
      | [] => rfl
      | x :: inp =>
        simp only [lookahead, hi, List.headD_cons] at hz
        subst hz
        rw [hi] at h0
        exact absurd List.mem_cons_self h0
    simp only [acceptOK, Bool.and_eq_true, bne_iff_ne, ne_eq, beq_iff_eq, List.all_eq_true] at hacc
    rw [hst] at hch
    match rest, hch with
    | [], hch => exact absurd hch hacc.1.1
    | [s'], hch =>
      simp only [hst, symsOf, hacc.1.2, List.reverse_cons, List.reverse_nil, List.nil_append, hin, List.append_nil]
      exact RmDeriv.nil
    | s' :: s'' :: r', hch =>
      obtain ⟨_, hp, hch'⟩ := hch
      have := hacc.2 _ hp
      obtain ⟨hne, _⟩ := hch'
      exact absurd this hne
  | error _ => intro ps hps; cases hps
  | crash _ => intro ps hps; cases hps

/-- **The reductions of an accepting run are a right-most derivation of the input, in reverse.** -/
theorem accepted_rightmost {t : Tables} (hok : TablesOK t) {toks ps : List Nat} (h0 : 0 ∉ toks)
    (hr : Run t (init toks) (.accept ps)) : RmDeriv t ps [t.start] toks := by
  obtain ⟨h, hc⟩ := hok
  have := accepts_rightmost hc hr ps rfl (by simp [init, Chain]) (by simpa [init] using h0)
  simpa [init, symsOf] using this

/-! ## blocks of steps and the frame property (used for completeness on regular fragments)

The machine looks at the FIRST unread token only: a block of `n` shift/reduce steps that ends with unread input
left runs identically when more input follows.  A loop of the token language whose body brings the state stack
back to where it started is then closed by induction, the body itself being evaluated by the kernel. -/

/-- `n` steps, all of them shifts or reduces: the configuration reached and the productions reduced -/
def stepsN (t : Tables) : Nat → Config → Option (Config × List Nat)
  | 0, c => some (c, [])
  | n + 1, c =>
    match step t c with
    | .shift c' => stepsN t n c'
    | .reduce p c' => (stepsN t n c').map fun (c'', r) => (c'', p :: r)
    | _ => none

def Res.prepend (reds : List Nat) (r : Res) : Res := reds.foldr Res.cons r

theorem run_of_stepsN {t : Tables} : ∀ (n : Nat) {c c' : Config} {reds : List Nat} {r : Res},
    stepsN t n c = some (c', reds) → Run t c' r → Run t c (Res.prepend reds r) := by
  intro n
  induction n with
  | zero => intro c c' reds r h hr; simp [stepsN] at h; obtain ⟨rfl, rfl⟩ := h; simpa [Res.prepend] using hr
  | succ n ih =>
    intro c c' reds r h hr
    unfold stepsN at h
    split at h
    · next c1 hs => exact Run.shift hs (ih h hr)
    · next p c1 hs =>
      cases h1 : stepsN t n c1 with
      | none => simp [h1] at h
      | some v =>
        obtain ⟨c2, r2⟩ := v
        simp [h1] at h
        obtain ⟨rfl, rfl⟩ := h
        exact Run.reduce hs (ih h1 hr)
    · cases h

/-- `step` with more input behind a non-empty input -/
theorem step_frame (t : Tables) (st : List Nat) (x : Nat) (inp rest : List Nat) :
    step t ⟨st, x :: inp ++ rest⟩ =
      match step t ⟨st, x :: inp⟩ with
      | .shift c' => .shift ⟨c'.stack, c'.input ++ rest⟩
      | .reduce p c' => .reduce p ⟨c'.stack, c'.input ++ rest⟩
      | o => o := by
  simp only [step, lookahead, List.cons_append, List.headD_cons, List.tail_cons]
  cases st with
  | nil => rfl
  | cons s st' =>
    simp only
    cases actionOf t s x with
    | none => rfl
    | some a =>
      simp only
      split
      · rfl
      · split
        · cases t.prods[(-a).toNat]? with
          | none => rfl
          | some lr =>
            obtain ⟨lhs, rhs⟩ := lr
            simp only
            cases List.drop rhs.length (s :: st') with
            | nil => rfl
            | cons s' below =>
              simp only
              cases assoc lhs (t.goto.getD s' []) <;> rfl
        · rfl

theorem stepsN_input_nil {t : Tables} : ∀ (n : Nat) {st : List Nat} {c' : Config} {reds : List Nat},
    stepsN t n ⟨st, []⟩ = some (c', reds) → c'.input = [] := by
  intro n
  induction n with
  | zero => intro st c' reds h; simp [stepsN] at h; obtain ⟨rfl, _⟩ := h; rfl
  | succ n ih =>
    intro st c' reds h
    unfold stepsN at h
    split at h
    · next c1 hs =>
      obtain ⟨s, rest, a, _, _, _, rfl⟩ := step_shift_inv hs
      exact ih h
    · next p c1 hs =>
      obtain ⟨s, rest, a, lhs, rhs, s', below, g, _, _, _, _, _, _, _, rfl⟩ := step_reduce_inv hs
      cases h1 : stepsN t n ⟨g :: s' :: below, []⟩ with
      | none => simp [h1] at h
      | some v =>
        obtain ⟨c2, r2⟩ := v
        simp [h1] at h
        obtain ⟨rfl, _⟩ := h
        exact ih h1
    · cases h

/-- the frame property of a block that leaves input unread -/
theorem stepsN_frame {t : Tables} : ∀ (n : Nat) {st inp : List Nat} {c' : Config} {reds : List Nat},
    stepsN t n ⟨st, inp⟩ = some (c', reds) → c'.input ≠ [] →
    ∀ rest, stepsN t n ⟨st, inp ++ rest⟩ = some (⟨c'.stack, c'.input ++ rest⟩, reds) := by
  intro n
  induction n with
  | zero => intro st inp c' reds h _ rest; simp [stepsN] at h; obtain ⟨rfl, rfl⟩ := h; rfl
  | succ n ih =>
    intro st inp c' reds h hne rest
    cases inp with
    | nil => exact absurd (stepsN_input_nil _ h) hne
    | cons x inp =>
      unfold stepsN at h ⊢
      rw [step_frame]
      split at h
      · next c1 hs => exact ih (st := c1.stack) (inp := c1.input) h hne rest
      · next p c1 hs =>
        skip
        cases h1 : stepsN t n c1 with
        | none => simp [h1] at h
        | some v =>
          obtain ⟨c2, r2⟩ := v
          simp [h1] at h
          obtain ⟨rfl, rfl⟩ := h
          rw [ih h1 hne rest]; rfl
      · cases h

end MontePyVerif.LR
