import MontePyVerif.Spec.TextLayout
import MontePyVerif.Lemmas.ListBasics
/-!
# The Spec reader inverts every valid layout (lemmas for C11_spec_layout)

Spec-only: nothing here mentions the model.  Stage 1: the kind of a rendered physical line is what the layout
says (`classify_data`, `classify_comment`).  Stage 2: the fold over those kinds gives the words back (`run_lay`).
-/
namespace MontePyVerif.Layout
open MontePyVerif MontePyVerif.Spec MontePyVerif.ListBasics

/-- a word of the logical content: not empty, no blank, no `$`, no tab, and not the continuation mark itself -/
def WordOK (w : Word) : Prop := w ≠ [] ∧ (∀ c ∈ w, c ≠ ' ' ∧ c ≠ '$' ∧ c ≠ '\t') ∧ w ≠ ['&']

/-- a comment text: no tab (a tab would move what follows; comment texts are free otherwise) -/
def NoTab (x : Line) : Prop := ∀ c ∈ x, c ≠ '\t'

def notC (w : Word) : Prop := w ≠ ['c'] ∧ w ≠ ['C']

/-! ## words -/

theorem wordsAux_word (w T cur : Line) (h : ∀ c ∈ w, c ≠ ' ') :
    wordsAux (w ++ T) cur = wordsAux T (w.reverse ++ cur) := by
  induction w generalizing cur with
  | nil => rfl
  | cons c w ih =>
    have hc : c ≠ ' ' := h c (by simp)
    simp only [List.cons_append, wordsAux, hc, ↓reduceIte]
    rw [ih _ (fun d hd => h d (List.mem_cons_of_mem _ hd))]
    simp

theorem wordsAux_skip (k : Nat) (T : Line) : wordsAux (List.replicate k ' ' ++ T) [] = wordsAux T [] := by
  induction k with
  | zero => rfl
  | succ k ih => simp only [List.replicate_succ, List.cons_append, wordsAux, ↓reduceIte, List.isEmpty_nil]; exact ih

/-- `T` is the end of the line or begins with a blank -/
def Breaks (T : Line) : Prop := T = [] ∨ ∃ T', T = ' ' :: T'

theorem wordsAux_close (T cur : Line) (hc : cur ≠ []) (hT : Breaks T) :
    wordsAux T cur = cur.reverse :: wordsAux T [] := by
  have he : cur.isEmpty = false := by cases cur <;> simp_all
  rcases hT with rfl | ⟨T', rfl⟩
  · simp [wordsAux, he]
  · simp [wordsAux, he]

theorem breaks_replicate (k : Nat) (T : Line) (hT : Breaks T) : Breaks (List.replicate k ' ' ++ T) := by
  cases k with
  | zero => simpa using hT
  | succ k => right; exact ⟨List.replicate k ' ' ++ T, by simp [List.replicate_succ]⟩

theorem body_words (rest : List (Nat × Word)) (f : Word) (T : Line)
    (hf : f ≠ [] ∧ ∀ c ∈ f, c ≠ ' ') (hr : ∀ p ∈ rest, p.2 ≠ [] ∧ ∀ c ∈ p.2, c ≠ ' ') (hT : Breaks T) :
    wordsAux (bodyStr f rest ++ T) [] = (f :: rest.map (·.2)) ++ wordsAux T [] := by
  induction rest generalizing f with
  | nil =>
    simp only [bodyStr, List.flatMap_nil, List.append_nil, List.map_nil]
    rw [wordsAux_word f T [] hf.2, List.append_nil,
      wordsAux_close T f.reverse (by simpa using hf.1) hT, List.reverse_reverse]
    rfl
  | cons p rest ih =>
    have hp := hr p (by simp)
    have e : bodyStr f (p :: rest) ++ T = f ++ (' ' :: (List.replicate p.1 ' ' ++ (bodyStr p.2 rest ++ T))) := by
      simp [bodyStr, List.replicate_succ]
    rw [e, wordsAux_word f _ [] hf.2, List.append_nil,
      wordsAux_close _ f.reverse (by simpa using hf.1) (Or.inr ⟨_, rfl⟩), List.reverse_reverse]
    simp only [wordsAux, ↓reduceIte, List.isEmpty_nil]
    rw [wordsAux_skip, ih p.2 hp (fun q hq => hr q (List.mem_cons_of_mem _ hq))]
    simp

/-! ## the data part of a rendered line -/

/-- the part of the line end that belongs to the data -/
def dataTail : Tail → Line
  | .plain t none => List.replicate t ' '
  | .plain t (some _) => List.replicate t ' ' ++ [' ']
  | .amp pre t => List.replicate (pre + 1) ' ' ++ '&' :: List.replicate t ' '
  | .dollar pre _ => List.replicate (pre + 1) ' '

structure DLineOK (limit : Nat) (d : DLine) : Prop where
  first : WordOK d.first
  rest : ∀ p ∈ d.rest, WordOK p.2
  notComment : d.indent < 5 → notC d.first
  fits : d.str.length ≤ limit
  noTab : match d.tail with
    | .plain _ (some x) => NoTab x
    | .dollar _ x => NoTab x
    | _ => True

theorem all_ne_dollar_replicate (k : Nat) : ∀ c ∈ List.replicate k ' ', decide (c ≠ '$') = true := by
  intro c hc; rw [(List.mem_replicate.mp hc).2]; decide

theorem body_no_dollar (d : DLine) (hf : WordOK d.first) (hr : ∀ p ∈ d.rest, WordOK p.2) :
    ∀ c ∈ bodyStr d.first d.rest, decide (c ≠ '$') = true := by
  intro c hc
  unfold bodyStr at hc
  rcases List.mem_append.mp hc with h | h
  · simpa using (hf.2.1 c h).2.1
  · obtain ⟨p, hp, hcp⟩ := List.mem_flatMap.mp h
    rcases List.mem_append.mp hcp with h1 | h1
    · rw [(List.mem_replicate.mp h1).2]; decide
    · simpa using ((hr p hp).2.1 c h1).2.1

theorem dataPart_str (d : DLine) (hf : WordOK d.first) (hr : ∀ p ∈ d.rest, WordOK p.2) :
    dataPart d.str = List.replicate d.indent ' ' ++ bodyStr d.first d.rest ++ dataTail d.tail := by
  unfold dataPart DLine.str
  rw [List.append_assoc, List.append_assoc,
    takeWhile_append_of_all _ _ _ (all_ne_dollar_replicate d.indent),
    takeWhile_append_of_all _ _ _ (body_no_dollar d hf hr)]
  congr 2
  cases d.tail with
  | plain t dl =>
    cases dl with
    | none =>
      simp only [tailStr, dataTail]
      rw [takeWhile_eq_self]; exact all_ne_dollar_replicate t
    | some x =>
      simp only [tailStr, dataTail]
      have : List.replicate t ' ' ++ ' ' :: '$' :: x = (List.replicate t ' ' ++ [' ']) ++ '$' :: x := by simp
      rw [this, takeWhile_append_stop _ _ '$' x]
      · intro c hc
        rcases List.mem_append.mp hc with h | h
        · exact all_ne_dollar_replicate t c h
        · simp at h; subst h; decide
      · decide
  | amp pre t =>
    simp only [tailStr, dataTail]
    rw [takeWhile_eq_self]
    intro c hc
    rcases List.mem_append.mp hc with h | h
    · exact all_ne_dollar_replicate _ c h
    · rcases List.mem_cons.mp h with rfl | h'
      · decide
      · exact all_ne_dollar_replicate _ c h'
  | dollar pre x =>
    simp only [tailStr, dataTail]
    rw [takeWhile_append_stop _ _ '$' x (all_ne_dollar_replicate _) (by decide)]

def isAmp : Tail → Bool
  | .amp _ _ => true
  | _ => false

theorem breaks_dataTail (t : Tail) : Breaks (dataTail t) := by
  cases t with
  | plain t dl =>
    cases dl with
    | none => cases t with
      | zero => left; rfl
      | succ k => right; exact ⟨List.replicate k ' ', by simp [dataTail, List.replicate_succ]⟩
    | some x => cases t with
      | zero => right; exact ⟨[], by simp [dataTail]⟩
      | succ k => right; exact ⟨List.replicate k ' ' ++ [' '], by simp [dataTail, List.replicate_succ]⟩
  | amp pre t => right; exact ⟨List.replicate pre ' ' ++ '&' :: List.replicate t ' ', by simp [dataTail, List.replicate_succ]⟩
  | dollar pre x => right; exact ⟨List.replicate pre ' ', by simp [dataTail, List.replicate_succ]⟩

theorem wordsAux_replicate_cur (k : Nat) (cur : Line) :
    wordsAux (List.replicate k ' ') cur = wordsAux [] cur := by
  induction k generalizing cur with
  | zero => rfl
  | succ k ih =>
    simp only [List.replicate_succ, wordsAux, ↓reduceIte]
    rw [ih]
    cases cur <;> simp [wordsAux]

theorem words_dataTail (t : Tail) : wordsAux (dataTail t) [] = if isAmp t then [['&']] else [] := by
  cases t with
  | plain t dl =>
    cases dl with
    | none => simp [dataTail, isAmp, wordsAux_replicate_cur, wordsAux]
    | some x =>
      simp only [dataTail, isAmp]
      have : List.replicate t ' ' ++ [' '] = List.replicate (t + 1) ' ' := by
        rw [List.replicate_succ']
      rw [this, wordsAux_replicate_cur]; rfl
  | amp pre t =>
    simp only [dataTail, isAmp, ↓reduceIte]
    rw [wordsAux_skip]
    simp only [wordsAux, Char.reduceEq, ↓reduceIte]
    rw [wordsAux_replicate_cur]; rfl
  | dollar pre x => simp [dataTail, isAmp, wordsAux_replicate_cur, wordsAux]

theorem wordOK_split {w : Word} (h : WordOK w) : w ≠ [] ∧ ∀ c ∈ w, c ≠ ' ' :=
  ⟨h.1, fun c hc => (h.2.1 c hc).1⟩

/-- the words of the data part of a rendered data line -/
theorem splitWords_str (d : DLine) (hf : WordOK d.first) (hr : ∀ p ∈ d.rest, WordOK p.2) :
    splitWords (dataPart d.str) = (d.first :: d.rest.map (·.2)) ++ (if isAmp d.tail then [['&']] else []) := by
  rw [dataPart_str d hf hr]
  unfold splitWords
  rw [List.append_assoc, wordsAux_skip,
    body_words d.rest d.first _ (wordOK_split hf) (fun p hp => wordOK_split (hr p hp)) (breaks_dataTail d.tail),
    words_dataTail]

/-! ## `&` at the end of the data -/

theorem endsAmp_word_end (pre w : Line) (k : Nat) (hw : w ≠ [] ∧ (∀ c ∈ w, c ≠ ' ') ∧ w ≠ ['&']) :
    endsAmp (pre ++ w ++ List.replicate k ' ') = false := by
  unfold endsAmp
  rw [List.reverse_append, List.reverse_replicate,
    dropWhile_append_of_all _ _ _ (replicate_all k ' ' _ (by simp)), List.reverse_append]
  obtain ⟨hne, hnb, hna⟩ := hw
  cases hrev : w.reverse with
  | nil => simp at hrev; exact absurd hrev hne
  | cons a r =>
    have ha : a ≠ ' ' := hnb a (by rw [← List.mem_reverse, hrev]; simp)
    simp only [List.cons_append, List.dropWhile_cons, ha, decide_false, Bool.false_eq_true, ↓reduceIte]
    by_cases haa : a = '&'
    · subst haa
      cases r with
      | nil =>
        exfalso; apply hna
        have := congrArg List.reverse hrev
        simpa using this
      | cons b r' =>
        have hb : b ≠ ' ' := hnb b (by rw [← List.mem_reverse, hrev]; simp)
        split
        · rename_i heq; simp at heq; exact absurd heq.1 hb
        · rfl
    · split
      · rename_i heq; simp at heq; exact absurd heq.1 haa
      · rfl

theorem bodyStr_cons (f : Word) (p : Nat × Word) (rest : List (Nat × Word)) :
    bodyStr f (p :: rest) = f ++ List.replicate (p.1 + 1) ' ' ++ bodyStr p.2 rest := by
  simp [bodyStr]

theorem lastWord_aux (rest : List (Nat × Word)) : ∀ (f : Word) (P : Line),
    ∃ pre w, P ++ bodyStr f rest = pre ++ w ∧ w = (f :: rest.map (·.2)).getLast (by simp) := by
  induction rest with
  | nil => intro f P; exact ⟨P, f, by simp [bodyStr], by simp⟩
  | cons p rest ih =>
    intro f P
    obtain ⟨pre, w, h1, h2⟩ := ih p.2 (P ++ f ++ List.replicate (p.1 + 1) ' ')
    refine ⟨pre, w, ?_, ?_⟩
    · rw [bodyStr_cons, ← h1]; simp
    · rw [h2]; simp [List.getLast_cons]

theorem lastWord_str (d : DLine) :
    ∃ pre w, List.replicate d.indent ' ' ++ bodyStr d.first d.rest = pre ++ w ∧
      w = (d.first :: d.rest.map (·.2)).getLast (by simp) := lastWord_aux d.rest d.first _

theorem mem_allwords (d : DLine) (hf : WordOK d.first) (hr : ∀ p ∈ d.rest, WordOK p.2) :
    ∀ w ∈ d.first :: d.rest.map (·.2), WordOK w := by
  intro w hw
  rcases List.mem_cons.mp hw with rfl | h
  · exact hf
  · obtain ⟨p, hp, rfl⟩ := List.mem_map.mp h; exact hr p hp

theorem endsAmp_str (d : DLine) (hf : WordOK d.first) (hr : ∀ p ∈ d.rest, WordOK p.2) :
    endsAmp (dataPart d.str) = isAmp d.tail := by
  rw [dataPart_str d hf hr]
  obtain ⟨pre, w, hpw, hw⟩ := lastWord_str d
  have hwok : WordOK w := by
    rw [hw]; exact mem_allwords d hf hr _ (List.getLast_mem _)
  have hw3 : w ≠ [] ∧ (∀ c ∈ w, c ≠ ' ') ∧ w ≠ ['&'] := ⟨hwok.1, fun c hc => (hwok.2.1 c hc).1, hwok.2.2⟩
  rw [hpw]
  cases d.tail with
  | plain t dl =>
    cases dl with
    | none => simp only [dataTail, isAmp]; exact endsAmp_word_end pre w t hw3
    | some x =>
      simp only [dataTail, isAmp]
      have : pre ++ w ++ (List.replicate t ' ' ++ [' ']) = pre ++ w ++ List.replicate (t + 1) ' ' := by
        rw [List.replicate_succ']
      rw [this]; exact endsAmp_word_end pre w (t + 1) hw3
  | dollar p x => simp only [dataTail, isAmp]; exact endsAmp_word_end pre w (p + 1) hw3
  | amp p t =>
    simp only [dataTail, isAmp]
    unfold endsAmp
    simp only [List.reverse_append, List.reverse_cons, List.reverse_replicate, List.append_assoc]
    rw [dropWhile_append_of_all _ _ _ (replicate_all t ' ' _ (by simp))]
    simp [List.replicate_succ]

/-- the Spec's words of a rendered data line: the words laid out on it -/
theorem lineWords_str (d : DLine) (hf : WordOK d.first) (hr : ∀ p ∈ d.rest, WordOK p.2) :
    lineWords d.str = d.first :: d.rest.map (·.2) := by
  unfold lineWords
  simp only [endsAmp_str d hf hr, splitWords_str d hf hr]
  cases isAmp d.tail
  · simp
  · simp only [↓reduceIte]
    rw [List.dropLast_concat]

/-! ## the kind of a rendered line -/

theorem expandTabs_noTab (y : Line) (h : NoTab y) (col : Nat) : expandTabsFrom col y = y := by
  induction y generalizing col with
  | nil => rfl
  | cons c y ih =>
    have hc : c ≠ '\t' := h c (by simp)
    simp only [expandTabsFrom, hc, ↓reduceIte]
    rw [ih (fun d hd => h d (List.mem_cons_of_mem _ hd))]

theorem physical_id (limit : Nat) (y : Line) (h : NoTab y) (hl : y.length ≤ limit) : physical limit y = y := by
  unfold physical
  rw [expandTabs_noTab y h, List.take_of_length_le hl]

theorem noTab_replicate (k : Nat) : NoTab (List.replicate k ' ') := by
  intro c hc; rw [(List.mem_replicate.mp hc).2]; decide

theorem NoTab.append {a b : Line} (ha : NoTab a) (hb : NoTab b) : NoTab (a ++ b) := by
  intro c hc; rcases List.mem_append.mp hc with h | h
  · exact ha c h
  · exact hb c h

theorem noTab_body (d : DLine) (hf : WordOK d.first) (hr : ∀ p ∈ d.rest, WordOK p.2) :
    NoTab (bodyStr d.first d.rest) := by
  intro c hc
  unfold bodyStr at hc
  rcases List.mem_append.mp hc with h | h
  · exact (hf.2.1 c h).2.2
  · obtain ⟨p, hp, hcp⟩ := List.mem_flatMap.mp h
    rcases List.mem_append.mp hcp with h1 | h1
    · exact noTab_replicate _ c h1
    · exact ((hr p hp).2.1 c h1).2.2

theorem noTab_str {limit : Nat} (d : DLine) (ok : DLineOK limit d) : NoTab d.str := by
  unfold DLine.str
  apply NoTab.append (NoTab.append (noTab_replicate _) (noTab_body d ok.first ok.rest))
  have hnt := ok.noTab
  cases ht : d.tail with
  | plain t dl =>
    rw [ht] at hnt
    cases dl with
    | none => exact noTab_replicate _
    | some x =>
      simp only [tailStr]
      apply NoTab.append (noTab_replicate _)
      intro c hc
      rcases List.mem_cons.mp hc with rfl | h
      · decide
      · rcases List.mem_cons.mp h with rfl | h'
        · decide
        · exact hnt c h'
  | amp pre t =>
    simp only [tailStr]
    apply NoTab.append (noTab_replicate _)
    intro c hc
    rcases List.mem_cons.mp hc with rfl | h
    · decide
    · exact noTab_replicate _ c h
  | dollar pre x =>
    rw [ht] at hnt
    simp only [tailStr]
    apply NoTab.append (noTab_replicate _)
    intro c hc
    rcases List.mem_cons.mp hc with rfl | h
    · decide
    · exact hnt c h

/-- the line is `indent` blanks, then a non-blank `a`, then `tl` -/
theorem str_shape (d : DLine) (hf : WordOK d.first) :
    ∃ a ftl tl, d.first = a :: ftl ∧ a ≠ ' ' ∧ d.str = List.replicate d.indent ' ' ++ a :: (ftl ++ tl) := by
  obtain ⟨hne, hch, _⟩ := hf
  cases hfirst : d.first with
  | nil => exact absurd hfirst hne
  | cons a ftl =>
    refine ⟨a, ftl, d.rest.flatMap (fun p => List.replicate (p.1 + 1) ' ' ++ p.2) ++ tailStr d.tail, rfl,
      (hch a (by rw [hfirst]; simp)).1, ?_⟩
    unfold DLine.str bodyStr
    rw [hfirst]
    simp only [List.cons_append, List.append_assoc]

theorem isBlankLine_str (d : DLine) (hf : WordOK d.first) : isBlankLine d.str = false := by
  obtain ⟨a, ftl, tl, _, ha, hs⟩ := str_shape d hf
  rw [hs]
  unfold isBlankLine
  simp [List.all_append, ha]

theorem startsInput_str (d : DLine) (hf : WordOK d.first) : startsInput d.str = decide (d.indent < 5) := by
  obtain ⟨a, ftl, tl, _, ha, hs⟩ := str_shape d hf
  rw [hs]
  unfold startsInput
  by_cases hi : d.indent < 5
  · simp only [hi, decide_true]
    rw [List.any_eq_true]
    refine ⟨a, ?_, by simpa using ha⟩
    rw [List.take_append]
    apply List.mem_append.mpr
    right
    have : 5 - (List.replicate d.indent ' ').length = (5 - d.indent - 1) + 1 := by simp; omega
    rw [this]
    simp
  · simp only [hi, decide_false]
    rw [List.any_eq_false]
    intro c hc
    have hle : 5 ≤ (List.replicate d.indent ' ').length := by simp; omega
    rw [List.take_append_of_le_length hle] at hc
    have := List.mem_of_mem_take hc
    rw [(List.mem_replicate.mp this).2]; simp

theorem isCommentLine_str {limit : Nat} (d : DLine) (ok : DLineOK limit d) : isCommentLine d.str = false := by
  obtain ⟨a, ftl, tl, hfirst, ha, hs⟩ := str_shape d ok.first
  rw [hs]
  unfold isCommentLine
  simp only
  have hdrop : (List.replicate d.indent ' ' ++ a :: (ftl ++ tl)).dropWhile (fun c => decide (c = ' ')) = a :: (ftl ++ tl) := by
    rw [dropWhile_append_stop _ _ a _ (replicate_all _ ' ' _ (by simp)) (by simpa using ha)]
  rw [hdrop]
  by_cases hi : d.indent < 5
  · have hnc := ok.notComment hi
    rw [hfirst] at hnc
    have hfw := ok.first
    rw [hfirst] at hfw
    cases ftl with
    | nil =>
      have hac : isC a = false := by
        unfold isC
        have h1 : a ≠ 'c' := fun e => hnc.1 (by rw [e])
        have h2 : a ≠ 'C' := fun e => hnc.2 (by rw [e])
        simp [h1, h2]
      cases tl with
      | nil => simp [hac]
      | cons b tl' => simp [hac]
    | cons b ftl' =>
      have hb : b ≠ ' ' := (hfw.2.1 b (by simp)).1
      simp [hb]
  · have : ¬ ((List.replicate d.indent ' ' ++ a :: (ftl ++ tl)).length - (a :: (ftl ++ tl)).length < 5) := by
      simp only [List.length_append, List.length_replicate, List.length_cons]; omega
    simp only [this, decide_false, Bool.false_and]

def kindOf : PLine → Kind
  | .comment _ => .comment
  | .data d => .data (decide (d.indent < 5)) (d.first :: d.rest.map (·.2)) (isAmp d.tail)

/-- **stage 1** for a data line -/
theorem classify_data {limit : Nat} (d : DLine) (ok : DLineOK limit d) : classify limit d.str = kindOf (.data d) := by
  unfold classify
  rw [physical_id limit d.str (noTab_str d ok) ok.fits]
  unfold classifyPhysical
  rw [isBlankLine_str d ok.first, isCommentLine_str d ok]
  simp only [Bool.false_eq_true, ↓reduceIte]
  have hne : (splitWords (dataPart d.str)).isEmpty = false := by
    rw [splitWords_str d ok.first ok.rest]; rfl
  rw [hne]
  simp only [Bool.false_eq_true, ↓reduceIte, kindOf]
  rw [startsInput_str d ok.first, lineWords_str d ok.first ok.rest, endsAmp_str d ok.first ok.rest]

structure CommentOK (limit : Nat) (c : Nat × Line) : Prop where
  ind : c.1 < 5
  noTab : NoTab c.2
  fits : (commentLine c).length ≤ limit

/-- **stage 1** for a C comment line -/
theorem classify_comment {limit : Nat} (c : Nat × Line) (ok : CommentOK limit c) :
    classify limit (commentLine c) = .comment := by
  have hnt : NoTab (commentLine c) := by
    unfold commentLine
    apply NoTab.append (noTab_replicate _)
    split
    · intro x hx; simp at hx; subst hx; decide
    · intro x hx
      rcases List.mem_cons.mp hx with rfl | h
      · decide
      · rcases List.mem_cons.mp h with rfl | h'
        · decide
        · exact ok.noTab x h'
  unfold classify
  rw [physical_id limit _ hnt ok.fits]
  unfold classifyPhysical
  have hshape : ∃ tl, commentLine c = List.replicate c.1 ' ' ++ 'c' :: tl ∧ (tl = [] ∨ ∃ tl', tl = ' ' :: tl') := by
    unfold commentLine
    split
    · exact ⟨[], rfl, Or.inl rfl⟩
    · exact ⟨' ' :: c.2, rfl, Or.inr ⟨_, rfl⟩⟩
  obtain ⟨tl, hs, htl⟩ := hshape
  have hb : isBlankLine (commentLine c) = false := by
    rw [hs]; unfold isBlankLine; simp [List.all_append]
  have hc : isCommentLine (commentLine c) = true := by
    rw [hs]
    unfold isCommentLine
    simp only
    rw [dropWhile_append_stop _ _ 'c' _ (replicate_all _ ' ' _ (by simp)) (by decide)]
    have : (List.replicate c.1 ' ' ++ 'c' :: tl).length - ('c' :: tl).length < 5 := by
      simp only [List.length_append, List.length_replicate, List.length_cons]
      have := ok.ind; omega
    rcases htl with rfl | ⟨tl', rfl⟩
    · simp [isC]; exact ok.ind
    · simp [isC]; exact ok.ind
  simp [hb, hc]

/-! ## stage 2: the fold over the kinds of a layout gives the words back -/

/-- what a data line beginning (`col`) or not in columns 1-5 does to the open input: the inputs emitted and the
    words the line's words are appended to -/
def openWith (s : St) (col : Bool) : List Inp × List Word :=
  match s.cur with
  | none => ([], [])
  | some acc => if col && !s.amp then ([⟨s.block, acc⟩], []) else ([], acc)

theorem step_data (s : St) (hb : s.block < 3) (col : Bool) (wds : List Word) (a : Bool) :
    step s (.data col wds a) =
      ((openWith s col).1, { block := s.block, cur := some ((openWith s col).2 ++ wds), amp := a }) := by
  unfold step openWith
  have : ¬ s.block ≥ 3 := by omega
  simp only [this, ↓reduceIte]
  cases s.cur with
  | none => simp
  | some acc => simp only; split <;> simp

theorem step_comment (s : St) : step s .comment = ([], s) := by
  unfold step; split <;> rfl

theorem run_cons (s : St) (k : Kind) (ks : List Kind) : run s (k :: ks) = (step s k).1 ++ run (step s k).2 ks := rfl

theorem run_comments (s : St) (cs : List (Nat × Line)) (K : List Kind) :
    run s ((cs.map PLine.comment).map kindOf ++ K) = run s K := by
  induction cs with
  | nil => rfl
  | cons c cs ih =>
    simp only [List.map_cons, List.cons_append, kindOf, run_cons, step_comment, List.nil_append]
    exact ih

/-- a continuation line (indented by five or more, or behind `&`) appends to the open input -/
theorem openWith_cont (b : Nat) (A : List Word) (a : Bool) (indent : Nat) (h : indent ≥ 5 ∨ a = true) :
    openWith ⟨b, some A, a⟩ (decide (indent < 5)) = ([], A) := by
  unfold openWith
  simp only
  rcases h with h | h
  · have : ¬ indent < 5 := by omega
    simp [this]
  · simp [h]

theorem run_lay (ws : List Word) : ∀ (gs : List Gap) (indent : Nat) (first : Word) (rest : List (Nat × Word))
    (trail : Nat) (td : Option Line) (s : St) (K : List Kind), s.block < 3 →
    run s ((layWords indent first rest ws gs trail td).map kindOf ++ K) =
      (openWith s (decide (indent < 5))).1 ++
        run { block := s.block,
              cur := some ((openWith s (decide (indent < 5))).2 ++ first :: rest.map (·.2) ++ ws),
              amp := false } K := by
  induction ws with
  | nil =>
    intro gs indent first rest trail td s K hb
    simp only [layWords, List.map_cons, List.map_nil, List.cons_append, List.nil_append, kindOf, isAmp, run_cons,
      step_data s hb, List.append_nil]
  | cons w' ws ih =>
    intro gs indent first rest trail td s K hb
    have hlist : ∀ (A : List Word) (n : Nat), A ++ first :: (rest ++ [(n, w')]).map (·.2) ++ ws =
        A ++ first :: rest.map (·.2) ++ w' :: ws := by intro A n; simp
    -- what happens after a line `first rest` has been closed with tail flag `a` and a new line starts at `ind`
    have hnext : ∀ (a : Bool) (ind : Nat) (gs' : List Gap), (ind ≥ 5 ∨ a = true) →
        run (step s (.data (decide (indent < 5)) (first :: rest.map (·.2)) a)).2
            ((layWords ind w' [] ws gs' trail td).map kindOf ++ K) =
          run { block := s.block,
                cur := some ((openWith s (decide (indent < 5))).2 ++ first :: rest.map (·.2) ++ w' :: ws),
                amp := false } K := by
      intro a ind gs' hc
      rw [step_data s hb]
      simp only
      have h := ih gs' ind w' [] trail td
        ⟨s.block, some ((openWith s (decide (indent < 5))).2 ++ first :: rest.map (·.2)), a⟩ K hb
      rw [h, openWith_cont _ _ _ _ hc]
      simp
    cases gs with
    | nil =>
      simp only [layWords]
      rw [ih [] indent first _ trail td s K hb, hlist]
    | cons g gs =>
      cases g with
      | blanks n =>
        simp only [layWords]
        rw [ih gs indent first _ trail td s K hb, hlist]
      | newline n =>
        simp only [layWords, List.map_cons, List.cons_append, kindOf, isAmp, run_cons]
        rw [hnext false (5 + n) gs (Or.inl (by omega)), step_data s hb]
      | amp pre t cs n =>
        simp only [layWords, List.map_cons, List.cons_append, List.map_append, List.append_assoc, kindOf, isAmp,
          run_cons]
        rw [run_comments, hnext true n gs (Or.inr rfl), step_data s hb]
        simp
      | dollar pre text n =>
        simp only [layWords, List.map_cons, List.cons_append, kindOf, isAmp, run_cons]
        rw [hnext false (5 + n) gs (Or.inl (by omega)), step_data s hb]
      | comments cs n =>
        simp only [layWords, List.map_cons, List.cons_append, List.map_append, List.append_assoc, kindOf, isAmp,
          run_cons]
        rw [run_comments, hnext false (5 + n) gs (Or.inl (by omega)), step_data s hb]
        simp

/-- the inputs emitted when a new input begins in state `s` -/
def emit (s : St) : List Inp :=
  match s.cur with
  | none => []
  | some acc => [⟨s.block, acc⟩]

/-- one input -/
theorem run_input (L : InputLayout) (w : Word) (ws : List Word) (s : St) (K : List Kind)
    (hb : s.block < 3) (ha : s.amp = false) (hl : L.lead < 5) :
    run s ((layInput L (w :: ws)).map kindOf ++ K) =
      emit s ++ run { block := s.block, cur := some (w :: ws), amp := false } K := by
  unfold layInput
  simp only [List.map_append, List.append_assoc]
  rw [run_comments, run_lay ws L.gaps L.lead w [] L.trail L.trailDollar s K hb]
  unfold openWith emit
  simp only [hl, decide_true, ha, Bool.not_false, Bool.and_self, ↓reduceIte, List.map_nil]
  cases s.cur <;> simp

/-- the physical lines of a sequence of inputs -/
def layInputs : List (InputLayout × List Word) → List PLine
  | [] => []
  | (L, ws) :: t => layInput L ws ++ layInputs t

theorem renderInputs_eq (items : List (InputLayout × List Word)) :
    renderInputs items = (layInputs items).map PLine.str := by
  induction items with
  | nil => rfl
  | cons it items ih =>
    obtain ⟨L, ws⟩ := it
    simp only [renderInputs, layInputs, List.map_append, ih, renderInput]

/-- a sequence of inputs -/
theorem run_inputs (items : List (InputLayout × List Word)) : ∀ (s : St) (K : List Kind),
    s.block < 3 → s.amp = false → (∀ it ∈ items, it.1.lead < 5 ∧ it.2 ≠ []) →
    run s ((layInputs items).map kindOf ++ K) =
      match items.getLast? with
      | none => run s K
      | some last => emit s ++ (items.dropLast.map (fun it => ⟨s.block, it.2⟩)) ++
          run { block := s.block, cur := some last.2, amp := false } K := by
  induction items with
  | nil => intro s K _ _ _; rfl
  | cons it items ih =>
    intro s K hb ha hv
    obtain ⟨L, ws⟩ := it
    obtain ⟨hl, hne⟩ := hv (L, ws) (by simp)
    cases ws with
    | nil => exact absurd rfl hne
    | cons w ws =>
      simp only [layInputs, List.map_append, List.append_assoc]
      rw [run_input L w ws s _ hb ha hl,
        ih ⟨s.block, some (w :: ws), false⟩ K hb rfl (fun it hit => hv it (List.mem_cons_of_mem _ hit))]
      cases items with
      | nil => simp [emit]
      | cons it2 items' =>
        simp only [List.getLast?_cons_cons, List.dropLast_cons_cons, List.map_cons]
        cases hlast : (it2 :: items').getLast? with
        | none => simp at hlast
        | some last => simp [emit]

end MontePyVerif.Layout
