import MontePyVerif.Lemmas.Layout
import MontePyVerif.Lemmas.Flatten
/-!
# Every valid rendering is a file on which the code's rules and MCNP's coincide (lemmas for C11_reader_layout_render)
-/
namespace MontePyVerif.LayoutModel
open MontePyVerif MontePyVerif.Spec MontePyVerif.Layout MontePyVerif.Refine MontePyVerif.Flatten MontePyVerif.LineFacts
open MontePyVerif.ListBasics
open MontePyVerif.Reader (pyIsSpace)

/-- what the *code* needs of a rendered data line beyond `DLineOK`: no character that Python counts as white space
    inside a word, only blanks as white space in a `$` comment, room for the line end, no `#` in columns 1-5 -/
structure DLineM (limit : Nat) (d : DLine) : Prop where
  first : ∀ c ∈ d.first, pyIsSpace c = false
  rest : ∀ p ∈ d.rest, ∀ c ∈ p.2, pyIsSpace c = false
  text : match d.tail with
    | .plain _ (some x) => OnlyBlanks x
    | .dollar _ x => OnlyBlanks x
    | _ => True
  fits : d.str.length < limit
  noHash : (d.str.take Gen.blankSpaceContinue).contains '#' = false

structure CommentM (limit : Nat) (c : Nat × Line) : Prop where
  text : OnlyBlanks c.2
  fits : (commentLine c).length < limit

theorem onlyBlanks_replicate (k : Nat) : OnlyBlanks (List.replicate k ' ') := by
  intro c hc _; exact (List.mem_replicate.mp hc).2

theorem onlyBlanks_of_noSpace {w : Line} (h : ∀ c ∈ w, pyIsSpace c = false) : OnlyBlanks w := by
  intro c hc hs; rw [h c hc] at hs; exact absurd hs (by decide)

theorem onlyBlanks_cons {c : Char} {t : Line} (hc : pyIsSpace c = true → c = ' ') (ht : OnlyBlanks t) :
    OnlyBlanks (c :: t) := by
  intro d hd hs
  rcases List.mem_cons.mp hd with rfl | h
  · exact hc hs
  · exact ht d h hs

theorem onlyBlanks_str {limit : Nat} (d : DLine) (m : DLineM limit d) : OnlyBlanks d.str := by
  unfold DLine.str bodyStr
  refine ((onlyBlanks_replicate _).append ((onlyBlanks_of_noSpace m.first).append ?_)).append ?_
  · intro c hc
    obtain ⟨p, hp, hcp⟩ := List.mem_flatMap.mp hc
    rcases List.mem_append.mp hcp with h | h
    · exact onlyBlanks_replicate _ c h
    · exact onlyBlanks_of_noSpace (m.rest p hp) c h
  · have ht := m.text
    cases htl : d.tail with
    | plain t dl =>
      rw [htl] at ht
      cases dl with
      | none => exact onlyBlanks_replicate _
      | some x =>
        exact (onlyBlanks_replicate _).append
          (onlyBlanks_cons (fun _ => rfl) (onlyBlanks_cons (fun h => absurd h (by decide)) ht))
    | amp pre t =>
      exact (onlyBlanks_replicate _).append (onlyBlanks_cons (fun h => absurd h (by decide)) (onlyBlanks_replicate _))
    | dollar pre x =>
      rw [htl] at ht
      exact (onlyBlanks_replicate _).append (onlyBlanks_cons (fun h => absurd h (by decide)) ht)

theorem no_dollar_of_amp (d : DLine) (hf : WordOK d.first) (hr : ∀ p ∈ d.rest, WordOK p.2) (ha : isAmp d.tail = true) :
    d.str.contains '$' = false := by
  rw [List.contains_eq_mem, decide_eq_false_iff_not]
  intro hm
  unfold DLine.str at hm
  rcases List.mem_append.mp hm with h | h
  · rcases List.mem_append.mp h with h1 | h1
    · have := (List.mem_replicate.mp h1).2; exact absurd this (by decide)
    · have := body_no_dollar d hf hr '$' h1; simp at this
  · cases htl : d.tail with
    | amp pre t =>
      rw [htl] at h
      simp only [tailStr] at h
      rcases List.mem_append.mp h with h1 | h1
      · have := (List.mem_replicate.mp h1).2; exact absurd this (by decide)
      · rcases List.mem_cons.mp h1 with h2 | h2
        · exact absurd h2 (by decide)
        · have := (List.mem_replicate.mp h2).2; exact absurd this (by decide)
    | plain t dl => rw [htl] at ha; simp [isAmp] at ha
    | dollar p x => rw [htl] at ha; simp [isAmp] at ha

theorem takeWhile_first_dollar (x pre post : Line) (e : x = pre ++ '$' :: post) (hp : pre.contains '$' = false) :
    dataPart x = pre := by
  unfold dataPart
  rw [e, takeWhile_append_stop _ _ '$' post _ (by decide)]
  intro c hc
  simp only [decide_eq_true_eq]
  intro ec; subst ec
  simp [List.contains_eq_mem] at hp; exact hp hc

theorem getLast?_append_blanks (A : Line) (k : Nat) : (A ++ List.replicate (k + 1) ' ').getLast? = some ' ' := by
  rw [List.replicate_succ', ← List.append_assoc, List.getLast?_append]; simp

/-- a valid rendered data line is a `GoodLine` -/
theorem goodLine_data {limit : Nat} (d : DLine) (ok : DLineOK limit d) (m : DLineM limit d) : GoodLine limit d.str where
  onlyBlanks := onlyBlanks_str d m
  fits := m.fits
  noVertical := by intro h; rw [m.noHash] at h; exact absurd h (by decide)
  noAmpDollar := by
    intro _ hd
    rw [endsAmp_str d ok.first ok.rest]
    cases ha : isAmp d.tail
    · rfl
    · rw [no_dollar_of_amp d ok.first ok.rest ha] at hd; exact absurd hd (by decide)
  hasWords := by intro _ _; rw [lineWords_str d ok.first ok.rest]; simp
  dollarSpaced := by
    intro _ pre post e hp
    have hdp := takeWhile_first_dollar d.str pre post e hp
    rw [dataPart_str d ok.first ok.rest] at hdp
    right
    rw [← hdp]
    cases htl : d.tail with
    | plain t dl =>
      cases dl with
      | none =>
        exfalso
        have hnd : d.str.contains '$' = false := by
          rw [List.contains_eq_mem, decide_eq_false_iff_not]
          intro hm
          unfold DLine.str at hm
          rw [htl] at hm
          rcases List.mem_append.mp hm with h | h
          · rcases List.mem_append.mp h with h1 | h1
            · have := (List.mem_replicate.mp h1).2; exact absurd this (by decide)
            · have := body_no_dollar d ok.first ok.rest '$' h1; simp at this
          · simp only [tailStr] at h
            have := (List.mem_replicate.mp h).2; exact absurd this (by decide)
        rw [e] at hnd; simp at hnd
      | some x =>
        simp only [dataTail]
        have : List.replicate d.indent ' ' ++ bodyStr d.first d.rest ++ (List.replicate t ' ' ++ [' ']) =
            (List.replicate d.indent ' ' ++ bodyStr d.first d.rest) ++ List.replicate (t + 1) ' ' := by
          rw [List.replicate_succ']
        rw [this]; exact getLast?_append_blanks _ _
    | amp p t =>
      exfalso
      have := no_dollar_of_amp d ok.first ok.rest (by rw [htl]; rfl)
      rw [e] at this; simp at this
    | dollar p x =>
      simp only [dataTail]
      exact getLast?_append_blanks _ _

theorem isCommentLine_commentLine (c : Nat × Line) (h : c.1 < 5) : isCommentLine (commentLine c) = true := by
  have hshape : ∃ tl, commentLine c = List.replicate c.1 ' ' ++ 'c' :: tl ∧ (tl = [] ∨ ∃ tl', tl = ' ' :: tl') := by
    unfold commentLine
    split
    · exact ⟨[], rfl, Or.inl rfl⟩
    · exact ⟨' ' :: c.2, rfl, Or.inr ⟨_, rfl⟩⟩
  obtain ⟨tl, hs, htl⟩ := hshape
  rw [hs]
  unfold isCommentLine
  simp only
  rw [dropWhile_append_stop _ _ 'c' _ (replicate_all _ ' ' _ (by simp)) (by decide)]
  rcases htl with rfl | ⟨tl', rfl⟩
  · simp [isC]; exact h
  · simp [isC]; exact h

/-- a valid rendered C comment line is a `GoodLine` -/
theorem goodLine_comment {limit : Nat} (c : Nat × Line) (ok : CommentOK limit c) (m : CommentM limit c) :
    GoodLine limit (commentLine c) where
  onlyBlanks := by
    unfold commentLine
    apply (onlyBlanks_replicate _).append
    split
    · exact onlyBlanks_cons (fun h => absurd h (by decide)) (fun _ h => by simp at h)
    · exact onlyBlanks_cons (fun h => absurd h (by decide)) (onlyBlanks_cons (fun _ => rfl) m.text)
  fits := m.fits
  noVertical := fun _ => isCommentLine_commentLine c ok.ind
  noAmpDollar := by intro h; rw [isCommentLine_commentLine c ok.ind] at h; exact absurd h (by decide)
  hasWords := by intro _ h; rw [isCommentLine_commentLine c ok.ind] at h; exact absurd h (by decide)
  dollarSpaced := by intro h; rw [isCommentLine_commentLine c ok.ind] at h; exact absurd h (by decide)

def PLineOK (limit : Nat) (pl : PLine) : Prop :=
  match pl with
  | .data d => DLineOK limit d ∧ DLineM limit d
  | .comment c => CommentOK limit c ∧ CommentM limit c

theorem kindOf_ne_blank (pl : PLine) : kindOf pl ≠ .blank := by
  cases pl <;> simp [kindOf]

/-- **every valid rendering is `FileOK`** (read from any block `start < 3`) -/
theorem fileOK_render (limit start : Nat) (hs : start < 3) (pls : List PLine) (h : ∀ pl ∈ pls, PLineOK limit pl) :
    FileOK limit start (pls.map (fun pl => pl.str ++ ['\n'])) (pls.map PLine.str) := by
  refine ⟨pls.map (fun pl => (pl.str, ['\n'])), ?_, ?_, ?_, ?_⟩
  · rw [List.map_map]; rfl
  · rw [List.map_map]; rfl
  · intro q hq
    obtain ⟨pl, hpl, rfl⟩ := List.mem_map.mp hq
    refine ⟨?_, Or.inr rfl⟩
    have := h pl hpl
    cases pl with
    | data d => exact goodLine_data d this.1 this.2
    | comment c => exact goodLine_comment c this.1 this.2
  · apply wt_noBlank start hs
    intro k hk
    rw [List.map_map] at hk
    obtain ⟨pl, hpl, rfl⟩ := List.mem_map.mp hk
    have := h pl hpl
    simp only [Function.comp]
    cases pl with
    | data d =>
      have hc := classify_data d this.1
      rw [classify_good (goodLine_data d this.1 this.2)] at hc
      simp only [PLine.str]; rw [hc]; exact kindOf_ne_blank _
    | comment c =>
      have hc := classify_comment c this.1
      rw [classify_good (goodLine_comment c this.1 this.2)] at hc
      simp only [PLine.str]; rw [hc]; simp

end MontePyVerif.LayoutModel
