import MontePyVerif.Model.LexNum
/-! # Lemmas.LexNum — what the numeric matcher does on ALL spellings of G's `Real` and shortcut rules

Spellings are lists of character kinds built from arbitrary digit lists (a digit is represented by its only
relevant bit: whether it is `0`); the theorems are inductions over those digit lists, no sampling.
-/
set_option linter.unusedSimpArgs false
namespace MontePyVerif.LexNum
open K

/-- a run of digits -/
def digs (zs : List Bool) : List K := zs.map K.dig

@[simp] theorem digs_nil : digs [] = [] := rfl
@[simp] theorem digs_cons (z : Bool) (zs : List Bool) : digs (z :: zs) = K.dig z :: digs zs := rfl
@[simp] theorem digs_length (zs : List Bool) : (digs zs).length = zs.length := by simp [digs]

@[simp] theorem cntD_digs_append (zs : List Bool) (r : List K) : cntD (digs zs ++ r) = zs.length + cntD r := by
  induction zs with
  | nil => simp
  | cons z zs ih => simp [cntD, ih]; omega

@[simp] theorem skipD_digs_append (zs : List Bool) (r : List K) : skipD (digs zs ++ r) = skipD r := by
  induction zs with
  | nil => simp
  | cons z zs ih => simp [skipD, ih]

@[simp] theorem cntD_digs (zs : List Bool) : cntD (digs zs) = zs.length := by
  have := cntD_digs_append zs []; simpa [cntD] using this
@[simp] theorem skipD_digs (zs : List Bool) : skipD (digs zs) = [] := by
  have := skipD_digs_append zs []; simpa [skipD] using this

@[simp] theorem skipD_dot (t : List K) : skipD (K.dot :: t) = K.dot :: t := rfl
@[simp] theorem skipD_e (t : List K) : skipD (K.e :: t) = K.e :: t := rfl
@[simp] theorem skipD_plus (t : List K) : skipD (K.plus :: t) = K.plus :: t := rfl
@[simp] theorem skipD_minus (t : List K) : skipD (K.minus :: t) = K.minus :: t := rfl
@[simp] theorem skipD_m (t : List K) : skipD (K.m :: t) = K.m :: t := rfl
@[simp] theorem skipD_nil : skipD [] = [] := rfl
@[simp] theorem skipD_dig (z : Bool) (t : List K) : skipD (K.dig z :: t) = skipD t := rfl
@[simp] theorem cntD_dot (t : List K) : cntD (K.dot :: t) = 0 := rfl
@[simp] theorem cntD_e (t : List K) : cntD (K.e :: t) = 0 := rfl
@[simp] theorem cntD_plus (t : List K) : cntD (K.plus :: t) = 0 := rfl
@[simp] theorem cntD_minus (t : List K) : cntD (K.minus :: t) = 0 := rfl
@[simp] theorem cntD_m (t : List K) : cntD (K.m :: t) = 0 := rfl
@[simp] theorem cntD_nil : cntD [] = 0 := rfl
@[simp] theorem cntD_dig (z : Bool) (t : List K) : cntD (K.dig z :: t) = cntD t + 1 := rfl

theorem drop_digs_append (zs : List Bool) (r : List K) : (digs zs ++ r).drop zs.length = r := by
  have : zs.length = (digs zs).length := by simp
  rw [this]; exact List.drop_left

/-- the end of a list that ends in a non-empty digit run is a digit -/
theorem headIsDig_reverse_digs (pre : List K) (z : Bool) (zs : List Bool) :
    headIsDig (pre ++ digs (z :: zs)).reverse = true := by
  induction zs generalizing pre z with
  | nil => simp [headIsDig, K.isDig]
  | cons y ys ih =>
    have := ih (pre ++ [K.dig z]) y
    simpa [List.append_assoc] using this

theorem all_digs_zero (zs : List Bool) : (digs zs).all (fun k => k != K.dig false) = zs.all id := by
  induction zs with
  | nil => rfl
  | cons z zs ih => cases z <;> simp [ih]

@[simp] theorem mantPart_digs_append (zs : List Bool) (r : List K) : mantPart (digs zs ++ r) = digs zs ++ mantPart r := by
  induction zs with
  | nil => simp
  | cons z zs ih => simp [mantPart, ih]

/-! ## G's `Real` rule as data
    Real ::= ["+"|"-"] ( Digits | Digits "." [Digits] | "." Digits ) [ ("e"|"E") ["+"|"-"] Digits | ("+"|"-") Digits ]
    (the exponent without a letter requires a "." in the significand; the letter case is gone after `kind`) -/

def signK : Option Bool → List K
  | none => []
  | some true => [K.plus]
  | some false => [K.minus]

/-- the significand: at least one digit -/
inductive MantSp
  | int (z : Bool) (ip : List Bool)                         -- Digits
  | intDot (z : Bool) (ip : List Bool) (fp : List Bool)     -- Digits "." [Digits]
  | dotFrac (z : Bool) (fp : List Bool)                     -- "." Digits

def MantSp.ks : MantSp → List K
  | .int z ip => digs (z :: ip)
  | .intDot z ip fp => digs (z :: ip) ++ K.dot :: digs fp
  | .dotFrac z fp => K.dot :: digs (z :: fp)

def MantSp.hasPoint : MantSp → Bool
  | .int .. => false
  | _ => true

def MantSp.digits : MantSp → List Bool
  | .int z ip => z :: ip
  | .intDot z ip fp => z :: ip ++ fp
  | .dotFrac z fp => z :: fp

/-- the exponent: at least one digit (5.2 allows one to three; the theorems hold for any number) -/
inductive ExpSp
  | none
  | letter (sg : Option Bool) (z : Bool) (ds : List Bool)   -- e [sign] Digits
  | bare (minus : Bool) (z : Bool) (ds : List Bool)         -- sign Digits

def ExpSp.ks : ExpSp → List K
  | .none => []
  | .letter sg z ds => K.e :: (signK sg ++ K.dig z :: digs ds)
  | .bare mn z ds => (if mn then K.minus else K.plus) :: K.dig z :: digs ds

def ExpSp.isBare : ExpSp → Bool
  | .bare .. => true
  | _ => false

structure RealSp where
  sign : Option Bool
  mant : MantSp
  exp : ExpSp

def RealSp.WF (r : RealSp) : Prop := r.exp.isBare = true → r.mant.hasPoint = true
def RealSp.ks (r : RealSp) : List K := signK r.sign ++ (r.mant.ks ++ r.exp.ks)
/-- the value is zero iff every digit of the significand is `0` -/
def RealSp.isZero (r : RealSp) : Bool := r.mant.digits.all id

/-! ### the exponent part, seen by each piece of the matcher -/

theorem exp_numTail (x : ExpSp) : numTail x.ks = x.ks.length := by
  cases x with
  | none => simp [ExpSp.ks, numTail, cntS, skipS, cntD]
  | letter sg z ds => cases sg with
    | none => simp [ExpSp.ks, numTail, signK, cntS, skipS, cntD, K.isSign]; omega
    | some b => cases b <;> simp [ExpSp.ks, numTail, signK, cntS, skipS, cntD, K.isSign] <;> omega
  | bare mn z ds => cases mn <;> simp [ExpSp.ks, numTail, cntS, skipS, cntD, K.isSign] <;> omega

theorem exp_optExp (x : ExpSp) : optExp x.ks = x.ks.length := by
  cases x with
  | none => simp [ExpSp.ks, optExp]
  | letter sg z ds => cases sg with
    | none => simp [ExpSp.ks, optExp, signK, cntS, skipS, cntD, K.isSign]; omega
    | some b => cases b <;> simp [ExpSp.ks, optExp, signK, cntS, skipS, cntD, K.isSign] <;> omega
  | bare mn z ds => cases mn <;> simp [ExpSp.ks, optExp, cntD] <;> omega

theorem exp_mantPart (x : ExpSp) : mantPart x.ks = [] := by
  cases x with
  | none => rfl
  | letter sg z ds => rfl
  | bare mn z ds => cases mn <;> rfl

theorem exp_cntD (x : ExpSp) : cntD x.ks = 0 := by
  cases x with
  | none => rfl
  | letter sg z ds => rfl
  | bare mn z ds => cases mn <;> rfl

theorem exp_skipD (x : ExpSp) : skipD x.ks = x.ks := by
  cases x with
  | none => rfl
  | letter sg z ds => rfl
  | bare mn z ds => cases mn <;> rfl

/-- the exponent part is empty or ends in a digit: `fortran_float` reads the token -/
theorem exp_readable (x : ExpSp) : (x.ks.isEmpty || headIsDig x.ks.reverse) = true := by
  cases x with
  | none => rfl
  | letter sg z ds =>
    have := headIsDig_reverse_digs (K.e :: signK sg) z ds
    simpa [ExpSp.ks] using this
  | bare mn z ds =>
    have := headIsDig_reverse_digs [if mn then K.minus else K.plus] z ds
    simpa [ExpSp.ks] using this

/-- NUMBER_WORD's first pattern cannot go on into the exponent part: no letter there, or the guard stops it -/
theorem exp_blocks_nw1 (x : ExpSp) : (cntL x.ks = 0 || !expGuard x.ks) = true := by
  cases x with
  | none => rfl
  | letter sg z ds => cases sg with
    | none => simp [ExpSp.ks, expGuard, signK, skipS, headIsDig, K.isDig, K.isSign]
    | some b => cases b <;> simp [ExpSp.ks, expGuard, signK, skipS, headIsDig, K.isDig, K.isSign]
  | bare mn z ds => cases mn <;> simp [ExpSp.ks, cntL, K.isLetter]


/-! ### the four matchers on a `Real` spelling -/

/-- the ZAID rule never takes a number of G: after `dddd.dd` comes a digit, the end, a sign, or an `e` that
    starts an exponent (the guard); after `dddd.ddd` never two letters -/
theorem real_zaid (r : RealSp) : matchZaid r.ks = none := by
  obtain ⟨sg, mant, x⟩ := r
  cases sg with
  | some b => cases b <;> simp [RealSp.ks, signK, matchZaid, cntD]
  | none =>
    cases mant with
    | dotFrac z fp => simp [RealSp.ks, signK, MantSp.ks, matchZaid, cntD]
    | int z ip =>
      have h : matchZaid (digs (z :: ip) ++ x.ks) = none := by
        unfold matchZaid
        rw [skipD_digs_append, exp_skipD]
        cases x with
        | none => simp [ExpSp.ks]
        | letter sg z ds => simp [ExpSp.ks]
        | bare mn z ds => cases mn <;> simp [ExpSp.ks]
      simpa [RealSp.ks, signK, MantSp.ks] using h
    | intDot z ip fp =>
      have h : matchZaid (digs (z :: ip) ++ (K.dot :: digs fp ++ x.ks)) = none := by
        unfold matchZaid
        rw [skipD_digs_append, List.cons_append, skipD_dot]
        match fp with
        | [] =>
          cases x with
          | none => simp [ExpSp.ks]
          | letter sg z ds => simp [ExpSp.ks]
          | bare mn z ds => cases mn <;> simp [ExpSp.ks]
        | [a] =>
          cases x with
          | none => simp [ExpSp.ks]
          | letter sg z ds => simp [ExpSp.ks]
          | bare mn z ds => cases mn <;> simp [ExpSp.ks]
        | [a, b] =>
          cases x with
          | none => simp [ExpSp.ks]
          | letter sg z ds =>
            cases sg with
            | none => simp [ExpSp.ks, signK, expGuard, skipS, headIsDig, K.isDig, K.isSign, K.isLetter]
            | some c => cases c <;> simp [ExpSp.ks, signK, expGuard, skipS, headIsDig, K.isDig, K.isSign, K.isLetter]
          | bare mn z ds => cases mn <;> simp [ExpSp.ks, K.isLetter, K.isDig, headIsLetter]
        | [a, b, c] =>
          cases x with
          | none => simp [ExpSp.ks, K.isLetter, K.isDig, headIsLetter]
          | letter sg z ds =>
            cases sg with
            | none => simp [ExpSp.ks, signK, K.isLetter, K.isDig, headIsLetter]
            | some c => cases c <;> simp [ExpSp.ks, signK, K.isLetter, K.isDig, headIsLetter]
          | bare mn z ds => cases mn <;> simp [ExpSp.ks, K.isLetter, K.isDig, headIsLetter]
        | a :: b :: c :: d :: fp' => simp [K.isLetter, K.isDig, headIsLetter]
      simpa [RealSp.ks, signK, MantSp.ks] using h


theorem skipS_mant (sg : Option Bool) (mant : MantSp) (t : List K) :
    skipS (signK sg ++ (mant.ks ++ t)) = mant.ks ++ t ∧ cntS (signK sg ++ (mant.ks ++ t)) = (signK sg).length := by
  cases sg with
  | none => cases mant <;> simp [signK, MantSp.ks, skipS, cntS, K.isSign]
  | some b => cases b <;> simp [signK, skipS, cntS, K.isSign]

/-- the significand, seen by the matchers: its digit count, what follows its digits, its `mantissa` length -/
theorem mant_mantissa (mant : MantSp) (x : ExpSp) : mantissa (mant.ks ++ x.ks) = some mant.ks.length := by
  cases mant with
  | int z ip =>
    have h1 : skipD (digs ip ++ x.ks) = x.ks := by rw [skipD_digs_append, exp_skipD]
    cases x with
    | none => simp [MantSp.ks, mantissa, ExpSp.ks]
    | letter sg z' ds => simp [MantSp.ks, mantissa, ExpSp.ks]
    | bare mn z' ds => cases mn <;> simp [MantSp.ks, mantissa, ExpSp.ks]
  | intDot z ip fp =>
    simp [MantSp.ks, mantissa, exp_cntD]; omega
  | dotFrac z fp =>
    simp [MantSp.ks, mantissa, exp_cntD]; omega

theorem drop_mant (mant : MantSp) (t : List K) : (mant.ks ++ t).drop mant.ks.length = t := List.drop_left

/-- NUMBER_WORD's first pattern: after the digits comes a point, the end, a sign, or an exponent (the guard) -/
theorem real_nw1 (r : RealSp) : matchNW1 r.ks = none := by
  obtain ⟨sg, mant, x⟩ := r
  unfold matchNW1 RealSp.ks
  rw [(skipS_mant sg mant x.ks).1]
  have hb := exp_blocks_nw1 x
  cases mant with
  | int z ip =>
    simp only [MantSp.ks, skipD_digs_append, exp_skipD]
    simp only [Bool.or_eq_true] at hb ⊢
    rcases hb with h | h
    · simp [h]
    · simp [h]
  | intDot z ip fp => simp [MantSp.ks, cntL, K.isLetter]
  | dotFrac z fp => simp [MantSp.ks]

/-- NUMBER_WORD's second pattern needs an `m` right after the number -/
theorem real_nw2 (r : RealSp) : matchNW2 r.ks = none := by
  obtain ⟨sg, mant, x⟩ := r
  simp only [matchNW2, RealSp.ks, (skipS_mant sg mant x.ks).1, mant_mantissa, drop_mant, exp_optExp,
    List.drop_length]

/-- NUMBER takes the whole spelling -/
theorem real_number (r : RealSp) : matchNumber r.ks = some r.ks.length := by
  obtain ⟨sg, mant, x⟩ := r
  unfold matchNumber RealSp.ks
  rw [(skipS_mant sg mant x.ks).1, (skipS_mant sg mant x.ks).2]
  have hx := exp_numTail x
  cases mant with
  | int z ip =>
    cases x with
    | none => simp [MantSp.ks, ExpSp.ks, numTail, cntS, skipS]
    | letter sg' z' ds =>
      have := exp_numTail (.letter sg' z' ds)
      simp only [ExpSp.ks] at this
      simp [MantSp.ks, ExpSp.ks, this]; omega
    | bare mn z' ds =>
      have := exp_numTail (.bare mn z' ds)
      cases mn <;> simp [ExpSp.ks] at this <;> simp [MantSp.ks, ExpSp.ks, this] <;> omega
  | intDot z ip fp =>
    simp [MantSp.ks, exp_cntD, exp_skipD, hx]; omega
  | dotFrac z fp =>
    simp [MantSp.ks, exp_cntD, exp_skipD, hx]; omega


@[simp] theorem mantPart_dot (t : List K) : mantPart (K.dot :: t) = K.dot :: mantPart t := rfl

theorem mant_mantPart (mant : MantSp) (x : ExpSp) : mantPart (mant.ks ++ x.ks) = mant.ks := by
  cases mant <;> simp [MantSp.ks, exp_mantPart, mantPart]

theorem mant_allZero (mant : MantSp) : mant.ks.all (fun k => k != K.dig false) = mant.digits.all id := by
  have hd : (K.dot != K.dig false) = true := by decide
  cases mant with
  | int z ip => simpa [MantSp.ks, MantSp.digits] using all_digs_zero (z :: ip)
  | intDot z ip fp =>
    have h1 := all_digs_zero (z :: ip)
    have h2 := all_digs_zero fp
    simp only [MantSp.ks, MantSp.digits, List.all_append, List.all_cons, List.cons_append, h1, h2, hd,
      Bool.true_and]
    exact Bool.and_assoc _ _ _
  | dotFrac z fp =>
    have h1 := all_digs_zero (z :: fp)
    simp only [MantSp.ks, MantSp.digits, List.all_cons, h1, hd, Bool.true_and]

/-- the NUMBER function: NULL iff the value is zero (every significand digit is 0), else NUMBER; never an error -/
theorem real_numberFn (r : RealSp) : numberFn r.ks = if r.isZero then "NULL" else "NUMBER" := by
  obtain ⟨sg, mant, x⟩ := r
  simp only [numberFn, RealSp.ks, (skipS_mant sg mant x.ks).1, mant_mantPart, drop_mant, exp_readable,
    mant_allZero, RealSp.isZero]
  simp

/-- **Every spelling of G's `Real` rule is one NUMBER token (NULL when its value is zero), whole, in every
    context** — for all digit lists. -/
theorem real_classify (r : RealSp) (nuc : Bool) :
    classify nuc r.ks = some (if r.isZero then "NULL" else "NUMBER", r.ks.length) := by
  have hl : headIsLetter r.ks = false := by
    obtain ⟨sg, mant, x⟩ := r
    cases sg with
    | none => cases mant <;> simp [RealSp.ks, signK, MantSp.ks, headIsLetter, K.isLetter]
    | some b => cases b <;> simp [RealSp.ks, signK, headIsLetter, K.isLetter]
  simp only [classify, hl, real_zaid, real_nw1, real_nw2, real_number, List.take_length, real_numberFn]
  simp


/-! ## counted shortcuts  `<n>r  <n>i  <n>j  <n>ilog`  (n: any non-empty digit run; 5.2 has 1…999) -/

/-- the four letter groups a count can be followed by, with the token type `_parse_shortcut` gives -/
inductive Counted
  | r | i | j | ilog

def Counted.ks : Counted → List K
  | .r => [K.r] | .i => [K.i] | .j => [K.j] | .ilog => [K.i, K.l, K.o, K.g]
def Counted.type : Counted → String
  | .r => "NUM_REPEAT" | .i => "NUM_INTERPOLATE" | .j => "NUM_JUMP" | .ilog => "NUM_LOG_INTERPOLATE"

theorem counted_classify (z : Bool) (ns : List Bool) (c : Counted) (nuc : Bool) :
    classify nuc (digs (z :: ns) ++ c.ks) = some (c.type, (digs (z :: ns) ++ c.ks).length) := by
  have hs : skipS (digs (z :: ns) ++ c.ks) = digs (z :: ns) ++ c.ks := by simp [skipS, K.isSign]
  have hc : cntS (digs (z :: ns) ++ c.ks) = 0 := by simp [cntS, K.isSign]
  have hsk : skipD c.ks = c.ks := by cases c <;> rfl
  have hcd : cntD c.ks = 0 := by cases c <;> rfl
  have hz : matchZaid (digs (z :: ns) ++ c.ks) = none := by
    simp only [matchZaid, skipD_digs_append, hsk]
    cases c <;> simp [Counted.ks]
  have h1 : matchNW1 (digs (z :: ns) ++ c.ks) = some (digs (z :: ns) ++ c.ks).length := by
    simp only [matchNW1, hs, hc, skipD_digs_append, cntD_digs_append, hsk, hcd]
    cases c <;> simp [Counted.ks, cntL, K.isLetter, expGuard] <;> omega
  have hm : isMultiply (digs (z :: ns) ++ c.ks) = false := by
    have hmant : mantissa (digs (z :: ns) ++ c.ks) = some (z :: ns).length := by
      simp only [mantissa, cntD_digs_append, skipD_digs_append, hsk, hcd]
      cases c <;> simp [Counted.ks]
    simp only [isMultiply, hs, hmant, drop_digs_append]
    cases c <;> simp [Counted.ks, numTail, cntS, skipS, K.isSign, cntD]
  have hf : numberWordFn (digs (z :: ns) ++ c.ks) = c.type := by
    simp only [numberWordFn, parseShortcut, skipD_digs_append, hsk, hm]
    cases c <;> simp [Counted.ks, Counted.type] <;> rfl
  have hl : headIsLetter (digs (z :: ns) ++ c.ks) = false := by simp [headIsLetter, K.isLetter]
  simp only [classify, hl, hz, h1, List.take_length, hf]
  simp

/-! ## the multiply shortcut  `<x>m`  for every `Real` spelling x (5.2: Multiply ::= Real "M") -/

theorem expm_numTail (x : ExpSp) : numTail (x.ks ++ [K.m]) = x.ks.length := by
  cases x with
  | none => simp [ExpSp.ks, numTail, cntS, skipS, K.isSign]
  | letter sg z ds => cases sg with
    | none => simp [ExpSp.ks, numTail, signK, cntS, skipS, K.isSign]; omega
    | some b => cases b <;> simp [ExpSp.ks, numTail, signK, cntS, skipS, K.isSign] <;> omega
  | bare mn z ds => cases mn <;> simp [ExpSp.ks, numTail, cntS, skipS, K.isSign] <;> omega

theorem expm_optExp (x : ExpSp) : optExp (x.ks ++ [K.m]) = x.ks.length := by
  cases x with
  | none => simp [ExpSp.ks, optExp]
  | letter sg z ds => cases sg with
    | none => simp [ExpSp.ks, optExp, signK, cntS, skipS, K.isSign]; omega
    | some b => cases b <;> simp [ExpSp.ks, optExp, signK, cntS, skipS, K.isSign] <;> omega
  | bare mn z ds => cases mn <;> simp [ExpSp.ks, optExp] <;> omega

theorem expm_cntD (x : ExpSp) : cntD (x.ks ++ [K.m]) = 0 := by
  cases x with
  | none => rfl
  | letter sg z ds => rfl
  | bare mn z ds => cases mn <;> rfl

theorem expm_skipD (x : ExpSp) : skipD (x.ks ++ [K.m]) = x.ks ++ [K.m] := by
  cases x with
  | none => rfl
  | letter sg z ds => rfl
  | bare mn z ds => cases mn <;> rfl

theorem mantm_mantissa (mant : MantSp) (x : ExpSp) : mantissa (mant.ks ++ (x.ks ++ [K.m])) = some mant.ks.length := by
  cases mant with
  | int z ip =>
    cases x with
    | none => simp [MantSp.ks, mantissa, ExpSp.ks]
    | letter sg z' ds => simp [MantSp.ks, mantissa, ExpSp.ks]
    | bare mn z' ds => cases mn <;> simp [MantSp.ks, mantissa, ExpSp.ks]
  | intDot z ip fp => simp [MantSp.ks, mantissa, expm_cntD]; omega
  | dotFrac z fp => simp [MantSp.ks, mantissa, expm_cntD]; omega

theorem drop_length_append {α : Type} (a b : List α) : (a ++ b).drop a.length = b := List.drop_left

/-- `_parse_shortcut` recognises `<x>m` as MULTIPLY -/
theorem mult_isMultiply (x : RealSp) : isMultiply (x.ks ++ [K.m]) = true := by
  obtain ⟨sg, mant, ex⟩ := x
  have hsk := (skipS_mant sg mant (ex.ks ++ [K.m])).1
  simp only [isMultiply, RealSp.ks, List.append_assoc, hsk, mantm_mantissa, drop_length_append, expm_numTail]
  simp

/-- the part of `<x>m` after its leading digits still ends in `m`: it is none of `i`, `j`, `log`, `ilog` -/
theorem skipD_append_m (a : List K) : skipD (a ++ [K.m]) = skipD a ++ [K.m] := by
  induction a with
  | nil => rfl
  | cons k t ih => cases k <;> simp [skipD, ih]

theorem ends_m_ne (l : List K) (t : List K) (ht : t.getLast? ≠ some K.m) : (l ++ [K.m] == t) = false := by
  have : l ++ [K.m] ≠ t := by
    intro h
    apply ht
    rw [← h]; simp
  simpa using this

theorem mult_numberWordFn (x : RealSp) : numberWordFn (x.ks ++ [K.m]) = "NUM_MULTIPLY" := by
  simp only [numberWordFn, parseShortcut, skipD_append_m, mult_isMultiply]
  rw [ends_m_ne _ [K.i] (by decide), ends_m_ne _ [K.j] (by decide), ends_m_ne _ [K.l, K.o, K.g] (by decide),
    ends_m_ne _ [K.i, K.l, K.o, K.g] (by decide)]
  rfl


theorem mult_nw2 (x : RealSp) : matchNW2 (x.ks ++ [K.m]) = some (x.ks ++ [K.m]).length := by
  obtain ⟨sg, mant, ex⟩ := x
  have hsk := skipS_mant sg mant (ex.ks ++ [K.m])
  simp only [matchNW2, RealSp.ks, List.append_assoc, hsk.1, hsk.2, mantm_mantissa, drop_length_append, expm_optExp]
  simp [headIsLetter]; omega

theorem mult_nw1 (x : RealSp) (n : Nat) (h : matchNW1 (x.ks ++ [K.m]) = some n) : n = (x.ks ++ [K.m]).length := by
  obtain ⟨sg, mant, ex⟩ := x
  have hsk := skipS_mant sg mant (ex.ks ++ [K.m])
  simp only [matchNW1, RealSp.ks, List.append_assoc, hsk.1, hsk.2] at h
  cases mant with
  | int z ip =>
    cases ex with
    | none =>
      simp [MantSp.ks, ExpSp.ks, cntL, K.isLetter, expGuard] at h
      simp [RealSp.ks, MantSp.ks, ExpSp.ks]; omega
    | letter sg' z' ds =>
      cases sg' with
      | none => simp [MantSp.ks, ExpSp.ks, signK, expGuard, skipS, headIsDig, K.isDig, K.isSign] at h
      | some b => cases b <;> simp [MantSp.ks, ExpSp.ks, signK, expGuard, skipS, headIsDig, K.isDig, K.isSign] at h
    | bare mn z' ds => cases mn <;> simp [MantSp.ks, ExpSp.ks, cntL, K.isLetter] at h
  | intDot z ip fp => simp [MantSp.ks, cntL, K.isLetter] at h
  | dotFrac z fp => simp [MantSp.ks] at h

/-- the only `<x>m` the ZAID rule takes: `dddd.ddm` … `dddddd.ddm` without sign and exponent -/
def zaidShaped (x : RealSp) : Bool :=
  match x.sign, x.mant, x.exp with
  | none, .intDot _ ip [_, _], .none => decide (3 ≤ ip.length) && decide (ip.length ≤ 5)
  | _, _, _ => false

theorem mult_zaid (x : RealSp) :
    matchZaid (x.ks ++ [K.m]) = if zaidShaped x then some (x.ks ++ [K.m]).length else none := by
  obtain ⟨sg, mant, ex⟩ := x
  cases sg with
  | some b => cases b <;> simp [RealSp.ks, signK, matchZaid, zaidShaped]
  | none =>
    cases mant with
    | dotFrac z fp => simp [RealSp.ks, signK, MantSp.ks, matchZaid, zaidShaped]
    | int z ip =>
      simp only [RealSp.ks, signK, MantSp.ks, List.nil_append, List.append_assoc, matchZaid, skipD_digs_append,
        expm_skipD, zaidShaped]
      cases ex with
      | none => simp [ExpSp.ks]
      | letter sg z ds => simp [ExpSp.ks]
      | bare mn z ds => cases mn <;> simp [ExpSp.ks]
    | intDot z ip fp =>
      simp only [RealSp.ks, signK, MantSp.ks, List.nil_append, List.append_assoc, List.cons_append, matchZaid,
        skipD_digs_append, skipD_dot, zaidShaped]
      match fp with
      | [] =>
        cases ex with
        | none => simp [ExpSp.ks]
        | letter sg z ds => simp [ExpSp.ks]
        | bare mn z ds => cases mn <;> simp [ExpSp.ks]
      | [a] =>
        cases ex with
        | none => simp [ExpSp.ks]
        | letter sg z ds => simp [ExpSp.ks]
        | bare mn z ds => cases mn <;> simp [ExpSp.ks]
      | [a, b] =>
        cases ex with
        | none =>
          simp [ExpSp.ks, K.isLetter, expGuard, expm_cntD]
        | letter sg z ds =>
          cases sg with
          | none => simp [ExpSp.ks, signK, expGuard, skipS, headIsDig, K.isDig, K.isSign, K.isLetter]
          | some c => cases c <;> simp [ExpSp.ks, signK, expGuard, skipS, headIsDig, K.isDig, K.isSign, K.isLetter]
        | bare mn z ds => cases mn <;> simp [ExpSp.ks, K.isLetter, K.isDig]
      | [a, b, c] =>
        cases ex with
        | none => simp [ExpSp.ks, K.isLetter, K.isDig, headIsLetter]
        | letter sg z ds =>
          cases sg with
          | none => simp [ExpSp.ks, signK, K.isLetter, K.isDig, headIsLetter]
          | some c => cases c <;> simp [ExpSp.ks, signK, K.isLetter, K.isDig, headIsLetter]
        | bare mn z ds => cases mn <;> simp [ExpSp.ks, K.isLetter, K.isDig, headIsLetter]
      | a :: b :: c :: d :: fp' => simp [K.isLetter, K.isDig, headIsLetter]


theorem zaidShaped_inv (x : RealSp) (h : zaidShaped x = true) :
    ∃ z ip a b, x = ⟨none, .intDot z ip [a, b], .none⟩ := by
  obtain ⟨sg, mant, ex⟩ := x
  cases sg with
  | some b => simp [zaidShaped] at h
  | none =>
    cases mant with
    | int z ip => simp [zaidShaped] at h
    | dotFrac z fp => simp [zaidShaped] at h
    | intDot z ip fp =>
      cases ex with
      | letter sg z ds => simp [zaidShaped] at h
      | bare mn z ds => simp [zaidShaped] at h
      | none =>
        match fp with
        | [] => simp [zaidShaped] at h
        | [a] => simp [zaidShaped] at h
        | [a, b] => exact ⟨z, ip, a, b, rfl⟩
        | a :: b :: c :: fp' => simp [zaidShaped] at h

/-- **Every `<x>m` with x a spelling of G's `Real` rule is one multiply-shortcut token** — except the documented
    context-dependent case: `dddd.ddm` on an input that lists nuclides is a ZAID (MontePy 0a90ce7). -/
theorem mult_classify (x : RealSp) (nuc : Bool) :
    classify nuc (x.ks ++ [K.m]) =
      some (if zaidShaped x && nuc then "ZAID" else "NUM_MULTIPLY", (x.ks ++ [K.m]).length) := by
  have hl : headIsLetter (x.ks ++ [K.m]) = false := by
    obtain ⟨sg, mant, ex⟩ := x
    cases sg with
    | none => cases mant <;> simp [RealSp.ks, signK, MantSp.ks, headIsLetter, K.isLetter]
    | some b => cases b <;> simp [RealSp.ks, signK, headIsLetter, K.isLetter]
  have hm := mult_zaid x
  have hw := mult_numberWordFn x
  have h2 := mult_nw2 x
  have h1 := mult_nw1 x
  cases hz : zaidShaped x with
  | true =>
    have hzf : zaidFn nuc (x.ks ++ [K.m]) = if nuc then "ZAID" else "NUM_MULTIPLY" := by
      obtain ⟨z, ip, a, b, rfl⟩ := zaidShaped_inv x hz
      cases nuc <;> simp [zaidFn, RealSp.ks, signK, MantSp.ks, ExpSp.ks, K.isDig, List.reverse_append]
    rw [hz] at hm
    generalize x.ks ++ [K.m] = s at *
    simp only [classify, hl, hm, if_true, List.take_length, hzf, Bool.true_and]
    cases nuc <;> simp
  | false =>
    rw [hz] at hm
    generalize x.ks ++ [K.m] = s at *
    simp only [classify, hl, hm]
    cases h1' : matchNW1 s with
    | some n =>
      have := h1 n h1'
      subst this
      simp [List.take_length, hw]
    | none =>
      simp [h2, List.take_length, hw]

end MontePyVerif.LexNum
