import MontePyVerif.Model.Reader
import MontePyVerif.Spec.TextLayout
import MontePyVerif.Lemmas.ListBasics
/-!
# One line: the model's Python predicates against the Spec's column rules (lemmas for C11 / C20)

`x` is a physical line as the Spec sees it (no line terminator); the model sees `x ++ t` where the
terminator `t` is `"\n"` or (last line of a file) nothing.
-/
namespace MontePyVerif.LineFacts
open MontePyVerif MontePyVerif.ListBasics
open MontePyVerif.Reader (Str pyIsSpace lstrip rstrip strip)

/-- the only white space in the line is the blank (no tab, line end, VT, FF, FS…US) -/
def OnlyBlanks (y : List Char) : Prop := ∀ c ∈ y, pyIsSpace c = true → c = ' '

/-- a line terminator as the file iterator delivers it -/
def IsTerm (t : List Char) : Prop := t = [] ∨ t = ['\n']

theorem head_dropWhile {α} (p : α → Bool) (l : List α) (a : α) (t : List α) (h : l.dropWhile p = a :: t) :
    p a = false := by
  induction l with
  | nil => simp at h
  | cons b l ih =>
    simp only [List.dropWhile_cons] at h
    split at h
    · exact ih h
    · rename_i hb; simp only [List.cons.injEq] at h; rw [← h.1]; simpa using hb

theorem sp_blank : pyIsSpace ' ' = true := by decide
theorem sp_nl : pyIsSpace '\n' = true := by decide

theorem sp_iff {y : List Char} (h : OnlyBlanks y) {c : Char} (hc : c ∈ y) : pyIsSpace c = true ↔ c = ' ' :=
  ⟨h c hc, fun e => by rw [e]; decide⟩

theorem OnlyBlanks.append {a b : List Char} (ha : OnlyBlanks a) (hb : OnlyBlanks b) : OnlyBlanks (a ++ b) := by
  intro c hc; rcases List.mem_append.mp hc with h | h
  · exact ha c h
  · exact hb c h

theorem OnlyBlanks.left {a b : List Char} (h : OnlyBlanks (a ++ b)) : OnlyBlanks a :=
  fun c hc => h c (List.mem_append.mpr (Or.inl hc))

theorem OnlyBlanks.right {a b : List Char} (h : OnlyBlanks (a ++ b)) : OnlyBlanks b :=
  fun c hc => h c (List.mem_append.mpr (Or.inr hc))

theorem OnlyBlanks.take {a : List Char} (h : OnlyBlanks a) (n : Nat) : OnlyBlanks (a.take n) :=
  fun c hc => h c (List.mem_of_mem_take hc)

/-- on such a line dropping Python white space is dropping blanks -/
theorem dropWhile_sp {y : List Char} (h : OnlyBlanks y) : y.dropWhile pyIsSpace = y.dropWhile (· = ' ') := by
  induction y with
  | nil => rfl
  | cons c t ih =>
    have ht : OnlyBlanks t := fun d hd => h d (List.mem_cons_of_mem _ hd)
    simp only [List.dropWhile_cons]
    by_cases hc : c = ' '
    · subst hc; simp [ih ht, sp_blank]
    · have : pyIsSpace c = false := by
        cases hh : pyIsSpace c
        · rfl
        · exact absurd (h c (by simp) hh) hc
      simp [this, hc]

/-! ## strip -/

theorem strip_isEmpty (y : List Char) : (strip y).isEmpty = y.all pyIsSpace := by
  unfold strip lstrip rstrip
  cases hd : y.reverse.dropWhile pyIsSpace with
  | nil =>
    have := (dropWhile_eq_nil _ _).mp hd
    have hall : y.all pyIsSpace = true := List.all_eq_true.mpr (fun c hc => this c (List.mem_reverse.mpr hc))
    simp [hall]
  | cons a t =>
    have ha := head_dropWhile _ _ _ _ hd
    have hmem : a ∈ y := by
      have : a ∈ y.reverse.dropWhile pyIsSpace := by rw [hd]; simp
      exact List.mem_reverse.mp ((List.dropWhile_sublist _).subset this)
    have hall : y.all pyIsSpace = false := by
      cases hh : y.all pyIsSpace
      · rfl
      · have := List.all_eq_true.mp hh a hmem; rw [ha] at this; exact absurd this (by decide)
    rw [hall]
    -- lstrip of (a :: t).reverse: its last element a is not white space, so the result is not empty
    have : ((a :: t).reverse.dropWhile pyIsSpace) ≠ [] := by
      intro hnil
      have := (dropWhile_eq_nil _ _).mp hnil a (by simp)
      rw [ha] at this; exact absurd this (by decide)
    cases hh : (a :: t).reverse.dropWhile pyIsSpace with
    | nil => exact absurd hh this
    | cons => rfl

theorem all_sp_append_term (x t : List Char) (ht : IsTerm t) : (x ++ t).all pyIsSpace = x.all pyIsSpace := by
  rcases ht with rfl | rfl
  · simp
  · simp [List.all_append, sp_nl]

theorem all_sp_eq_blank {x : List Char} (h : OnlyBlanks x) : x.all pyIsSpace = Spec.isBlankLine x := by
  unfold Spec.isBlankLine
  induction x with
  | nil => rfl
  | cons c t ih =>
    have ht : OnlyBlanks t := fun d hd => h d (List.mem_cons_of_mem _ hd)
    simp only [List.all_cons, ih ht]
    congr 1
    by_cases hc : c = ' '
    · subst hc; decide
    · have : pyIsSpace c = false := by
        cases hh : pyIsSpace c
        · rfl
        · exact absurd (h c (by simp) hh) hc
      simp [this, hc]

/-- **L2**: the blank-line test -/
theorem blank_agree (x t : List Char) (hx : OnlyBlanks x) (ht : IsTerm t) :
    (strip (x ++ t)).isEmpty = Spec.isBlankLine x := by
  rw [strip_isEmpty, all_sp_append_term x t ht, all_sp_eq_blank hx]

/-! ## the comment-line test -/

theorem beq_blank_fun : (fun c : Char => c == ' ') = (fun c : Char => decide (c = ' ')) := by
  funext c; by_cases h : c = ' ' <;> simp [h]

theorem takeWhile_append_term (p : Char → Bool) (x t : List Char) (ht : IsTerm t) (hp : p '\n' = false) :
    (x ++ t).takeWhile p = x.takeWhile p := by
  induction x with
  | nil => rcases ht with rfl | rfl <;> simp [List.takeWhile, hp]
  | cons c x ih =>
    simp only [List.cons_append, List.takeWhile_cons]
    split
    · rw [ih]
    · rfl

theorem drop_length_takeWhile {α} (p : α → Bool) (l : List α) : l.drop (l.takeWhile p).length = l.dropWhile p := by
  induction l with
  | nil => rfl
  | cons a t ih =>
    simp only [List.takeWhile_cons, List.dropWhile_cons]
    split
    · simp [ih]
    · simp

theorem length_takeWhile_le {α} (p : α → Bool) (l : List α) : (l.takeWhile p).length ≤ l.length := by
  have := length_takeWhile_add_dropWhile p l; omega

theorem isUpperC_eq (c : Char) : Reader.isUpperC c = Spec.isC c := by
  unfold Reader.isUpperC Spec.isC
  by_cases h1 : c = 'c' <;> by_cases h2 : c = 'C' <;> simp [h1, h2]

/-- **L3**: `is_comment` (after fix 7785a97) is the Spec's column rule -/
theorem comment_agree (x t : List Char) (hx : OnlyBlanks x) (ht : IsTerm t) :
    Reader.isComment (x ++ t) = Spec.isCommentLine x := by
  unfold Reader.isComment Spec.isCommentLine
  simp only
  rw [beq_blank_fun, takeWhile_append_term _ x t ht (by decide)]
  have hlen : x.length - (x.dropWhile (fun c => decide (c = ' '))).length = (x.takeWhile (fun c => decide (c = ' '))).length := by
    have := length_takeWhile_add_dropWhile (fun c => decide (c = ' ')) x; omega
  rw [hlen]
  have hdrop : (x ++ t).drop (x.takeWhile (fun c => decide (c = ' '))).length = x.dropWhile (fun c => decide (c = ' ')) ++ t := by
    rw [List.drop_append_of_le_length (length_takeWhile_le _ _), drop_length_takeWhile]
  rw [hdrop]
  have hg : Gen.blankSpaceContinue = 5 := rfl
  rw [hg]
  by_cases hind : (x.takeWhile (fun c => decide (c = ' '))).length ≥ 5
  · simp [hind]; intro h; omega
  · have hlt : (x.takeWhile (fun c => decide (c = ' '))).length < 5 := by omega
    simp only [hind, ↓reduceIte, hlt, decide_true, Bool.true_and]
    have hsub : ∀ c ∈ x.dropWhile (fun c => decide (c = ' ')), c ∈ x := fun c hc => (List.dropWhile_sublist _).subset hc
    cases hr : x.dropWhile (fun c => decide (c = ' ')) with
    | nil => rcases ht with rfl | rfl <;> simp [Reader.isUpperC]
    | cons c r =>
      cases r with
      | nil => rcases ht with rfl | rfl <;> simp [isUpperC_eq, sp_nl]
      | cons d r =>
        have hd : d ∈ x := hsub d (by rw [hr]; simp)
        simp only [List.cons_append, isUpperC_eq]
        congr 1
        by_cases hdd : d = ' '
        · subst hdd; simp [sp_blank]
        · have : pyIsSpace d = false := by
            cases hh : pyIsSpace d
            · rfl
            · exact absurd (hx d hd hh) hdd
          simp [this, hdd]

/-! ## columns 1-5 -/

theorem all_sp_take_append_term (x t : List Char) (ht : IsTerm t) (n : Nat) :
    ((x ++ t).take n).all pyIsSpace = (x.take n).all pyIsSpace := by
  rcases ht with rfl | rfl
  · simp
  · rw [List.take_append]
    simp only [List.all_append]
    cases h : (n - x.length) with
    | zero => simp
    | succ k => simp [List.take, sp_nl]

theorem not_all_blank_eq_any {l : List Char} : (!(l.all (fun c => decide (c = ' ')))) = l.any (fun c => decide (c ≠ ' ')) := by
  induction l with
  | nil => rfl
  | cons c t ih => simp only [List.all_cons, List.any_cons, Bool.not_and, ih]; simp

/-- **L4**: a non-blank in columns 1-5 -/
theorem starts_agree (x t : List Char) (hx : OnlyBlanks x) (ht : IsTerm t) :
    (!(strip ((x ++ t).take Gen.blankSpaceContinue)).isEmpty) = Spec.startsInput x := by
  have hg : Gen.blankSpaceContinue = 5 := rfl
  rw [hg, strip_isEmpty, all_sp_take_append_term x t ht, all_sp_eq_blank (hx.take 5)]
  unfold Spec.isBlankLine Spec.startsInput
  exact not_all_blank_eq_any

/-- **L5**: a `#` in columns 1-5 -/
theorem hash_agree (x t : List Char) (ht : IsTerm t) :
    ((x ++ t).take Gen.blankSpaceContinue).contains '#' = (x.take Gen.blankSpaceContinue).contains '#' := by
  rcases ht with rfl | rfl
  · simp
  · rw [List.take_append]
    cases h : (Gen.blankSpaceContinue - x.length) with
    | zero => simp
    | succ k => simp [List.take]

/-- **L6**: a line within the limit is not cut -/
theorem take_limit (x t : List Char) (ht : IsTerm t) (limit : Nat) (h : x.length < limit) :
    (x ++ t).take limit = x ++ t := by
  apply List.take_of_length_le
  rcases ht with rfl | rfl <;> simp <;> omega

/-! ## trailing blanks, `rstrip`, `&` -/

/-- the line without its trailing blanks: what the model stores in `input_raw_lines` -/
def rstripB (x : List Char) : List Char := (x.reverse.dropWhile (fun c => decide (c = ' '))).reverse

theorem OnlyBlanks.reverse {x : List Char} (h : OnlyBlanks x) : OnlyBlanks x.reverse :=
  fun c hc => h c (List.mem_reverse.mp hc)

/-- **L8**: `line.rstrip()` -/
theorem rstrip_agree (x t : List Char) (hx : OnlyBlanks x) (ht : IsTerm t) : rstrip (x ++ t) = rstripB x := by
  unfold rstrip rstripB
  rw [List.reverse_append]
  have : ∀ c ∈ t.reverse, pyIsSpace c = true := by
    rcases ht with rfl | rfl
    · simp
    · simp [sp_nl]
  rw [dropWhile_append_of_all _ _ _ this, dropWhile_sp hx.reverse]

theorem rstripB_decomp (x : List Char) : ∃ k, x = rstripB x ++ List.replicate k ' ' := by
  refine ⟨(x.reverse.takeWhile (fun c => decide (c = ' '))).length, ?_⟩
  unfold rstripB
  have h := @List.takeWhile_append_dropWhile _ (fun c => decide (c = ' ')) x.reverse
  have h2 : x = (x.reverse.dropWhile (fun c => decide (c = ' '))).reverse ++ (x.reverse.takeWhile (fun c => decide (c = ' '))).reverse := by
    rw [← List.reverse_append, h, List.reverse_reverse]
  have h3 : (x.reverse.takeWhile (fun c => decide (c = ' '))).reverse =
      List.replicate (x.reverse.takeWhile (fun c => decide (c = ' '))).length ' ' := by
    rw [List.eq_replicate_iff]
    refine ⟨by simp, fun c hc => ?_⟩
    have := mem_takeWhile _ _ _ (List.mem_reverse.mp hc)
    simpa using this
  rw [h3] at h2
  exact h2

theorem OnlyBlanks.rstripB {x : List Char} (h : OnlyBlanks x) : OnlyBlanks (rstripB x) := by
  intro c hc
  apply h c
  unfold LineFacts.rstripB at hc
  exact List.mem_reverse.mp ((List.dropWhile_sublist _).subset (List.mem_reverse.mp hc))

theorem startsWith_amp (l : List Char) :
    Reader.startsWith l ['&', ' '] = (match l with | '&' :: ' ' :: _ => true | _ => false) := by
  match l with
  | [] => rfl
  | [a] => by_cases h : a = '&' <;> simp [Reader.startsWith, h]
  | a :: b :: r =>
    by_cases h : a = '&' <;> by_cases h2 : b = ' ' <;> simp [Reader.startsWith, h, h2]

theorem endsWith_rstripB (x : List Char) : Reader.endsWith (rstripB x) [' ', '&'] = Spec.endsAmp x := by
  unfold Reader.endsWith rstripB Spec.endsAmp
  rw [List.reverse_reverse]
  exact startsWith_amp _

theorem contains_append_term (x t : List Char) (ht : IsTerm t) (c : Char) (hc : c ≠ '\n') :
    (x ++ t).contains c = x.contains c := by
  rcases ht with rfl | rfl
  · simp
  · simp [List.contains_eq_mem, List.mem_append]; intro h; exact absurd h hc

theorem dataPart_of_no_dollar (x : List Char) (h : x.contains '$' = false) : Spec.dataPart x = x := by
  unfold Spec.dataPart
  rw [takeWhile_eq_self]
  intro c hc
  simp only [decide_eq_true_eq]
  intro e; subst e
  simp [List.contains_eq_mem] at h; exact h hc

/-- an `&` in front of a `$` comment: MCNP's data end in `&`, the code does not look in front of the `$` -/
def NoAmpBeforeDollar (x : List Char) : Prop := x.contains '$' = true → Spec.endsAmp (Spec.dataPart x) = false

/-- **L7**: the continuation test (after fixes 7bc85a8, 75939b5) -/
theorem continues_agree (x t : List Char) (hx : OnlyBlanks x) (ht : IsTerm t) (h4 : NoAmpBeforeDollar x) :
    Reader.continues (x ++ t) = Spec.endsAmp (Spec.dataPart x) := by
  unfold Reader.continues
  rw [rstrip_agree x t hx ht, endsWith_rstripB, contains_append_term x t ht '$' (by decide)]
  cases hd : x.contains '$'
  · rw [dataPart_of_no_dollar x hd]; simp
  · rw [h4 hd]; simp

/-! ## words -/

theorem wordsAux_blanks (k : Nat) (cur : List Char) :
    Spec.wordsAux (List.replicate k ' ') cur = Spec.wordsAux [] cur := by
  induction k generalizing cur with
  | zero => rfl
  | succ k ih =>
    simp only [List.replicate_succ, Spec.wordsAux, ↓reduceIte]
    rw [ih]
    cases cur <;> simp [Spec.wordsAux]

theorem wordsAux_append_blanks (y : List Char) (k : Nat) (cur : List Char) :
    Spec.wordsAux (y ++ List.replicate k ' ') cur = Spec.wordsAux y cur := by
  induction y generalizing cur with
  | nil => exact wordsAux_blanks k cur
  | cons c y ih =>
    simp only [List.cons_append, Spec.wordsAux]
    split
    · split <;> simp [ih]
    · exact ih _

theorem endsAmp_append_blanks (y : List Char) (k : Nat) : Spec.endsAmp (y ++ List.replicate k ' ') = Spec.endsAmp y := by
  unfold Spec.endsAmp
  rw [List.reverse_append, List.reverse_replicate,
    dropWhile_append_of_all _ _ _ (replicate_all k ' ' _ (by simp))]

theorem dataPart_append_blanks (y : List Char) (k : Nat) :
    Spec.dataPart (y ++ List.replicate k ' ') =
      if y.contains '$' then Spec.dataPart y else Spec.dataPart y ++ List.replicate k ' ' := by
  unfold Spec.dataPart
  induction y with
  | nil =>
    simp only [List.nil_append, List.contains_nil, Bool.false_eq_true, ↓reduceIte, List.takeWhile_nil]
    rw [takeWhile_eq_self]
    intro c hc; rw [(List.mem_replicate.mp hc).2]; decide
  | cons c y ih =>
    simp only [List.cons_append, List.takeWhile_cons, List.contains_cons]
    by_cases hc : c = '$'
    · subst hc; simp
    · have : ('$' == c) = false := by simp; exact fun e => hc e.symm
      simp only [hc, ne_eq, not_false_eq_true, decide_true, ↓reduceIte, this, Bool.false_or, ih]
      split <;> rfl

/-- the Spec's words of a line do not see trailing blanks -/
theorem lineWords_append_blanks (y : List Char) (k : Nat) :
    Spec.lineWords (y ++ List.replicate k ' ') = Spec.lineWords y := by
  unfold Spec.lineWords Spec.splitWords
  rw [dataPart_append_blanks]
  split
  · rfl
  · simp only [wordsAux_append_blanks, endsAmp_append_blanks]

theorem isBlankLine_append_blanks (y : List Char) (k : Nat) :
    Spec.isBlankLine (y ++ List.replicate k ' ') = Spec.isBlankLine y := by
  unfold Spec.isBlankLine
  rw [List.all_append]
  have : (List.replicate k ' ').all (fun c => decide (c = ' ')) = true :=
    List.all_eq_true.mpr (replicate_all k ' ' _ (by simp))
  rw [this, Bool.and_true]

/-- … nor does the comment-line test -/
theorem isCommentLine_append_blanks (y : List Char) (k : Nat) :
    Spec.isCommentLine (y ++ List.replicate k ' ') = Spec.isCommentLine y := by
  unfold Spec.isCommentLine
  simp only
  by_cases hy : y.dropWhile (fun c => decide (c = ' ')) = []
  · have hall := (dropWhile_eq_nil _ _).mp hy
    rw [dropWhile_append_of_all _ _ _ hall, hy,
      (dropWhile_eq_nil _ _).mpr (replicate_all k ' ' _ (by simp))]
    simp
  · rw [dropWhile_append_of_ne _ _ _ hy]
    have hlen : (y ++ List.replicate k ' ').length - (y.dropWhile (fun c => decide (c = ' ')) ++ List.replicate k ' ').length
        = y.length - (y.dropWhile (fun c => decide (c = ' '))).length := by
      simp only [List.length_append]; omega
    rw [hlen]
    congr 1
    cases hr : y.dropWhile (fun c => decide (c = ' ')) with
    | nil => exact absurd hr hy
    | cons c r =>
      cases r with
      | nil =>
        cases k with
        | zero => rfl
        | succ k => simp [List.replicate_succ]
      | cons d r => rfl

theorem splitWords_agree {y : List Char} (h : OnlyBlanks y) : Reader.pySplit y = Spec.splitWords y := by
  unfold Reader.pySplit Spec.splitWords
  generalize ([] : List Char) = cur
  induction y generalizing cur with
  | nil => cases cur <;> rfl
  | cons c y ih =>
    have ht : OnlyBlanks y := fun d hd => h d (List.mem_cons_of_mem _ hd)
    simp only [Reader.pySplitAux, Spec.wordsAux]
    by_cases hc : c = ' '
    · subst hc; simp only [sp_blank, ↓reduceIte, ih ht]
    · have : pyIsSpace c = false := by
        cases hh : pyIsSpace c
        · rfl
        · exact absurd (h c (by simp) hh) hc
      simp only [this, Bool.false_eq_true, ↓reduceIte, hc, ih ht]

end MontePyVerif.LineFacts
