import MontePyVerif.Model.Links
/-!
Helper lemmas about `Model/Links.lean` for C16: what every container-updating helper guarantees
(`Ext`: geometries untouched, containers only grow, members and links kept), the
specification of `_add_new_children_to_cell`, of the in-place operators and of path updates.
-/
namespace MontePyVerif.Links

theorem memS_iff (st : St) (s : ObjId) (l : List ObjId) : memS st s l = true ↔ s ∈ l := by
  simp [memS]

@[simp] theorem updCell_cellOf (st : St) (c : ObjId) (f : CellSt → CellSt) (x : ObjId) :
    (st.updCell c f).cellOf x = if x = c then f (st.cellOf c) else st.cellOf x := rfl

/-- what every helper that only registers dividers with cells guarantees -/
structure Ext (st st' : St) : Prop where
  geom : ∀ x, (st'.cellOf x).geom = (st.cellOf x).geom
  surfs : ∀ x s, s ∈ (st.cellOf x).surfs → s ∈ (st'.cellOf x).surfs
  comps : ∀ x d, d ∈ (st.cellOf x).comps → d ∈ (st'.cellOf x).comps
  members : ∀ k, st'.members k = st.members k
  linked : ∀ k o, st.linked k o = true → st'.linked k o = true
  mat : ∀ x, (st'.cellOf x).mat = (st.cellOf x).mat
  univ : ∀ x, (st'.cellOf x).univ = (st.cellOf x).univ
  cont : ∀ x, (st.cellOf x).contLinked = true → (st'.cellOf x).contLinked = true
  /-- a surface that is new in a container whose collection is linked to the problem has been linked -/
  newSurf : ∀ x s, s ∈ (st'.cellOf x).surfs →
    s ∈ (st.cellOf x).surfs ∨ ((st.cellOf x).contLinked = true → st'.slink s = true)

theorem Ext.refl (st : St) : Ext st st :=
  ⟨fun _ => rfl, fun _ _ h => h, fun _ _ h => h, fun _ => rfl, fun _ _ h => h, fun _ => rfl, fun _ => rfl,
   fun _ h => h, fun _ _ h => Or.inl h⟩

theorem Ext.trans {a b c : St} (h1 : Ext a b) (h2 : Ext b c) : Ext a c :=
  ⟨fun x => (h2.geom x).trans (h1.geom x),
   fun x s h => h2.surfs x s (h1.surfs x s h), fun x d h => h2.comps x d (h1.comps x d h),
   fun k => (h2.members k).trans (h1.members k), fun k o h => h2.linked k o (h1.linked k o h),
   fun x => (h2.mat x).trans (h1.mat x), fun x => (h2.univ x).trans (h1.univ x),
   fun x h => h2.cont x (h1.cont x h),
   fun x s h => by
     rcases h2.newSurf x s h with hb | hb
     · rcases h1.newSurf x s hb with ha | ha
       · exact Or.inl ha
       · exact Or.inr (fun hc => h2.linked .surface s (ha hc))
     · exact Or.inr (fun hc => hb (h1.cont x hc))⟩

theorem updCell_ext (st : St) (c : ObjId) (f : CellSt → CellSt)
    (hg : (f (st.cellOf c)).geom = (st.cellOf c).geom)
    (hs : (f (st.cellOf c)).surfs = (st.cellOf c).surfs)
    (hc : ∀ d, d ∈ (st.cellOf c).comps → d ∈ (f (st.cellOf c)).comps)
    (hl : (st.cellOf c).link = true → (f (st.cellOf c)).link = true)
    (hm : (f (st.cellOf c)).mat = (st.cellOf c).mat) (hu : (f (st.cellOf c)).univ = (st.cellOf c).univ)
    (hcl : (st.cellOf c).contLinked = true → (f (st.cellOf c)).contLinked = true) :
    Ext st (st.updCell c f) := by
  refine ⟨?_, ?_, ?_, ?_, ?_, ?_, ?_, ?_, ?_⟩
  · intro x; simp only [updCell_cellOf]; split
    · subst_vars; exact hg
    · rfl
  · intro x t ht; simp only [updCell_cellOf]; split
    · subst_vars; rw [hs]; exact ht
    · exact ht
  · intro x t ht; simp only [updCell_cellOf]; split
    · subst_vars; exact hc t ht
    · exact ht
  · intro k; cases k <;> rfl
  · intro k o h
    cases k
    · simp only [St.linked, updCell_cellOf] at h ⊢
      split
      · subst_vars; exact hl h
      · exact h
    all_goals exact h
  · intro x; simp only [updCell_cellOf]; split
    · subst_vars; exact hm
    · rfl
  · intro x; simp only [updCell_cellOf]; split
    · subst_vars; exact hu
    · rfl
  · intro x h; simp only [updCell_cellOf]; split
    · subst_vars; exact hcl h
    · exact h
  · intro x t ht
    simp only [updCell_cellOf] at ht
    split at ht
    · subst_vars; rw [hs] at ht; exact Or.inl ht
    · exact Or.inl ht

theorem linkCell_ext (st : St) (o : ObjId) : Ext st (st.linkCell o) := by
  have hcell : ∀ x, ((st.linkCell o).cellOf x).geom = (st.cellOf x).geom ∧
      ((st.linkCell o).cellOf x).surfs = (st.cellOf x).surfs ∧
      ((st.linkCell o).cellOf x).comps = (st.cellOf x).comps ∧
      ((st.linkCell o).cellOf x).mat = (st.cellOf x).mat ∧
      ((st.linkCell o).cellOf x).univ = (st.cellOf x).univ ∧
      ((st.cellOf x).contLinked = true → ((st.linkCell o).cellOf x).contLinked = true) ∧
      ((st.cellOf x).link = true → ((st.linkCell o).cellOf x).link = true) := by
    intro x
    unfold St.linkCell
    simp only [updCell_cellOf]
    split
    · subst_vars; exact ⟨rfl, rfl, rfl, rfl, rfl, fun _ => rfl, fun _ => rfl⟩
    · exact ⟨rfl, rfl, rfl, rfl, rfl, fun h => h, fun h => h⟩
  refine ⟨fun x => (hcell x).1, fun x t ht => by rw [(hcell x).2.1]; exact ht,
    fun x t ht => by rw [(hcell x).2.2.1]; exact ht, ?_, ?_, fun x => (hcell x).2.2.2.1,
    fun x => (hcell x).2.2.2.2.1, fun x => (hcell x).2.2.2.2.2.1,
    fun x t ht => Or.inl (by rw [(hcell x).2.1] at ht; exact ht)⟩
  · intro k; cases k <;> rfl
  · intro k x h
    cases k
    · exact (hcell x).2.2.2.2.2.2 h
    all_goals (unfold St.linkCell; simp only [St.linked] at h ⊢; first | exact h | (split <;> first | rfl | exact h))

theorem cellSurfAppend_spec (st : St) (c s : ObjId) :
    Ext st (cellSurfAppend st c s).1 ∧
    ((cellSurfAppend st c s).2 = none → s ∈ ((cellSurfAppend st c s).1.cellOf c).surfs) := by
  unfold cellSurfAppend
  simp only
  split
  · exact ⟨Ext.refl st, fun h => by cases h⟩
  · refine ⟨⟨?_, ?_, ?_, ?_, ?_, ?_, ?_, ?_, ?_⟩, fun _ => by simp⟩
    · intro x; simp only [updCell_cellOf]; split <;> (try subst_vars) <;> rfl
    · intro x t ht; simp only [updCell_cellOf]; split
      · subst_vars; simp [ht]
      · exact ht
    · intro x t ht; simp only [updCell_cellOf]; split <;> (try subst_vars) <;> exact ht
    · intro k; cases k <;> rfl
    · intro k o h
      cases k
      · simp only [St.linked, updCell_cellOf] at h ⊢
        split <;> (try subst_vars) <;> exact h
      · simp only [St.linked] at h ⊢
        split
        · simp only [upd]; split
          · rfl
          · exact h
        · exact h
      all_goals exact h
    · intro x; simp only [updCell_cellOf]; split <;> (try subst_vars) <;> rfl
    · intro x; simp only [updCell_cellOf]; split <;> (try subst_vars) <;> rfl
    · intro x h; simp only [updCell_cellOf]; split <;> (try subst_vars) <;> exact h
    · intro x t ht
      simp only [updCell_cellOf] at ht
      split at ht
      · subst_vars
        simp only [List.mem_append, List.mem_singleton] at ht
        rcases ht with ht | rfl
        · exact Or.inl ht
        · refine Or.inr (fun hc => ?_)
          simp [hc, upd]
      · exact Or.inl ht

theorem cellCompAppend_spec (st : St) (c d : ObjId) :
    Ext st (cellCompAppend st c d).1 ∧
    ((cellCompAppend st c d).2 = none → d ∈ ((cellCompAppend st c d).1.cellOf c).comps) := by
  unfold cellCompAppend
  simp only
  split
  · exact ⟨Ext.refl st, fun h => by cases h⟩
  · have e1 : Ext st (st.updCell c (fun cs => { cs with comps := cs.comps ++ [d] })) :=
      updCell_ext st c _ rfl rfl (fun t ht => by simp [ht]) (fun h => h) rfl rfl (fun h => h)
    have hm : d ∈ ((st.updCell c (fun cs => { cs with comps := cs.comps ++ [d] })).cellOf c).comps := by simp
    split
    · have e2 := linkCell_ext (st.updCell c (fun cs => { cs with comps := cs.comps ++ [d] })) d
      exact ⟨e1.trans e2, fun _ => e2.comps c d hm⟩
    · exact ⟨e1, fun _ => hm⟩

theorem addSurfs_spec (c : ObjId) : ∀ (l : List ObjId) (st : St),
    Ext st (addSurfs c l st).1 ∧
    ((addSurfs c l st).2 = none → ∀ s ∈ l, s ∈ ((addSurfs c l st).1.cellOf c).surfs) := by
  intro l
  induction l with
  | nil => intro st; exact ⟨Ext.refl st, fun _ s hs => by cases hs⟩
  | cons a t ih =>
    intro st
    simp only [addSurfs]
    split
    · rename_i hm
      obtain ⟨e, hs⟩ := ih st
      refine ⟨e, fun hok s hmem => ?_⟩
      rcases List.mem_cons.mp hmem with rfl | ht
      · exact e.surfs c _ ((memS_iff _ _ _).mp hm)
      · exact hs hok s ht
    · have hsp := cellSurfAppend_spec st c a
      split
      · rename_i st1 heq
        rw [heq] at hsp
        obtain ⟨e, hs⟩ := ih st1
        refine ⟨hsp.1.trans e, fun hok s hmem => ?_⟩
        rcases List.mem_cons.mp hmem with rfl | ht
        · exact e.surfs c _ (hsp.2 rfl)
        · exact hs hok s ht
      · rename_i r hne
        refine ⟨hsp.1, fun hok => ?_⟩
        exfalso
        apply hne (cellSurfAppend st c a).1
        exact Prod.ext rfl hok

theorem addComps_spec (c : ObjId) : ∀ (l : List ObjId) (st : St),
    Ext st (addComps c l st).1 ∧
    ((addComps c l st).2 = none → ∀ d ∈ l, d ∈ ((addComps c l st).1.cellOf c).comps) := by
  intro l
  induction l with
  | nil => intro st; exact ⟨Ext.refl st, fun _ s hs => by cases hs⟩
  | cons a t ih =>
    intro st
    simp only [addComps]
    split
    · rename_i hm
      obtain ⟨e, hs⟩ := ih st
      refine ⟨e, fun hok s hmem => ?_⟩
      rcases List.mem_cons.mp hmem with rfl | ht
      · exact e.comps c _ (by simpa using hm)
      · exact hs hok s ht
    · have hsp := cellCompAppend_spec st c a
      split
      · rename_i st1 heq
        rw [heq] at hsp
        obtain ⟨e, hs⟩ := ih st1
        refine ⟨hsp.1.trans e, fun hok s hmem => ?_⟩
        rcases List.mem_cons.mp hmem with rfl | ht
        · exact e.comps c _ (hsp.2 rfl)
        · exact hs hok s ht
      · rename_i r hne
        refine ⟨hsp.1, fun hok => ?_⟩
        exfalso
        apply hne (cellCompAppend st c a).1
        exact Prod.ext rfl hok

/-- the tree `g` is registered with cell `c`: every node points at `c`, every divider is in the containers -/
def Good (st : St) (c : ObjId) (g : HS) : Prop :=
  g.allCell c = true ∧ (∀ s ∈ g.surfs, s ∈ (st.cellOf c).surfs) ∧ (∀ d ∈ g.comps, d ∈ (st.cellOf c).comps)

theorem Good.ext {st st' : St} {c : ObjId} {g : HS} (h : Good st c g) (e : Ext st st') : Good st' c g :=
  ⟨h.1, fun s hs => e.surfs c s (h.2.1 s hs), fun d hd => e.comps c d (h.2.2 d hd)⟩

theorem memS_of_mem (st : St) (s : ObjId) (l : List ObjId) (h : s ∈ l) : memS st s l = true :=
  (memS_iff st s l).mpr h

theorem memS_mono (st : St) (s : ObjId) (l l' : List ObjId) (hsub : ∀ x ∈ l, x ∈ l') (h : memS st s l = true) :
    memS st s l' = true :=
  (memS_iff st s l').mpr (hsub s ((memS_iff st s l).mp h))

/-- the first pass over the surfaces: everything that was looked at is `in` the container or among the new ones -/
theorem newSurfs_spec (st : St) (c : ObjId) : ∀ (l acc ns : List ObjId), newSurfs st c l acc = some ns →
    (∀ x ∈ acc, x ∈ ns) ∧ (∀ s ∈ l, memS st s (st.cellOf c).surfs = true ∨ memS st s ns = true) := by
  intro l
  induction l with
  | nil => intro acc ns h; simp only [newSurfs] at h; cases h; exact ⟨fun _ h => h, fun s hs => by cases hs⟩
  | cons a t ih =>
    intro acc ns h
    simp only [newSurfs] at h
    split at h
    · rename_i hm
      obtain ⟨h1, h2⟩ := ih acc ns h
      refine ⟨h1, fun s hs => ?_⟩
      rcases List.mem_cons.mp hs with rfl | ht
      · rcases Bool.or_eq_true _ _ ▸ hm with hm | hm
        · exact Or.inl hm
        · exact Or.inr (memS_mono st _ acc ns h1 hm)
      · exact h2 s ht
    · split at h
      · cases h
      · obtain ⟨h1, h2⟩ := ih (acc ++ [a]) ns h
        refine ⟨fun x hx => h1 x (List.mem_append_left _ hx), fun s hs => ?_⟩
        rcases List.mem_cons.mp hs with rfl | ht
        · exact Or.inr (memS_of_mem st _ ns (h1 _ (by simp)))
        · exact h2 s ht

theorem newComps_spec (st : St) (c : ObjId) : ∀ (l acc nc : List ObjId), newComps st c l acc = some nc →
    (∀ x ∈ acc, x ∈ nc) ∧ (∀ d ∈ l, d ∈ (st.cellOf c).comps ∨ d ∈ nc) := by
  intro l
  induction l with
  | nil => intro acc nc h; simp only [newComps] at h; cases h; exact ⟨fun _ h => h, fun s hs => by cases hs⟩
  | cons a t ih =>
    intro acc nc h
    simp only [newComps] at h
    split at h
    · rename_i hm
      obtain ⟨h1, h2⟩ := ih acc nc h
      refine ⟨h1, fun s hs => ?_⟩
      rcases List.mem_cons.mp hs with rfl | ht
      · rcases Bool.or_eq_true _ _ ▸ hm with hm | hm
        · exact Or.inl (by simpa using hm)
        · exact Or.inr (h1 _ (by simpa using hm))
      · exact h2 s ht
    · split at h
      · cases h
      · obtain ⟨h1, h2⟩ := ih (acc ++ [a]) nc h
        refine ⟨fun x hx => h1 x (List.mem_append_left _ hx), fun s hs => ?_⟩
        rcases List.mem_cons.mp hs with rfl | ht
        · exact Or.inr (h1 _ (by simp))
        · exact h2 s ht

theorem addChildren_spec (st : St) (c : ObjId) (other : HS) :
    Ext st (addChildren st c other).1 ∧
    ((addChildren st c other).2 = none →
      (∀ s ∈ other.surfs, s ∈ ((addChildren st c other).1.cellOf c).surfs) ∧
      (∀ d ∈ other.comps, d ∈ ((addChildren st c other).1.cellOf c).comps)) := by
  unfold addChildren
  split
  · rename_i nc ns hnc hns
    have hc := (newComps_spec st c _ _ _ hnc).2
    have hs := (newSurfs_spec st c _ _ _ hns).2
    have h1 := addComps_spec c nc st
    split
    · rename_i st1 heq
      rw [heq] at h1
      have h2 := addSurfs_spec c ns st1
      refine ⟨h1.1.trans h2.1, fun hok => ⟨fun s hs' => ?_, fun d hd => ?_⟩⟩
      · rcases hs s hs' with hm | hm
        · exact h2.1.surfs c s (h1.1.surfs c s ((memS_iff _ _ _).mp hm))
        · exact h2.2 hok s ((memS_iff _ _ _).mp hm)
      · rcases hc d hd with hm | hm
        · exact h2.1.comps c d (h1.1.comps c d hm)
        · exact h2.1.comps c d (h1.2 rfl d hm)
    · rename_i r hne
      refine ⟨h1.1, fun hok => ?_⟩
      exfalso
      apply hne (addComps c nc st).1
      exact Prod.ext rfl hok
  · exact ⟨Ext.refl st, fun h => by cases h⟩

@[simp] theorem setCell_surfs (c : ObjId) (g : HS) : (g.setCell c).surfs = g.surfs := by
  induction g with
  | leaf ic d s p => rfl
  | compl l p ih => simpa [HS.setCell, HS.surfs] using ih
  | bin u l r p ihl ihr => simp [HS.setCell, HS.surfs, ihl, ihr]

@[simp] theorem setCell_comps (c : ObjId) (g : HS) : (g.setCell c).comps = g.comps := by
  induction g with
  | leaf ic d s p => rfl
  | compl l p ih => simpa [HS.setCell, HS.comps] using ih
  | bin u l r p ihl ihr => simp [HS.setCell, HS.comps, ihl, ihr]

@[simp] theorem setCell_allCell (c : ObjId) (g : HS) : (g.setCell c).allCell c = true := by
  induction g with
  | leaf ic d s p => simp [HS.setCell, HS.allCell]
  | compl l p ih => simp [HS.setCell, HS.allCell, ih]
  | bin u l r p ihl ihr => simp [HS.setCell, HS.allCell, ihl, ihr]

theorem setCell_of_allCell (c : ObjId) (g : HS) (h : g.allCell c = true) : g.setCell c = g := by
  induction g with
  | leaf ic d s p => simp [HS.allCell] at h; simp [HS.setCell, h]
  | compl l p ih => simp [HS.allCell] at h; simp [HS.setCell, h.1, ih h.2]
  | bin u l r p ihl ihr => simp [HS.allCell] at h; simp [HS.setCell, h.1.1, ihl h.1.2, ihr h.2]

/-- the validator of `left`/`right` on a node that points at `c` -/
theorem linkChild_spec (st : St) (c : ObjId) (child : HS) :
    Ext st (linkChild st (some c) child).1.1 ∧
    ((linkChild st (some c) child).1.2 = none → (linkChild st (some c) child).2 = child.setCell c) ∧
    ((linkChild st (some c) child).1.2 = none →
      Good (linkChild st (some c) child).1.1 c (child.setCell c)) := by
  have h := addChildren_spec st c child
  unfold linkChild
  simp only
  generalize addChildren st c child = r at h ⊢
  obtain ⟨st1, e⟩ := r
  cases e with
  | some err =>
    dsimp only at h ⊢
    exact ⟨h.1, fun hh => (by cases hh), fun hh => (by cases hh)⟩
  | none =>
    dsimp only at h ⊢
    refine ⟨h.1, fun _ => rfl, fun _ => ?_⟩
    have := h.2 rfl
    exact ⟨setCell_allCell c child, by simpa using this.1, by simpa using this.2⟩

theorem good_bin {st : St} {c : ObjId} {u : Bool} {l r : HS} {p : Option ObjId} :
    Good st c (.bin u l r p) ↔ p = some c ∧ Good st c l ∧ Good st c r := by
  unfold Good
  simp only [HS.allCell, HS.surfs, HS.comps, Bool.and_eq_true, beq_iff_eq, List.mem_append]
  constructor
  · rintro ⟨⟨⟨hp, hl⟩, hr⟩, hs, hc⟩
    exact ⟨hp, ⟨hl, fun s h => hs s (Or.inl h), fun d h => hc d (Or.inl h)⟩,
      ⟨hr, fun s h => hs s (Or.inr h), fun d h => hc d (Or.inr h)⟩⟩
  · rintro ⟨hp, ⟨hl, hls, hlc⟩, ⟨hr, hrs, hrc⟩⟩
    exact ⟨⟨⟨hp, hl⟩, hr⟩, fun s h => h.elim (hls s) (hrs s), fun d h => h.elim (hlc d) (hrc d)⟩

theorem good_compl {st : St} {c : ObjId} {l : HS} {p : Option ObjId} :
    Good st c (.compl l p) ↔ p = some c ∧ Good st c l := by
  unfold Good
  simp only [HS.allCell, HS.surfs, HS.comps, Bool.and_eq_true, beq_iff_eq]
  constructor
  · rintro ⟨⟨hp, hl⟩, hs, hc⟩; exact ⟨hp, hl, hs, hc⟩
  · rintro ⟨hp, hl, hs, hc⟩; exact ⟨⟨hp, hl⟩, hs, hc⟩

theorem iopTail_spec (u0 : Bool) (l : HS) (c : ObjId) (other : HS) (st1 : St) (r1 newRight : HS)
    (hgl : Good st1 c l) (hr1 : Good st1 c r1) :
    Ext st1 (iopTail u0 l (some c) other st1 r1 newRight).1.1 ∧
    Good (iopTail u0 l (some c) other st1 r1 newRight).1.1 c (iopTail u0 l (some c) other st1 r1 newRight).2.1 := by
  unfold iopTail
  have hl := linkChild_spec st1 c newRight
  generalize linkChild st1 (some c) newRight = lres at hl ⊢
  obtain ⟨⟨st2, e2⟩, r2⟩ := lres
  cases e2 with
  | some err => exact ⟨hl.1, good_bin.mpr ⟨rfl, hgl.ext hl.1, hr1.ext hl.1⟩⟩
  | none =>
    have hg2 : Good st2 c r2 := by
      have h1 := hl.2.1 rfl
      have h2 := hl.2.2 rfl
      simp only at h1 h2
      rw [h1]; exact h2
    have ha := addChildren_spec st2 c other
    exact ⟨hl.1.trans ha.1, good_bin.mpr ⟨rfl, hgl.ext (hl.1.trans ha.1), hg2.ext ha.1⟩⟩

/-- `__iand__` / `__ior__` in place: whatever happens (also when the operand is refused), the tree
    that stays in the cell is registered with the cell. -/
theorem iop_spec (u : Bool) (c : ObjId) (other : HS) : ∀ (self : HS) (st : St),
    Good st c self →
    Ext st (iop u st self other).1.1 ∧ Good (iop u st self other).1.1 c (iop u st self other).2.1 := by
  intro self
  induction self with
  | leaf ic d s p => intro st hg; simp only [iop]; exact ⟨Ext.refl st, hg⟩
  | compl l p _ => intro st hg; simp only [iop]; exact ⟨Ext.refl st, hg⟩
  | bin u0 l r p _ ihr =>
    intro st hg
    obtain ⟨hp, hgl, hgr⟩ := good_bin.mp hg
    subst hp
    by_cases hu : (u0 != u) = true
    · cases r <;> (simp only [iop, hu, if_true]; exact ⟨Ext.refl st, hg⟩)
    · cases r with
      | leaf ic d s q =>
        simp only [iop, hu, if_false, Bool.false_eq_true]
        have hl := linkChild_spec st c (.bin u (.leaf ic d s q) other none)
        generalize linkChild st (some c) (.bin u (.leaf ic d s q) other none) = lres at hl ⊢
        obtain ⟨⟨st1, e1⟩, child⟩ := lres
        cases e1 with
        | some err => exact ⟨hl.1, good_bin.mpr ⟨rfl, hgl.ext hl.1, hgr.ext hl.1⟩⟩
        | none =>
          have hc := hl.2.1 rfl
          have hgood := hl.2.2 rfl
          simp only at hc hgood
          refine ⟨hl.1, good_bin.mpr ⟨rfl, hgl.ext hl.1, ?_⟩⟩
          rw [hc]; exact hgood
      | compl rl rq =>
        simp only [iop, hu, if_false, Bool.false_eq_true]
        exact iopTail_spec u0 l c other st _ _ hgl hgr
      | bin ru rl rr rq =>
        rw [iop]
        case x_4 => intro _ _ _ _ h; cases h
        simp only [hu, if_false, Bool.false_eq_true]
        have ih := ihr st hgr
        generalize iop u st (.bin ru rl rr rq) other = res at ih ⊢
        obtain ⟨⟨st1, e1⟩, r1, ret⟩ := res
        cases e1 with
        | some err => exact ⟨ih.1, good_bin.mpr ⟨rfl, hgl.ext ih.1, ih.2⟩⟩
        | none =>
          have := iopTail_spec u0 l c other st1 r1 (retOr r1 ret) (hgl.ext ih.1) ih.2
          exact ⟨ih.1.trans this.1, this.2⟩

/-- a sub-tree of a registered tree is registered -/
theorem good_get {st : St} {c : ObjId} : ∀ (g : HS) (path : List Bool) (n : HS),
    Good st c g → g.get? path = some n → Good st c n := by
  intro g
  induction g with
  | leaf ic d s p =>
    intro path n hg h
    cases path with
    | nil => simp only [HS.get?] at h; cases h; exact hg
    | cons b t => simp [HS.get?] at h
  | compl l p ih =>
    intro path n hg h
    cases path with
    | nil => simp only [HS.get?] at h; cases h; exact hg
    | cons b t =>
      cases b with
      | false => simp only [HS.get?] at h; exact ih t n (good_compl.mp hg).2 h
      | true => simp [HS.get?] at h
  | bin u l r p ihl ihr =>
    intro path n hg h
    cases path with
    | nil => simp only [HS.get?] at h; cases h; exact hg
    | cons b t =>
      cases b with
      | false => simp only [HS.get?] at h; exact ihl t n (good_bin.mp hg).2.1 h
      | true => simp only [HS.get?] at h; exact ihr t n (good_bin.mp hg).2.2 h

/-- replacing a sub-tree of a registered tree by a registered tree gives a registered tree -/
theorem good_set {st : St} {c : ObjId} : ∀ (g : HS) (path : List Bool) (n : HS),
    Good st c g → Good st c n → Good st c (g.set path n) := by
  intro g
  induction g with
  | leaf ic d s p =>
    intro path n hg hn
    cases path with
    | nil => exact hn
    | cons b t => simpa [HS.set] using hg
  | compl l p ih =>
    intro path n hg hn
    cases path with
    | nil => exact hn
    | cons b t =>
      cases b with
      | false =>
        simp only [HS.set]
        exact good_compl.mpr ⟨(good_compl.mp hg).1, ih t n (good_compl.mp hg).2 hn⟩
      | true => simpa [HS.set] using hg
  | bin u l r p ihl ihr =>
    intro path n hg hn
    obtain ⟨hp, hl, hr⟩ := good_bin.mp hg
    cases path with
    | nil => exact hn
    | cons b t =>
      cases b with
      | false => simp only [HS.set]; exact good_bin.mpr ⟨hp, ihl t n hl hn, hr⟩
      | true => simp only [HS.set]; exact good_bin.mpr ⟨hp, hl, ihr t n hr hn⟩

end MontePyVerif.Links

namespace MontePyVerif.Links

/-! ### links only: members untouched, `_problem` pointers only ever set (unconditional) -/

structure LinkExt (st st' : St) : Prop where
  members : ∀ k, st'.members k = st.members k
  linked : ∀ k o, st.linked k o = true → st'.linked k o = true

theorem LinkExt.refl (st : St) : LinkExt st st := ⟨fun _ => rfl, fun _ _ h => h⟩

theorem LinkExt.trans {a b c : St} (h1 : LinkExt a b) (h2 : LinkExt b c) : LinkExt a c :=
  ⟨fun k => (h2.members k).trans (h1.members k), fun k o h => h2.linked k o (h1.linked k o h)⟩

theorem Ext.linkExt {st st' : St} (e : Ext st st') : LinkExt st st' := ⟨e.members, e.linked⟩

theorem linkExt_updCell (st : St) (c : ObjId) (f : CellSt → CellSt)
    (hl : (st.cellOf c).link = true → (f (st.cellOf c)).link = true) : LinkExt st (st.updCell c f) := by
  refine ⟨fun k => by cases k <;> rfl, fun k o h => ?_⟩
  cases k
  · simp only [St.linked, updCell_cellOf] at h ⊢
    split
    · subst_vars; exact hl h
    · exact h
  all_goals exact h

theorem iopTail_linkExt (u0 : Bool) (l : HS) (p : Option ObjId) (other : HS) (st1 : St) (r1 newRight : HS) :
    LinkExt st1 (iopTail u0 l p other st1 r1 newRight).1.1 := by
  unfold iopTail
  cases p with
  | none => simp only [linkChild]; exact LinkExt.refl st1
  | some c =>
    have hl := (linkChild_spec st1 c newRight).1
    generalize linkChild st1 (some c) newRight = lres at hl ⊢
    obtain ⟨⟨st2, e2⟩, r2⟩ := lres
    cases e2 with
    | some err => exact hl.linkExt
    | none => exact hl.linkExt.trans (addChildren_spec st2 c other).1.linkExt

theorem iop_linkExt (u : Bool) (other : HS) : ∀ (self : HS) (st : St),
    LinkExt st (iop u st self other).1.1 := by
  intro self
  induction self with
  | leaf ic d s p => intro st; simp only [iop]; exact LinkExt.refl st
  | compl l p _ => intro st; simp only [iop]; exact LinkExt.refl st
  | bin u0 l r p _ ihr =>
    intro st
    by_cases hu : (u0 != u) = true
    · cases r <;> (simp only [iop, hu, if_true]; exact LinkExt.refl st)
    · cases r with
      | leaf ic d s q =>
        simp only [iop, hu, if_false, Bool.false_eq_true]
        cases p with
        | none => simp only [linkChild]; exact LinkExt.refl st
        | some c =>
          have hl := (linkChild_spec st c (.bin u (.leaf ic d s q) other none)).1
          generalize linkChild st (some c) (.bin u (.leaf ic d s q) other none) = lres at hl ⊢
          obtain ⟨⟨st2, e2⟩, r2⟩ := lres
          cases e2 <;> exact hl.linkExt
      | compl rl rq =>
        simp only [iop, hu, if_false, Bool.false_eq_true]
        exact iopTail_linkExt u0 l p other st _ _
      | bin ru rl rr rq =>
        rw [iop]
        case x_4 => intro _ _ _ _ h; cases h
        simp only [hu, if_false, Bool.false_eq_true]
        have ih := ihr st
        generalize iop u st (.bin ru rl rr rq) other = res at ih ⊢
        obtain ⟨⟨st1, e1⟩, r1, ret⟩ := res
        cases e1 with
        | some err => exact ih
        | none => exact ih.trans (iopTail_linkExt u0 l p other st1 r1 (retOr r1 ret))

/-! ### what the geometry helpers guarantee about the things a cell points at -/

/-- members untouched, links only set, material / universe of every cell untouched, linked containers stay
    linked, and a surface that is new in a linked container has been linked -/
structure PExt (st st' : St) : Prop where
  members : ∀ k, st'.members k = st.members k
  linked : ∀ k o, st.linked k o = true → st'.linked k o = true
  mat : ∀ x, (st'.cellOf x).mat = (st.cellOf x).mat
  univ : ∀ x, (st'.cellOf x).univ = (st.cellOf x).univ
  cont : ∀ x, (st.cellOf x).contLinked = true → (st'.cellOf x).contLinked = true
  newSurf : ∀ x s, s ∈ (st'.cellOf x).surfs →
    s ∈ (st.cellOf x).surfs ∨ ((st.cellOf x).contLinked = true → st'.slink s = true)

theorem PExt.refl (st : St) : PExt st st :=
  ⟨fun _ => rfl, fun _ _ h => h, fun _ => rfl, fun _ => rfl, fun _ h => h, fun _ _ h => Or.inl h⟩

theorem PExt.trans {a b c : St} (h1 : PExt a b) (h2 : PExt b c) : PExt a c :=
  ⟨fun k => (h2.members k).trans (h1.members k), fun k o h => h2.linked k o (h1.linked k o h),
   fun x => (h2.mat x).trans (h1.mat x), fun x => (h2.univ x).trans (h1.univ x),
   fun x h => h2.cont x (h1.cont x h),
   fun x s h => by
     rcases h2.newSurf x s h with hb | hb
     · rcases h1.newSurf x s hb with ha | ha
       · exact Or.inl ha
       · exact Or.inr (fun hc => h2.linked .surface s (ha hc))
     · exact Or.inr (fun hc => hb (h1.cont x hc))⟩

theorem Ext.pExt {st st' : St} (e : Ext st st') : PExt st st' :=
  ⟨e.members, e.linked, e.mat, e.univ, e.cont, e.newSurf⟩

theorem PExt.toLink {st st' : St} (e : PExt st st') : LinkExt st st' := ⟨e.members, e.linked⟩

/-- storing a geometry (`cell._geometry = g`) -/
theorem pExt_updGeom (st : St) (c : ObjId) (g : Option HS) :
    PExt st (st.updCell c (fun cs => { cs with geom := g })) := by
  refine ⟨fun k => by cases k <;> rfl, ?_, ?_, ?_, ?_, ?_⟩
  · intro k o h
    cases k
    · simp only [St.linked, updCell_cellOf] at h ⊢
      split <;> (try subst_vars) <;> exact h
    all_goals exact h
  · intro x; simp only [updCell_cellOf]; split <;> (try subst_vars) <;> rfl
  · intro x; simp only [updCell_cellOf]; split <;> (try subst_vars) <;> rfl
  · intro x h; simp only [updCell_cellOf]; split <;> (try subst_vars) <;> exact h
  · intro x t ht
    simp only [updCell_cellOf] at ht
    split at ht <;> (try subst_vars) <;> exact Or.inl ht

theorem iopTail_pExt (u0 : Bool) (l : HS) (p : Option ObjId) (other : HS) (st1 : St) (r1 newRight : HS) :
    PExt st1 (iopTail u0 l p other st1 r1 newRight).1.1 := by
  unfold iopTail
  cases p with
  | none => simp only [linkChild]; exact PExt.refl st1
  | some c =>
    have hl := (linkChild_spec st1 c newRight).1
    generalize linkChild st1 (some c) newRight = lres at hl ⊢
    obtain ⟨⟨st2, e2⟩, r2⟩ := lres
    cases e2 with
    | some err => exact hl.pExt
    | none => exact hl.pExt.trans (addChildren_spec st2 c other).1.pExt

theorem iop_pExt (u : Bool) (other : HS) : ∀ (self : HS) (st : St),
    PExt st (iop u st self other).1.1 := by
  intro self
  induction self with
  | leaf ic d s p => intro st; simp only [iop]; exact PExt.refl st
  | compl l p _ => intro st; simp only [iop]; exact PExt.refl st
  | bin u0 l r p _ ihr =>
    intro st
    by_cases hu : (u0 != u) = true
    · cases r <;> (simp only [iop, hu, if_true]; exact PExt.refl st)
    · cases r with
      | leaf ic d s q =>
        simp only [iop, hu, if_false, Bool.false_eq_true]
        cases p with
        | none => simp only [linkChild]; exact PExt.refl st
        | some c =>
          have hl := (linkChild_spec st c (.bin u (.leaf ic d s q) other none)).1
          generalize linkChild st (some c) (.bin u (.leaf ic d s q) other none) = lres at hl ⊢
          obtain ⟨⟨st2, e2⟩, r2⟩ := lres
          cases e2 <;> exact hl.pExt
      | compl rl rq =>
        simp only [iop, hu, if_false, Bool.false_eq_true]
        exact iopTail_pExt u0 l p other st _ _
      | bin ru rl rr rq =>
        rw [iop]
        case x_4 => intro _ _ _ _ h; cases h
        simp only [hu, if_false, Bool.false_eq_true]
        have ih := ihr st
        generalize iop u st (.bin ru rl rr rq) other = res at ih ⊢
        obtain ⟨⟨st1, e1⟩, r1, ret⟩ := res
        cases e1 with
        | some err => exact ih
        | none => exact ih.trans (iopTail_pExt u0 l p other st1 r1 (retOr r1 ret))

end MontePyVerif.Links
