import MontePyVerif.Lemmas.Links
/-!
Helper lemmas for `C16_load`: what `update_pointers` does to the containers of the cell it works on
(exactly the dividers of the geometry are appended) and that it leaves every other cell alone.
-/
namespace MontePyVerif.Links

theorem firstWith_some (num : ObjId → Int) (n : Int) : ∀ (l : List ObjId) (o : ObjId),
    firstWith num n l = some o → o ∈ l ∧ num o = n := by
  intro l
  induction l with
  | nil => intro o h; simp [firstWith] at h
  | cons a t ih =>
    intro o h
    simp only [firstWith] at h
    split at h
    · cases h; exact ⟨by simp, by assumption⟩
    · have := ih o h; exact ⟨List.mem_cons_of_mem _ this.1, this.2⟩

theorem eq_of_nodup_num (num : ObjId → Int) : ∀ (l : List ObjId), (l.map num).Nodup →
    ∀ a b, a ∈ l → b ∈ l → num a = num b → a = b := by
  intro l
  induction l with
  | nil => intro _ a b ha; cases ha
  | cons x t ih =>
    intro hnd a b ha hb hab
    simp only [List.map_cons, List.nodup_cons, List.mem_map, not_exists, not_and] at hnd
    rcases List.mem_cons.mp ha with rfl | ha' <;> rcases List.mem_cons.mp hb with rfl | hb'
    · rfl
    · exact absurd hab.symm (hnd.1 b hb')
    · exact absurd hab (hnd.1 a ha')
    · exact ih hnd.2 a b ha' hb' hab

/-- `update_pointers` working on cell `c`: the other cells keep geometry and containers, the problem keeps its
    surfaces and their numbers -/
structure LoadExt (c : ObjId) (st st' : St) : Prop where
  other : ∀ x, x ≠ c → (st'.cellOf x).geom = (st.cellOf x).geom ∧ (st'.cellOf x).surfs = (st.cellOf x).surfs ∧
    (st'.cellOf x).comps = (st.cellOf x).comps
  surfaces : st'.surfaces = st.surfaces
  snum : st'.snum = st.snum

theorem LoadExt.refl (c : ObjId) (st : St) : LoadExt c st st := ⟨fun _ _ => ⟨rfl, rfl, rfl⟩, rfl, rfl⟩

theorem LoadExt.trans {c : ObjId} {a b d : St} (h1 : LoadExt c a b) (h2 : LoadExt c b d) : LoadExt c a d :=
  ⟨fun x hx => ⟨(h2.other x hx).1.trans (h1.other x hx).1, (h2.other x hx).2.1.trans (h1.other x hx).2.1,
    (h2.other x hx).2.2.trans (h1.other x hx).2.2⟩, h2.surfaces.trans h1.surfaces, h2.snum.trans h1.snum⟩

theorem loadExt_updCell (st : St) (c : ObjId) (f : CellSt → CellSt) : LoadExt c st (st.updCell c f) := by
  refine ⟨fun x hx => ?_, rfl, rfl⟩
  simp [updCell_cellOf, hx]

theorem loadExt_updCell_pres (st : St) (c d : ObjId) (f : CellSt → CellSt)
    (hf : ∀ cs, (f cs).geom = cs.geom ∧ (f cs).surfs = cs.surfs ∧ (f cs).comps = cs.comps) :
    LoadExt c st (st.updCell d f) := by
  refine ⟨fun x _ => ?_, rfl, rfl⟩
  simp only [updCell_cellOf]
  split
  · subst_vars; exact hf _
  · exact ⟨rfl, rfl, rfl⟩

theorem linkCell_cellOf (st : St) (o x : ObjId) :
    ((st.linkCell o).cellOf x).geom = (st.cellOf x).geom ∧ ((st.linkCell o).cellOf x).surfs = (st.cellOf x).surfs ∧
    ((st.linkCell o).cellOf x).comps = (st.cellOf x).comps := by
  unfold St.linkCell
  simp only [updCell_cellOf]
  split <;> (try subst_vars) <;> exact ⟨rfl, rfl, rfl⟩

theorem loadExt_linkCell (st : St) (c d : ObjId) : LoadExt c st (st.linkCell d) :=
  ⟨fun x _ => linkCell_cellOf st d x, rfl, rfl⟩

theorem cellSurfAppend_load (st : St) (c s : ObjId) :
    LoadExt c st (cellSurfAppend st c s).1 ∧
    ((cellSurfAppend st c s).1.cellOf c).comps = (st.cellOf c).comps ∧
    ((cellSurfAppend st c s).2 = none →
      ((cellSurfAppend st c s).1.cellOf c).surfs = (st.cellOf c).surfs ++ [s]) := by
  unfold cellSurfAppend
  simp only
  split
  · exact ⟨LoadExt.refl c st, rfl, fun h => by cases h⟩
  · split
    · refine ⟨⟨fun x hx => ?_, rfl, rfl⟩, ?_, fun _ => ?_⟩ <;> simp [updCell_cellOf, *]
    · refine ⟨⟨fun x hx => ?_, rfl, rfl⟩, ?_, fun _ => ?_⟩ <;> simp [updCell_cellOf, *]

theorem cellCompAppend_load (st : St) (c d : ObjId) :
    LoadExt c st (cellCompAppend st c d).1 ∧
    ((cellCompAppend st c d).1.cellOf c).surfs = (st.cellOf c).surfs ∧
    ((cellCompAppend st c d).2 = none →
      ((cellCompAppend st c d).1.cellOf c).comps = (st.cellOf c).comps ++ [d]) := by
  unfold cellCompAppend
  simp only
  split
  · exact ⟨LoadExt.refl c st, rfl, fun h => by cases h⟩
  · have e1 := loadExt_updCell st c (fun cs => { cs with comps := cs.comps ++ [d] })
    split
    · have e2 := loadExt_linkCell (st.updCell c (fun cs => { cs with comps := cs.comps ++ [d] })) c d
      have hc := linkCell_cellOf (st.updCell c (fun cs => { cs with comps := cs.comps ++ [d] })) d c
      refine ⟨e1.trans e2, ?_, fun _ => ?_⟩
      · rw [hc.2.1]; simp
      · rw [hc.2.2]; simp
    · exact ⟨e1, by simp, fun _ => by simp⟩

/-- the numbers of the problem's surfaces are pairwise different -/
def UniqS (st : St) : Prop := (st.surfaces.map st.snum).Nodup

theorem UniqS.loadExt {c : ObjId} {st st' : St} (h : UniqS st) (e : LoadExt c st st') : UniqS st' := by
  unfold UniqS; rw [e.surfaces, e.snum]; exact h

/-- `HalfSpace.update_pointers` on a parsed tree: the containers of `c` receive exactly the dividers of the
    resolved tree (and keep what they held), every node points at `c`. -/
theorem updatePointersP_spec (c : ObjId) : ∀ (t : PHS) (st res : St) (g : HS),
    updatePointersP c t st = ((res, none), some g) → UniqS st →
    (∀ x ∈ (st.cellOf c).surfs, x ∈ st.surfaces) →
    LoadExt c st res ∧ (∀ x ∈ (res.cellOf c).surfs, x ∈ res.surfaces) ∧ g.allCell c = true ∧
    (∀ s, s ∈ (res.cellOf c).surfs ↔ s ∈ (st.cellOf c).surfs ∨ s ∈ g.surfs) ∧
    (∀ d, d ∈ (res.cellOf c).comps ↔ d ∈ (st.cellOf c).comps ∨ d ∈ g.comps) := by
  intro t
  induction t with
  | leaf ic n side =>
    intro st res g h hu hm
    simp only [updatePointersP] at h
    cases ic with
    | true =>
      simp only [if_true] at h
      split at h
      · cases h
      · rename_i d hd
        split at h
        · rename_i hc
          cases h
          refine ⟨LoadExt.refl c st, hm, by simp [HS.allCell], fun s => by simp [HS.surfs], fun x => ?_⟩
          simp only [HS.comps, if_true, List.mem_singleton]
          constructor
          · exact Or.inl
          · rintro (hx | rfl)
            · exact hx
            · simpa using hc
        · have hs := cellCompAppend_load st c d
          generalize cellCompAppend st c d = r at hs h
          obtain ⟨st1, e⟩ := r
          cases e with
          | some err => cases h
          | none =>
            cases h
            dsimp only at hs
            refine ⟨hs.1, ?_, by simp [HS.allCell], fun s => ?_, fun x => ?_⟩
            · intro x hx; rw [hs.2.1] at hx; rw [hs.1.surfaces]; exact hm x hx
            · rw [hs.2.1]; simp [HS.surfs]
            · rw [hs.2.2 rfl]; simp [HS.comps]
    | false =>
      simp only [Bool.false_eq_true, if_false] at h
      split at h
      · cases h
      · rename_i s hs0
        have hres := firstWith_some st.snum n st.surfaces s hs0
        split at h
        · rename_i hc
          cases h
          have hin : s ∈ (st.cellOf c).surfs := (memS_iff _ _ _).mp hc
          refine ⟨LoadExt.refl c st, hm, by simp [HS.allCell], fun x => ?_, fun d => by simp [HS.comps]⟩
          simp only [HS.surfs, Bool.false_eq_true, if_false, List.mem_singleton]
          constructor
          · exact Or.inl
          · rintro (hx | rfl)
            · exact hx
            · exact hin
        · have hs := cellSurfAppend_load st c s
          generalize cellSurfAppend st c s = r at hs h
          obtain ⟨st1, e⟩ := r
          cases e with
          | some err => cases h
          | none =>
            cases h
            dsimp only at hs
            refine ⟨hs.1, ?_, by simp [HS.allCell], fun x => ?_, fun x => ?_⟩
            · intro x hx
              rw [hs.2.2 rfl] at hx
              rw [hs.1.surfaces]
              rcases List.mem_append.mp hx with hx | hx
              · exact hm x hx
              · simp only [List.mem_singleton] at hx; subst hx; exact hres.1
            · rw [hs.2.2 rfl]; simp [HS.surfs]
            · rw [hs.2.1]; simp [HS.comps]
  | compl l ih =>
    intro st res g h hu hm
    simp only [updatePointersP] at h
    split at h
    · rename_i st1 l' heq
      cases h
      have := ih st res l' heq hu hm
      exact ⟨this.1, this.2.1, by simp [HS.allCell, this.2.2.1], this.2.2.2.1, this.2.2.2.2⟩
    · cases h
  | bin u l r ihl ihr =>
    intro st res g h hu hm
    simp only [updatePointersP] at h
    split at h
    · rename_i st1 l' heq
      split at h
      · rename_i st2 r' heq2
        cases h
        have h1 := ihl st st1 l' heq hu hm
        have h2 := ihr st1 res r' heq2 (hu.loadExt h1.1) h1.2.1
        refine ⟨h1.1.trans h2.1, h2.2.1, by simp [HS.allCell, h1.2.2.1, h2.2.2.1], fun s => ?_, fun d => ?_⟩
        · rw [h2.2.2.2.1, h1.2.2.2.1]; simp [HS.surfs, or_assoc]
        · rw [h2.2.2.2.2, h1.2.2.2.2]; simp [HS.comps, or_assoc]
      · cases h
    · cases h

/-- a geometry pass that does not raise returns a tree -/
theorem updatePointersP_tree (c : ObjId) : ∀ (t : PHS) (st : St),
    (updatePointersP c t st).1.2 = none → ∃ g, (updatePointersP c t st).2 = some g := by
  intro t
  induction t with
  | leaf ic n side =>
    intro st h
    simp only [updatePointersP] at h ⊢
    cases ic with
    | true =>
      simp only [if_true] at h ⊢
      split
      · rename_i hnone; rw [hnone] at h; cases h
      · exact ⟨_, rfl⟩
    | false =>
      simp only [Bool.false_eq_true, if_false] at h ⊢
      split
      · rename_i hnone; rw [hnone] at h; cases h
      · exact ⟨_, rfl⟩
  | compl l ih =>
    intro st h
    have := ih st
    simp only [updatePointersP] at h ⊢
    generalize updatePointersP c l st = r at this h ⊢
    obtain ⟨⟨st1, e⟩, og⟩ := r
    cases e with
    | some err => cases h
    | none =>
      obtain ⟨g, hg⟩ := this rfl
      cases hg
      exact ⟨_, rfl⟩
  | bin u l r ihl ihr =>
    intro st h
    have h1 := ihl st
    simp only [updatePointersP] at h ⊢
    generalize updatePointersP c l st = r1 at h1 h ⊢
    obtain ⟨⟨st1, e⟩, og⟩ := r1
    cases e with
    | some err => cases h
    | none =>
      obtain ⟨g, hg⟩ := h1 rfl
      cases hg
      dsimp only at h ⊢
      have h2 := ihr st1
      generalize updatePointersP c r st1 = r2 at h2 h ⊢
      obtain ⟨⟨st2, e2⟩, og2⟩ := r2
      cases e2 with
      | some err => cases h
      | none =>
        obtain ⟨g2, hg2⟩ := h2 rfl
        cases hg2
        exact ⟨_, rfl⟩

/-- cell `c` directly after reading: its containers hold exactly the dividers of its geometry -/
def Exact (st : St) (c : ObjId) : Prop :=
  ∃ g, (st.cellOf c).geom = some g ∧ g.allCell c = true ∧
    (∀ s, s ∈ (st.cellOf c).surfs ↔ s ∈ g.surfs) ∧ (∀ d, d ∈ (st.cellOf c).comps ↔ d ∈ g.comps)

theorem Exact.of_eq {st st' : St} {c : ObjId} (h : Exact st c)
    (e : (st'.cellOf c).geom = (st.cellOf c).geom ∧ (st'.cellOf c).surfs = (st.cellOf c).surfs ∧
      (st'.cellOf c).comps = (st.cellOf c).comps) : Exact st' c := by
  obtain ⟨g, hg, ha, hs, hc⟩ := h
  exact ⟨g, by rw [e.1]; exact hg, ha, by rw [e.2.1]; exact hs, by rw [e.2.2]; exact hc⟩

theorem resolveMaterial_loadExt (st : St) (c : ObjId) (n : Int) : LoadExt c st (resolveMaterial st c n).1 := by
  unfold resolveMaterial
  dsimp only
  have e0 := loadExt_updCell st c (fun cs => { cs with oldMat := n })
  split
  · split
    · rename_i m _
      exact e0.trans (loadExt_updCell _ c (fun cs => { cs with mat := some m }))
    · exact e0
  · exact e0.trans (loadExt_updCell _ c (fun cs => { cs with mat := none }))

theorem cellUpdatePointers_spec (st res : St) (c : ObjId) (pc : PCell)
    (h : cellUpdatePointers st c pc = (res, none)) (hu : UniqS st) :
    LoadExt c st res ∧ Exact res c := by
  unfold cellUpdatePointers at h
  have he1 := resolveMaterial_loadExt st c pc.mat
  generalize resolveMaterial st c pc.mat = r at h he1
  obtain ⟨st1, e⟩ := r
  cases e with
  | some err => cases h
  | none =>
    dsimp only at h
    split at h
    · rename_i st2 g heq
      cases h
      have e2 := loadExt_updCell st1 c (fun cs => { cs with surfs := [], comps := [], contLinked := cs.link })
      have hsp := updatePointersP_spec c pc.geom _ st2 g heq (hu.loadExt (he1.trans e2))
        (by intro x hx; simp at hx)
      refine ⟨((he1.trans e2).trans hsp.1).trans (loadExt_updCell st2 c _), g, by simp, hsp.2.2.1, ?_, ?_⟩
      · intro s; have := hsp.2.2.2.1 s; simpa using this
      · intro d; have := hsp.2.2.2.2 d; simpa using this
    · rename_i r0 og x hne
      -- every other outcome of the geometry pass carries an error: a pass that does not raise returns a tree
      exfalso
      have ht := updatePointersP_tree c pc.geom
        (st1.updCell c (fun cs => { cs with surfs := [], comps := [], contLinked := cs.link }))
      rw [hne] at ht
      subst h
      obtain ⟨g, hg⟩ := ht rfl
      exact x res g rfl hg

end MontePyVerif.Links

namespace MontePyVerif.Links

/-- geometry and containers of every cell are the same in `st'` -/
def SameCells (st st' : St) : Prop :=
  ∀ x, (st'.cellOf x).geom = (st.cellOf x).geom ∧ (st'.cellOf x).surfs = (st.cellOf x).surfs ∧
    (st'.cellOf x).comps = (st.cellOf x).comps

theorem SameCells.refl (st : St) : SameCells st st := fun _ => ⟨rfl, rfl, rfl⟩

theorem SameCells.trans {a b c : St} (h1 : SameCells a b) (h2 : SameCells b c) : SameCells a c :=
  fun x => ⟨(h2 x).1.trans (h1 x).1, (h2 x).2.1.trans (h1 x).2.1, (h2 x).2.2.trans (h1 x).2.2⟩

theorem sameCells_updCell (st : St) (c : ObjId) (f : CellSt → CellSt)
    (hf : ∀ cs, (f cs).geom = cs.geom ∧ (f cs).surfs = cs.surfs ∧ (f cs).comps = cs.comps) :
    SameCells st (st.updCell c f) := by
  intro x
  simp only [updCell_cellOf]
  split
  · subst_vars; exact hf _
  · exact ⟨rfl, rfl, rfl⟩

theorem pushUniverses_same : ∀ (l : List (ObjId × PCell)) (st : St) (nextU : ObjId),
    SameCells st (pushUniverses l st nextU).1 := by
  intro l
  induction l with
  | nil => intro st n; exact SameCells.refl st
  | cons a t ih =>
    intro st n
    obtain ⟨c, pc⟩ := a
    simp only [pushUniverses]
    split
    · refine SameCells.trans ?_ (ih _ _)
      exact sameCells_updCell st c _ (fun _ => ⟨rfl, rfl, rfl⟩)
    · refine SameCells.trans ?_ (ih _ _)
      exact SameCells.trans (fun _ => ⟨rfl, rfl, rfl⟩) (sameCells_updCell _ c _ (fun _ => ⟨rfl, rfl, rfl⟩))

theorem pushFills_same : ∀ (l : List (ObjId × PCell)) (st : St), SameCells st (pushFills l st).1 := by
  intro l
  induction l with
  | nil => intro st; exact SameCells.refl st
  | cons a t ih =>
    intro st
    obtain ⟨c, pc⟩ := a
    simp only [pushFills]
    split
    · exact ih st
    · split
      · refine SameCells.trans ?_ (ih _)
        exact sameCells_updCell st c _ (fun _ => ⟨rfl, rfl, rfl⟩)
      · exact SameCells.refl st

theorem collAppend_uniq (st : St) (k : Kind) (o : ObjId) (hu : UniqS st) : UniqS (collAppend st k o).1 := by
  unfold collAppend
  split
  · exact hu
  · rename_i hno
    cases k
    case surface =>
      unfold UniqS at hu ⊢
      simp only [St.setMembers, St.setLinked, St.members, St.num] at hno ⊢
      rw [List.map_append]
      refine List.nodup_append.mpr ⟨hu, by simp, ?_⟩
      intro a ha b hb
      simp only [List.map_cons, List.map_nil, List.mem_singleton] at hb
      subst hb
      intro hab
      apply hno
      rw [List.any_eq_true]
      obtain ⟨x, hx, hxa⟩ := List.mem_map.mp ha
      exact ⟨x, hx, by simp [hxa, hab]⟩
    all_goals exact hu

theorem appendAll_uniq (k : Kind) : ∀ (l : List ObjId) (st : St), UniqS st → UniqS (appendAll k l st).1 := by
  intro l
  induction l with
  | nil => intro st h; exact h
  | cons a t ih =>
    intro st h
    simp only [appendAll]
    have h1 := collAppend_uniq st k a h
    generalize collAppend st k a = r at h1 ⊢
    obtain ⟨st1, e⟩ := r
    cases e with
    | some err => exact h1
    | none => exact ih st1 h1

theorem updateAllCells_spec : ∀ (l : List (ObjId × PCell)) (st res : St),
    updateAllCells l st = (res, none) → UniqS st → (l.map Prod.fst).Nodup →
    UniqS res ∧
    (∀ x, x ∉ l.map Prod.fst → (res.cellOf x).geom = (st.cellOf x).geom ∧
      (res.cellOf x).surfs = (st.cellOf x).surfs ∧ (res.cellOf x).comps = (st.cellOf x).comps) ∧
    ∀ p ∈ l, Exact res p.1 := by
  intro l
  induction l with
  | nil =>
    intro st res h hu _
    simp only [updateAllCells] at h
    cases h
    exact ⟨hu, fun _ _ => ⟨rfl, rfl, rfl⟩, fun p hp => by cases hp⟩
  | cons a t ih =>
    intro st res h hu hnd
    obtain ⟨c, pc⟩ := a
    simp only [updateAllCells] at h
    generalize hcu : cellUpdatePointers st c pc = r at h
    obtain ⟨st1, e⟩ := r
    cases e with
    | some err => cases h
    | none =>
      dsimp only at h
      have h1 := cellUpdatePointers_spec st st1 c pc hcu hu
      simp only [List.map_cons, List.nodup_cons] at hnd
      obtain ⟨hu2, hother, hex⟩ := ih st1 res h (hu.loadExt h1.1) hnd.2
      refine ⟨hu2, fun x hx => ?_, fun p hp => ?_⟩
      · simp only [List.map_cons, List.mem_cons, not_or] at hx
        have a1 := hother x hx.2
        have a2 := h1.1.other x hx.1
        exact ⟨a1.1.trans a2.1, a1.2.1.trans a2.2.1, a1.2.2.trans a2.2.2⟩
      · rcases List.mem_cons.mp hp with rfl | ht
        · exact h1.2.of_eq (hother c hnd.1)
        · exact hex p ht

end MontePyVerif.Links
