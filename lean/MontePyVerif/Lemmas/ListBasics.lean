/-! # Small facts about `takeWhile` / `dropWhile` used by the reader proofs (core only) -/
namespace MontePyVerif.ListBasics

theorem dropWhile_eq_nil {α} (p : α → Bool) (l : List α) : l.dropWhile p = [] ↔ ∀ x ∈ l, p x = true := by
  induction l with
  | nil => simp
  | cons a t ih =>
    simp only [List.dropWhile_cons]
    split
    · rename_i h; simp [ih, h]
    · rename_i h; simp [h]

theorem takeWhile_eq_self {α} (p : α → Bool) (l : List α) : l.takeWhile p = l ↔ ∀ x ∈ l, p x = true := by
  induction l with
  | nil => simp
  | cons a t ih =>
    simp only [List.takeWhile_cons]
    split
    · rename_i h; simp [ih, h]
    · rename_i h; simp [h]

theorem dropWhile_snoc {α} (p : α → Bool) (xs : List α) (y : α) (hy : p y = false) :
    (xs ++ [y]).dropWhile p = xs.dropWhile p ++ [y] := by
  induction xs with
  | nil => simp [List.dropWhile, hy]
  | cons x xs ih =>
    simp only [List.cons_append, List.dropWhile_cons]
    split
    · exact ih
    · rfl

theorem dropWhile_append_of_ne {α} (p : α → Bool) (xs ys : List α) (h : xs.dropWhile p ≠ []) :
    (xs ++ ys).dropWhile p = xs.dropWhile p ++ ys := by
  rw [List.dropWhile_append]
  cases hh : xs.dropWhile p with
  | nil => exact absurd hh h
  | cons a t => simp

theorem dropWhile_append_of_all {α} (p : α → Bool) (xs ys : List α) (h : ∀ x ∈ xs, p x = true) :
    (xs ++ ys).dropWhile p = ys.dropWhile p := by
  rw [List.dropWhile_append, (dropWhile_eq_nil p xs).mpr h]; rfl

theorem takeWhile_append_of_all {α} (p : α → Bool) (xs ys : List α) (h : ∀ x ∈ xs, p x = true) :
    (xs ++ ys).takeWhile p = xs ++ ys.takeWhile p := by
  induction xs with
  | nil => rfl
  | cons a t ih =>
    have ha := h a (by simp)
    simp only [List.cons_append, List.takeWhile_cons, ha, ↓reduceIte]
    rw [ih (fun x hx => h x (by simp [hx]))]

theorem takeWhile_append_stop {α} (p : α → Bool) (xs : List α) (y : α) (ys : List α)
    (h : ∀ x ∈ xs, p x = true) (hy : p y = false) : (xs ++ y :: ys).takeWhile p = xs := by
  rw [takeWhile_append_of_all p xs _ h]; simp [hy]

theorem dropWhile_append_stop {α} (p : α → Bool) (xs : List α) (y : α) (ys : List α)
    (h : ∀ x ∈ xs, p x = true) (hy : p y = false) : (xs ++ y :: ys).dropWhile p = y :: ys := by
  rw [dropWhile_append_of_all p xs _ h]; simp [hy]

theorem length_takeWhile_add_dropWhile {α} (p : α → Bool) (l : List α) :
    (l.takeWhile p).length + (l.dropWhile p).length = l.length := by
  rw [← List.length_append, List.takeWhile_append_dropWhile]

theorem mem_takeWhile {α} (p : α → Bool) (l : List α) (x : α) (h : x ∈ l.takeWhile p) : p x = true := by
  induction l with
  | nil => simp at h
  | cons a t ih =>
    simp only [List.takeWhile_cons] at h
    split at h
    · rename_i ha
      rcases List.mem_cons.mp h with rfl | h'
      · exact ha
      · exact ih h'
    · simp at h

theorem replicate_all {α} (n : Nat) (a : α) (p : α → Bool) (h : p a = true) :
    ∀ x ∈ List.replicate n a, p x = true := by
  intro x hx
  rw [(List.mem_replicate.mp hx).2]; exact h

end MontePyVerif.ListBasics
