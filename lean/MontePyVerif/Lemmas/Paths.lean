import MontePyVerif.Model.Reader
import MontePyVerif.Lemmas.ListBasics
/-! # `posixpath.join` / `dirname` keep absolute paths absolute (lemmas for C20_paths) -/
namespace MontePyVerif.Reader
open MontePyVerif.ListBasics

/-- the path is absolute: the operating system resolves it without the working directory -/
def isAbs (p : Str) : Bool := startsWith p ['/']

theorem isAbs_iff (p : Str) : isAbs p = true ↔ ∃ t, p = '/' :: t := by
  cases p with
  | nil => simp [isAbs, startsWith]
  | cons c t => simp [isAbs, startsWith]

theorem isAbs_join (dir name : Str) (h : isAbs dir = true) : isAbs (joinPath dir name) = true := by
  obtain ⟨t, rfl⟩ := (isAbs_iff dir).mp h
  unfold joinPath
  split
  · assumption
  · split <;> simp [isAbs, startsWith]

theorem isAbs_dirname (p : Str) (h : isAbs p = true) : isAbs (dirname p) = true := by
  obtain ⟨t, rfl⟩ := (isAbs_iff p).mp h
  unfold dirname
  have hhead : (('/' :: t).reverse.dropWhile (· != '/')).reverse = '/' :: (t.reverse.dropWhile (· != '/')).reverse := by
    rw [List.reverse_cons, dropWhile_snoc _ _ _ (by decide)]
    simp
  simp only [hhead]
  generalize (t.reverse.dropWhile (· != '/')).reverse = h'
  split
  · rename_i hc
    rw [List.reverse_cons]
    by_cases hall : (h'.reverse.dropWhile (· == '/')) = []
    · exfalso
      have : ∀ x ∈ h', (x == '/') = true := by
        intro x hx
        exact ((dropWhile_eq_nil _ _).mp hall) x (List.mem_reverse.mpr hx)
      have h2 : h'.all (· == '/') = true := List.all_eq_true.mpr this
      simp [h2] at hc
    · rw [dropWhile_append_of_ne _ _ _ hall]
      simp [isAbs, startsWith]
  · simp [isAbs, startsWith]

theorem queueLoop_congr (ll : Nat) (fs1 fs2 : FS) (dir : Str) (hd : isAbs dir = true)
    (h : ∀ p, isAbs p = true → fs1 p = fs2 p) (fuel : Nat) (q : List QEntry) :
    queueLoop ll fs1 dir fuel q = queueLoop ll fs2 dir fuel q := by
  induction fuel generalizing q with
  | zero => cases q <;> rfl
  | succ n ih =>
    cases q with
    | nil => rfl
    | cons e rest =>
      simp only [queueLoop]
      rw [h _ (isAbs_join dir e.name hd)]
      cases fs2 (joinPath dir e.name) with
      | none => rfl
      | some bytes => simp only [ih]

end MontePyVerif.Reader
