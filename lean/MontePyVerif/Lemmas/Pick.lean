import MontePyVerif.Lemmas.Dec

/-! # The candidate loop of `_format_float` (lemmas for C05)

`pickFirst` returns a candidate that passed the read-back check or the last one; `_float_styles` always ends with a
candidate of at least 17 significant digits; such a candidate denotes a value inside the tolerance. -/
namespace MontePyVerif.C05
open MontePyVerif.ValueFormat

theorem pickFirst_spec (x : Num) : ∀ (ts : List Text) (hne : ts ≠ []),
    readsBack (pickFirst x ts) x = true ∨ pickFirst x ts = ts.getLast hne
  | [t], _ => Or.inr rfl
  | t :: t' :: r, _ => by
    unfold pickFirst
    split
    · left; assumption
    · have := pickFirst_spec x (t' :: r) (by simp)
      simpa [List.getLast_cons] using this

theorem pickFirst_mem (x : Num) : ∀ (ts : List Text) (_ : ts ≠ []), pickFirst x ts ∈ ts
  | [t], _ => by simp [pickFirst]
  | t :: t' :: r, _ => by
    unfold pickFirst
    split
    · simp
    · have := pickFirst_mem x (t' :: r) (by simp)
      exact List.mem_cons_of_mem _ this

/-- a candidate with at least 17 significant digits -/
def Enough (sp : FStyle × Nat) : Prop := (sp.1 = .g ∧ 17 ≤ sp.2) ∨ (sp.1 = .e ∧ 16 ≤ sp.2)

theorem pyRange_last (a b : Nat) (h : a < b) : pyRange a b = pyRange a (b - 1) ++ [b - 1] := by
  unfold pyRange
  have e : b - a = (b - 1 - a) + 1 := by omega
  rw [e, List.range'_concat]
  congr 2
  omega

theorem getLast_map_pyRange (f : Nat → FStyle × Nat) (a b : Nat) (h : a < b) (hne : (pyRange a b).map f ≠ []) :
    ((pyRange a b).map f).getLast hne = f (b - 1) := by
  have e := pyRange_last a b h
  simp only [e, List.map_append, List.map_cons, List.map_nil, List.getLast_append_singleton]

/-- `_float_styles` is never empty and always ends with at least 17 significant digits
    (consumes `Gen.maxPrecision`, i.e. `ValueNode._MAX_PRECISION`) -/
theorem floatStyles_last (n : Node) : ∃ hne : floatStyles n ≠ [], Enough ((floatStyles n).getLast hne) := by
  have hm : Gen.maxPrecision = 17 := rfl
  unfold floatStyles
  simp only [hm]
  split
  · have hlt : n.fmt.precision < max n.fmt.precision 17 + 1 := by omega
    have hne : (pyRange n.fmt.precision (max n.fmt.precision 17 + 1)).map (fun q => (FStyle.g, q)) ≠ [] := by
      rw [pyRange_last _ _ hlt]; simp
    refine ⟨hne, ?_⟩
    rw [getLast_map_pyRange _ _ _ hlt]
    left; constructor
    · rfl
    · show 17 ≤ max n.fmt.precision 17 + 1 - 1
      omega
  · split
    · have hlt : n.fmt.precision < max n.fmt.precision (17 - 1) + 1 := by omega
      have hne : (pyRange n.fmt.precision (max n.fmt.precision (17 - 1) + 1)).map (fun q => (FStyle.e, q)) ≠ [] := by
        rw [pyRange_last _ _ hlt]; simp
      refine ⟨hne, ?_⟩
      rw [getLast_map_pyRange _ _ _ hlt]
      right; constructor
      · rfl
      · show 16 ≤ max n.fmt.precision (17 - 1) + 1 - 1
        omega
    · split
      · have hlt : 6 < 17 + 1 := by omega
        have hne : (pyRange 6 (17 + 1)).map (fun q => (FStyle.g, q)) ≠ [] := by
          rw [pyRange_last _ _ hlt]; simp
        refine ⟨hne, ?_⟩
        rw [getLast_map_pyRange _ _ _ hlt]
        left; exact ⟨rfl, by show 17 ≤ 17 + 1 - 1; omega⟩
      · have hlt : 1 < 17 + 1 := by omega
        have hne2 : (pyRange 1 (17 + 1)).map (fun q => (FStyle.g, q)) ≠ [] := by
          rw [pyRange_last _ _ hlt]; simp
        refine ⟨by simp [hne2], ?_⟩
        rw [List.getLast_append_of_ne_nil _ hne2, getLast_map_pyRange _ _ _ hlt]
        left; exact ⟨rfl, by show 17 ≤ 17 + 1 - 1; omega⟩

/-- the `Dec` a candidate style writes -/
def decOf (x : Num) (sp : FStyle × Nat) : Dec :=
  match sp.1 with
  | .e => decE x sp.2
  | .g => decG x sp.2
  | .f => decF x sp.2

/-- every candidate is the rendering of its `Dec` -/
theorem formatFloatAs_render (f : Formatter) (x : Num) (sp : FStyle × Nat) :
    formatFloatAs f x sp = (match sp.1 with
      | .e => renderSci f (decOf x sp)
      | _ => renderPy f.sign f.zeroPadding (decOf x sp)) := by
  unfold formatFloatAs decOf
  cases sp.1 <;> rfl

/-- a candidate with at least 17 significant digits denotes a value within the library tolerance -/
theorem enough_close (x : Num) (hx : 0 ≤ x.mag) (sp : FStyle × Nat) (h : Enough sp) :
    Spec.isClose (decOf x sp).value x.toRat := by
  rcases h with ⟨hs, hq⟩ | ⟨hs, hq⟩
  · unfold decOf; rw [hs]
    have h := C05_pyformat_error_g x hx sp.2
    have hp : (if sp.2 = 0 then 1 else sp.2) - 1 = sp.2 - 1 := by split <;> omega
    rw [hp] at h
    exact isClose_of_digits _ x hx (sp.2 - 1) (by omega) h
  · unfold decOf; rw [hs]
    exact isClose_of_digits _ x hx sp.2 hq (C05_pyformat_error_e x hx sp.2)

end MontePyVerif.C05
