import MontePyVerif.Model.Reader
/-!
# The read-card queue served first-in first-out = generation-wise serving (lemmas for C20)

`queueLoop` pops the head, serves it (opens the file, reads it) and appends the read cards met to the tail.
`gens` serves a whole generation of entries at once and then the generation of entries they enqueued.
Both stop at the first raise (`cut`).  The two are equal for every fuel that suffices (`queueLoop_gens`).
-/
namespace MontePyVerif.Reader

/-- everything up to and including the first raise -/
def cut : List Event → List Event
  | [] => []
  | e :: t => if e.isRaise then [e] else e :: cut t

theorem hasRaise_nil : hasRaise [] = false := rfl

theorem hasRaise_cons (e : Event) (t : List Event) : hasRaise (e :: t) = (e.isRaise || hasRaise t) := by
  simp [hasRaise]

theorem hasRaise_append (a b : List Event) : hasRaise (a ++ b) = (hasRaise a || hasRaise b) := by
  simp [hasRaise]

theorem enqueued_append (a b : List Event) : enqueued (a ++ b) = enqueued a ++ enqueued b := by
  induction a with
  | nil => rfl
  | cons e t ih => cases e <;> simp [enqueued, ih]

theorem cut_append (a b : List Event) : cut (a ++ b) = if hasRaise a then cut a else a ++ cut b := by
  induction a with
  | nil => simp [hasRaise]
  | cons e t ih =>
    by_cases h : e.isRaise
    · simp [cut, h, hasRaise_cons]
    · simp only [List.cons_append, cut, h, hasRaise_cons, Bool.false_or, ih]
      simp only [Bool.false_eq_true, ↓reduceIte]
      split <;> rfl

theorem cut_of_noRaise {a : List Event} (h : hasRaise a = false) : cut a = a := by
  induction a with
  | nil => rfl
  | cons e t ih =>
    rw [hasRaise_cons] at h
    have h1 : e.isRaise = false := by cases hh : e.isRaise <;> simp_all
    have h2 : hasRaise t = false := by cases hh : hasRaise t <;> simp_all
    simp [cut, h1, ih h2]

theorem cut_idem (a : List Event) : cut (cut a) = cut a := by
  induction a with
  | nil => rfl
  | cons e t ih =>
    by_cases h : e.isRaise
    · simp [cut, h]
    · simp [cut, h, ih]

theorem cut_append_cut (a b : List Event) : cut (a ++ cut b) = cut (a ++ b) := by
  rw [cut_append, cut_append, cut_idem]

theorem hasRaise_cut (a : List Event) : hasRaise (cut a) = hasRaise a := by
  induction a with
  | nil => rfl
  | cons e t ih =>
    by_cases h : e.isRaise
    · simp [cut, h, hasRaise_cons]
    · simp [cut, h, hasRaise_cons, ih]

/-! ## the per-file reader never goes on after a raise -/

theorem cut_flushInput (cfg : Cfg) (bt : BlockType) (raw : List Str) :
    cut (flushInput cfg bt raw) = flushInput cfg bt raw := by
  unfold flushInput
  split
  · split
    · rfl
    · split <;> rfl
  · rfl

theorem cut_flushBlock (cfg : Cfg) (st : LState) : cut (flushBlock cfg st).1 = (flushBlock cfg st).1 := by
  unfold flushBlock
  simp only
  split
  · rfl
  · exact cut_flushInput _ _ _

theorem cut_stepData (cfg : Cfg) (st : LState) (line : Str) (c : Bool) (evs1 : List Event) (raw1 : List Str)
    (h : cut evs1 = evs1) : cut (stepData cfg st line c evs1 raw1).1 = (stepData cfg st line c evs1 raw1).1 := by
  unfold stepData
  cases h1 : hasRaise evs1
  · simp only [Bool.false_eq_true, ↓reduceIte]
    split
    · rw [cut_append, h1]; simp [cut, Event.isRaise]
    · apply cut_of_noRaise
      simp only [hasRaise_append, h1, Bool.false_or]
      split <;> rfl
  · simpa using h

theorem cut_stepLine (cfg : Cfg) (st : LState) (l : Str) : cut (stepLine cfg st l).1 = (stepLine cfg st l).1 := by
  unfold stepLine
  simp only
  split
  · exact cut_flushBlock _ _
  · split
    · exact cut_stepData _ _ _ _ _ _ (cut_flushInput _ _ _)
    · exact cut_stepData _ _ _ _ _ _ rfl

theorem cut_goLines (cfg : Cfg) (st : LState) (ls : List Str) : cut (goLines cfg st ls) = goLines cfg st ls := by
  induction ls generalizing st with
  | nil => exact cut_flushBlock _ _
  | cons l ls ih =>
    unfold goLines
    simp only
    split
    · exact cut_stepLine _ _ _
    · rename_i h
      rw [cut_append]
      simp only [h, ih]
      rfl

theorem cut_readData (cfg : Cfg) (ls : List Str) : cut (readData cfg ls) = readData cfg ls := cut_goLines _ _ _

/-! ## serving one queue entry -/

/-- what one turn of `while reading_queue:` does with the entry it pops -/
def serve (ll : Nat) (fs : FS) (dir : Str) (e : QEntry) : List Event :=
  .openFile (joinPath dir e.name) ::
    match fs (joinPath dir e.name) with
    | Option.none => [.raise .fileNotFound]
    | some bytes => readData ⟨ll, e.bt, joinPath dir e.name, e.chain ++ [joinPath dir e.name]⟩ (fileLines bytes)

theorem cut_serve (ll : Nat) (fs : FS) (dir : Str) (e : QEntry) : cut (serve ll fs dir e) = serve ll fs dir e := by
  unfold serve
  cases h : fs (joinPath dir e.name) with
  | none => rfl
  | some bytes => simp [cut, Event.isRaise, cut_readData]

theorem queueLoop_cons (ll : Nat) (fs : FS) (dir : Str) (fuel : Nat) (e : QEntry) (rest : List QEntry) :
    queueLoop ll fs dir (fuel + 1) (e :: rest) =
      if hasRaise (serve ll fs dir e) then serve ll fs dir e
      else serve ll fs dir e ++ queueLoop ll fs dir fuel (rest ++ enqueued (serve ll fs dir e)) := by
  unfold serve
  rw [queueLoop]
  cases h : fs (joinPath dir e.name) with
  | none => simp [hasRaise, Event.isRaise]
  | some bytes =>
    simp only [hasRaise_cons, Event.isRaise, Bool.false_or, enqueued]
    split <;> simp

theorem cut_queueLoop (ll : Nat) (fs : FS) (dir : Str) (fuel : Nat) (q : List QEntry) :
    cut (queueLoop ll fs dir fuel q) = queueLoop ll fs dir fuel q := by
  induction fuel generalizing q with
  | zero => cases q <;> simp [queueLoop, cut, Event.isRaise]
  | succ n ih =>
    cases q with
    | nil => simp [queueLoop, cut]
    | cons e rest =>
      rw [queueLoop_cons]
      split
      · exact cut_serve _ _ _ _
      · rename_i h
        rw [cut_append]; simp [h, ih]

/-- serving a list of entries one after the other, as if nothing raised -/
def serveAll (ll : Nat) (fs : FS) (dir : Str) (q : List QEntry) : List Event := q.flatMap (serve ll fs dir)

/-- **the key lemma**: serving the first `xs.length` entries of the queue -/
theorem queueLoop_append (ll : Nat) (fs : FS) (dir : Str) (xs ys : List QEntry) (fuel : Nat) :
    queueLoop ll fs dir (fuel + xs.length) (xs ++ ys) =
      cut (serveAll ll fs dir xs ++ queueLoop ll fs dir fuel (ys ++ enqueued (serveAll ll fs dir xs))) := by
  induction xs generalizing ys with
  | nil => simp [serveAll, enqueued, cut_queueLoop]
  | cons x xs ih =>
    have hlen : fuel + (x :: xs).length = (fuel + xs.length) + 1 := by simp; omega
    rw [hlen, List.cons_append, queueLoop_cons]
    simp only [serveAll, List.flatMap_cons, List.append_assoc]
    rw [cut_append]
    split
    · rw [cut_serve]
    · rename_i h
      congr 1
      have := ih (ys ++ enqueued (serve ll fs dir x))
      simp only [serveAll] at this
      rw [List.append_assoc] at this
      rw [this, enqueued_append]

/-- generation-wise serving, `d` generations deep -/
def gens (ll : Nat) (fs : FS) (dir : Str) : Nat → List QEntry → List Event
  | 0, _ => []
  | _ + 1, [] => []
  | d + 1, e :: q =>
    serveAll ll fs dir (e :: q) ++ gens ll fs dir d (enqueued (serveAll ll fs dir (e :: q)))

/-- the entries that are served: the queue, then what serving it enqueues, and so on -/
def served (ll : Nat) (fs : FS) (dir : Str) : Nat → List QEntry → List QEntry
  | 0, _ => []
  | _ + 1, [] => []
  | d + 1, e :: q => (e :: q) ++ served ll fs dir d (enqueued (serveAll ll fs dir (e :: q)))

/-- the generation `d` levels down is empty: nesting of read cards is at most `d` deep -/
def DiesOut (ll : Nat) (fs : FS) (dir : Str) : Nat → List QEntry → Prop
  | _, [] => True
  | 0, _ :: _ => False
  | d + 1, e :: q => DiesOut ll fs dir d (enqueued (serveAll ll fs dir (e :: q)))

instance decDiesOut (ll : Nat) (fs : FS) (dir : Str) : (d : Nat) → (q : List QEntry) → Decidable (DiesOut ll fs dir d q)
  | 0, [] => isTrue (by simp [DiesOut])
  | _ + 1, [] => isTrue (by simp [DiesOut])
  | 0, _ :: _ => isFalse (by simp [DiesOut])
  | d + 1, e :: q => by
    simp only [DiesOut]
    exact decDiesOut ll fs dir d (enqueued (serveAll ll fs dir (e :: q)))

/-- fuel that suffices for a queue whose nesting is at most `d` deep: the number of entries served -/
def fuelFor (ll : Nat) (fs : FS) (dir : Str) (d : Nat) (q : List QEntry) : Nat := (served ll fs dir d q).length

theorem gens_eq_served (ll : Nat) (fs : FS) (dir : Str) (d : Nat) (q : List QEntry) :
    gens ll fs dir d q = serveAll ll fs dir (served ll fs dir d q) := by
  induction d generalizing q with
  | zero => simp [gens, served, serveAll]
  | succ d ih =>
    cases q with
    | nil => simp [gens, served, serveAll]
    | cons e q =>
      simp only [gens, served]
      rw [ih]
      simp [serveAll]

theorem queueLoop_nil (ll : Nat) (fs : FS) (dir : Str) (fuel : Nat) : queueLoop ll fs dir fuel [] = [] := by
  cases fuel <;> rfl

/-- with any fuel beyond the number of entries served, the queue loop is the generation-wise serving,
    cut at the first raise -/
theorem queueLoop_gens (ll : Nat) (fs : FS) (dir : Str) (d : Nat) (q : List QEntry) (extra : Nat)
    (h : DiesOut ll fs dir d q) :
    queueLoop ll fs dir (extra + fuelFor ll fs dir d q) q = cut (gens ll fs dir d q) := by
  induction d generalizing q extra with
  | zero =>
    cases q with
    | nil => simp [queueLoop_nil, gens, cut]
    | cons e q => exact absurd h (by simp [DiesOut])
  | succ d ih =>
    cases q with
    | nil => simp [queueLoop_nil, gens, cut]
    | cons e q =>
      simp only [DiesOut] at h
      have hf : extra + fuelFor ll fs dir (d + 1) (e :: q) =
          (extra + fuelFor ll fs dir d (enqueued (serveAll ll fs dir (e :: q)))) + (e :: q).length := by
        simp [fuelFor, served]; omega
      have := queueLoop_append ll fs dir (e :: q) [] (extra + fuelFor ll fs dir d (enqueued (serveAll ll fs dir (e :: q))))
      rw [List.append_nil, List.nil_append] at this
      rw [hf, this, ih _ _ h, cut_append_cut]
      rfl

/-! ## every read card met is served exactly once -/

theorem served_eq_enqueued (ll : Nat) (fs : FS) (dir : Str) (d : Nat) (q : List QEntry)
    (h : DiesOut ll fs dir d q) :
    served ll fs dir d q = q ++ enqueued (gens ll fs dir d q) := by
  induction d generalizing q with
  | zero =>
    cases q with
    | nil => simp [served, gens, enqueued]
    | cons e q => exact absurd h (by simp [DiesOut])
  | succ d ih =>
    cases q with
    | nil => simp [served, gens, enqueued]
    | cons e q =>
      simp only [DiesOut] at h
      simp only [served, gens, enqueued_append]
      rw [ih _ h]

/-! ## files opened -/

/-- the paths handed to `open`, in order -/
def opened : List Event → List Str
  | [] => []
  | .openFile p :: t => p :: opened t
  | _ :: t => opened t

theorem opened_append (a b : List Event) : opened (a ++ b) = opened a ++ opened b := by
  induction a with
  | nil => rfl
  | cons e t ih => cases e <;> simp [opened, ih]

theorem opened_flushInput (cfg : Cfg) (bt : BlockType) (raw : List Str) : opened (flushInput cfg bt raw) = [] := by
  unfold flushInput
  split
  · split
    · rfl
    · split <;> rfl
  · rfl

theorem opened_flushBlock (cfg : Cfg) (st : LState) : opened (flushBlock cfg st).1 = [] := by
  unfold flushBlock
  simp only
  split
  · rfl
  · exact opened_flushInput _ _ _

theorem opened_stepData (cfg : Cfg) (st : LState) (line : Str) (c : Bool) (evs1 : List Event) (raw1 : List Str)
    (h : opened evs1 = []) : opened (stepData cfg st line c evs1 raw1).1 = [] := by
  unfold stepData
  split
  · exact h
  · split
    · simp [opened_append, h, opened]
    · simp only [opened_append, h, List.nil_append]
      split <;> rfl

theorem opened_stepLine (cfg : Cfg) (st : LState) (l : Str) : opened (stepLine cfg st l).1 = [] := by
  unfold stepLine
  simp only
  split
  · exact opened_flushBlock _ _
  · split
    · exact opened_stepData _ _ _ _ _ _ (opened_flushInput _ _ _)
    · exact opened_stepData _ _ _ _ _ _ rfl

theorem opened_goLines (cfg : Cfg) (st : LState) (ls : List Str) : opened (goLines cfg st ls) = [] := by
  induction ls generalizing st with
  | nil => exact opened_flushBlock _ _
  | cons l ls ih =>
    unfold goLines
    simp only
    split
    · exact opened_stepLine _ _ _
    · rw [opened_append, opened_stepLine, ih]; rfl

theorem opened_readData (cfg : Cfg) (ls : List Str) : opened (readData cfg ls) = [] := opened_goLines _ _ _

theorem opened_serve (ll : Nat) (fs : FS) (dir : Str) (e : QEntry) :
    opened (serve ll fs dir e) = [joinPath dir e.name] := by
  unfold serve
  cases fs (joinPath dir e.name) with
  | none => rfl
  | some bytes => simp [opened, opened_readData]

theorem opened_serveAll (ll : Nat) (fs : FS) (dir : Str) (q : List QEntry) :
    opened (serveAll ll fs dir q) = q.map (fun e => joinPath dir e.name) := by
  induction q with
  | nil => rfl
  | cons e q ih =>
    simp only [serveAll, List.flatMap_cons, opened_append, opened_serve, List.map_cons] at *
    rw [ih]; rfl

/-- the paths opened by a cut run are a prefix of those of the whole run -/
theorem opened_cut_prefix (a : List Event) : opened (cut a) <+: opened a := by
  induction a with
  | nil => exact List.prefix_refl _
  | cons e t ih =>
    by_cases h : e.isRaise
    · cases e <;> simp_all [cut, opened, Event.isRaise]
    · cases e <;> simp_all [cut, opened, Event.isRaise]

/-! ## the first raise -/

def firstRaise : List Event → Option Err
  | [] => Option.none
  | .raise e :: _ => some e
  | _ :: t => firstRaise t

theorem firstRaise_cut (a : List Event) : firstRaise (cut a) = firstRaise a := by
  induction a with
  | nil => rfl
  | cons e t ih => cases e <;> simp_all [cut, firstRaise, Event.isRaise]

theorem firstRaise_append (a b : List Event) :
    firstRaise (a ++ b) = match firstRaise a with | some e => some e | Option.none => firstRaise b := by
  induction a with
  | nil => rfl
  | cons e t ih => cases e <;> simp_all [firstRaise]

theorem firstRaise_none_iff (a : List Event) : firstRaise a = Option.none ↔ hasRaise a = false := by
  induction a with
  | nil => simp [firstRaise, hasRaise]
  | cons e t ih => cases e <;> simp_all [firstRaise, hasRaise_cons, Event.isRaise]

theorem serve_missing (ll : Nat) (fs : FS) (dir : Str) (e : QEntry) (h : fs (joinPath dir e.name) = Option.none) :
    serve ll fs dir e = [.openFile (joinPath dir e.name), .raise .fileNotFound] := by
  unfold serve; rw [h]

end MontePyVerif.Reader
