import MontePyVerif.Lemmas.Readers
import MontePyVerif.Lemmas.Pick

/-! # The model's read-back check on the formatter's own texts (lemmas for C05)

Every layout (`renderPy`, `renderSci`) is the text of a well-formed `Spelling` between blanks, hence the model's
`fortranFloat` reads it as exactly `Dec.value` — the value the Spec reads. -/
namespace MontePyVerif.C05
open MontePyVerif.ValueFormat MontePyVerif.Spec

def layoutSpelling (sg : Text) (z a f b : Nat) (X : Option ExpPart) : Spelling :=
  { sign := sg, ip := List.replicate z '0' ++ Nat.toDigits 10 a, dot := decide (f ≠ 0),
    fp := if f = 0 then [] else zfill f (Nat.toDigits 10 b),
    ex := X.map fun x => ⟨x.letter, [if x.neg then '-' else '+'], List.replicate x.z '0' ++ Nat.toDigits 10 x.E⟩ }

theorem layoutSpelling_text (sg : Text) (z a f b : Nat) (X : Option ExpPart) :
    (layoutSpelling sg z a f b X).text = layoutText sg z a f b X := by
  unfold Spelling.text Spelling.mantText Spelling.exText layoutSpelling layoutText
  by_cases hf : f = 0 <;> cases X <;> simp [hf, ExpSp.text, ExpPart.text, List.append_assoc]

theorem layoutSpelling_wf (sg : Text) (hs : IsSignText sg) (z a f b : Nat) (X : Option ExpPart)
    (hL : ∀ x, X = some x → x.letter = [] ∨ x.letter = ['e'] ∨ x.letter = ['E']) :
    (layoutSpelling sg z a f b X).WF := by
  refine ⟨hs, (fill_digits z a).1, ?_, Or.inl (fill_digits z a).2.1, ?_, ?_⟩
  · intro c hc
    by_cases hf : f = 0
    · simp [layoutSpelling, hf] at hc
    · simp only [layoutSpelling, hf, if_false] at hc
      unfold zfill at hc
      exact (fill_digits _ b).1 c hc
  · intro hd
    have : f = 0 := by simpa [layoutSpelling] using hd
    simp [layoutSpelling, this]
  · intro x hx
    cases X with
    | none => simp [layoutSpelling] at hx
    | some y =>
      simp [layoutSpelling] at hx
      subst hx
      refine ⟨hL y rfl, ?_, (fill_digits y.z y.E).1, (fill_digits y.z y.E).2.1, by intro _; simp⟩
      cases y.neg
      · exact Or.inr (Or.inl rfl)
      · exact Or.inr (Or.inr rfl)

/-- on a laid-out number, between blanks, the model's reader returns what the Spec reads -/
theorem fortran_eq_spec_layout (blank : Bool) (sg : Text) (hs : IsSignText sg) (z a f b : Nat) (X : Option ExpPart)
    (hL : ∀ x, X = some x → x.letter = [] ∨ x.letter = ['e'] ∨ x.letter = ['E']) (j : Nat) :
    fortranFloat ((if blank then [' '] else []) ++ layoutText sg z a f b X ++ List.replicate j ' ')
      = parseChars (layoutText sg z a f b X) := by
  have wf := layoutSpelling_wf sg hs z a f b X hL
  have hb : (if blank then [' '] else []) = List.replicate (if blank then 1 else 0) ' ' := by cases blank <;> rfl
  rw [hb, ← layoutSpelling_text, fortran_reads_spelling _ wf, spec_reads_spelling _ wf]

theorem isSignText_of (sg : Text) (neg : Bool)
    (hs : sg = [] ∧ neg = false ∨ sg = ['+'] ∧ neg = false ∨ sg = ['-'] ∧ neg = true) : IsSignText sg := by
  rcases hs with ⟨h, _⟩ | ⟨h, _⟩ | ⟨h, _⟩
  · exact Or.inl h
  · exact Or.inr (Or.inl h)
  · exact Or.inr (Or.inr h)

/-- **`fortran_float` reads every text CPython's `f`/`g`/`d` layout produces as the value of its `Dec`** -/
theorem fortran_reads_renderPy (sign : Char) (width : Nat) (d : Dec) :
    fortranFloat (renderPy sign width d) = some d.value := by
  obtain ⟨blank, sg, hsg, hs⟩ := signText_cases sign d.neg
  have hb : d.m % 10 ^ d.frac < 10 ^ d.frac := Nat.mod_lt _ (by positivity)
  let X : Option ExpPart := d.exp.map fun e => ⟨['e'], decide (e < 0), 2 - (Nat.toDigits 10 e.natAbs).length, e.natAbs⟩
  have hL : ∀ x, X = some x → x.letter = [] ∨ x.letter = ['e'] ∨ x.letter = ['E'] := by
    intro x hx
    cases hd : d.exp with
    | none => simp [X, hd] at hx
    | some e => simp [X, hd] at hx; subst hx; exact Or.inr (Or.inl rfl)
  have hX : expValue X = d.exp.getD 0 := by
    cases hd : d.exp with
    | none => simp [X, hd, expValue]
    | some e => simp [X, hd, expValue, expPart_value]
  have hshape : renderPy sign width d = (if blank then [' '] else []) ++
      layoutText sg (fillZeros width (signText sign d.neg) (pyBody d)) (d.m / 10 ^ d.frac) d.frac (d.m % 10 ^ d.frac) X
      ++ List.replicate 0 ' ' := by
    unfold renderPy layoutText pyBody mantissa intDigits fracDigits
    simp only []
    rw [hsg]
    cases hd : d.exp with
    | none => simp [X, hd, List.append_assoc]
    | some e => simp [X, hd, List.append_assoc, pyExpText_eq]
  rw [hshape, fortran_eq_spec_layout blank sg (isSignText_of sg d.neg hs) _ _ _ _ X hL 0,
    parse_layoutText sg d.neg hs _ _ _ _ hb X hL, dec_value_layout d _ hX]

/-- **`fortran_float` reads every text the `e` branch produces (any formatter) as the value of its `Dec`** -/
theorem fortran_reads_renderSci (f : Formatter) (d : Dec) : fortranFloat (renderSci f d) = some d.value := by
  obtain ⟨blank, sg, hsg, hs⟩ := signText_cases f.sign d.neg
  have hb : d.m % 10 ^ d.frac < 10 ^ d.frac := Nat.mod_lt _ (by positivity)
  let e := d.exp.getD 0
  let X : Option ExpPart := some ⟨f.divider.text, decide (e < 0), f.exponentZeroPad - (Nat.toDigits 10 e.natAbs).length, e.natAbs⟩
  have hL : ∀ x, X = some x → x.letter = [] ∨ x.letter = ['e'] ∨ x.letter = ['E'] := by
    intro x hx; simp [X] at hx; subst hx; exact div_text_cases f.divider
  have hX : expValue X = d.exp.getD 0 := by simp [X, expValue, expPart_value, e]
  let j := f.exponentLength - (zfill f.exponentZeroPad (Nat.toDigits 10 e.natAbs)).length
  have hshape : renderSci f d = (if blank then [' '] else []) ++
      layoutText sg (fillZeros f.zeroPadding (signText f.sign d.neg) (pyBody d)) (d.m / 10 ^ d.frac) d.frac (d.m % 10 ^ d.frac) X
      ++ List.replicate j ' ' := by
    unfold renderSci layoutText mantissa intDigits fracDigits
    simp only []
    rw [hsg]
    simp [X, e, j, ExpPart.text, expSign, zfill, List.append_assoc]
  rw [hshape, fortran_eq_spec_layout blank sg (isSignText_of sg d.neg hs) _ _ _ _ X hL j,
    parse_layoutText sg d.neg hs _ _ _ _ hb X hL, dec_value_layout d _ hX]

/-- **the read-back check of `_format_float` reads every candidate as the value of its `Dec`** -/
theorem fortran_reads_candidate (f : Formatter) (x : Num) (sp : FStyle × Nat) :
    fortranFloat (formatFloatAs f x sp) = some (decOf x sp).value := by
  obtain ⟨st, q⟩ := sp
  cases st
  · exact fortran_reads_renderPy f.sign f.zeroPadding (decG x q)
  · exact fortran_reads_renderSci f (decE x q)
  · exact fortran_reads_renderPy f.sign f.zeroPadding (decF x q)

end MontePyVerif.C05
