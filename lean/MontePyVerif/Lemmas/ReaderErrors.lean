import MontePyVerif.Lemmas.Queue
/-!
# Which errors the per-file reader can raise (lemmas for C13_reader_total)

Same shape as `Finite.nf_*`: a property of the raised `Err` is pushed through `flushInput`, `flushBlock`,
`stepData`, `stepLine`, `goLines`.  Reuses the reader model of C11/C20 (`Model/Reader.lean`); nothing is duplicated.
-/
namespace MontePyVerif.Reader

/-- the three errors `read_data` itself raises: malformed read input, read cycle, vertical format -/
def ReaderErr (e : Err) : Prop := e = .parsing ∨ e = .malformed ∨ e = .unsupported

instance (e : Err) : Decidable (ReaderErr e) := by unfold ReaderErr; exact inferInstance

/-- every raise among the events is one of the reader's own three errors -/
def OnlyReaderErrs (evs : List Event) : Prop := ∀ e, Event.raise e ∈ evs → ReaderErr e

theorem ore_nil : OnlyReaderErrs [] := by intro e h; simp at h

theorem ore_append {a b : List Event} (ha : OnlyReaderErrs a) (hb : OnlyReaderErrs b) : OnlyReaderErrs (a ++ b) := by
  intro e h
  rcases List.mem_append.mp h with h | h
  · exact ha e h
  · exact hb e h

theorem ore_flushInput (cfg : Cfg) (bt : BlockType) (raw : List Str) : OnlyReaderErrs (flushInput cfg bt raw) := by
  unfold OnlyReaderErrs flushInput
  intro e h
  split at h
  · split at h
    · simp at h; subst h; exact Or.inl rfl
    · split at h
      · simp at h; subst h; exact Or.inr (Or.inl rfl)
      · simp at h
  · simp at h

theorem ore_flushBlock (cfg : Cfg) (st : LState) : OnlyReaderErrs (flushBlock cfg st).1 := by
  unfold flushBlock
  simp only
  split
  · exact ore_nil
  · exact ore_flushInput _ _ _

theorem ore_stepData (cfg : Cfg) (st : LState) (line : Str) (c : Bool) (evs1 : List Event) (raw1 : List Str)
    (h : OnlyReaderErrs evs1) : OnlyReaderErrs (stepData cfg st line c evs1 raw1).1 := by
  unfold stepData
  split
  · exact h
  · split
    · refine ore_append h ?_
      intro e he; simp at he; subst he; exact Or.inr (Or.inr rfl)
    · refine ore_append h ?_
      intro e he
      split at he <;> simp at he

theorem ore_stepLine (cfg : Cfg) (st : LState) (l : Str) : OnlyReaderErrs (stepLine cfg st l).1 := by
  unfold stepLine
  simp only
  split
  · exact ore_flushBlock _ _
  · split
    · exact ore_stepData _ _ _ _ _ _ (ore_flushInput _ _ _)
    · exact ore_stepData _ _ _ _ _ _ ore_nil

theorem ore_goLines (cfg : Cfg) (st : LState) (ls : List Str) : OnlyReaderErrs (goLines cfg st ls) := by
  induction ls generalizing st with
  | nil => exact ore_flushBlock _ _
  | cons l ls ih =>
    unfold goLines
    simp only
    split
    · exact ore_stepLine _ _ _
    · split
      · exact ore_append (ore_stepLine _ _ _) (ore_flushBlock _ _)
      · exact ore_append (ore_stepLine _ _ _) (ih _)

theorem ore_readData (cfg : Cfg) (ls : List Str) : OnlyReaderErrs (readData cfg ls) := ore_goLines _ _ _

end MontePyVerif.Reader
