import MontePyVerif.Lemmas.Text

/-! # Both readers on every spelling of a real number (lemmas for C05)

A `Spelling` is the structured form of a decimal literal: sign, integer digits, point, fraction digits, exponent with
or without letter.  It covers the `Real` rule of DESIGN.md §5.2 (`IsGReal`) and every text the formatter lays out.
`spec_reads_spelling`: the Spec reads `sp.text` as `sp.value`; `fortran_reads_spelling`: so does the model's
`fortranFloat` (Python's `float()` automaton, then `re.sub` inserting the `E`), also between blanks. -/
namespace MontePyVerif.C05
open MontePyVerif.ValueFormat MontePyVerif.Spec

structure ExpSp where
  /-- `[]`, `['e']` or `['E']` -/
  letter : Text
  /-- `[]`, `['+']` or `['-']` -/
  sign : Text
  digits : Text

structure Spelling where
  sign : Text
  ip : Text
  dot : Bool
  fp : Text
  ex : Option ExpSp

def IsSignText (s : Text) : Prop := s = [] ∨ s = ['+'] ∨ s = ['-']
def AllDigits (t : Text) : Prop := ∀ c ∈ t, c.isDigit = true

structure ExpSp.WF (x : ExpSp) : Prop where
  letter : x.letter = [] ∨ x.letter = ['e'] ∨ x.letter = ['E']
  sign : IsSignText x.sign
  digits : AllDigits x.digits
  ne : x.digits ≠ []
  /-- an exponent without letter needs its sign (`1.5-3`) -/
  signed : x.letter = [] → x.sign ≠ []

structure Spelling.WF (sp : Spelling) : Prop where
  sign : IsSignText sp.sign
  ip : AllDigits sp.ip
  fp : AllDigits sp.fp
  some_digit : sp.ip ≠ [] ∨ sp.fp ≠ []
  nodot : sp.dot = false → sp.fp = []
  ex : ∀ x, sp.ex = some x → x.WF

/-- the `Real` rule of DESIGN.md §5.2: at most three exponent digits; an exponent without letter needs a point -/
structure Spelling.IsGReal (sp : Spelling) : Prop where
  wf : sp.WF
  exp : ∀ x, sp.ex = some x → x.digits.length ≤ 3 ∧ (x.letter = [] → sp.dot = true)

def ExpSp.text (x : ExpSp) : Text := x.letter ++ x.sign ++ x.digits
def Spelling.mantText (sp : Spelling) : Text := sp.sign ++ sp.ip ++ (if sp.dot then '.' :: sp.fp else [])
def Spelling.exText (sp : Spelling) : Text := match sp.ex with | none => [] | some x => x.text
def Spelling.text (sp : Spelling) : Text := sp.mantText ++ sp.exText

def negOf (s : Text) : Bool := decide (s = ['-'])
def ExpSp.value (x : ExpSp) : Int :=
  if negOf x.sign then -((Nat.ofDigitChars 10 x.digits 0 : Nat) : Int) else ((Nat.ofDigitChars 10 x.digits 0 : Nat) : Int)
def Spelling.expValue (sp : Spelling) : Int := match sp.ex with | none => 0 | some x => x.value
def Spelling.mant (sp : Spelling) : Nat := Nat.ofDigitChars 10 (sp.ip ++ sp.fp) 0
/-- the number a spelling denotes -/
def Spelling.value (sp : Spelling) : ℚ :=
  sgnQ (negOf sp.sign) * ((sp.mant : ℚ) * (10 : ℚ) ^ (sp.expValue - (sp.fp.length : Int)))

/-! ## the Spec reader -/

theorem run_digits_int_gen (ds : List Char) (s : NSt) (hd : AllDigits ds)
    (hp : s.ph = .start ∨ s.ph = .signed ∨ s.ph = .int) :
    ds.foldl nstep s = { s with ph := if ds = [] then s.ph else .int, mant := Nat.ofDigitChars 10 ds s.mant,
                                digits := s.digits + ds.length } := by
  by_cases h : ds = []
  · subst h; simp
  · rw [run_digits_int ds s hd h hp]; simp [h]

theorem spec_after_sign (sg : Text) (hs : IsSignText sg) : ∃ s1 : NSt, List.foldl nstep {} sg = s1 ∧
    (s1.ph = .start ∨ s1.ph = .signed) ∧ s1.neg = negOf sg ∧ s1.mant = 0 ∧ s1.scale = 0 ∧ s1.digits = 0 ∧
    s1.eneg = false ∧ s1.ex = 0 := by
  rcases hs with rfl | rfl | rfl
  · exact ⟨{}, rfl, Or.inl rfl, by decide, rfl, rfl, rfl, rfl, rfl⟩
  · exact ⟨{ ph := .signed, neg := false }, by simp [nstep, Char.isDigit], Or.inr rfl, by decide, rfl, rfl, rfl, rfl, rfl⟩
  · exact ⟨{ ph := .signed, neg := true }, by simp [nstep, Char.isDigit], Or.inr rfl, by decide, rfl, rfl, rfl, rfl, rfl⟩

/-- after the significand of any well-formed spelling the Spec's significand is complete -/
theorem spec_mant_done (sp : Spelling) (wf : sp.WF) :
    MantDone (List.foldl nstep {} sp.mantText) (negOf sp.sign) sp.mant sp.fp.length := by
  obtain ⟨s1, hs1, hp1, hn1, hm1, hsc1, hdg1, hen1, hex1⟩ := spec_after_sign sp.sign wf.sign
  have hp1' : s1.ph = .start ∨ s1.ph = .signed ∨ s1.ph = .int := by rcases hp1 with h | h <;> simp [h]
  unfold Spelling.mantText Spelling.mant
  rw [List.foldl_append, List.foldl_append, hs1, run_digits_int_gen sp.ip s1 wf.ip hp1', hm1, hdg1]
  cases hdot : sp.dot with
  | false =>
    have hfp := wf.nodot hdot
    have hip : sp.ip ≠ [] := by rcases wf.some_digit with h | h; exact h; exact absurd hfp h
    simp only [Bool.false_eq_true, if_false, List.foldl_nil, hfp, List.append_nil, List.length_nil]
    refine ⟨Or.inl (by simp [hip]), hn1, rfl, hsc1, ?_, hen1, hex1⟩
    have : 0 < sp.ip.length := List.length_pos_iff.mpr hip
    simp only []; omega
  | true =>
    simp only [if_true, List.foldl_cons]
    have hph : (if sp.ip = [] then s1.ph else NPh.int) = .start ∨ (if sp.ip = [] then s1.ph else NPh.int) = .signed ∨
        (if sp.ip = [] then s1.ph else NPh.int) = .int := by
      by_cases h : sp.ip = [] <;> simp [h, hp1']
    rw [nstep_dot _ hph, run_digits_frac sp.fp _ wf.fp rfl]
    refine ⟨Or.inr rfl, hn1, ?_, ?_, ?_, hen1, hex1⟩
    · simp only []; rw [Nat.ofDigitChars_append]
    · simp only [hsc1]; omega
    · have : 0 < sp.ip.length + sp.fp.length := by
        rcases wf.some_digit with h | h
        · have := List.length_pos_iff.mpr h; omega
        · have := List.length_pos_iff.mpr h; omega
      simp only []; omega

theorem spec_value_expSp (s : NSt) (neg : Bool) (m f : Nat) (h : MantDone s neg m f) (x : ExpSp) (wf : x.WF) :
    (List.foldl nstep s x.text).value = some (sgnQ neg * ((m : ℚ) * (10 : ℚ) ^ (x.value - (f : Int)))) := by
  obtain ⟨hp, hn, hm, hsc, hdg, hen, hex⟩ := h
  have h2 : ∃ s2 : NSt, List.foldl nstep s (x.letter ++ x.sign) = s2 ∧ (s2.ph = .expLetter ∨ s2.ph = .expSigned) ∧
      s2.neg = neg ∧ s2.mant = m ∧ s2.scale = f ∧ s2.eneg = negOf x.sign ∧ s2.ex = 0 := by
    have hsg := wf.signed
    rcases wf.letter with hl | hl | hl <;> rcases wf.sign with hs | hs | hs <;> rcases hp with hp | hp <;>
      simp [hl, hs] at hsg ⊢ <;>
      simp [nstep, Char.isDigit, isExpLetter, hp, hdg, hn, hm, hsc, hex, hen, negOf]
  obtain ⟨s2, hs2, hp2, hn2, hm2, hsc2, hen2, hex2⟩ := h2
  have hp2' : s2.ph = .expLetter ∨ s2.ph = .expSigned ∨ s2.ph = .exp := by rcases hp2 with h | h <;> simp [h]
  unfold ExpSp.text
  rw [List.foldl_append, hs2, run_digits_exp _ s2 wf.digits wf.ne hp2', hex2]
  unfold NSt.value sgnQ ExpSp.value
  cases neg <;> cases hxn : negOf x.sign <;> simp [hn2, hm2, hsc2, hen2, hxn, tenPow_eq]

/-- **the Spec reads every well-formed spelling as the number it denotes** -/
theorem spec_reads_spelling (sp : Spelling) (wf : sp.WF) : parseChars sp.text = some sp.value := by
  have hm := spec_mant_done sp wf
  unfold parseChars Spelling.text Spelling.exText Spelling.value Spelling.expValue
  rw [List.foldl_append]
  cases hx : sp.ex with
  | none => simp only [List.foldl_nil]; exact value_no_exp _ _ _ _ hm
  | some x => simp only []; exact spec_value_expSp _ _ _ _ hm x (wf.ex x hx)


/-! ## the model's reader: Python's `float()` automaton -/

theorem fstep_digit_int (s : FSt) (c : Char) (hc : c.isDigit = true)
    (hp : s.ph = .lead ∨ s.ph = .signed ∨ s.ph = .int) :
    fstep s c = { s with ph := .int, mant := 10 * s.mant + (c.toNat - 48), ndig := s.ndig + 1 } := by
  unfold fstep digitVal
  rw [if_pos hc]
  rcases hp with h | h | h <;> simp [h]

theorem frun_digits_int : ∀ (ds : List Char) (s : FSt), AllDigits ds →
    (s.ph = .lead ∨ s.ph = .signed ∨ s.ph = .int) →
    ds.foldl fstep s = { s with ph := if ds = [] then s.ph else .int, mant := Nat.ofDigitChars 10 ds s.mant,
                                ndig := s.ndig + ds.length }
  | [], s, _, _ => by simp
  | c :: r, s, hd, hp => by
    rw [List.foldl_cons, fstep_digit_int s c (hd c (by simp)) hp]
    have ih := frun_digits_int r { s with ph := .int, mant := 10 * s.mant + (c.toNat - 48), ndig := s.ndig + 1 }
      (fun x hx => hd x (List.mem_cons_of_mem _ hx)) (Or.inr (Or.inr rfl))
    rw [ih]
    simp [Nat.ofDigitChars]
    omega

theorem fstep_digit_frac (s : FSt) (c : Char) (hc : c.isDigit = true) (hp : s.ph = .frac) :
    fstep s c = { s with mant := 10 * s.mant + (c.toNat - 48), nfrac := s.nfrac + 1, ndig := s.ndig + 1 } := by
  unfold fstep digitVal
  rw [if_pos hc]
  simp [hp]

theorem frun_digits_frac : ∀ (ds : List Char) (s : FSt), AllDigits ds → s.ph = .frac →
    ds.foldl fstep s = { s with mant := Nat.ofDigitChars 10 ds s.mant, nfrac := s.nfrac + ds.length, ndig := s.ndig + ds.length }
  | [], s, _, _ => by simp [Nat.ofDigitChars]
  | c :: r, s, hd, hp => by
    rw [List.foldl_cons, fstep_digit_frac s c (hd c (by simp)) hp]
    have ih := frun_digits_frac r { s with mant := 10 * s.mant + (c.toNat - 48), nfrac := s.nfrac + 1, ndig := s.ndig + 1 }
      (fun x hx => hd x (List.mem_cons_of_mem _ hx)) hp
    rw [ih]
    simp [Nat.ofDigitChars]
    omega

theorem fstep_digit_exp (s : FSt) (c : Char) (hc : c.isDigit = true)
    (hp : s.ph = .expStart ∨ s.ph = .expSigned ∨ s.ph = .exp) :
    fstep s c = { s with ph := .exp, ex := 10 * s.ex + (c.toNat - 48) } := by
  unfold fstep digitVal
  rw [if_pos hc]
  rcases hp with h | h | h <;> simp [h]

theorem frun_digits_exp : ∀ (ds : List Char) (s : FSt), AllDigits ds → ds ≠ [] →
    (s.ph = .expStart ∨ s.ph = .expSigned ∨ s.ph = .exp) →
    ds.foldl fstep s = { s with ph := .exp, ex := Nat.ofDigitChars 10 ds s.ex }
  | [], _, _, hne, _ => absurd rfl hne
  | [c], s, hd, _, hp => by
    simp only [List.foldl_cons, List.foldl_nil]
    rw [fstep_digit_exp s c (hd c (by simp)) hp]
    simp [Nat.ofDigitChars]
  | c :: c' :: r, s, hd, _, hp => by
    rw [List.foldl_cons, fstep_digit_exp s c (hd c (by simp)) hp]
    rw [frun_digits_exp (c' :: r) _ (fun x hx => hd x (List.mem_cons_of_mem _ hx)) (by simp) (Or.inr (Or.inr rfl))]
    simp [Nat.ofDigitChars]

theorem fstep_dot (s : FSt) (hp : s.ph = .lead ∨ s.ph = .signed ∨ s.ph = .int) : fstep s '.' = { s with ph := .frac } := by
  unfold fstep
  rcases hp with h | h | h <;> simp [h, Char.isDigit]

/-- leading blanks are skipped -/
theorem frun_lead (i : Nat) : List.foldl fstep {} (List.replicate i ' ') = {} := by
  induction i with
  | zero => rfl
  | succ i ih =>
    rw [List.replicate_succ, List.foldl_cons]
    have : fstep {} ' ' = {} := by simp [fstep, Char.isDigit, isWs]
    rw [this, ih]

/-- `float()` has consumed a complete significand -/
structure FMantDone (s : FSt) (neg : Bool) (m f : Nat) : Prop where
  ph : s.ph = .int ∨ s.ph = .frac
  neg : s.neg = neg
  mant : s.mant = m
  nfrac : s.nfrac = f
  ndig : s.ndig ≠ 0
  eneg : s.eneg = false
  ex : s.ex = 0

theorem f_after_sign (sg : Text) (hs : IsSignText sg) : ∃ s1 : FSt, List.foldl fstep {} sg = s1 ∧
    (s1.ph = .lead ∨ s1.ph = .signed) ∧ s1.neg = negOf sg ∧ s1.mant = 0 ∧ s1.nfrac = 0 ∧ s1.ndig = 0 ∧
    s1.eneg = false ∧ s1.ex = 0 := by
  rcases hs with rfl | rfl | rfl
  · exact ⟨{}, rfl, Or.inl rfl, by decide, rfl, rfl, rfl, rfl, rfl⟩
  · exact ⟨{ ph := .signed, neg := false }, by simp [fstep, Char.isDigit], Or.inr rfl, by decide, rfl, rfl, rfl, rfl, rfl⟩
  · exact ⟨{ ph := .signed, neg := true }, by simp [fstep, Char.isDigit], Or.inr rfl, by decide, rfl, rfl, rfl, rfl, rfl⟩

theorem f_mant_done (sp : Spelling) (wf : sp.WF) :
    FMantDone (List.foldl fstep {} sp.mantText) (negOf sp.sign) sp.mant sp.fp.length := by
  obtain ⟨s1, hs1, hp1, hn1, hm1, hsc1, hdg1, hen1, hex1⟩ := f_after_sign sp.sign wf.sign
  have hp1' : s1.ph = .lead ∨ s1.ph = .signed ∨ s1.ph = .int := by rcases hp1 with h | h <;> simp [h]
  unfold Spelling.mantText Spelling.mant
  rw [List.foldl_append, List.foldl_append, hs1, frun_digits_int sp.ip s1 wf.ip hp1', hm1, hdg1]
  cases hdot : sp.dot with
  | false =>
    have hfp := wf.nodot hdot
    have hip : sp.ip ≠ [] := by rcases wf.some_digit with h | h; exact h; exact absurd hfp h
    simp only [Bool.false_eq_true, if_false, List.foldl_nil, hfp, List.append_nil, List.length_nil]
    refine ⟨Or.inl (by simp [hip]), hn1, rfl, hsc1, ?_, hen1, hex1⟩
    have : 0 < sp.ip.length := List.length_pos_iff.mpr hip
    simp only []; omega
  | true =>
    simp only [if_true, List.foldl_cons]
    have hph : (if sp.ip = [] then s1.ph else FPh.int) = .lead ∨ (if sp.ip = [] then s1.ph else FPh.int) = .signed ∨
        (if sp.ip = [] then s1.ph else FPh.int) = .int := by
      by_cases h : sp.ip = [] <;> simp [h, hp1']
    rw [fstep_dot _ hph, frun_digits_frac sp.fp _ wf.fp rfl]
    refine ⟨Or.inr rfl, hn1, ?_, ?_, ?_, hen1, hex1⟩
    · simp only []; rw [Nat.ofDigitChars_append]
    · simp only [hsc1]; omega
    · have : 0 < sp.ip.length + sp.fp.length := by
        rcases wf.some_digit with h | h
        · have := List.length_pos_iff.mpr h; omega
        · have := List.length_pos_iff.mpr h; omega
      simp only []; omega

/-- trailing blanks do not change what `float()` returns -/
theorem frun_trail : ∀ (j : Nat) (s : FSt), (s.ph = .int ∨ s.ph = .frac ∨ s.ph = .exp ∨ s.ph = .trail) → s.ndig ≠ 0 →
    (List.foldl fstep s (List.replicate j ' ')).result = s.result
  | 0, _, _, _ => rfl
  | j + 1, s, hp, hd => by
    rw [List.replicate_succ, List.foldl_cons]
    have h1 : fstep s ' ' = { s with ph := .trail } := by
      rcases hp with h | h | h | h <;> simp [fstep, Char.isDigit, isWs, h, hd]
    have ih := frun_trail j { s with ph := .trail } (Or.inr (Or.inr (Or.inr rfl))) hd
    rw [h1, ih]
    rcases hp with h | h | h | h <;> simp [FSt.result, h, hd]

theorem f_result_no_exp (s : FSt) (neg : Bool) (m f : Nat) (h : FMantDone s neg m f) :
    s.result = some (sgnQ neg * ((m : ℚ) * (10 : ℚ) ^ ((0 : Int) - (f : Int)))) := by
  obtain ⟨hp, hn, hm, hsc, hdg, hen, hex⟩ := h
  unfold FSt.result sgnQ
  rcases hp with hp | hp <;> cases neg <;> simp [hp, hn, hm, hsc, hdg, hen, hex, pow10Rat_eq]

/-- an exponent with its letter: `float()` reads it -/
theorem f_after_exp (s : FSt) (neg : Bool) (m f : Nat) (h : FMantDone s neg m f) (x : ExpSp) (wf : x.WF)
    (hl : x.letter ≠ []) :
    (List.foldl fstep s x.text).ph = .exp ∧ (List.foldl fstep s x.text).ndig ≠ 0 ∧
    (List.foldl fstep s x.text).result = some (sgnQ neg * ((m : ℚ) * (10 : ℚ) ^ (x.value - (f : Int)))) := by
  obtain ⟨hp, hn, hm, hsc, hdg, hen, hex⟩ := h
  have h2 : ∃ s2 : FSt, List.foldl fstep s (x.letter ++ x.sign) = s2 ∧ (s2.ph = .expStart ∨ s2.ph = .expSigned) ∧
      s2.neg = neg ∧ s2.mant = m ∧ s2.nfrac = f ∧ s2.ndig ≠ 0 ∧ s2.eneg = negOf x.sign ∧ s2.ex = 0 := by
    rcases wf.letter with hl' | hl' | hl' <;> rcases wf.sign with hs | hs | hs <;> rcases hp with hp | hp <;>
      simp [hl', hs] at hl ⊢ <;>
      simp [fstep, Char.isDigit, hp, hdg, hn, hm, hsc, hex, hen, negOf]
  obtain ⟨s2, hs2, hp2, hn2, hm2, hsc2, hdg2, hen2, hex2⟩ := h2
  have hp2' : s2.ph = .expStart ∨ s2.ph = .expSigned ∨ s2.ph = .exp := by rcases hp2 with h | h <;> simp [h]
  unfold ExpSp.text
  rw [List.foldl_append, hs2, frun_digits_exp _ s2 wf.digits wf.ne hp2', hex2]
  refine ⟨rfl, hdg2, ?_⟩
  unfold FSt.result sgnQ ExpSp.value
  cases neg <;> cases hxn : negOf x.sign <;> simp [hn2, hm2, hsc2, hen2, hxn, pow10Rat_eq]


/-- **`float()` reads a spelling whose exponent (if any) has its letter, also between blanks** -/
theorem pyFloat_letter (sp : Spelling) (wf : sp.WF) (hl : ∀ x, sp.ex = some x → x.letter ≠ []) (i j : Nat) :
    pyFloat (List.replicate i ' ' ++ sp.text ++ List.replicate j ' ') = some sp.value := by
  have hm := f_mant_done sp wf
  unfold pyFloat Spelling.text Spelling.exText Spelling.value Spelling.expValue
  rw [List.foldl_append, List.foldl_append, frun_lead, List.foldl_append]
  cases hx : sp.ex with
  | none =>
    simp only [List.foldl_nil]
    rw [frun_trail j _ (by rcases hm.ph with h | h <;> simp [h]) hm.ndig]
    exact f_result_no_exp _ _ _ _ hm
  | some x =>
    simp only []
    obtain ⟨hp, hd, hr⟩ := f_after_exp _ _ _ _ hm x (wf.ex x hx) (hl x hx)
    rw [frun_trail j _ (Or.inr (Or.inr (Or.inl hp))) hd]
    exact hr

theorem fstep_bad (s : FSt) (c : Char) (h : s.ph = .bad) : (fstep s c).ph = .bad := by
  unfold fstep
  split_ifs <;> simp [h]

theorem frun_bad : ∀ (t : Text) (s : FSt), s.ph = .bad → (List.foldl fstep s t).ph = .bad
  | [], _, h => h
  | c :: r, s, h => by rw [List.foldl_cons]; exact frun_bad r _ (fstep_bad s c h)

theorem result_bad (s : FSt) (h : s.ph = .bad) : s.result = none := by
  unfold FSt.result; simp [h]

/-- `float()` rejects an exponent without letter (`1.5-3`) -/
theorem pyFloat_noletter (sp : Spelling) (wf : sp.WF) (x : ExpSp) (hx : sp.ex = some x) (hl : x.letter = []) (i j : Nat) :
    pyFloat (List.replicate i ' ' ++ sp.text ++ List.replicate j ' ') = none := by
  have hm := f_mant_done sp wf
  have wx := wf.ex x hx
  unfold pyFloat Spelling.text Spelling.exText
  rw [List.foldl_append, List.foldl_append, frun_lead, List.foldl_append, hx]
  simp only [ExpSp.text, hl, List.nil_append]
  apply result_bad
  apply frun_bad
  rw [List.foldl_append]
  apply frun_bad
  have hsg := wx.signed hl
  rcases wx.sign with hs | hs | hs
  · exact absurd hs hsg
  · rw [hs]; simp only [List.foldl_cons, List.foldl_nil]
    rcases hm.ph with h | h <;> simp [fstep, Char.isDigit, h]
  · rw [hs]; simp only [List.foldl_cons, List.foldl_nil]
    rcases hm.ph with h | h <;> simp [fstep, Char.isDigit, h]

/-! ## `re.sub(r"([\d.])([-+])", r"\1E\2", s)` on a spelling without exponent letter -/

def trig (c : Char) : Bool := c.isDigit || c = '.'

theorem insertE_quiet (c c' : Char) (r : Text) (h : (trig c && isSignCh c') = false) :
    insertE (c :: c' :: r) = c :: insertE (c' :: r) := by
  rw [insertE]
  unfold trig isSignCh at h
  simp only [h, Bool.false_eq_true, if_false]

theorem insertE_trigger (c c' : Char) (r : Text) (h : (trig c && isSignCh c') = true) :
    insertE (c :: c' :: r) = c :: 'E' :: c' :: insertE r := by
  rw [insertE]
  unfold trig isSignCh at h
  simp only [h, if_true]

/-- nothing is inserted behind characters that are neither digits nor points -/
theorem insertE_notrig : ∀ (pre rest : Text), (∀ c ∈ pre, trig c = false) → insertE (pre ++ rest) = pre ++ insertE rest
  | [], _, _ => rfl
  | c :: p, rest, h => by
    have ih := insertE_notrig p rest (fun x hx => h x (List.mem_cons_of_mem _ hx))
    cases hpr : p ++ rest with
    | nil =>
      have hp : p = [] := (List.append_eq_nil_iff.mp hpr).1
      have hr : rest = [] := (List.append_eq_nil_iff.mp hpr).2
      subst hp; subst hr; simp [insertE]
    | cons c' r =>
      rw [List.cons_append, hpr, insertE_quiet c c' r (by simp [h c (by simp)]), ← hpr, ih]
      rfl

/-- nothing is inserted where no sign follows -/
theorem insertE_nosign : ∀ (pre rest : Text), (∀ c ∈ pre.drop 1, isSignCh c = false) →
    (∀ c' r, rest = c' :: r → isSignCh c' = false) → insertE (pre ++ rest) = pre ++ insertE rest
  | [], _, _, _ => rfl
  | c :: p, rest, h, hr => by
    have ih := insertE_nosign p rest (fun x hx => h x (by simpa using List.mem_of_mem_drop hx)) hr
    cases hpr : p ++ rest with
    | nil =>
      have hp : p = [] := (List.append_eq_nil_iff.mp hpr).1
      have hr' : rest = [] := (List.append_eq_nil_iff.mp hpr).2
      subst hp; subst hr'; simp [insertE]
    | cons c' r =>
      have hc' : isSignCh c' = false := by
        cases p with
        | nil => exact hr c' r (by simpa using hpr)
        | cons a q =>
          have : a = c' := by simp at hpr; exact hpr.1
          subst this
          exact h a (by simp)
      rw [List.cons_append, hpr, insertE_quiet c c' r (by simp [hc']), ← hpr, ih]
      rfl

theorem digit_not_sign (c : Char) (hc : c.isDigit = true) : isSignCh c = false := by
  unfold isSignCh
  by_contra h
  simp only [Bool.not_eq_false, Bool.or_eq_true, decide_eq_true_eq] at h
  rcases h with rfl | rfl <;> simp [Char.isDigit] at hc


/-- the spelling with an `E` in front of a letter-less exponent -/
def Spelling.withE (sp : Spelling) : Spelling :=
  { sp with ex := sp.ex.map fun x => { x with letter := ['E'] } }

theorem withE_wf (sp : Spelling) (wf : sp.WF) : sp.withE.WF ∧ (∀ x, sp.withE.ex = some x → x.letter ≠ []) ∧
    sp.withE.value = sp.value := by
  refine ⟨⟨wf.sign, wf.ip, wf.fp, wf.some_digit, wf.nodot, ?_⟩, ?_, ?_⟩
  · intro x hx
    cases hex : sp.ex with
    | none => simp [Spelling.withE, hex] at hx
    | some y =>
      simp [Spelling.withE, hex] at hx
      subst hx
      have wy := wf.ex y hex
      exact ⟨Or.inr (Or.inr rfl), wy.sign, wy.digits, wy.ne, by intro h; simp at h⟩
  · intro x hx
    cases hex : sp.ex with
    | none => simp [Spelling.withE, hex] at hx
    | some y => simp [Spelling.withE, hex] at hx; subst hx; simp
  · unfold Spelling.value Spelling.expValue Spelling.mant Spelling.withE
    cases hex : sp.ex <;> simp [ExpSp.value]

theorem mant_chars (sp : Spelling) (wf : sp.WF) :
    ∀ c ∈ sp.ip ++ (if sp.dot then '.' :: sp.fp else []), trig c = true ∧ isSignCh c = false := by
  intro c hc
  have hdig : ∀ c : Char, c.isDigit = true → trig c = true ∧ isSignCh c = false :=
    fun c h => ⟨by simp [trig, h], digit_not_sign c h⟩
  rcases List.mem_append.mp hc with h | h
  · exact hdig c (wf.ip c h)
  · cases hd : sp.dot with
    | false => simp [hd] at h
    | true =>
      simp only [hd, if_true, List.mem_cons] at h
      rcases h with rfl | h
      · exact ⟨by decide, by decide⟩
      · exact hdig c (wf.fp c h)

theorem mant_ne_nil (sp : Spelling) (wf : sp.WF) : sp.ip ++ (if sp.dot then '.' :: sp.fp else []) ≠ [] := by
  rcases wf.some_digit with h | h
  · simp [h]
  · have hd : sp.dot = true := by
      by_contra hd
      exact h (wf.nodot (by simpa using hd))
    simp [hd]

/-- the substitution puts exactly one `E` in front of the sign of a letter-less exponent -/
theorem insertE_spelling (sp : Spelling) (wf : sp.WF) (x : ExpSp) (hx : sp.ex = some x) (hl : x.letter = []) (i j : Nat) :
    insertE (List.replicate i ' ' ++ sp.text ++ List.replicate j ' ')
      = List.replicate i ' ' ++ sp.withE.text ++ List.replicate j ' ' := by
  have wx := wf.ex x hx
  obtain ⟨sc, hsc, hscs⟩ : ∃ sc : Char, x.sign = [sc] ∧ isSignCh sc = true := by
    rcases wx.sign with h | h | h
    · exact absurd h (wx.signed hl)
    · exact ⟨'+', h, by decide⟩
    · exact ⟨'-', h, by decide⟩
  have hMne := mant_ne_nil sp wf
  have hMc := mant_chars sp wf
  set M := sp.ip ++ (if sp.dot then '.' :: sp.fp else []) with hM
  have hsplit : M = M.dropLast ++ [M.getLast hMne] := (List.dropLast_append_getLast hMne).symm
  set M0 := M.dropLast with hM0
  set cl := M.getLast hMne with hcl
  have hclM : cl ∈ M := List.getLast_mem hMne
  have hM0sub : ∀ c ∈ M0, c ∈ M := fun c hc => List.mem_of_mem_dropLast hc
  set R := x.digits ++ List.replicate j ' ' with hR
  -- the two texts, regrouped
  have hT : List.replicate i ' ' ++ sp.text ++ List.replicate j ' '
      = (List.replicate i ' ' ++ sp.sign) ++ (M0 ++ (cl :: sc :: R)) := by
    unfold Spelling.text Spelling.mantText Spelling.exText
    rw [hx]
    simp only [ExpSp.text, hl, hsc, List.nil_append]
    rw [List.append_assoc sp.sign sp.ip, ← hM, hsplit]
    simp [hR, List.append_assoc]
  have hT' : List.replicate i ' ' ++ sp.withE.text ++ List.replicate j ' '
      = (List.replicate i ' ' ++ sp.sign) ++ (M0 ++ (cl :: 'E' :: sc :: R)) := by
    unfold Spelling.text Spelling.mantText Spelling.exText Spelling.withE
    rw [hx]
    simp only [ExpSp.text, hsc, Option.map_some]
    rw [List.append_assoc sp.sign sp.ip, ← hM, hsplit]
    simp [hR, List.append_assoc]
  have hRq : insertE R = R := by
    have := insertE_nosign R [] (fun c hc => by
      have hc' := List.mem_of_mem_drop hc
      rcases List.mem_append.mp hc' with h | h
      · exact digit_not_sign c (wx.digits c h)
      · rw [(List.mem_replicate.mp h).2]; decide) (fun c' r h => by cases h)
    simpa [insertE] using this
  rw [hT, hT']
  rw [insertE_notrig _ _ (by
    intro c hc
    rcases List.mem_append.mp hc with h | h
    · rw [(List.mem_replicate.mp h).2]; decide
    · rcases wf.sign with hs | hs | hs <;> rw [hs] at h <;> simp at h <;> subst h <;> decide)]
  rw [insertE_nosign M0 _ (fun c hc => (hMc c (hM0sub c (List.mem_of_mem_drop hc))).2)
    (fun c' r h => by
      have : c' = cl := by simp at h; exact h.1.symm
      rw [this]; exact (hMc cl hclM).2)]
  rw [insertE_trigger cl sc R (by simp [(hMc cl hclM).1, hscs]), hRq]

/-- **the model's `fortran_float` reads every well-formed spelling, also between blanks, as the number it denotes** -/
theorem fortran_reads_spelling (sp : Spelling) (wf : sp.WF) (i j : Nat) :
    fortranFloat (List.replicate i ' ' ++ sp.text ++ List.replicate j ' ') = some sp.value := by
  unfold fortranFloat
  by_cases hl : ∀ x, sp.ex = some x → x.letter ≠ []
  · rw [pyFloat_letter sp wf hl i j]
  · simp only [not_forall] at hl
    obtain ⟨x, hx, hl⟩ := hl
    have hl : x.letter = [] := by simpa using hl
    rw [pyFloat_noletter sp wf x hx hl i j]
    simp only []
    obtain ⟨wfE, hlE, hv⟩ := withE_wf sp wf
    rw [insertE_spelling sp wf x hx hl i j, pyFloat_letter sp.withE wfE hlE i j, hv]

/-- **both readers agree on every well-formed spelling** (in particular on the `Real` rule of DESIGN.md §5.2) -/
theorem readers_agree (sp : Spelling) (wf : sp.WF) :
    fortranFloat sp.text = parseChars sp.text ∧ parseChars sp.text = some sp.value := by
  have h := fortran_reads_spelling sp wf 0 0
  simp only [List.replicate_zero, List.nil_append, List.append_nil] at h
  exact ⟨by rw [h, spec_reads_spelling sp wf], spec_reads_spelling sp wf⟩

end MontePyVerif.C05
