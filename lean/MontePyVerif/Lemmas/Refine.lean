import MontePyVerif.Lemmas.LineFacts
import MontePyVerif.Lemmas.Queue
/-!
# The model of `read_data` refines the Spec reader (simulation, lemmas for C11 / C20)

For lines on which the code's rules and MCNP's coincide (`GoodLine`: the named places where the code is
knowingly wider or narrower than MCNP are excluded) the events of `Reader.readData`, projected to what the
Spec talks about (`proj`), are the Spec's stream of the same lines.
-/
namespace MontePyVerif.Refine
open MontePyVerif MontePyVerif.Reader MontePyVerif.LineFacts MontePyVerif.ListBasics

/-- a physical line (tabs expanded, no terminator) on which the code's rules and MCNP's rules coincide -/
structure GoodLine (limit : Nat) (x : List Char) : Prop where
  /-- no white space other than the blank (`str.strip`/`split` know more: VT, FF, FS…US) -/
  onlyBlanks : OnlyBlanks x
  /-- within the column limit with room for the line end (a line of exactly `limit` columns gets a
      `LineOverRunWarning` and its `\n` cut off) -/
  fits : x.length < limit
  /-- no `#` in columns 1-5 outside a comment line (the code raises `UnsupportedFeature`: vertical format) -/
  noVertical : (x.take Gen.blankSpaceContinue).contains '#' = true → Spec.isCommentLine x = true
  /-- in a data line: no `&` directly in front of a `$` comment (MCNP: continuation; the code: none) -/
  noAmpDollar : Spec.isCommentLine x = false → NoAmpBeforeDollar x
  /-- a line that is neither blank nor a comment line carries a word (no line holding only `$ …` or only `&`) -/
  hasWords : Spec.isBlankLine x = false → Spec.isCommentLine x = false → Spec.lineWords x ≠ []
  /-- in a data line the first `$` stands at the line start or behind a blank -/
  dollarSpaced : Spec.isCommentLine x = false → ∀ pre post, x = pre ++ '$' :: post → pre.contains '$' = false →
    pre = [] ∨ pre.getLast? = some ' '

/-! ## what the Spec sees in the model's events -/

/-- the words of a flushed group of stored lines -/
def wordsOf (raw : List Str) : List Spec.Word :=
  (raw.filter (fun r => !Spec.isCommentLine r)).flatMap Spec.lineWords

/-- the group holds a data line (not only C comment lines) -/
def hasData (raw : List Str) : Bool := raw.any (fun r => !Spec.isCommentLine r)

def projEv : Event → List Spec.SOut
  | .input bt raw => if hasData raw then [.inp ⟨bt.value, wordsOf raw⟩] else []
  | .enqueue e => [.card ⟨e.bt.value, e.name, e.chain⟩]
  | .raise .parsing => [.err .badRead]
  | .raise .malformed => [.err .cycle]
  | .raise .fileNotFound => [.err .missing]
  /- vertical input format and fuel are outside the Spec: they are mapped to an error so that nothing behind
     them counts; under the hypotheses of the refinement theorems they do not occur -/
  | .raise .unsupported => [.err .badRead]
  | .raise .outOfFuel => [.err .missing]
  | _ => []

/-- the Spec-level content of a list of events -/
def proj (evs : List Event) : List Spec.SOut := evs.flatMap projEv

theorem proj_append (a b : List Event) : proj (a ++ b) = proj a ++ proj b := by simp [proj]
theorem proj_nil : proj [] = [] := rfl

/-! ## kinds of good lines -/

theorem kind_good {limit : Nat} {x : List Char} (g : GoodLine limit x) :
    Spec.classifyPhysical x =
      if Spec.isBlankLine x then .blank
      else if Spec.isCommentLine x then .comment
      else .data (Spec.startsInput x) (Spec.lineWords x) (Spec.endsAmp (Spec.dataPart x)) := by
  unfold Spec.classifyPhysical
  cases hb : Spec.isBlankLine x
  · cases hc : Spec.isCommentLine x
    · have hw := g.hasWords hb hc
      have : (Spec.splitWords (Spec.dataPart x)).isEmpty = false := by
        cases hs : Spec.splitWords (Spec.dataPart x) with
        | nil => exfalso; apply hw; unfold Spec.lineWords; simp [hs]
        | cons => rfl
      simp [this]
    · simp
  · simp

theorem expandtabs_noTab (tab : Nat) (y : List Char) (h : ∀ c ∈ y, c ≠ '\t') (col : Nat) :
    expandtabsAux tab col y = y := by
  induction y generalizing col with
  | nil => rfl
  | cons c y ih =>
    have hc : c ≠ '\t' := h c (by simp)
    simp only [expandtabsAux]
    have : (c == '\t') = false := by simpa using hc
    simp only [this, Bool.false_eq_true, ↓reduceIte]
    rw [ih (fun d hd => h d (List.mem_cons_of_mem _ hd))]

theorem expandtabs_good (x t : List Char) (hx : OnlyBlanks x) (ht : IsTerm t) :
    expandtabs Gen.tabSize (x ++ t) = x ++ t := by
  apply expandtabs_noTab
  intro c hc
  rcases List.mem_append.mp hc with h | h
  · intro e; subst e; exact absurd (hx _ h (by decide)) (by decide)
  · rcases ht with rfl | rfl
    · simp at h
    · simp at h; subst h; decide

/-- the stored line of a data/comment line, and what one loop iteration does with a good line -/
theorem stepLine_good (cfg : Cfg) (st : LState) (x t : List Char) (g : GoodLine cfg.lineLength x) (ht : IsTerm t) :
    stepLine cfg st (x ++ t) =
      if Spec.isBlankLine x then
        ((flushBlock cfg st).1, { (flushBlock cfg st).2 with hasNonComments := false })
      else
        let c := Spec.isCommentLine x
        let new := Spec.startsInput x && !st.continueInput && !c && st.hasNonComments && !st.raw.isEmpty
        let evs1 := if new then flushInput cfg st.blockType st.raw else []
        let raw1 := if new then [] else st.raw
        if hasRaise evs1 then (evs1, st)
        else (evs1, { st with continueInput := if c then st.continueInput else Spec.endsAmp (Spec.dataPart x),
                              hasNonComments := st.hasNonComments || !c,
                              raw := raw1 ++ [rstripB x] }) := by
  unfold stepLine
  simp only [expandtabs_good x t g.onlyBlanks ht, blank_agree x t g.onlyBlanks ht]
  cases hb : Spec.isBlankLine x
  · simp only [Bool.false_eq_true, ↓reduceIte]
    unfold startsNew
    rw [starts_agree x t g.onlyBlanks ht, comment_agree x t g.onlyBlanks ht]
    have hsd : ∀ evs1 raw1, stepData cfg st (x ++ t) (Spec.isCommentLine x) evs1 raw1 =
        if hasRaise evs1 then (evs1, st)
        else (evs1, { st with continueInput := if Spec.isCommentLine x then st.continueInput else Spec.endsAmp (Spec.dataPart x),
                              hasNonComments := st.hasNonComments || !Spec.isCommentLine x,
                              raw := raw1 ++ [rstripB x] }) := by
      intro evs1 raw1
      unfold stepData
      split
      · rfl
      · rw [hash_agree x t ht]
        have hno : ((x.take Gen.blankSpaceContinue).contains '#' && !Spec.isCommentLine x) = false := by
          cases hh : (x.take Gen.blankSpaceContinue).contains '#'
          · rfl
          · simp [g.noVertical hh]
        simp only [hno, Bool.false_eq_true, ↓reduceIte, take_limit x t ht cfg.lineLength g.fits,
          rstrip_agree x t g.onlyBlanks ht]
        cases hcm : Spec.isCommentLine x
        · simp only [Bool.false_eq_true, ↓reduceIte, continues_agree x t g.onlyBlanks ht (g.noAmpDollar hcm)]
          simp
        · simp
    cases hnew : (Spec.startsInput x && !st.continueInput && !Spec.isCommentLine x && st.hasNonComments && !st.raw.isEmpty)
    · simp only [Bool.false_eq_true, ↓reduceIte, hsd]
    · simp only [↓reduceIte, hsd]
  · simp

/-! ## stored lines and the read-card test (`flush_input`) -/

/-- a line as the model stores it in `input_raw_lines`: a good non-blank line without its trailing blanks -/
def Stored (limit : Nat) (r : Str) : Prop :=
  ∃ x, GoodLine limit x ∧ Spec.isBlankLine x = false ∧ r = rstripB x

theorem Stored.onlyBlanks {limit : Nat} {r : Str} (h : Stored limit r) : OnlyBlanks r := by
  obtain ⟨x, g, _, rfl⟩ := h; exact g.onlyBlanks.rstripB

theorem Stored.comment_eq {limit : Nat} {r : Str} (h : Stored limit r) : Reader.isComment r = Spec.isCommentLine r := by
  have := comment_agree r [] h.onlyBlanks (Or.inl rfl)
  simpa using this

theorem isCommentLine_rstripB (x : List Char) : Spec.isCommentLine (rstripB x) = Spec.isCommentLine x := by
  obtain ⟨k, hk⟩ := rstripB_decomp x
  conv => rhs; rw [hk]
  rw [isCommentLine_append_blanks]

theorem lineWords_rstripB (x : List Char) : Spec.lineWords (rstripB x) = Spec.lineWords x := by
  obtain ⟨k, hk⟩ := rstripB_decomp x
  conv => rhs; rw [hk]
  rw [lineWords_append_blanks]

theorem Stored.words_ne {limit : Nat} {r : Str} (h : Stored limit r) (hc : Spec.isCommentLine r = false) :
    Spec.lineWords r ≠ [] := by
  obtain ⟨x, g, hb, rfl⟩ := h
  rw [lineWords_rstripB]
  rw [isCommentLine_rstripB] at hc
  exact g.hasWords hb hc

theorem Stored.dollarSpaced {limit : Nat} {r : Str} (h : Stored limit r) (hc : Spec.isCommentLine r = false) :
    ∀ pre post, r = pre ++ '$' :: post → pre.contains '$' = false → pre = [] ∨ pre.getLast? = some ' ' := by
  obtain ⟨x, g, _, rfl⟩ := h
  intro pre post e hpre
  obtain ⟨k, hk⟩ := rstripB_decomp x
  rw [isCommentLine_rstripB] at hc
  apply g.dollarSpaced hc pre (post ++ List.replicate k ' ') _ hpre
  rw [hk, e]; simp

theorem beforeDollar_eq (r : Str) : Reader.beforeDollar r = Spec.dataPart r := by
  unfold Reader.beforeDollar Spec.dataPart
  congr 1
  funext c; by_cases h : c = '$' <;> simp [h]

theorem dataPart_sublist (r : Str) : ∀ c ∈ Spec.dataPart r, c ∈ r := fun _ hc =>
  (List.takeWhile_sublist _).subset hc

theorem lineWordsM_eq {r : Str} (h : OnlyBlanks r) : Reader.lineWordsM r = Spec.lineWords r := by
  unfold Reader.lineWordsM Spec.lineWords
  simp only [beforeDollar_eq]
  have hd : OnlyBlanks (Spec.dataPart r) := fun c hc => h c (dataPart_sublist r c hc)
  have h1 := rstrip_agree (Spec.dataPart r) [] hd (Or.inl rfl)
  rw [List.append_nil] at h1
  rw [h1, endsWith_rstripB, splitWords_agree hd]

/-- characters of the words of a line are characters of the line (or of the open word) -/
theorem mem_wordsAux (y cur : List Char) : ∀ w ∈ Spec.wordsAux y cur, ∀ c ∈ w, c ∈ y ∨ c ∈ cur := by
  induction y generalizing cur with
  | nil =>
    intro w hw c hc
    unfold Spec.wordsAux at hw
    split at hw
    · simp at hw
    · simp at hw; subst hw; right; exact List.mem_reverse.mp hc
  | cons a y ih =>
    intro w hw c hc
    unfold Spec.wordsAux at hw
    split at hw
    · split at hw
      · rcases ih [] w hw c hc with h | h
        · left; exact List.mem_cons_of_mem _ h
        · simp at h
      · rcases List.mem_cons.mp hw with rfl | hw'
        · right; exact List.mem_reverse.mp hc
        · rcases ih [] w hw' c hc with h | h
          · left; exact List.mem_cons_of_mem _ h
          · simp at h
    · rcases ih (a :: cur) w hw c hc with h | h
      · left; exact List.mem_cons_of_mem _ h
      · rcases List.mem_cons.mp h with rfl | h'
        · left; simp
        · right; exact h'

theorem mem_lineWords (r : Str) : ∀ w ∈ Spec.lineWords r, ∀ c ∈ w, c ∈ r := by
  intro w hw c hc
  unfold Spec.lineWords at hw
  have hsub : w ∈ Spec.splitWords (Spec.dataPart r) := by
    simp only at hw
    split at hw
    · exact (List.dropLast_sublist _).subset hw
    · exact hw
  rcases mem_wordsAux _ _ w hsub c hc with h | h
  · exact dataPart_sublist r c h
  · simp at h

theorem splitEqM_eq {w : List Char} (h : OnlyBlanks w) : Reader.splitEqM w = Spec.splitEq w := by
  unfold Reader.splitEqM Spec.splitEq
  have hfun : (fun c : Char => if (c == '=') = true then ' ' else c) = (fun c : Char => if c = '=' then ' ' else c) := by
    funext c; by_cases hc : c = '=' <;> simp [hc]
  rw [hfun]
  apply splitWords_agree
  intro c hc hs
  obtain ⟨d, hd, rfl⟩ := List.mem_map.mp hc
  by_cases he : d = '='
  · simp [he]
  · simp only [he, ↓reduceIte] at hs ⊢
    exact h d hd hs

/-- a word boundary: splitting behind a blank splits the words -/
theorem wordsAux_boundary (d rest cur : List Char) (h : d.getLast? = some ' ') :
    Spec.wordsAux (d ++ rest) cur = Spec.wordsAux d cur ++ Spec.wordsAux rest [] := by
  induction d generalizing cur with
  | nil => simp at h
  | cons a d ih =>
    cases d with
    | nil =>
      simp at h; subst h
      simp only [List.cons_append, List.nil_append, Spec.wordsAux, ↓reduceIte]
      cases cur <;> simp
    | cons b d' =>
      have h' : (b :: d').getLast? = some ' ' := by simpa [List.getLast?_cons_cons] using h
      have e1 : ∀ l, Spec.wordsAux (a :: l) cur =
          if a = ' ' then (if cur.isEmpty then Spec.wordsAux l [] else cur.reverse :: Spec.wordsAux l [])
          else Spec.wordsAux l (a :: cur) := fun l => by rw [Spec.wordsAux]
      simp only [List.cons_append] at ih ⊢
      rw [e1, e1]
      split
      · split
        · exact ih [] h'
        · rw [ih [] h']; rfl
      · exact ih _ h'

theorem flatMap_congr' {α β} (l : List α) (f g : α → List β) (h : ∀ x ∈ l, f x = g x) :
    l.flatMap f = l.flatMap g := by
  induction l with
  | nil => rfl
  | cons a t ih =>
    simp only [List.flatMap_cons]
    rw [h a (by simp), ih (fun x hx => h x (List.mem_cons_of_mem _ hx))]

theorem beq_list (a b : List Char) : (a == b) = decide (a = b) := by
  by_cases h : a = b <;> simp [h]

theorem head?_dropLast {α} (l : List α) (h : l.dropLast ≠ []) : l.dropLast.head? = l.head? := by
  match l with
  | [] => simp at h
  | [a] => simp at h
  | a :: b :: t => simp [List.dropLast]

/-- the first blank-separated word of a stored data line is the first word the Spec sees in it -/
theorem Stored.head_word {limit : Nat} {r : Str} (h : Stored limit r) (hc : Spec.isCommentLine r = false) :
    (Reader.pySplit r).head? = (Spec.lineWords r).head? := by
  have hne := h.words_ne hc
  rw [splitWords_agree h.onlyBlanks]
  have hsplit := @List.takeWhile_append_dropWhile _ (fun c => decide (c ≠ '$')) r
  have hlw : (Spec.lineWords r).head? = (Spec.splitWords (Spec.dataPart r)).head? := by
    unfold Spec.lineWords at hne ⊢
    simp only at hne ⊢
    split
    · rename_i ha; simp only [ha, ↓reduceIte] at hne; exact head?_dropLast _ hne
    · rfl
  have hdne : Spec.splitWords (Spec.dataPart r) ≠ [] := by
    intro e; apply hne; unfold Spec.lineWords; simp [e]
  rw [hlw]
  cases hrest : r.dropWhile (fun c => decide (c ≠ '$')) with
  | nil =>
    have : Spec.dataPart r = r := by
      unfold Spec.dataPart; rw [hrest, List.append_nil] at hsplit; exact hsplit
    rw [this]
  | cons a post =>
    have ha : a = '$' := by
      have := head_dropWhile _ _ _ _ hrest; simpa using this
    subst ha
    have hr : r = Spec.dataPart r ++ '$' :: post := by
      unfold Spec.dataPart; rw [hrest] at hsplit; exact hsplit.symm
    have hnod : (Spec.dataPart r).contains '$' = false := by
      unfold Spec.dataPart
      rw [List.contains_eq_mem, decide_eq_false_iff_not]
      intro hm
      have := mem_takeWhile _ _ _ hm
      simp at this
    rcases h.dollarSpaced hc _ _ hr hnod with hnil | hlast
    · exfalso; apply hdne; rw [hnil]; rfl
    · conv => lhs; rw [hr]
      unfold Spec.splitWords at hdne ⊢
      rw [wordsAux_boundary _ _ _ hlast]
      cases hh : Spec.wordsAux (Spec.dataPart r) [] with
      | nil => exact absurd hh hdne
      | cons => rfl

/-- what `flush_input` is called with when an input is complete: stored lines, one of them data -/
structure GoodGroup (limit : Nat) (raw : List Str) : Prop where
  stored : ∀ r ∈ raw, Stored limit r
  data : hasData raw = true

theorem inputWordsM_eq {limit : Nat} {raw : List Str} (h : ∀ r ∈ raw, Stored limit r) :
    Reader.inputWordsM raw = wordsOf raw := by
  unfold Reader.inputWordsM wordsOf
  have hf : raw.filter (fun l => !Reader.isComment l) = raw.filter (fun r => !Spec.isCommentLine r) := by
    apply List.filter_congr
    intro r hr; rw [(h r hr).comment_eq]
  rw [hf]
  apply flatMap_congr'
  intro r hr
  exact lineWordsM_eq (h r (List.mem_filter.mp hr).1).onlyBlanks

theorem isReadInput_eq {limit : Nat} {raw : List Str} (h : ∀ r ∈ raw, Stored limit r) :
    Reader.isReadInput raw =
      match wordsOf raw with
      | [] => false
      | w :: _ => Spec.lowerEq w ['r', 'e', 'a', 'd'] := by
  unfold Reader.isReadInput wordsOf
  induction raw with
  | nil => rfl
  | cons r raw ih =>
    have hr := h r (by simp)
    have ht : ∀ r' ∈ raw, Stored limit r' := fun r' hr' => h r' (List.mem_cons_of_mem _ hr')
    simp only [List.find?_cons, List.filter_cons, hr.comment_eq]
    cases hc : Spec.isCommentLine r
    · simp only [Bool.not_false, ↓reduceIte, List.flatMap_cons]
      have hhead := hr.head_word hc
      have hne := hr.words_ne hc
      cases hw : Spec.lineWords r with
      | nil => exact absurd hw hne
      | cons w ws =>
        rw [hw] at hhead
        cases hp : Reader.pySplit r with
        | nil => rw [hp] at hhead; simp at hhead
        | cons w' ws' =>
          rw [hp] at hhead; simp at hhead; subst hhead
          simp [Spec.lowerEq, Reader.lower, beq_list]
    · simp only [Bool.not_true, Bool.false_eq_true, ↓reduceIte]
      exact ih ht

theorem mem_wordsOf {limit : Nat} {raw : List Str} (h : ∀ r ∈ raw, Stored limit r) :
    ∀ w ∈ wordsOf raw, OnlyBlanks w := by
  intro w hw
  unfold wordsOf at hw
  obtain ⟨r, hr, hwr⟩ := List.mem_flatMap.mp hw
  have hs := (h r (List.mem_filter.mp hr).1).onlyBlanks
  exact fun c hc => hs c (mem_lineWords r w hwr c hc)

def isErr : Spec.SOut → Bool
  | .err _ => true
  | _ => false

/-- **(F)** `flush_input` on a complete input: what the Spec makes of the same words -/
theorem flushInput_good {limit : Nat} (cfg : Cfg) (bt : BlockType) (raw : List Str) (g : GoodGroup limit raw) :
    proj (flushInput cfg bt raw) = [Spec.outOf (joinPath cfg.topDir) cfg.chain ⟨bt.value, wordsOf raw⟩] ∧
    hasRaise (flushInput cfg bt raw) = isErr (Spec.outOf (joinPath cfg.topDir) cfg.chain ⟨bt.value, wordsOf raw⟩) := by
  unfold flushInput Spec.outOf
  rw [isReadInput_eq g.stored]
  unfold Reader.parseRead
  rw [inputWordsM_eq g.stored]
  unfold Spec.cardOf
  have hwords := mem_wordsOf g.stored
  cases hw : wordsOf raw with
  | nil => simp [proj, projEv, g.data, hw, hasRaise, Event.isRaise, isErr]
  | cons w rest =>
    simp only
    cases hread : Spec.lowerEq w ['r', 'e', 'a', 'd']
    · simp [proj, projEv, g.data, hw, hasRaise, Event.isRaise, isErr]
    · simp only [↓reduceIte]
      have hrest : rest.flatMap Reader.splitEqM = rest.flatMap Spec.splitEq := by
        apply flatMap_congr'
        intro v hv
        exact splitEqM_eq (hwords v (by rw [hw]; exact List.mem_cons_of_mem _ hv))
      rw [hrest]
      have hlow : ∀ f : List Char, (Reader.lower f == ['f', 'i', 'l', 'e']) = Spec.lowerEq f ['f', 'i', 'l', 'e'] := by
        intro f; simp [Spec.lowerEq, Reader.lower, beq_list]
      match hm : rest.flatMap Spec.splitEq with
      | [] => simp [proj, projEv, hasRaise, Event.isRaise, isErr]
      | [_] => simp [proj, projEv, hasRaise, Event.isRaise, isErr]
      | [f, n] =>
        simp only [hlow]
        cases hf : Spec.lowerEq f ['f', 'i', 'l', 'e']
        · simp [proj, projEv, hasRaise, Event.isRaise, isErr]
        · simp only [↓reduceIte]
          cases hcy : cfg.chain.contains (joinPath cfg.topDir n)
          · simp [proj, projEv, hasRaise, Event.isRaise, isErr]
          · simp [proj, projEv, hasRaise, Event.isRaise, isErr]
      | _ :: _ :: _ :: _ => simp [proj, projEv, hasRaise, Event.isRaise, isErr]

/-! ## the simulation -/

/-- the Spec never meets a data line behind the blank line that ended the data block
    (the code reads such lines as further data: known finding C11-F1) -/
def wellTerminated : Nat → List Spec.Kind → Bool
  | _, [] => true
  | b, .blank :: ks => wellTerminated (if b ≥ 3 then b else b + 1) ks
  | b, .comment :: ks => wellTerminated b ks
  | b, .data _ _ _ :: ks => decide (b < 3) && wellTerminated b ks

/-- model state `st` and Spec state `s` describe the same point of the same file -/
structure Rel (limit : Nat) (cfg : Cfg) (st : LState) (s : Spec.St) : Prop where
  blockLt : s.block < 3 → s.block = cfg.firstBlock.value + st.blockCounter ∧ st.blockType.value = s.block
  blockGe : s.block ≥ 3 → cfg.firstBlock.value + st.blockCounter ≥ 3 ∧ s.cur = none
  curNone : s.cur = none → st.hasNonComments = false ∧ ∀ r ∈ st.raw, Stored limit r ∧ Spec.isCommentLine r = true
  curSome : ∀ ws, s.cur = some ws → s.block < 3 ∧ st.hasNonComments = true ∧ wordsOf st.raw = ws ∧
    st.continueInput = s.amp ∧ GoodGroup limit st.raw

theorem wordsOf_append (a b : List Str) : wordsOf (a ++ b) = wordsOf a ++ wordsOf b := by
  simp [wordsOf, List.filter_append, List.flatMap_append]

theorem wordsOf_single (r : Str) : wordsOf [r] = if Spec.isCommentLine r then [] else Spec.lineWords r := by
  unfold wordsOf
  cases h : Spec.isCommentLine r <;> simp [List.filter, h]

theorem wordsOf_comments (raw : List Str) (h : ∀ r ∈ raw, Spec.isCommentLine r = true) : wordsOf raw = [] := by
  unfold wordsOf
  have : raw.filter (fun r => !Spec.isCommentLine r) = [] := by
    rw [List.filter_eq_nil_iff]; intro r hr; simp [h r hr]
  rw [this]; rfl

theorem hasData_comments (raw : List Str) (h : ∀ r ∈ raw, Spec.isCommentLine r = true) : hasData raw = false := by
  unfold hasData
  rw [List.any_eq_false]; intro r hr; simp [h r hr]

theorem hasData_append (a b : List Str) : hasData (a ++ b) = (hasData a || hasData b) := by
  simp [hasData]

theorem flushInput_comments {limit : Nat} (cfg : Cfg) (bt : BlockType) (raw : List Str)
    (h : ∀ r ∈ raw, Stored limit r ∧ Spec.isCommentLine r = true) :
    proj (flushInput cfg bt raw) = [] ∧ hasRaise (flushInput cfg bt raw) = false := by
  unfold flushInput
  rw [isReadInput_eq (fun r hr => (h r hr).1), wordsOf_comments raw (fun r hr => (h r hr).2)]
  simp [proj, projEv, hasData_comments raw (fun r hr => (h r hr).2), hasRaise, Event.isRaise]

theorem stored_of_good {limit : Nat} {x : List Char} (g : GoodLine limit x) (hb : Spec.isBlankLine x = false) :
    Stored limit (rstripB x) := ⟨x, g, hb, rfl⟩

theorem value_ofValue (n : Nat) (h : n < 3) : (BlockType.ofValue n).value = n := by
  match n, h with
  | 0, _ => rfl
  | 1, _ => rfl
  | 2, _ => rfl

abbrev O (cfg : Cfg) : Spec.Inp → Spec.SOut := Spec.outOf (joinPath cfg.topDir) cfg.chain

/-- the flush at a blank line / at the end of the file -/
theorem flush_rel {limit : Nat} (cfg : Cfg) (st : LState) (s : Spec.St) (R : Rel limit cfg st s) :
    proj (flushBlock cfg st).1 = (Spec.close s).map (O cfg) ∧
    hasRaise (flushBlock cfg st).1 = ((Spec.close s).map (O cfg)).any isErr ∧
    (Spec.close s).length ≤ 1 := by
  unfold flushBlock Spec.close
  simp only
  cases hc : s.cur with
  | none =>
    obtain ⟨_, hraw⟩ := R.curNone hc
    split
    · simp [proj, hasRaise]
    · have := flushInput_comments cfg st.blockType st.raw hraw
      simp [this.1, this.2]
  | some ws =>
    obtain ⟨hlt, _, hw, _, gg⟩ := R.curSome ws hc
    have hne : st.raw.isEmpty = false := by
      cases hr : st.raw with
      | nil => have := gg.data; rw [hr] at this; simp [hasData] at this
      | cons => rfl
    have hbt := (R.blockLt hlt).2
    have := flushInput_good cfg st.blockType st.raw gg
    simp only [hne, Bool.false_eq_true, ↓reduceIte, hlt, List.map_cons, List.map_nil, List.any_cons, List.any_nil,
      Bool.or_false, List.length_cons, List.length_nil, Nat.le_refl, and_true]
    rw [this.1, this.2, hbt, hw]
    exact ⟨rfl, rfl⟩

theorem cutS_cons (o : Spec.SOut) (t : List Spec.SOut) :
    Spec.cutS (o :: t) = if isErr o then [o] else o :: Spec.cutS t := by
  cases o <;> simp [Spec.cutS, isErr]

theorem cutS_append_noErr (a b : List Spec.SOut) (h : a.any isErr = false) : Spec.cutS (a ++ b) = a ++ Spec.cutS b := by
  induction a with
  | nil => rfl
  | cons o a ih =>
    simp only [List.any_cons, Bool.or_eq_false_iff] at h
    simp only [List.cons_append, cutS_cons, h.1, Bool.false_eq_true, ↓reduceIte, ih h.2]

theorem cutS_short (a b : List Spec.SOut) (hl : a.length ≤ 1) (h : a.any isErr = true) : Spec.cutS (a ++ b) = a := by
  match a, hl with
  | [], _ => simp at h
  | [o], _ =>
    simp only [List.any_cons, List.any_nil, Bool.or_false] at h
    simp [cutS_cons, h]

theorem raw_nonempty {limit : Nat} {raw : List Str} (gg : GoodGroup limit raw) : raw.isEmpty = false := by
  cases hr : raw with
  | nil => have := gg.data; rw [hr] at this; simp [hasData] at this
  | cons => rfl

/-- the four things to show about one line, for explicit results of the model step and the Spec step -/
def StepOK (limit : Nat) (cfg : Cfg) (m : List Event × LState) (p : List Spec.Inp × Spec.St) : Prop :=
  proj m.1 = p.1.map (O cfg) ∧ hasRaise m.1 = (p.1.map (O cfg)).any isErr ∧ p.1.length ≤ 1 ∧
    (hasRaise m.1 = false → Rel limit cfg m.2 p.2)

theorem stepOK_silent {limit : Nat} (cfg : Cfg) (st' : LState) (s' : Spec.St) (R' : Rel limit cfg st' s') :
    StepOK limit cfg ([], st') ([], s') := ⟨rfl, rfl, Nat.zero_le _, fun _ => R'⟩

/-- a data line -/
theorem step_data {limit : Nat} (cfg : Cfg) (hl : cfg.lineLength = limit) (st : LState) (s : Spec.St)
    (R : Rel limit cfg st s) (x t : List Char) (g : GoodLine limit x) (ht : IsTerm t)
    (hb : Spec.isBlankLine x = false) (hc : Spec.isCommentLine x = false) (hlt : s.block < 3) :
    StepOK limit cfg (stepLine cfg st (x ++ t))
      (Spec.step s (.data (Spec.startsInput x) (Spec.lineWords x) (Spec.endsAmp (Spec.dataPart x)))) := by
  subst hl
  have hstored := stored_of_good g hb
  have hnc : Spec.isCommentLine (rstripB x) = false := by rw [isCommentLine_rstripB]; exact hc
  have hwr : wordsOf [rstripB x] = Spec.lineWords x := by
    rw [wordsOf_single, hnc, lineWords_rstripB]; rfl
  have hdr : hasData [rstripB x] = true := by simp [hasData, hnc]
  have hnge : ¬ s.block ≥ 3 := by omega
  rw [stepLine_good cfg st x t g ht]
  simp only [hb, hc, Bool.false_eq_true, ↓reduceIte, Bool.not_false, Bool.and_true, Bool.or_true]
  cases hcur : s.cur with
  | none =>
    obtain ⟨hhn, hraw⟩ := R.curNone hcur
    have hS : Spec.step s (.data (Spec.startsInput x) (Spec.lineWords x) (Spec.endsAmp (Spec.dataPart x))) =
        ([], { s with cur := some (Spec.lineWords x), amp := Spec.endsAmp (Spec.dataPart x) }) := by
      unfold Spec.step; simp only [hnge, ↓reduceIte, hcur]
    rw [hS]
    simp only [hhn, Bool.and_false, Bool.false_and, Bool.false_eq_true, ↓reduceIte, hasRaise_nil]
    apply stepOK_silent
    constructor
    · intro _; exact R.blockLt hlt
    · intro h; exact absurd h hnge
    · intro h; simp at h
    · intro ws' hws'
      simp only [Option.some.injEq] at hws'
      subst hws'
      refine ⟨hlt, rfl, ?_, rfl, ?_⟩
      · show wordsOf (st.raw ++ [rstripB x]) = _
        rw [wordsOf_append, wordsOf_comments _ (fun r hr => (hraw r hr).2), hwr]; rfl
      · constructor
        · intro r hr
          rcases List.mem_append.mp hr with h | h
          · exact (hraw r h).1
          · simp at h; subst h; exact hstored
        · show hasData (st.raw ++ [rstripB x]) = true
          rw [hasData_append, hdr]; simp
  | some cw =>
    obtain ⟨_, hhn, hw, hci, gg⟩ := R.curSome cw hcur
    have hne := raw_nonempty gg
    simp only [hhn, hne, Bool.not_false, Bool.and_true, hci]
    cases hnew : (Spec.startsInput x && !s.amp)
    · -- a continuation line
      have hS : Spec.step s (.data (Spec.startsInput x) (Spec.lineWords x) (Spec.endsAmp (Spec.dataPart x))) =
          ([], { s with cur := some (cw ++ Spec.lineWords x), amp := Spec.endsAmp (Spec.dataPart x) }) := by
        unfold Spec.step; simp only [hnge, ↓reduceIte, hcur, hnew, Bool.false_eq_true]
      rw [hS]
      simp only [Bool.false_eq_true, ↓reduceIte, hasRaise_nil]
      apply stepOK_silent
      constructor
      · intro _; exact R.blockLt hlt
      · intro h; exact absurd h hnge
      · intro h; simp at h
      · intro ws' hws'
        simp only [Option.some.injEq] at hws'
        subst hws'
        refine ⟨hlt, rfl, ?_, rfl, ?_⟩
        · show wordsOf (st.raw ++ [rstripB x]) = _
          rw [wordsOf_append, hw, hwr]
        · constructor
          · intro r hr
            rcases List.mem_append.mp hr with h | h
            · exact gg.stored r h
            · simp at h; subst h; exact hstored
          · show hasData (st.raw ++ [rstripB x]) = true
            rw [hasData_append, gg.data]; rfl
    · -- a new input begins: the open one is flushed
      have hS : Spec.step s (.data (Spec.startsInput x) (Spec.lineWords x) (Spec.endsAmp (Spec.dataPart x))) =
          ([⟨s.block, cw⟩], { s with cur := some (Spec.lineWords x), amp := Spec.endsAmp (Spec.dataPart x) }) := by
        unfold Spec.step; simp only [hnge, ↓reduceIte, hcur, hnew]
      rw [hS]
      have hf := flushInput_good cfg st.blockType st.raw gg
      have hbt := (R.blockLt hlt).2
      rw [hbt, hw] at hf
      simp only [↓reduceIte]
      cases herr : isErr (O cfg ⟨s.block, cw⟩)
      · have hnr : hasRaise (flushInput cfg st.blockType st.raw) = false := by rw [hf.2]; exact herr
        simp only [hnr, Bool.false_eq_true, ↓reduceIte]
        refine ⟨hf.1, ?_, Nat.le_refl _, ?_⟩
        · simp only [hnr, List.map_cons, List.map_nil, List.any_cons, List.any_nil, Bool.or_false]; exact herr.symm
        · intro _
          constructor
          · intro _; exact R.blockLt hlt
          · intro h; exact absurd h hnge
          · intro h; simp at h
          · intro ws' hws'
            simp only [Option.some.injEq] at hws'
            subst hws'
            refine ⟨hlt, rfl, ?_, rfl, ?_⟩
            · show wordsOf ([] ++ [rstripB x]) = _
              rw [List.nil_append, hwr]
            · constructor
              · intro r hr; simp at hr; subst hr; exact hstored
              · show hasData ([] ++ [rstripB x]) = true
                rw [List.nil_append]; exact hdr
      · have hnr : hasRaise (flushInput cfg st.blockType st.raw) = true := by rw [hf.2]; exact herr
        simp only [hnr, ↓reduceIte]
        refine ⟨hf.1, ?_, Nat.le_refl _, ?_⟩
        · simp only [hnr, List.map_cons, List.map_nil, List.any_cons, List.any_nil, Bool.or_false]; exact herr.symm
        · intro h; rw [hnr] at h; exact absurd h (by decide)

/-- a C comment line -/
theorem step_comment {limit : Nat} (cfg : Cfg) (hl : cfg.lineLength = limit) (st : LState) (s : Spec.St)
    (R : Rel limit cfg st s) (x t : List Char) (g : GoodLine limit x) (ht : IsTerm t)
    (hb : Spec.isBlankLine x = false) (hc : Spec.isCommentLine x = true) :
    StepOK limit cfg (stepLine cfg st (x ++ t)) (Spec.step s .comment) := by
  subst hl
  have hstored := stored_of_good g hb
  have hcr : Spec.isCommentLine (rstripB x) = true := by rw [isCommentLine_rstripB]; exact hc
  have hstep : Spec.step s .comment = ([], s) := by unfold Spec.step; split <;> rfl
  rw [hstep, stepLine_good cfg st x t g ht]
  simp only [hb, hc, Bool.false_eq_true, ↓reduceIte, Bool.not_true, Bool.and_false, Bool.false_and, hasRaise_nil,
    Bool.or_false]
  apply stepOK_silent
  constructor
  · exact R.blockLt
  · exact R.blockGe
  · intro hcur
    obtain ⟨hhn, hraw⟩ := R.curNone hcur
    refine ⟨hhn, ?_⟩
    intro r hr
    rcases List.mem_append.mp hr with h | h
    · exact hraw r h
    · simp at h; subst h; exact ⟨hstored, hcr⟩
  · intro ws hcur
    obtain ⟨hlt, hhn, hw, hci, gg⟩ := R.curSome ws hcur
    refine ⟨hlt, hhn, ?_, hci, ?_⟩
    · show wordsOf (st.raw ++ [rstripB x]) = _
      rw [wordsOf_append, hw, wordsOf_single, hcr]; simp
    · constructor
      · intro r hr
        rcases List.mem_append.mp hr with h | h
        · exact gg.stored r h
        · simp at h; subst h; exact hstored
      · show hasData (st.raw ++ [rstripB x]) = true
        rw [hasData_append, gg.data]; rfl

/-- a blank line -/
theorem step_blank {limit : Nat} (cfg : Cfg) (hl : cfg.lineLength = limit) (st : LState) (s : Spec.St)
    (R : Rel limit cfg st s) (x t : List Char) (g : GoodLine limit x) (ht : IsTerm t)
    (hb : Spec.isBlankLine x = true) :
    StepOK limit cfg (stepLine cfg st (x ++ t)) (Spec.step s .blank) := by
  subst hl
  rw [stepLine_good cfg st x t g ht]
  simp only [hb, ↓reduceIte]
  have hfl := flush_rel cfg st s R
  by_cases hge : s.block ≥ 3
  · obtain ⟨hcnt, hcur⟩ := R.blockGe hge
    have hclose : Spec.close s = [] := by unfold Spec.close; rw [hcur]
    rw [hclose] at hfl
    have hS : Spec.step s .blank = ([], s) := by unfold Spec.step; simp only [hge, ↓reduceIte]
    rw [hS]
    refine ⟨hfl.1, hfl.2.1, Nat.zero_le _, ?_⟩
    intro _
    constructor
    · intro h; simp only at h; omega
    · intro _; refine ⟨?_, hcur⟩; unfold flushBlock; simp only; omega
    · intro _; refine ⟨rfl, ?_⟩; unfold flushBlock; simp
    · intro ws h; rw [hcur] at h; simp at h
  · have hlt : s.block < 3 := by omega
    obtain ⟨hbl, hbt⟩ := R.blockLt hlt
    have hS : Spec.step s .blank = (Spec.close s, { block := s.block + 1, cur := none, amp := false }) := by
      unfold Spec.step; simp only [hge, ↓reduceIte]
    rw [hS]
    refine ⟨hfl.1, hfl.2.1, hfl.2.2, ?_⟩
    intro _
    constructor
    · intro h
      simp only at h
      unfold flushBlock
      simp only
      have h3 : cfg.firstBlock.value + (st.blockCounter + 1) < 3 := by omega
      simp only [h3, ↓reduceIte]
      exact ⟨by omega, by rw [value_ofValue _ h3]; omega⟩
    · intro h
      simp only at h
      refine ⟨?_, rfl⟩
      unfold flushBlock; simp only; omega
    · intro _; refine ⟨rfl, ?_⟩; unfold flushBlock; simp
    · intro ws h; simp at h

/-- one line -/
theorem step_rel {limit : Nat} (cfg : Cfg) (hl : cfg.lineLength = limit) (st : LState) (s : Spec.St)
    (R : Rel limit cfg st s) (x t : List Char) (g : GoodLine limit x) (ht : IsTerm t)
    (hwt : ∀ col ws amp, Spec.classifyPhysical x = .data col ws amp → s.block < 3) :
    StepOK limit cfg (stepLine cfg st (x ++ t)) (Spec.step s (Spec.classifyPhysical x)) := by
  have hk := kind_good g
  cases hb : Spec.isBlankLine x
  · cases hc : Spec.isCommentLine x
    · simp only [hb, hc, Bool.false_eq_true, ↓reduceIte] at hk
      rw [hk]
      exact step_data cfg hl st s R x t g ht hb hc (hwt _ _ _ hk)
    · simp only [hb, hc, Bool.false_eq_true, ↓reduceIte] at hk
      rw [hk]
      exact step_comment cfg hl st s R x t g ht hb hc
  · simp only [hb, ↓reduceIte] at hk
    rw [hk]
    exact step_blank cfg hl st s R x t g ht hb

theorem wellTerminated_cons (b : Nat) (k : Spec.Kind) (ks : List Spec.Kind) (h : wellTerminated b (k :: ks) = true) :
    (∀ col ws amp, k = .data col ws amp → b < 3) ∧ wellTerminated (Spec.step ⟨b, none, false⟩ k).2.block ks = true := by
  cases k with
  | blank =>
    refine ⟨fun _ _ _ e => by simp at e, ?_⟩
    simp only [wellTerminated] at h
    unfold Spec.step
    by_cases hb : b ≥ 3
    · simp only [hb, ↓reduceIte] at h ⊢; exact h
    · simp only [hb, ↓reduceIte] at h ⊢; exact h
  | comment =>
    refine ⟨fun _ _ _ e => by simp at e, ?_⟩
    simp only [wellTerminated] at h
    unfold Spec.step
    by_cases hb : b ≥ 3 <;> simp_all
  | data col ws amp =>
    simp only [wellTerminated, Bool.and_eq_true, decide_eq_true_eq] at h
    refine ⟨fun _ _ _ _ => h.1, ?_⟩
    unfold Spec.step
    have : ¬ b ≥ 3 := by omega
    simp [this, h.2]

theorem step_block (s : Spec.St) (k : Spec.Kind) :
    (Spec.step s k).2.block = (Spec.step ⟨s.block, none, false⟩ k).2.block := by
  unfold Spec.step
  by_cases hb : s.block ≥ 3
  · simp [hb]
  · simp only [hb, ↓reduceIte]
    cases k with
    | blank => rfl
    | comment => rfl
    | data col ws amp =>
      cases s.cur with
      | none => rfl
      | some cw => simp only; split <;> rfl

/-- **the simulation**: all the lines of a file -/
theorem sim {limit : Nat} (cfg : Cfg) (hl : cfg.lineLength = limit) (ms : List (List Char × List Char)) :
    ∀ (st : LState) (s : Spec.St), Rel limit cfg st s →
      (∀ p ∈ ms, GoodLine limit p.1 ∧ IsTerm p.2) →
      wellTerminated s.block (ms.map (fun p => Spec.classifyPhysical p.1)) = true →
      proj (goLines cfg st (ms.map (fun p => p.1 ++ p.2))) =
        Spec.cutS ((Spec.run s (ms.map (fun p => Spec.classifyPhysical p.1))).map (O cfg)) := by
  induction ms with
  | nil =>
    intro st s R _ _
    simp only [List.map_nil, goLines, Spec.run]
    have hfl := flush_rel cfg st s R
    rw [hfl.1]
    cases hcl : (Spec.close s).map (O cfg) with
    | nil => rfl
    | cons o rest =>
      have : rest = [] := by
        have h1 := hfl.2.2
        have h2 : ((Spec.close s).map (O cfg)).length = (o :: rest).length := by rw [hcl]
        simp only [List.length_map, List.length_cons] at h2
        cases rest with
        | nil => rfl
        | cons => simp at h2; omega
      subst this
      rw [cutS_cons]; split <;> rfl
  | cons p ms ih =>
    intro st s R hgood hwt
    obtain ⟨g, ht⟩ := hgood p (by simp)
    simp only [List.map_cons] at hwt ⊢
    obtain ⟨hdata, hwt'⟩ := wellTerminated_cons _ _ _ hwt
    have hstep := step_rel cfg hl st s R p.1 p.2 g ht hdata
    obtain ⟨hproj, hraise, hlen, hrel⟩ := hstep
    simp only [goLines, Spec.run, List.map_append]
    cases hr : hasRaise (stepLine cfg st (p.1 ++ p.2)).1
    · simp only [Bool.false_eq_true, ↓reduceIte]
      rw [proj_append, hproj, cutS_append_noErr _ _ (by rw [← hraise]; exact hr)]
      congr 1
      apply ih _ _ (hrel hr) (fun q hq => hgood q (List.mem_cons_of_mem _ hq))
      rw [step_block]; exact hwt'
    · simp only [↓reduceIte]
      rw [hproj, cutS_short _ _ (by simpa using hlen) (by rw [← hraise]; exact hr)]

/-- the initial states are related -/
theorem rel_init {limit : Nat} (cfg : Cfg) : Rel limit cfg (initState cfg) ⟨cfg.firstBlock.value, none, false⟩ := by
  constructor
  · intro _; exact ⟨rfl, rfl⟩
  · intro h; simp only at h; cases hb : cfg.firstBlock <;> simp [hb, BlockType.value] at h
  · intro _; exact ⟨rfl, fun r hr => by simp [initState] at hr⟩
  · intro ws h; simp at h

/-- **per file**: `read_data` on the lines of a file, seen through `proj`, is the Spec's stream of the file -/
theorem readData_refines {limit : Nat} (cfg : Cfg) (hl : cfg.lineLength = limit) (ms : List (List Char × List Char))
    (hgood : ∀ p ∈ ms, GoodLine limit p.1 ∧ IsTerm p.2)
    (hwt : wellTerminated cfg.firstBlock.value (ms.map (fun p => Spec.classifyPhysical p.1)) = true) :
    proj (readData cfg (ms.map (fun p => p.1 ++ p.2))) =
      Spec.cutS ((Spec.run ⟨cfg.firstBlock.value, none, false⟩ (ms.map (fun p => Spec.classifyPhysical p.1))).map (O cfg)) :=
  sim cfg hl ms _ _ (rel_init cfg) hgood hwt

end MontePyVerif.Refine
