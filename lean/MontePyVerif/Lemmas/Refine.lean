import MontePyVerif.Lemmas.LineFacts
import MontePyVerif.Lemmas.Queue
/-!
# The model of `read_data` refines the Spec reader (simulation, lemmas for C11 / C20)

For lines on which the code's rules and MCNP's coincide (`GoodLine`: the named places where the code is
knowingly wider or narrower than MCNP are excluded) the events of `Reader.readData`, projected to what the
Spec talks about (`proj`), are the Spec's stream of the same lines.
-/
namespace MontePyVerif.Refine
open MontePyVerif MontePyVerif.Reader MontePyVerif.LineFacts MontePyVerif.ListBasics

/-- a physical line (tabs expanded, no terminator) on which the code's rules and MCNP's rules coincide -/
structure GoodLine (limit : Nat) (x : List Char) : Prop where
  /-- no white space other than the blank (`str.strip`/`split` know more: VT, FF, FS…US) -/
  onlyBlanks : OnlyBlanks x
  /-- within the column limit with room for the line end (a line of exactly `limit` columns gets a
      `LineOverRunWarning` and its `\n` cut off) -/
  fits : x.length < limit
  /-- no `#` in columns 1-5 outside a comment line (the code raises `UnsupportedFeature`: vertical format) -/
  noVertical : (x.take Gen.blankSpaceContinue).contains '#' = true → Spec.isCommentLine x = true
  /-- no `&` directly in front of a `$` comment (MCNP: continuation; the code: none) -/
  noAmpDollar : NoAmpBeforeDollar x
  /-- a line that is neither blank nor a comment line carries a word (no line holding only `$ …` or only `&`) -/
  hasWords : Spec.isBlankLine x = false → Spec.isCommentLine x = false → Spec.lineWords x ≠ []
  /-- a `$` stands at the line start or behind a blank -/
  dollarSpaced : ∀ pre post, x = pre ++ '$' :: post → pre = [] ∨ pre.getLast? = some ' '

/-! ## what the Spec sees in the model's events -/

/-- the words of a flushed group of stored lines -/
def wordsOf (raw : List Str) : List Spec.Word :=
  (raw.filter (fun r => !Spec.isCommentLine r)).flatMap Spec.lineWords

/-- the group holds a data line (not only C comment lines) -/
def hasData (raw : List Str) : Bool := raw.any (fun r => !Spec.isCommentLine r)

def projEv : Event → List Spec.SOut
  | .input bt raw => if hasData raw then [.inp ⟨bt.value, wordsOf raw⟩] else []
  | .enqueue e => [.card ⟨e.bt.value, e.name, e.chain⟩]
  | .raise .parsing => [.err .badRead]
  | .raise .malformed => [.err .cycle]
  | .raise .fileNotFound => [.err .missing]
  | _ => []

/-- the Spec-level content of a list of events -/
def proj (evs : List Event) : List Spec.SOut := evs.flatMap projEv

theorem proj_append (a b : List Event) : proj (a ++ b) = proj a ++ proj b := by simp [proj]
theorem proj_nil : proj [] = [] := rfl

/-! ## kinds of good lines -/

theorem kind_good {limit : Nat} {x : List Char} (g : GoodLine limit x) :
    Spec.classifyPhysical x =
      if Spec.isBlankLine x then .blank
      else if Spec.isCommentLine x then .comment
      else .data (Spec.startsInput x) (Spec.lineWords x) (Spec.endsAmp (Spec.dataPart x)) := by
  unfold Spec.classifyPhysical
  cases hb : Spec.isBlankLine x
  · cases hc : Spec.isCommentLine x
    · have hw := g.hasWords hb hc
      have : (Spec.splitWords (Spec.dataPart x)).isEmpty = false := by
        cases hs : Spec.splitWords (Spec.dataPart x) with
        | nil => exfalso; apply hw; unfold Spec.lineWords; simp [hs]
        | cons => rfl
      simp [this]
    · simp
  · simp

theorem expandtabs_noTab (tab : Nat) (y : List Char) (h : ∀ c ∈ y, c ≠ '\t') (col : Nat) :
    expandtabsAux tab col y = y := by
  induction y generalizing col with
  | nil => rfl
  | cons c y ih =>
    have hc : c ≠ '\t' := h c (by simp)
    simp only [expandtabsAux]
    have : (c == '\t') = false := by simpa using hc
    simp only [this, Bool.false_eq_true, ↓reduceIte]
    rw [ih (fun d hd => h d (List.mem_cons_of_mem _ hd))]

theorem expandtabs_good (x t : List Char) (hx : OnlyBlanks x) (ht : IsTerm t) :
    expandtabs Gen.tabSize (x ++ t) = x ++ t := by
  apply expandtabs_noTab
  intro c hc
  rcases List.mem_append.mp hc with h | h
  · intro e; subst e; exact absurd (hx _ h (by decide)) (by decide)
  · rcases ht with rfl | rfl
    · simp at h
    · simp at h; subst h; decide

/-- the stored line of a data/comment line, and what one loop iteration does with a good line -/
theorem stepLine_good (cfg : Cfg) (st : LState) (x t : List Char) (g : GoodLine cfg.lineLength x) (ht : IsTerm t) :
    stepLine cfg st (x ++ t) =
      if Spec.isBlankLine x then
        ((flushBlock cfg st).1, { (flushBlock cfg st).2 with hasNonComments := false })
      else
        let c := Spec.isCommentLine x
        let new := Spec.startsInput x && !st.continueInput && !c && st.hasNonComments && !st.raw.isEmpty
        let evs1 := if new then flushInput cfg st.blockType st.raw else []
        let raw1 := if new then [] else st.raw
        if hasRaise evs1 then (evs1, st)
        else (evs1, { st with continueInput := if c then st.continueInput else Spec.endsAmp (Spec.dataPart x),
                              hasNonComments := st.hasNonComments || !c,
                              raw := raw1 ++ [rstripB x] }) := by
  unfold stepLine
  simp only [expandtabs_good x t g.onlyBlanks ht, blank_agree x t g.onlyBlanks ht]
  cases hb : Spec.isBlankLine x
  · simp only [Bool.false_eq_true, ↓reduceIte]
    unfold startsNew
    rw [starts_agree x t g.onlyBlanks ht, comment_agree x t g.onlyBlanks ht]
    have hsd : ∀ evs1 raw1, stepData cfg st (x ++ t) (Spec.isCommentLine x) evs1 raw1 =
        if hasRaise evs1 then (evs1, st)
        else (evs1, { st with continueInput := if Spec.isCommentLine x then st.continueInput else Spec.endsAmp (Spec.dataPart x),
                              hasNonComments := st.hasNonComments || !Spec.isCommentLine x,
                              raw := raw1 ++ [rstripB x] }) := by
      intro evs1 raw1
      unfold stepData
      split
      · rfl
      · rw [hash_agree x t ht]
        have hno : ((x.take Gen.blankSpaceContinue).contains '#' && !Spec.isCommentLine x) = false := by
          cases hh : (x.take Gen.blankSpaceContinue).contains '#'
          · rfl
          · simp [g.noVertical hh]
        simp only [hno, Bool.false_eq_true, ↓reduceIte, take_limit x t ht cfg.lineLength g.fits,
          continues_agree x t g.onlyBlanks ht g.noAmpDollar, rstrip_agree x t g.onlyBlanks ht]
        simp
    cases hnew : (Spec.startsInput x && !st.continueInput && !Spec.isCommentLine x && st.hasNonComments && !st.raw.isEmpty)
    · simp only [Bool.false_eq_true, ↓reduceIte, hsd]
    · simp only [↓reduceIte, hsd]
  · simp

/-! ## stored lines and the read-card test (`flush_input`) -/

/-- a line as the model stores it in `input_raw_lines`: a good non-blank line without its trailing blanks -/
def Stored (limit : Nat) (r : Str) : Prop :=
  ∃ x, GoodLine limit x ∧ Spec.isBlankLine x = false ∧ r = rstripB x

theorem Stored.onlyBlanks {limit : Nat} {r : Str} (h : Stored limit r) : OnlyBlanks r := by
  obtain ⟨x, g, _, rfl⟩ := h; exact g.onlyBlanks.rstripB

theorem Stored.comment_eq {limit : Nat} {r : Str} (h : Stored limit r) : Reader.isComment r = Spec.isCommentLine r := by
  have := comment_agree r [] h.onlyBlanks (Or.inl rfl)
  simpa using this

theorem isCommentLine_rstripB (x : List Char) : Spec.isCommentLine (rstripB x) = Spec.isCommentLine x := by
  obtain ⟨k, hk⟩ := rstripB_decomp x
  conv => rhs; rw [hk]
  rw [isCommentLine_append_blanks]

theorem lineWords_rstripB (x : List Char) : Spec.lineWords (rstripB x) = Spec.lineWords x := by
  obtain ⟨k, hk⟩ := rstripB_decomp x
  conv => rhs; rw [hk]
  rw [lineWords_append_blanks]

theorem Stored.words_ne {limit : Nat} {r : Str} (h : Stored limit r) (hc : Spec.isCommentLine r = false) :
    Spec.lineWords r ≠ [] := by
  obtain ⟨x, g, hb, rfl⟩ := h
  rw [lineWords_rstripB]
  rw [isCommentLine_rstripB] at hc
  exact g.hasWords hb hc

theorem Stored.dollarSpaced {limit : Nat} {r : Str} (h : Stored limit r) :
    ∀ pre post, r = pre ++ '$' :: post → pre = [] ∨ pre.getLast? = some ' ' := by
  obtain ⟨x, g, _, rfl⟩ := h
  intro pre post e
  obtain ⟨k, hk⟩ := rstripB_decomp x
  apply g.dollarSpaced pre (post ++ List.replicate k ' ')
  rw [hk, e]; simp

theorem beforeDollar_eq (r : Str) : Reader.beforeDollar r = Spec.dataPart r := by
  unfold Reader.beforeDollar Spec.dataPart
  congr 1
  funext c; by_cases h : c = '$' <;> simp [h]

theorem dataPart_sublist (r : Str) : ∀ c ∈ Spec.dataPart r, c ∈ r := fun _ hc =>
  (List.takeWhile_sublist _).subset hc

theorem lineWordsM_eq {r : Str} (h : OnlyBlanks r) : Reader.lineWordsM r = Spec.lineWords r := by
  unfold Reader.lineWordsM Spec.lineWords
  simp only [beforeDollar_eq]
  have hd : OnlyBlanks (Spec.dataPart r) := fun c hc => h c (dataPart_sublist r c hc)
  have h1 := rstrip_agree (Spec.dataPart r) [] hd (Or.inl rfl)
  rw [List.append_nil] at h1
  rw [h1, endsWith_rstripB, splitWords_agree hd]

/-- characters of the words of a line are characters of the line (or of the open word) -/
theorem mem_wordsAux (y cur : List Char) : ∀ w ∈ Spec.wordsAux y cur, ∀ c ∈ w, c ∈ y ∨ c ∈ cur := by
  induction y generalizing cur with
  | nil =>
    intro w hw c hc
    unfold Spec.wordsAux at hw
    split at hw
    · simp at hw
    · simp at hw; subst hw; right; exact List.mem_reverse.mp hc
  | cons a y ih =>
    intro w hw c hc
    unfold Spec.wordsAux at hw
    split at hw
    · split at hw
      · rcases ih [] w hw c hc with h | h
        · left; exact List.mem_cons_of_mem _ h
        · simp at h
      · rcases List.mem_cons.mp hw with rfl | hw'
        · right; exact List.mem_reverse.mp hc
        · rcases ih [] w hw' c hc with h | h
          · left; exact List.mem_cons_of_mem _ h
          · simp at h
    · rcases ih (a :: cur) w hw c hc with h | h
      · left; exact List.mem_cons_of_mem _ h
      · rcases List.mem_cons.mp h with rfl | h'
        · left; simp
        · right; exact h'

theorem mem_lineWords (r : Str) : ∀ w ∈ Spec.lineWords r, ∀ c ∈ w, c ∈ r := by
  intro w hw c hc
  unfold Spec.lineWords at hw
  have hsub : w ∈ Spec.splitWords (Spec.dataPart r) := by
    simp only at hw
    split at hw
    · exact (List.dropLast_sublist _).subset hw
    · exact hw
  rcases mem_wordsAux _ _ w hsub c hc with h | h
  · exact dataPart_sublist r c h
  · simp at h

theorem splitEqM_eq {w : List Char} (h : OnlyBlanks w) : Reader.splitEqM w = Spec.splitEq w := by
  unfold Reader.splitEqM Spec.splitEq
  have hfun : (fun c : Char => if (c == '=') = true then ' ' else c) = (fun c : Char => if c = '=' then ' ' else c) := by
    funext c; by_cases hc : c = '=' <;> simp [hc]
  rw [hfun]
  apply splitWords_agree
  intro c hc hs
  obtain ⟨d, hd, rfl⟩ := List.mem_map.mp hc
  by_cases he : d = '='
  · simp [he]
  · simp only [he, ↓reduceIte] at hs ⊢
    exact h d hd hs

/-- a word boundary: splitting behind a blank splits the words -/
theorem wordsAux_boundary (d rest cur : List Char) (h : d.getLast? = some ' ') :
    Spec.wordsAux (d ++ rest) cur = Spec.wordsAux d cur ++ Spec.wordsAux rest [] := by
  induction d generalizing cur with
  | nil => simp at h
  | cons a d ih =>
    cases d with
    | nil =>
      simp at h; subst h
      simp only [List.cons_append, List.nil_append, Spec.wordsAux, ↓reduceIte]
      cases cur <;> simp
    | cons b d' =>
      have h' : (b :: d').getLast? = some ' ' := by simpa [List.getLast?_cons_cons] using h
      have e1 : ∀ l, Spec.wordsAux (a :: l) cur =
          if a = ' ' then (if cur.isEmpty then Spec.wordsAux l [] else cur.reverse :: Spec.wordsAux l [])
          else Spec.wordsAux l (a :: cur) := fun l => by rw [Spec.wordsAux]
      simp only [List.cons_append] at ih ⊢
      rw [e1, e1]
      split
      · split
        · exact ih [] h'
        · rw [ih [] h']; rfl
      · exact ih _ h'

theorem flatMap_congr' {α β} (l : List α) (f g : α → List β) (h : ∀ x ∈ l, f x = g x) :
    l.flatMap f = l.flatMap g := by
  induction l with
  | nil => rfl
  | cons a t ih =>
    simp only [List.flatMap_cons]
    rw [h a (by simp), ih (fun x hx => h x (List.mem_cons_of_mem _ hx))]

theorem beq_list (a b : List Char) : (a == b) = decide (a = b) := by
  by_cases h : a = b <;> simp [h]

theorem head?_dropLast {α} (l : List α) (h : l.dropLast ≠ []) : l.dropLast.head? = l.head? := by
  match l with
  | [] => simp at h
  | [a] => simp at h
  | a :: b :: t => simp [List.dropLast]

/-- the first blank-separated word of a stored data line is the first word the Spec sees in it -/
theorem Stored.head_word {limit : Nat} {r : Str} (h : Stored limit r) (hc : Spec.isCommentLine r = false) :
    (Reader.pySplit r).head? = (Spec.lineWords r).head? := by
  have hne := h.words_ne hc
  rw [splitWords_agree h.onlyBlanks]
  have hsplit := @List.takeWhile_append_dropWhile _ (fun c => decide (c ≠ '$')) r
  have hlw : (Spec.lineWords r).head? = (Spec.splitWords (Spec.dataPart r)).head? := by
    unfold Spec.lineWords at hne ⊢
    simp only at hne ⊢
    split
    · rename_i ha; simp only [ha, ↓reduceIte] at hne; exact head?_dropLast _ hne
    · rfl
  have hdne : Spec.splitWords (Spec.dataPart r) ≠ [] := by
    intro e; apply hne; unfold Spec.lineWords; simp [e]
  rw [hlw]
  cases hrest : r.dropWhile (fun c => decide (c ≠ '$')) with
  | nil =>
    have : Spec.dataPart r = r := by
      unfold Spec.dataPart; rw [hrest, List.append_nil] at hsplit; exact hsplit
    rw [this]
  | cons a post =>
    have ha : a = '$' := by
      have := head_dropWhile _ _ _ _ hrest; simpa using this
    subst ha
    have hr : r = Spec.dataPart r ++ '$' :: post := by
      unfold Spec.dataPart; rw [hrest] at hsplit; exact hsplit.symm
    rcases h.dollarSpaced _ _ hr with hnil | hlast
    · exfalso; apply hdne; rw [hnil]; rfl
    · conv => lhs; rw [hr]
      unfold Spec.splitWords at hdne ⊢
      rw [wordsAux_boundary _ _ _ hlast]
      cases hh : Spec.wordsAux (Spec.dataPart r) [] with
      | nil => exact absurd hh hdne
      | cons => rfl

/-- what `flush_input` is called with when an input is complete: stored lines, one of them data -/
structure GoodGroup (limit : Nat) (raw : List Str) : Prop where
  stored : ∀ r ∈ raw, Stored limit r
  data : hasData raw = true

theorem inputWordsM_eq {limit : Nat} {raw : List Str} (h : ∀ r ∈ raw, Stored limit r) :
    Reader.inputWordsM raw = wordsOf raw := by
  unfold Reader.inputWordsM wordsOf
  have hf : raw.filter (fun l => !Reader.isComment l) = raw.filter (fun r => !Spec.isCommentLine r) := by
    apply List.filter_congr
    intro r hr; rw [(h r hr).comment_eq]
  rw [hf]
  apply flatMap_congr'
  intro r hr
  exact lineWordsM_eq (h r (List.mem_filter.mp hr).1).onlyBlanks

theorem isReadInput_eq {limit : Nat} {raw : List Str} (h : ∀ r ∈ raw, Stored limit r) :
    Reader.isReadInput raw =
      match wordsOf raw with
      | [] => false
      | w :: _ => Spec.lowerEq w ['r', 'e', 'a', 'd'] := by
  unfold Reader.isReadInput wordsOf
  induction raw with
  | nil => rfl
  | cons r raw ih =>
    have hr := h r (by simp)
    have ht : ∀ r' ∈ raw, Stored limit r' := fun r' hr' => h r' (List.mem_cons_of_mem _ hr')
    simp only [List.find?_cons, List.filter_cons, hr.comment_eq]
    cases hc : Spec.isCommentLine r
    · simp only [Bool.not_false, ↓reduceIte, List.flatMap_cons]
      have hhead := hr.head_word hc
      have hne := hr.words_ne hc
      cases hw : Spec.lineWords r with
      | nil => exact absurd hw hne
      | cons w ws =>
        rw [hw] at hhead
        cases hp : Reader.pySplit r with
        | nil => rw [hp] at hhead; simp at hhead
        | cons w' ws' =>
          rw [hp] at hhead; simp at hhead; subst hhead
          simp [Spec.lowerEq, Reader.lower, beq_list]
    · simp only [Bool.not_true, Bool.false_eq_true, ↓reduceIte]
      exact ih ht

theorem mem_wordsOf {limit : Nat} {raw : List Str} (h : ∀ r ∈ raw, Stored limit r) :
    ∀ w ∈ wordsOf raw, OnlyBlanks w := by
  intro w hw
  unfold wordsOf at hw
  obtain ⟨r, hr, hwr⟩ := List.mem_flatMap.mp hw
  have hs := (h r (List.mem_filter.mp hr).1).onlyBlanks
  exact fun c hc => hs c (mem_lineWords r w hwr c hc)

def isErr : Spec.SOut → Bool
  | .err _ => true
  | _ => false

/-- **(F)** `flush_input` on a complete input: what the Spec makes of the same words -/
theorem flushInput_good {limit : Nat} (cfg : Cfg) (bt : BlockType) (raw : List Str) (g : GoodGroup limit raw) :
    proj (flushInput cfg bt raw) = [Spec.outOf (joinPath cfg.topDir) cfg.chain ⟨bt.value, wordsOf raw⟩] ∧
    hasRaise (flushInput cfg bt raw) = isErr (Spec.outOf (joinPath cfg.topDir) cfg.chain ⟨bt.value, wordsOf raw⟩) := by
  unfold flushInput Spec.outOf
  rw [isReadInput_eq g.stored]
  unfold Reader.parseRead
  rw [inputWordsM_eq g.stored]
  unfold Spec.cardOf
  have hwords := mem_wordsOf g.stored
  cases hw : wordsOf raw with
  | nil => simp [proj, projEv, g.data, hw, hasRaise, Event.isRaise, isErr]
  | cons w rest =>
    simp only
    cases hread : Spec.lowerEq w ['r', 'e', 'a', 'd']
    · simp [proj, projEv, g.data, hw, hasRaise, Event.isRaise, isErr]
    · simp only [↓reduceIte]
      have hrest : rest.flatMap Reader.splitEqM = rest.flatMap Spec.splitEq := by
        apply flatMap_congr'
        intro v hv
        exact splitEqM_eq (hwords v (by rw [hw]; exact List.mem_cons_of_mem _ hv))
      rw [hrest]
      have hlow : ∀ f : List Char, (Reader.lower f == ['f', 'i', 'l', 'e']) = Spec.lowerEq f ['f', 'i', 'l', 'e'] := by
        intro f; simp [Spec.lowerEq, Reader.lower, beq_list]
      match hm : rest.flatMap Spec.splitEq with
      | [] => simp [proj, projEv, hasRaise, Event.isRaise, isErr]
      | [_] => simp [proj, projEv, hasRaise, Event.isRaise, isErr]
      | [f, n] =>
        simp only [hlow]
        cases hf : Spec.lowerEq f ['f', 'i', 'l', 'e']
        · simp [proj, projEv, hasRaise, Event.isRaise, isErr]
        · simp only [↓reduceIte]
          cases hcy : cfg.chain.contains (joinPath cfg.topDir n)
          · simp [proj, projEv, hasRaise, Event.isRaise, isErr]
          · simp [proj, projEv, hasRaise, Event.isRaise, isErr]
      | _ :: _ :: _ :: _ => simp [proj, projEv, hasRaise, Event.isRaise, isErr]

end MontePyVerif.Refine
