import MontePyVerif.Model.Renumber
import MontePyVerif.Lemmas.Collection
/-! Helper lemmas for C04: `List.mapM` in the `Option` monad, look-ups in a freshly linked collection,
    what a successful `linkCell` / `linkSurf` / `linkMat` says about its result (core Lean only). -/
namespace MontePyVerif.Renumber
open MontePyVerif.Collection
open MontePyVerif.Spec.Refs (WCell WSurf WMat WFile)

/-! ### `mapM` in `Option` -/

theorem mapM_cons_some {α β} (f : α → Option β) (a : α) (l : List α) (r : List β)
    (h : (a :: l).mapM f = some r) : ∃ b t, f a = some b ∧ l.mapM f = some t ∧ r = b :: t := by
  rw [List.mapM_cons] at h
  cases hb : f a with
  | none => simp [hb] at h
  | some b =>
    cases ht : l.mapM f with
    | none => simp [hb, ht] at h
    | some t =>
      simp [hb, ht] at h
      exact ⟨b, t, rfl, rfl, h.symm⟩

theorem mapM_some_getElem? {α β} (f : α → Option β) : ∀ (l : List α) (r : List β), l.mapM f = some r →
    r.length = l.length ∧
    (∀ (i : Nat) a, l[i]? = some a → ∃ b, f a = some b ∧ r[i]? = some b) ∧
    (∀ (i : Nat) b, r[i]? = some b → ∃ a, l[i]? = some a ∧ f a = some b)
  | [], r, h => by
    simp [List.mapM_nil] at h
    subst h
    simp
  | a :: l, r, h => by
    obtain ⟨b, t, hb, ht, rfl⟩ := mapM_cons_some f a l r h
    obtain ⟨h1, h2, h3⟩ := mapM_some_getElem? f l t ht
    refine ⟨by simp [h1], ?_, ?_⟩
    · intro i x hx
      cases i with
      | zero => simp at hx; subst hx; exact ⟨b, hb, by simp⟩
      | succ i => simp at hx; simpa using h2 i x hx
    · intro i x hx
      cases i with
      | zero => simp at hx; subst hx; exact ⟨a, by simp, hb⟩
      | succ i => simp at hx; simpa using h3 i x hx

theorem mapM_some_map {α β γ} (f : α → Option β) (g : β → γ) (k : α → γ) :
    ∀ (l : List α) (r : List β), l.mapM f = some r → (∀ a b, a ∈ l → f a = some b → g b = k a) → r.map g = l.map k
  | [], r, h, _ => by simp [List.mapM_nil] at h; subst h; rfl
  | a :: l, r, h, hk => by
    obtain ⟨b, t, hb, ht, rfl⟩ := mapM_cons_some f a l r h
    simp only [List.map_cons]
    rw [hk a b List.mem_cons_self hb,
      mapM_some_map f g k l t ht (fun x y hx hy => hk x y (List.mem_cons_of_mem _ hx) hy)]

theorem mapM_some_mem {α β} (f : α → Option β) (l : List α) (r : List β) (h : l.mapM f = some r)
    (b : β) (hb : b ∈ r) : ∃ a ∈ l, f a = some b := by
  obtain ⟨i, hi, rfl⟩ := List.getElem_of_mem hb
  obtain ⟨a, ha, hf⟩ := (mapM_some_getElem? f l r h).2.2 i r[i] (List.getElem?_eq_getElem hi)
  exact ⟨a, List.mem_of_getElem? ha, hf⟩

theorem mapM_exists {α β} (f : α → Option β) : ∀ (l : List α), (∀ a ∈ l, ∃ b, f a = some b) → ∃ r, l.mapM f = some r
  | [], _ => ⟨[], by simp [List.mapM_nil]⟩
  | a :: l, h => by
    obtain ⟨b, hb⟩ := h a List.mem_cons_self
    obtain ⟨t, ht⟩ := mapM_exists f l (fun x hx => h x (List.mem_cons_of_mem _ hx))
    exact ⟨b :: t, by rw [List.mapM_cons]; simp [hb, ht]⟩

/-! ### a freshly linked collection -/

theorem mkColl_inv' (nums : List Int) (h : nums.Nodup) : Inv (mkColl nums) := by
  refine ⟨?_, ?_, ?_⟩
  · show ((List.range nums.length).map (fun o => nums.getD o 0)).Nodup
    have : (List.range nums.length).map (fun o => nums.getD o 0) = nums := by
      apply List.ext_getElem
      · simp
      · intro i h1 h2
        simp [List.getD_eq_getElem?_getD]
        have : i < nums.length := by simpa using h1
        simp [this]
    rw [this]; exact h
  · intro x hx; cases hx
  · intro _ o _; rfl

/-- a successful look-up returns a card index that carries the number -/
theorem lookup_some {nums : List Int} {n : Int} {o : ObjId} (h : lookup (mkColl nums) n = some o) :
    o < nums.length ∧ nums[o]? = some n := by
  have := get_some (s := mkColl nums) (by intro x hx; cases hx) h
  have hlt : o < nums.length := by simpa [mkColl] using this.1
  refine ⟨hlt, ?_⟩
  have h2 : nums.getD o 0 = n := this.2
  rw [List.getD_eq_getElem?_getD, List.getElem?_eq_getElem hlt] at h2
  rw [List.getElem?_eq_getElem hlt]
  simpa using h2

/-- with unique numbers every number that some card carries is found -/
theorem lookup_of_mem {nums : List Int} (hnd : nums.Nodup) {n : Int} (hn : n ∈ nums) :
    ∃ o, lookup (mkColl nums) n = some o := by
  obtain ⟨i, hi, rfl⟩ := List.getElem_of_mem hn
  have hinv := mkColl_inv' nums hnd
  refine ⟨i, get_of_mem hinv.nodup hinv.cache (by simp [mkColl]; exact hi) ?_⟩
  show nums.getD i 0 = nums[i]
  rw [List.getD_eq_getElem?_getD, List.getElem?_eq_getElem hi]; rfl

theorem optBind_some {α β} {o : Option α} {f : α → Option β} {r : Option β} (h : optBind o f = some r) :
    (o = none ∧ r = none) ∨ ∃ a b, o = some a ∧ f a = some b ∧ r = some b := by
  unfold optBind at h
  split at h
  · exact Or.inl ⟨rfl, by cases h; rfl⟩
  · rename_i a
    split at h
    · cases h
    · rename_i b hb
      cases h
      exact Or.inr ⟨a, b, rfl, hb, rfl⟩

/-! ### what a successful link of one card says -/

theorem linkCell_some {wf : WFile} {cells surfs mats trs univs : St} {i : Nat} {b : CellL}
    (h : linkCell wf cells surfs mats trs univs i = some b) :
    ∃ c, wf.cells[i]? = some c ∧
      ((c.mat = 0 ∧ b.mat = none) ∨ (c.mat ≠ 0 ∧ ∃ m, lookup mats c.mat = some m ∧ b.mat = some m)) ∧
      c.geom.mapM (linkLeaf cells surfs) = some b.geom ∧
      lookup univs (oldUniverseNumber wf i) = some b.univ ∧
      (oldFillNumbers wf i).mapM (lookup univs) = some b.fill ∧
      optBind c.fillTr (lookup trs) = some b.fillTr := by
  unfold linkCell at h
  cases hc : wf.cells[i]? with
  | none => simp [hc] at h
  | some c =>
    refine ⟨c, rfl, ?_⟩
    simp only [hc, Option.bind_eq_bind, Option.bind_some] at h
    split at h
    · rename_i hm
      simp only [Option.bind_eq_some_iff, Option.pure_def, Option.some.injEq] at h
      obtain ⟨g, hg, u, hu, f, hf, t, ht, rfl⟩ := h
      exact ⟨Or.inl ⟨hm, rfl⟩, hg, hu, hf, ht⟩
    · rename_i hm
      simp only [Option.bind_eq_some_iff, Option.map_eq_some_iff, Option.pure_def, Option.some.injEq] at h
      obtain ⟨mo, ⟨m, hml, rfl⟩, g, hg, u, hu, f, hf, t, ht, rfl⟩ := h
      exact ⟨Or.inr ⟨hm, m, hml, rfl⟩, hg, hu, hf, ht⟩

theorem linkLeaf_some {cells surfs : St} {l : Bool × Int} {x : Leaf} (h : linkLeaf cells surfs l = some x) :
    x.isCell = l.1 ∧ lookup (if l.1 then cells else surfs) l.2 = some x.target := by
  unfold linkLeaf at h
  simp only [Option.map_eq_some_iff] at h
  obtain ⟨t, ht, rfl⟩ := h
  exact ⟨rfl, ht⟩

theorem linkSurf_some {surfs trs : St} {s : WSurf} {b : SurfL} (h : linkSurf surfs trs s = some b) :
    optBind s.tr (lookup trs) = some b.tr ∧ optBind s.per (lookup surfs) = some b.per := by
  unfold linkSurf at h
  simp only [Option.bind_eq_bind, Option.bind_eq_some_iff, Option.pure_def, Option.some.injEq] at h
  obtain ⟨t, ht, q, hq, rfl⟩ := h
  exact ⟨ht, hq⟩

theorem linkMat_some {mats : St} {m : WMat} {b : MatL} (h : linkMat mats m = some b) :
    optBind m.mt (lookup mats) = some b.mt := by
  unfold linkMat at h
  simp only [Option.bind_eq_bind, Option.bind_eq_some_iff, Option.pure_def, Option.some.injEq] at h
  obtain ⟨t, ht, rfl⟩ := h
  exact ht

/-! ### when linking one card succeeds -/

theorem optBind_exists {α β} {o : Option α} {f : α → Option β} (h : ∀ a, o = some a → ∃ b, f a = some b) :
    ∃ r, optBind o f = some r := by
  unfold optBind
  cases o with
  | none => exact ⟨none, rfl⟩
  | some a =>
    obtain ⟨b, hb⟩ := h a rfl
    exact ⟨some b, by simp [hb]⟩

theorem linkCell_exists {wf : WFile} {cells surfs mats trs univs : St} {i : Nat} {c : WCell}
    (hc : wf.cells[i]? = some c)
    (hm : c.mat ≠ 0 → ∃ m, lookup mats c.mat = some m)
    (hg : ∀ l ∈ c.geom, ∃ t, lookup (if l.1 then cells else surfs) l.2 = some t)
    (hu : ∃ u, lookup univs (oldUniverseNumber wf i) = some u)
    (hf : ∀ f ∈ oldFillNumbers wf i, ∃ u, lookup univs f = some u)
    (ht : ∀ t, c.fillTr = some t → ∃ x, lookup trs t = some x) :
    ∃ b, linkCell wf cells surfs mats trs univs i = some b := by
  obtain ⟨g, hg'⟩ := mapM_exists (linkLeaf cells surfs) c.geom (fun l hl => by
    obtain ⟨t, ht⟩ := hg l hl
    exact ⟨{ isCell := l.1, target := t }, by simp [linkLeaf, ht]⟩)
  obtain ⟨u, hu'⟩ := hu
  obtain ⟨fl, hf'⟩ := mapM_exists (lookup univs) _ hf
  obtain ⟨ft, ht'⟩ := optBind_exists (f := lookup trs) ht
  unfold linkCell
  simp only [hc, Option.bind_eq_bind, Option.bind_some, hg', hu', hf', ht']
  split
  · exact ⟨_, rfl⟩
  · rename_i hne
    obtain ⟨m, hm'⟩ := hm hne
    simp [hm']

theorem linkSurf_exists {surfs trs : St} {s : WSurf}
    (ht : ∀ t, s.tr = some t → ∃ x, lookup trs t = some x)
    (hp : ∀ t, s.per = some t → ∃ x, lookup surfs t = some x) : ∃ b, linkSurf surfs trs s = some b := by
  obtain ⟨a, ha⟩ := optBind_exists (f := lookup trs) ht
  obtain ⟨b, hb⟩ := optBind_exists (f := lookup surfs) hp
  unfold linkSurf
  simp only [Option.bind_eq_bind, ha, hb, Option.bind_some]
  exact ⟨_, rfl⟩

theorem linkMat_exists {mats : St} {m : WMat}
    (ht : ∀ t, m.mt = some t → ∃ x, lookup mats t = some x) : ∃ b, linkMat mats m = some b := by
  obtain ⟨a, ha⟩ := optBind_exists (f := lookup mats) ht
  unfold linkMat
  simp only [Option.bind_eq_bind, ha, Option.bind_some]
  exact ⟨_, rfl⟩

/-! ### what a successful `link` says -/

/-- the universes collection `link` builds -/
def univNums (wf : WFile) : List Int :=
  pushUniverses [] ((List.range wf.cells.length).map (oldUniverseNumber wf))

structure Linked (wf : WFile) (p : Prob) : Prop where
  cells : p.cells = mkColl (wf.cells.map (·.number))
  surfs : p.surfs = mkColl (wf.surfs.map (·.number))
  mats : p.mats = mkColl (wf.mats.map (·.number))
  trs : p.trs = mkColl wf.trs
  univs : p.univs = mkColl (univNums wf)
  cell : ∀ i, i < wf.cells.length → linkCell wf p.cells p.surfs p.mats p.trs p.univs i = some (p.cell i)
  surf : ∀ i s, wf.surfs[i]? = some s → linkSurf p.surfs p.trs s = some (p.surf i)
  mat : ∀ i m, wf.mats[i]? = some m → linkMat p.mats m = some (p.mat i)
  uData : p.uData = wf.uCard.isSome
  fillData : p.fillData = wf.fillCard.isSome

theorem link_linked {wf : WFile} {p : Prob} (h : link wf = some p) : Linked wf p := by
  simp only [link] at h
  split at h
  · rename_i cellL surfL matL hcl hsl hml
    cases h
    refine ⟨rfl, rfl, rfl, rfl, rfl, ?_, ?_, ?_, rfl, rfl⟩
    · intro i hi
      obtain ⟨b, hb, hget⟩ := (mapM_some_getElem? _ _ _ hcl).2.1 i i (List.getElem?_range hi)
      simp only [List.getD_eq_getElem?_getD, hget, Option.getD_some]
      exact hb
    · intro i s hs
      obtain ⟨b, hb, hget⟩ := (mapM_some_getElem? _ _ _ hsl).2.1 i s hs
      simp only [List.getD_eq_getElem?_getD, hget, Option.getD_some]
      exact hb
    · intro i m hm
      obtain ⟨b, hb, hget⟩ := (mapM_some_getElem? _ _ _ hml).2.1 i m hm
      simp only [List.getD_eq_getElem?_getD, hget, Option.getD_some]
      exact hb
  · cases h

end MontePyVerif.Renumber
