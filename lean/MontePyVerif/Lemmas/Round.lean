import Mathlib.Algebra.Order.Field.Rat
import Mathlib.Algebra.Order.Field.Power
import Mathlib.Tactic.Linarith
import Mathlib.Tactic.Positivity
import Mathlib.Tactic.FieldSimp
import Mathlib.Tactic.Ring
import Mathlib.Tactic.Push
import Mathlib.Tactic.NormNum
import MontePyVerif.Model.ValueFormat

/-! # Arithmetic of CPython's correctly rounded `format` on exact rationals (lemmas for C05)

`roundHE` is off by at most one half; `scaleRound` (round-half-even of `(n/d)·10^k`) likewise; `exp10` is the
decimal exponent; `sciDigits n d p` (p+1 significant digits, with the carry `9.99… → 10.0…`) has relative error
at most `½·10^-p`; stripping trailing zeros does not change the value. -/
namespace MontePyVerif.C05
open MontePyVerif.ValueFormat

theorem roundHE_err (num den : Int) (hd : 0 < den) :
    2 * (roundHE num den * den - num) ≤ den ∧ -den ≤ 2 * (roundHE num den * den - num) := by
  have h1 := Int.mul_ediv_add_emod num den
  have h2 := Int.emod_nonneg num (Int.ne_of_gt hd)
  have h3 := Int.emod_lt_of_pos num hd
  unfold roundHE
  simp only []
  have hm : num / den * den = den * (num / den) := Int.mul_comm _ _
  have hm' : (num / den + 1) * den = den * (num / den) + den := by
    rw [Int.add_mul, Int.one_mul, Int.mul_comm]
  split
  · rw [hm]; omega
  · split
    · rw [hm']; omega
    · split
      · rw [hm]; omega
      · rw [hm']; omega

theorem roundHE_nonneg (num den : Int) (hn : 0 ≤ num) (hd : 0 < den) : 0 ≤ roundHE num den := by
  unfold roundHE
  have := Int.ediv_nonneg hn hd.le
  simp only []
  split_ifs <;> omega

theorem pow10Rat_eq (k : Int) : pow10Rat k = (10 : ℚ) ^ k := by
  unfold pow10Rat
  cases k with
  | ofNat j => simp
  | negSucc j => simp [zpow_negSucc]

/-- rounding `q = num/den` to an integer is off by at most one half -/
theorem roundHE_rat (num den : Int) (hd : 0 < den) :
    |((roundHE num den : Int) : ℚ) - (num : ℚ) / (den : ℚ)| ≤ 1 / 2 := by
  obtain ⟨h1, h2⟩ := roundHE_err num den hd
  have hdq : (0 : ℚ) < (den : ℚ) := by exact_mod_cast hd
  have h1q : (2 : ℚ) * ((roundHE num den : ℚ) * den - num) ≤ den := by exact_mod_cast h1
  have h2q : -(den : ℚ) ≤ 2 * ((roundHE num den : ℚ) * den - num) := by exact_mod_cast h2
  have hq : (num : ℚ) / den * den = num := div_mul_cancel₀ _ hdq.ne'
  have key : ((roundHE num den : ℚ) - (num : ℚ) / den) * den = (roundHE num den : ℚ) * den - num := by
    rw [sub_mul, hq]
  rw [abs_le]
  constructor
  · apply le_of_mul_le_mul_right _ hdq
    rw [key]; linarith
  · apply le_of_mul_le_mul_right _ hdq
    rw [key]; linarith

theorem scaleRound_err (n d : Nat) (hd : 0 < d) (k : Int) :
    |((scaleRound n d k : Nat) : ℚ) - (n : ℚ) / (d : ℚ) * (10 : ℚ) ^ k| ≤ 1 / 2 := by
  have hdq : (0 : ℚ) < (d : ℚ) := by exact_mod_cast hd
  cases k with
  | ofNat j =>
    have hnn := roundHE_nonneg ((n * 10 ^ j : Nat) : Int) (d : Int) (by positivity) (by exact_mod_cast hd)
    have h := roundHE_rat ((n * 10 ^ j : Nat) : Int) (d : Int) (by exact_mod_cast hd)
    simp only [scaleRound]
    have hc : ((((roundHE ((n * 10 ^ j : Nat) : Int) (d : Int)).toNat : Nat) : ℚ)) = ((roundHE ((n * 10 ^ j : Nat) : Int) (d : Int) : Int) : ℚ) := by
      have := Int.toNat_of_nonneg hnn
      exact_mod_cast congrArg (fun z : Int => (z : ℚ)) this
    rw [hc]
    have e : (n : ℚ) / (d : ℚ) * (10 : ℚ) ^ (Int.ofNat j) = (((n * 10 ^ j : Nat) : Int) : ℚ) / ((d : Int) : ℚ) := by
      push_cast; simp; ring
    rw [e]; exact h
  | negSucc j =>
    have hd' : (0 : Int) < ((d * 10 ^ (j + 1) : Nat) : Int) := by positivity
    have hnn := roundHE_nonneg (n : Int) ((d * 10 ^ (j + 1) : Nat) : Int) (by positivity) hd'
    have h := roundHE_rat (n : Int) ((d * 10 ^ (j + 1) : Nat) : Int) hd'
    simp only [scaleRound]
    have hc : ((((roundHE (n : Int) ((d * 10 ^ (j + 1) : Nat) : Int)).toNat : Nat) : ℚ)) = ((roundHE (n : Int) ((d * 10 ^ (j + 1) : Nat) : Int) : Int) : ℚ) := by
      have := Int.toNat_of_nonneg hnn
      exact_mod_cast congrArg (fun z : Int => (z : ℚ)) this
    rw [hc]
    have e : (n : ℚ) / (d : ℚ) * (10 : ℚ) ^ (Int.negSucc j) = ((n : Int) : ℚ) / (((d * 10 ^ (j + 1) : Nat) : Int) : ℚ) := by
      rw [zpow_negSucc]; push_cast; field_simp
    rw [e]; exact h


theorem ndigits_pos (n : Nat) : 0 < ndigits n := Nat.length_toDigits_pos

theorem ndigits_upper (n : Nat) : n < 10 ^ ndigits n :=
  (Nat.length_toDigits_le_iff (b := 10) (n := n) (by decide) (ndigits_pos n)).mp (Nat.le_refl _)

theorem ndigits_lower (n : Nat) (hn : 0 < n) : 10 ^ (ndigits n - 1) ≤ n := by
  by_cases h1 : ndigits n - 1 = 0
  · rw [h1]; simp; omega
  · have hk : 0 < ndigits n - 1 := Nat.pos_of_ne_zero h1
    by_contra hlt
    rw [Nat.not_le] at hlt
    have := (Nat.length_toDigits_le_iff (b := 10) (n := n) (by decide) hk).mpr hlt
    unfold ndigits at hk this
    omega

theorem geP10_iff (n d : Nat) (hd : 0 < d) (e : Int) :
    geP10 n d e = true ↔ (10 : ℚ) ^ e ≤ (n : ℚ) / (d : ℚ) := by
  have hdq : (0 : ℚ) < (d : ℚ) := by exact_mod_cast hd
  cases e with
  | ofNat j =>
    simp only [geP10, decide_eq_true_eq]
    rw [le_div_iff₀ hdq]
    constructor
    · intro h; have : ((d * 10 ^ j : Nat) : ℚ) ≤ (n : ℚ) := by exact_mod_cast h
      push_cast at this; simp; linarith
    · intro h; have : ((d * 10 ^ j : Nat) : ℚ) ≤ (n : ℚ) := by push_cast; simp at h; linarith
      exact_mod_cast this
  | negSucc j =>
    simp only [geP10, decide_eq_true_eq]
    rw [zpow_negSucc, le_div_iff₀ hdq, inv_mul_le_iff₀ (by positivity)]
    constructor
    · intro h; have : ((d : Nat) : ℚ) ≤ ((n * 10 ^ (j + 1) : Nat) : ℚ) := by exact_mod_cast h
      push_cast at this; linarith
    · intro h; have : ((d : Nat) : ℚ) ≤ ((n * 10 ^ (j + 1) : Nat) : ℚ) := by push_cast; linarith
      exact_mod_cast this

theorem exp10_bounds (n d : Nat) (hn : 0 < n) (hd : 0 < d) :
    (10 : ℚ) ^ (exp10 n d) ≤ (n : ℚ) / (d : ℚ) ∧ (n : ℚ) / (d : ℚ) < (10 : ℚ) ^ (exp10 n d + 1) := by
  have hdq : (0 : ℚ) < (d : ℚ) := by exact_mod_cast hd
  have hnq : (0 : ℚ) < (n : ℚ) := by exact_mod_cast hn
  have nu : (n : ℚ) < (10 : ℚ) ^ (ndigits n : Int) := by
    rw [zpow_natCast]; exact_mod_cast ndigits_upper n
  have nl : (10 : ℚ) ^ ((ndigits n : Int) - 1) ≤ (n : ℚ) := by
    have h := ndigits_lower n hn
    have hp := ndigits_pos n
    have e : ((ndigits n : Int) - 1) = ((ndigits n - 1 : Nat) : Int) := by omega
    rw [e, zpow_natCast]; exact_mod_cast h
  have du : (d : ℚ) < (10 : ℚ) ^ (ndigits d : Int) := by
    rw [zpow_natCast]; exact_mod_cast ndigits_upper d
  have dl : (10 : ℚ) ^ ((ndigits d : Int) - 1) ≤ (d : ℚ) := by
    have h := ndigits_lower d hd
    have hp := ndigits_pos d
    have e : ((ndigits d : Int) - 1) = ((ndigits d - 1 : Nat) : Int) := by omega
    rw [e, zpow_natCast]; exact_mod_cast h
  have h10 : (0 : ℚ) < 10 := by norm_num
  -- n/d < 10^(e0+1) and 10^(e0-1) < n/d
  have up : (n : ℚ) / (d : ℚ) < (10 : ℚ) ^ ((ndigits n : Int) - (ndigits d : Int) + 1) := by
    rw [div_lt_iff₀ hdq]
    have e : (10 : ℚ) ^ ((ndigits n : Int) - (ndigits d : Int) + 1) * (10 : ℚ) ^ ((ndigits d : Int) - 1) = (10 : ℚ) ^ (ndigits n : Int) := by
      rw [← zpow_add₀ h10.ne']; congr 1; ring
    calc (n : ℚ) < (10 : ℚ) ^ (ndigits n : Int) := nu
      _ = (10 : ℚ) ^ ((ndigits n : Int) - (ndigits d : Int) + 1) * (10 : ℚ) ^ ((ndigits d : Int) - 1) := e.symm
      _ ≤ (10 : ℚ) ^ ((ndigits n : Int) - (ndigits d : Int) + 1) * (d : ℚ) := by
          apply mul_le_mul_of_nonneg_left dl; positivity
  have lo : (10 : ℚ) ^ ((ndigits n : Int) - (ndigits d : Int) - 1) < (n : ℚ) / (d : ℚ) := by
    rw [lt_div_iff₀ hdq]
    have e : (10 : ℚ) ^ ((ndigits n : Int) - (ndigits d : Int) - 1) * (10 : ℚ) ^ (ndigits d : Int) = (10 : ℚ) ^ ((ndigits n : Int) - 1) := by
      rw [← zpow_add₀ h10.ne']; congr 1; ring
    calc (10 : ℚ) ^ ((ndigits n : Int) - (ndigits d : Int) - 1) * (d : ℚ)
        < (10 : ℚ) ^ ((ndigits n : Int) - (ndigits d : Int) - 1) * (10 : ℚ) ^ (ndigits d : Int) := by
          apply mul_lt_mul_of_pos_left du; positivity
      _ = (10 : ℚ) ^ ((ndigits n : Int) - 1) := e
      _ ≤ (n : ℚ) := nl
  unfold exp10
  simp only []
  split
  · rename_i hge
    exact ⟨(geP10_iff n d hd _).mp hge, up⟩
  · rename_i hge
    have hlt : (n : ℚ) / (d : ℚ) < (10 : ℚ) ^ ((ndigits n : Int) - (ndigits d : Int)) := by
      by_contra hc; rw [not_lt] at hc
      exact hge ((geP10_iff n d hd _).mpr hc)
    refine ⟨lo.le, ?_⟩
    have : (ndigits n : Int) - (ndigits d : Int) - 1 + 1 = (ndigits n : Int) - (ndigits d : Int) := by ring
    rw [this]; exact hlt


/-- `p+1` significant digits carry a relative error of at most `½·10^-p` -/
theorem sciDigits_rel (n d p : Nat) (hd : 0 < d) :
    |((sciDigits n d p).1 : ℚ) * (10 : ℚ) ^ ((sciDigits n d p).2 - (p : Int)) - (n : ℚ) / (d : ℚ)|
      ≤ 1 / 2 * (10 : ℚ) ^ (-(p : Int)) * ((n : ℚ) / (d : ℚ)) := by
  have h10 : (0 : ℚ) < 10 := by norm_num
  unfold sciDigits
  split
  · rename_i h0; subst h0; simp
  · rename_i h0
    have hn : 0 < n := Nat.pos_of_ne_zero h0
    obtain ⟨hlo, hhi⟩ := exp10_bounds n d hn hd
    have herr := scaleRound_err n d hd ((p : Int) - exp10 n d)
    set e := exp10 n d with he
    set a := (n : ℚ) / (d : ℚ) with ha
    set N := scaleRound n d ((p : Int) - e) with hN
    have hscale : (0 : ℚ) < (10 : ℚ) ^ (e - (p : Int)) := by positivity
    -- the un-carried value is within half a unit of the last place
    have hmain : |(N : ℚ) * (10 : ℚ) ^ (e - (p : Int)) - a| ≤ 1 / 2 * (10 : ℚ) ^ (-(p : Int)) * a := by
      have e1 : (N : ℚ) * (10 : ℚ) ^ (e - (p : Int)) - a = ((N : ℚ) - a * (10 : ℚ) ^ ((p : Int) - e)) * (10 : ℚ) ^ (e - (p : Int)) := by
        rw [sub_mul, mul_assoc, ← zpow_add₀ h10.ne']; simp
      rw [e1, abs_mul, abs_of_pos hscale]
      calc |(N : ℚ) - a * (10 : ℚ) ^ ((p : Int) - e)| * (10 : ℚ) ^ (e - (p : Int))
          ≤ 1 / 2 * (10 : ℚ) ^ (e - (p : Int)) := by
            apply mul_le_mul_of_nonneg_right herr hscale.le
        _ = 1 / 2 * (10 : ℚ) ^ (-(p : Int)) * (10 : ℚ) ^ e := by
            rw [mul_assoc, ← zpow_add₀ h10.ne']; congr 2; ring
        _ ≤ 1 / 2 * (10 : ℚ) ^ (-(p : Int)) * a := by
            apply mul_le_mul_of_nonneg_left hlo; positivity
    simp only []
    split
    · rename_i hc
      -- carry: N = 10^(p+1)
      have hub : (N : ℚ) < (10 : ℚ) ^ ((p : Int) + 1) + 1 / 2 := by
        have h1 := (abs_le.mp herr).2
        have h2 : a * (10 : ℚ) ^ ((p : Int) - e) < (10 : ℚ) ^ ((p : Int) + 1) := by
          calc a * (10 : ℚ) ^ ((p : Int) - e) < (10 : ℚ) ^ (e + 1) * (10 : ℚ) ^ ((p : Int) - e) := by
                apply mul_lt_mul_of_pos_right hhi; positivity
            _ = (10 : ℚ) ^ ((p : Int) + 1) := by rw [← zpow_add₀ h10.ne']; congr 1; ring
        linarith
      have hNle : N ≤ 10 ^ (p + 1) := by
        by_contra hgt
        rw [Nat.not_le] at hgt
        have : ((10 ^ (p + 1) + 1 : Nat) : ℚ) ≤ (N : ℚ) := by exact_mod_cast hgt
        have e2 : ((10 ^ (p + 1) + 1 : Nat) : ℚ) = (10 : ℚ) ^ ((p : Int) + 1) + 1 := by
          push_cast; rw [← zpow_natCast]; push_cast; ring
        rw [e2] at this; linarith
      have hNeq : N = 10 ^ (p + 1) := Nat.le_antisymm hNle hc
      have hdiv : N / 10 = 10 ^ p := by rw [hNeq, Nat.pow_succ]; simp
      have e3 : ((N / 10 : Nat) : ℚ) * (10 : ℚ) ^ (e + 1 - (p : Int)) = (N : ℚ) * (10 : ℚ) ^ (e - (p : Int)) := by
        rw [hdiv, hNeq]; push_cast
        rw [← zpow_natCast, ← zpow_natCast, ← zpow_add₀ h10.ne', ← zpow_add₀ h10.ne']; congr 1; push_cast; ring
      rw [e3]; exact hmain
    · exact hmain

theorem stripZeros_value (f : Nat) : ∀ (m : Nat) (E : Int),
    ((stripZeros m f).1 : ℚ) * (10 : ℚ) ^ (E - ((stripZeros m f).2 : Int)) = (m : ℚ) * (10 : ℚ) ^ (E - (f : Int)) := by
  have h10 : (0 : ℚ) < 10 := by norm_num
  induction f with
  | zero => intro m E; simp [stripZeros]
  | succ f ih =>
    intro m E
    unfold stripZeros
    split
    · rename_i h0
      rw [ih]
      have hm : (m : ℚ) = ((m / 10 : Nat) : ℚ) * 10 := by
        have : m = m / 10 * 10 := by omega
        exact_mod_cast congrArg (fun z : Nat => (z : ℚ)) this
      rw [hm, mul_assoc]
      congr 1
      rw [← zpow_one_add₀ h10.ne']; congr 1; push_cast; ring
    · rfl

end MontePyVerif.C05
