import MontePyVerif.Lemmas.Dec

/-! # Text level (lemmas for C05): the Spec reader on laid-out numbers, the first word of a text

`spec_reads_renderPy` / `spec_reads_renderSci`: whatever `Dec`, sign style, zero fill, divider and exponent padding, the
first word of the laid-out text (followed by nothing or by something that starts with a blank, a line break or `$`) is
read by `Spec.parseChars` as exactly `Dec.value`. -/
namespace MontePyVerif.C05
open MontePyVerif.ValueFormat MontePyVerif.Spec

/-- a text that begins with a blank, a line break or a `$` comment -/
def StartsSep (t : Text) : Prop := ∃ c r, t = c :: r ∧ (c = ' ' ∨ c = '\n' ∨ c = '$')

/-! ## the Spec reader on laid-out integers (text level) -/

theorem nstep_digit_int (s : NSt) (c : Char) (hc : c.isDigit = true)
    (hp : s.ph = .start ∨ s.ph = .signed ∨ s.ph = .int) :
    nstep s c = { s with ph := .int, mant := 10 * s.mant + (c.toNat - 48), digits := s.digits + 1 } := by
  unfold nstep
  rw [if_pos hc]
  rcases hp with h | h | h <;> simp [h]

theorem run_digits_int : ∀ (ds : List Char) (s : NSt), (∀ c ∈ ds, c.isDigit = true) → ds ≠ [] →
    (s.ph = .start ∨ s.ph = .signed ∨ s.ph = .int) →
    ds.foldl nstep s = { s with ph := .int, mant := Nat.ofDigitChars 10 ds s.mant, digits := s.digits + ds.length }
  | [], _, _, hne, _ => absurd rfl hne
  | [c], s, hd, _, hp => by
    simp only [List.foldl_cons, List.foldl_nil]
    rw [nstep_digit_int s c (hd c (by simp)) hp]
    simp [Nat.ofDigitChars]
  | c :: c' :: r, s, hd, _, hp => by
    rw [List.foldl_cons, nstep_digit_int s c (hd c (by simp)) hp]
    rw [run_digits_int (c' :: r) _ (fun x hx => hd x (List.mem_cons_of_mem _ hx)) (by simp) (Or.inr (Or.inr rfl))]
    simp [Nat.ofDigitChars, Nat.add_assoc, Nat.add_comm]

/-- zero fill and decimal digits are digits, and read back as the number -/
theorem fill_digits (z m : Nat) :
    (∀ c ∈ List.replicate z '0' ++ Nat.toDigits 10 m, c.isDigit = true) ∧
    List.replicate z '0' ++ Nat.toDigits 10 m ≠ [] ∧
    Nat.ofDigitChars 10 (List.replicate z '0' ++ Nat.toDigits 10 m) 0 = m := by
  refine ⟨?_, ?_, ?_⟩
  · intro c hc
    rcases List.mem_append.mp hc with h | h
    · rw [(List.mem_replicate.mp h).2]; decide
    · exact Nat.isDigit_of_mem_toDigits (by decide) (by decide) h
  · simp
  · rw [Nat.ofDigitChars_append, Nat.ofDigitChars_replicate_zero]; simp

theorem tenPow_zero : tenPow 0 = 1 := by unfold tenPow; simp

/-- the Spec reads `[sign] zeros digits` as the signed number -/
theorem parse_int_layout (sg : Text) (neg : Bool) (hs : sg = [] ∧ neg = false ∨ sg = ['+'] ∧ neg = false ∨ sg = ['-'] ∧ neg = true)
    (z m : Nat) :
    parseChars (sg ++ (List.replicate z '0' ++ Nat.toDigits 10 m)) = some (if neg then -(m : ℚ) else (m : ℚ)) := by
  obtain ⟨hd, hne, hval⟩ := fill_digits z m
  unfold parseChars
  rw [List.foldl_append]
  rcases hs with ⟨rfl, rfl⟩ | ⟨rfl, rfl⟩ | ⟨rfl, rfl⟩
  · rw [List.foldl_nil, run_digits_int _ _ hd hne (Or.inl rfl)]
    simp [NSt.value, hval, tenPow_zero]
  · have h1 : List.foldl nstep {} ['+'] = { ph := .signed, neg := false } := by
      simp [nstep, Char.isDigit]
    rw [h1, run_digits_int _ _ hd hne (Or.inr (Or.inl rfl))]
    simp [NSt.value, hval, tenPow_zero]
  · have h1 : List.foldl nstep {} ['-'] = { ph := .signed, neg := true } := by
      simp [nstep, Char.isDigit]
    rw [h1, run_digits_int _ _ hd hne (Or.inr (Or.inl rfl))]
    simp [NSt.value, hval, tenPow_zero]

/-! ## the first word -/

def WordChar (c : Char) : Prop := c ≠ ' ' ∧ c ≠ '\n' ∧ c ≠ '$' ∧ c ≠ '&'

theorem takeWhile_word : ∀ (w tail : Text), (∀ c ∈ w, WordChar c) → (tail = [] ∨ StartsSep tail) →
    (w ++ tail).takeWhile (fun c => !(c = ' ' || c = '\n' || c = '$' || c = '&')) = w
  | [], tail, _, ht => by
    rcases ht with rfl | ⟨c, r, rfl, hc⟩
    · rfl
    · rcases hc with rfl | rfl | rfl <;> simp
  | c :: w, tail, hw, ht => by
    have hc := hw c (by simp)
    obtain ⟨h1, h2, h3, h4⟩ := hc
    have ih := takeWhile_word w tail (fun x hx => hw x (List.mem_cons_of_mem _ hx)) ht
    simp only [List.cons_append]
    rw [List.takeWhile_cons]
    simp [h1, h2, h3, h4] at ih ⊢
    exact ih

theorem firstWord_word (w tail : Text) (hw : ∀ c ∈ w, WordChar c) (ht : tail = [] ∨ StartsSep tail) :
    firstWord (w ++ tail) = w ∨ (w = [] ∧ True) := by
  cases w with
  | nil => right; exact ⟨rfl, trivial⟩
  | cons c r =>
    left
    unfold firstWord
    have hc := (hw c (by simp)).1
    have : ((c :: r) ++ tail).dropWhile (· = ' ') = (c :: r) ++ tail := by
      simp [hc]
    rw [this]
    exact takeWhile_word (c :: r) tail hw ht


theorem wordChar_digit (c : Char) (hc : c.isDigit = true) : WordChar c := by
  refine ⟨?_, ?_, ?_, ?_⟩ <;> (intro h; subst h; simp [Char.isDigit] at hc)

theorem firstWord_blank (t : Text) : firstWord (' ' :: t) = firstWord t := by
  unfold firstWord; simp

theorem replicate_startsSep (k : Nat) (hk : 1 ≤ k) (t : Text) : StartsSep (List.replicate k ' ' ++ t) := by
  obtain ⟨j, rfl⟩ : ∃ j, k = j + 1 := ⟨k - 1, by omega⟩
  exact ⟨' ', List.replicate j ' ' ++ t, by simp [List.replicate_succ], Or.inl rfl⟩

/-! ## the Spec reader on every laid-out number (fraction, exponent with or without letter, zero fills) -/

theorem tenPow_eq (k : Int) : tenPow k = (10 : ℚ) ^ k := by
  unfold tenPow
  split
  · rename_i h
    obtain ⟨n, rfl⟩ := Int.eq_ofNat_of_zero_le h
    simp
  · rename_i h
    obtain ⟨n, rfl⟩ : ∃ n : Nat, k = -(n : Int) := ⟨(-k).toNat, by omega⟩
    simp [zpow_neg]

theorem nstep_digit_frac (s : NSt) (c : Char) (hc : c.isDigit = true) (hp : s.ph = .frac) :
    nstep s c = { s with mant := 10 * s.mant + (c.toNat - 48), scale := s.scale + 1, digits := s.digits + 1 } := by
  unfold nstep
  rw [if_pos hc]
  simp [hp]

theorem run_digits_frac : ∀ (ds : List Char) (s : NSt), (∀ c ∈ ds, c.isDigit = true) → s.ph = .frac →
    ds.foldl nstep s = { s with mant := Nat.ofDigitChars 10 ds s.mant, scale := s.scale + ds.length, digits := s.digits + ds.length }
  | [], s, _, _ => by simp [Nat.ofDigitChars]
  | c :: r, s, hd, hp => by
    rw [List.foldl_cons, nstep_digit_frac s c (hd c (by simp)) hp]
    have ih := run_digits_frac r { s with mant := 10 * s.mant + (c.toNat - 48), scale := s.scale + 1, digits := s.digits + 1 }
      (fun x hx => hd x (List.mem_cons_of_mem _ hx)) hp
    rw [ih]
    simp [Nat.ofDigitChars]
    omega

theorem nstep_digit_exp (s : NSt) (c : Char) (hc : c.isDigit = true)
    (hp : s.ph = .expLetter ∨ s.ph = .expSigned ∨ s.ph = .exp) :
    nstep s c = { s with ph := .exp, ex := 10 * s.ex + (c.toNat - 48) } := by
  unfold nstep
  rw [if_pos hc]
  rcases hp with h | h | h <;> simp [h]

theorem run_digits_exp : ∀ (ds : List Char) (s : NSt), (∀ c ∈ ds, c.isDigit = true) → ds ≠ [] →
    (s.ph = .expLetter ∨ s.ph = .expSigned ∨ s.ph = .exp) →
    ds.foldl nstep s = { s with ph := .exp, ex := Nat.ofDigitChars 10 ds s.ex }
  | [], _, _, hne, _ => absurd rfl hne
  | [c], s, hd, _, hp => by
    simp only [List.foldl_cons, List.foldl_nil]
    rw [nstep_digit_exp s c (hd c (by simp)) hp]
    simp [Nat.ofDigitChars]
  | c :: c' :: r, s, hd, _, hp => by
    rw [List.foldl_cons, nstep_digit_exp s c (hd c (by simp)) hp]
    rw [run_digits_exp (c' :: r) _ (fun x hx => hd x (List.mem_cons_of_mem _ hx)) (by simp) (Or.inr (Or.inr rfl))]
    simp [Nat.ofDigitChars]

/-- the fraction digits: exactly `f` digits that continue the number -/
theorem frac_digits (f a b : Nat) (hf : 0 < f) (hb : b < 10 ^ f) :
    (∀ c ∈ zfill f (Nat.toDigits 10 b), c.isDigit = true) ∧ (zfill f (Nat.toDigits 10 b)).length = f ∧
    Nat.ofDigitChars 10 (zfill f (Nat.toDigits 10 b)) a = a * 10 ^ f + b := by
  have hlen : (Nat.toDigits 10 b).length ≤ f := (Nat.length_toDigits_le_iff (by decide) hf).mpr hb
  have hl : (zfill f (Nat.toDigits 10 b)).length = f := by
    unfold zfill; simp; omega
  refine ⟨?_, hl, ?_⟩
  · unfold zfill
    exact (fill_digits (f - (Nat.toDigits 10 b).length) b).1
  · rw [Nat.ofDigitChars_eq_ofDigitChars_zero, hl]
    unfold zfill
    rw [(fill_digits (f - (Nat.toDigits 10 b).length) b).2.2, Nat.mul_comm]


/-- the reader has consumed a complete significand `[sign] digits [. digits]` -/
structure MantDone (s : NSt) (neg : Bool) (m f : Nat) : Prop where
  ph : s.ph = .int ∨ s.ph = .frac
  neg : s.neg = neg
  mant : s.mant = m
  scale : s.scale = f
  digits : s.digits ≠ 0
  eneg : s.eneg = false
  ex : s.ex = 0

theorem nstep_dot (s : NSt) (hp : s.ph = .start ∨ s.ph = .signed ∨ s.ph = .int) : nstep s '.' = { s with ph := .frac } := by
  unfold nstep
  rcases hp with h | h | h <;> simp [h, Char.isDigit]

/-- after `[sign] zeros digits [. fraction]` the significand is complete -/
theorem mant_done (sg : Text) (neg : Bool)
    (hs : sg = [] ∧ neg = false ∨ sg = ['+'] ∧ neg = false ∨ sg = ['-'] ∧ neg = true)
    (z a f b : Nat) (hb : b < 10 ^ f) :
    MantDone (List.foldl nstep {} (sg ++ (List.replicate z '0' ++ Nat.toDigits 10 a)
        ++ (if f = 0 then [] else '.' :: zfill f (Nat.toDigits 10 b)))) neg (a * 10 ^ f + b) f := by
  obtain ⟨hd, hne, hval⟩ := fill_digits z a
  have hlen : 0 < (List.replicate z '0' ++ Nat.toDigits 10 a).length := List.length_pos_iff.mpr hne
  -- after the sign
  have h1 : ∃ s1 : NSt, List.foldl nstep {} sg = s1 ∧ (s1.ph = .start ∨ s1.ph = .signed ∨ s1.ph = .int) ∧ s1.neg = neg ∧
      s1.mant = 0 ∧ s1.scale = 0 ∧ s1.digits = 0 ∧ s1.eneg = false ∧ s1.ex = 0 := by
    rcases hs with ⟨rfl, rfl⟩ | ⟨rfl, rfl⟩ | ⟨rfl, rfl⟩
    · exact ⟨{}, rfl, Or.inl rfl, rfl, rfl, rfl, rfl, rfl, rfl⟩
    · exact ⟨{ ph := .signed, neg := false }, by simp [nstep, Char.isDigit], Or.inr (Or.inl rfl), rfl, rfl, rfl, rfl, rfl, rfl⟩
    · exact ⟨{ ph := .signed, neg := true }, by simp [nstep, Char.isDigit], Or.inr (Or.inl rfl), rfl, rfl, rfl, rfl, rfl, rfl⟩
  obtain ⟨s1, hs1, hp1, hn1, hm1, hsc1, hdg1, hen1, hex1⟩ := h1
  rw [List.foldl_append, List.foldl_append, hs1, run_digits_int _ s1 hd hne hp1, hm1, hval]
  by_cases hf : f = 0
  · subst hf
    have hb0 : b = 0 := by simpa using hb
    subst hb0
    simp only [if_true, List.foldl_nil]
    exact ⟨Or.inl rfl, hn1, by simp, hsc1, by simp only []; omega, hen1, hex1⟩
  · simp only [hf, if_false, List.foldl_cons]
    obtain ⟨hfd, hfl, hfv⟩ := frac_digits f a b (Nat.pos_of_ne_zero hf) hb
    rw [nstep_dot _ (Or.inr (Or.inr rfl)), run_digits_frac _ _ hfd rfl]
    exact ⟨Or.inr rfl, hn1, hfv, by simp only [hsc1, hfl]; omega, by simp only []; omega, hen1, hex1⟩

/-- the exponent part of a laid-out number: optional letter, sign, zero fill, digits -/
structure ExpPart where
  letter : Text
  neg : Bool
  z : Nat
  E : Nat

def ExpPart.text (x : ExpPart) : Text :=
  x.letter ++ ((if x.neg then '-' else '+') :: (List.replicate x.z '0' ++ Nat.toDigits 10 x.E))

def ExpPart.value (x : ExpPart) : Int := if x.neg then -(x.E : Int) else (x.E : Int)

def sgnQ (b : Bool) : ℚ := if b then -1 else 1

theorem value_no_exp (s : NSt) (neg : Bool) (m f : Nat) (h : MantDone s neg m f) :
    s.value = some (sgnQ neg * ((m : ℚ) * (10 : ℚ) ^ ((0 : Int) - (f : Int)))) := by
  obtain ⟨hp, hn, hm, hsc, hdg, hen, hex⟩ := h
  unfold NSt.value sgnQ
  rcases hp with hp | hp <;> cases neg <;> simp [hp, hn, hm, hsc, hdg, hen, hex, tenPow_eq]

theorem value_exp (s : NSt) (neg : Bool) (m f : Nat) (h : MantDone s neg m f) (x : ExpPart)
    (hL : x.letter = [] ∨ x.letter = ['e'] ∨ x.letter = ['E']) :
    (List.foldl nstep s x.text).value = some (sgnQ neg * ((m : ℚ) * (10 : ℚ) ^ (x.value - (f : Int)))) := by
  obtain ⟨hp, hn, hm, hsc, hdg, hen, hex⟩ := h
  obtain ⟨hd, hne, hval⟩ := fill_digits x.z x.E
  -- after the optional letter and the sign the reader expects exponent digits
  have h2 : ∃ s2 : NSt, List.foldl nstep s (x.letter ++ [if x.neg then '-' else '+']) = s2 ∧ s2.ph = .expSigned ∧
      s2.neg = neg ∧ s2.mant = m ∧ s2.scale = f ∧ s2.eneg = x.neg ∧ s2.ex = 0 := by
    rcases hL with hl | hl | hl <;> rw [hl] <;> rcases hp with hp | hp <;> cases hxn : x.neg <;>
      simp [nstep, Char.isDigit, isExpLetter, hp, hdg, hn, hm, hsc, hex]
  obtain ⟨s2, hs2, hp2, hn2, hm2, hsc2, hen2, hex2⟩ := h2
  have htext : x.text = (x.letter ++ [if x.neg then '-' else '+']) ++ (List.replicate x.z '0' ++ Nat.toDigits 10 x.E) := by
    unfold ExpPart.text; simp
  rw [htext, List.foldl_append, hs2, run_digits_exp _ s2 hd hne (Or.inr (Or.inl hp2)), hex2, hval]
  unfold NSt.value sgnQ ExpPart.value
  cases neg <;> cases hxn : x.neg <;> simp [hn2, hm2, hsc2, hen2, hxn, tenPow_eq]


/-- the general shape of a laid-out number -/
def layoutText (sg : Text) (z a f b : Nat) (X : Option ExpPart) : Text :=
  sg ++ (List.replicate z '0' ++ Nat.toDigits 10 a) ++ (if f = 0 then [] else '.' :: zfill f (Nat.toDigits 10 b))
    ++ (match X with | none => [] | some x => x.text)

def expValue : Option ExpPart → Int
  | none => 0
  | some x => x.value

/-- the Spec reads a laid-out number as sign · digits · 10^(exponent − fraction length) -/
theorem parse_layoutText (sg : Text) (neg : Bool)
    (hs : sg = [] ∧ neg = false ∨ sg = ['+'] ∧ neg = false ∨ sg = ['-'] ∧ neg = true)
    (z a f b : Nat) (hb : b < 10 ^ f) (X : Option ExpPart)
    (hL : ∀ x, X = some x → x.letter = [] ∨ x.letter = ['e'] ∨ x.letter = ['E']) :
    parseChars (layoutText sg z a f b X)
      = some (sgnQ neg * (((a * 10 ^ f + b : Nat) : ℚ) * (10 : ℚ) ^ (expValue X - (f : Int)))) := by
  have hm := mant_done sg neg hs z a f b hb
  unfold parseChars layoutText
  rw [List.foldl_append]
  cases X with
  | none => simp only [List.foldl_nil, expValue]; exact value_no_exp _ neg _ f hm
  | some x => simp only [expValue]; exact value_exp _ neg _ f hm x (hL x rfl)

theorem wordChar_of_mem (c : Char) (h : c = '+' ∨ c = '-' ∨ c = '.' ∨ c = 'e' ∨ c = 'E') : WordChar c := by
  rcases h with rfl | rfl | rfl | rfl | rfl <;> exact ⟨by decide, by decide, by decide, by decide⟩

theorem layout_wordChars (sg : Text) (hs : sg = [] ∨ sg = ['+'] ∨ sg = ['-']) (z a f b : Nat) (X : Option ExpPart)
    (hL : ∀ x, X = some x → x.letter = [] ∨ x.letter = ['e'] ∨ x.letter = ['E']) :
    ∀ c ∈ layoutText sg z a f b X, WordChar c := by
  intro c hc
  unfold layoutText at hc
  rcases List.mem_append.mp hc with hc | hc
  · rcases List.mem_append.mp hc with hc | hc
    · rcases List.mem_append.mp hc with hc | hc
      · rcases hs with rfl | rfl | rfl
        · simp at hc
        · simp at hc; exact wordChar_of_mem c (Or.inl hc)
        · simp at hc; exact wordChar_of_mem c (Or.inr (Or.inl hc))
      · exact wordChar_digit c ((fill_digits z a).1 c hc)
    · by_cases hf : f = 0
      · simp [hf] at hc
      · simp only [hf, if_false, List.mem_cons] at hc
        rcases hc with rfl | hc
        · exact wordChar_of_mem _ (Or.inr (Or.inr (Or.inl rfl)))
        · unfold zfill at hc
          exact wordChar_digit c ((fill_digits _ b).1 c hc)
  · cases X with
    | none => simp at hc
    | some x =>
      simp only [ExpPart.text] at hc
      rcases List.mem_append.mp hc with hc | hc
      · rcases hL x rfl with h | h | h <;> rw [h] at hc
        · simp at hc
        · simp at hc; exact wordChar_of_mem c (Or.inr (Or.inr (Or.inr (Or.inl hc))))
        · simp at hc; exact wordChar_of_mem c (Or.inr (Or.inr (Or.inr (Or.inr hc))))
      · rcases List.mem_cons.mp hc with rfl | hc
        · cases x.neg
          · exact wordChar_of_mem _ (Or.inl rfl)
          · exact wordChar_of_mem _ (Or.inr (Or.inl rfl))
        · exact wordChar_digit c ((fill_digits x.z x.E).1 c hc)

theorem layoutText_ne_nil (sg : Text) (z a f b : Nat) (X : Option ExpPart) : layoutText sg z a f b X ≠ [] := by
  unfold layoutText; simp

/-- **the Spec reads the first word of a laid-out number followed by anything that starts with a separator** -/
theorem spec_reads_layout (blank : Bool) (sg : Text) (neg : Bool)
    (hs : sg = [] ∧ neg = false ∨ sg = ['+'] ∧ neg = false ∨ sg = ['-'] ∧ neg = true)
    (z a f b : Nat) (hb : b < 10 ^ f) (X : Option ExpPart)
    (hL : ∀ x, X = some x → x.letter = [] ∨ x.letter = ['e'] ∨ x.letter = ['E'])
    (tail : Text) (ht : tail = [] ∨ StartsSep tail) :
    parseChars (firstWord ((if blank then [' '] else []) ++ layoutText sg z a f b X ++ tail))
      = some (sgnQ neg * (((a * 10 ^ f + b : Nat) : ℚ) * (10 : ℚ) ^ (expValue X - (f : Int)))) := by
  have hs' : sg = [] ∨ sg = ['+'] ∨ sg = ['-'] := by
    rcases hs with ⟨h, _⟩ | ⟨h, _⟩ | ⟨h, _⟩ <;> simp [h]
  have hw := layout_wordChars sg hs' z a f b X hL
  have hfw : firstWord (layoutText sg z a f b X ++ tail) = layoutText sg z a f b X := by
    rcases firstWord_word _ tail hw ht with h | ⟨h, _⟩
    · exact h
    · exact absurd h (layoutText_ne_nil sg z a f b X)
  cases blank
  · simp only [Bool.false_eq_true, if_false, List.nil_append]
    rw [hfw]; exact parse_layoutText sg neg hs z a f b hb X hL
  · simp only [if_true, List.cons_append, List.nil_append]
    rw [firstWord_blank, hfw]; exact parse_layoutText sg neg hs z a f b hb X hL


/-! ## the layouts of the model are laid-out numbers -/

theorem pyExpText_eq (e : Int) :
    pyExpText e = ExpPart.text ⟨['e'], decide (e < 0), 2 - (Nat.toDigits 10 e.natAbs).length, e.natAbs⟩ := by
  unfold pyExpText ExpPart.text expSign zfill
  by_cases h : e < 0 <;> simp [h]

theorem expPart_value (L : Text) (z : Nat) (e : Int) : (ExpPart.mk L (decide (e < 0)) z e.natAbs).value = e := by
  unfold ExpPart.value
  obtain ⟨n, rfl | rfl⟩ := Int.eq_nat_or_neg e
  · simp
  · by_cases hn : n = 0
    · subst hn; simp
    · simp

theorem signText_cases (sign : Char) (neg : Bool) : ∃ (blank : Bool) (sg : Text),
    signText sign neg = (if blank then [' '] else []) ++ sg ∧
    (sg = [] ∧ neg = false ∨ sg = ['+'] ∧ neg = false ∨ sg = ['-'] ∧ neg = true) := by
  unfold signText
  cases neg
  · by_cases h1 : sign = '+'
    · exact ⟨false, ['+'], by simp [h1], Or.inr (Or.inl ⟨rfl, rfl⟩)⟩
    · by_cases h2 : sign = ' '
      · exact ⟨true, [], by simp [h2], Or.inl ⟨rfl, rfl⟩⟩
      · exact ⟨false, [], by simp [h1, h2], Or.inl ⟨rfl, rfl⟩⟩
  · exact ⟨false, ['-'], by simp, Or.inr (Or.inr ⟨rfl, rfl⟩)⟩

theorem dec_value_layout (d : Dec) (ev : Int) (he : ev = d.exp.getD 0) :
    sgnQ d.neg * (((d.m / 10 ^ d.frac * 10 ^ d.frac + d.m % 10 ^ d.frac : Nat) : ℚ) * (10 : ℚ) ^ (ev - (d.frac : Int))) = d.value := by
  rw [Dec.value_eq, Nat.div_add_mod', he]
  rfl

/-- **every text CPython's `f`/`g`/`d` layout produces is read by the Spec as the value of its `Dec`** -/
theorem spec_reads_renderPy (sign : Char) (width : Nat) (d : Dec) (tail : Text) (ht : tail = [] ∨ StartsSep tail) :
    parseChars (firstWord (renderPy sign width d ++ tail)) = some d.value := by
  obtain ⟨blank, sg, hsg, hs⟩ := signText_cases sign d.neg
  have hb : d.m % 10 ^ d.frac < 10 ^ d.frac := Nat.mod_lt _ (by positivity)
  let X : Option ExpPart := d.exp.map fun e => ⟨['e'], decide (e < 0), 2 - (Nat.toDigits 10 e.natAbs).length, e.natAbs⟩
  have hL : ∀ x, X = some x → x.letter = [] ∨ x.letter = ['e'] ∨ x.letter = ['E'] := by
    intro x hx
    cases hd : d.exp with
    | none => simp [X, hd] at hx
    | some e => simp [X, hd] at hx; subst hx; exact Or.inr (Or.inl rfl)
  have hX : expValue X = d.exp.getD 0 := by
    cases hd : d.exp with
    | none => simp [X, hd, expValue]
    | some e => simp [X, hd, expValue, expPart_value]
  have hshape : renderPy sign width d = (if blank then [' '] else []) ++
      layoutText sg (fillZeros width (signText sign d.neg) (pyBody d)) (d.m / 10 ^ d.frac) d.frac (d.m % 10 ^ d.frac) X := by
    unfold renderPy layoutText pyBody mantissa intDigits fracDigits
    simp only []
    rw [hsg]
    cases hd : d.exp with
    | none => simp [X, hd, List.append_assoc]
    | some e => simp [X, hd, List.append_assoc, pyExpText_eq]
  rw [hshape, spec_reads_layout blank sg d.neg hs _ _ _ _ hb X hL tail ht, dec_value_layout d _ hX]

theorem div_text_cases (dv : Div) : dv.text = [] ∨ dv.text = ['e'] ∨ dv.text = ['E'] := by
  cases dv <;> simp [Div.text]

/-- **every text the `e` branch produces (divider replaced, exponent re-padded, for every formatter) is read by the
    Spec as the value of its `Dec`** -/
theorem spec_reads_renderSci (f : Formatter) (d : Dec) (tail : Text) (ht : tail = [] ∨ StartsSep tail) :
    parseChars (firstWord (renderSci f d ++ tail)) = some d.value := by
  obtain ⟨blank, sg, hsg, hs⟩ := signText_cases f.sign d.neg
  have hb : d.m % 10 ^ d.frac < 10 ^ d.frac := Nat.mod_lt _ (by positivity)
  let e := d.exp.getD 0
  let X : Option ExpPart := some ⟨f.divider.text, decide (e < 0), f.exponentZeroPad - (Nat.toDigits 10 e.natAbs).length, e.natAbs⟩
  have hL : ∀ x, X = some x → x.letter = [] ∨ x.letter = ['e'] ∨ x.letter = ['E'] := by
    intro x hx; simp [X] at hx; subst hx; exact div_text_cases f.divider
  have hX : expValue X = d.exp.getD 0 := by simp [X, expValue, expPart_value, e]
  -- blanks that `"{temp:<{exponent_length}}"` may add go to what follows the word
  let j := f.exponentLength - (zfill f.exponentZeroPad (Nat.toDigits 10 e.natAbs)).length
  have hshape : renderSci f d ++ tail = (if blank then [' '] else []) ++
      layoutText sg (fillZeros f.zeroPadding (signText f.sign d.neg) (pyBody d)) (d.m / 10 ^ d.frac) d.frac (d.m % 10 ^ d.frac) X
      ++ (List.replicate j ' ' ++ tail) := by
    unfold renderSci layoutText mantissa intDigits fracDigits
    simp only []
    rw [hsg]
    simp [X, e, j, ExpPart.text, expSign, zfill, List.append_assoc]
  have ht' : List.replicate j ' ' ++ tail = [] ∨ StartsSep (List.replicate j ' ' ++ tail) := by
    by_cases hj : 1 ≤ j
    · exact Or.inr (replicate_startsSep j hj tail)
    · have : j = 0 := by omega
      rw [this]; simpa using ht
  rw [hshape, spec_reads_layout blank sg d.neg hs _ _ _ _ hb X hL _ ht', dec_value_layout d _ hX]

end MontePyVerif.C05
