import MontePyVerif.Lemmas.Dec

/-! # Text level (lemmas for C05): the Spec reader on laid-out integers, the first word of a text -/
namespace MontePyVerif.C05
open MontePyVerif.ValueFormat MontePyVerif.Spec

/-- a text that begins with a blank, a line break or a `$` comment -/
def StartsSep (t : Text) : Prop := ∃ c r, t = c :: r ∧ (c = ' ' ∨ c = '\n' ∨ c = '$')

/-! ## the Spec reader on laid-out integers (text level) -/

theorem nstep_digit_int (s : NSt) (c : Char) (hc : c.isDigit = true)
    (hp : s.ph = .start ∨ s.ph = .signed ∨ s.ph = .int) :
    nstep s c = { s with ph := .int, mant := 10 * s.mant + (c.toNat - 48), digits := s.digits + 1 } := by
  unfold nstep
  rw [if_pos hc]
  rcases hp with h | h | h <;> simp [h]

theorem run_digits_int : ∀ (ds : List Char) (s : NSt), (∀ c ∈ ds, c.isDigit = true) → ds ≠ [] →
    (s.ph = .start ∨ s.ph = .signed ∨ s.ph = .int) →
    ds.foldl nstep s = { s with ph := .int, mant := Nat.ofDigitChars 10 ds s.mant, digits := s.digits + ds.length }
  | [], _, _, hne, _ => absurd rfl hne
  | [c], s, hd, _, hp => by
    simp only [List.foldl_cons, List.foldl_nil]
    rw [nstep_digit_int s c (hd c (by simp)) hp]
    simp [Nat.ofDigitChars]
  | c :: c' :: r, s, hd, _, hp => by
    rw [List.foldl_cons, nstep_digit_int s c (hd c (by simp)) hp]
    rw [run_digits_int (c' :: r) _ (fun x hx => hd x (List.mem_cons_of_mem _ hx)) (by simp) (Or.inr (Or.inr rfl))]
    simp [Nat.ofDigitChars, Nat.add_assoc, Nat.add_comm]

/-- zero fill and decimal digits are digits, and read back as the number -/
theorem fill_digits (z m : Nat) :
    (∀ c ∈ List.replicate z '0' ++ Nat.toDigits 10 m, c.isDigit = true) ∧
    List.replicate z '0' ++ Nat.toDigits 10 m ≠ [] ∧
    Nat.ofDigitChars 10 (List.replicate z '0' ++ Nat.toDigits 10 m) 0 = m := by
  refine ⟨?_, ?_, ?_⟩
  · intro c hc
    rcases List.mem_append.mp hc with h | h
    · rw [(List.mem_replicate.mp h).2]; decide
    · exact Nat.isDigit_of_mem_toDigits (by decide) (by decide) h
  · simp
  · rw [Nat.ofDigitChars_append, Nat.ofDigitChars_replicate_zero]; simp

theorem tenPow_zero : tenPow 0 = 1 := by unfold tenPow; simp

/-- the Spec reads `[sign] zeros digits` as the signed number -/
theorem parse_int_layout (sg : Text) (neg : Bool) (hs : sg = [] ∧ neg = false ∨ sg = ['+'] ∧ neg = false ∨ sg = ['-'] ∧ neg = true)
    (z m : Nat) :
    parseChars (sg ++ (List.replicate z '0' ++ Nat.toDigits 10 m)) = some (if neg then -(m : ℚ) else (m : ℚ)) := by
  obtain ⟨hd, hne, hval⟩ := fill_digits z m
  unfold parseChars
  rw [List.foldl_append]
  rcases hs with ⟨rfl, rfl⟩ | ⟨rfl, rfl⟩ | ⟨rfl, rfl⟩
  · rw [List.foldl_nil, run_digits_int _ _ hd hne (Or.inl rfl)]
    simp [NSt.value, hval, tenPow_zero]
  · have h1 : List.foldl nstep {} ['+'] = { ph := .signed, neg := false } := by
      simp [nstep, Char.isDigit]
    rw [h1, run_digits_int _ _ hd hne (Or.inr (Or.inl rfl))]
    simp [NSt.value, hval, tenPow_zero]
  · have h1 : List.foldl nstep {} ['-'] = { ph := .signed, neg := true } := by
      simp [nstep, Char.isDigit]
    rw [h1, run_digits_int _ _ hd hne (Or.inr (Or.inl rfl))]
    simp [NSt.value, hval, tenPow_zero]

/-! ## the first word -/

def WordChar (c : Char) : Prop := c ≠ ' ' ∧ c ≠ '\n' ∧ c ≠ '$' ∧ c ≠ '&'

theorem takeWhile_word : ∀ (w tail : Text), (∀ c ∈ w, WordChar c) → (tail = [] ∨ StartsSep tail) →
    (w ++ tail).takeWhile (fun c => !(c = ' ' || c = '\n' || c = '$' || c = '&')) = w
  | [], tail, _, ht => by
    rcases ht with rfl | ⟨c, r, rfl, hc⟩
    · rfl
    · rcases hc with rfl | rfl | rfl <;> simp
  | c :: w, tail, hw, ht => by
    have hc := hw c (by simp)
    obtain ⟨h1, h2, h3, h4⟩ := hc
    have ih := takeWhile_word w tail (fun x hx => hw x (List.mem_cons_of_mem _ hx)) ht
    simp only [List.cons_append]
    rw [List.takeWhile_cons]
    simp [h1, h2, h3, h4] at ih ⊢
    exact ih

theorem firstWord_word (w tail : Text) (hw : ∀ c ∈ w, WordChar c) (ht : tail = [] ∨ StartsSep tail) :
    firstWord (w ++ tail) = w ∨ (w = [] ∧ True) := by
  cases w with
  | nil => right; exact ⟨rfl, trivial⟩
  | cons c r =>
    left
    unfold firstWord
    have hc := (hw c (by simp)).1
    have : ((c :: r) ++ tail).dropWhile (· = ' ') = (c :: r) ++ tail := by
      simp [hc]
    rw [this]
    exact takeWhile_word (c :: r) tail hw ht


theorem wordChar_digit (c : Char) (hc : c.isDigit = true) : WordChar c := by
  refine ⟨?_, ?_, ?_, ?_⟩ <;> (intro h; subst h; simp [Char.isDigit] at hc)

theorem firstWord_blank (t : Text) : firstWord (' ' :: t) = firstWord t := by
  unfold firstWord; simp

end MontePyVerif.C05
