import MontePyVerif.Model.TransformWrite
import MontePyVerif.Spec.Transform
/-!
# Jumps of a TR input are written so that MCNP reads the numbers the transform holds (C05)

Core Lean only.  `defaultEntry_spec` ties the arithmetic of `Transform._default_entry` to the Spec's table for both
units; `updateFrom_reads` is the induction over the entries.
-/
namespace MontePyVerif.C05
open MontePyVerif.TransformWrite

/-- `Transform._default_entry` is MCNP's default of the jumped-over entry, for both units and all 12 positions -/
theorem defaultEntry_spec (inDegrees : Bool) (k : Nat) (hk : k < 12) :
    defaultEntry inDegrees k = Spec.trDefault inDegrees k := by
  have h : k = 0 ∨ k = 1 ∨ k = 2 ∨ k = 3 ∨ k = 4 ∨ k = 5 ∨ k = 6 ∨ k = 7 ∨ k = 8 ∨ k = 9 ∨ k = 10 ∨ k = 11 := by
    omega
  rcases h with h | h | h | h | h | h | h | h | h | h | h | h <;> subst h <;> cases inDegrees <;>
    simp [defaultEntry, Spec.trDefault, Spec.trDefaults]

/-- the entry loop of `_update_values`: whatever the nodes of the card (jumps anywhere, fewer or more nodes than
    values) and whatever the values, MCNP reads the written entries, in the unit the defaults were taken from, as
    exactly the values -/
theorem updateFrom_reads (inDegrees : Bool) (vals : List Rat) :
    ∀ (k : Nat) (nodes : List (Option Rat)), k + vals.length ≤ 12 →
      Spec.trReadFrom inDegrees k (updateFrom inDegrees k nodes vals) = vals := by
  induction vals with
  | nil => intro k nodes _; cases nodes <;> simp [updateFrom, Spec.trReadFrom]
  | cons v vs ih =>
    intro k nodes hk
    have hk' : (k + 1) + vs.length ≤ 12 := by simp only [List.length_cons] at hk; omega
    have hlt : k < 12 := by simp only [List.length_cons] at hk; omega
    cases nodes with
    | nil => simp [updateFrom, Spec.trReadFrom, ih (k + 1) [] hk']
    | cons n ns =>
      simp only [updateFrom, Spec.trReadFrom, ih (k + 1) ns hk']
      by_cases hc : (n.isNone && decide (v = defaultEntry inDegrees k)) = true
      · have hv : v = defaultEntry inDegrees k := by
          simp only [Bool.and_eq_true, decide_eq_true_eq] at hc
          exact hc.2
        rw [if_pos hc]
        simp [hv, defaultEntry_spec inDegrees k hlt]
      · rw [if_neg hc]
        simp

theorem updateFrom_length (inDegrees : Bool) (vals : List Rat) :
    ∀ (k : Nat) (nodes : List (Option Rat)), (updateFrom inDegrees k nodes vals).length = vals.length := by
  induction vals with
  | nil => intro k nodes; cases nodes <;> simp [updateFrom]
  | cons v vs ih => intro k nodes; cases nodes <;> simp [updateFrom, ih]

/-- the same when only the first `n` written entries are kept and the values behind them are all defaults: the
    entries left off at the end are read as jumps -/
theorem updateFrom_take_reads (inDegrees : Bool) (vals : List Rat) :
    ∀ (k : Nat) (nodes : List (Option Rat)) (n : Nat), k + vals.length ≤ 12 →
      allDefaultFrom inDegrees (k + n) (vals.drop n) = true →
      Spec.trReadFrom inDegrees k
        ((updateFrom inDegrees k nodes vals).take n ++ List.replicate (vals.length - n) none) = vals := by
  induction vals with
  | nil => intro k nodes n _ _; cases nodes <;> simp [updateFrom, Spec.trReadFrom]
  | cons v vs ih =>
    intro k nodes n hk hd
    have hk' : (k + 1) + vs.length ≤ 12 := by simp only [List.length_cons] at hk; omega
    have hlt : k < 12 := by simp only [List.length_cons] at hk; omega
    cases n with
    | zero =>
      simp only [Nat.add_zero, List.drop_zero, allDefaultFrom, Bool.and_eq_true, decide_eq_true_eq] at hd
      have ht := ih (k + 1) [] 0 hk' (by simpa using hd.2)
      simp only [List.take_zero, List.nil_append, Nat.sub_zero] at ht
      simp only [List.take_zero, List.nil_append, Nat.sub_zero, List.length_cons, List.replicate_succ,
        Spec.trReadFrom, ht, Option.getD_none]
      rw [hd.1, defaultEntry_spec inDegrees k hlt]
    | succ m =>
      have hd' : allDefaultFrom inDegrees (k + 1 + m) (vs.drop m) = true := by
        have : k + (m + 1) = k + 1 + m := by omega
        simpa [this] using hd
      have hlen : (v :: vs).length - (m + 1) = vs.length - m := by simp
      cases nodes with
      | nil =>
        have ht := ih (k + 1) [] m hk' hd'
        simp only [updateFrom, List.take_succ_cons, List.cons_append, Spec.trReadFrom, hlen, ht, Option.getD_some]
      | cons nd ns =>
        have ht := ih (k + 1) ns m hk' hd'
        simp only [updateFrom, List.take_succ_cons, List.cons_append, Spec.trReadFrom, hlen, ht]
        by_cases hc : (nd.isNone && decide (v = defaultEntry inDegrees k)) = true
        · have hv : v = defaultEntry inDegrees k := by
            simp only [Bool.and_eq_true, decide_eq_true_eq] at hc
            exact hc.2
          rw [if_pos hc]
          simp [hv, defaultEntry_spec inDegrees k hlt]
        · rw [if_neg hc]
          simp

theorem flatPack_length (s : State) (hr : s.rot.length ≤ 9) : (flatPack s).length ≤ 9 := by
  unfold flatPack
  split
  · split <;> simp
  · exact hr

theorem heldNumbers_length (s : State) (hd : s.disp.length = 3) (hr : s.rot.length ≤ 9) :
    (heldNumbers s).length ≤ 12 := by
  have := flatPack_length s hr
  unfold heldNumbers
  split <;> simp [hd] <;> omega

end MontePyVerif.C05
