import MontePyVerif.Model.Write
/-! Helper lemmas about `Model/Write.lean` for C15: the `with` body never touches the destination
    (frame), and a body that ends without an exception has accepted exactly the closed-form text:
    it is in the temporary file followed by Python's buffer, whatever the buffering policy
    (functional correctness). Core tactics only. -/
namespace MontePyVerif.Write
open MontePyVerif.Gen.WriteOrder (Seg)

/-- the text accepted so far by the handle: what has reached the temporary file, followed by what is
    still in Python's buffer -/
def Acc (w : W) (c : List String) : Prop := ∃ t, w.fs.tmp = some t ∧ t ++ w.buf = c

/-! ## frame: nothing but the temporary and the buffer changes inside the `with` block -/

theorem doWrite_dest (plan : Fault) (w : W) (l : String) : (doWrite plan w l).1.fs.dest = w.fs.dest := by
  unfold doWrite
  cases plan <;> simp only [fsFlushTmp] <;> (repeat' split) <;> rfl

theorem writeLines_dest (plan : Fault) (w : W) (ls : List String) : (writeLines plan w ls).1.fs.dest = w.fs.dest := by
  induction ls generalizing w with
  | nil => rfl
  | cons l t ih =>
    simp only [writeLines]
    have h := doWrite_dest plan w l
    split
    · next w' e heq => rw [heq] at h; exact h
    · next w' heq => rw [heq] at h; rw [ih]; exact h

theorem doFormat_fs (plan : Fault) (w : W) (o : Fmt) :
    (doFormat plan w o).1.fs = w.fs ∧ (doFormat plan w o).1.buf = w.buf := by
  unfold doFormat
  cases plan <;> cases o <;> dsimp only <;> (repeat' split) <;> first | exact ⟨rfl, rfl⟩ | simp

theorem writeObjects_dest (plan : Fault) (w : W) (os : List Fmt) : (writeObjects plan w os).1.fs.dest = w.fs.dest := by
  induction os generalizing w with
  | nil => rfl
  | cons o t ih =>
    simp only [writeObjects]
    have h := (doFormat_fs plan w o).1
    split
    · next w' e heq => rw [heq] at h; dsimp only at h ⊢; rw [h]
    · next w' ls heq =>
      rw [heq] at h
      have h2 := writeLines_dest plan w' ls
      split
      · next w'' e heq2 => rw [heq2] at h2; dsimp only at h h2 ⊢; rw [h2, h]
      · next w'' heq2 => rw [heq2] at h2; dsimp only at h h2 ⊢; rw [ih, h2, h]

theorem runChildrenFormat_fs (plan : Fault) (w : W) (os : List Fmt) :
    (runChildrenFormat plan w os).1.fs = w.fs ∧ (runChildrenFormat plan w os).1.buf = w.buf := by
  induction os generalizing w with
  | nil => exact ⟨rfl, rfl⟩
  | cons o t ih =>
    simp only [runChildrenFormat]
    have h := doFormat_fs plan w o
    split
    · next w' e heq => rw [heq] at h; exact h
    · next w' ls heq =>
      rw [heq] at h
      have h2 := ih w'
      split
      · next w'' e heq2 => rw [heq2] at h2; dsimp only at h h2 ⊢; rw [h2.1, h2.2, h.1, h.2]; exact ⟨rfl, rfl⟩
      · next w'' rest heq2 => rw [heq2] at h2; dsimp only at h h2 ⊢; rw [h2.1, h2.2, h.1, h.2]; exact ⟨rfl, rfl⟩

theorem runSeg_dest (plan : Fault) (p : Problem) (w : W) (s : Seg) : (runSeg plan p w s).1.fs.dest = w.fs.dest := by
  cases s <;> simp only [runSeg]
  case blank => exact doWrite_dest plan w ""
  case modifiers =>
    have h := (runChildrenFormat_fs plan w p.modifiers).1
    split
    · next w' e heq => rw [heq] at h; dsimp only at h ⊢; rw [h]
    · next w' ls heq => rw [heq] at h; dsimp only at h ⊢; rw [writeLines_dest, h]
  all_goals exact writeObjects_dest plan w _

theorem runSeq_dest (plan : Fault) (p : Problem) (w : W) (seq : List Seg) : (runSeq plan p w seq).1.fs.dest = w.fs.dest := by
  induction seq generalizing w with
  | nil => rfl
  | cons s t ih =>
    simp only [runSeq]
    have h := runSeg_dest plan p w s
    split
    · next w' e heq => rw [heq] at h; exact h
    · next w' heq => rw [heq] at h; dsimp only at h ⊢; rw [ih, h]

/-! ## a body that ends without an exception has accepted the closed-form text -/

theorem doWrite_ok {plan : Fault} {w w' : W} {l : String} (h : doWrite plan w l = (w', none)) :
    encodable l = true ∧ ∀ c, Acc w c → Acc w' (c ++ [l]) := by
  have key1 : ∀ c, Acc w c →
      Acc { w with buf := [], nwr := w.nwr + 1, lineno := w.lineno + 1,
                   fs := fsFlushTmp w.fs (w.buf ++ [l]) } (c ++ [l]) := by
    intro c ⟨t, ht, hc⟩
    exact ⟨t ++ (w.buf ++ [l]), by simp [fsFlushTmp, ht], by simp [← hc]⟩
  have key2 : ∀ c, Acc w c →
      Acc { w with buf := w.buf ++ [l], nwr := w.nwr + 1, lineno := w.lineno + 1 } (c ++ [l]) := by
    intro c ⟨t, ht, hc⟩
    exact ⟨t, ht, by simp [← hc]⟩
  unfold doWrite at h
  cases plan <;> dsimp only at h <;> (repeat' split at h) <;>
    first
    | (obtain ⟨rfl, -⟩ := Prod.mk.inj h; exact ⟨by assumption, key1⟩)
    | (obtain ⟨rfl, -⟩ := Prod.mk.inj h; exact ⟨by assumption, key2⟩)
    | (exact absurd (Prod.mk.inj h).2 (by simp))

theorem writeLines_ok {plan : Fault} {ls : List String} {w w' : W}
    (h : writeLines plan w ls = (w', none)) :
    ls.all encodable = true ∧ ∀ c, Acc w c → Acc w' (c ++ ls) := by
  induction ls generalizing w with
  | nil => simp only [writeLines] at h; cases h; exact ⟨rfl, fun c hc => by simpa using hc⟩
  | cons l t ih =>
    simp only [writeLines] at h
    split at h
    · cases h
    · next w1 heq =>
      have ⟨h1, h2⟩ := doWrite_ok heq
      have ⟨h3, h4⟩ := ih h
      refine ⟨by simp [h1, h3], fun c hc => ?_⟩
      have := h4 _ (h2 c hc)
      simpa using this

theorem doFormat_ok {plan : Fault} {w w' : W} {o : Fmt} {ls : List String}
    (h : doFormat plan w o = (w', .ok ls)) : o = .lines ls := by
  unfold doFormat at h
  cases plan <;> cases o <;> dsimp only at h <;> (repeat' split at h) <;> simp_all

theorem Acc_of_eq {w w' : W} {c : List String} (hfs : w'.fs = w.fs) (hb : w'.buf = w.buf) (h : Acc w c) : Acc w' c := by
  obtain ⟨t, ht, hc⟩ := h
  exact ⟨t, by rw [hfs]; exact ht, by rw [hb]; exact hc⟩

theorem writeObjects_ok {plan : Fault} {os : List Fmt} {w w' : W}
    (h : writeObjects plan w os = (w', none)) :
    ∃ out, linesOf os = some out ∧ out.all encodable = true ∧ ∀ c, Acc w c → Acc w' (c ++ out) := by
  induction os generalizing w with
  | nil => simp only [writeObjects] at h; cases h; exact ⟨[], rfl, rfl, fun c hc => by simpa using hc⟩
  | cons o t ih =>
    simp only [writeObjects] at h
    split at h
    · cases h
    · next w1 ls heq =>
      have ho := doFormat_ok heq
      have hfs := doFormat_fs plan w o
      rw [heq] at hfs; dsimp only at hfs
      split at h
      · cases h
      · next w2 heq2 =>
        have ⟨h3, h4⟩ := writeLines_ok heq2
        have ⟨out, h5, h6, h7⟩ := ih h
        refine ⟨ls ++ out, ?_, by simp [h3, h6], fun c hc => ?_⟩
        · subst ho; simp [linesOf, h5]
        · have := h7 _ (h4 c (Acc_of_eq hfs.1 hfs.2 hc))
          simpa using this

theorem runChildrenFormat_ok {plan : Fault} {os : List Fmt} {w w' : W} {ls : List String}
    (h : runChildrenFormat plan w os = (w', .ok ls)) : linesOf os = some ls := by
  induction os generalizing w w' ls with
  | nil => simp only [runChildrenFormat] at h; cases h; rfl
  | cons o t ih =>
    simp only [runChildrenFormat] at h
    split at h
    · cases h
    · next w1 l1 heq =>
      have ho := doFormat_ok heq
      split at h
      · cases h
      · next w2 rest heq2 =>
        have := ih heq2
        cases h
        subst ho; simp [linesOf, this]

theorem runSeg_ok {plan : Fault} {p : Problem} {s : Seg} {w w' : W}
    (h : runSeg plan p w s = (w', none)) :
    ∃ out, segLines p s = some out ∧ out.all encodable = true ∧ ∀ c, Acc w c → Acc w' (c ++ out) := by
  cases s
  case blank =>
    simp only [runSeg] at h
    have ⟨h1, h2⟩ := doWrite_ok h
    exact ⟨[""], rfl, by simp [h1], h2⟩
  case modifiers =>
    simp only [runSeg] at h
    split at h
    · cases h
    · next w1 ls heq =>
      have hfs := runChildrenFormat_fs plan w p.modifiers
      rw [heq] at hfs; dsimp only at hfs
      have ⟨h3, h4⟩ := writeLines_ok h
      exact ⟨ls, by simpa [segLines, segObjects] using runChildrenFormat_ok heq, h3,
        fun c hc => h4 c (Acc_of_eq hfs.1 hfs.2 hc)⟩
  all_goals
    simp only [runSeg] at h
    exact writeObjects_ok h

theorem runSeq_ok {plan : Fault} {p : Problem} {seq : List Seg} {w w' : W}
    (h : runSeq plan p w seq = (w', none)) :
    ∃ out, renderSeq p seq = some out ∧ out.all encodable = true ∧ ∀ c, Acc w c → Acc w' (c ++ out) := by
  induction seq generalizing w with
  | nil => simp only [runSeq] at h; cases h; exact ⟨[], rfl, rfl, fun c hc => by simpa using hc⟩
  | cons s t ih =>
    simp only [runSeq] at h
    split at h
    · cases h
    · next w1 heq =>
      have ⟨a, h1, h2, h3⟩ := runSeg_ok heq
      have ⟨b, h4, h5, h6⟩ := ih h
      refine ⟨a ++ b, by simp [renderSeq, h1, h4], by simp [h2, h5], fun c hc => ?_⟩
      have := h6 _ (h3 c hc)
      simpa using this

/-! ## without a fault every object that formats is written -/

theorem doWrite_none (w : W) (l : String) (h : encodable l = true) : ∃ w', doWrite .none w l = (w', none) := by
  simp [doWrite, h]

theorem writeLines_none (w : W) (ls : List String) (h : ls.all encodable = true) :
    ∃ w', writeLines .none w ls = (w', none) := by
  induction ls generalizing w with
  | nil => exact ⟨w, rfl⟩
  | cons l t ih =>
    simp only [List.all_cons, Bool.and_eq_true] at h
    obtain ⟨w1, h1⟩ := doWrite_none w l h.1
    simp only [writeLines, h1]
    exact ih _ h.2

theorem writeObjects_none (w : W) (os : List Fmt) (out : List String)
    (h : linesOf os = some out) (he : out.all encodable = true) :
    ∃ w', writeObjects .none w os = (w', none) := by
  induction os generalizing w out with
  | nil => exact ⟨w, rfl⟩
  | cons o t ih =>
    cases o with
    | raises e => simp [linesOf] at h
    | lines ls =>
      simp only [linesOf, Option.map_eq_some_iff] at h
      obtain ⟨rest, hr, rfl⟩ := h
      simp only [List.all_append, Bool.and_eq_true] at he
      obtain ⟨w1, h1⟩ := writeLines_none { w with nfmt := w.nfmt + 1 } ls he.1
      obtain ⟨w2, h2⟩ := ih w1 rest hr he.2
      exact ⟨w2, by simp only [writeObjects, doFormat, h1, h2]⟩

theorem runChildrenFormat_none (w : W) (os : List Fmt) (out : List String) (h : linesOf os = some out) :
    ∃ w', runChildrenFormat .none w os = (w', .ok out) := by
  induction os generalizing w out with
  | nil => simp only [linesOf, Option.some.injEq] at h; subst h; exact ⟨w, rfl⟩
  | cons o t ih =>
    cases o with
    | raises e => simp [linesOf] at h
    | lines ls =>
      simp only [linesOf, Option.map_eq_some_iff] at h
      obtain ⟨rest, hr, rfl⟩ := h
      obtain ⟨w2, h2⟩ := ih { w with nfmt := w.nfmt + 1 } rest hr
      exact ⟨w2, by simp only [runChildrenFormat, doFormat, h2]⟩

theorem runSeg_none (p : Problem) (w : W) (s : Seg) (out : List String)
    (h : segLines p s = some out) (he : out.all encodable = true) :
    ∃ w', runSeg .none p w s = (w', none) := by
  cases s
  case blank =>
    simp only [segLines, Option.some.injEq] at h; subst h
    simp only [List.all_cons, List.all_nil, Bool.and_true] at he
    simp only [runSeg]; exact doWrite_none w "" he
  case modifiers =>
    simp only [segLines, segObjects] at h
    obtain ⟨w1, h1⟩ := runChildrenFormat_none w p.modifiers out h
    obtain ⟨w2, h2⟩ := writeLines_none w1 out he
    exact ⟨w2, by simp only [runSeg, h1, h2]⟩
  all_goals
    simp only [segLines] at h
    simp only [runSeg]
    exact writeObjects_none w _ out h he

theorem runSeq_none (p : Problem) (w : W) (seq : List Seg) (out : List String)
    (h : renderSeq p seq = some out) (he : out.all encodable = true) :
    ∃ w', runSeq .none p w seq = (w', none) := by
  induction seq generalizing w out with
  | nil => exact ⟨w, rfl⟩
  | cons s t ih =>
    simp only [renderSeq] at h
    split at h
    · next a b ha hb =>
      simp only [Option.some.injEq] at h; subst h
      simp only [List.all_append, Bool.and_eq_true] at he
      obtain ⟨w1, h1⟩ := runSeg_none p w s a ha he.1
      obtain ⟨w2, h2⟩ := ih w1 b hb he.2
      exact ⟨w2, by simp only [runSeq, h1, h2]⟩
    · cases h

end MontePyVerif.Write
