/-!
# Model.CellData — the per-cell data placement logic of MontePy, function by function

State: the cells in cell order with the cell-level instances of the five modifier classes
(`Cell._importance/_volume/_universe/_lattice/_fill`, `in_cell_block = True`), the problem's mode, the
placement flags (`CellDataPrintController`), the data-level instances on `Cells` (their values are always
rebuilt from the cells at write time, so only *where* they sit is state: in `problem.data_inputs` or not) and
`Cells._volume._calc_by_mcnp`.

Values are exact rationals (`U` carries its sign: `-n` = not truncated; `LAT`, `FILL` are numbers).
Syntax trees, paddings and number formatting are not modelled (C05/C08/C10): the writer's output is a list
of cards (`MItem`).  No imports.
-/
namespace MontePyVerif.CellData

abbrev P := Nat

/-- the classes of `cell.py: Cell._INPUTS_TO_PROPERTY`, in dict order -/
inductive K where
  | imp | vol | u | lat | fill
  deriving DecidableEq, Repr, Inhabited

def K.all : List K := [.imp, .vol, .u, .lat, .fill]

/-- `_class_prefix()` of each class -/
def K.pfx : K → String
  | .imp => "imp" | .vol => "vol" | .u => "u" | .lat => "lat" | .fill => "fill"

/-- the attribute of `Cell` / `Cells` that holds the instance -/
def K.attr : K → String
  | .imp => "_importance" | .vol => "_volume" | .u => "_universe" | .lat => "_lattice" | .fill => "_fill"

/-- the class name -/
def K.cls : K → String
  | .imp => "Importance" | .vol => "Volume" | .u => "UniverseInput" | .lat => "LatticeInput" | .fill => "Fill"

/-- `cant_repeat` of `_INPUTS_TO_PROPERTY` -/
def K.cantRepeat : K → Bool
  | .imp => false | _ => true

/-- `_cell_data_control.py: CellDataPrintController._print_data` -/
structure Flags where
  imp : Bool
  vol : Bool
  u : Bool
  lat : Bool
  fill : Bool
  deriving DecidableEq, Repr

/-- `_cell_data_control.py: CellDataPrintController.__init__` + `__getitem__` on an unset key: `True` -/
def Flags.default : Flags := ⟨true, true, true, true, true⟩

/-- `_cell_data_control.py: CellDataPrintController.__getitem__` -/
def Flags.get (f : Flags) : K → Bool
  | .imp => f.imp | .vol => f.vol | .u => f.u | .lat => f.lat | .fill => f.fill

/-- `_cell_data_control.py: CellDataPrintController.__setitem__` -/
def Flags.set (f : Flags) (k : K) (b : Bool) : Flags :=
  match k with
  | .imp => { f with imp := b } | .vol => { f with vol := b } | .u => { f with u := b }
  | .lat => { f with lat := b } | .fill => { f with fill := b }

/-- one entry of `Importance._particle_importances` of a cell-level instance: the particle, the value of its
    tree (`tree["data"][0].value`) and the particles its tree's classifier names -/
structure ImpE where
  p : P
  v : Rat
  cl : List P
  deriving Repr, DecidableEq

structure Cell where
  number : Nat
  imp : List ImpE            -- `_importance._particle_importances`, dict order
  vol : Option Rat           -- `_volume._volume.value`
  uni : Option Nat           -- `_universe._universe.number` (none: no Universe object, a cell made after reading)
  ntr : Bool                 -- `_universe._not_truncated`
  lat : Option Nat           -- `_lattice._lattice.value`
  fill : Option Nat          -- `_fill._universe.number`
  fillComplex : Bool         -- `_fill.transform` is set (a fill with a transform stays on the cell card)
  fillMulti : Bool           -- `_fill.multiple_universes` with a matrix of universes
  setIn : Flags              -- `set_in_cell_block` of each cell-level instance (the datum was on the cell card read)
  deriving Repr, DecidableEq

structure St where
  cells : List Cell
  mode : List P                    -- `problem.mode.particles`
  flags : Flags
  volCalc : Bool                   -- `cells._volume._calc_by_mcnp`
  dataInputs : List (Option K)     -- `problem.data_inputs`: `some k` = the data-level instance of `k`, `none` = any other input
  realTree : List (P × Nat)        -- `cells._importance._real_tree`: particle ↦ identity of its data-block tree (dict order)
  nextId : Nat                     -- the next fresh tree identity (trees are objects: the heap of DESIGN 3.3)
  deriving Repr

inductive Err where
  | valueError | particleTypeNotInCell | malformedInput | numberConflict | indexError
  deriving DecidableEq, Repr

/-- what the writer emits -/
structure MParam where
  k : K
  ps : List P
  v : Rat
  deriving Repr, DecidableEq

structure MCard where
  k : K
  ps : List P
  vec : List (Option Rat)
  no : Bool                 -- `VOL NO …`
  deriving Repr, DecidableEq

inductive MItem where
  | cell (number : Nat) (params : List MParam)
  | data (c : MCard)
  | other
  | blank
  deriving Repr, DecidableEq

/-- `math.isclose(a, b, rel_tol=rel_tol, abs_tol=abs_tol)` with the tolerances as parameters
    (instantiated from `Gen.Constants` in the driver and in `Props`) -/
def isclose (rel abs : Rat) (a b : Rat) : Bool :=
  let d := if a ≤ b then b - a else a - b
  let ma := if 0 ≤ a then a else -a
  let mb := if 0 ≤ b then b else -b
  let m := if ma ≤ mb then mb else ma
  let t := if rel * m ≤ abs then abs else rel * m
  decide (d ≤ t)

/-! ## cell-level instances -/

/-- `importance.py: Importance.__getitem__` (`KeyError` ↦ 0.0) -/
def impGet (es : List ImpE) (p : P) : Rat :=
  match es.find? (fun e => e.p == p) with
  | some e => e.v
  | none => 0

/-- `importance.py: Importance.__contains__` -/
def impHas (es : List ImpE) (p : P) : Bool := es.any (fun e => e.p == p)

/-- `has_information` of the cell-level instance of each class
    (`importance.py`, `volume.py`, `universe_input.py`, `lattice_input.py`, `fill.py`) -/
def hasInformation (c : Cell) : K → Bool
  | .imp => true
  | .vol => c.vol.isSome
  | .u => match c.uni with | some n => n != 0 | none => false
  | .lat => c.lat.isSome
  | .fill => c.fill.isSome || c.fillMulti

/-- `cell_modifier.py: CellModifierInput._is_worth_printing` -/
def isWorthPrinting (inCellBlock : Bool) (cells : List Cell) (c : Cell) (k : K) : Bool :=
  if inCellBlock then hasInformation c k else cells.any (fun d => hasInformation d k)

/-- `cell_modifier.py: CellModifierInput.format_for_mcnp_input`: the printing rule
    `(self.in_cell_block != print_in_data_block) and self._is_worth_printing` -/
def prints (inCellBlock printInDataBlock worth : Bool) : Bool :=
  (inCellBlock != printInDataBlock) && worth

/-- `importance.py: Importance._format_tree`, cell-block branch: the particles that are left in the
    classifier of `e`'s tree — itself (if named), and every other one that is not printed yet and whose
    importance is close -/
def impKeep (close : Rat → Rat → Bool) (es : List ImpE) (printed : List P) (e : ImpE) : List P :=
  e.cl.filter (fun o => o == e.p || (!printed.contains o && close (impGet es e.p) (impGet es o)))

/-- `importance.py: Importance._format_tree`, cell-block branch: the loop over `self` -/
def impFormatCell (close : Rat → Rat → Bool) (es : List ImpE) : List ImpE → List P → List MParam
  | [], _ => []
  | e :: rest, printed =>
    if printed.contains e.p then impFormatCell close es rest printed
    else
      let keep := impKeep close es printed e
      ⟨K.imp, keep, e.v⟩ :: impFormatCell close es rest (printed ++ keep ++ [e.p])

/-- the value a cell-level instance prints (`_update_cell_values` of each class) -/
def cellValue (c : Cell) : K → Option Rat
  | .imp => none
  | .vol => c.vol
  | .u => c.uni.map (fun n => if c.ntr then -(n : Rat) else (n : Rat))
  | .lat => c.lat.map (fun n => (n : Rat))
  | .fill => some ((c.fill.getD 0 : Nat) : Rat)

/-- `format_for_mcnp_input` of the cell-level instance of class `k` (as parameters of the cell card) -/
def formatCellInst (close : Rat → Rat → Bool) (flags : Flags) (c : Cell) (k : K) : List MParam :=
  if prints true (flags.get k) (hasInformation c k) then
    match k with
    | .imp => impFormatCell close c.imp c.imp []
    | _ => match cellValue c k with
      | some v => [⟨k, [], v⟩]
      | none => []
  else []

/-- `cell.py: Cell.format_for_mcnp_input`, the parameter loop: every modifier class has a node in the cell's
    parameters (parsed, or the default tree appended by `_parse_keyword_modifiers`), importance is printed once -/
def formatCell (close : Rat → Rat → Bool) (flags : Flags) (c : Cell) : MItem :=
  .cell c.number (K.all.flatMap (formatCellInst close flags c))

/-! ## the cell's parameters tree: which modifier classes have a node in it

`Cell.format_for_mcnp_input` prints the cell-level modifiers only by walking `cell._tree["parameters"]`: a class
without a node there is never printed on the card, whatever its flag and its value.  A card may carry any OTHER
parameters (NONU, UNC:n, TMP1, …) next to the five classes; the keys are strings (lists of characters). -/

/-- one entry of `cell._tree["parameters"].nodes` as parsed: the key (`syntax_node.py: ParametersNode.append`:
    prefix + number + particles, lower case) and the classifier's prefix (lower case) -/
structure Param where
  key : List Char
  pfx : List Char
  deriving Repr, DecidableEq

/-- Python `pat in s` on strings -/
def hasInfix (pat : List Char) : List Char → Bool
  | [] => pat.isPrefixOf []
  | c :: t => pat.isPrefixOf (c :: t) || hasInfix pat t

/-- `_class_prefix()` as characters (`K.pfx`, see `K.pfxC_eq`) -/
def K.pfxC : K → List Char
  | .imp => ['i', 'm', 'p'] | .vol => ['v', 'o', 'l'] | .u => ['u'] | .lat => ['l', 'a', 't'] | .fill => ['f', 'i', 'l', 'l']

/-- `cell.py: Cell._parse_keyword_modifiers`, first loop: `found_class_prefixes` (the classes given on the card) -/
def foundClassPrefixes (ps : List Param) : List K :=
  K.all.filter (fun k => ps.any (fun p => p.pfx == k.pfxC))

/-- `cell.py: Cell._parse_keyword_modifiers`, second loop ("Add defaults to tree"): the classes whose blank tree is
    appended to the parameters: every class not found on the card; for IMP only if no key contains `imp` -/
def defaultsAppended (ps : List Param) : List K :=
  K.all.filter (fun k =>
    !(foundClassPrefixes ps).contains k &&
      (if k == K.imp then !(ps.any (fun p => hasInfix K.imp.pfxC p.key)) else true))

/-- the modifier classes with a node in the parameters tree after `_parse_keyword_modifiers` -/
def slots (ps : List Param) : List K :=
  K.all.filter (fun k => (foundClassPrefixes ps).contains k || (defaultsAppended ps).contains k)

/-- `cell.py: Cell.format_for_mcnp_input`, the parameter loop as it is: only the classes with a node in the tree are
    reached (the order on the card is the tree's; cards are compared as sets of parameters) -/
def formatCellTree (close : Rat → Rat → Bool) (flags : Flags) (c : Cell) (ps : List Param) : MItem :=
  .cell c.number ((slots ps).flatMap (formatCellInst close flags c))

/-- every key that contains `imp` belongs to an IMP parameter (true of every key over the lexer's keyword table) -/
def impKeysAreImp (ps : List Param) : Bool :=
  ps.all (fun p => !hasInfix K.imp.pfxC p.key || p.pfx == K.imp.pfxC)

/-! ## data-level instances -/

/-- `_tree_value` of the cell-level instance, as collected by `cell_modifier.py: _collect_new_values`
    (`universe_input.py: _collect_new_values` turns universe 0 into a jump; `fill.py: _tree_value` raises
    for a fill with a transform or a matrix) -/
def treeValue (c : Cell) : K → Except Err (Option Rat)
  | .imp => .ok none
  | .vol => .ok c.vol
  | .u => .ok (match c.uni with
      | some n => if n == 0 then none else some (if c.ntr then -(n : Rat) else (n : Rat))
      | none => none)
  | .lat => .ok (c.lat.map (fun n => (n : Rat)))
  | .fill => if c.fillComplex || c.fillMulti then .error .valueError else .ok (c.fill.map (fun n => (n : Rat)))

/-- `cell_modifier.py: CellModifierInput._collect_new_values`: in CELL ORDER -/
def collectNewValues (k : K) : List Cell → Except Err (List (Option Rat))
  | [] => .ok []
  | c :: rest =>
    match treeValue c k with
    | .error e => .error e
    | .ok v => match collectNewValues k rest with
      | .error e => .error e
      | .ok vs => .ok (v :: vs)

/-- `importance.py: Importance._collect_new_values`, inner loop: the values of one particle in cell order;
    a cell that holds no importance for it raises `ParticleTypeNotInCell` -/
def impCollectOne (p : P) : List Cell → Except Err (List Rat)
  | [] => .ok []
  | c :: rest =>
    match c.imp.find? (fun e => e.p == p) with
    | none => .error .particleTypeNotInCell
    | some e => match impCollectOne p rest with
      | .error er => .error er
      | .ok vs => .ok (e.v :: vs)

/-- `importance.py: Importance._collect_new_values`, the `particle_pairings` of one particle: the running
    intersection of the classifier sets, restarted whenever it is empty (as coded) -/
def impPairings (p : P) : List Cell → List P → List P
  | [], acc => acc
  | c :: rest, acc =>
    let cl := match c.imp.find? (fun e => e.p == p) with | some e => e.cl | none => []
    impPairings p rest (if acc.isEmpty then cl else acc.filter (fun x => cl.contains x))

/-- `importance.py: Importance._collect_new_values`, outer loop over `problem.mode.particles` -/
def impCollect (cells : List Cell) : List P → Except Err (List (P × List Rat × List P))
  | [] => .ok []
  | p :: rest =>
    match impCollectOne p cells with
    | .error e => .error e
    | .ok vs => match impCollect cells rest with
      | .error e => .error e
      | .ok r => .ok ((p, vs, impPairings p cells []) :: r)

/-- element-wise `math.isclose` over `zip(gold, test_vals)` -/
def allClose (close : Rat → Rat → Bool) : List Rat → List Rat → Bool
  | a :: as, b :: bs => close a b && allClose close as bs
  | _, _ => true

/-- `new_vals[test_part]` of the `defaultdict(list)` -/
def newVals (nv : List (P × List Rat × List P)) (p : P) : List Rat :=
  match nv.find? (fun x => x.1 == p) with
  | some x => x.2.1
  | none => []

/-- `importance.py: Importance._try_combine_values`, inner loop over `pairings` -/
def combineInner (close : Rat → Rat → Bool) (nv : List (P × List Rat × List P)) (p : P) (gold : List Rat) :
    List P → List P → List P
  | [], _ => []
  | t :: rest, covered =>
    if t == p || covered.contains t then combineInner close nv p gold rest covered
    else if allClose close gold (newVals nv t) then t :: combineInner close nv p gold rest (covered ++ [t])
    else combineInner close nv p gold rest covered

/-- `importance.py: Importance._try_combine_values`, outer loop: (matching particles, gold vector) -/
def tryCombineValues (close : Rat → Rat → Bool) (nv : List (P × List Rat × List P)) :
    List (P × List Rat × List P) → List P → List (List P × List Rat)
  | [], _ => []
  | (p, gold, pair) :: rest, covered =>
    if covered.contains p then tryCombineValues close nv rest covered
    else
      let m := combineInner close nv p gold pair (covered ++ [p])
      (p :: m, gold) :: tryCombineValues close nv rest (covered ++ [p] ++ m)

/-! ### the data-block trees are objects: `_real_tree` maps every particle to ITS tree

`_update_values` writes, for every set of particles printed together, the set and the gold vector into the tree of
every particle of the set (creating the tree of a particle that has none yet); `_format_tree` then walks
`_real_tree` and prints each tree whose particle is not printed yet.  If two particles shared one tree the second
write would overwrite the first: identity is state, so it is modelled (tree identities are natural numbers). -/

/-- `self._real_tree[particle]` (identity of the tree) -/
def rtId (rt : List (P × Nat)) (p : P) : Option Nat := (rt.find? (fun x => x.1 == p)).map (·.2)

/-- `importance.py: Importance._update_values`, `if particle not in self._real_tree: … = _generate_default_data_tree(particle)`:
    every particle met that has no tree yet gets a NEW one (identities never change afterwards, so allocating first
    and writing second is the interleaved loop of the code) -/
def allocate : List (P × Nat) → Nat → List P → List (P × Nat) × Nat
  | rt, n, [] => (rt, n)
  | rt, n, p :: ps => if rt.any (fun x => x.1 == p) then allocate rt n ps else allocate (rt ++ [(p, n)]) (n + 1) ps

/-- `importance.py: Importance._update_values`: the sequence of writes `(tree identity, (particle set, vector))` -/
def impWrites (rt : List (P × Nat)) (gs : List (List P × List Rat)) : List (Nat × (List P × List Rat)) :=
  gs.flatMap (fun g => g.1.filterMap (fun p => (rtId rt p).map (fun t => (t, g))))

/-- what a tree holds after all the writes: the last one wins -/
def treeAfter (writes : List (Nat × (List P × List Rat))) (t : Nat) : Option (List P × List Rat) :=
  ((writes.filter (fun w => w.1 == t)).getLast?).map (·.2)

/-- `importance.py: Importance._format_tree`, data-block branch: the loop over `self._real_tree.items()` with
    `printed_parts` (a tree that no set wrote to — a particle outside the mode — is not modelled: skipped) -/
def impFormatTreeData (writes : List (Nat × (List P × List Rat))) : List (P × Nat) → List P → List (List P × List Rat)
  | [], _ => []
  | (p, t) :: rest, printed =>
    if printed.contains p then impFormatTreeData writes rest printed
    else match treeAfter writes t with
      | some g => g :: impFormatTreeData writes rest (printed ++ g.1)
      | none => impFormatTreeData writes rest printed

/-- the sets of particles printed together and their vectors (`_collect_new_values` → `_try_combine_values`) -/
def impGroups (close : Rat → Rat → Bool) (st : St) : Except Err (List (List P × List Rat)) :=
  match impCollect st.cells st.mode with
  | .error e => .error e
  | .ok nv => .ok (tryCombineValues close nv nv [])

/-- `_real_tree` after `_update_values` -/
def impRealTreeAfter (st : St) (gs : List (List P × List Rat)) : List (P × Nat) × Nat :=
  allocate st.realTree st.nextId (gs.flatMap (·.1))

/-- `importance.py: Importance._update_values` + `_format_tree`, data-block branch -/
def impFormatData (close : Rat → Rat → Bool) (st : St) : Except Err (List MCard) :=
  match impGroups close st with
  | .error e => .error e
  | .ok gs =>
    let rt := (impRealTreeAfter st gs).1
    .ok ((impFormatTreeData (impWrites rt gs) rt []).map (fun g => ⟨K.imp, g.1, g.2.map some, false⟩))

/-- `format_for_mcnp_input` of the data-level instance of class `k`
    (`volume.py: Volume._update_values` adds the `NO` keyword when `not is_mcnp_calculated`) -/
def formatDataInst (close : Rat → Rat → Bool) (st : St) (k : K) : Except Err (List MCard) :=
  if prints false (st.flags.get k) (st.cells.any (fun d => hasInformation d k)) then
    match k with
    | .imp => impFormatData close st
    | _ => match collectNewValues k st.cells with
      | .error e => .error e
      | .ok vs => .ok [⟨k, [], vs, k == K.vol && !st.volCalc⟩]
  else .ok []

/-- format a list of classes, stopping at the first error -/
def formatDataInsts (close : Rat → Rat → Bool) (st : St) : List K → Except Err (List MItem)
  | [] => .ok []
  | k :: rest =>
    match formatDataInst close st k with
    | .error e => .error e
    | .ok cs => match formatDataInsts close st rest with
      | .error e => .error e
      | .ok r => .ok (cs.map MItem.data ++ r)

/-- `mcnp_problem.py: write_to_file`, the loop over `self.data_inputs` -/
def formatDataInputs (close : Rat → Rat → Bool) (st : St) : List (Option K) → Except Err (List MItem)
  | [] => .ok []
  | none :: rest =>
    match formatDataInputs close st rest with
    | .error e => .error e
    | .ok r => .ok (MItem.other :: r)
  | some k :: rest =>
    match formatDataInst close st k with
    | .error e => .error e
    | .ok cs => match formatDataInputs close st rest with
      | .error e => .error e
      | .ok r => .ok (cs.map MItem.data ++ r)

/-- `cells.py: Cells._run_children_format_for_mcnp`: the data-level instances that are not in `data_inputs`,
    in the order of `_INPUTS_TO_PROPERTY` -/
def runChildrenFormat (close : Rat → Rat → Bool) (st : St) : Except Err (List MItem) :=
  formatDataInsts close st (K.all.filter (fun k => !st.dataInputs.contains (some k)))

/-- `mcnp_problem.py: MCNP_Problem.write_to_file` (the repaired writer: the cell block and its blank line, the
    surface block and its blank line, the data inputs, THEN the modifier cards that are not data inputs, and only
    then the blank line that ends the data block). The cells are formatted first: nothing is modelled of what an
    error leaves behind (that is C15). -/
def writeToFile (close : Rat → Rat → Bool) (st : St) : Except Err (List MItem) :=
  let cells := st.cells.map (formatCell close st.flags)
  match formatDataInputs close st st.dataInputs with
  | .error e => .error e
  | .ok d => match runChildrenFormat close st with
    | .error e => .error e
    | .ok m => .ok (cells ++ [MItem.blank] ++ [MItem.other] ++ [MItem.blank] ++ d ++ m ++ [MItem.blank])

/-- does the data-level Importance run `_update_values` in this write? -/
def impDataPrints (st : St) : Bool := prints false st.flags.imp (st.cells.any (fun d => hasInformation d K.imp))

/-- the state after `write_to_file`: formatting creates the data-block trees of particles that had none
    (a write that raises leaves the state alone in the model: what an error leaves behind is C15's business) -/
def afterWrite (close : Rat → Rat → Bool) (st : St) : St :=
  match writeToFile close st with
  | .error _ => st
  | .ok _ =>
    if impDataPrints st then
      match impGroups close st with
      | .ok gs => { st with realTree := (impRealTreeAfter st gs).1, nextId := (impRealTreeAfter st gs).2 }
      | .error _ => st
    else st

/-! ## loading: `cells.py: Cells.update_pointers` / `__setup_blank_cell_modifiers`, `push_to_cells`, `_clear_data` -/

/-- what the parser hands over for one class: per cell the value given on the cell card, and the data-block
    vector (if there is such a card) -/
structure Parsed where
  cellVals : List (Option Rat)            -- per cell: `KEY=value` given on the card (`set_in_cell_block`)
  dataVec : Option (List (Option Rat))    -- the data-block card, entries expanded

/-- `cell_modifier.py: CellModifierInput._check_redundant_definitions` -/
def checkRedundantDefinitions (pr : Parsed) : Bool := pr.cellVals.any (·.isSome)

/-- `push_to_cells` of VOL / U / LAT / FILL: entry `i` goes to cell `i` (zip: extra entries are dropped, missing
    ones leave the cell alone, jumps leave the cell alone); data in both blocks is `MalformedInputError` -/
def pushToCells (pr : Parsed) : Except Err (List (Option Rat)) :=
  match pr.dataVec with
  | none => .ok pr.cellVals
  | some vec =>
    if vec.isEmpty then .ok pr.cellVals
    else if checkRedundantDefinitions pr then .error .malformedInput
    else .ok ((List.range pr.cellVals.length).map (fun i => (vec[i]?).join))

/-- `cells.py: Cells.update_pointers`: a class found in the data block sets `print_in_data_block[k] = True`;
    `cell_modifier.py: link_to_problem`: a class set on a cell card sets it to `False` -/
def loadFlag (pr : Parsed) (old : Bool) : Bool :=
  if pr.dataVec.isSome then true else if pr.cellVals.any (·.isSome) then false else old

/-! ## the API operations of a history -/

inductive Op where
  | setFlag (k : K) (b : Bool)
  | append (c : Cell)                   -- `problem.cells.append(cell)`
  | remove (i : Nat)                    -- `problem.cells.remove(cells[i])`
  | moveEnd (i : Nat)                   -- remove + append: the cell goes to the end
  | reorder (perm : List Nat)           -- `problem.cells = [cells[j] for j in perm]`
  | setImp (i : Nat) (ps : List P) (v : Rat)   -- `cell.importance[p] = v` for every p of ps (the harness sends one particle:
                                               -- a particle that shares a parsed tree gets its own copy first, the others keep theirs)
  | setImpAll (i : Nat) (v : Rat)       -- `cell.importance.all = v`
  | setVol (i : Nat) (v : Option Rat)   -- `cell.volume = v` / `del cell.volume`
  | setUni (i : Nat) (n : Nat)          -- `cell.universe = Universe(n)`
  | setNtr (i : Nat) (b : Bool)         -- `cell.not_truncated = b`
  | setLat (i : Nat) (v : Option Nat)
  | setFill (i : Nat) (v : Option Nat)
  | setVolCalc (b : Bool)               -- `cells.allow_mcnp_volume_calc = b`
  | write                               -- `problem.write_to_file(...)`: an observation that mutates (creates trees)
  | observe                             -- `str(cell)`, `repr`, `cell.format_for_mcnp_input`: no effect on the state
  deriving Repr

def modifyAt (cells : List Cell) (i : Nat) (f : Cell → Cell) : List Cell :=
  match cells[i]? with
  | some c => cells.set i (f c)
  | none => cells

/-- `importance.py: Importance.__setitem__`: the particle's entry gets the value; a particle without an entry
    gets a default tree that names this particle only -/
def impSet (es : List ImpE) (p : P) (v : Rat) : List ImpE :=
  if impHas es p then es.map (fun e => if e.p == p then { e with v := v } else e)
  else es ++ [⟨p, v, [p]⟩]

/-- `cell.py: Cell.link_to_problem` → `cell_modifier.py: CellModifierInput.link_to_problem`: linking a cell whose
    datum of class `k` was set on its card sets `print_in_data_block[k] = False` (every `append` links) -/
def linkFlags (f : Flags) (c : Cell) : Flags :=
  K.all.foldl (fun g k => if c.setIn.get k then g.set k false else g) f

/-- one operation; operations on a position that does not exist raise and leave the state alone -/
def step (close : Rat → Rat → Bool) (st : St) : Op → St × Option Err
  | .write => (afterWrite close st, none)
  | .observe => (st, none)
  | .setFlag k b => ({ st with flags := st.flags.set k b }, none)
  | .append c =>
    if st.cells.any (fun d => d.number == c.number) then (st, some .numberConflict)
    else ({ st with cells := st.cells ++ [c], flags := linkFlags st.flags c }, none)
  | .remove i =>
    if i < st.cells.length then ({ st with cells := st.cells.eraseIdx i }, none) else (st, some .indexError)
  | .moveEnd i =>
    match st.cells[i]? with
    | some c => ({ st with cells := st.cells.eraseIdx i ++ [c], flags := linkFlags st.flags c }, none)
    | none => (st, some .indexError)
  | .reorder perm =>
    -- `problem.cells = [...]`: clear, then extend (a list with a repeated or missing position is the caller's
    -- business; the collection refuses duplicates: modelled for permutations of positions only)
    if perm.all (fun j => j < st.cells.length) && perm.eraseDups.length == perm.length then
      let cs := perm.filterMap (fun j => st.cells[j]?)
      ({ st with cells := cs, flags := cs.foldl linkFlags st.flags }, none)
    else (st, some .numberConflict)
  | .setImp i ps v =>
    if i < st.cells.length then
      ({ st with cells := modifyAt st.cells i (fun c => { c with imp := ps.foldl (fun es p => impSet es p v) c.imp }) }, none)
    else (st, some .indexError)
  | .setImpAll i v =>
    -- `importance.py: all.setter`: every particle of the mode, through `__setitem__` (a particle without an
    -- entry gets one; a particle outside the mode keeps its value)
    if i < st.cells.length then
      ({ st with cells := modifyAt st.cells i (fun c => { c with imp := st.mode.foldl (fun es p => impSet es p v) c.imp }) }, none)
    else (st, some .indexError)
  | .setVol i v => ({ st with cells := modifyAt st.cells i (fun c => { c with vol := v }) }, none)
  | .setUni i n => ({ st with cells := modifyAt st.cells i (fun c => { c with uni := some n }) }, none)
  | .setNtr i b => ({ st with cells := modifyAt st.cells i (fun c => { c with ntr := b }) }, none)
  | .setLat i v => ({ st with cells := modifyAt st.cells i (fun c => { c with lat := v }) }, none)
  | .setFill i v => ({ st with cells := modifyAt st.cells i (fun c => { c with fill := v }) }, none)
  | .setVolCalc b => ({ st with volCalc := b }, none)

def run (close : Rat → Rat → Bool) (st : St) (ops : List Op) : St := ops.foldl (fun s o => (step close s o).1) st

end MontePyVerif.CellData
