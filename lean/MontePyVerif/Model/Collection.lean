/-!
# Model of `montepy/numbered_object_collection.py` (NumberedObjectCollection) and of the
number setters of its member classes (C06, also used by C04, C14).

One Lean definition per Python method; mutation becomes a function returning the new state.
Python objects are `ObjId`s; their mutable `number` lives in `St.num`; `_problem` back-pointers
are `St.link`.  The private `__num_cache` dict is an association list with Python `dict`
semantics (`dset` = `d[k] = v`, `dpop` = `d.pop(k, None)`, `dget` = `d[k]`).

Every step returns the state *at the point where Python stops* (normally or by raising), so that
"an operation that raises leaves the collection unchanged" is a statement about this model.
No imports: the file is used by the compiled driver.
-/

namespace MontePyVerif.Collection

abbrev ObjId := Nat
abbrev Cache := List (Int × ObjId)

/-- `d[k] = v` on an insertion-ordered dict. -/
def dset : Cache → Int → ObjId → Cache
  | [], k, v => [(k, v)]
  | (k', v') :: t, k, v => if k' = k then (k, v) :: t else (k', v') :: dset t k v

/-- `d.pop(k, None)` -/
def dpop (c : Cache) (k : Int) : Cache := c.filter (fun p => p.1 ≠ k)

/-- `d[k]` (`none` = KeyError) -/
def dget : Cache → Int → Option ObjId
  | [], _ => none
  | (k', v') :: t, k => if k' = k then some v' else dget t k

inductive Err | typeError | valueError | numberConflict | keyError | indexError
  deriving DecidableEq, Repr

structure St where
  /-- `collection._problem` is set: this collection is `problem.<cells|surfaces|...>` -/
  owned : Bool
  objs  : List ObjId
  cache : Cache
  num   : ObjId → Int
  /-- `obj._problem` is the problem owning this collection -/
  link  : ObjId → Bool
  /-- value class of an object for Python `==`: `Surface.__eq__` / `Material.__eq__` compare number and
      content (type, constants, components), so two distinct objects are `==` iff they have the same
      content class and currently the same number; classes without `__eq__` have one class per object -/
  content : ObjId → Nat := id

inductive Out
  | ok
  | int (n : Int)
  | obj (o : Option ObjId)
  | ints (ns : List Int)
  | objsOut (os : List ObjId)
  | bool (b : Bool)
  | err (e : Err)
  /-- the Python call does not return (only `request_number` with `step = 0` on a taken number,
      before the repair; kept so that the model stays total) -/
  | hang
  deriving DecidableEq, Repr

def Out.int? : Out → Option Int
  | .int n => some n
  | _ => none

/-- `x in self.numbers`: the generator refreshes the cache as it goes and is abandoned at the first hit. -/
def scan (num : ObjId → Int) : List ObjId → Cache → Int → Cache × Bool
  | [], c, _ => (c, false)
  | o :: t, c, n =>
    let c' := dset c (num o) o
    if num o = n then (c', true) else scan num t c' n

/-- `list(self.numbers)` consumed to the end. -/
def refresh (num : ObjId → Int) : List ObjId → Cache → Cache
  | [], c => c
  | o :: t, c => refresh num t (dset c (num o) o)

def firstWith (num : ObjId → Int) : List ObjId → Int → Option ObjId
  | [], _ => none
  | o :: t, n => if num o = n then some o else firstWith num t n

/-- the linear search of `NumberedObjectCollection.get` (cache miss or stale entry) -/
def getSlow (s : St) (i : Int) : St × Option ObjId :=
  match firstWith s.num s.objs i with
  | some o => ({ s with cache := dset s.cache i o }, some o)
  | none => (s, none)

/-- `NumberedObjectCollection.get` -/
def get (s : St) (i : Int) : St × Option ObjId :=
  match dget s.cache i with
  | some r => if s.num r = i then (s, some r) else getSlow s i
  | none => getSlow s i

/-- the f-string of a NumberConflictError evaluates `self[obj.number]`, i.e. one more `get`. -/
def conflict (s : St) (n : Int) : St × Out := ((get s n).1, .err .numberConflict)

/-- `obj.number in self.numbers` as a state transformer. -/
def inNumbers (s : St) (n : Int) : St × Bool :=
  let r := scan s.num s.objs s.cache n
  ({ s with cache := r.1 }, r.2)

/-- `NumberedObjectCollection.append` (the `isinstance` test is done by the caller of the model). -/
def append (s : St) (o : ObjId) : St × Out :=
  let (s1, found) := inNumbers s (s.num o)
  if found then conflict s1 (s.num o)
  else
    ({ s1 with cache := dset s1.cache (s.num o) o, objs := s1.objs ++ [o],
               link := fun x => if x = o ∧ s.owned then true else s1.link x }, .ok)

/-- `NumberedObjectCollection.check_number` -/
def checkNumber (s : St) (n : Int) : St × Out :=
  let (s1, found) := inNumbers s n
  if found then conflict s1 n else (s1, .ok)

/-- The validators `_number_validator` (cell, material), `_enforce_numbers` (surface),
    `_enforce_number` (transform) and the body of `Universe.number.setter`. -/
def setNumber (s : St) (o : ObjId) (n : Int) : St × Out :=
  if n ≤ 0 then (s, .err .valueError)
  else
    if s.link o then
      let r := checkNumber s n
      if r.2 = .ok then ({ r.1 with num := fun x => if x = o then n else r.1.num x }, .ok) else r
    else ({ s with num := fun x => if x = o then n else s.num x }, .ok)

/-- `while number in self.numbers: number += step` with explicit fuel. -/
def requestLoop (step : Int) : Nat → St → Int → St × Option Int
  | 0, s, _ => (s, none)
  | fuel + 1, s, n =>
    let (s1, found) := inNumbers s n
    if found then requestLoop step fuel s1 (n + step) else (s1, some n)

/-- `NumberedObjectCollection.request_number`; `step = 0` is rejected (repaired code). -/
def requestNumber (s : St) (start step : Int) : St × Out :=
  if step = 0 then (s, .err .valueError)
  else
    match requestLoop step (s.objs.length + 1) s start with
    | (s1, some n) => (s1, .int n)
    | (s1, none) => (s1, .hang)

def maxOf : List Int → Option Int
  | [] => none
  | x :: t => match maxOf t with
    | none => some x
    | some m => some (if m < x then x else m)

/-- `NumberedObjectCollection.next_number`; an empty collection counts from 0 (repaired code). -/
def nextNumber (s : St) (step : Int) : St × Out :=
  if step ≤ 0 then (s, .err .valueError)
  else
    let s1 := { s with cache := refresh s.num s.objs s.cache }
    match maxOf (s.objs.map s.num) with
    | none => (s1, .int step)
    | some m => (s1, .int (m + step))

/-- `NumberedObjectCollection.append_renumber` (an object that is already a member is left alone; the number is found
    before anything changes, so a failing call — `step = 0`, or a step that leads to no number above 0 — leaves the
    object unlinked: repaired code, was finding C14-F1). -/
def appendRenumber (s : St) (o : ObjId) (step : Int) : St × Out :=
  if o ∈ s.objs then (s, .int (s.num o))
  else
    let number := s.num o
    let r0 := checkNumber s number
    if r0.2 = .ok then
      let r1 := append r0.1 o
      if r1.2 = .ok then (r1.1, .int number) else r1
    else
      let r2 := requestNumber r0.1 number step
      match r2.2.int? with
      | some n =>
        if n ≤ 0 then (r2.1, .err .valueError)
        else
          let s3 := { r2.1 with link := fun x => if x = o ∧ s.owned then true else r2.1.link x }
          let r3 := setNumber s3 o n
          if r3.2 = .ok then
            let r4 := append r3.1 o
            if r4.2 = .ok then (r4.1, .int n) else r4
          else r3
      | none => r2

/-- checking loop of `extend` (`ghost = true`) and `__iadd__` (`ghost = false`), repaired code: every
    candidate is checked against the members *and* against the candidates before it.  `extend`
    drops a stale cache entry for each accepted number on the way ("if this number is a ghost;
    remove it"). -/
def checkAllC (ghost : Bool) (num : ObjId → Int) (objs : List ObjId) : Cache → List ObjId → List Int → Cache × Option Int
  | c, [], _ => (c, none)
  | c, o :: t, seen =>
    let r := scan num objs c (num o)
    if r.2 = true ∨ num o ∈ seen then (r.1, some (num o))
    else checkAllC ghost num objs (if ghost then dpop r.1 (num o) else r.1) t (num o :: seen)

def checkAll (ghost : Bool) (s : St) (os : List ObjId) : St × Option Int :=
  let r := checkAllC ghost s.num s.objs s.cache os []
  ({ s with cache := r.1 }, r.2)

/-- `NumberedObjectCollection.extend` -/
def extend (s : St) (os : List ObjId) : St × Out :=
  match checkAll true s os with
  | (s1, some n) => conflict s1 n
  | (s1, none) =>
    ({ s1 with objs := s1.objs ++ os,
               link := fun x => if x ∈ os ∧ s.owned then true else s1.link x }, .ok)

def setAll (num : ObjId → Int) (c : Cache) : List ObjId → Cache
  | [] => c
  | o :: t => setAll num (dset c (num o) o) t

/-- `NumberedObjectCollection.__iadd__` -/
def iadd (s : St) (os : List ObjId) : St × Out :=
  match checkAll false s os with
  | (s1, some n) => conflict s1 n
  | (s1, none) =>
    ({ s1 with cache := setAll s.num s1.cache os, objs := s1.objs ++ os,
               link := fun x => if x ∈ os ∧ s.owned then true else s1.link x }, .ok)

/-- repaired code: `pop`, `remove`, `__delitem__` drop *every* cache entry that points at the
    departing object, under whatever number it was cached. -/
def evict (c : Cache) (o : ObjId) : Cache := c.filter (fun p => p.2 ≠ o)

/-- Python list index normalisation for `list.pop(pos)`. -/
def pyIndex (len : Nat) (pos : Int) : Option Nat :=
  if 0 ≤ pos then (if pos.toNat < len then some pos.toNat else none)
  else (if (-pos).toNat ≤ len then some (len - (-pos).toNat) else none)

/-- `NumberedObjectCollection.pop` -/
def pop (s : St) (pos : Int) : St × Out :=
  match pyIndex s.objs.length pos with
  | none => (s, .err .indexError)
  | some i =>
    match s.objs[i]? with
    | none => (s, .err .indexError)
    | some o => ({ s with objs := s.objs.eraseIdx i, cache := evict s.cache o }, .obj (some o))

/-- Python `a == b` on members (see `St.content`) -/
def eqv (s : St) (a b : ObjId) : Bool := a = b || (s.content a = s.content b && s.num a = s.num b)

/-- `list.index(x)`: the first member that is `==` x -/
def firstEqv (s : St) (o : ObjId) : List ObjId → Option ObjId
  | [] => none
  | m :: t => if eqv s m o then some m else firstEqv s o t

/-- the member that *is* the object (repaired code, C16 e2abfcd: `remove` and `in` go by identity, an equal
    copy of a member is not a member) -/
def firstIs (o : ObjId) (l : List ObjId) : Option ObjId := if l.contains o then some o else none

/-- `NumberedObjectCollection.remove` (repaired code): the member that is the object is popped and its
    cache entries are dropped; `ValueError` when the object is not a member. -/
def remove (s : St) (o : ObjId) : St × Out :=
  match firstIs o s.objs with
  | some m => ({ s with cache := evict s.cache m, objs := s.objs.erase m }, .ok)
  | none => (s, .err .valueError)

/-- `NumberedObjectCollection.__delitem__` -/
def delitem (s : St) (n : Int) : St × Out :=
  match get s n with
  | (s1, none) => (s1, .err .keyError)
  | (s1, some o) =>
    -- `idx = self._objects.index(obj)`: the first member `==` obj (obj itself when numbers are unique)
    match firstEqv s1 o s1.objs with
    | some m => ({ s1 with cache := evict s1.cache o, objs := s1.objs.erase m }, .ok)
    | none => (s1, .err .valueError)

/-- `NumberedObjectCollection.clear` -/
def clear (s : St) : St × Out := ({ s with objs := [], cache := [] }, .ok)

/-- `NumberedObjectCollection.__getitem__` with an int -/
def getitem (s : St) (n : Int) : St × Out :=
  match get s n with
  | (s1, none) => (s1, .err .keyError)
  | (s1, some o) => (s1, .obj (some o))

/-- `range(start, stop, 1)` probing of `__get_slice` (forward, step 1), collecting `get` hits. -/
def sliceLoop : Nat → St → Int → List ObjId → St × List ObjId
  | 0, s, _, acc => (s, acc.reverse)
  | fuel + 1, s, n, acc =>
    match get s n with
    | (s1, some o) => sliceLoop fuel s1 (n + 1) (o :: acc)
    | (s1, none) => sliceLoop fuel s1 (n + 1) acc

/-- `collection[a:b]` (both ends given, step 1): the numbers of the new collection, in order. -/
def slice (s : St) (a b : Int) : St × Out :=
  let r := sliceLoop (b + 1 - a).toNat s a []
  (r.1, .objsOut r.2)

inductive Op
  | append (o : ObjId) | setitem (o : ObjId) | appendRenumber (o : ObjId) (step : Int)
  | extend (os : List ObjId) | iadd (os : List ObjId)
  | remove (o : ObjId) | pop (pos : Int) | delitem (n : Int) | clear
  | setNumber (o : ObjId) (n : Int)
  | get (n : Int) | getitem (n : Int) | contains (o : ObjId) | numbers | keys | items | len
  | checkNumber (n : Int) | requestNumber (start step : Int) | nextNumber (step : Int)
  | slice (a b : Int)
  deriving Repr

def step (s : St) : Op → St × Out
  | .append o => append s o
  | .setitem o => append s o
  | .appendRenumber o k => appendRenumber s o k
  | .extend os => extend s os
  | .iadd os => iadd s os
  | .remove o => remove s o
  | .pop p => pop s p
  | .delitem n => delitem s n
  | .clear => clear s
  | .setNumber o n => setNumber s o n
  | .get n => let r := get s n; (r.1, .obj r.2)
  | .getitem n => getitem s n
  | .contains o => (s, .bool ((firstIs o s.objs).isSome))
  | .numbers => ({ s with cache := refresh s.num s.objs s.cache }, .ints (s.objs.map s.num))
  | .keys => (s, .ints (s.objs.map s.num))
  | .items => (s, .objsOut s.objs)
  | .len => (s, .int s.objs.length)
  | .checkNumber n => checkNumber s n
  | .requestNumber a k => requestNumber s a k
  | .nextNumber k => nextNumber s k
  | .slice a b => slice s a b

def run (s : St) (ops : List Op) : St := ops.foldl (fun s op => (step s op).1) s

/-- `NumberedObjectCollection.__init__(objects=...)`: the cache is filled while checking. -/
def initLoop (num : ObjId → Int) : List ObjId → Cache → Option Cache
  | [], c => some c
  | o :: t, c => match dget c (num o) with
    | some _ => none
    | none => initLoop num t (dset c (num o) o)

def init (owned : Bool) (num : ObjId → Int) (os : List ObjId) (content : ObjId → Nat := id) : Option St :=
  match initLoop num os [] with
  | none => none
  | some c => some { owned, objs := os, cache := c, num, link := fun _ => false, content }

end MontePyVerif.Collection
