import MontePyVerif.Gen.Dedupe
/-!
# Model.Dedupe — duplicate-surface removal (property C18)

Mirrors, function by function, the MontePy code (after the `fix:` commits listed in known_findings.json):

* `montepy/data_inputs/transform.py:Transform.equivalent`
* `montepy/surfaces/surface.py:Surface.__eq__`, `Surface.find_duplicate_surfaces`
* `montepy/surfaces/axis_plane.py:AxisPlane.find_duplicate_surfaces`
* `montepy/surfaces/cylinder_on_axis.py:CylinderOnAxis.find_duplicate_surfaces`
* `montepy/surfaces/cylinder_par_axis.py:CylinderParAxis.find_duplicate_surfaces`
* `montepy/surfaces/half_space.py:HalfSpace.remove_duplicate_surfaces`, `HalfSpace._get_leaf_objects`,
  `UnitHalfSpace.remove_duplicate_surfaces`, `UnitHalfSpace.divider` (setter), `UnitHalfSpace._get_leaf_objects`
* `montepy/cell.py:Cell.remove_duplicate_surfaces`
* `montepy/mcnp_problem.py:MCNP_Problem.remove_duplicate_surfaces`

Numbers are exact rationals (a double enters as its exact value).  Python `set`/`dict` keyed by `Surface`
(`to_delete`, `matching_map`, the leaf sets) hash and compare by `Surface.__hash__/__eq__`; both contain the surface
number, and numbers are unique inside `problem.surfaces` (property C06), so they are modelled as sets / insertion-ordered
association lists keyed by the surface *number*.  Import-free apart from the generated table.
-/
namespace MontePyVerif.Dedupe

/-- `abs(x)` on Python floats, as coded in the comparisons `abs(a - b) < tolerance`. -/
def ratAbs (x : Rat) : Rat := if x < 0 then -x else x

/-- `abs(a - b) < tolerance` -/
def closeTo (tol a b : Rat) : Bool := decide (ratAbs (a - b) < tol)

/-- transform.py:Transform — the attributes `equivalent` reads. `disp` is the numpy array of exactly three entries
    (the constructor and the setter enforce 3), `rot` the 0..9 rotation entries as given. -/
structure Transform where
  number : Nat
  inDegrees : Bool
  mainToAux : Bool
  disp : Rat × Rat × Rat
  rot : List Rat
  deriving DecidableEq, Repr

/-- the loop `for i, component in enumerate(self.rotation_matrix): if abs(component - other.rotation_matrix[i]) >= tolerance: return False`
    run after the lengths were found equal; a missing partner entry (IndexError in Python) cannot occur then and is `false` here. -/
def rotClose (tol : Rat) : List Rat → List Rat → Bool
  | [], _ => true
  | _ :: _, [] => false
  | x :: xs, y :: ys => closeTo tol x y && rotClose tol xs ys

/-- transform.py:Transform.equivalent (repaired: rotation matrices of different length are never equivalent) -/
def Transform.equivalent (self other : Transform) (tol : Rat) : Bool :=
  if self.inDegrees != other.inDegrees then false
  else if self.mainToAux != other.mainToAux then false
  else if !(closeTo tol self.disp.1 other.disp.1) then false
  else if !(closeTo tol self.disp.2.1 other.disp.2.1) then false
  else if !(closeTo tol self.disp.2.2 other.disp.2.2) then false
  else if self.rot.length != other.rot.length then false
  else rotClose tol self.rot other.rot

/-- the Python classes `surface_builder` can return -/
inductive SClass | axisPlane | cylinderOnAxis | cylinderParAxis | generalPlane | surface
  deriving DecidableEq, Repr

def SClass.ofName : String → SClass
  | "AxisPlane" => .axisPlane
  | "CylinderOnAxis" => .cylinderOnAxis
  | "CylinderParAxis" => .cylinderParAxis
  | "GeneralPlane" => .generalPlane
  | _ => .surface

/-- the row of the generated table for a mnemonic -/
def tableRow (stype : String) : Option (String × String × List Nat) :=
  Gen.Dedupe.surfaceClassTable.find? (fun r => r.1 == stype)

/-- surface_builder.py:surface_builder — the class an input of this mnemonic is built as (generated table) -/
def classOf (stype : String) : SClass :=
  match tableRow stype with
  | some r => SClass.ofName r.2.1
  | none => .surface

/-- the numbers of surface constants the class constructor accepts for this mnemonic (generated table) -/
def acceptedCounts (stype : String) : List Nat :=
  match tableRow stype with
  | some r => r.2.2
  | none => []

/-- surface.py:Surface — the attributes read by `__eq__` and the three `find_duplicate_surfaces`.
    `periodic` is the number of the live `periodic_surface` pointer, `transform` the live `transform` pointer. -/
structure Surface where
  number : Nat
  stype : String
  consts : List Rat
  transform : Option Transform
  periodic : Option Nat
  reflecting : Bool
  white : Bool
  deriving DecidableEq, Repr

/-- surface.py:Surface.__eq__ -/
def Surface.pyEq (a b : Surface) : Bool :=
  a.number == b.number && a.stype == b.stype && a.reflecting == b.reflecting && a.white == b.white
    && a.consts == b.consts

/-- constant `i` (`location`, `radius`, `coordinates[i]` are views of `surface_constants`) -/
def Surface.const (s : Surface) (i : Nat) : Rat := s.consts.getD i 0

/-- the common head of the three finders:
    `surface != self and surface.surface_type == self.surface_type and surface.is_reflecting == self.is_reflecting
     and surface.is_white_boundary == self.is_white_boundary` then `if surface.periodic_surface is None:` -/
def candidate (self surface : Surface) : Bool :=
  !(surface.pyEq self) && surface.stype == self.stype && surface.reflecting == self.reflecting
    && surface.white == self.white && surface.periodic.isNone

/-- the common tail of the three finders:
    `if self.transform: if surface.transform: if self.transform.equivalent(surface.transform, tolerance): append`
    `else: if surface.transform is None: append` -/
def transformMatch (self surface : Surface) (tol : Rat) : Bool :=
  match self.transform with
  | some t => match surface.transform with
    | some u => t.equivalent u tol
    | none => false
  | none => surface.transform.isNone

/-- axis_plane.py:AxisPlane.find_duplicate_surfaces -/
def axisPlaneFind (self : Surface) (surfaces : List Surface) (tol : Rat) : List Surface :=
  if self.periodic.isNone then
    surfaces.filter fun surface =>
      candidate self surface && closeTo tol (self.const 0) (surface.const 0) && transformMatch self surface tol
  else []

/-- cylinder_on_axis.py:CylinderOnAxis.find_duplicate_surfaces -/
def cylinderOnAxisFind (self : Surface) (surfaces : List Surface) (tol : Rat) : List Surface :=
  if self.periodic.isNone then
    surfaces.filter fun surface =>
      candidate self surface && closeTo tol (self.const 0) (surface.const 0) && transformMatch self surface tol
  else []

/-- cylinder_par_axis.py:CylinderParAxis.find_duplicate_surfaces (radius = constant 2, coordinates = constants 0, 1;
    `match` starts True and is cleared by every comparison `>= tolerance`) -/
def cylinderParAxisFind (self : Surface) (surfaces : List Surface) (tol : Rat) : List Surface :=
  if self.periodic.isNone then
    surfaces.filter fun surface =>
      candidate self surface
        && (closeTo tol (self.const 2) (surface.const 2) && closeTo tol (self.const 0) (surface.const 0)
            && closeTo tol (self.const 1) (surface.const 1))
        && transformMatch self surface tol
  else []

/-- dynamic dispatch of `surface.find_duplicate_surfaces(surfaces, tolerance)`;
    surface.py:Surface.find_duplicate_surfaces (base class, also GeneralPlane) returns `[]` -/
def findDuplicateSurfaces (self : Surface) (surfaces : List Surface) (tol : Rat) : List Surface :=
  match classOf self.stype with
  | .axisPlane => axisPlaneFind self surfaces tol
  | .cylinderOnAxis => cylinderOnAxisFind self surfaces tol
  | .cylinderParAxis => cylinderParAxisFind self surfaces tol
  | .generalPlane => []
  | .surface => []

/-! ## geometry trees -/

/-- half_space.py: `UnitHalfSpace` on a surface (`leaf number side`), `UnitHalfSpace` on a cell (`cellLeaf`),
    `HalfSpace` with operator `#`, `*` (blank) and `:` -/
inductive HS
  | leaf (surface : Nat) (side : Bool)
  | cellLeaf (cell : Nat)
  | compl (left : HS)
  | inter (left right : HS)
  | union (left right : HS)
  deriving DecidableEq, Repr

/-- half_space.py:HalfSpace._get_leaf_objects / UnitHalfSpace._get_leaf_objects — the surface half of the pair
    (a Python set; only membership is used) -/
def HS.surfaceLeaves : HS → List Nat
  | .leaf n _ => [n]
  | .cellLeaf _ => []
  | .compl l => l.surfaceLeaves
  | .inter l r => l.surfaceLeaves ++ r.surfaceLeaves
  | .union l r => l.surfaceLeaves ++ r.surfaceLeaves

/-- a Python dict with insertion order: `d[k] = v` -/
def dictSet (d : List (Nat × Nat)) (k v : Nat) : List (Nat × Nat) :=
  match d with
  | [] => [(k, v)]
  | (k', v') :: rest => if k' == k then (k, v) :: rest else (k', v') :: dictSet rest k v

/-- `new_deleting_dict = {dead: new for dead, new in deleting_dict.items() if dead in container}` -/
def restrictDict (d : List (Nat × Nat)) (container : List Nat) : List (Nat × Nat) :=
  d.filter fun p => container.contains p.1

/-- half_space.py:UnitHalfSpace.divider setter — `if div not in container: container.append(div)` on `cell.surfaces` -/
def appendIfNew (container : List Nat) (n : Nat) : List Nat :=
  if container.contains n then container else container ++ [n]

/-- half_space.py:HalfSpace.remove_duplicate_surfaces and UnitHalfSpace.remove_duplicate_surfaces.
    The second component is the owning cell's `cell.surfaces`, which the divider setter appends to. -/
def HS.removeDuplicateSurfaces (dict : List (Nat × Nat)) : HS → List Nat → HS × List Nat
  | .leaf n side, cs =>
    match dict.lookup n with
    | some t => (.leaf t side, appendIfNew cs t)
    | none => (.leaf n side, cs)
  | .cellLeaf c, cs => (.cellLeaf c, cs)
  | .compl l, cs =>
    let new := restrictDict dict l.surfaceLeaves
    if new.isEmpty then (.compl l, cs)
    else
      let r := l.removeDuplicateSurfaces new cs
      (.compl r.1, r.2)
  | .inter l r, cs =>
    let new := restrictDict dict (l.surfaceLeaves ++ r.surfaceLeaves)
    if new.isEmpty then (.inter l r, cs)
    else
      let a := l.removeDuplicateSurfaces new cs
      let b := r.removeDuplicateSurfaces new a.2
      (.inter a.1 b.1, b.2)
  | .union l r, cs =>
    let new := restrictDict dict (l.surfaceLeaves ++ r.surfaceLeaves)
    if new.isEmpty then (.union l r, cs)
    else
      let a := l.removeDuplicateSurfaces new cs
      let b := r.removeDuplicateSurfaces new a.2
      (.union a.1 b.1, b.2)

/-- cell.py:Cell — geometry and the `surfaces` collection (numbers, in order) -/
structure Cell where
  number : Nat
  geometry : HS
  surfaces : List Nat
  deriving DecidableEq, Repr

/-- cell.py:Cell.remove_duplicate_surfaces -/
def Cell.removeDuplicateSurfaces (c : Cell) (dict : List (Nat × Nat)) : Cell :=
  let new := restrictDict dict c.surfaces
  if new.isEmpty then c
  else
    let r := c.geometry.removeDuplicateSurfaces new c.surfaces
    -- `for dead_surface in new_deleting_dict: self.surfaces.remove(dead_surface)`
    { c with geometry := r.1, surfaces := r.2.filter fun n => !(new.map Prod.fst).contains n }

/-- the state of the first loop of `MCNP_Problem.remove_duplicate_surfaces` -/
structure LoopState where
  /-- `to_delete` (a set; kept in insertion order) -/
  toDelete : List Nat
  /-- `matching_map` (dict: removed ↦ survivor) -/
  map : List (Nat × Nat)
  deriving DecidableEq, Repr

/-- `for match in matches: to_delete.add(match); matching_map[match] = surface` -/
def recordMatches (st : LoopState) (self : Nat) (found : List Surface) : LoopState :=
  found.foldl (fun st m =>
    { toDelete := if st.toDelete.contains m.number then st.toDelete else st.toDelete ++ [m.number],
      map := dictSet st.map m.number self }) st

/-- one iteration of `for surface in self.surfaces: if surface not in to_delete: …` -/
def loopStep (surfaces : List Surface) (tol : Rat) (st : LoopState) (surface : Surface) : LoopState :=
  if st.toDelete.contains surface.number then st
  else recordMatches st surface.number (findDuplicateSurfaces surface surfaces tol)

/-- the first loop of mcnp_problem.py:MCNP_Problem.remove_duplicate_surfaces -/
def findAll (surfaces : List Surface) (tol : Rat) : LoopState :=
  surfaces.foldl (loopStep surfaces tol) { toDelete := [], map := [] }

/-- `partner = surface.periodic_surface; if partner is not None and partner in matching_map:
      surface._periodic_surface = matching_map[partner]` -/
def Surface.repointPeriodic (s : Surface) (map : List (Nat × Nat)) : Surface :=
  match s.periodic with
  | some q => match map.lookup q with
    | some t => { s with periodic := some t }
    | none => s
  | none => s

structure Problem where
  surfaces : List Surface
  cells : List Cell
  deriving DecidableEq, Repr

/-- mcnp_problem.py:MCNP_Problem.remove_duplicate_surfaces (repaired: no second link pass; periodic links of
    survivors follow a removed partner).  Returns the new problem and the loop state (for observation). -/
def Problem.removeDuplicateSurfaces (p : Problem) (tol : Rat) : Problem × LoopState :=
  let st := findAll p.surfaces tol
  let cells := p.cells.map fun c => c.removeDuplicateSurfaces st.map
  let surfaces := p.surfaces.map fun s => s.repointPeriodic st.map
  -- `for surface in to_delete: self._surfaces.remove(surface)`
  ({ surfaces := surfaces.filter fun s => !st.toDelete.contains s.number, cells := cells }, st)

end MontePyVerif.Dedupe
