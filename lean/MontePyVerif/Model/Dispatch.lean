import MontePyVerif.Gen.Tokens
import MontePyVerif.Gen.Registry
/-! # Model.Dispatch — the table-driven decisions on the path from a card to its object

One definition per Python function (the repaired code where a `fix:` commit exists).  The SLY regular
expressions and the LALR automaton are NOT modelled (DESIGN 1.2); what is modelled is every place where the code
decides by *looking a word up in a table*:

* `tokens.py`: the re-classification of a TEXT token as KEYWORD / PARTICLE / SURFACE_TYPE (three lexer classes);
* `data_inputs/data_parser.py:parse_data` with `PREFIX_MATCHES`, `data_input.py:DataInput._load_correct_parser`,
  `DataInputAbstract.__enforce_name`;
* `cell.py:Cell._parse_keyword_modifiers` (both loops, with the in-place updates of the cell's attributes and of
  the parameter dictionary);
* `syntax_node.py:ParametersNode.append` (the key and the duplicate test);
* `surfaces/surface_builder.py:surface_builder`, `Surface.__init__` (enum conversion) and the constant-count tests
  of `AxisPlane`, `CylinderOnAxis`, `CylinderParAxis`, `GeneralPlane`.

All tables come from `Gen/*.lean`, regenerated from the source on every run.
-/
namespace MontePyVerif.Dispatch
open MontePyVerif.Gen

/-- `str.lower()` / `str.upper()` (ASCII is all the lexers let through) -/
def lower (s : String) : String := String.ofList (s.toList.map Char.toLower)
def upper (s : String) : String := String.ofList (s.toList.map Char.toUpper)

/-! ## tokens.py -/

/-- tokens.py:MCNP_Lexer._parse_shortcut, restricted to words made of letters (the only ones that reach the
    keyword tables): `_EXPRESSIONS` tried in dict order; `MULTIPLY` needs a digit and cannot match -/
def parseShortcutWord (w : String) : Option String :=
  let v := lower w
  if v == "i" then some "INTERPOLATE"
  else if v == "j" then some "JUMP"
  else if v == "log" || v == "ilog" then some "LOG_INTERPOLATE"
  else if v == "r" then some "REPEAT"
  else none

/-- tokens.py:MCNP_Lexer.TEXT -/
def mcnpLexerText (keywords : List String) (w : String) : String :=
  match parseShortcutWord w with
  | some t => t
  | none => if keywords.contains (lower w) then "KEYWORD" else "TEXT"

/-- tokens.py:ParticleLexer._expects_particle — the word stands where only a particle designator can:
    directly after the `:` or `,` of a classifier, among the entries of a MODE input (`firstWord` = the first word
    of the text before the token, if any), or as the value of SDEF's PAR (`keyBefore` = the text before the token
    with comments removed and trailing blanks, `&`, `=` stripped, lower case) -/
def expectsParticle (prev : Option Char) (firstWord : Option String) (keyBefore : String) : Bool :=
  let rev := keyBefore.toList.reverse
  (prev == some ':' || prev == some ',') ||
  (match firstWord with | some f => lower f == "mode" | none => false) ||
  (rev.take 3 == ['r', 'a', 'p'] && !(match (rev.drop 3).head? with | some c => c.isAlphanum | none => false))

/-- tokens.py:ParticleLexer.TEXT (CellLexer and DataLexer inherit it): a particle letter where only a particle
    can stand is a PARTICLE (repaired code); otherwise the keyword test comes first -/
def particleLexerText (expects : Bool) (w : String) : String :=
  let t := mcnpLexerText Tokens.particleLexerKeywords w
  if Tokens.particleLexerParticles.contains (lower w) && expects then "PARTICLE"
  else if Tokens.particleLexerKeywords.contains (lower w) then "KEYWORD"
  else if Tokens.particleLexerParticles.contains (lower w) then "PARTICLE"
  else t

/-- tokens.py:SurfaceLexer.TEXT: a surface mnemonic wins over a keyword (`x`, `y`, `z` are both) -/
def surfaceLexerText (w : String) : String :=
  let t := mcnpLexerText Tokens.surfaceLexerKeywords w
  if Tokens.surfaceLexerSurfaceTypes.contains (lower w) then "SURFACE_TYPE" else t

/-! ## data_inputs/data_parser.py, data_inputs/data_input.py -/

/-- data_parser.py:parse_data — the class whose `_class_prefix()` EQUALS the prefix (`DataInput.prefix` is already
    lower case), else the catch-all.  `PREFIX_MATCHES` is a Python set: the model scans it in the translator's
    order; `Props.C12.prefixes_nodup` shows that the order cannot matter. -/
def parseData (prefixLower : String) : String :=
  match Registry.prefixMatches.find? (fun c => c.2.1 == prefixLower) with
  | some c => c.1
  | none => "DataInput"

/-- data_input.py:DataInput._load_correct_parser — the parser a catch-all `DataInput` uses -/
def loadCorrectParser (pfx : String) : String :=
  match Registry.parserPrefixMap.find? (fun r => r.1 == lower pfx) with
  | some r => r.2
  | none => Registry.defaultDataParser

/-- the parser class that ends up parsing the whole card -/
def dataParserOf (prefixLower : String) : String :=
  let cls := parseData prefixLower
  if cls == "DataInput" then loadCorrectParser prefixLower
  else match Registry.classParser.find? (fun r => r.1 == cls) with
    | some r => r.2
    | none => Registry.defaultDataParser

inductive NameErr
  | wrongPrefix | noValidNumber | cannotHaveNumber | needsParticles | cannotHaveParticles
  deriving DecidableEq, Repr

/-- data_input.py:DataInputAbstract.__enforce_name for class `cls` (a row of PREFIX_MATCHES); `number` is the
    classifier's number if any; the catch-all class has `_class_prefix = None` and checks nothing.
    Every error is raised as MalformedInputError. -/
def enforceName (cls : String) (prefixLower : String) (number : Option Int) (hasParticles : Bool) : Option NameErr :=
  match Registry.prefixMatches.find? (fun c => c.1 == cls) with
  | none => none
  | some (_, classPrefix, hasNumber, hasClassifier) =>
    if prefixLower != classPrefix then some .wrongPrefix
    else if hasNumber && !(match number with | some n => decide (n > 0) | none => false) then some .noValidNumber
    else if !hasNumber && number.isSome then some .cannotHaveNumber
    else if hasClassifier == 2 && !hasParticles then some .needsParticles
    else if hasClassifier == 0 && hasParticles then some .cannotHaveParticles
    else none

/-! ## syntax_node.py:ParametersNode, cell.py -/

/-- a parsed cell parameter as far as dispatch looks at it: the classifier's prefix and particle text -/
structure Param where
  pfx : String
  /-- `str(classifier.particles)`: `":n,p"`, or `""` -/
  particles : String
  /-- `str(classifier.number.value)` (canonical decimal digits), or `""` when the classifier has no number -/
  number : String := ""
  deriving DecidableEq, Repr

/-- syntax_node.py:ParametersNode.append — the characters of the dictionary key: prefix, number, particles,
    lower-cased (`str.lower()` leaves the digits of the number alone).  Repaired code: the number is part of it. -/
def Param.keyChars (p : Param) : List Char := (lower p.pfx).toList ++ p.number.toList ++ (lower p.particles).toList

def Param.key (p : Param) : String := String.ofList p.keyChars

/-- syntax_node.py:ParametersNode.append over the parameters in order: `none` = RedundantParameterSpecification -/
def appendAll : List Param → List String → Option (List String)
  | [], keys => some keys
  | p :: ps, keys => if keys.contains p.key then none else appendAll ps (keys ++ [p.key])

/-- the modifier classes a cell parameter is handed to (repaired code: the class prefix must EQUAL the
    classifier's prefix; before the fix it only had to occur inside the key) -/
def routeCellKeyword (prefixLower : String) : List String :=
  (Registry.prefixMatches.filter (fun c =>
      Registry.inputsToProperty.any (fun r => r.1 == c.1) && c.2.1 == prefixLower)).map (·.1)

/-- the state `_parse_keyword_modifiers` mutates: which attributes were set from the cell block, which merged a
    repeated parameter, which repeated parameter was dropped (`cant_repeat`), the prefixes found, the parameter keys -/
structure ModState where
  set : List String := []
  merged : List String := []
  dropped : List String := []
  found : List String := []
  keys : List String := []
  deriving DecidableEq, Repr

def attrOf (cls : String) : String × Bool :=
  match Registry.inputsToProperty.find? (fun r => r.1 == cls) with
  | some r => (r.2.1, r.2.2)
  | none => ("", true)

/-- cell.py:Cell._parse_keyword_modifiers, first loop, one (parameter, class) hit -/
def hit (s : ModState) (p : Param) (cls : String) : ModState :=
  let (attr, banRepeat) := attrOf cls
  let s := { s with found := if s.found.contains (lower p.pfx) then s.found else s.found ++ [lower p.pfx] }
  if !s.set.contains attr then { s with set := s.set ++ [attr] }
  else if !banRepeat then { s with merged := s.merged ++ [attr] }
  else { s with dropped := s.dropped ++ [attr] }

/-- default key of the blank tree a modifier class contributes (`_generate_default_cell_tree`; a free-standing
    cell has no problem, so the blank importance is for `n`) -/
def blankKey (classPrefix : String) : String := if classPrefix == "imp" then "imp:n" else classPrefix

/-- cell.py:Cell._parse_keyword_modifiers, second loop: every modifier class that was not given gets its blank
    tree appended to the parameters (importance only if no key contains "imp") -/
def appendBlanks (s : ModState) : ModState :=
  Registry.inputsToProperty.foldl (fun s r =>
    match Registry.prefixMatches.find? (fun c => c.1 == r.1) with
    | none => s
    | some c =>
      let classPref := c.2.1
      if s.found.contains classPref then s
      else if classPref == "imp" && s.keys.any (fun k => (k.splitOn "imp").length > 1) then s
      else { s with keys := s.keys ++ [blankKey classPref] }) s

/-- cell.py:Cell._parse_keyword_modifiers -/
def parseKeywordModifiers (params : List Param) : Option ModState :=
  match appendAll params [] with
  | none => none   -- raised by the parser action before Cell.__init__ gets that far
  | some keys =>
    let s := params.foldl (fun s p => (routeCellKeyword (lower p.pfx)).foldl (fun s cls => hit s p cls) s)
      { keys := keys }
    some (appendBlanks s)

/-! ## surfaces -/

inductive SurfErr
  | malformedInput   -- the mnemonic is no SurfaceType (unreachable behind the lexer; kept as in the code)
  | valueError       -- wrong number of constants for a specialised class
  deriving DecidableEq, Repr

/-- surface.py:Surface.__init__ — `_convert_to_enum(SurfaceType, switch_to_upper=True)` -/
def convertToEnum (mnemonic : String) : Option String :=
  let v := upper mnemonic
  if Registry.surfaceTypeValues.contains v then some v else none

/-- surface_builder.py:surface_builder — class selection (if/elif chain in source order) -/
def surfaceClass (typeValue : String) : String :=
  match Registry.surfaceBuilderTable.find? (fun r => r.1.contains typeValue) with
  | some r => r.2
  | none => Registry.surfaceBuilderDefault

/-- the `len(self.surface_constants)` test of the class' `__init__` (`[]` = the class has none) -/
def countsOf (cls : String) : List Nat :=
  match Registry.surfaceClassCounts.find? (fun r => r.1 == cls) with
  | some r => r.2
  | none => []

/-- surface_builder.py:surface_builder on a parsed surface with `n` constants (after shortcut expansion) -/
def surfaceBuilder (mnemonic : String) (n : Nat) : Except SurfErr String :=
  match convertToEnum mnemonic with
  | none => .error .malformedInput
  | some v =>
    let cls := surfaceClass v
    let counts := countsOf cls
    if counts.isEmpty || counts.contains n then .ok cls else .error .valueError

def surfaceAccepts (mnemonic : String) (n : Nat) : Bool :=
  match surfaceBuilder mnemonic n with
  | .ok _ => true
  | .error _ => false

end MontePyVerif.Dispatch
