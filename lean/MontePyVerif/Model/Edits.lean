/-! # Model.Edits — heap model of MontePy's property setters and of what `_update_values` pulls into the tree (C03)

Import-free, total, executable.  One definition per Python function (comment `file:function`).

State.  `ValueNode`s are Python objects that are *shared* between syntax trees and semantic objects, so they live
in an explicit heap `NodeId → VNode`.  Objects are addressed by their position in their collection; an attribute
that holds a `ValueNode` is a `Slot` (`Cell._number`, `Cell._density_node`, the `data[0]` node of the tree stored
under a particle in `Importance._particle_importances`, `Volume._volume`, `LatticeInput._lattice`, the surface
constants, `Material._number`, `MaterialComponent._fraction`, `Transform._number`).  `slot` says which node the
*setter* writes, `tree` says which node sits at the position of the object's syntax tree that is *printed* for that
attribute.  Attributes that are plain Python values or pointers to other objects are `Field`s.

Not modelled: number formatting (C05), shortcut recompression of data-block cards (C08), placement (C09),
geometry (C02), matrix fills, `Isotope`.  The nodes that `_update_values` fills from pointees (`mat_number`,
`U=`, `FILL=`, the surface pointer and modifier nodes) are modelled by the value assigned to them, not as heap nodes.
`ValueNode.value`'s `abs()` for signed nodes is the identity on every value a setter of a signed node lets through
(density and fraction validators reject negatives), so the assignment is modelled as plain assignment. -/
namespace MontePyVerif.Edits

abbrev NodeId := Nat

/-- Python values that reach a setter (what `isinstance` distinguishes). -/
inductive PyVal where
  | none | bool (b : Bool) | int (n : Int) | float (q : Rat) | str (s : String) | other
deriving DecidableEq, Repr

/-- the value held by a `ValueNode` -/
inductive Val where
  | num (q : Rat) | str (s : String)
deriving DecidableEq, Repr

/-- syntax_node.py:ValueNode — `_value`, `is_negatable_*`, `_is_neg` -/
structure VNode where
  value : Option Val
  negatable : Bool
  isNeg : Option Bool
deriving DecidableEq, Repr

/-- attributes that hold a `ValueNode` which a public setter writes -/
inductive Slot where
  | cellNumber (i : Nat) | cellDensity (i : Nat) | cellImp (i : Nat) (part : String)
  | cellVol (i : Nat) | cellLat (i : Nat)
  | surfNumber (i : Nat) | surfConst (i k : Nat)
  | matNumber (i : Nat) | matFrac (i k : Nat) | trNumber (i : Nat)
deriving DecidableEq, Repr

/-- attributes that are plain values / pointers (object position in its collection) -/
inductive Field where
  | cellMat (i : Nat) | cellAtomDens (i : Nat) | cellUni (i : Nat) | cellNotTrunc (i : Nat)
  | cellFillUni (i : Nat) | cellFillTr (i : Nat)
  | surfReflect (i : Nat) | surfWhite (i : Nat) | surfTr (i : Nat) | surfPer (i : Nat)
  | uniNumber (u : Nat) | trDisp (t : Nat) | trRot (t : Nat) | trDeg (t : Nat) | trM2A (t : Nat)
  | matLaws (m : Nat) | mode | title
deriving DecidableEq, Repr

/-- what can be observed of one quantity -/
inductive Obs where
  | absent
  | val (v : Option Val)
  | ptr (o : Option Nat)
  | flag (b : Bool)
  | int (n : Int)
  | vec (xs : List Rat)
  | strs (xs : Option (List String))
  | text (s : String)
deriving DecidableEq, Repr

inductive Quantity where
  | node (s : Slot) | field (f : Field)
deriving DecidableEq, Repr

inductive SurfKind where
  | generic | axisPlane | cylOnAxis | cylParAxis
deriving DecidableEq, Repr

inductive ErrKind where
  | typeError | valueError | numberConflict | particleNotInProblem | keyError | indexError | notApplicable
deriving DecidableEq, Repr

structure Problem where
  heap : NodeId → VNode
  next : NodeId
  slot : Slot → Option NodeId
  tree : Slot → Option NodeId
  field : Field → Obs
  /-- keys of `Importance._particle_importances` of cell `i`, in dict order -/
  impKeys : Nat → List String
  ncells : Nat
  nsurfs : Nat
  nmats : Nat
  ntrs : Nat
  nunis : Nat
  surfKind : Nat → SurfKind
  nconst : Nat → Nat

abbrev AbstractProblem := Quantity → Obs

/-- abstraction: the value every quantity has when read back through the API -/
def α (p : Problem) : AbstractProblem
  | .node s => match p.slot s with
    | none => .absent
    | some id => .val (p.heap id).value
  | .field f => p.field f

def upd {κ : Type} [DecidableEq κ] {β : Type} (f : κ → β) (k : κ) (v : β) : κ → β :=
  fun j => if j = k then v else f j

/-- syntax_node.py:ValueNode.value (setter) -/
def Problem.write (p : Problem) (id : NodeId) (v : Option Val) : Problem :=
  { p with heap := upd p.heap id { p.heap id with value := v } }

/-! ## primitive state changes a setter performs -/
inductive Action where
  /-- `node.value = v` on the node the attribute holds.  For the importance of a particle this is
      importance.py:Importance.__setitem__ after its checks: make the tree if the particle has none, give the
      particle its own copy if the tree is stored under another particle too, then write. -/
  | write (s : Slot) (v : Option Val)
  | setField (f : Field) (o : Obs)
deriving Repr

/-- is the tree of `part` in cell `i` stored under another particle as well (`other_tree is tree`) -/
def sharedImp (p : Problem) (i : Nat) (part : String) (id : NodeId) : Bool :=
  (p.impKeys i).any (fun b => b ≠ part && p.slot (.cellImp i b) == some id)

/-- importance.py:Importance.__setitem__ (the part after the checks) -/
def setImp (p : Problem) (i : Nat) (part : String) (v : Option Val) : Problem :=
  let s := Slot.cellImp i part
  match p.slot s with
  | none =>
    -- importance.py:Importance._generate_default_cell_tree(particle): a new tree with a new node 0.0
    let id := p.next
    let p1 : Problem := { p with
      next := id + 1
      heap := upd p.heap id { value := some (.num 0), negatable := false, isNeg := none }
      slot := upd p.slot s (some id)
      tree := upd p.tree s (some id)
      impKeys := upd p.impKeys i (p.impKeys i ++ [part]) }
    p1.write id v
  | some id =>
    if sharedImp p i part id then
      -- copy.deepcopy(tree): a new node with the same content, stored under this particle only
      let id' := p.next
      let p1 : Problem := { p with
        next := id' + 1
        heap := upd p.heap id' (p.heap id)
        slot := upd p.slot s (some id')
        tree := upd p.tree s (some id') }
      p1.write id' v
    else p.write id v

def execAction (p : Problem) : Action → Problem
  | .write (.cellImp i part) v => setImp p i part v
  | .write s v => match p.slot s with
    | some id => p.write id v
    | none => p
  | .setField f o => { p with field := upd p.field f o }

def execActions (p : Problem) (as : List Action) : Problem := as.foldl execAction p

/-! ## the setters: checks as written, then the actions -/

def pyIsNumber : PyVal → Bool
  | .int _ | .float _ | .bool _ => true
  | _ => false

/-- `float(value)` / the numeric value of a Python number -/
def pyNum : PyVal → Option Rat
  | .int n => some (n : Rat)
  | .float q => some q
  | .bool b => some (if b then 1 else 0)
  | _ => none

def numbersInUse (p : Problem) (mk : Nat → Slot) (n : Nat) : List Rat :=
  (List.range n).filterMap (fun i => match p.slot (mk i) with
    | some id => match (p.heap id).value with
      | some (.num q) => some q
      | _ => none
    | none => none)

def uniNumbersInUse (p : Problem) : List Int :=
  (List.range p.nunis).filterMap (fun u => match p.field (.uniNumber u) with
    | .int n => some n
    | _ => none)

def modeParts (p : Problem) : List String :=
  match p.field .mode with
  | .strs (some xs) => xs
  | _ => []

/-- insertion into the sorted, duplicate-free list that stands for the Python set -/
def setInsert (x : String) : List String → List String
  | [] => [x]
  | y :: ys => if x = y then y :: ys else if x < y then x :: y :: ys else y :: setInsert x ys

def setOf (xs : List String) : List String := xs.foldl (fun acc x => setInsert x acc) []

/-- utilities.py:make_prop_val_node setter for an object number
    (cell.py:_number_validator, surface.py:_enforce_numbers, material.py:_number_validator, transform.py:_enforce_number) -/
def setNumber (p : Problem) (mk : Nat → Slot) (count i : Nat) (allowFloat : Bool) (v : PyVal) : Except ErrKind (List Action) :=
  if i ≥ count then .error .indexError else
  match v with
  | .int n =>
    if n ≤ 0 then .error .valueError
    else if (numbersInUse p mk count).contains (n : Rat) then .error .numberConflict
    else .ok [.write (mk i) (some (.num n))]
  | .float q =>
    if !allowFloat then .error .typeError
    else
      -- base_type int: int(value) truncates toward zero
      let n : Int := if q < 0 then -((-q).floor) else q.floor
      if n ≤ 0 then .error .valueError
      else if (numbersInUse p mk count).contains (n : Rat) then .error .numberConflict
      else .ok [.write (mk i) (some (.num n))]
  | _ => .error .typeError

/-- utilities.py:make_prop_val_node setter with `types=(float,int[,NoneType])`, `base_type=float` and a validator
    `value < bound → ValueError` (`strict`: `value ≤ bound`) -/
def setFloat (s : Slot) (allowNone : Bool) (lower : Option (Rat × Bool)) (v : PyVal) : Except ErrKind (List Action) :=
  match v with
  | .none => if allowNone then .ok [.write s none] else .error .typeError
  | .bool b => -- bool is an int in Python
    let q : Rat := if b then 1 else 0
    match lower with
    | some (lo, strict) => if q < lo || (strict && q == lo) then .error .valueError else .ok [.write s (some (.num q))]
    | none => .ok [.write s (some (.num q))]
  | .int n =>
    match lower with
    | some (lo, strict) => if (n : Rat) < lo || (strict && (n : Rat) == lo) then .error .valueError else .ok [.write s (some (.num n))]
    | none => .ok [.write s (some (.num n))]
  | .float q =>
    match lower with
    | some (lo, strict) => if q < lo || (strict && q == lo) then .error .valueError else .ok [.write s (some (.num q))]
    | none => .ok [.write s (some (.num q))]
  | _ => .error .typeError

def setBoolField (f : Field) (v : PyVal) : Except ErrKind (List Action) :=
  match v with
  | .bool b => .ok [.setField f (.flag b)]
  | _ => .error .typeError

inductive Edit where
  | cellNumber (i : Nat) (v : PyVal)
  | surfNumber (i : Nat) (v : PyVal)
  | matNumber (i : Nat) (v : PyVal)
  | trNumber (i : Nat) (v : PyVal)
  | uniNumber (u : Nat) (v : PyVal)
  | material (i : Nat) (m : Option Nat)
  | atomDensity (i : Nat) (v : PyVal)
  | massDensity (i : Nat) (v : PyVal)
  | delDensity (i : Nat)
  | importance (i : Nat) (part : String) (v : PyVal)
  | importanceAll (i : Nat) (v : PyVal)
  | volume (i : Nat) (v : PyVal)
  | delVolume (i : Nat)
  | lattice (i : Nat) (v : PyVal)
  | delLattice (i : Nat)
  | universe (i u : Nat)
  | claim (u : Nat) (cells : List Nat)
  | notTruncated (i : Nat) (v : PyVal)
  | fillUniverse (i : Nat) (u : Option Nat)
  | fillTransform (i : Nat) (t : Option Nat)
  | surfConstants (i : Nat) (vs : List PyVal)
  | location (i : Nat) (v : PyVal)
  | radius (i : Nat) (v : PyVal)
  | coordinates (i : Nat) (a b : PyVal)
  | reflecting (i : Nat) (v : PyVal)
  | white (i : Nat) (v : PyVal)
  | surfTransform (i : Nat) (t : Option Nat)
  | periodic (i : Nat) (j : Option Nat)
  | fraction (m k : Nat) (v : PyVal)
  | laws (m : Nat) (ls : List String)
  | displacement (t : Nat) (xs : List Rat)
  | rotation (t : Nat) (xs : List Rat)
  | inDegrees (t : Nat) (v : PyVal)
  | mainToAux (t : Nat) (v : PyVal)
  | modeAdd (part : String)
  | modeRemove (part : String)
  | modeSet (parts : List String)
  | title (s : String)
deriving Repr

def isFloat : PyVal → Bool
  | .float _ => true
  | _ => false

/-- the checks of each setter, in the order of the code, and the assignments it then makes -/
def plan (p : Problem) : Edit → Except ErrKind (List Action)
  -- cell.py:Cell.number
  | .cellNumber i v => setNumber p .cellNumber p.ncells i false v
  -- surfaces/surface.py:Surface.number
  | .surfNumber i v => setNumber p .surfNumber p.nsurfs i false v
  -- data_inputs/material.py:Material.number
  | .matNumber i v => setNumber p .matNumber p.nmats i false v
  -- data_inputs/transform.py:Transform.number  (types (int, float), base_type int)
  | .trNumber i v => setNumber p .trNumber p.ntrs i true v
  -- universe.py:Universe.number
  | .uniNumber u v =>
    if u ≥ p.nunis then .error .indexError else
    match v with
    | .int n =>
      if n ≤ 0 then .error .valueError
      else if (uniNumbersInUse p).contains n then .error .numberConflict
      else .ok [.setField (.uniNumber u) (.int n)]
    | _ => .error .typeError
  -- cell.py:Cell.material  (make_prop_pointer, types (Material, NoneType))
  | .material i m =>
    if i ≥ p.ncells then .error .indexError else
    match m with
    | some k => if k ≥ p.nmats then .error .indexError else .ok [.setField (.cellMat i) (.ptr (some k))]
    | none => .ok [.setField (.cellMat i) (.ptr none)]
  -- cell.py:Cell.atom_density (setter)
  | .atomDensity i v =>
    if i ≥ p.ncells then .error .indexError else
    match pyNum v with
    | none => .error .typeError
    | some q => if q < 0 then .error .valueError
      else .ok [.setField (.cellAtomDens i) (.flag true), .write (.cellDensity i) (some (.num q))]
  -- cell.py:Cell.mass_density (setter)
  | .massDensity i v =>
    if i ≥ p.ncells then .error .indexError else
    match pyNum v with
    | none => .error .typeError
    | some q => if q < 0 then .error .valueError
      else .ok [.setField (.cellAtomDens i) (.flag false), .write (.cellDensity i) (some (.num q))]
  -- cell.py:Cell.atom_density / mass_density (deleter): self._density = None
  | .delDensity i =>
    if i ≥ p.ncells then .error .indexError else .ok [.write (.cellDensity i) none]
  -- data_inputs/importance.py:Importance.__setitem__
  | .importance i part v =>
    if i ≥ p.ncells then .error .indexError else
    if !(modeParts p).contains part then .error .particleNotInProblem else
    match pyNum v with
    | none => .error .typeError
    | some q => if q < 0 then .error .valueError else .ok [.write (.cellImp i part) (some (.num q))]
  -- data_inputs/importance.py:Importance.all (setter): self[particle] = value for every particle of the mode
  | .importanceAll i v =>
    if i ≥ p.ncells then .error .indexError else
    match pyNum v with
    | none => .error .typeError
    | some q => if q < 0 then .error .valueError
      else .ok ((modeParts p).map (fun a => .write (.cellImp i a) (some (.num q))))
  -- data_inputs/volume.py:Volume.volume (setter), validator _ensure_positive
  | .volume i v => if i ≥ p.ncells then .error .indexError else setFloat (.cellVol i) true (some (0, false)) v
  -- data_inputs/volume.py:Volume.volume (deleter; utilities.py:make_prop_val_node deleter)
  | .delVolume i => if i ≥ p.ncells then .error .indexError else .ok [.write (.cellVol i) none]
  -- data_inputs/lattice_input.py:LatticeInput.lattice (setter): base_type Lattice(value)
  | .lattice i v =>
    if i ≥ p.ncells then .error .indexError else
    match v with
    | .none => .ok [.write (.cellLat i) none]
    | .int n => if n = 1 ∨ n = 2 then .ok [.write (.cellLat i) (some (.num n))] else .error .valueError
    | .bool true => .ok [.write (.cellLat i) (some (.num 1))]
    | .bool false => .error .valueError
    | _ => .error .typeError
  -- cell.py:Cell.lattice (deleter)
  | .delLattice i => if i ≥ p.ncells then .error .indexError else .ok [.write (.cellLat i) none]
  -- cell.py:Cell.universe (setter)
  | .universe i u =>
    if i ≥ p.ncells then .error .indexError else if u ≥ p.nunis then .error .indexError
    else .ok [.setField (.cellUni i) (.ptr (some u))]
  -- universe.py:Universe.claim (a list of cells: `for cell in cells: cell.universe = self`; the only thing a move
  -- assigns is the pointer of each cell — in particular not `UniverseInput._not_truncated`)
  | .claim u cells =>
    if u ≥ p.nunis then .error .indexError else if cells.any (fun i => i ≥ p.ncells) then .error .indexError
    else .ok (cells.map (fun i => .setField (.cellUni i) (.ptr (some u))))
  -- cell.py:Cell.not_truncated (setter)
  | .notTruncated i v =>
    if i ≥ p.ncells then .error .indexError else
    match v with
    | .bool b =>
      let inZero := match p.field (.cellUni i) with
        | .ptr (some u) => p.field (.uniNumber u) == .int 0
        | _ => false
      if inZero && b then .error .valueError else .ok [.setField (.cellNotTrunc i) (.flag b)]
    | _ => .error .typeError
  -- data_inputs/fill.py:Fill.universe (setter)
  | .fillUniverse i u =>
    if i ≥ p.ncells then .error .indexError else
    match u with
    | some k => if k ≥ p.nunis then .error .indexError else .ok [.setField (.cellFillUni i) (.ptr (some k))]
    | none => .ok [.setField (.cellFillUni i) (.ptr none)]
  -- data_inputs/fill.py:Fill.transform (setter)
  | .fillTransform i t =>
    if i ≥ p.ncells then .error .indexError else
    match t with
    | some k => if k ≥ p.ntrs then .error .indexError else .ok [.setField (.cellFillTr i) (.ptr (some k))]
    | none => .ok [.setField (.cellFillTr i) (.ptr none)]
  -- surfaces/surface.py:Surface.surface_constants (setter)
  | .surfConstants i vs =>
    if i ≥ p.nsurfs then .error .indexError else
    if vs.length ≠ p.nconst i then .error .valueError
    else if vs.all isFloat then
      .ok ((List.range vs.length).filterMap (fun k => match (vs[k]? : Option PyVal) with
        | some (PyVal.float q) => some (Action.write (.surfConst i k) (some (.num q)))
        | _ => none))
    else .error .typeError
  -- surfaces/axis_plane.py:AxisPlane.location
  | .location i v =>
    if i ≥ p.nsurfs then .error .indexError else
    if p.surfKind i = .axisPlane then setFloat (.surfConst i 0) false none v else .error .notApplicable
  -- surfaces/cylinder_on_axis.py:CylinderOnAxis.radius, surfaces/cylinder_par_axis.py:CylinderParAxis.radius
  | .radius i v =>
    if i ≥ p.nsurfs then .error .indexError else
    match p.surfKind i with
    | .cylOnAxis => setFloat (.surfConst i 0) false (some (0, false)) v
    | .cylParAxis => setFloat (.surfConst i 2) false (some (0, false)) v
    | _ => .error .notApplicable
  -- surfaces/cylinder_par_axis.py:CylinderParAxis.coordinates (setter): values stored as given
  | .coordinates i a b =>
    if i ≥ p.nsurfs then .error .indexError else
    if p.surfKind i = .cylParAxis then
      match a, b with
      | .bool _, _ | _, .bool _ => .error .notApplicable
      | a, b => match pyNum a, pyNum b with
        | some x, some y => .ok [.write (.surfConst i 0) (some (.num x)), .write (.surfConst i 1) (some (.num y))]
        | _, _ => .error .typeError
    else .error .notApplicable
  -- surfaces/surface.py:Surface.is_reflecting / is_white_boundary
  | .reflecting i v => if i ≥ p.nsurfs then .error .indexError else setBoolField (.surfReflect i) v
  | .white i v => if i ≥ p.nsurfs then .error .indexError else setBoolField (.surfWhite i) v
  -- surfaces/surface.py:Surface.transform (make_prop_pointer, deletable)
  | .surfTransform i t =>
    if i ≥ p.nsurfs then .error .indexError else
    match t with
    | some k => if k ≥ p.ntrs then .error .indexError else .ok [.setField (.surfTr i) (.ptr (some k))]
    | none => .ok [.setField (.surfTr i) (.ptr none)]
  -- surfaces/surface.py:Surface.periodic_surface (types=() : type(self), deletable)
  | .periodic i j =>
    if i ≥ p.nsurfs then .error .indexError else
    match j with
    | some k =>
      if k ≥ p.nsurfs then .error .indexError
      else if p.surfKind k = p.surfKind i then .ok [.setField (.surfPer i) (.ptr (some k))]
      else .error .typeError
    | none => .ok [.setField (.surfPer i) (.ptr none)]
  -- data_inputs/material_component.py:MaterialComponent.fraction, validator _enforce_positive (≤ 0 rejected)
  | .fraction m k v =>
    if m ≥ p.nmats then .error .indexError else
    match p.slot (.matFrac m k) with
    | none => .error .indexError
    | some _ => setFloat (.matFrac m k) false (some (0, true)) v
  -- data_inputs/thermal_scattering.py:ThermalScatteringLaw.thermal_scattering_laws (setter)
  | .laws m ls =>
    if m ≥ p.nmats then .error .indexError else
    match p.field (.matLaws m) with
    | .strs (some _) => .ok [.setField (.matLaws m) (.strs (some ls))]
    | _ => .error .notApplicable
  -- data_inputs/transform.py:Transform.displacement_vector / rotation_matrix (setters)
  | .displacement t xs =>
    if t ≥ p.ntrs then .error .indexError else
    if xs.length ≠ 3 then .error .valueError else .ok [.setField (.trDisp t) (.vec xs)]
  | .rotation t xs =>
    if t ≥ p.ntrs then .error .indexError else
    if xs.length < 5 ∨ xs.length > 9 then .error .valueError else .ok [.setField (.trRot t) (.vec xs)]
  -- data_inputs/transform.py:Transform.is_in_degrees / is_main_to_aux (make_prop_pointer, bool)
  | .inDegrees t v => if t ≥ p.ntrs then .error .indexError else setBoolField (.trDeg t) v
  | .mainToAux t v => if t ≥ p.ntrs then .error .indexError else setBoolField (.trM2A t) v
  -- data_inputs/mode.py:Mode.add / remove / set
  | .modeAdd part => .ok [.setField .mode (.strs (some (setInsert part (modeParts p))))]
  | .modeRemove part =>
    if (modeParts p).contains part then .ok [.setField .mode (.strs (some ((modeParts p).filter (· ≠ part))))]
    else .error .keyError
  | .modeSet parts => .ok [.setField .mode (.strs (some (setOf parts)))]
  -- mcnp_problem.py:MCNP_Problem.title (setter)
  | .title s => .ok [.setField .title (.text s)]

/-- one public setter call: an exception leaves the problem as it was (every check precedes every assignment) -/
def applyEdit (p : Problem) (e : Edit) : Except ErrKind Problem :=
  match plan p e with
  | .ok as => .ok (execActions p as)
  | .error k => .error k

def applyEdits (p : Problem) : List Edit → Except ErrKind Problem
  | [] => .ok p
  | e :: es => match applyEdit p e with
    | .ok p' => applyEdits p' es
    | .error k => .error k

/-! ## what is written

`_update_values` of each object pulls numbers from pointees into the tree just before formatting; `written`
gives, per position of the file, the value that is formatted there.  Node-backed positions read the node that
is in the tree *after* the relinking some `_update_cell_values` do. -/

/-- data_inputs/volume.py:Volume._update_cell_values, data_inputs/lattice_input.py:LatticeInput._update_cell_values:
    the semantic node is swapped into the tree -/
def relinked : Slot → Bool
  | .cellVol _ | .cellLat _ => true
  | _ => false

def treeAfterUpdate (p : Problem) (s : Slot) : Option NodeId :=
  if relinked s then p.slot s else p.tree s

inductive WKey where
  | node (s : Slot)
  | cellMaterial (i : Nat) | cellDensitySign (i : Nat) | cellU (i : Nat) | cellFill (i : Nat) | cellFillTr (i : Nat)
  | surfModifier (i : Nat) | surfPointer (i : Nat)
  | field (f : Field)
deriving DecidableEq, Repr

def nodeNumber (p : Problem) (s : Slot) : Obs :=
  match p.slot s with
  | some id => .val (p.heap id).value
  | none => .absent

/-- the printed value of the node at the tree position of `s` -/
def writtenNode (p : Problem) (s : Slot) : Obs :=
  match treeAfterUpdate p s with
  | some id => .val (p.heap id).value
  | none => .absent

def written (p : Problem) : WKey → Obs
  | .node s => writtenNode p s
  -- cell.py:Cell._update_values: mat_number.value = material.number or 0
  | .cellMaterial i => match p.field (.cellMat i) with
    | .ptr (some m) => nodeNumber p (.matNumber m)
    | _ => .val (some (.num 0))
  -- cell.py:Cell._update_values: density.is_negative = not is_atom_dens (only with a material)
  | .cellDensitySign i => match p.field (.cellMat i) with
    | .ptr (some _) => (match p.field (.cellAtomDens i) with
      | .flag b => .flag (!b)
      | o => o)
    | _ => .absent
  -- data_inputs/universe_input.py:UniverseInput._update_cell_values / has_information
  | .cellU i => match p.field (.cellUni i) with
    | .ptr (some u) => (match p.field (.uniNumber u), p.field (.cellNotTrunc i) with
      | .int n, .flag nt => if n = 0 then .absent else .int (if nt then -n else n)
      | _, _ => .absent)
    | _ => .absent
  -- data_inputs/fill.py:Fill._update_cell_universes / has_information
  | .cellFill i => match p.field (.cellFillUni i) with
    | .ptr (some u) => p.field (.uniNumber u)
    | _ => .absent
  -- data_inputs/fill.py:Fill._update_cell_values (named transform): the number of the transform between the
  -- parentheses the entry has, or gets when it was read without a transform
  | .cellFillTr i => match p.field (.cellFillUni i), p.field (.cellFillTr i) with
    | .ptr (some _), .ptr (some t) => nodeNumber p (.trNumber t)
    | _, _ => .absent
  -- surfaces/surface.py:Surface._update_values
  | .surfModifier i => match p.field (.surfReflect i), p.field (.surfWhite i) with
    | .flag true, _ => .text "*"
    | _, .flag true => .text "+"
    | _, _ => .absent
  | .surfPointer i => match p.field (.surfTr i), p.field (.surfPer i) with
    | .ptr (some t), _ => (match nodeNumber p (.trNumber t) with
      | .val (some (.num q)) => .val (some (.num q))
      | o => o)
    | _, .ptr (some j) => (match nodeNumber p (.surfNumber j) with
      | .val (some (.num q)) => .val (some (.num (-q)))
      | o => o)
    | _, _ => .absent
  | .field f => p.field f

/-- the same table computed from the abstract problem alone: what the file *should* say -/
def render (a : AbstractProblem) : WKey → Obs
  | .node s => a (.node s)
  | .cellMaterial i => match a (.field (.cellMat i)) with
    | .ptr (some m) => a (.node (.matNumber m))
    | _ => .val (some (.num 0))
  | .cellDensitySign i => match a (.field (.cellMat i)) with
    | .ptr (some _) => (match a (.field (.cellAtomDens i)) with
      | .flag b => .flag (!b)
      | o => o)
    | _ => .absent
  | .cellU i => match a (.field (.cellUni i)) with
    | .ptr (some u) => (match a (.field (.uniNumber u)), a (.field (.cellNotTrunc i)) with
      | .int n, .flag nt => if n = 0 then .absent else .int (if nt then -n else n)
      | _, _ => .absent)
    | _ => .absent
  | .cellFill i => match a (.field (.cellFillUni i)) with
    | .ptr (some u) => a (.field (.uniNumber u))
    | _ => .absent
  | .cellFillTr i => match a (.field (.cellFillUni i)), a (.field (.cellFillTr i)) with
    | .ptr (some _), .ptr (some t) => a (.node (.trNumber t))
    | _, _ => .absent
  | .surfModifier i => match a (.field (.surfReflect i)), a (.field (.surfWhite i)) with
    | .flag true, _ => .text "*"
    | _, .flag true => .text "+"
    | _, _ => .absent
  | .surfPointer i => match a (.field (.surfTr i)), a (.field (.surfPer i)) with
    | .ptr (some t), _ => (match a (.node (.trNumber t)) with
      | .val (some (.num q)) => .val (some (.num q))
      | o => o)
    | _, .ptr (some j) => (match a (.node (.surfNumber j)) with
      | .val (some (.num q)) => .val (some (.num (-q)))
      | o => o)
    | _, _ => .absent
  | .field f => a (.field f)

/-- data_inputs/cell_modifier.py:CellModifierInput._collect_new_values (VOL, LAT),
    data_inputs/importance.py:Importance._collect_new_values (one particle): the nodes of a data-block card,
    one per cell in cell order -/
def dataRow (p : Problem) (mk : Nat → Slot) : List (Option NodeId) :=
  (List.range p.ncells).map (fun i => p.slot (mk i))

def dataRowValues (p : Problem) (mk : Nat → Slot) : List Obs :=
  (List.range p.ncells).map (fun i => α p (.node (mk i)))

/-! ## the invariant -/

def impSiblings (s s' : Slot) : Prop := ∃ i a b, s = .cellImp i a ∧ s' = .cellImp i b

structure Inv (p : Problem) : Prop where
  /-- quantity ↦ node is injective, except that particles of one cell may share a tree (`imp:n,p=1`) -/
  inj : ∀ s s' id, p.slot s = some id → p.slot s' = some id → s = s' ∨ impSiblings s s'
  /-- allocation pointer is above every node in use -/
  bound : ∀ s id, p.slot s = some id → id < p.next
  /-- `_particle_importances` keys are exactly the particles that have a tree -/
  keys : ∀ i a, (p.slot (.cellImp i a)).isSome = true ↔ a ∈ p.impKeys i
  /-- every semantic node is the node at its tree position (VOL/LAT: after `_update_cell_values`) -/
  reach : ∀ s, relinked s = false → p.tree s = p.slot s

/-- executable check of `Inv` on a finite list of slots (used by the driver on the state serialised from the live objects) -/
def invCheck (p : Problem) (slots : List Slot) : Bool :=
  slots.all (fun s => match p.slot s with
    | none => true
    | some id =>
      decide (id < p.next) &&
      (relinked s || p.tree s == some id) &&
      slots.all (fun s' => s == s' || p.slot s' != some id ||
        (match s, s' with
         | .cellImp i _, .cellImp j _ => i == j
         | _, _ => false)))

end MontePyVerif.Edits
