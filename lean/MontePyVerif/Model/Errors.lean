import MontePyVerif.Gen.Errors
/-!
# Model.Errors — the error policy of `read_input` (property C13)

Mirrors, function by function, the exception-mapping layer of MontePy's read path as decision functions over the
generated tables of `Gen/Errors.lean` (class hierarchy from the live classes, `except` lists from the AST), and the
stage structure of `MCNP_Problem.parse_input` as a total function on an abstract description of a file.

What is NOT modelled (and cannot be, short of a model of CPython): which exception an arbitrary Python expression
reachable from `read_input` throws.  An abstract file *says* what goes wrong where (`Fault`); the model decides what
the layers of handlers make of it.  "No internal exception escapes from any position of any input" is therefore not a
theorem of this development; it is explored on the real code by corruption enumeration (tools/props/c13.py) and
labelled as exploration in the evidence.
-/
namespace MontePyVerif.Errors
open MontePyVerif.Gen.Errors

/-- `parse_input(check_input=...)` -/
inductive Mode | normal | check
  deriving DecidableEq, Repr

/-- Python's `except (A, B, ...)`: the clause takes `c` iff `c` is a subclass of one of the listed classes. -/
def handled (r : Region) (c : Cls) : Bool := (handlers r).any (fun h => isSubclass c h)

/-- what a guarded region does with an exception of class `c` raised inside it -/
inductive Outcome
  | warnAndContinue          -- check mode: `warnings.warn(...)`, go on
  | raise (c : Cls)          -- normal mode: `raise e` (the handler re-raises the class it caught)
  | leak (c : Cls)           -- no clause matches: the exception propagates unchanged
  deriving DecidableEq, Repr

/-- mcnp_problem.py:parse_input (both handlers), mcnp_problem.py:__update_internal_pointers.handle_error,
    cells.py:Cells.update_pointers.handle_error, cells.py:__setup_blank_cell_modifiers — all have this shape -/
def outcome (r : Region) (c : Cls) (m : Mode) : Outcome :=
  if handled r c then (match m with | .check => .warnAndContinue | .normal => .raise c) else .leak c

/-- mcnp_object.py:MCNP_Object.__init__ — `except ValueError as e: raise MalformedInputError(...)` around
    `parser.parse(input.tokenize(), input)` -/
def objectInitMap (c : Cls) : Cls := if handled .objectInit c then .MalformedInputError else c

/-- mcnp_problem.py:parse_input — the try around `obj = obj_parser(input)`:
    `except (MalformedInputError, UnknownElement): raise` / `except ValueError as e: raise MalformedInputError(...)` -/
def constructMap (c : Cls) : Cls :=
  if handled .parseInputConstructKeep c then c
  else if handled .parseInputConstructMap c then .MalformedInputError
  else c

/-- input_syntax_reader.py:read_data.flush_input — `ReadInput(...)` raises plain ValueError for an input that is not
    a read input (then the input is yielded) and ParsingError for a malformed read input (re-raised). -/
inductive Flush | yieldInput | reraise (c : Cls) | leak (c : Cls)
  deriving DecidableEq, Repr

def flushInput (c : Cls) : Flush :=
  if handled .flushInput c then (if isSubclass c .ParsingError then .reraise c else .yieldInput) else .leak c

/-! ## Abstract files -/

/-- where, inside `obj_parser(input)`, the exception is raised -/
inductive Where
  | parser      -- inside `parser.parse(...)` (lexer, grammar rule): within MCNP_Object.__init__'s try
  | treeNone    -- the parser returned None: `raise ParsingError` after the try (class field unused)
  | ctor        -- in the subclass constructor, after MCNP_Object.__init__ returned
  deriving DecidableEq, Repr

structure Fault where
  site : Where
  cls : Cls
  deriving DecidableEq, Repr

/-- what the linking stage needs to know about an input -/
inductive Card
  | cell (num mat : Nat) (surfs comps : List Nat) (mods : List Nat)   -- mods: per-cell data kinds set in the cell block
  | surface (num : Nat) (transform periodic : Option Nat)
  | material (num : Nat)
  | transform (num : Nat)
  | thermal (num : Nat)                 -- MTn
  | mode
  | cellMod (kind : Nat) (cantRepeat : Bool) (entries : Nat)   -- data-block IMP / VOL / U / LAT / FILL (Cell._INPUTS_TO_PROPERTY) with its number of entries
  | other
  deriving DecidableEq, Repr

inductive Item
  | input (card : Card) (fault : Option Fault)   -- an input yielded by the reader
  | readerRaise (c : Cls)                         -- the reader itself raises here: vertical format (read_data),
                                                  -- malformed read input (flush_input re-raise), missing target (open)
  deriving DecidableEq, Repr

structure St where
  cells : List Card := []
  surfaces : List Card := []
  data : List Card := []
  materials : List Nat := []
  transforms : List Nat := []
  warnings : List Cls := []
  deriving DecidableEq, Repr

/-- how the call ends -/
inductive Final
  | returned
  | raised (c : Cls) (by_ : Option Region)   -- `some r`: re-raised by region r's handler; `none`: no handler matched
  deriving DecidableEq, Repr

structure Result where
  final : Final
  st : St
  deriving DecidableEq, Repr

def Card.num : Card → Nat
  | .cell n .. => n | .surface n .. => n | .material n => n | .transform n => n | .thermal n => n | _ => 0

/-- the class that leaves `obj_parser(input)` (after both mapping layers) -/
def constructClass (f : Fault) : Cls :=
  match f.site with
  | .parser => constructMap (objectInitMap f.cls)
  | .treeNone => constructMap .ParsingError
  | .ctor => constructMap f.cls

/-- numbered_object_collection.py:append via parse_input: `obj_container.append(obj)`, then the materials /
    transforms collections.  Returns the state AT the raise point and whether NumberConflictError is raised. -/
def appendCard (s : St) (c : Card) : St × Bool :=
  match c with
  | .cell n .. =>
      if (s.cells.map Card.num).contains n then (s, true) else ({ s with cells := s.cells ++ [c] }, false)
  | .surface n .. =>
      if (s.surfaces.map Card.num).contains n then (s, true) else ({ s with surfaces := s.surfaces ++ [c] }, false)
  | .material n =>
      let s1 := { s with data := s.data ++ [c] }
      if s.materials.contains n then (s1, true) else ({ s1 with materials := s.materials ++ [n] }, false)
  | .transform n =>
      let s1 := { s with data := s.data ++ [c] }
      if s.transforms.contains n then (s1, true) else ({ s1 with transforms := s.transforms ++ [n] }, false)
  | _ => ({ s with data := s.data ++ [c] }, false)

/-- result of handling one item of the stream -/
inductive Step
  | next (s : St)                    -- go on with the next input
  | stop (s : St)                    -- check mode, outer handler: reading is over, linking follows
  | fail (s : St) (c : Cls) (r : Option Region)
  deriving DecidableEq, Repr

/-- an exception of class `c` reaches parse_input's OUTER handler -/
def outerHandle (m : Mode) (s : St) (c : Cls) : Step :=
  match outcome .parseInputOuter c m with
  | .warnAndContinue => .stop { s with warnings := s.warnings ++ [c] }
  | .raise c => .fail s c (some .parseInputOuter)
  | .leak c => .fail s c none

/-- an exception of class `c` is raised inside parse_input's INNER (per-input) try -/
def innerHandle (m : Mode) (s : St) (c : Cls) : Step :=
  match outcome .parseInputInner c m with
  | .warnAndContinue => .next { s with warnings := s.warnings ++ [c] }
  | .raise c => .fail s c (some .parseInputInner)
  | .leak c => outerHandle m s c

/-- mcnp_problem.py:parse_input — body of the `for` loop for one item of the reader's stream -/
def stepItem (m : Mode) (s : St) : Item → Step
  | .readerRaise c => outerHandle m s c
  | .input card fault =>
    -- flush_input: `ReadInput(...)` raises plain ValueError for an ordinary input
    match flushInput .ValueError with
    | .yieldInput =>
      match fault with
      | some f => innerHandle m s (constructClass f)
      | none =>
        let (s1, conflict) := appendCard s card
        if conflict then innerHandle m s1 .NumberConflictError else .next s1
    | .reraise c => outerHandle m s c
    | .leak c => outerHandle m s c

/-- the `for` loop of parse_input over the reader's stream -/
def readItems (m : Mode) (s : St) : List Item → Step
  | [] => .next s
  | it :: rest =>
    match stepItem m s it with
    | .next s1 => readItems m s1 rest
    | other => other

/-! ## Linking: `__update_internal_pointers` -/

def dangling (have_ : List Nat) (refs : List Nat) : Bool := refs.any (fun r => !have_.contains r)

/-- cell.py:Cell.update_pointers + half_space.py:UnitHalfSpace.update_pointers -/
def cellLinkError (s : St) : Card → Option Cls
  | .cell _ mat surfs comps _ =>
      if mat > 0 && !s.materials.contains mat then some .BrokenObjectLinkError
      else if dangling (s.surfaces.map Card.num) surfs then some .BrokenObjectLinkError
      else if dangling (s.cells.map Card.num) comps then some .BrokenObjectLinkError
      else none
  | _ => none

/-- surface.py:Surface.update_pointers (the transform is looked up in the data inputs) -/
def surfaceLinkError (s : St) : Card → Option Cls
  | .surface _ tr per =>
      match per with
      | some p => if (s.surfaces.map Card.num).contains p then
                    (match tr with
                     | some t => if s.data.contains (.transform t) then none else some .BrokenObjectLinkError
                     | none => none)
                  else some .BrokenObjectLinkError
      | none =>
        match tr with
        | some t => if s.data.contains (.transform t) then none else some .BrokenObjectLinkError
        | none => none
  | _ => none

/-! ### the loop over the data inputs, on a list that `Material.update_pointers` shortens

`self._data_inputs` is one Python list.  `Material.update_pointers(data_inputs)` scans a copy of it and REMOVES every
MT input it attaches from the list itself; `ThermalScatteringLaw.update_pointers` looks its material up in the list.
The loop of `__update_internal_pointers` therefore runs over a list that changes under it — unless it iterates over a
snapshot.  Both semantics are modelled; identities are the positions in the list handed over by the reading stage. -/

/-- state of the loop: the live list (identity, card), the materials that hold a law, the errors, the inputs whose
    `update_pointers` ran (in order) -/
structure DSt where
  live : List (Nat × Card)
  hasLaw : List Nat := []
  events : List (Region × Cls) := []
  visited : List Nat := []
  deriving DecidableEq, Repr

/-- material.py:Material.update_pointers for the material with identity `mid` and number `n`:
    `for input in list(data_inputs)` over the snapshot `snap`; attaches (and removes from the live list) the first MT
    of its number, raises MalformedInputError at a second one (the scan ends there) -/
def matScan (mid n : Nat) : List (Nat × Card) → DSt → DSt
  | [], st => st
  | (j, .thermal m) :: rest, st =>
    if m == n then
      if st.hasLaw.contains mid then
        { st with events := st.events ++ [(Region.uipDataLoop, Cls.MalformedInputError)] }
      else matScan mid n rest { st with hasLaw := st.hasLaw ++ [mid], live := st.live.filter (fun x => x.1 != j) }
    else matScan mid n rest st
  | _ :: rest, st => matScan mid n rest st

/-- one pass of the loop body: `input.update_pointers(self._data_inputs)` inside the try of `uipDataLoop` -/
def visit (st : DSt) (x : Nat × Card) : DSt :=
  let st1 : DSt := { st with visited := st.visited ++ [x.1] }
  match x.2 with
  | .material n => matScan x.1 n st1.live st1
  | .thermal n =>
    -- thermal_scattering.py:ThermalScatteringLaw.update_pointers: MT without M
    if st1.live.any (fun y => y.2 == .material n) then st1
    else { st1 with events := st1.events ++ [(Region.uipDataLoop, Cls.MalformedInputError)] }
  | _ => st1

def indexed (data : List Card) : List (Nat × Card) := (List.range data.length).zip data

/-- `for input in list(self._data_inputs):` — the loop runs over a snapshot -/
def linkDataSnapshot (data : List Card) : DSt := (indexed data).foldl visit { live := indexed data }

/-- `for input in self._data_inputs:` — Python's list iterator on the live list: position `i`, then `i+1`, until the
    list (as it is then) is exhausted -/
def linkDataLiveGo : Nat → Nat → DSt → DSt
  | 0, _, st => st
  | fuel + 1, i, st =>
    match st.live[i]? with
    | none => st
    | some x => linkDataLiveGo fuel (i + 1) (visit st x)

def linkDataLive (data : List Card) : DSt := linkDataLiveGo data.length 0 { live := indexed data }

/-- the errors of the data loop as the code has it (snapshot: mcnp_problem.py iterates `list(self._data_inputs)`;
    `Gen.Errors.probeDataLoop` records the behaviour of the working tree, obligation `C13_link_probe`) -/
def dataLoopEvents (data : List Card) : List (Region × Cls) := (linkDataSnapshot data).events

/-- cells.py:Cells.update_pointers, loop over the data inputs: a once-only input twice, and `merge` of a second
    data-block input of a class whose `merge` always raises (VOL, U, LAT, FILL; `cantRepeat`). -/
def modifierEvents : List Nat → List Card → List (Region × Cls)
  | _, [] => []
  | seen, .cellMod k cant _ :: rest =>
      (if cant && seen.contains k then [(Region.cellsModifierOnce, Cls.MalformedInputError), (Region.cellsModifierMerge, Cls.MalformedInputError)] else [])
        ++ modifierEvents (if seen.contains k then seen else seen ++ [k]) rest
  | seen, _ :: rest => modifierEvents seen rest

def cellHasMod (k : Nat) : Card → Bool
  | .cell _ _ _ _ mods => mods.contains k
  | _ => false

def dataModKinds (data : List Card) : List Nat :=
  data.foldl (fun acc c => match c with | .cellMod k _ _ => if acc.contains k then acc else acc ++ [k] | _ => acc) []

/-- the number of entries of the first data-block input of kind `k` (the one `Cells.update_pointers` keeps) -/
def modEntries (k : Nat) : List Card → Nat
  | [] => 0
  | .cellMod k' _ n :: rest => if k' == k then n else modEntries k rest
  | _ :: rest => modEntries k rest

/-- cells.py:__setup_blank_cell_modifiers → push_to_cells: cell_modifier.py:_check_redundant_definitions (a kind
    given in the data block and in some cell), then volume.py / importance.py / universe_input.py /
    lattice_input.py / fill.py:push_to_cells (more entries than there are cells) -/
def blankModifierEvents (s : St) : List (Region × Cls) :=
  (dataModKinds s.data).filterMap (fun k =>
    if s.cells.any (cellHasMod k) || decide (modEntries k s.data > s.cells.length)
    then some (Region.cellsBlankModifiers, Cls.MalformedInputError) else none)

def optEvents (r : Region) (f : Card → Option Cls) (cs : List Card) : List (Region × Cls) :=
  cs.filterMap (fun c => (f c).map (fun e => (r, e)))

/-- every deliberate error of the linking stage, in execution order -/
def linkEvents (s : St) : List (Region × Cls) :=
  (if (s.data.filter (· == .mode)).length ≥ 2 then [(Region.uipLoadData, Cls.MalformedInputError)] else [])
    ++ modifierEvents [] s.data
    ++ optEvents .cellsCellLoop (cellLinkError s) s.cells
    ++ blankModifierEvents s
    ++ optEvents .uipSurfaceLoop (surfaceLinkError s) s.surfaces
    ++ dataLoopEvents s.data

/-- `handle_error` over the events -/
def linkRun (m : Mode) (s : St) : List (Region × Cls) → Result
  | [] => { final := .returned, st := s }
  | (r, c) :: rest =>
    match outcome r c m with
    | .warnAndContinue => linkRun m { s with warnings := s.warnings ++ [c] } rest
    | .raise c => { final := .raised c (some r), st := s }
    | .leak c => { final := .raised c none, st := s }

/-- mcnp_problem.py:parse_input as a whole (montepy.read_input = normal mode; `python -m montepy -c` = check mode) -/
def readInput (m : Mode) (file : List Item) : Result :=
  match readItems m {} file with
  | .next s => linkRun m s (linkEvents s)
  | .stop s => linkRun m s (linkEvents s)
  | .fail s c r => { final := .raised c r, st := s }

/-! ## Pairing the flat entry list of a material -/

/-- `ValueError` of the pairing step ("not enough values to unpack" / "zip() argument 2 is shorter") -/
inductive PairErr | leftover
  deriving DecidableEq, Repr

/-- batches of two, every batch unpacked into `(nuclide, fraction)`: a leftover entry raises -/
def pairUpStrict {α : Type} : List α → Except PairErr (List (α × α))
  | [] => .ok []
  | [_] => .error .leftover
  | a :: b :: rest =>
    match pairUpStrict rest with
    | .ok ps => .ok ((a, b) :: ps)
    | .error e => .error e

/-- plain `zip(it, it)`: a leftover entry is dropped -/
def pairUpTrunc {α : Type} : List α → List (α × α)
  | a :: b :: rest => (a, b) :: pairUpTrunc rest
  | _ => []

/-- the pairing step under each idiom the translator knows (`Gen.Errors.Pairing`, from the AST); an idiom it does
    not know pairs nothing (so that no theorem about it can be proved until the model is taught the idiom) -/
def pairUpWith {α : Type} (p : Pairing) (xs : List α) : Except PairErr (List (α × α)) :=
  match p with
  | .batchedUnpack => pairUpStrict xs
  | .zipStrict => pairUpStrict xs
  | .zipTruncating => .ok (pairUpTrunc xs)
  | .unknown => .error .leftover

/-- material.py:Material.__init__, the `ListNode` branch (nuclides written without a library suffix), with the idiom
    found in the source now -/
def pairUp {α : Type} (xs : List α) : Except PairErr (List (α × α)) := pairUpWith materialPairing xs

/-- the class `parse_input` makes of the pairing step's ValueError (constructor, after the guarded parse) -/
def pairErrClass : PairErr → Cls
  | .leftover => constructClass ⟨.ctor, .ValueError⟩

/-! ## Which classes are raised deliberately where (enumerated from the code) -/

/-- argument-type checks of `merge` that reading cannot reach (`other` is always of the same class and level) -/
def argumentChecks : List Cls := [.TypeError, .ValueError]

/-- classes MontePy raises with a `raise` statement inside the region (linking regions: from the AST via
    `Gen.Errors.raises`; the per-input region: the classes that leave `obj_parser` after the two mapping layers,
    the container's NumberConflictError; the outer region: the reader's own errors). -/
def raisedIn : Region → List Cls
  | .uipLoadData => raises .loadDataInputsToObject
  | .cellsModifierOnce => [.MalformedInputError]
  | .cellsModifierMerge => (raises .cellModifierMerge).filter (fun c => !argumentChecks.contains c)
  | .cellsBlankModifiers => (raises .cellModifierPush).filter (fun c => !argumentChecks.contains c)
  | .cellsCellLoop => raises .cellUpdatePointers ++ raises .halfSpaceUpdatePointers ++ raises .unitHalfSpaceUpdatePointers
  | .uipSurfaceLoop => raises .surfaceUpdatePointers
  | .uipDataLoop => raises .materialUpdatePointers ++ raises .thermalUpdatePointers ++ raises .dataInputUpdatePointers
  | .parseInputInner =>
      -- whatever deliberate class a parser rule or constructor raises, after objectInit / constructMap
      (deliberateRaw.map (fun c => constructMap (objectInitMap c))) ++ (deliberateRaw.map constructMap)
        ++ [constructMap .ParsingError] ++ raises .numberedAppend
  | .parseInputOuter => raises .readData ++ (raises .readInputInit).filter (fun c => c != .ValueError) ++ [.FileNotFoundError]
  | .parseInputConstructKeep => []
  | .parseInputConstructMap => []
  | .objectInit => []
  | .flushInput => [.ValueError, .ParsingError]
where
  /-- classes raised by `raise` statements in parser rules and object constructors (grep over montepy/) -/
  deliberateRaw : List Cls :=
    [.MalformedInputError, .ParsingError, .BrokenObjectLinkError, .RedundantParameterSpecification, .UnsupportedFeature,
     .UnknownElement, .ValueError, .TypeError, .ParticleTypeNotInProblem, .ParticleTypeNotInCell, .IllegalState]

/-- the documented set of C13: MalformedInputError and subclasses, NumberConflictError, UnsupportedFeature,
    UnknownElement, ValueError, TypeError, FileNotFoundError -/
def documented (c : Cls) : Bool :=
  isSubclass c .MalformedInputError || c == .NumberConflictError || c == .UnsupportedFeature || c == .UnknownElement
    || isSubclass c .ValueError || c == .TypeError || c == .FileNotFoundError

end MontePyVerif.Errors
