import MontePyVerif.Spec.File
/-!
# Model of the block-wise writer `montepy/mcnp_problem.py: MCNP_Problem.write_to_file` (line order only)

The writer emits: the message block (its lines, then a blank line) if there is one; the title; then
the three lists cells / surfaces / data, each object's lines in order, each list terminated by one
blank line.  In the repaired code the cell-modifier cards that were not in the original data block
(`Cells._run_children_format_for_mcnp`) are emitted *before* the blank line that terminates the data
block, i.e. they are simply further members of `data` here.

A card is the list of physical lines one object formats to (`format_for_mcnp_input`): its first
line and the lines after it (continuations and the comment cards that travel with it).  Comment
cards that precede the first card of a block (leading comments of its first object) are `…Head`.
-/
namespace MontePyVerif.FileWrite
open MontePyVerif.Spec.File

structure WCard where
  first : Str
  rest : List Str

def WCard.lines (c : WCard) : List Str := c.first :: c.rest

structure WProblem where
  message : List Str        -- `[]` = no message block
  title : Str
  cellsHead : List Str
  cells : List WCard
  surfHead : List Str
  surfaces : List WCard
  dataHead : List Str
  data : List WCard

/-- one list of objects followed by its terminating blank line -/
def writeBlock (head : List Str) (cs : List WCard) : List Str :=
  head ++ (cs.map WCard.lines).flatten ++ [[]]

/-- `MCNP_Problem.write_to_file`: the sequence of lines written, given the lines as they go to the file -/
def writeLines (p : WProblem) : List Str :=
  (if p.message.isEmpty then [] else p.message ++ [[]]) ++ [p.title] ++
    (writeBlock p.cellsHead p.cells ++ writeBlock p.surfHead p.surfaces ++ writeBlock p.dataHead p.data)

/-- the writer drops trailing blanks of every line (`fh.write(line.rstrip() + "\n")`, repaired code) -/
def WCard.strip (c : WCard) : WCard := ⟨rstrip c.first, c.rest.map rstrip⟩

def WProblem.strip (p : WProblem) : WProblem :=
  { message := p.message.map rstrip, title := rstrip p.title,
    cellsHead := p.cellsHead.map rstrip, cells := p.cells.map WCard.strip,
    surfHead := p.surfHead.map rstrip, surfaces := p.surfaces.map WCard.strip,
    dataHead := p.dataHead.map rstrip, data := p.data.map WCard.strip }

/-- what `write_to_file` writes for the lines the objects format to -/
def writeFile (p : WProblem) : List Str := writeLines p.strip

end MontePyVerif.FileWrite

namespace MontePyVerif.FileWrite
open MontePyVerif.Spec.File

/-! ## from the objects' formatted lines to cards

`format_for_mcnp_input` of an object returns its leading comment cards (comments that stood before
it in the file), then its first data line, then the rest.  For MCNP a comment card between two
cards belongs to neither; the reader files it with the card whose first line precedes it.  So the
leading comments of object i+1 are appended to the card of object i, and those of the first object
of a block form the block's head. -/

def leading (ls : List Str) : List Str := ls.takeWhile isCommentCard
def afterLeading (ls : List Str) : List Str := ls.dropWhile isCommentCard

/-- `objs`: the line lists of the objects of one block, in order (objects that print nothing are
    dropped by the writer loop and here).  Returns the head comments and the cards.
    One-pass fold; `acc` holds the cards newest first. -/
def assembleAux : List (List Str) → List Str → List WCard → List Str × List WCard
  | [], head, acc => (head, acc.reverse)
  | o :: t, head, acc =>
    match afterLeading o with
    | [] =>
      -- only comment cards (or nothing): they travel with the previous card, or with the head
      (match acc with
       | [] => assembleAux t (head ++ o) acc
       | c :: cs => assembleAux t head ({ c with rest := c.rest ++ o } :: cs))
    | f :: r =>
      (match acc with
       | [] => assembleAux t (head ++ leading o) [⟨f, r⟩]
       | c :: cs => assembleAux t head (⟨f, r⟩ :: { c with rest := c.rest ++ leading o } :: cs))

def assemble (objs : List (List Str)) : List Str × List WCard := assembleAux objs [] []

/-- Boolean versions of the well-formedness predicates of `Props/C01Blocks.lean` (for the driver). -/
def contOKb : Bool → List Str → Bool
  | amp, [] => !amp
  | amp, l :: t => !isBlankLine l &&
      (if isCommentCard l then contOKb amp t
       else (amp || isIndented l) && contOKb (startCard l).2 t)

def cardOKb (c : WCard) : Bool :=
  !isBlankLine c.first && !isCommentCard c.first && !isIndented c.first && contOKb (startCard c.first).2 c.rest

def headOKb (h : List Str) : Bool := h.all (fun l => !isBlankLine l && isCommentCard l)

end MontePyVerif.FileWrite
