import MontePyVerif.Spec.File
/-!
# Model of the block-wise writer `montepy/mcnp_problem.py: MCNP_Problem.write_to_file` (line order only)

The writer emits: the message block (its lines, then a blank line) if there is one; the title; then
the three lists cells / surfaces / data, each object's lines in order, each list terminated by one
blank line.  In the repaired code the cell-modifier cards that were not in the original data block
(`Cells._run_children_format_for_mcnp`) are emitted *before* the blank line that terminates the data
block, i.e. they are simply further members of `data` here.

A card is the list of physical lines one object formats to (`format_for_mcnp_input`): its first
line and the lines after it (continuations and the comment cards that travel with it).  Comment
cards that precede the first card of a block (leading comments of its first object) are `…Head`.
-/
namespace MontePyVerif.FileWrite
open MontePyVerif.Spec.File

structure WCard where
  first : Str
  rest : List Str

def WCard.lines (c : WCard) : List Str := c.first :: c.rest

structure WProblem where
  message : List Str        -- `[]` = no message block
  title : Str
  cellsHead : List Str
  cells : List WCard
  surfHead : List Str
  surfaces : List WCard
  dataHead : List Str
  data : List WCard

/-- one list of objects followed by its terminating blank line -/
def writeBlock (head : List Str) (cs : List WCard) : List Str :=
  head ++ (cs.map WCard.lines).flatten ++ [[]]

/-- `MCNP_Problem.write_to_file`: the sequence of lines written -/
def writeLines (p : WProblem) : List Str :=
  (if p.message.isEmpty then [] else p.message ++ [[]]) ++ [p.title] ++
    (writeBlock p.cellsHead p.cells ++ writeBlock p.surfHead p.surfaces ++ writeBlock p.dataHead p.data)

end MontePyVerif.FileWrite
